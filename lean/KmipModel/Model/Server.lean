/-
  Server — `kmipserver/server.go` (Serve, Shutdown, handleConn) as a transition system, as of the
  CURRENT code: `Serve` registers an accepted connection (`wg.Add`) inside the `shutdownLock`
  critical section and refuses it once `shuttingDown` is set.

  Processes: the accept loop `A`, `Shutdown` `S` (its statements in order, with the two critical
  sections explicit), the 3 s grace timer (a non-deterministic event once armed), and two connection
  slots. A connection is modelled in the ABSTRACTED form of its owner goroutine (`handleConn`; the
  reader / writer goroutines of `conn.go` are covered by `Kmip.SrvConn`): not yet accepted → held by
  `A` (between `Accept` and registration) → goroutine started → connect hook (ok / fails) → idle
  (in `recv`) → handler running (a handler that returns by itself, or one that waits for the
  cancellation of its context) → sending the response (`stream.send`: ends with the response written
  — which needs the client to read it —, with the client gone, or aborted through the server
  context; the receive context plays no role there) → idle again … → leaving (deferred terminate
  hook) → closing (`stream.Close`, which since aa935a6 waits for reader and writer) → finishing
  (`wg.Done`) → ended. `Params.closeWaits = false` is the code before aa935a6: closing (`stream.Close`
  does not wait, `wg.Done`) → winding (reader / writer still on their way out) → ended.
  What the abstraction relies on (`Kmip.C08`): once the owner has closed the stream, reader and
  writer end by themselves; a step of one connection touches no other connection.

  Environment (non-deterministic): clients connect while the listener is open, send a request to an
  idle connection, disconnect at any time; handlers return or wait; `Shutdown` is called at any
  time (once); the timer fires at any time once armed.

  `Params.addUnderLock = false` is the code before 267c9a5 (`wg.Add` after `Accept`, unordered with
  `Shutdown`).

  Two connection slots. The slots are interchangeable (no step distinguishes them), so the state
  keeps them SORTED: the system is the quotient by that symmetry. Why two are enough for the
  properties stated: every obligation after `Shutdown` is either about the shared objects (listener,
  lock, `wg`, contexts, timer) — for which a connection only ever does `Add`(via `A`)/`Done` — or a
  per-connection obligation whose truth depends on that connection and the shared objects alone; a
  second connection is there to exhibit interference through `wg` (one connection leaving must not
  release a `Wait` that another one still holds). More connections only add `Done`s.
-/
import KmipModel.Model.Lts
namespace Kmip.Server
open Kmip.Lts

structure Params where
  addUnderLock : Bool
  /-- `conn.Close` waits for the reader and writer goroutines before returning, hence before the
      owner's `wg.Done` (since aa935a6). -/
  closeWaits : Bool
  deriving Repr, DecidableEq

/-- the code at /repo HEAD. -/
def current : Params := { addUnderLock := true, closeWaits := true }
/-- before aa935a6: `conn.Close` did not wait for readloop and writeloop ("TODO: Wait exit of
    goroutines"). -/
def beforeCloseWaits : Params := { addUnderLock := true, closeWaits := false }
/-- before 267c9a5 (and aa935a6). -/
def oldAddAfterWait : Params := { addUnderLock := false, closeWaits := false }

/-- accept loop (`Serve`). -/
inductive APc where
  | accept        -- srv.listener.Accept()
  | lock          -- [y:srv.accept.beforeAdd] srv.shutdownLock.Lock()      (holds a connection)
  | cs            -- inside the critical section: if srv.shuttingDown … else srv.wg.Add(1)
  | add           -- OLD code: srv.wg.Add(1) without the lock
  | spawn         -- go srv.handleConn(conn)
  | endShutdown   -- returned ErrShutdown
  deriving DecidableEq, Repr, Inhabited

/-- `Shutdown`. -/
inductive SPc where
  | idle          -- not called yet
  | lock          -- srv.shutdownLock.Lock()
  | set           -- srv.shuttingDown = true; Unlock()
  | closeL        -- srv.listener.Close()
  | cancelRecv    -- srv.recvCancel()
  | arm           -- time.AfterFunc(3 s, srv.cancel)
  | wait          -- srv.wg.Wait()
  | stopTm        -- tm.Stop()
  | cancel        -- srv.cancel()
  | returned
  deriving DecidableEq, Repr, Inhabited

inductive Tm where
  | off | armed | stopped | fired
  deriving DecidableEq, Repr, Inhabited

/-- one connection (owner goroutine). -/
inductive CPc where
  | free          -- no client yet
  | held          -- returned by Accept, not registered yet (A is at lock / cs / add / spawn)
  | refused       -- closed by A because the server is shutting down: never served, no goroutine
  | started       -- goroutine running: newConn, then the connect hook
  | idle          -- in stream.recv
  | busy          -- a handler is running (it will return by itself)
  | busySlow      -- a handler is running and waits for the cancellation of its context
  | sending       -- the handler has returned its response: ctx check, stream.send (→ writer → client)
  | leaving       -- deferred: terminate hook (if the connect hook succeeded)
  | closing       -- deferred: stream.Close, wg.Done
  | winding       -- owner ended; reader / writer are still ending
  | finishing     -- (closeWaits only) stream.Close has returned, reader / writer have ended: wg.Done
  | ended
  deriving DecidableEq, Repr, Inhabited

inductive Fault where
  | none
  | wgNegative        -- sync: negative WaitGroup counter (panic)
  | hookTwice         -- terminate hook runs twice for one connection
  | cancelEarly       -- a waiting handler is cancelled by the server context before the grace timer
  | lostEarly         -- the response of a completed handler is abandoned … before the grace timer
  deriving DecidableEq, Repr, Inhabited

/-- WaitGroup counter values (two slots and the accept loop: at most 3). -/
inductive Wg where
  | w0 | w1 | w2 | w3
  deriving DecidableEq, Repr, Inhabited

structure Conn where
  pc : CPc
  hookOk : Bool     -- the connect hook ran and succeeded
  termRan : Bool    -- ghost: the terminate hook has run
  deriving DecidableEq, Repr, Inhabited

structure State where
  a : APc
  s : SPc
  tm : Tm
  fault : Fault
  lClosed : Bool       -- listener closed
  locked : Bool        -- shutdownLock held
  shuttingDown : Bool
  recvCtx : Bool       -- recvCtx cancelled
  srvCtx : Bool        -- server context cancelled
  wg : Wg              -- WaitGroup counter
  c0 : Conn
  c1 : Conn
  deriving DecidableEq, Repr, Inhabited

def freeConn : Conn := { pc := .free, hookOk := false, termRan := false }

def init : State :=
  { a := .accept, s := .idle, tm := .off, fault := .none, lClosed := false, locked := false,
    shuttingDown := false, recvCtx := false, srvCtx := false, wg := .w0, c0 := freeConn, c1 := freeConn }

/-! ### numbering (coding and fast equality tests) -/

def APc.toNat : APc → Nat
  | .accept => 0 | .lock => 1 | .cs => 2 | .add => 3 | .spawn => 4 | .endShutdown => 5
def APc.ofN : Nat → APc
  | 0 => .accept | 1 => .lock | 2 => .cs | 3 => .add | 4 => .spawn | _ => .endShutdown
def SPc.toNat : SPc → Nat
  | .idle => 0 | .lock => 1 | .set => 2 | .closeL => 3 | .cancelRecv => 4 | .arm => 5 | .wait => 6
  | .stopTm => 7 | .cancel => 8 | .returned => 9
def SPc.ofN : Nat → SPc
  | 0 => .idle | 1 => .lock | 2 => .set | 3 => .closeL | 4 => .cancelRecv | 5 => .arm | 6 => .wait
  | 7 => .stopTm | 8 => .cancel | _ => .returned
def Tm.toNat : Tm → Nat | .off => 0 | .armed => 1 | .stopped => 2 | .fired => 3
def Tm.ofN : Nat → Tm | 0 => .off | 1 => .armed | 2 => .stopped | _ => .fired
def CPc.toNat : CPc → Nat
  | .free => 0 | .held => 1 | .refused => 2 | .started => 3 | .idle => 4 | .busy => 5
  | .busySlow => 6 | .leaving => 7 | .winding => 8 | .ended => 9 | .closing => 10 | .sending => 11
  | .finishing => 12
def CPc.ofN : Nat → CPc
  | 0 => .free | 1 => .held | 2 => .refused | 3 => .started | 4 => .idle | 5 => .busy
  | 6 => .busySlow | 7 => .leaving | 8 => .winding | 9 => .ended | 10 => .closing | 11 => .sending
  | _ => .finishing
def Fault.toNat : Fault → Nat
  | .none => 0 | .wgNegative => 1 | .hookTwice => 2 | .cancelEarly => 3 | .lostEarly => 4
def Fault.ofN : Nat → Fault
  | 0 => .none | 1 => .wgNegative | 2 => .hookTwice | 3 => .cancelEarly | _ => .lostEarly
def Wg.toNat : Wg → Nat | .w0 => 0 | .w1 => 1 | .w2 => 2 | .w3 => 3
def Wg.ofN : Nat → Wg | 0 => .w0 | 1 => .w1 | 2 => .w2 | _ => .w3
def bToNat : Bool → Nat | true => 1 | false => 0
def bOfNat : Nat → Bool | 0 => false | _ => true

theorem APc.ofN_toNat (x : APc) : APc.ofN x.toNat = x := by cases x <;> rfl
theorem SPc.ofN_toNat (x : SPc) : SPc.ofN x.toNat = x := by cases x <;> rfl
theorem Tm.ofN_toNat (x : Tm) : Tm.ofN x.toNat = x := by cases x <;> rfl
theorem CPc.ofN_toNat (x : CPc) : CPc.ofN x.toNat = x := by cases x <;> rfl
theorem Fault.ofN_toNat (x : Fault) : Fault.ofN x.toNat = x := by cases x <;> rfl
theorem Wg.ofN_toNat (x : Wg) : Wg.ofN x.toNat = x := by cases x <;> rfl
theorem Wg.toNat_lt (x : Wg) : x.toNat < 4 := by cases x <;> decide
theorem bOfNat_bToNat (b : Bool) : bOfNat (bToNat b) = b := by cases b <;> rfl
theorem APc.toNat_lt (x : APc) : x.toNat < 6 := by cases x <;> decide
theorem SPc.toNat_lt (x : SPc) : x.toNat < 10 := by cases x <;> decide
theorem Tm.toNat_lt (x : Tm) : x.toNat < 4 := by cases x <;> decide
theorem CPc.toNat_lt (x : CPc) : x.toNat < 13 := by cases x <;> decide
theorem Fault.toNat_lt (x : Fault) : x.toNat < 5 := by cases x <;> decide
theorem bToNat_lt (b : Bool) : bToNat b < 2 := by cases b <;> decide

def APc.is (a b : APc) : Bool := Nat.beq a.toNat b.toNat
def SPc.is (a b : SPc) : Bool := Nat.beq a.toNat b.toNat
def Tm.is (a b : Tm) : Bool := Nat.beq a.toNat b.toNat
def CPc.is (a b : CPc) : Bool := Nat.beq a.toNat b.toNat
def Fault.is (a b : Fault) : Bool := Nat.beq a.toNat b.toNat

/-- code of one connection slot (< 52), the sorting key of the slots. -/
def Conn.code (c : Conn) : Nat :=
  Nat.add c.pc.toNat (Nat.mul 13 (Nat.add (bToNat c.hookOk) (Nat.mul 2 (bToNat c.termRan))))

/-! ### events -/

inductive Ev where
  | a | s | c                 -- internal step of A / S / a connection goroutine
  | accept                    -- Accept returns a connection              (needs a client)
  | acceptErr                 -- Accept returns net.ErrClosed
  | hookOk | hookFail         -- connect hook outcome
  | request                   -- a request reaches an idle connection     (needs a client)
  | hRet | hSlow              -- handler returns / settles to wait for cancellation
  | sent                      -- the response has been written (the client read it) (needs the client)
  | sendAborted               -- `send` gives up: the server context is cancelled
  | hCancelled                -- a waiting handler returns because the server context is cancelled
  | gone                      -- the client disconnects (the connection context is cancelled)
  | leave                     -- the deferred terminate hook (if registered)
  | done                      -- stream.Close, wg.Done
  | wound                     -- reader and writer have ended
  | shutdown                  -- Shutdown is called
  | fire                      -- the grace timer fires
  deriving DecidableEq, Repr, Inhabited

/-- needs the client, the caller of Shutdown or the clock. -/
def Ev.isEnv : Ev → Bool
  | .accept | .request | .gone | .shutdown | .fire | .sent => true
  | _ => false

/-! ### field updates (small definitions: see `Kmip.SrvConn`) -/

def State.setA (x : State) (v : APc) : State := { x with a := v }
def State.setS (x : State) (v : SPc) : State := { x with s := v }
def State.setTm (x : State) (v : Tm) : State := { x with tm := v }
def State.setFault (x : State) (v : Fault) : State := { x with fault := v }
def State.setLClosed (x : State) (v : Bool) : State := { x with lClosed := v }
def State.setLocked (x : State) (v : Bool) : State := { x with locked := v }
def State.setShuttingDown (x : State) (v : Bool) : State := { x with shuttingDown := v }
def State.setRecvCtx (x : State) (v : Bool) : State := { x with recvCtx := v }
def State.setSrvCtx (x : State) (v : Bool) : State := { x with srvCtx := v }
def State.setWg (x : State) (v : Wg) : State := { x with wg := v }
def Conn.setPc (c : Conn) (v : CPc) : Conn := { c with pc := v }
def Conn.setHookOk (c : Conn) (v : Bool) : Conn := { c with hookOk := v }
def Conn.setTermRan (c : Conn) (v : Bool) : Conn := { c with termRan := v }

/-- put two connections into the two slots, sorted (the symmetry quotient). -/
def State.setConns (x : State) (a b : Conn) : State :=
  bif Nat.ble a.code b.code then { x with c0 := a, c1 := b } else { x with c0 := b, c1 := a }

/-- `wg.Add(1)` (the model bounds the counter by the number of slots + 1). -/
def State.wgAdd (x : State) : State := x.setWg (.ofN (Nat.succ x.wg.toNat))

/-- `wg.Done()`. -/
def State.wgDone (x : State) : State :=
  bif Nat.beq x.wg.toNat 0 then x.setFault .wgNegative else x.setWg (.ofN (Nat.pred x.wg.toNat))

/-! ### connections
  `conn x c o` : the steps of the connection `c` while the other slot holds `o`. -/

/-- the deferred terminate hook: registered only after a successful connect hook. -/
def cLeave (x : State) (c o : Conn) : State :=
  bif !c.hookOk then x.setConns (c.setPc .closing) o
  else bif c.termRan then x.setFault .hookTwice
  else x.setConns ((c.setTermRan true).setPc .closing) o

/-- deferred `stream.Close()` and `srv.wg.Done()`; reader and writer wind down afterwards. -/
def cClose (x : State) (c o : Conn) : State := (x.wgDone).setConns (c.setPc .winding) o

/-- (closeWaits) deferred `srv.wg.Done()` once `stream.Close()` has returned. -/
def cFinish (x : State) (c o : Conn) : State := (x.wgDone).setConns (c.setPc .ended) o

def cStarted (x : State) (c o : Conn) : List (Ev × State) :=
  [(.hookOk, x.setConns ((c.setHookOk true).setPc .idle) o),
   (.hookFail, x.setConns (c.setPc .leaving) o)]

/-- in `recv`: a request is delivered (the select may pick rx even when a context is cancelled), or
    the loop is left: receive context / server context cancelled, or the client has gone. -/
def cIdle (x : State) (c o : Conn) : List (Ev × State) :=
  [(.request, x.setConns (c.setPc .busy) o), (.gone, x.setConns (c.setPc .leaving) o)] ++
  (bif x.recvCtx || x.srvCtx then [(Ev.c, x.setConns (c.setPc .leaving) o)] else [])

/-- the handler returns its response (or settles to wait for its context). -/
def cBusy (x : State) (c o : Conn) : List (Ev × State) :=
  [(.hRet, x.setConns (c.setPc .sending) o), (.hSlow, x.setConns (c.setPc .busySlow) o)]

/-- the response of a completed handler (`if ctx.Err() != nil { break }; stream.send(resp)`): it is
    written and the loop goes on (the client has to read it; the RECEIVE context is not consulted
    here: `Shutdown` does not abandon it), or the client has gone (connection context cancelled /
    write failure), or the server context is cancelled (only legitimate once the grace timer has
    fired, or after `Shutdown`'s final cancel — when no connection is left). -/
def cSending (x : State) (c o : Conn) : List (Ev × State) :=
  [(.sent, x.setConns (c.setPc .idle) o), (.gone, x.setConns (c.setPc .leaving) o)] ++
  (bif x.srvCtx then
    [(Ev.sendAborted, bif x.tm.is .fired then x.setConns (c.setPc .leaving) o
                      else x.setFault .lostEarly)]
   else [])

/-- a handler waiting for its context: cancelled through the server context (only legitimate once
    the grace timer has fired, or after `Shutdown`'s final cancel), or because the client has gone. -/
def cBusySlow (x : State) (c o : Conn) : List (Ev × State) :=
  (bif x.srvCtx then
    [(Ev.hCancelled, bif x.tm.is .fired then x.setConns (c.setPc .leaving) o
                     else x.setFault .cancelEarly)]
   else []) ++
  [(Ev.gone, x.setConns (c.setPc .leaving) o)]

def conn (p : Params) (x : State) (c o : Conn) : List (Ev × State) :=
  match c.pc with
  | .free => []
  | .held => []
  | .refused => []
  | .started => cStarted x c o
  | .idle => cIdle x c o
  | .busy => cBusy x c o
  | .busySlow => cBusySlow x c o
  | .sending => cSending x c o
  | .leaving => [(.leave, cLeave x c o)]
  | .closing => bif p.closeWaits then [(.wound, x.setConns (c.setPc .finishing) o)]
                else [(.done, cClose x c o)]
  | .winding => [(.wound, x.setConns (c.setPc .ended) o)]
  | .finishing => [(.done, cFinish x c o)]
  | .ended => []

/-! ### accept loop -/

/-- replace the (unique) connection in state `from` by `to`. -/
def moveConn (x : State) (frm to : CPc) : State :=
  bif x.c0.pc.is frm then x.setConns (x.c0.setPc to) x.c1
  else bif x.c1.pc.is frm then x.setConns x.c0 (x.c1.setPc to)
  else x

def hasConn (x : State) (pc : CPc) : Bool := x.c0.pc.is pc || x.c1.pc.is pc

def aAccept (p : Params) (x : State) : List (Ev × State) :=
  bif x.lClosed then [(.acceptErr, x.setA .endShutdown)]
  else bif hasConn x .free then
    [(.accept, (moveConn x .free .held).setA (bif p.addUnderLock then .lock else .add))]
  else []

def aCs (x : State) : State :=
  bif x.shuttingDown then ((moveConn x .held .refused).setLocked false).setA .endShutdown
  else ((x.wgAdd).setLocked false).setA .spawn

def stepA (p : Params) (x : State) : List (Ev × State) :=
  match x.a with
  | .accept => aAccept p x
  | .lock => bif x.locked then [] else [(.a, (x.setLocked true).setA .cs)]
  | .cs => [(.a, aCs x)]
  | .add => [(.a, (x.wgAdd).setA .spawn)]
  | .spawn => [(.a, (moveConn x .held .started).setA .accept)]
  | .endShutdown => []

/-! ### Shutdown and the timer -/

def stepS (p : Params) (x : State) : List (Ev × State) :=
  match x.s with
  | .idle => [(.shutdown, x.setS (bif p.addUnderLock then .lock else .closeL))]
  | .lock => bif x.locked then [] else [(.s, (x.setLocked true).setS .set)]
  | .set => [(.s, ((x.setShuttingDown true).setLocked false).setS .closeL)]
  | .closeL => [(.s, (x.setLClosed true).setS .cancelRecv)]
  | .cancelRecv => [(.s, (x.setRecvCtx true).setS .arm)]
  | .arm => [(.s, (x.setTm .armed).setS .wait)]
  | .wait => bif Nat.beq x.wg.toNat 0 then [(.s, x.setS .stopTm)] else []
  | .stopTm => [(.s, (bif x.tm.is .armed then x.setTm .stopped else x).setS .cancel)]
  | .cancel => [(.s, (x.setSrvCtx true).setS .returned)]
  | .returned => []

def stepTm (x : State) : List (Ev × State) :=
  bif x.tm.is .armed then [(.fire, (x.setTm .fired).setSrvCtx true)] else []

/-- labelled successors. The second slot's steps are listed only when it differs from the first
    (equal slots have equal steps). -/
def stepL (p : Params) (x : State) : List (Ev × State) :=
  bif !(x.fault.is .none) then []
  else stepA p x ++ stepS p x ++ stepTm x ++ conn p x x.c0 x.c1 ++
    (bif Nat.beq x.c0.code x.c1.code then [] else conn p x x.c1 x.c0)

def sys (p : Params) : Sys State := { init := init, step := fun x => (stepL p x).map (·.2) }

/-! ### predicates -/

/-- the owner goroutine of the connection is running. -/
def Conn.alive (c : Conn) : Bool :=
  c.pc.is .started || c.pc.is .idle || c.pc.is .busy || c.pc.is .busySlow || c.pc.is .leaving ||
  c.pc.is .closing || c.pc.is .sending || c.pc.is .finishing

def Conn.handling (c : Conn) : Bool := c.pc.is .busy || c.pc.is .busySlow

/-- a request is in flight on the connection: its handler is running, or its response is being sent. -/
def Conn.inFlight (c : Conn) : Bool := c.pc.is .busy || c.pc.is .busySlow || c.pc.is .sending

/-- a request in flight that only the server context can end (a waiting handler; a response in `send`). -/
def Conn.cancellable (c : Conn) : Bool := c.pc.is .busySlow || c.pc.is .sending

/-- the connection's goroutines (owner, reader, writer) have all ended, or never existed. -/
def Conn.quiet (c : Conn) : Bool :=
  c.pc.is .free || c.pc.is .refused || c.pc.is .ended || c.pc.is .held

/-- hook pairing, at any time: the terminate hook has run at most once, only after a successful
    connect hook, never before or during a handler; and exactly once when the owner has ended after
    a successful connect hook. -/
def Conn.hooksBad (c : Conn) : Bool :=
  (c.termRan && !c.hookOk) ||
  (c.termRan && (c.pc.is .started || c.pc.is .idle || c.pc.is .busy || c.pc.is .busySlow ||
                 c.pc.is .sending ||
                 c.pc.is .leaving || c.pc.is .free || c.pc.is .held || c.pc.is .refused)) ||
  ((c.pc.is .closing || c.pc.is .winding || c.pc.is .finishing || c.pc.is .ended) &&
    (c.termRan ^^ c.hookOk)) ||
  (c.hookOk && (c.pc.is .free || c.pc.is .held || c.pc.is .refused || c.pc.is .started))

def returned (x : State) : Bool := x.s.is .returned

/-- the accept loop has ended with ErrShutdown, or every way it can go on ends so: it is blocked in
    / about to call `Accept` on the closed listener (→ net.ErrClosed → ErrShutdown), or inside the
    registration protocol with `shuttingDown` set (→ the connection is closed, ErrShutdown). -/
def acceptEnds (x : State) : Bool :=
  x.a.is .endShutdown || (x.a.is .accept && x.lClosed) ||
  ((x.a.is .lock || x.a.is .cs) && x.shuttingDown)

/-- what must hold once `Shutdown` has returned. -/
def afterShutdownBad (x : State) : Bool :=
  returned x &&
    (!x.lClosed || !acceptEnds x || !x.srvCtx || !x.recvCtx ||
     x.c0.inFlight || x.c1.inFlight ||            -- a handler is running / a response being sent
     x.c0.alive || x.c1.alive ||                  -- an owner goroutine is running (could start one)
     !(Nat.beq x.wg.toNat 0) ||
     x.tm.is .armed)                              -- the timer is still pending

/-- nothing the server itself can do is enabled although something has not ended. -/
def quiescent (p : Params) (x : State) : Bool := (stepL p x).all (fun e => e.1.isEnv)

def goroutinesBad (p : Params) (x : State) : Bool :=
  returned x && quiescent p x && !(x.c0.quiet && x.c1.quiet && x.a.is .endShutdown)

/-- the WaitGroup counts exactly the registered owner goroutines that have not called `Done`. -/
def wgExpected (x : State) : Nat :=
  Nat.add (Nat.add (bToNat x.c0.alive) (bToNat x.c1.alive)) (bToNat (x.a.is .spawn))

/-- the server context is cancelled although the grace timer has not fired, while a request is in
    flight that this cancels (a waiting handler, a response being sent). -/
def graceBad (x : State) : Bool :=
  x.srvCtx && !(x.tm.is .fired) && (x.c0.cancellable || x.c1.cancellable)

/-- (closeWaits, i.e. the current code) a goroutine of a connection — owner, reader or writer — is
    alive although `Shutdown` has returned. -/
def rwLateBad (p : Params) (x : State) : Bool :=
  p.closeWaits && returned x && !(x.c0.quiet && x.c1.quiet)

def bad (p : Params) (x : State) : Bool :=
  !(x.fault.is .none) || afterShutdownBad x || goroutinesBad p x ||
  x.c0.hooksBad || x.c1.hooksBad || !(Nat.beq x.wg.toNat (wgExpected x)) || graceBad x ||
  rwLateBad p x

/-! ### coding -/

def digits (x : State) : List (Nat × Nat) :=
  [(x.a.toNat, 6), (x.s.toNat, 10), (x.tm.toNat, 4), (x.fault.toNat, 5), (bToNat x.lClosed, 2),
   (bToNat x.locked, 2), (bToNat x.shuttingDown, 2), (bToNat x.recvCtx, 2), (bToNat x.srvCtx, 2),
   (x.wg.toNat, 4),
   (x.c0.pc.toNat, 13), (bToNat x.c0.hookOk, 2), (bToNat x.c0.termRan, 2),
   (x.c1.pc.toNat, 13), (bToNat x.c1.hookOk, 2), (bToNat x.c1.termRan, 2)]

def radices : List Nat := [6, 10, 4, 5, 2, 2, 2, 2, 2, 4, 13, 2, 2, 13, 2, 2]

def ofDigits : List Nat → State
  | [a0, a1, a2, a3, a4, a5, a6, a7, a8, a9, a10, a11, a12, a13, a14, a15] =>
    { a := .ofN a0, s := .ofN a1, tm := .ofN a2, fault := .ofN a3, lClosed := bOfNat a4,
      locked := bOfNat a5, shuttingDown := bOfNat a6, recvCtx := bOfNat a7, srvCtx := bOfNat a8,
      wg := .ofN a9,
      c0 := { pc := .ofN a10, hookOk := bOfNat a11, termRan := bOfNat a12 },
      c1 := { pc := .ofN a13, hookOk := bOfNat a14, termRan := bOfNat a15 } }
  | _ => init

/-- `pack (digits x)` (`code_eq`), written with the primitives the kernel evaluates natively. -/
def code (x : State) : Nat :=
  Nat.add x.a.toNat (Nat.mul 6 (Nat.add x.s.toNat (Nat.mul 10 (Nat.add x.tm.toNat (Nat.mul 4
  (Nat.add x.fault.toNat (Nat.mul 5 (Nat.add (bToNat x.lClosed) (Nat.mul 2
  (Nat.add (bToNat x.locked) (Nat.mul 2 (Nat.add (bToNat x.shuttingDown) (Nat.mul 2
  (Nat.add (bToNat x.recvCtx) (Nat.mul 2 (Nat.add (bToNat x.srvCtx) (Nat.mul 2
  (Nat.add x.wg.toNat (Nat.mul 4 (Nat.add x.c0.pc.toNat (Nat.mul 13
  (Nat.add (bToNat x.c0.hookOk) (Nat.mul 2 (Nat.add (bToNat x.c0.termRan) (Nat.mul 2
  (Nat.add x.c1.pc.toNat (Nat.mul 13 (Nat.add (bToNat x.c1.hookOk) (Nat.mul 2
  (bToNat x.c1.termRan))))))))))))))))))))))))))))))

theorem code_eq (x : State) : code x = pack (digits x) := rfl

/-- digit `k` of `n` is `n / Wₖ % rₖ` (`decode_eq`). -/
def decode (n : Nat) : State :=
  { a := .ofN (Nat.mod (Nat.div n 1) 6),
    s := .ofN (Nat.mod (Nat.div n 6) 10),
    tm := .ofN (Nat.mod (Nat.div n 60) 4),
    fault := .ofN (Nat.mod (Nat.div n 240) 5),
    lClosed := bOfNat (Nat.mod (Nat.div n 1200) 2),
    locked := bOfNat (Nat.mod (Nat.div n 2400) 2),
    shuttingDown := bOfNat (Nat.mod (Nat.div n 4800) 2),
    recvCtx := bOfNat (Nat.mod (Nat.div n 9600) 2),
    srvCtx := bOfNat (Nat.mod (Nat.div n 19200) 2),
    wg := .ofN (Nat.mod (Nat.div n 38400) 4),
    c0 := { pc := .ofN (Nat.mod (Nat.div n 153600) 13),
            hookOk := bOfNat (Nat.mod (Nat.div n 1996800) 2),
            termRan := bOfNat (Nat.mod (Nat.div n 3993600) 2) },
    c1 := { pc := .ofN (Nat.mod (Nat.div n 7987200) 13),
            hookOk := bOfNat (Nat.mod (Nat.div n 103833600) 2),
            termRan := bOfNat (Nat.mod (Nat.div n 207667200) 2) } }

theorem decode_eq (n : Nat) : decode n = ofDigits (unpack radices n) := by
  have h := unpackW_eq radices 1 n
  rw [Nat.div_one] at h
  rw [← h]
  rfl

theorem digits_radices (x : State) : (digits x).map (·.2) = radices := rfl

theorem digits_lt (x : State) : ∀ d ∈ digits x, d.1 < d.2 := by
  simp [digits, APc.toNat_lt, SPc.toNat_lt, Tm.toNat_lt, CPc.toNat_lt, Fault.toNat_lt, Wg.toNat_lt,
    bToNat_lt]

theorem decode_code (x : State) : decode (code x) = x := by
  rw [code_eq, decode_eq]
  rw [← digits_radices x, unpack_pack _ (digits_lt x)]
  obtain ⟨a, s, tm, f, l, lk, sd, rc, sc, wg, ⟨p0, h0, t0⟩, ⟨p1, h1, t1⟩⟩ := x
  simp only [digits, List.map_cons, List.map_nil, ofDigits, APc.ofN_toNat, SPc.ofN_toNat,
    Tm.ofN_toNat, CPc.ofN_toNat, Fault.ofN_toNat, Wg.ofN_toNat, bOfNat_bToNat]

def coding : Coding State := { code := code, decode := decode, decode_code := decode_code }

end Kmip.Server
