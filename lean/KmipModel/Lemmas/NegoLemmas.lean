/-
  Lemmas about the negotiation model (order, sort/compact, the pick loop, the library server).
-/
import KmipModel.Model.Negotiate
namespace Kmip.Nego
open Kmip.Resp

/-! ### the order -/

theorem vlt_irrefl (a : Version) : ¬ vlt a a := by
  unfold vlt; omega

theorem vlt_trans {a b c : Version} (h1 : vlt a b) (h2 : vlt b c) : vlt a c := by
  unfold vlt at *; omega

theorem vlt_asymm {a b : Version} (h : vlt a b) : ¬ vlt b a := by
  unfold vlt at *; omega

/-- `≥` is transitive. -/
theorem not_vlt_trans {a b c : Version} (h1 : ¬ vlt a b) (h2 : ¬ vlt b c) : ¬ vlt a c := by
  unfold vlt at *; omega

theorem not_vlt_of_vlt_of_not {c v m : Version} (h1 : vlt c v) (h2 : ¬ vlt m v) : ¬ vlt m c := by
  unfold vlt at *; omega

/-- antisymmetry: `CompareVersions a b = 0` only for equal versions. -/
theorem eq_of_not_vlt {a b : Version} (h1 : ¬ vlt a b) (h2 : ¬ vlt b a) : a = b := by
  obtain ⟨a1, a2⟩ := a
  obtain ⟨b1, b2⟩ := b
  unfold vlt at *
  simp only [Prod.mk.injEq]
  omega

theorem vlt_total (a b : Version) : vlt a b ∨ a = b ∨ vlt b a := by
  by_cases h1 : vlt a b
  · exact .inl h1
  · by_cases h2 : vlt b a
    · exact .inr (.inr h2)
    · exact .inr (.inl (eq_of_not_vlt h1 h2))

/-! ### specification vocabulary -/

/-- `m` is the highest version common to `C` and `A`. -/
def MaxCommon (C A : List Version) (m : Version) : Prop :=
  m ∈ C ∧ m ∈ A ∧ ∀ x, x ∈ C → x ∈ A → ¬ vlt m x

/-- `C` and `A` have no version in common. -/
def NoCommon (C A : List Version) : Prop := ∀ x, x ∈ A → x ∉ C

theorem MaxCommon.unique {C A : List Version} {m m' : Version}
    (h : MaxCommon C A m) (h' : MaxCommon C A m') : m = m' :=
  eq_of_not_vlt (h.2.2 m' h'.1 h'.2.1) (h'.2.2 m h.1 h.2.1)

theorem MaxCommon.not_noCommon {C A : List Version} {m : Version} (h : MaxCommon C A m) :
    ¬ NoCommon C A := fun hn => hn m h.2.1 h.1

/-- `MaxCommon` only depends on the two lists as sets. -/
theorem MaxCommon.congr {C C' A A' : List Version} (hC : ∀ x, x ∈ C ↔ x ∈ C') (hA : ∀ x, x ∈ A ↔ x ∈ A')
    (m : Version) : MaxCommon C A m ↔ MaxCommon C' A' m := by
  unfold MaxCommon
  constructor
  · intro ⟨h1, h2, h3⟩
    exact ⟨(hC m).1 h1, (hA m).1 h2, fun x hx hx' => h3 x ((hC x).2 hx) ((hA x).2 hx')⟩
  · intro ⟨h1, h2, h3⟩
    exact ⟨(hC m).2 h1, (hA m).2 h2, fun x hx hx' => h3 x ((hC x).1 hx) ((hA x).1 hx')⟩

theorem NoCommon.congr {C C' A A' : List Version} (hC : ∀ x, x ∈ C ↔ x ∈ C') (hA : ∀ x, x ∈ A ↔ x ∈ A') :
    NoCommon C A ↔ NoCommon C' A' := by
  unfold NoCommon
  constructor
  · intro h x hx hc; exact h x ((hA x).2 hx) ((hC x).2 hc)
  · intro h x hx hc; exact h x ((hA x).1 hx) ((hC x).1 hc)

/-- non-increasing list. -/
def Desc (l : List Version) : Prop := l.Pairwise (fun a b => ¬ vlt a b)

/-- strictly decreasing list (hence without duplicates). -/
def StrictDesc (l : List Version) : Prop := l.Pairwise (fun a b => vlt b a)

/-! ### sort and compact -/

theorem mem_insertDesc (x y : Version) (l : List Version) : y ∈ insertDesc x l ↔ y = x ∨ y ∈ l := by
  induction l with
  | nil => simp [insertDesc]
  | cons z zs ih =>
    unfold insertDesc
    by_cases h : vlt x z
    · simp only [h, if_true, List.mem_cons, ih]
      constructor
      · rintro (h | h | h)
        · exact .inr (.inl h)
        · exact .inl h
        · exact .inr (.inr h)
      · rintro (h | h | h)
        · exact .inr (.inl h)
        · exact .inl h
        · exact .inr (.inr h)
    · simp only [h, if_false, List.mem_cons]

theorem mem_sortDesc (y : Version) (l : List Version) : y ∈ sortDesc l ↔ y ∈ l := by
  induction l with
  | nil => simp [sortDesc]
  | cons x xs ih => simp [sortDesc, mem_insertDesc, ih]

theorem mem_compact (y : Version) : ∀ l : List Version, y ∈ compact l ↔ y ∈ l
  | [] => by simp [compact]
  | [x] => by simp [compact]
  | x :: z :: rest => by
    have ih := mem_compact y (z :: rest)
    unfold compact
    by_cases h : x = z
    · subst h
      simp only [if_true, ih, List.mem_cons]
      constructor
      · intro h; exact .inr h
      · rintro (h | h)
        · exact .inl h
        · exact h
    · simp only [h, if_false, List.mem_cons, ih]

theorem insertDesc_perm (x : Version) (l : List Version) : (insertDesc x l).Perm (x :: l) := by
  induction l with
  | nil => simp [insertDesc]
  | cons z zs ih =>
    unfold insertDesc
    by_cases h : vlt x z
    · simp only [h, if_true]
      exact (List.Perm.cons z ih).trans (List.Perm.swap x z zs)
    · simp only [h, if_false]
      exact List.Perm.refl _

theorem sortDesc_perm (l : List Version) : (sortDesc l).Perm l := by
  induction l with
  | nil => simp [sortDesc]
  | cons x xs ih =>
    simp only [sortDesc]
    exact (insertDesc_perm x _).trans (List.Perm.cons x ih)

theorem insertDesc_desc (x : Version) (l : List Version) (h : Desc l) : Desc (insertDesc x l) := by
  induction l with
  | nil => simp [insertDesc, Desc]
  | cons z zs ih =>
    unfold Desc at h ih ⊢
    rw [List.pairwise_cons] at h
    unfold insertDesc
    by_cases hx : vlt x z
    · simp only [hx, if_true]
      rw [List.pairwise_cons]
      refine ⟨?_, ih h.2⟩
      intro a ha
      rcases (mem_insertDesc x a zs).1 ha with rfl | ha
      · exact vlt_asymm hx
      · exact h.1 a ha
    · simp only [hx, if_false]
      rw [List.pairwise_cons, List.pairwise_cons]
      refine ⟨?_, h⟩
      intro a ha
      rcases List.mem_cons.1 ha with rfl | ha
      · exact hx
      · exact not_vlt_trans hx (h.1 a ha)

theorem sortDesc_desc (l : List Version) : Desc (sortDesc l) := by
  induction l with
  | nil => simp [sortDesc, Desc]
  | cons x xs ih => exact insertDesc_desc x _ ih

/-- two non-increasing arrangements of the same multiset coincide: the result of `slices.SortFunc`
    with `CompareVersions` does not depend on the sorting algorithm. -/
theorem desc_perm_unique : ∀ (l1 l2 : List Version), l1.Perm l2 → Desc l1 → Desc l2 → l1 = l2
  | [], l2, hp, _, _ => by simpa using hp.symm.eq_nil
  | a :: l1, [], hp, _, _ => by simpa using hp.eq_nil
  | a :: l1, b :: l2, hp, h1, h2 => by
    unfold Desc at h1 h2
    rw [List.pairwise_cons] at h1 h2
    have hab : a = b := by
      have ha : a ∈ b :: l2 := hp.subset (List.mem_cons_self ..)
      have hb : b ∈ a :: l1 := hp.symm.subset (List.mem_cons_self ..)
      rcases List.mem_cons.1 ha with h | ha
      · exact h
      · rcases List.mem_cons.1 hb with h | hb
        · exact h.symm
        · exact eq_of_not_vlt (h1.1 b hb) (h2.1 a ha)
    subst hab
    rw [desc_perm_unique l1 l2 (List.Perm.cons_inv hp) h1.2 h2.2]

theorem sortDesc_unique (l s : List Version) (hp : s.Perm l) (hs : Desc s) : s = sortDesc l :=
  desc_perm_unique s (sortDesc l) (hp.trans (sortDesc_perm l).symm) hs (sortDesc_desc l)

theorem compact_strict : ∀ l : List Version, Desc l → StrictDesc (compact l)
  | [], _ => by simp [compact, StrictDesc]
  | [x], _ => by simp [compact, StrictDesc]
  | x :: z :: rest, h => by
    have h' := h
    unfold Desc at h'
    rw [List.pairwise_cons] at h'
    have ih := compact_strict (z :: rest) h'.2
    unfold compact
    by_cases hxz : x = z
    · simp only [hxz, if_true]; exact ih
    · simp only [hxz, if_false]
      unfold StrictDesc at ih ⊢
      rw [List.pairwise_cons]
      refine ⟨?_, ih⟩
      intro a ha
      have ha' : a ∈ z :: rest := (mem_compact a _).1 ha
      have hz : vlt z x := by
        rcases vlt_total x z with h1 | h1 | h1
        · exact absurd h1 (h'.1 z (List.mem_cons_self ..))
        · exact absurd h1 hxz
        · exact h1
      rcases List.mem_cons.1 ha' with rfl | har
      · exact hz
      · have : ¬ vlt z a := by
          have := h'.2
          rw [List.pairwise_cons] at this
          exact this.1 a har
        unfold vlt at *; omega

/-! ### the configured sets -/

theorem mem_withKmipVersions (y : Version) (cur vs : List Version) :
    y ∈ withKmipVersions cur vs ↔ y ∈ cur ∨ y ∈ vs := by
  simp [withKmipVersions, mem_compact, mem_sortDesc]

theorem withKmipVersions_strict (cur vs : List Version) : StrictDesc (withKmipVersions cur vs) :=
  compact_strict _ (sortDesc_desc _)

theorem mem_foldl_with (y : Version) (calls : List (List Version)) (acc : List Version) :
    y ∈ calls.foldl withKmipVersions acc ↔ y ∈ acc ∨ ∃ vs, vs ∈ calls ∧ y ∈ vs := by
  induction calls generalizing acc with
  | nil => simp
  | cons c cs ih =>
    simp only [List.foldl_cons, ih, mem_withKmipVersions, List.mem_cons]
    constructor
    · rintro ((h | h) | ⟨vs, hvs, h⟩)
      · exact .inl h
      · exact .inr ⟨c, .inl rfl, h⟩
      · exact .inr ⟨vs, .inr hvs, h⟩
    · rintro (h | ⟨vs, rfl | hvs, h⟩)
      · exact .inl (.inl h)
      · exact .inl (.inr h)
      · exact .inr ⟨vs, hvs, h⟩

/-- the versions passed to `WithKmipVersions` (over all calls). -/
def offered (cfg : ClientCfg) (y : Version) : Prop := ∃ vs, vs ∈ cfg.calls ∧ y ∈ vs

theorem clientList_def (cfg : ClientCfg) : clientList cfg =
    if (cfg.calls.foldl withKmipVersions []).isEmpty = true then defaultVersions
    else cfg.calls.foldl withKmipVersions [] := rfl

/-- the client's list as a set: what was offered, or the default set when nothing was. -/
theorem mem_clientList (cfg : ClientCfg) (y : Version) :
    y ∈ clientList cfg ↔ (offered cfg y ∨ ((∀ x, ¬ offered cfg x) ∧ y ∈ defaultVersions)) := by
  rw [clientList_def]
  by_cases he : (cfg.calls.foldl withKmipVersions []).isEmpty = true
  · rw [if_pos he]
    have hnone : ∀ x, ¬ offered cfg x := by
      intro x hx
      have : x ∈ cfg.calls.foldl withKmipVersions [] := (mem_foldl_with x _ _).2 (.inr hx)
      rw [List.isEmpty_iff.1 he] at this
      exact absurd this (List.not_mem_nil)
    constructor
    · intro h; exact .inr ⟨hnone, h⟩
    · rintro (h | h)
      · exact absurd h (hnone y)
      · exact h.2
  · rw [if_neg he, mem_foldl_with]
    simp only [List.not_mem_nil, false_or]
    constructor
    · intro h; exact .inl h
    · rintro (h | ⟨hn, _⟩)
      · exact h
      · exfalso
        cases hl : cfg.calls.foldl withKmipVersions [] with
        | nil => simp [hl] at he
        | cons a as =>
          have : a ∈ cfg.calls.foldl withKmipVersions [] := by rw [hl]; exact List.mem_cons_self ..
          rcases (mem_foldl_with a _ _).1 this with h | h
          · exact absurd h (List.not_mem_nil)
          · exact hn a h

theorem clientList_ne_nil (cfg : ClientCfg) : clientList cfg ≠ [] := by
  rw [clientList_def]
  by_cases he : (cfg.calls.foldl withKmipVersions []).isEmpty = true
  · rw [if_pos he]; simp [defaultVersions]
  · rw [if_neg he]
    intro h
    simp [h] at he

theorem defaultVersions_strict : StrictDesc defaultVersions := by
  unfold StrictDesc defaultVersions
  decide

theorem foldl_with_strict (calls : List (List Version)) (acc : List Version) (h : StrictDesc acc) :
    StrictDesc (calls.foldl withKmipVersions acc) := by
  induction calls generalizing acc with
  | nil => exact h
  | cons c cs ih => exact ih _ (withKmipVersions_strict acc c)

/-- the list sent in the discovery request is strictly decreasing: most recent first, no duplicates. -/
theorem clientList_strict (cfg : ClientCfg) : StrictDesc (clientList cfg) := by
  rw [clientList_def]
  by_cases he : (cfg.calls.foldl withKmipVersions []).isEmpty = true
  · rw [if_pos he]; exact defaultVersions_strict
  · rw [if_neg he]
    exact foldl_with_strict _ _ (by simp [StrictDesc])

theorem mem_serverSet (vs : List Version) (y : Version) :
    y ∈ serverSet vs ↔ (y ∈ vs ∨ (vs = [] ∧ y ∈ defaultVersions)) := by
  unfold serverSet
  rw [mem_compact, mem_sortDesc]
  cases vs with
  | nil => simp
  | cons a as => simp

theorem serverSet_strict (vs : List Version) : StrictDesc (serverSet vs) :=
  compact_strict _ (sortDesc_desc _)

theorem mem_handleDiscover (S req : List Version) (hreq : req ≠ []) (y : Version) :
    y ∈ handleDiscover S req ↔ y ∈ S ∧ y ∈ req := by
  unfold handleDiscover
  have : req.isEmpty = false := by cases req <;> simp_all
  simp [this]

theorem mem_handleDiscover_nil (S : List Version) (y : Version) :
    y ∈ handleDiscover S [] ↔ y ∈ S := by
  simp [handleDiscover]

/-- the answer of `handleDiscover` keeps the server's (decreasing) order. -/
theorem handleDiscover_strict (S req : List Version) (h : StrictDesc S) : StrictDesc (handleDiscover S req) := by
  unfold handleDiscover
  by_cases he : req.isEmpty = true
  · simp only [he, if_true]; exact h
  · simp only [he]
    exact List.Pairwise.filter _ h

/-! ### the pick loop -/

/-- invariant of the loop of `negotiateVersion`, for any starting accumulator. -/
theorem pickLoop_spec (C : List Version) : ∀ (A : List Version) (cur : Option Version),
    match pickLoop C A cur with
    | none => cur = none ∧ ∀ x, x ∈ A → x ∉ C
    | some m => (cur = some m ∨ (m ∈ A ∧ m ∈ C)) ∧ (∀ c, cur = some c → ¬ vlt m c) ∧
                ∀ x, x ∈ A → x ∈ C → ¬ vlt m x
  | [], cur => by
    unfold pickLoop
    cases cur with
    | none => simp
    | some c => simp [vlt_irrefl]
  | v :: rest, cur => by
    unfold pickLoop
    by_cases hv : v ∈ C
    · simp only [hv, not_true, if_false]
      cases cur with
      | none =>
        simp only
        have ih := pickLoop_spec C rest (some v)
        cases hr : pickLoop C rest (some v) with
        | none => rw [hr] at ih; simp at ih
        | some m =>
          rw [hr] at ih
          simp only at ih ⊢
          obtain ⟨h1, h2, h3⟩ := ih
          refine ⟨.inr ?_, by simp, ?_⟩
          · rcases h1 with h1 | h1
            · cases h1; exact ⟨List.mem_cons_self .., hv⟩
            · exact ⟨List.mem_cons_of_mem _ h1.1, h1.2⟩
          · intro x hx hxc
            rcases List.mem_cons.1 hx with rfl | hx
            · exact h2 _ rfl
            · exact h3 x hx hxc
      | some c =>
        simp only
        by_cases hcv : vlt c v
        · simp only [hcv, if_true]
          have ih := pickLoop_spec C rest (some v)
          cases hr : pickLoop C rest (some v) with
          | none => rw [hr] at ih; simp at ih
          | some m =>
            rw [hr] at ih
            simp only at ih ⊢
            obtain ⟨h1, h2, h3⟩ := ih
            have hmv : ¬ vlt m v := h2 v rfl
            refine ⟨.inr ?_, ?_, ?_⟩
            · rcases h1 with h1 | h1
              · cases h1; exact ⟨List.mem_cons_self .., hv⟩
              · exact ⟨List.mem_cons_of_mem _ h1.1, h1.2⟩
            · intro c' hc'
              cases hc'
              exact not_vlt_of_vlt_of_not hcv hmv
            · intro x hx hxc
              rcases List.mem_cons.1 hx with rfl | hx
              · exact hmv
              · exact h3 x hx hxc
        · simp only [hcv, if_false]
          have ih := pickLoop_spec C rest (some c)
          cases hr : pickLoop C rest (some c) with
          | none => rw [hr] at ih; simp at ih
          | some m =>
            rw [hr] at ih
            simp only at ih ⊢
            obtain ⟨h1, h2, h3⟩ := ih
            have hmc : ¬ vlt m c := h2 c rfl
            refine ⟨?_, ?_, ?_⟩
            · rcases h1 with h1 | h1
              · exact .inl h1
              · exact .inr ⟨List.mem_cons_of_mem _ h1.1, h1.2⟩
            · intro c' hc'
              cases hc'
              exact hmc
            · intro x hx hxc
              rcases List.mem_cons.1 hx with rfl | hx
              · exact not_vlt_trans hmc hcv
              · exact h3 x hx hxc
    · simp only [hv, not_false_eq_true, if_true]
      have ih := pickLoop_spec C rest cur
      cases hr : pickLoop C rest cur with
      | none =>
        rw [hr] at ih
        simp only at ih ⊢
        refine ⟨ih.1, ?_⟩
        intro x hx
        rcases List.mem_cons.1 hx with rfl | hx
        · exact hv
        · exact ih.2 x hx
      | some m =>
        rw [hr] at ih
        simp only at ih ⊢
        obtain ⟨h1, h2, h3⟩ := ih
        refine ⟨?_, h2, ?_⟩
        · rcases h1 with h1 | h1
          · exact .inl h1
          · exact .inr ⟨List.mem_cons_of_mem _ h1.1, h1.2⟩
        · intro x hx hxc
          rcases List.mem_cons.1 hx with rfl | hx
          · exact absurd hxc hv
          · exact h3 x hx hxc

/-- the loop started with `nil` returns the highest common version, or nothing when there is none. -/
theorem pickLoop_max (C A : List Version) :
    match pickLoop C A none with
    | none => NoCommon C A
    | some m => MaxCommon C A m := by
  have h := pickLoop_spec C A none
  cases hr : pickLoop C A none with
  | none => rw [hr] at h; exact h.2
  | some m =>
    rw [hr] at h
    simp only at h ⊢
    obtain ⟨h1, _, h3⟩ := h
    rcases h1 with h1 | h1
    · cases h1
    · exact ⟨h1.2, h1.1, fun x hxc hxa => h3 x hxa hxc⟩

theorem pickLoop_eq_some_iff (C A : List Version) (m : Version) :
    pickLoop C A none = some m ↔ MaxCommon C A m := by
  have h := pickLoop_max C A
  constructor
  · intro hr; rw [hr] at h; exact h
  · intro hm
    cases hr : pickLoop C A none with
    | none => rw [hr] at h; exact absurd h hm.not_noCommon
    | some m' => rw [hr] at h; rw [h.unique hm]

theorem pickLoop_eq_none_iff (C A : List Version) :
    pickLoop C A none = none ↔ NoCommon C A := by
  have h := pickLoop_max C A
  constructor
  · intro hr; rw [hr] at h; exact h
  · intro hn
    cases hr : pickLoop C A none with
    | none => rfl
    | some m => rw [hr] at h; exact absurd hn h.not_noCommon

/-- either there is a highest common version or there is no common version at all. -/
theorem maxCommon_or_noCommon (C A : List Version) : (∃ m, MaxCommon C A m) ∨ NoCommon C A := by
  have h := pickLoop_max C A
  cases hr : pickLoop C A none with
  | none => rw [hr] at h; exact .inr h
  | some m => rw [hr] at h; exact .inl ⟨m, h⟩

/-! ### later requests -/

theorem batchOptHeader_version (c : Client) (n : Nat) (opts : List Nat) :
    (batchOptHeader c n opts).version = c.version ∧ (batchOptHeader c n opts).batchCount = n := by
  unfold batchOptHeader
  have : ∀ (h : ReqHeader), (opts.foldl (fun h o => { h with errCont := o }) h).version = h.version ∧
      (opts.foldl (fun h o => { h with errCont := o }) h).batchCount = h.batchCount := by
    induction opts with
    | nil => intro h; simp
    | cons o os ih => intro h; simp only [List.foldl_cons]; exact ih _
  exact this _

theorem run_version (c : Client) (calls : List Call) : ∀ h, h ∈ run c calls → h.version = c.version := by
  induction calls generalizing c with
  | nil => intro h hh; simp [run] at hh
  | cons call rest ih =>
    intro h hh
    cases call with
    | batch n opts =>
      simp only [run, List.mem_cons] at hh
      rcases hh with rfl | hh
      · exact (batchOptHeader_version c n opts).1
      · exact ih c h hh
    | clone =>
      simp only [run] at hh
      exact ih (clone c) h hh

/-! ### `negotiateVersion` -/

/-- a one-item message: what the count check lets through. -/
theorem negotiate_msg_one (t : Tables) (C : List Version) (bi : Item) :
    negotiate t C (.msg 1 [bi]) = negotiateItem t C bi := by
  simp [negotiate]

/-- anything but a one-item message with header count 1 is refused. -/
theorem negotiate_counts (t : Tables) (C : List Version) (h : Int) (items : List Item)
    (hc : h ≠ 1 ∨ items.length ≠ 1) : negotiate t C (.msg h items) = .err .negoCount := by
  simp [negotiate, hc]

theorem msg_one_of_counts (h : Int) (items : List Item) (hc : ¬ (h ≠ 1 ∨ items.length ≠ 1)) :
    ∃ bi, RoundTrip.msg h items = .msg 1 [bi] := by
  have h1 : h = 1 := by omega
  have h2 : items.length = 1 := by omega
  match items, h2 with
  | [bi], _ => exact ⟨bi, by rw [h1]⟩

theorem negotiate_ne_panic (t : Tables) (C : List Version) (rt : RoundTrip) : negotiate t C rt ≠ .panic := by
  cases rt with
  | fail => simp [negotiate]
  | msg h items =>
    by_cases hc : h ≠ 1 ∨ items.length ≠ 1
    · rw [negotiate_counts t C h items hc]; simp
    · obtain ⟨bi, hbi⟩ := msg_one_of_counts h items hc
      rw [hbi, negotiate_msg_one]
      unfold negotiateItem
      split
      · split <;> simp
      · split
        · simp
        · split
          · split <;> simp
          · simp

/-- complete characterisation of a successful negotiation. -/
theorem negotiate_ok (t : Tables) (C : List Version) (rt : RoundTrip) (v : Version)
    (h : negotiate t C rt = .ok v) :
    ∃ bi, rt = .msg 1 [bi] ∧
      ((bi.status = statusFailed ∧ bi.reason = reasonNotSupported ∧ v = v10 ∧ v10 ∈ C) ∨
       (¬ (bi.status = statusFailed ∧ bi.reason = reasonNotSupported) ∧ bi.status = statusSuccess ∧
          bi.payload = some (.resp opDiscover) ∧ MaxCommon C bi.vers v)) := by
  cases rt with
  | fail => simp [negotiate] at h
  | msg hc items =>
    by_cases hcnt : hc ≠ 1 ∨ items.length ≠ 1
    · rw [negotiate_counts t C hc items hcnt] at h; cases h
    · obtain ⟨bi, hbi⟩ := msg_one_of_counts hc items hcnt
      refine ⟨bi, hbi, ?_⟩
      rw [hbi, negotiate_msg_one] at h
      unfold negotiateItem at h
      by_cases hns : bi.status = statusFailed ∧ bi.reason = reasonNotSupported
      · rw [if_pos hns] at h
        by_cases h10 : v10 ∈ C
        · rw [if_pos h10] at h
          cases h
          exact .inl ⟨hns.1, hns.2, rfl, h10⟩
        · rw [if_neg h10] at h; cases h
      · rw [if_neg hns] at h
        refine .inr ⟨hns, ?_⟩
        have hst : bi.status = statusSuccess := by
          by_cases hs : bi.status = statusSuccess
          · exact hs
          · simp [Item.err, hs] at h
        have herr : bi.err t = none := by simp [Item.err, hst]
        rw [herr] at h
        simp only at h
        cases hp : bi.payload with
        | none => rw [hp] at h; simp at h
        | some p =>
          rw [hp] at h
          cases p with
          | req o => simp at h
          | unknown o => simp at h
          | resp o =>
            by_cases ho : o = 0x1E
            · subst ho
              simp only at h
              cases hpick : pickLoop C bi.vers none with
              | none => rw [hpick] at h; cases h
              | some m =>
                rw [hpick] at h
                cases h
                exact ⟨hst, rfl, (pickLoop_eq_some_iff C bi.vers v).1 hpick⟩
            · exfalso
              split at h
              · rename_i heq
                cases heq
                exact ho rfl
              · cases h

/-- against a server answering DiscoverVersions with the list `A`. -/
theorem negotiate_answers (t : Tables) (C A : List Version) :
    negotiate t C (answers A) =
      match pickLoop C A none with
      | some v => .ok v
      | none => .err .negoNoCommon := by
  simp [answers, negotiate_msg_one, negotiateItem, Item.err, statusSuccess, statusFailed, opDiscover]
  cases pickLoop C A none <;> rfl

/-- against a server that does not support DiscoverVersions. -/
theorem negotiate_notSupported (t : Tables) (C : List Version) (op : Nat) (m : Msg) :
    negotiate t C (notSupported op m) = if v10 ∈ C then .ok v10 else .err .negoNoCommon := by
  simp [notSupported, negotiate_msg_one, negotiateItem]

/-- the library server whose set contains the header version answers like `answers (S ∩ req)`. -/
theorem libraryRespond_mem (S : List Version) (hdr : Version) (req : List Version) (h : hdr ∈ S) :
    libraryRespond S hdr req = answers (handleDiscover S req) := by
  simp [libraryRespond, h, answers]

/-- … otherwise with a message-level failure, which the client turns into an error. -/
theorem negotiate_library_not_mem (t : Tables) (C S : List Version) (hdr : Version) (req : List Version)
    (h : hdr ∉ S) : ∃ e, negotiate t C (libraryRespond S hdr req) = .err e := by
  simp [libraryRespond, h, negotiate_msg_one, negotiateItem, Item.err, statusFailed, statusSuccess,
    reasonInvalidMessage, reasonNotSupported]

/-! ### the mutable version pointer: invariants of the step system -/

/-- every client's pointer designates an allocated variable. -/
def WF (w : World) : Prop := 1 ≤ w.store.next ∧ ∀ c ∈ w.clients, c.ver < w.store.next

/-- every client's version variable holds `v`. -/
def AllAt (w : World) (v : Version) : Prop := ∀ c ∈ w.clients, w.store.val c.ver = v

/-- no client points to the exported package variable `kmip.V1_0`. -/
def NoAlias (w : World) : Prop := ∀ c ∈ w.clients, c.ver ≠ addrV10

theorem mem_setClient {cs : List MClient} {i : Nat} {c x : MClient} (h : x ∈ setClient cs i c) :
    x ∈ cs ∨ x = c := List.mem_or_eq_of_mem_set h

theorem step_inv (w : World) (st : Step) (v : Version) (hwf : WF w) (hall : AllAt w v)
    (h : NoAlias w ∨ st.isAssign = false) :
    WF (step w st).1 ∧ AllAt (step w st).1 v ∧ (NoAlias w → NoAlias (step w st).1) ∧
      ∀ out, (step w st).2 = some out → out.2.version = v := by
  cases st with
  | request i n opts =>
    simp only [step]
    cases hc : w.clients[i]? with
    | none => exact ⟨hwf, hall, id, by simp⟩
    | some c =>
      have hmem : c ∈ w.clients := List.mem_of_getElem? hc
      simp only
      by_cases hcl : c.closed = true
      · simp only [hcl, if_true]; exact ⟨hwf, hall, id, by simp⟩
      · simp only [hcl, Bool.false_eq_true, if_false]
        refine ⟨⟨hwf.1, ?_⟩, ?_, ?_, ?_⟩
        · intro x hx
          rcases mem_setClient hx with hx | rfl
          · exact hwf.2 x hx
          · exact hwf.2 c hmem
        · intro x hx
          rcases mem_setClient hx with hx | rfl
          · exact hall x hx
          · exact hall c hmem
        · intro hna x hx
          rcases mem_setClient hx with hx | rfl
          · exact hna x hx
          · exact hna c hmem
        · intro out ho
          simp only [Option.some.injEq] at ho
          rw [← ho]
          simp only
          rw [(batchOptHeader_version _ n opts).1]
          exact hall c hmem
  | connLost i =>
    simp only [step]
    cases hc : w.clients[i]? with
    | none => exact ⟨hwf, hall, id, by simp⟩
    | some c =>
      have hmem : c ∈ w.clients := List.mem_of_getElem? hc
      simp only
      refine ⟨⟨hwf.1, ?_⟩, ?_, ?_, by simp⟩
      · intro x hx
        rcases mem_setClient hx with hx | rfl
        · exact hwf.2 x hx
        · exact hwf.2 c hmem
      · intro x hx
        rcases mem_setClient hx with hx | rfl
        · exact hall x hx
        · exact hall c hmem
      · intro hna x hx
        rcases mem_setClient hx with hx | rfl
        · exact hna x hx
        · exact hna c hmem
  | close i =>
    simp only [step]
    cases hc : w.clients[i]? with
    | none => exact ⟨hwf, hall, id, by simp⟩
    | some c =>
      have hmem : c ∈ w.clients := List.mem_of_getElem? hc
      simp only
      refine ⟨⟨hwf.1, ?_⟩, ?_, ?_, by simp⟩
      · intro x hx
        rcases mem_setClient hx with hx | rfl
        · exact hwf.2 x hx
        · exact hwf.2 c hmem
      · intro x hx
        rcases mem_setClient hx with hx | rfl
        · exact hall x hx
        · exact hall c hmem
      · intro hna x hx
        rcases mem_setClient hx with hx | rfl
        · exact hna x hx
        · exact hna c hmem
  | clone i =>
    simp only [step]
    cases hc : w.clients[i]? with
    | none => exact ⟨hwf, hall, id, by simp⟩
    | some c =>
      have hmem : c ∈ w.clients := List.mem_of_getElem? hc
      simp only [Store.alloc]
      refine ⟨⟨by simp, ?_⟩, ?_, ?_, by simp⟩
      · intro x hx
        simp only [List.mem_append, List.mem_cons, List.not_mem_nil, or_false] at hx
        rcases hx with hx | rfl
        · exact Nat.lt_succ_of_lt (hwf.2 x hx)
        · simp
      · intro x hx
        simp only [List.mem_append, List.mem_cons, List.not_mem_nil, or_false] at hx
        rcases hx with hx | rfl
        · have := hwf.2 x hx
          simp only [Nat.ne_of_lt this, if_false]
          exact hall x hx
        · simp only [if_true]
          exact hall c hmem
      · intro hna x hx
        simp only [List.mem_append, List.mem_cons, List.not_mem_nil, or_false] at hx
        rcases hx with hx | rfl
        · exact hna x hx
        · simp only [addrV10]
          have := hwf.1
          omega
  | assignV10 v' =>
    simp only [step]
    rcases h with hna | hf
    · refine ⟨hwf, ?_, ?_, by simp⟩
      · intro x hx
        simp only [Store.write, hna x hx, if_false]
        exact hall x hx
      · intro _ x hx; exact hna x hx
    · simp [Step.isAssign] at hf

/-- The frame property: whatever happens after `Dial` — requests, lost connections and reconnections,
    clones, closes —, as long as no other code assigns `kmip.V1_0` or no client points to it, every request
    header carries the value the clients' version variables held at the start. -/
theorem runM_version (v : Version) : ∀ (steps : List Step) (w : World), WF w → AllAt w v →
    (NoAlias w ∨ ∀ st ∈ steps, st.isAssign = false) →
    ∀ out ∈ runM w steps, out.2.version = v := by
  intro steps
  induction steps with
  | nil => intro w _ _ _ out ho; simp [runM] at ho
  | cons st rest ih =>
    intro w hwf hall h out ho
    have hst : NoAlias w ∨ st.isAssign = false := by
      rcases h with h | h
      · exact .inl h
      · exact .inr (h st (List.mem_cons_self ..))
    obtain ⟨hwf', hall', hna', hout⟩ := step_inv w st v hwf hall hst
    have hrest : NoAlias (step w st).1 ∨ ∀ s ∈ rest, s.isAssign = false := by
      rcases h with h | h
      · exact .inl (hna' h)
      · exact .inr fun s hs => h s (List.mem_cons_of_mem _ hs)
    unfold runM at ho
    cases hs : step w st with
    | mk w' o =>
      rw [hs] at ho hwf' hall' hrest hout
      cases o with
      | none => exact ih w' hwf' hall' hrest out ho
      | some o' =>
        simp only [List.mem_cons] at ho
        rcases ho with rfl | ho
        · exact hout _ rfl
        · exact ih w' hwf' hall' hrest out ho

/-- `dialM` unfolded along the result of `negotiate`. -/
theorem dialM_none (t : Tables) (s : Store) (calls : List (List Version)) (sb : ServerBehaviour)
    (s' : Store) (c : MClient) (h : dialM t s calls none sb = .ok (s', c)) :
    ∃ v bi, negotiate t (clientList { calls := calls, enforce := none })
        (respond sb discoverHeader (clientList { calls := calls, enforce := none })) = .ok v ∧
      respond sb discoverHeader (clientList { calls := calls, enforce := none }) = .msg 1 [bi] ∧
      ((bi.status = statusFailed ∧ bi.reason = reasonNotSupported ∧ v = v10 ∧ s' = s ∧ c.ver = addrV10) ∨
       (¬ (bi.status = statusFailed ∧ bi.reason = reasonNotSupported) ∧ s' = (s.alloc v).1 ∧ c.ver = s.next)) := by
  unfold dialM at h
  simp only at h
  cases hn : negotiate t (clientList { calls := calls, enforce := none })
      (respond sb discoverHeader (clientList { calls := calls, enforce := none })) with
  | err e => rw [hn] at h; cases h
  | panic => rw [hn] at h; cases h
  | ok v =>
    rw [hn] at h
    obtain ⟨bi, hrt, hc⟩ := negotiate_ok t _ _ v hn
    refine ⟨v, bi, rfl, hrt, ?_⟩
    rw [hrt] at h
    simp only at h
    by_cases hfb : bi.status = statusFailed ∧ bi.reason = reasonNotSupported
    · simp only [hfb, and_self, decide_true, if_true, Res.ok.injEq, Prod.mk.injEq] at h
      obtain ⟨rfl, rfl⟩ := h
      rcases hc with ⟨_, _, hv, _⟩ | ⟨hnot, _⟩
      · exact .inl ⟨hfb.1, hfb.2, hv, rfl, rfl⟩
      · exact absurd hfb hnot
    · have hd : decide (bi.status = statusFailed ∧ bi.reason = reasonNotSupported) = false := by simp [hfb]
      simp only [hd, Bool.false_eq_true, if_false, Store.alloc, Res.ok.injEq, Prod.mk.injEq] at h
      obtain ⟨rfl, rfl⟩ := h
      exact .inr ⟨hfb, rfl, rfl⟩

/-- what `dialM` leaves: a well-formed one-client world whose version variable holds the version `dial`
    adopts (the package variable `kmip.V1_0` holding 1.0 when `Dial` runs). -/
theorem dialM_spec (t : Tables) (s : Store) (calls : List (List Version)) (sb : ServerBehaviour)
    (s' : Store) (c : MClient) (hs : 1 ≤ s.next) (h10 : s.val addrV10 = v10)
    (h : dialM t s calls none sb = .ok (s', c)) :
    (∃ sup, dial t { calls := calls, enforce := none } sb = .ok { version := s'.val c.ver, supported := sup }) ∧
      WF { store := s', clients := [c] } := by
  obtain ⟨v, bi, hn, _, hc⟩ := dialM_none t s calls sb s' c h
  have hd : dial t { calls := calls, enforce := none } sb =
      .ok { version := v, supported := clientList { calls := calls, enforce := none } } := by
    unfold dial
    simp only
    rw [hn]
  rcases hc with ⟨_, _, hv, hs', hcv⟩ | ⟨_, hs', hcv⟩
  · subst hs'
    refine ⟨⟨clientList { calls := calls, enforce := none }, by rw [hd, hcv, h10, hv]⟩, hs, ?_⟩
    intro x hx
    simp only [List.mem_cons, List.not_mem_nil, or_false] at hx
    subst hx
    rw [hcv]; simp only [addrV10]; omega
  · subst hs'
    refine ⟨⟨clientList { calls := calls, enforce := none }, by rw [hd, hcv]; simp [Store.alloc]⟩, by simp [Store.alloc], ?_⟩
    intro x hx
    simp only [List.mem_cons, List.not_mem_nil, or_false] at hx
    subst hx
    rw [hcv]; simp [Store.alloc]

/-- outside the fallback the client's variable is a fresh one: nothing else of the program can reach it. -/
theorem dialM_noAlias (t : Tables) (s : Store) (calls : List (List Version)) (sb : ServerBehaviour)
    (s' : Store) (c : MClient) (hs : 1 ≤ s.next) (h : dialM t s calls none sb = .ok (s', c))
    (hnf : ∀ bi, respond sb discoverHeader (clientList { calls := calls, enforce := none }) = .msg 1 [bi] →
      ¬ (bi.status = statusFailed ∧ bi.reason = reasonNotSupported)) :
    NoAlias { store := s', clients := [c] } := by
  obtain ⟨v, bi, _, hrt, hc⟩ := dialM_none t s calls sb s' c h
  rcases hc with ⟨h1, h2, _⟩ | ⟨_, _, hcv⟩
  · exact absurd ⟨h1, h2⟩ (hnf bi hrt)
  · intro x hx
    simp only [List.mem_cons, List.not_mem_nil, or_false] at hx
    subst hx
    rw [hcv]; simp only [addrV10]; omega

/-! ### the finite table of the property's quantifier (sub-sets of 1.0 … 1.4) -/

/-- all sub-lists of a list. -/
def sublists : List Version → List (List Version)
  | [] => [[]]
  | x :: xs => (sublists xs).map (x :: ·) ++ sublists xs

/-- independent specification: the first of 1.4 … 1.0 that is in both sets. -/
def specMax (c s : List Version) : Option Version :=
  defaultVersions.find? (fun v => c.contains v && s.contains v)

/-- what the PROPERTY predicts for client set `c` and server set `s` (an empty server configuration means
    the default list): the highest common version, failure when there is none. -/
def expected (c s : List Version) : Result :=
  let s' := if s.isEmpty then defaultVersions else s
  match specMax c s' with
  | some m => .ok m
  | none => .err

/-- the rows of the table on which the OPEN FINDING `nego:server-without-1.1-rejects-discovery` bites:
    a common version exists, but the server's set lacks 1.1 (the header version of the discovery request). -/
def findingRow (c s : List Version) : Bool :=
  let s' := if s.isEmpty then defaultVersions else s
  !s'.contains v11 && (specMax c s').isSome

/-- the model's result for one row (client configured with `c`, kmip-go server with `s`). -/
def tableRow (c s : List Version) : Result :=
  adopt { calls := [c.reverse], enforce := none } (.library s.reverse)

/-- every row outside the finding rows gives the property's expected result; every finding row fails. -/
def tableOk : Bool :=
  (sublists defaultVersions).all fun c =>
    c.isEmpty || (sublists defaultVersions).all fun s =>
      if findingRow c s then decide (tableRow c s = .err) else decide (tableRow c s = expected c s)

/-- number of rows (non-empty client set × server set) for which `p` holds. -/
def countRows (p : List Version → List Version → Bool) : Nat :=
  ((sublists defaultVersions).filter (fun c => !c.isEmpty)).foldl
    (fun n c => n + ((sublists defaultVersions).filter (fun s => p c s)).length) 0

end Kmip.Nego
