package main

import (
	"bytes"
	"fmt"
	"math/big"
	"os"
	"path/filepath"
	"strings"
)

// Helpers shared by every generated module.
//
// Representation rules (measured limits of the Lean 4.33 kernel in this sandbox):
//   - never a Lean `String` in anything the kernel evaluates: a name is ONE `Nat` literal, see packName;
//   - a list literal holds at most chunkSize elements; longer tables are emitted as
//     `def xChunk0 … def xChunkK` and `def x := xChunk0 ++ … ++ xChunkK`.

const chunkSize = 64

// writeIfChanged writes content to path unless the file already holds exactly these bytes
// (lake keys on content; not touching the file also keeps its mtime).
func writeIfChanged(path string, content []byte) (changed bool, err error) {
	old, err := os.ReadFile(path)
	if err == nil && bytes.Equal(old, content) {
		return false, nil
	}
	if err := os.MkdirAll(filepath.Dir(path), 0o755); err != nil {
		return false, err
	}
	tmp := path + ".tmp"
	if err := os.WriteFile(tmp, content, 0o644); err != nil {
		return false, err
	}
	return true, os.Rename(tmp, path)
}

// packName packs a Go string into one natural number: the big-endian base-256 number whose digits
// are the byte 0x01 followed by the UTF-8 bytes of the name. The leading 0x01 makes the packing
// injective on ALL byte strings (without it "\x00A" and "A" would collide) and the empty name is 1.
// Lean side: `Kmip.Reg.pack` / `Kmip.Reg.unpack` in KmipModel/Model/Registry.lean.
func packName(s string) *big.Int {
	b := append([]byte{1}, []byte(s)...)
	return new(big.Int).SetBytes(b)
}

// leanName renders a packed name as a Lean hexadecimal literal.
func leanName(s string) string {
	return "0x" + strings.ToUpper(packName(s).Text(16))
}

// leanComment makes a string safe inside a Lean line comment.
func leanComment(s string) string {
	var sb strings.Builder
	for _, r := range s {
		if r < 0x20 || r == 0x7f {
			fmt.Fprintf(&sb, "\\x%02x", r)
		} else {
			sb.WriteRune(r)
		}
	}
	return sb.String()
}

// elem is one element of an emitted list: Lean source text plus a trailing human-readable comment.
type elem struct {
	src     string
	comment string
}

// emitList writes `def <name> : <ty> := [ … ]`, chunked when it has more than chunkSize elements.
func emitList(w *bytes.Buffer, doc, name, ty string, elems []elem) {
	writeChunk := func(n string, es []elem) {
		if len(es) == 0 {
			fmt.Fprintf(w, "def %s : %s := []\n", n, ty)
			return
		}
		fmt.Fprintf(w, "def %s : %s := [\n", n, ty)
		for i, e := range es {
			sep := ","
			if i == len(es)-1 {
				sep = ""
			}
			if e.comment != "" {
				fmt.Fprintf(w, "  %s%s  -- %s\n", e.src, sep, leanComment(e.comment))
			} else {
				fmt.Fprintf(w, "  %s%s\n", e.src, sep)
			}
		}
		fmt.Fprintf(w, "]\n")
	}
	if doc != "" {
		fmt.Fprintf(w, "/-- %s -/\n", doc)
	}
	if len(elems) <= chunkSize {
		writeChunk(name, elems)
		w.WriteString("\n")
		return
	}
	var parts []string
	for k := 0; k*chunkSize < len(elems); k++ {
		hi := min((k+1)*chunkSize, len(elems))
		cn := fmt.Sprintf("%sChunk%d", name, k)
		writeChunk(cn, elems[k*chunkSize:hi])
		parts = append(parts, cn)
	}
	fmt.Fprintf(w, "def %s : %s :=\n  %s\n\n", name, ty, strings.Join(parts, " ++ "))
}

// pairNumName is an element `(number, packedName)`.
func pairNumName(num uint64, width int, name string) elem {
	return elem{fmt.Sprintf("(0x%0*X, %s)", width, num, leanName(name)), fmt.Sprintf("%q", name)}
}

// pairNameNum is an element `(packedName, number)`.
func pairNameNum(name string, num uint64, width int) elem {
	return elem{fmt.Sprintf("(%s, 0x%0*X)", leanName(name), width, num), fmt.Sprintf("%q", name)}
}
