/-
  Driver handlers `reg.*`: the registry functions of the model answered from the GENERATED tables
  (`Kmip.Gen.*`, regenerated from the Go tree on every check), so that a change of the Go registry
  changes the tables, which must still agree with what the Go functions answer.

  Texts (names, separators, inputs) travel as upper-case hex of their bytes, `-` for the empty string;
  numbers in decimal. Answers: `ok <hex>` / `ok <number>` / `err`.

    reg.tagname <tag>                  ttlv.TagString
    reg.tagxml <tag>                   the XML writer's element name / tag attribute
    reg.tagnum <hex text>              xmlReader.Tag / jsonReader.Tag on the raw tag text
    reg.enumname <tag> <v>             ttlv.EnumName                     (`-` when unregistered)
    reg.enumtext <tag> <v>             EnumStr / MarshalText / XML / JSON writers
    reg.enumbyname <tag> <hex>         ttlv.EnumByName
    reg.enumparse <tag> <hex>          xmlReader.Enum / jsonReader.Enum (string value)
    reg.enumunmarshal <tag> <hex>      UnmarshalText of the enumeration types
    reg.masktext <tag> <hex sep> <v>   ttlv.AppendBitmaskString / BitmaskStr (v = uint32 pattern)
    reg.maskbyname <tag> <hex>         ttlv.BitmaskByStr                 (uint32 pattern)
    reg.maskxml|maskjson|maskunmarshal <tag> <hex>   the three readers    (uint32 pattern)

  Typed values (the table is chosen by the Go type through `Gen.typeTags`, not by the element tag);
  `<ty>` = hex of `reflect.Type.String()`:
    reg.typedenum <ty> <elem> <v>            Encoder.TagAny(elem, T(v)) in XML / JSON / text
    reg.typedparse <ty> <elem> <hex>         Decoder.TagAny(elem, *T) on an XML / JSON string value
    reg.typedmask <ty> <elem> <hex sep> <v>  the same for a bit-mask type
    reg.typedmaskxml|typedmaskjson <ty> <elem> <hex>

  The PINNED registry (trusted data, `Kmip.Pinned.*`), handed to the harness so that its oracles compare
  the real code with the pin without a second copy of it:
    reg.pin tags|tagsbyname|enumtags|enums|enumsbyname|masktags|masks|masksbyname|enumtypes|masktypes
                                             `ok` followed by blank-separated entries `k:v`, `tag/k:v`
    reg.pin covers                           `coversRegistry Pinned Gen`   (the obligation `C17.registry_agrees`)
    reg.pin equal                            `equalsRegistry Pinned Gen`   (information: `C17.registry_equals_pin`)
-/
import Driver.Common
import KmipModel.Model.Registry
import KmipModel.Gen.Registry
import KmipModel.Pinned.Registry
open Kmip Kmip.Reg

namespace Driver

def regHex (bs : List Nat) : String :=
  if bs.isEmpty then "-" else hexOfBytes (bs.map fun b => UInt8.ofNat b)

def regBytes (s : String) : Option (List Nat) :=
  (bytesOfHex s).map fun bs => bs.map fun b => b.toNat

def regOpt (o : Option Nat) : String :=
  match o with
  | some v => "ok " ++ toString v
  | none => "err"

def regName (n : Nat) : String := regHex (unpack n)

def regJoin (l : List String) : String := "ok" ++ String.join (l.map fun x => " " ++ x)

def regPin (what : String) : String :=
  match what with
  | "tags" => regJoin (Pinned.tagNames.map fun p => toString p.1 ++ ":" ++ regName p.2)
  | "tagsbyname" => regJoin (Pinned.tagByName.map fun p => regName p.1 ++ ":" ++ toString p.2)
  | "enumtags" => regJoin (Pinned.enums.map fun e => toString e.1)
  | "enums" => regJoin (Pinned.enums.flatMap fun e =>
      e.2.1.map fun p => toString e.1 ++ "/" ++ toString p.1 ++ ":" ++ regName p.2)
  | "enumsbyname" => regJoin (Pinned.enums.flatMap fun e =>
      e.2.2.map fun p => toString e.1 ++ "/" ++ regName p.1 ++ ":" ++ toString p.2)
  | "masktags" => regJoin (Pinned.masks.map fun e => toString e.1)
  | "masks" => regJoin (Pinned.masks.flatMap fun e =>
      (List.range e.2.1.length).map fun i =>
        toString e.1 ++ "/" ++ toString i ++ ":" ++ regName (e.2.1.getD i emptyName))
  | "masksbyname" => regJoin (Pinned.masks.flatMap fun e =>
      e.2.2.map fun p => toString e.1 ++ "/" ++ regName p.1 ++ ":" ++ toString p.2)
  | "enumtypes" => regJoin (Pinned.enumTypes.map fun p => regName p.1 ++ ":" ++ toString p.2)
  | "masktypes" => regJoin (Pinned.maskTypes.map fun p => regName p.1 ++ ":" ++ toString p.2)
  | "covers" => "ok " ++ toString (coversRegistry Pinned.tagNames Gen.tagNames Pinned.tagByName
      Gen.tagByName Pinned.enums Gen.enums Pinned.masks Gen.masks Pinned.enumTypes Gen.enumTypes
      Pinned.maskTypes Gen.maskTypes)
  | "equal" => "ok " ++ toString (equalsRegistry Pinned.tagNames Gen.tagNames Pinned.tagByName
      Gen.tagByName Pinned.enums Gen.enums Pinned.masks Gen.masks Pinned.enumTypes Gen.enumTypes
      Pinned.maskTypes Gen.maskTypes)
  | _ => "bad-op"

/-- `none` = command not handled here. -/
def handleRegistry (cmd arg : String) : Option String :=
  if !cmd.startsWith "reg." then none else
  let args := arg.splitOn " "
  some <|
  match cmd, args with
  | "reg.tagname", [t] =>
    match t.toNat? with
    | some t => "ok " ++ regHex (tagToText Gen.tagNames t)
    | none => "bad-op"
  | "reg.tagxml", [t] =>
    match t.toNat? with
    | some t => "ok " ++ regHex (tagToTextXml Gen.tagNames t)
    | none => "bad-op"
  | "reg.tagnum", [h] =>
    match regBytes h with
    | some s => "ok " ++ toString (tagFromText Gen.tagByName s)
    | none => "bad-op"
  | "reg.enumname", [t, v] =>
    match t.toNat?, v.toNat? with
    | some t, some v =>
      match lookup v (enumByValue Gen.enums t) with
      | some n => "ok " ++ regHex (unpack n)
      | none => "ok -"
    | _, _ => "bad-op"
  | "reg.enumtext", [t, v] =>
    match t.toNat?, v.toNat? with
    | some t, some v => "ok " ++ regHex (enumToText (enumByValue Gen.enums t) v)
    | _, _ => "bad-op"
  | "reg.enumbyname", [t, h] =>
    match t.toNat?, regBytes h with
    | some t, some s => regOpt (lookup (pack s) (enumByName Gen.enums t))
    | _, _ => "bad-op"
  | "reg.enumparse", [t, h] =>
    match t.toNat?, regBytes h with
    | some t, some s => regOpt (enumFromTextReader (enumByName Gen.enums t) s)
    | _, _ => "bad-op"
  | "reg.enumunmarshal", [t, h] =>
    match t.toNat?, regBytes h with
    | some t, some s => regOpt (enumFromTextUnmarshal (enumByName Gen.enums t) s)
    | _, _ => "bad-op"
  | "reg.masktext", [t, sep, v] =>
    match t.toNat?, regBytes sep, v.toNat? with
    | some t, some sep, some v => "ok " ++ regHex (maskToText (maskNames Gen.masks t) sep v)
    | _, _, _ => "bad-op"
  | "reg.maskbyname", [t, h] =>
    match t.toNat?, regBytes h with
    | some t, some s => regOpt (lookup (pack s) (maskByName Gen.masks t))
    | _, _ => "bad-op"
  | "reg.maskxml", [t, h] =>
    match t.toNat?, regBytes h with
    | some t, some s => regOpt (maskFromTextXml (maskByName Gen.masks t) s)
    | _, _ => "bad-op"
  | "reg.maskjson", [t, h] =>
    match t.toNat?, regBytes h with
    | some t, some s => regOpt (maskFromTextJson (maskByName Gen.masks t) s)
    | _, _ => "bad-op"
  | "reg.maskunmarshal", [t, h] =>
    match t.toNat?, regBytes h with
    | some t, some s => regOpt (maskFromTextUnmarshal (maskByName Gen.masks t) s)
    | _, _ => "bad-op"
  | "reg.typedenum", [ty, e, v] =>
    match regBytes ty, e.toNat?, v.toNat? with
    | some ty, some e, some v => "ok " ++ regHex (typedEnumToText Gen.typeTags Gen.enums (pack ty) e v)
    | _, _, _ => "bad-op"
  | "reg.typedparse", [ty, e, h] =>
    match regBytes ty, e.toNat?, regBytes h with
    | some ty, some e, some s => regOpt (typedEnumFromText Gen.typeTags Gen.enums (pack ty) e s)
    | _, _, _ => "bad-op"
  | "reg.typedmask", [ty, e, sep, v] =>
    match regBytes ty, e.toNat?, regBytes sep, v.toNat? with
    | some ty, some e, some sep, some v =>
      "ok " ++ regHex (typedMaskToText Gen.typeTags Gen.masks (pack ty) e sep v)
    | _, _, _, _ => "bad-op"
  | "reg.typedmaskxml", [ty, e, h] =>
    match regBytes ty, e.toNat?, regBytes h with
    | some ty, some e, some s => regOpt (typedMaskFromXml Gen.typeTags Gen.masks (pack ty) e s)
    | _, _, _ => "bad-op"
  | "reg.typedmaskjson", [ty, e, h] =>
    match regBytes ty, e.toNat?, regBytes h with
    | some ty, some e, some s => regOpt (typedMaskFromJson Gen.typeTags Gen.masks (pack ty) e s)
    | _, _, _ => "bad-op"
  | "reg.pin", [what] => regPin what
  | _, _ => "bad-op"

end Driver
