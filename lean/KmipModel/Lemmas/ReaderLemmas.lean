/-
  Helper lemmas about `KmipModel.Model.Reader`: the `Res` monad, absence of panics in the getters
  and the generic decoder, extent of `rawParse`, and the round trip `unmarshalValue (enc t) = ok t`.
  Core Lean only.
-/
import KmipModel.Lemmas.WireLemmas
import KmipModel.Model.Reader
namespace Kmip

/-! ### the `Res` monad -/

@[simp] theorem Res.ok_bind {α β : Type} (a : α) (f : α → Res β) : (Res.ok a >>= f) = f a := rfl
@[simp] theorem Res.err_bind {α β : Type} (e : Err) (f : α → Res β) :
    (Res.err e >>= f) = Res.err e := rfl
@[simp] theorem Res.panic_bind {α β : Type} (m : String) (f : α → Res β) :
    (Res.panic m >>= f) = Res.panic m := rfl
@[simp] theorem Res.pure_eq {α : Type} (a : α) : (pure a : Res α) = Res.ok a := rfl

/-- the computation does not end in a Go panic. -/
def Res.NoPanic {α : Type} (r : Res α) : Prop := ∀ msg, r ≠ .panic msg

theorem Res.noPanic_ok {α : Type} (a : α) : (Res.ok a).NoPanic := fun _ h => nomatch h
theorem Res.noPanic_pure {α : Type} (a : α) : (pure a : Res α).NoPanic := fun _ h => nomatch h
theorem Res.noPanic_err {α : Type} (e : Err) : (Res.err e : Res α).NoPanic := fun _ h => nomatch h

theorem Res.noPanic_bind {α β : Type} {x : Res α} {f : α → Res β} (hx : x.NoPanic)
    (hf : ∀ a, x = .ok a → (f a).NoPanic) : (x >>= f).NoPanic := by
  cases x with
  | ok a => exact hf a rfl
  | err e => exact Res.noPanic_err e
  | panic m => exact absurd rfl (hx m)

/-! ### C02.1 — no panics -/

theorem Cur.expect_noPanic (c : Cur) (ty tag : Nat) : (c.expect ty tag).NoPanic := by
  unfold Cur.expect
  split
  · exact Res.noPanic_err _
  · split
    · exact Res.noPanic_err _
    · split
      · exact Res.noPanic_err _
      · exact Res.noPanic_ok _

theorem Cur.next_noPanic (c : Cur) : c.next.NoPanic := by
  unfold Cur.next
  split
  · exact Res.noPanic_ok _
  · split
    · exact Res.noPanic_err _
    · exact Res.noPanic_ok _

theorem Cur.start_noPanic (bs : Bytes) : (Cur.start bs).NoPanic := by
  unfold Cur.start
  split
  split
  · exact Res.noPanic_err _
  · exact Res.noPanic_ok _

/-- a fixed-width getter does not panic when its conversion does not panic on inputs of the
    asserted width: the length guard precedes the conversion. -/
theorem Cur.fixed_noPanic {α : Type} (c : Cur) (ty tag width : Nat) (conv : Bytes → Res α)
    (hconv : ∀ v : Bytes, v.length = width → (conv v).NoPanic) :
    (c.fixed ty tag width conv).NoPanic := by
  unfold Cur.fixed
  refine Res.noPanic_bind (Cur.expect_noPanic _ _ _) (fun it _ => ?_)
  split
  · exact Res.noPanic_err _
  · rename_i hlen
    refine Res.noPanic_bind (hconv _ (Decidable.not_not.1 hlen)) (fun v _ => ?_)
    exact Res.noPanic_bind (Cur.next_noPanic _) (fun c' _ => Res.noPanic_pure _)

theorem goU32_noPanic (v : Bytes) (h : v.length = 4) : (goU32 v).NoPanic := by
  unfold goU32; rw [if_neg (by omega)]; exact Res.noPanic_ok _

theorem goU64_noPanic (v : Bytes) (h : v.length = 8) : (goU64 v).NoPanic := by
  unfold goU64; rw [if_neg (by omega)]; exact Res.noPanic_ok _

theorem goIndex_noPanic (v : Bytes) (i : Nat) (h : i < v.length) : (goIndex v i).NoPanic := by
  unfold goIndex; rw [List.getElem?_eq_getElem h]; exact Res.noPanic_ok _

theorem goBytesToBigInt_noPanic (v : Bytes) (h : v.isEmpty = false) :
    (goBytesToBigInt v).NoPanic := by
  unfold goBytesToBigInt; rw [h]; exact Res.noPanic_ok _

theorem Cur.integer_noPanic (c : Cur) (tag : Nat) : (c.integer tag).NoPanic :=
  Cur.fixed_noPanic c 2 tag 4 _ fun v h =>
    Res.noPanic_bind (goU32_noPanic v h) (fun _ _ => Res.noPanic_pure _)

theorem Cur.longInteger_noPanic (c : Cur) (tag : Nat) : (c.longInteger tag).NoPanic :=
  Cur.fixed_noPanic c 3 tag 8 _ fun v h =>
    Res.noPanic_bind (goU64_noPanic v h) (fun _ _ => Res.noPanic_pure _)

theorem Cur.enum_noPanic (c : Cur) (tag : Nat) : (c.enum tag).NoPanic :=
  Cur.fixed_noPanic c 5 tag 4 _ goU32_noPanic

theorem Cur.bool_noPanic (c : Cur) (tag : Nat) : (c.bool tag).NoPanic :=
  Cur.fixed_noPanic c 6 tag 8 _ fun v h =>
    Res.noPanic_bind (goIndex_noPanic v 7 (by omega)) (fun _ _ => Res.noPanic_pure _)

theorem Cur.dateTime_noPanic (c : Cur) (tag : Nat) : (c.dateTime tag).NoPanic :=
  Cur.fixed_noPanic c 9 tag 8 _ fun v h =>
    Res.noPanic_bind (goU64_noPanic v h) (fun _ _ => Res.noPanic_pure _)

theorem Cur.interval_noPanic (c : Cur) (tag : Nat) : (c.interval tag).NoPanic :=
  Cur.fixed_noPanic c 10 tag 4 _ goU32_noPanic

theorem Cur.bigInteger_noPanic (c : Cur) (tag : Nat) : (c.bigInteger tag).NoPanic := by
  unfold Cur.bigInteger
  refine Res.noPanic_bind (Cur.expect_noPanic _ _ _) (fun it _ => ?_)
  split
  · exact Res.noPanic_err _
  · rename_i hne
    refine Res.noPanic_bind (goBytesToBigInt_noPanic _ (by simpa using hne)) (fun v _ => ?_)
    exact Res.noPanic_bind (Cur.next_noPanic _) (fun c' _ => Res.noPanic_pure _)

theorem Cur.textString_noPanic (c : Cur) (tag : Nat) : (c.textString tag).NoPanic := by
  unfold Cur.textString
  refine Res.noPanic_bind (Cur.expect_noPanic _ _ _) (fun it _ => ?_)
  exact Res.noPanic_bind (Cur.next_noPanic _) (fun c' _ => Res.noPanic_pure _)

theorem Cur.byteString_noPanic (c : Cur) (tag : Nat) : (c.byteString tag).NoPanic := by
  unfold Cur.byteString
  refine Res.noPanic_bind (Cur.expect_noPanic _ _ _) (fun it _ => ?_)
  exact Res.noPanic_bind (Cur.next_noPanic _) (fun c' _ => Res.noPanic_pure _)

theorem Cur.struct_noPanic {α : Type} (c : Cur) (tag : Nat) (f : Cur → Res α)
    (hf : ∀ inner, (f inner).NoPanic) : (c.struct tag f).NoPanic := by
  unfold Cur.struct
  refine Res.noPanic_bind (Cur.expect_noPanic _ _ _) (fun it _ => ?_)
  refine Res.noPanic_bind (Cur.start_noPanic _) (fun inner _ => ?_)
  refine Res.noPanic_bind (hf inner) (fun a _ => ?_)
  exact Res.noPanic_bind (Cur.next_noPanic _) (fun c' _ => Res.noPanic_pure _)

theorem decode_noPanic (fuel : Nat) :
    (∀ (c : Cur) (tag : Nat), (decodeValue fuel c tag).NoPanic) ∧
    (∀ c : Cur, (decodeFields fuel c).NoPanic) := by
  induction fuel with
  | zero =>
    constructor
    · intro c tag; rw [decodeValue]; exact Res.noPanic_err _
    · intro c; rw [decodeFields]; exact Res.noPanic_err _
  | succ fuel ih =>
    constructor
    · intro c tag
      rw [decodeValue]
      split
      · exact Res.noPanic_bind (Cur.integer_noPanic c tag) (fun _ _ => Res.noPanic_pure _)
      · exact Res.noPanic_bind (Cur.longInteger_noPanic c tag) (fun _ _ => Res.noPanic_pure _)
      · exact Res.noPanic_bind (Cur.bigInteger_noPanic c tag) (fun _ _ => Res.noPanic_pure _)
      · exact Res.noPanic_bind (Cur.bool_noPanic c tag) (fun _ _ => Res.noPanic_pure _)
      · exact Res.noPanic_bind (Cur.byteString_noPanic c tag) (fun _ _ => Res.noPanic_pure _)
      · exact Res.noPanic_bind (Cur.dateTime_noPanic c tag) (fun _ _ => Res.noPanic_pure _)
      · exact Res.noPanic_bind (Cur.enum_noPanic c tag) (fun _ _ => Res.noPanic_pure _)
      · exact Res.noPanic_bind (Cur.interval_noPanic c tag) (fun _ _ => Res.noPanic_pure _)
      · exact Res.noPanic_bind (Cur.textString_noPanic c tag) (fun _ _ => Res.noPanic_pure _)
      · exact Res.noPanic_bind (Cur.struct_noPanic c tag _ (fun inner => ih.2 inner))
          (fun _ _ => Res.noPanic_pure _)
      · exact Res.noPanic_err _
    · intro c
      rw [decodeFields]
      split
      · exact Res.noPanic_ok _
      · refine Res.noPanic_bind (ih.1 c c.tag) (fun a _ => ?_)
        exact Res.noPanic_bind (ih.2 _) (fun _ _ => Res.noPanic_pure _)

theorem unmarshalValue_noPanic (bs : Bytes) : (unmarshalValue bs).NoPanic := by
  unfold unmarshalValue
  refine Res.noPanic_bind (Cur.start_noPanic bs) (fun c _ => ?_)
  exact Res.noPanic_bind ((decode_noPanic _).1 c c.tag) (fun _ _ => Res.noPanic_pure _)

/-! ### C02.2 / C02.3 — extent of `rawParse` -/

theorem rawParse_succ (fuel : Nat) (bs : Bytes) :
    rawParse (fuel + 1) bs =
      if bs.isEmpty then ([], none)
      else if bs.length < 8 then ([], some .shortHeader)
      else if bs.length - 8 < paddedLen (beVal ((bs.drop 4).take 4)) then ([], some .shortValue)
      else if (bs.getD 3 0).toNat > 10 ∨ (bs.getD 3 0).toNat = 0 then ([], some .badType)
      else
        ({ tag := beVal (bs.take 3), ty := (bs.getD 3 0).toNat,
           val := (bs.drop 8).take (beVal ((bs.drop 4).take 4)) } ::
          (rawParse fuel (bs.drop (8 + paddedLen (beVal ((bs.drop 4).take 4))))).1,
         (rawParse fuel (bs.drop (8 + paddedLen (beVal ((bs.drop 4).take 4))))).2) := by
  rw [rawParse]

theorem le_paddedLen (l : Nat) : l ≤ paddedLen l := by unfold paddedLen; omega

/-- every raw item's value lies inside the input, after (at least) the 8 bytes of its header and
    followed by (at least) its padding. -/
theorem rawParse_within_aux : ∀ (fuel : Nat) (bs : Bytes) (it : RawItem),
    it ∈ (rawParse fuel bs).1 →
    ∃ pre post, bs = pre ++ it.val ++ post ∧ 8 ≤ pre.length ∧
      padForLen it.val.length 8 ≤ post.length := by
  intro fuel
  induction fuel with
  | zero => intro bs it h; simp [rawParse] at h
  | succ fuel ih =>
    intro bs it h
    rw [rawParse_succ] at h
    split at h
    · simp at h
    · split at h
      · simp at h
      · split at h
        · simp at h
        · split at h
          · simp at h
          · rename_i h8 hlen _
            generalize hL : beVal ((bs.drop 4).take 4) = len at h hlen
            have hle := le_paddedLen len
            simp only [List.mem_cons] at h
            rcases h with h | h
            · subst h
              refine ⟨bs.take 8, (bs.drop 8).drop len, ?_, ?_, ?_⟩
              · simp only [List.append_assoc, List.take_append_drop]
              · rw [List.length_take]; omega
              · simp only [List.length_take, List.length_drop]
                unfold paddedLen at hlen hle
                rw [Nat.min_eq_left (by omega)]
                omega
            · obtain ⟨pre, post, e, hp, hq⟩ := ih _ it h
              refine ⟨bs.take (8 + paddedLen len) ++ pre, post, ?_, ?_, hq⟩
              · rw [List.append_assoc, List.append_assoc, ← List.append_assoc pre, ← e,
                  List.take_append_drop]
              · rw [List.length_append]; omega

theorem rawParse_extent_aux : ∀ (fuel : Nat) (bs : Bytes),
    (((rawParse fuel bs).1.map fun it => 8 + paddedLen it.val.length).sum) ≤ bs.length := by
  intro fuel
  induction fuel with
  | zero => intro bs; simp [rawParse]
  | succ fuel ih =>
    intro bs
    rw [rawParse_succ]
    split
    · simp
    · split
      · simp
      · split
        · simp
        · split
          · simp
          · rename_i h8 hlen _
            generalize hL : beVal ((bs.drop 4).take 4) = len at hlen
            have hle := le_paddedLen len
            have := ih (bs.drop (8 + paddedLen len))
            simp only [List.map_cons, List.sum_cons, List.length_take, List.length_drop] at this ⊢
            rw [Nat.min_eq_left (by omega)]
            omega

/-! ### C02.4 — the generic decoder reads back every encoding -/

/-- the value bytes (padding excluded) `enc` writes for an item. -/
def Item.body : Item → Bytes
  | .struct _ cs => encList cs
  | .int _ v => be32 (unsignedOfInt 32 v)
  | .long _ v => be64 (unsignedOfInt 64 v)
  | .big _ v => encodeBig v
  | .enum _ v => be32 v
  | .bool _ b => [0, 0, 0, 0, 0, 0, 0, if b then 1 else 0]
  | .text _ s => s
  | .bytes _ s => s
  | .date _ v => be64 (unsignedOfInt 64 v)
  | .interval _ v => be32 v

/-- the raw item the reader sees for an encoded item. -/
def Item.raw (t : Item) : RawItem := { tag := t.tag, ty := t.ty, val := t.body }

theorem enc_eq_hdr_body (t : Item) :
    enc t = hdr t.tag t.ty t.body.length ++ (t.body ++ List.replicate (padForLen t.body.length 8) 0) := by
  cases t with
  | struct tag cs =>
    rw [enc]
    simp only [Item.tag, Item.ty, Item.body, padForLen_eq_zero (encList_length_mod cs),
      List.replicate_zero, List.append_nil]
  | big tag v =>
    rw [enc]
    simp only [Item.tag, Item.ty, Item.body, padForLen_eq_zero (encodeBig_length_mod v),
      List.replicate_zero, List.append_nil]
  | text tag s => rw [enc]; simp only [Item.tag, Item.ty, Item.body, List.append_assoc]
  | bytes tag s => rw [enc]; simp only [Item.tag, Item.ty, Item.body, List.append_assoc]
  | int tag v => rw [enc]; simp only [List.append_assoc]; rfl
  | long tag v =>
    rw [enc]
    simp only [Item.tag, Item.ty, Item.body, be64_length, show padForLen 8 8 = 0 from rfl,
      List.replicate_zero, List.append_nil]
  | enum tag v => rw [enc]; simp only [List.append_assoc]; rfl
  | bool tag b =>
    rw [enc]
    simp only [Item.tag, Item.ty, Item.body, List.length_cons, List.length_nil,
      show padForLen (0 + 1 + 1 + 1 + 1 + 1 + 1 + 1 + 1) 8 = 0 from rfl,
      List.replicate_zero, List.append_nil]
  | date tag v =>
    rw [enc]
    simp only [Item.tag, Item.ty, Item.body, be64_length, show padForLen 8 8 = 0 from rfl,
      List.replicate_zero, List.append_nil]
  | interval tag v => rw [enc]; simp only [List.append_assoc]; rfl

theorem Item.ty_range (t : Item) : 1 ≤ t.ty ∧ t.ty ≤ 10 := by
  cases t <;> simp [Item.ty]

theorem Item.InRange_basic (t : Item) (h : t.InRange) :
    0 < t.tag ∧ t.tag < 2 ^ 24 ∧ t.body.length < 2 ^ 32 := by
  cases t with
  | struct tag cs => rw [Item.InRange] at h; exact ⟨h.1, h.2.1, h.2.2.1⟩
  | int tag v => rw [Item.InRange] at h; exact ⟨h.1, h.2.1, by simp [Item.body]⟩
  | long tag v => rw [Item.InRange] at h; exact ⟨h.1, h.2.1, by simp [Item.body]⟩
  | big tag v => rw [Item.InRange] at h; exact ⟨h.1, h.2.1, h.2.2⟩
  | enum tag v => rw [Item.InRange] at h; exact ⟨h.1, h.2.1, by simp [Item.body]⟩
  | bool tag b => rw [Item.InRange] at h; exact ⟨h.1, h.2, by simp [Item.body]⟩
  | text tag s => rw [Item.InRange] at h; exact ⟨h.1, h.2.1, h.2.2⟩
  | bytes tag s => rw [Item.InRange] at h; exact ⟨h.1, h.2.1, h.2.2⟩
  | date tag v => rw [Item.InRange] at h; exact ⟨h.1, h.2.1, by simp [Item.body]⟩
  | interval tag v => rw [Item.InRange] at h; exact ⟨h.1, h.2.1, by simp [Item.body]⟩

theorem rawParse_nil (fuel : Nat) : rawParse fuel [] = ([], none) := by
  cases fuel <;> rfl

theorem rawParse_hdr (fuel tag ty len : Nat) (val rest : Bytes)
    (htag : tag < 2 ^ 24) (hty1 : 1 ≤ ty) (hty : ty ≤ 10) (hlen : len < 2 ^ 32)
    (hval : val.length = len) :
    rawParse (fuel + 1) (hdr tag ty len ++ (val ++ (List.replicate (padForLen len 8) 0 ++ rest)))
      = ({ tag := tag, ty := ty, val := val } :: (rawParse fuel rest).1, (rawParse fuel rest).2) := by
  generalize htl : val ++ (List.replicate (padForLen len 8) 0 ++ rest) = tl
  have e0 : (hdr tag ty len ++ tl).isEmpty = false := rfl
  have e1 : (hdr tag ty len ++ tl).take 3 = tag3 tag := rfl
  have e2 : ((hdr tag ty len ++ tl).drop 4).take 4 = be32 len := rfl
  have e3 : (hdr tag ty len ++ tl).getD 3 0 = Nat.toUInt8 ty := rfl
  have e4 : (hdr tag ty len ++ tl).drop 8 = tl := rfl
  have e5 : ¬ (hdr tag ty len ++ tl).length < 8 := by
    rw [List.length_append, hdr_length]; omega
  have e6 : (hdr tag ty len ++ tl).length - 8 = tl.length := by
    rw [List.length_append, hdr_length]; omega
  have h3 : (Nat.toUInt8 ty).toNat = ty := by rw [toUInt8_toNat]; omega
  have htll : tl.length = paddedLen len + rest.length := by
    rw [← htl]; simp only [List.length_append, List.length_replicate, paddedLen]; omega
  have hdrop : (hdr tag ty len ++ tl).drop (8 + paddedLen len) = rest := by
    rw [← List.drop_drop, e4, ← htl, ← List.append_assoc]
    exact List.drop_left' (by simp only [List.length_append, List.length_replicate, paddedLen]; omega)
  have htake : tl.take len = val := by
    rw [← htl, ← hval]; exact List.take_left' rfl
  rw [rawParse_succ, e0, e1, e2, e3, e6, h3, beVal_tag3 tag htag, beVal_be32 len hlen, hdrop,
    e4, htake]
  rw [if_neg (by simp), if_neg e5, if_neg (by omega), if_neg (by omega)]

theorem encList_length_ge : (ts : List Item) → ts.length ≤ (encList ts).length
  | [] => by simp [encList]
  | x :: xs => by
    have := enc_length_ge x
    have := encList_length_ge xs
    rw [encList, List.length_append, List.length_cons]; omega

theorem rawParse_encList : (ts : List Item) → Item.AllInRange ts → (fuel : Nat) →
    ts.length ≤ fuel → rawParse fuel (encList ts) = (ts.map Item.raw, none)
  | [], _, fuel, _ => by rw [encList, rawParse_nil]; rfl
  | x :: xs, h, fuel, hf => by
    rw [Item.AllInRange] at h
    obtain ⟨f, rfl, hf'⟩ := fuel_pos (by simpa using hf : xs.length + 1 ≤ fuel)
    obtain ⟨_, ht, hl⟩ := Item.InRange_basic x h.1
    have hty := Item.ty_range x
    rw [encList, enc_eq_hdr_body, List.append_assoc, List.append_assoc,
      rawParse_hdr f _ _ _ _ _ ht hty.1 hty.2 hl rfl, rawParse_encList xs h.2 f hf']
    rfl

theorem Cur.start_encList (ts : List Item) (h : Item.AllInRange ts) :
    Cur.start (encList ts) = .ok { items := ts.map Item.raw, tail := none } := by
  unfold Cur.start
  rw [rawParse_encList ts h _ (encList_length_ge ts)]
  cases ts <;> rfl

theorem Cur.next_cons (it : RawItem) (rs : List RawItem) :
    Cur.next { items := it :: rs, tail := none } = .ok { items := rs, tail := none } := by
  unfold Cur.next; cases rs <;> rfl

theorem Cur.expect_cons (it : RawItem) (rs : List RawItem) (tl : Option Err) :
    Cur.expect { items := it :: rs, tail := tl } it.ty it.tag = .ok it := by
  simp [Cur.expect]

theorem Cur.expect_ok (it : RawItem) (rs : List RawItem) (tl : Option Err) (ty tag : Nat)
    (h1 : it.tag = tag) (h2 : it.ty = ty) :
    Cur.expect { items := it :: rs, tail := tl } ty tag = .ok it := by
  subst h1 h2; exact Cur.expect_cons it rs tl

theorem Cur.fixed_ok {α : Type} (it : RawItem) (rs : List RawItem) (width : Nat)
    (conv : Bytes → Res α) (v : α) (h3 : it.val.length = width) (h4 : conv it.val = .ok v) :
    Cur.fixed { items := it :: rs, tail := none } it.ty it.tag width conv
      = .ok (v, { items := rs, tail := none }) := by
  unfold Cur.fixed
  rw [Cur.expect_cons]
  simp [h3, h4, Cur.next_cons]

theorem goU32_be32 (n : Nat) (h : n < 2 ^ 32) : goU32 (be32 n) = .ok n := by
  unfold goU32
  rw [if_neg (by simp), show (be32 n).take 4 = be32 n from rfl, beVal_be32 n h]

theorem goU64_be64 (n : Nat) (h : n < 2 ^ 64) : goU64 (be64 n) = .ok n := by
  unfold goU64
  rw [if_neg (by simp), show (be64 n).take 8 = be64 n from rfl, beVal_be64 n h]

theorem Cur.integer_raw (tag : Nat) (v : Int) (rs : List RawItem) (hv : inInt 32 v) :
    Cur.integer { items := (Item.int tag v).raw :: rs, tail := none } tag
      = .ok (v, { items := rs, tail := none }) :=
  Cur.fixed_ok (Item.int tag v).raw rs 4 _ v rfl (by
    simp [Item.raw, Item.body, goU32_be32 _ (unsignedOfInt32_lt v),
      signed_unsigned32_of_inInt v hv])

theorem Cur.longInteger_raw (tag : Nat) (v : Int) (rs : List RawItem) (hv : inInt 64 v) :
    Cur.longInteger { items := (Item.long tag v).raw :: rs, tail := none } tag
      = .ok (v, { items := rs, tail := none }) :=
  Cur.fixed_ok (Item.long tag v).raw rs 8 _ v rfl (by
    simp [Item.raw, Item.body, goU64_be64 _ (unsignedOfInt64_lt v),
      signed_unsigned64_of_inInt v hv])

theorem Cur.dateTime_raw (tag : Nat) (v : Int) (rs : List RawItem) (hv : inInt 64 v) :
    Cur.dateTime { items := (Item.date tag v).raw :: rs, tail := none } tag
      = .ok (v, { items := rs, tail := none }) :=
  Cur.fixed_ok (Item.date tag v).raw rs 8 _ v rfl (by
    simp [Item.raw, Item.body, goU64_be64 _ (unsignedOfInt64_lt v),
      signed_unsigned64_of_inInt v hv])

theorem Cur.enum_raw (tag v : Nat) (rs : List RawItem) (hv : v < 2 ^ 32) :
    Cur.enum { items := (Item.enum tag v).raw :: rs, tail := none } tag
      = .ok (v, { items := rs, tail := none }) :=
  Cur.fixed_ok (Item.enum tag v).raw rs 4 _ v rfl (goU32_be32 v hv)

theorem Cur.interval_raw (tag v : Nat) (rs : List RawItem) (hv : v < 2 ^ 32) :
    Cur.interval { items := (Item.interval tag v).raw :: rs, tail := none } tag
      = .ok (v, { items := rs, tail := none }) :=
  Cur.fixed_ok (Item.interval tag v).raw rs 4 _ v rfl (goU32_be32 v hv)

theorem Cur.bool_raw (tag : Nat) (b : Bool) (rs : List RawItem) :
    Cur.bool { items := (Item.bool tag b).raw :: rs, tail := none } tag
      = .ok (b, { items := rs, tail := none }) :=
  Cur.fixed_ok (Item.bool tag b).raw rs 8 _ b rfl (by
    cases b <;> simp [Item.raw, Item.body, goIndex])

theorem Cur.bigInteger_raw (tag : Nat) (v : Int) (rs : List RawItem) :
    Cur.bigInteger { items := (Item.big tag v).raw :: rs, tail := none } tag
      = .ok (v, { items := rs, tail := none }) := by
  have hv : bytesToBigInt (encodeBig v) = v := by
    rw [bytesToBigInt_eq_twos_aux _ (encodeBig_ne_nil v), twos_encodeBig]
  unfold Cur.bigInteger
  rw [Cur.expect_ok (Item.big tag v).raw rs none 4 tag rfl rfl]
  simp [Item.raw, Item.body, goBytesToBigInt, encodeBig_ne_nil v, hv, Cur.next_cons]

theorem Cur.textString_raw (tag : Nat) (s : Bytes) (rs : List RawItem) :
    Cur.textString { items := (Item.text tag s).raw :: rs, tail := none } tag
      = .ok (s, { items := rs, tail := none }) := by
  unfold Cur.textString
  rw [Cur.expect_ok (Item.text tag s).raw rs none 7 tag rfl rfl]
  simp [Item.raw, Item.body, Cur.next_cons]

theorem Cur.byteString_raw (tag : Nat) (s : Bytes) (rs : List RawItem) :
    Cur.byteString { items := (Item.bytes tag s).raw :: rs, tail := none } tag
      = .ok (s, { items := rs, tail := none }) := by
  unfold Cur.byteString
  rw [Cur.expect_ok (Item.bytes tag s).raw rs none 8 tag rfl rfl]
  simp [Item.raw, Item.body, Cur.next_cons]

theorem Cur.struct_raw {α : Type} (tag : Nat) (cs : List Item) (rs : List RawItem)
    (hc : Item.AllInRange cs) (f : Cur → Res α) (a : α)
    (hf : f { items := cs.map Item.raw, tail := none } = .ok a) :
    Cur.struct { items := (Item.struct tag cs).raw :: rs, tail := none } tag f
      = .ok (a, { items := rs, tail := none }) := by
  unfold Cur.struct
  rw [Cur.expect_ok (Item.struct tag cs).raw rs none 1 tag rfl rfl]
  simp [Item.raw, Item.body, Cur.start_encList cs hc, hf, Cur.next_cons]

theorem Cur.ty_raw (t : Item) (rs : List RawItem) (tl : Option Err) :
    Cur.ty { items := t.raw :: rs, tail := tl } = t.ty := rfl

theorem Cur.tag_raw (t : Item) (rs : List RawItem) (tl : Option Err) :
    Cur.tag { items := t.raw :: rs, tail := tl } = t.tag := rfl

mutual
  theorem decodeValue_enc_aux : (t : Item) → t.InRange → (fuel : Nat) → t.size ≤ fuel →
      (rs : List RawItem) →
      decodeValue fuel { items := t.raw :: rs, tail := none } t.tag
        = .ok (t, { items := rs, tail := none })
    | .struct tag cs, h, fuel, hf, rs => by
      rw [Item.size] at hf
      obtain ⟨f, rfl, hf'⟩ := fuel_pos (by omega : Item.sizeList cs + 1 ≤ fuel)
      rw [Item.InRange] at h
      have ih := decodeFields_enc_aux cs h.2.2.2 f hf'
      rw [decodeValue, Cur.ty_raw]
      simp [Item.ty, Item.tag, Cur.struct_raw tag cs rs h.2.2.2 _ cs ih]
    | .int tag v, h, fuel, hf, rs => by
      simp only [Item.size] at hf
      obtain ⟨f, rfl, -⟩ := fuel_pos (by omega : 0 + 1 ≤ fuel)
      rw [Item.InRange] at h
      rw [decodeValue, Cur.ty_raw]
      simp [Item.ty, Item.tag, Cur.integer_raw tag v rs h.2.2]
    | .long tag v, h, fuel, hf, rs => by
      simp only [Item.size] at hf
      obtain ⟨f, rfl, -⟩ := fuel_pos (by omega : 0 + 1 ≤ fuel)
      rw [Item.InRange] at h
      rw [decodeValue, Cur.ty_raw]
      simp [Item.ty, Item.tag, Cur.longInteger_raw tag v rs h.2.2]
    | .big tag v, h, fuel, hf, rs => by
      simp only [Item.size] at hf
      obtain ⟨f, rfl, -⟩ := fuel_pos (by omega : 0 + 1 ≤ fuel)
      rw [decodeValue, Cur.ty_raw]
      simp [Item.ty, Item.tag, Cur.bigInteger_raw tag v rs]
    | .enum tag v, h, fuel, hf, rs => by
      simp only [Item.size] at hf
      obtain ⟨f, rfl, -⟩ := fuel_pos (by omega : 0 + 1 ≤ fuel)
      rw [Item.InRange] at h
      rw [decodeValue, Cur.ty_raw]
      simp [Item.ty, Item.tag, Cur.enum_raw tag v rs h.2.2]
    | .bool tag b, h, fuel, hf, rs => by
      simp only [Item.size] at hf
      obtain ⟨f, rfl, -⟩ := fuel_pos (by omega : 0 + 1 ≤ fuel)
      rw [decodeValue, Cur.ty_raw]
      simp [Item.ty, Item.tag, Cur.bool_raw tag b rs]
    | .text tag s, h, fuel, hf, rs => by
      simp only [Item.size] at hf
      obtain ⟨f, rfl, -⟩ := fuel_pos (by omega : 0 + 1 ≤ fuel)
      rw [decodeValue, Cur.ty_raw]
      simp [Item.ty, Item.tag, Cur.textString_raw tag s rs]
    | .bytes tag s, h, fuel, hf, rs => by
      simp only [Item.size] at hf
      obtain ⟨f, rfl, -⟩ := fuel_pos (by omega : 0 + 1 ≤ fuel)
      rw [decodeValue, Cur.ty_raw]
      simp [Item.ty, Item.tag, Cur.byteString_raw tag s rs]
    | .date tag v, h, fuel, hf, rs => by
      simp only [Item.size] at hf
      obtain ⟨f, rfl, -⟩ := fuel_pos (by omega : 0 + 1 ≤ fuel)
      rw [Item.InRange] at h
      rw [decodeValue, Cur.ty_raw]
      simp [Item.ty, Item.tag, Cur.dateTime_raw tag v rs h.2.2]
    | .interval tag v, h, fuel, hf, rs => by
      simp only [Item.size] at hf
      obtain ⟨f, rfl, -⟩ := fuel_pos (by omega : 0 + 1 ≤ fuel)
      rw [Item.InRange] at h
      rw [decodeValue, Cur.ty_raw]
      simp [Item.ty, Item.tag, Cur.interval_raw tag v rs h.2.2]
  theorem decodeFields_enc_aux : (ts : List Item) → Item.AllInRange ts → (fuel : Nat) →
      Item.sizeList ts ≤ fuel →
      decodeFields fuel { items := ts.map Item.raw, tail := none } = .ok ts
    | [], _, fuel, hf => by
      rw [Item.sizeList] at hf
      obtain ⟨f, rfl, -⟩ := fuel_pos (by omega : 0 + 1 ≤ fuel)
      rw [decodeFields]; rfl
    | x :: xs, h, fuel, hf => by
      rw [Item.sizeList] at hf
      obtain ⟨f, rfl, hf'⟩ := fuel_pos (by omega : (x.size + Item.sizeList xs) + 1 ≤ fuel)
      rw [Item.AllInRange] at h
      have ih1 := decodeValue_enc_aux x h.1 f (by omega) (xs.map Item.raw)
      have ih2 := decodeFields_enc_aux xs h.2 f (by omega)
      have ht := (Item.InRange_basic x h.1).1
      rw [decodeFields, List.map_cons, Cur.tag_raw, if_neg (by omega), ih1]
      simp [ih2]
end

theorem enc_eq_encList (t : Item) : enc t = encList [t] := by
  rw [encList, encList, List.append_nil]

theorem unmarshalValue_enc (t : Item) (h : t.InRange) : unmarshalValue (enc t) = .ok t := by
  have hs := size_le_length_aux t
  have hstart : Cur.start (enc t) = .ok { items := [t.raw], tail := none } := by
    rw [enc_eq_encList]
    exact Cur.start_encList [t] (by rw [Item.AllInRange, Item.AllInRange]; exact ⟨h, trivial⟩)
  have hdec := decodeValue_enc_aux t h ((enc t).length + 2) (by omega) []
  unfold unmarshalValue
  rw [hstart]
  simp [Cur.tag_raw, hdec]

end Kmip
