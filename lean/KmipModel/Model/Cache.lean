/-
  C20 — shared and reused state of the codec, as two small transition systems.

  (a) The plan caches `encodeFuncsCache` / `decodeFuncsCache` (ttlv/encoder.go, ttlv/decoder.go): a
      `sync.Map` from `reflect.Type` to the compiled plan, filled on first use by

          func encodeFuncFor(ty) { if f, ok := cache.Load(ty); ok { return f }     -- Load
                                   f := encodeFunc(ty)                             -- Build (may call encodeFuncFor
                                                                                   --   for the field / element types)
                                   cache.Store(ty, f); return f }                  -- Store

      Several goroutines run this concurrently; the model splits it into its atomic steps (the two
      `sync.Map` operations are linearizable — trusted base, DESIGN §7) and lets a *schedule* (a list of
      thread ids) pick who moves next. `Build` is not atomic in Go: `buildStructEncodeFunc`,
      `buildPointerEncodeFunc` and `buildSliceEncodeFunc` call `encodeFuncFor` for the types they depend
      on, so a thread has a *stack* of calls. What a plan is made of is static: the type, and the
      registries written at `init` (`tagByName`, `tagByType`, `enums`, `bitmasks`, the struct tags) —
      the constant `Builder`.

  (b) A reusable `ttlv.Encoder`: the version cell of the shared `*extension` (ttlv/version.go), the
      writer's buffer, and the writer-local state that survives a call (`xml.Encoder` element stack /
      closed flag). Operations `encode m`, `Clear`, `Bytes`.
-/
import KmipModel.Model.Plan
namespace Kmip.Cache
open Kmip

/-! ## (a) the plan cache -/

/-- a Go type (a key of the `sync.Map`). -/
abbrev TypeId := Nat

/-- The static description of the plan builder `encodeFunc` / `decodeFunc`: which other types' plans it
    fetches through `encodeFuncFor` while building the plan of `ty` (in call order), and the closure it
    makes out of them. It reads only the type and the init-time registries: a constant. -/
structure Builder (P : Type) where
  deps    : TypeId → List TypeId
  combine : TypeId → List P → P

/-- `build` is THE plan of every type: the closure over the plans of its dependencies. (Such a function
    exists exactly when the dependency relation is well founded, i.e. when the Go recursion terminates.) -/
def IsBuild {P : Type} (B : Builder P) (build : TypeId → P) : Prop :=
  ∀ ty, build ty = B.combine ty ((B.deps ty).map build)

/-- where a call `encodeFuncFor(ty)` stands. -/
inductive Pc (P : Type) where
  | load                                        -- about to `cache.Load(ty)`
  | deps (rem : List TypeId) (got : List P)     -- miss: inside `encodeFunc(ty)`; nested calls for `rem` to come
  | store (p : P)                               -- plan built (local variable `f`): about to `cache.Store(ty, f)`
  deriving Repr

structure Frame (P : Type) where
  ty : TypeId
  pc : Pc P
  deriving Repr

/-- a goroutine: its call stack (innermost first), the `encodeFuncFor` requests it has not started yet,
    and what its finished requests returned. -/
structure Thread (P : Type) where
  stack   : List (Frame P)
  todo    : List TypeId
  results : List (TypeId × P)
  deriving Repr

structure State (P : Type) where
  cache   : List (TypeId × P)       -- contents of the sync.Map, newest binding first
  threads : List (Thread P)
  deriving Repr

/-- `cache.Load(ty)`. -/
def lookup {P : Type} (c : List (TypeId × P)) (ty : TypeId) : Option P :=
  match c with
  | [] => none
  | (k, p) :: rest => if k = ty then some p else lookup rest ty

/-- the innermost call (for `ty`) returns `p` to whoever called it: to the goroutine's own code (a result),
    or to the `encodeFunc` of the caller, which goes on with its next dependency. -/
def ret {P : Type} (th : Thread P) (ty : TypeId) (p : P) (rest : List (Frame P)) : Thread P :=
  match rest with
  | [] => { th with stack := [], results := th.results ++ [(ty, p)] }
  | ⟨pty, .deps (_ :: ds) got⟩ :: rest' => { th with stack := ⟨pty, .deps ds (got ++ [p])⟩ :: rest' }
  | _ :: _ => { th with stack := rest }      -- not reachable: a caller is always waiting in `.deps (d :: _)`

/-- one atomic step of one goroutine. -/
def stepThread {P : Type} (B : Builder P) (cache : List (TypeId × P)) (th : Thread P) :
    List (TypeId × P) × Thread P :=
  match th.stack with
  | [] =>
    match th.todo with
    | [] => (cache, th)                                                      -- finished
    | ty :: more => (cache, { th with stack := [⟨ty, .load⟩], todo := more })  -- call encodeFuncFor(ty)
  | ⟨ty, .load⟩ :: rest =>
    match lookup cache ty with
    | some p => (cache, ret th ty p rest)                                    -- Load: hit
    | none => (cache, { th with stack := ⟨ty, .deps (B.deps ty) []⟩ :: rest })   -- Load: miss
  | ⟨ty, .deps [] got⟩ :: rest =>
    (cache, { th with stack := ⟨ty, .store (B.combine ty got)⟩ :: rest })    -- Build finishes
  | ⟨ty, .deps (d :: ds) got⟩ :: rest =>
    (cache, { th with stack := ⟨d, .load⟩ :: ⟨ty, .deps (d :: ds) got⟩ :: rest })   -- nested encodeFuncFor(d)
  | ⟨ty, .store p⟩ :: rest => ((ty, p) :: cache, ret th ty p rest)           -- Store, return f

/-- goroutine `t` moves (a thread id outside the range is a stutter step). -/
def step {P : Type} (B : Builder P) (s : State P) (t : Nat) : State P :=
  match s.threads[t]? with
  | none => s
  | some th =>
    let r := stepThread B s.cache th
    { cache := r.1, threads := s.threads.set t r.2 }

/-- run a schedule. -/
def run {P : Type} (B : Builder P) (s : State P) (sched : List Nat) : State P :=
  sched.foldl (step B) s

/-- a cold process: empty cache, goroutine `t` is going to request `reqs[t]` in order. -/
def init {P : Type} (reqs : List (List TypeId)) : State P :=
  { cache := [], threads := reqs.map fun r => { stack := [], todo := r, results := [] } }

/-- the type of the outermost call in progress (bottom frame of the stack), if any. -/
def bottomTy {P : Type} : List (Frame P) → List TypeId
  | [] => []
  | [f] => [f.ty]
  | _ :: g :: r => bottomTy (g :: r)

/-- the requests of a goroutine in order: finished ones, the one in progress, pending ones. -/
def Thread.trace {P : Type} (th : Thread P) : List TypeId :=
  th.results.map (·.1) ++ bottomTy th.stack ++ th.todo

def Thread.done {P : Type} (th : Thread P) : Bool := th.stack.isEmpty && th.todo.isEmpty

/-- everybody finished. -/
def State.done {P : Type} (s : State P) : Bool := s.threads.all Thread.done

/-- `n` rounds of round-robin (used by the driver to complete a schedule). -/
def roundRobin (nthreads : Nat) (n : Nat) : List Nat :=
  (List.range n).flatMap fun _ => List.range nthreads

/-! ### an executable instance over the wire schema

Plans are rendered as the pre-order listing of the dependency tree (`[ty, #deps, …sub-plans…]`), which
is injective; type ids: dynamic type `d` ↦ `2·d`, struct `s` ↦ `2·s + 1` (pointer, slice and scalar
types have plans of their own in Go; they are keyed by other `reflect.Type`s, behave in the same way
and are folded into their users here). -/

def kindStructs : Kind → List Nat
  | .struct id => [id]
  | .ptr k => kindStructs k
  | .slice k => kindStructs k
  | _ => []

def schemaBuilder (S : Schema) : Builder (List Nat) where
  deps ty :=
    if ty % 2 = 0 then (kindStructs (S.dyn (ty / 2)).kind).map (2 * · + 1)
    else
      let d := S.structDef (ty / 2)
      -- a hand-written TagEncodeTTLV fetches no plan when it is built
      if d.encCustom then [] else (d.fields.flatMap fun f => kindStructs f.kind).map (2 * · + 1)
  combine ty subs := ty :: subs.length :: subs.flatten

/-- the plan by structural recursion on a depth bound. -/
def buildFuel {P : Type} (B : Builder P) (dflt : P) : Nat → TypeId → P
  | 0, _ => dflt
  | n + 1, ty => B.combine ty ((B.deps ty).map (buildFuel B dflt n))

/-! ## (b) the reusable encoder -/

inductive Backend where
  | ttlv | xml | json | text
  deriving Repr, DecidableEq, Inhabited

/-- what an `encode` call that PANICS half-way (and is recovered by the caller) leaves behind: the cell may
    have been set by a header already written, part of the output is in the buffer, structures are open.
    The model does not compute it: it is an arbitrary parameter of the operation. -/
structure Junk where
  cell   : Option Ver := none
  items  : List Item := []
  opened : Nat := 0
  deriving Repr, Inhabited

/-- state of an `Encoder` between two calls.
    `buf` lists the top-level items written since the last `Clear`; every back end's `Bytes()` is a function
    of it (binary: `encList`; JSON: the top-level `jsonWriter.indent` is always 0 because `Struct` works on a
    copy with `indent+1`; text: `hide` is fixed at construction; XML: a fresh `xml.Encoder` per `Clear`). -/
structure Encoder where
  cell   : Option Ver      -- `extension.version`, shared with every nested Encoder made by `Struct`
  buf    : List Item
  opened : Nat             -- structures begun and never ended (only after an aborted call)
  closed : Bool            -- OLD xmlWriter only: `xml.Encoder.Close()` was called and the encoder not replaced
  deriving Repr, Inhabited

/-- `NewTTLVEncoder()` / `NewXMLEncoder()` / `NewJSONEncoder()` / `NewTextEncoder()`. -/
def fresh : Encoder := { cell := none, buf := [], opened := 0, closed := false }

structure Msg where
  d   : Nat        -- dynamic type (index into `Schema.dyns`)
  tag : Nat        -- 0: the type's default tag (`enc.Any`), else `enc.TagAny(tag, …)`
  v   : Val
  deriving Repr, Inhabited

inductive Op where
  | encode (m : Msg) (junk : Junk)     -- `junk` is used only if the call panics
  | clear
  | bytes
  deriving Repr, Inhabited

def encFuel : Nat := 100000

/-- the items `enc.Any(m)` appends when started with version cell `cell`, and the cell it leaves:
    exactly the run `marshal` does (Model/Plan.lean), from an arbitrary cell. -/
def encodeFrom (S : Schema) (m : Msg) (cell : Option Ver) : Res EncSt :=
  let dy := S.dyn m.d
  encK S encFuel dy.kind (if m.tag = 0 then dy.defTag else m.tag) m.v cell

/-- `enc.Any(m)` / `enc.TagAny(tag, m)`; the flag tells whether the call returned normally. -/
def encodeOp (S : Schema) (st : Encoder) (m : Msg) (junk : Junk) : Encoder × Bool :=
  if st.closed then (st, false)         -- "use of closed Encoder": the first token written panics
  else
    match encodeFrom S m st.cell with
    | .ok (items, c1) => ({ st with cell := c1, buf := st.buf ++ items }, true)
    | _ => ({ st with cell := junk.cell, buf := st.buf ++ junk.items, opened := st.opened + junk.opened },
            false)

/-- `enc.Clear()`: `enc.extension.version = nil; enc.w.Clear()`.
    ttlvWriter: `buf = buf[:0]`; jsonWriter / textWriter: `buf.Reset()`;
    xmlWriter (since /repo 55f108f): `buf.Reset(); w = xml.NewEncoder(buf); w.Indent(…)` — the previous
    `xml.Encoder` is dropped, whatever elements an aborted call left open in it.
    Every writer ends up in the state of a new one. -/
def clearOp (_b : Backend) (_st : Encoder) : Encoder × Bool := (fresh, true)

/-- The OLD `xmlWriter.Clear` (before 55f108f), kept to document what the fix repaired:
    `panicOnErr(w.Close()); buf.Reset(); w = xml.NewEncoder(buf)` — `Close` reports unclosed elements as an
    error AFTER marking the encoder closed (so `Clear` panicked and the encoder stayed closed), and returns
    nil on an encoder already closed. -/
def oldXmlClearOp (st : Encoder) : Encoder × Bool :=
  if st.closed then (fresh, true)
  else if st.opened > 0 then ({ st with cell := none, closed := true }, false)
  else (fresh, true)

/-- one call, for a given implementation `clr` of `Clear`. -/
def stepOpWith (clr : Encoder → Encoder × Bool) (S : Schema) (st : Encoder) : Op → Encoder × Bool
  | .encode m junk => encodeOp S st m junk
  | .clear => clr st
  | .bytes => (st, true)               -- `Bytes()` (xml: `Flush`) changes nothing observable

/-- run a history; the flags of the calls in order (true = returned normally). -/
def runOpsWith (clr : Encoder → Encoder × Bool) (S : Schema) : Encoder → List Op → Encoder × List Bool
  | st, [] => (st, [])
  | st, op :: ops =>
    let r := stepOpWith clr S st op
    let r' := runOpsWith clr S r.1 ops
    (r'.1, r.2 :: r'.2)

/-- the library as it is: back end `b`. -/
def stepOp (S : Schema) (b : Backend) (st : Encoder) (op : Op) : Encoder × Bool :=
  stepOpWith (clearOp b) S st op

def runOps (S : Schema) (b : Backend) (st : Encoder) (ops : List Op) : Encoder × List Bool :=
  runOpsWith (clearOp b) S st ops

/-- the XML encoder with the old `Clear`. -/
def runOpsOldXml (S : Schema) (st : Encoder) (ops : List Op) : Encoder × List Bool :=
  runOpsWith oldXmlClearOp S st ops

/-- `enc.Bytes()` of the binary encoder. -/
def Encoder.bytes (st : Encoder) : Bytes := encList st.buf

end Kmip.Cache
