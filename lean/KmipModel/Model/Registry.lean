/-
  Registries of tag, enumeration and bit-mask names (ttlv/registry.go) and the text conversions built
  on them (enums.go marshalText/unmarshalText, bitmasks.go maskUnmarshalText, the Enum / Bitmask / Tag
  methods of the XML and JSON writers and readers). Core Lean only.

  Representation (shared with the generated `Kmip.Gen.*` and the pinned `Kmip.Pinned.*` tables):
    * a Go string is a `List Nat` of bytes; a registered NAME is packed into ONE natural number, the
      base-256 number with digits 0x01, b₀, b₁, … (`pack`; the leading 1 makes it injective, "" is 1);
    * a Go map is an association list `List (Nat × Nat)` read by `lookup` (first match);
      number ↦ name tables are `(number, packedName)`, name ↦ number tables `(packedName, number)`;
    * an `int32` bit mask is the natural number of its 32-bit pattern (bit 31 = the sign bit).
  The text functions are exact on ASCII input (every byte < 0x80); Go's Unicode white space
  (U+0085, U+00A0, …) is outside the model.
-/
namespace Kmip.Reg

abbrev Table := List (Nat × Nat)

/-! ## packed names -/

/-- bytes ↦ packed name. -/
def pack (bs : List Nat) : Nat := bs.foldl (fun a b => a * 256 + b) 1

/-- the packed empty string. -/
def emptyName : Nat := 1

def unpackAux : Nat → Nat → List Nat → List Nat
  | 0, _, acc => acc
  | fuel + 1, n, acc => if n ≤ 1 then acc else unpackAux fuel (n / 256) (n % 256 :: acc)

/-- packed name ↦ bytes (`n.log2 + 1` exceeds the number of base-256 digits of `n`). -/
def unpack (n : Nat) : List Nat := unpackAux (n.log2 + 1) n []

/-- `n` is the packing of a byte string. -/
def validName (n : Nat) : Bool := pack (unpack n) == n

/-! ## Go maps as association lists -/

/-- `m[k]` with its `ok`. -/
def lookup (k : Nat) : Table → Option Nat
  | [] => none
  | (a, b) :: t => if a == k then some b else lookup k t

def hasKey (k : Nat) (t : Table) : Bool := t.any (fun p => p.1 == k)
def hasVal (v : Nat) (t : Table) : Bool := t.any (fun p => p.2 == v)

def keysNodup : Table → Bool
  | [] => true
  | (a, _) :: t => !hasKey a t && keysNodup t

def valsNodup : Table → Bool
  | [] => true
  | (_, b) :: t => !hasVal b t && valsNodup t

/-- every entry `(x, y)` of `a` is answered `y ↦ x` by `b`. -/
def inverseOf (a b : Table) : Bool :=
  a.all fun p => match lookup p.2 b with
    | some x => x == p.1
    | none => false

/-- the forward table `byNum` (number ↦ name) and the reverse table `byName` (name ↦ number) are two
    presentations of ONE bijection: no number twice in either table, each table is the inverse of the
    other (which also excludes a name occurring twice: `bijective_names_nodup`), same size.
    The five conjuncts are separate obligations in `Props/C17` (checked in parallel). -/
def bijective (byNum byName : Table) : Bool :=
  keysNodup byNum && valsNodup byName && inverseOf byNum byName && inverseOf byName byNum &&
  byNum.length == byName.length

def memPair (p : Nat × Nat) (t : Table) : Bool := t.any fun q => q.1 == p.1 && q.2 == p.2

def subTable (a b : Table) : Bool := a.all fun p => memPair p b

def pairListEq : Table → Table → Bool
  | [], [] => true
  | p :: s, q :: t => p.1 == q.1 && p.2 == q.2 && pairListEq s t
  | _, _ => false

/-- same set of pairs, whatever the order (the first disjunct is the linear-time case "same order"). -/
def agrees (pinned gen : Table) : Bool :=
  pairListEq pinned gen || (subTable pinned gen && subTable gen pinned && pinned.length == gen.length)

/-- entries of `a` that `b` lacks (for reporting a disagreement). -/
def lacking (a b : Table) : Table := a.filter fun p => !memPair p b

/-- the keys are `start, start+1, start+2, …` in this order (numbering scheme of the tag table). -/
def consecutiveKeys : Nat → Table → Bool
  | _, [] => true
  | k, (a, _) :: t => a == k && consecutiveKeys (k + 1) t

/-- `o = some v`, as a Boolean. -/
def optIs (o : Option Nat) (v : Nat) : Bool := match o with
  | some x => x == v
  | none => false

/-! ### indexes of enumerations and masks -/

abbrev EnumIndex := List (Nat × Table × Table)
abbrev MaskIndex := List (Nat × List Nat × Table)

def findEnum (tag : Nat) : EnumIndex → Option (Table × Table)
  | [] => none
  | (t, bv, bn) :: r => if t == tag then some (bv, bn) else findEnum tag r

def findMask (tag : Nat) : MaskIndex → Option (List Nat × Table)
  | [] => none
  | (t, ns, bn) :: r => if t == tag then some (ns, bn) else findMask tag r

/-- `enumNames[tag]` / `enumsByName[tag]` (a missing inner map reads as empty). -/
def enumByValue (ix : EnumIndex) (tag : Nat) : Table := match findEnum tag ix with
  | some (bv, _) => bv
  | none => []
def enumByName (ix : EnumIndex) (tag : Nat) : Table := match findEnum tag ix with
  | some (_, bn) => bn
  | none => []
def maskNames (ix : MaskIndex) (tag : Nat) : List Nat := match findMask tag ix with
  | some (ns, _) => ns
  | none => []
def maskByName (ix : MaskIndex) (tag : Nat) : Table := match findMask tag ix with
  | some (_, bn) => bn
  | none => []

def enumTagsNodup : EnumIndex → Bool
  | [] => true
  | (t, _, _) :: r => !(r.any fun e => e.1 == t) && enumTagsNodup r

def maskTagsNodup : MaskIndex → Bool
  | [] => true
  | (t, _, _) :: r => !(r.any fun e => e.1 == t) && maskTagsNodup r

/-- every enumeration of `p` exists in `g` with the same two tables, and conversely; the enumerations
    whose tag is listed in `except` are only required to exist on both sides. -/
def agreesEnums (except : List Nat) (p g : EnumIndex) : Bool :=
  (p.all fun e => match findEnum e.1 g with
    | some (bv, bn) => except.contains e.1 || (agrees e.2.1 bv && agrees e.2.2 bn)
    | none => false) &&
  (g.all fun e => (findEnum e.1 p).isSome) && enumTagsNodup p && enumTagsNodup g && p.length == g.length

def natListEq : List Nat → List Nat → Bool
  | [], [] => true
  | a :: s, b :: t => a == b && natListEq s t
  | _, _ => false

def agreesMasks (p g : MaskIndex) : Bool :=
  (p.all fun e => match findMask e.1 g with
    | some (ns, bn) => natListEq e.2.1 ns && agrees e.2.2 bn
    | none => false) &&
  (g.all fun e => (findMask e.1 p).isSome) && maskTagsNodup p && maskTagsNodup g && p.length == g.length

/-! ### the pin as a LOWER bound: everything pinned is still live (a legitimate extension adds entries) -/

/-- `p` is a subsequence of `g`: the linear-time case of "every pair of `p` is in `g`" (both tables are
    emitted in the same canonical order, so an extension only INSERTS entries). -/
def subSeq : Table → Table → Bool
  | [], _ => true
  | _ :: _, [] => false
  | p :: s, q :: t => if p.1 == q.1 && p.2 == q.2 then subSeq s t else subSeq (p :: s) t

/-- every pair of the pinned table is in the live table (whatever the order; `subSeq` is the fast path). -/
def covers (p g : Table) : Bool := subSeq p g || subTable p g

/-- `p` is a prefix of `l` (flag positions of a mask: new flags may only be appended). -/
def natPrefix : List Nat → List Nat → Bool
  | [], _ => true
  | a :: s, b :: t => a == b && natPrefix s t
  | _ :: _, [] => false

/-- every pinned enumeration entry is live: each pinned `value ↦ name` and `name ↦ value` pair is in the
    live table of the same tag (a missing live table reads as empty). The live side may have more values
    and more enumerations. -/
def coversEnums (p g : EnumIndex) : Bool :=
  p.all fun e => covers e.2.1 (enumByValue g e.1) && covers e.2.2 (enumByName g e.1)

/-- every pinned mask flag is live at the same bit position with the same name; the live mask may have
    more flags after them. -/
def coversMasks (p g : MaskIndex) : Bool :=
  p.all fun e => natPrefix e.2.1 (maskNames g e.1) && covers e.2.2 (maskByName g e.1)

/-- pinned ⊆ live, for the whole registry: tags (both maps), enumerations, masks, and the Go-type ↦ tag
    maps of the enumeration and mask types (`ttlv.enums`, `ttlv.bitmasks`). -/
def coversRegistry (pT gT pN gN : Table) (pE gE : EnumIndex) (pM gM : MaskIndex)
    (pET gET pMT gMT : Table) : Bool :=
  covers pT gT && covers pN gN && coversEnums pE gE && coversMasks pM gM &&
  covers pET gET && covers pMT gMT

/-- live = pinned exactly (INFORMATION ONLY: false as soon as the library registers anything new). -/
def equalsRegistry (pT gT pN gN : Table) (pE gE : EnumIndex) (pM gM : MaskIndex)
    (pET gET pMT gMT : Table) : Bool :=
  agrees pT gT && agrees pN gN && agreesEnums [] pE gE && agreesMasks pM gM &&
  agrees pET gET && agrees pMT gMT

/-! ### Go type ↦ tag maps (`ttlv.enums`, `ttlv.bitmasks`, `ttlv.tagByType`): WHICH table a typed value uses -/

/-- `types` (`ttlv.enums` or `ttlv.bitmasks`: packed Go type string ↦ tag) is a function and is injective;
    every type has the SAME tag as its default tag in `typeTags` (`ttlv.tagByType`, what
    `getTagForType` answers and the codecs pass as `realtag`); that tag is a registered, non-zero tag;
    and every table tag of `tabTags` (the enumerations / masks that have a table) belongs to a type. -/
def typesWF (types typeTags tagNames : Table) (tabTags : List Nat) : Bool :=
  keysNodup types && valsNodup types && keysNodup typeTags &&
  (types.all fun p => optIs (lookup p.1 typeTags) p.2 && hasKey p.2 tagNames && decide (0 < p.2)) &&
  (tabTags.all fun t => hasVal t types)

/-- tags of the enumerations whose tables differ between the two indexes (for reporting). -/
def differingEnums (p g : EnumIndex) : List Nat :=
  (p.filter fun e => match findEnum e.1 g with
    | some (bv, bn) => !(agrees e.2.1 bv && agrees e.2.2 bn)
    | none => true).map (·.1)

/-! ### bit-mask tables (`RegisterBitmask`: flag `i` is `1 << i`) -/

def natNodup : List Nat → Bool
  | [] => true
  | a :: t => !t.contains a && natNodup t

/-- `bitmaskByName[names[i]] = 1 << i` for every position from `i` on; an empty name is a reserved gap. -/
def flagsOk (byName : Table) : Nat → List Nat → Bool
  | _, [] => true
  | i, n :: t =>
    (n == emptyName || match lookup n byName with
      | some f => f == 2 ^ i
      | none => false) && flagsOk byName (i + 1) t

/-- well-formed mask registration: at most 32 flags, the non-empty names are distinct, each is mapped to
    its own power of two by the reverse table, which has no duplicate key. -/
def maskWF (names : List Nat) (byName : Table) : Bool :=
  decide (names.length ≤ 32) && natNodup (names.filter (· != emptyName)) && flagsOk byName 0 names &&
  keysNodup byName

/-- no reserved gap: every position has a name, and the reverse table has nothing else. -/
def maskGapFree (names : List Nat) (byName : Table) : Bool :=
  names.all (· != emptyName) && byName.length == names.length

/-! ## Go `strconv` and `fmt` on byte strings -/

def digitVal (c : Nat) : Option Nat :=
  if 48 ≤ c && c ≤ 57 then some (c - 48)
  else if 97 ≤ c && c ≤ 122 then some (c - 87)
  else if 65 ≤ c && c ≤ 90 then some (c - 55)
  else none

/-- the digit loop of `strconv.ParseUint` for an explicit base (no prefix, no underscore). -/
def parseDigits (base : Nat) : List Nat → Nat → Option Nat
  | [], acc => some acc
  | c :: cs, acc =>
    match digitVal c with
    | some d => if d < base then parseDigits base cs (acc * base + d) else none
    | none => none

/-- `strconv.ParseUint(s, base, bits)`, base 10 or 16; any error (syntax, range) is `none`. -/
def parseUint (base bits : Nat) (s : List Nat) : Option Nat :=
  match s with
  | [] => none
  | _ => match parseDigits base s 0 with
    | some n => if n < 2 ^ bits then some n else none
    | none => none

/-- `strconv.ParseInt(s, base, bits)`: optional sign, then `ParseUint`, then the signed range check. -/
def parseInt (base bits : Nat) (s : List Nat) : Option Int :=
  match s with
  | [] => none
  | c :: rest =>
    let body := if c == 43 || c == 45 then rest else s
    match body with
    | [] => none
    | _ => match parseDigits base body 0 with
      | some n =>
        if c == 45 then (if n ≤ 2 ^ (bits - 1) then some (-(n : Int)) else none)
        else (if n < 2 ^ (bits - 1) then some (n : Int) else none)
      | none => none

/-- `int32(x)` of an `int64` as a 32-bit pattern. -/
def toU32 (i : Int) : Nat := (i % 4294967296).toNat

def hexDigit (d : Nat) : Nat := if d < 10 then 48 + d else 55 + d

/-- exactly `k` upper-case hexadecimal digits of `v` (most significant first). -/
def hexFixed : Nat → Nat → List Nat
  | 0, _ => []
  | k + 1, v => hexFixed k (v / 16) ++ [hexDigit (v % 16)]

/-- `fmt.Sprintf("%0<w>X", v)` for an unsigned `v`. -/
def fmtHex (w v : Nat) : List Nat :=
  if v < 16 ^ w then hexFixed w v else hexFixed (v.log2 / 4 + 1) v

/-- `fmt.Sprintf("0x%0<w>X", v)`. -/
def hex0x (w v : Nat) : List Nat := 48 :: 120 :: fmtHex w v

/-! ## Go `strings` on ASCII byte strings -/

/-- `unicode.IsSpace` on ASCII: `\t \n \v \f \r` and blank. -/
def isSpace (c : Nat) : Bool := c == 32 || (9 ≤ c && c ≤ 13)

def fieldsAux : List Nat → List Nat → List (List Nat)
  | [], cur => if cur.isEmpty then [] else [cur]
  | c :: cs, cur =>
    if isSpace c then (if cur.isEmpty then fieldsAux cs [] else cur :: fieldsAux cs [])
    else fieldsAux cs (cur ++ [c])

/-- `strings.Fields`. -/
def fields (s : List Nat) : List (List Nat) := fieldsAux s []

def splitOnAux (d : Nat) : List Nat → List Nat → List (List Nat)
  | [], cur => [cur]
  | c :: cs, cur => if c == d then cur :: splitOnAux d cs [] else splitOnAux d cs (cur ++ [c])

/-- `strings.Split(s, string(d))` for a one-byte separator. -/
def splitOn (d : Nat) (s : List Nat) : List (List Nat) := splitOnAux d s []

/-- `strings.TrimSpace`. -/
def trim (s : List Nat) : List Nat := ((s.dropWhile isSpace).reverse.dropWhile isSpace).reverse

/-! ## enumerations -/

/-- text of an enumeration value: `EnumName` if registered and non-empty, else `0x%08X`
    (xmlWriter.Enum, jsonWriter.Enum, textWriter.Enum, ttlv.EnumStr, enums.go marshalText). -/
def enumToText (byValue : Table) (v : Nat) : List Nat :=
  match lookup v byValue with
  | some n => if n == emptyName then hex0x 8 v else unpack n
  | none => hex0x 8 v

/-- xmlReader.Enum / jsonReader.Enum on a string value: `0x…` is hexadecimal (and nothing else);
    otherwise decimal if it parses, otherwise a registered name. -/
def enumFromTextReader (byName : Table) (s : List Nat) : Option Nat :=
  match s with
  | 48 :: 120 :: rest => parseUint 16 32 rest
  | _ => match parseUint 10 32 s with
    | some n => some n
    | none => lookup (pack s) byName

/-- the number branch of enums.go `unmarshalText`: `0x`/`0X` hexadecimal, else decimal. -/
def enumUnmarshalNum (s : List Nat) : Option Nat :=
  match s with
  | 48 :: 120 :: rest => parseUint 16 32 rest
  | 48 :: 88 :: rest => parseUint 16 32 rest
  | _ => parseUint 10 32 s

/-- enums.go `unmarshalText`: blanks removed; `0x`/`0X` hexadecimal or decimal if it parses; otherwise
    (including a malformed number) a registered name. -/
def enumFromTextUnmarshal (byName : Table) (s : List Nat) : Option Nat :=
  let s := s.filter (· != 32)
  match enumUnmarshalNum s with
  | some n => some n
  | none => lookup (pack s) byName

/-! ## tags -/

/-- ttlv.TagString (JSON and text writers): the registered name (even an empty one), else `0x%06X`. -/
def tagToText (tagNames : Table) (t : Nat) : List Nat :=
  match lookup t tagNames with
  | some n => unpack n
  | none => hex0x 6 t

/-- the XML writer: element name = registered non-empty name, else attribute `tag="0x%06X"`. -/
def tagToTextXml (tagNames : Table) (t : Nat) : List Nat :=
  match lookup t tagNames with
  | some n => if n == emptyName then hex0x 6 t else unpack n
  | none => hex0x 6 t

/-- xmlReader.Tag / jsonReader.Tag on the raw tag text: 0 when empty, malformed or unknown. The `0x` form
    is `ParseUint(·, 16, 24)` and zero is "no tag" (since /repo a1c0e70): a tag is a non-zero 3-byte
    number. (`parsedTag == 0 ⇒ return 0` and the value itself coincide.) -/
def tagFromText (tagByName : Table) (s : List Nat) : Int :=
  match s with
  | [] => 0
  | 48 :: 120 :: rest => match parseUint 16 24 rest with
    | some n => (n : Int)
    | none => 0
  | _ => match lookup (pack s) tagByName with
    | some t => (t : Int)
    | none => 0

/-- the readers BEFORE /repo a1c0e70: the `0x` form was `ParseInt(·, 16, 32)`, so a sign and up to 31
    bits were accepted (kept to state what was wrong with it). -/
def tagFromTextOld (tagByName : Table) (s : List Nat) : Int :=
  match s with
  | [] => 0
  | 48 :: 120 :: rest => match parseInt 16 32 rest with
    | some i => i
    | none => 0
  | _ => match lookup (pack s) tagByName with
    | some t => (t : Int)
    | none => 0

/-! ## bit masks -/

/-- `value & (1 << i) != 0`. -/
def bitSet (v i : Nat) : Bool := v / 2 ^ i % 2 == 1

/-- the loop `for i := range 32` of ttlv.AppendBitmaskString; `n` = remaining iterations. -/
def maskLoop (names sep : List Nat) (v : Nat) : Nat → Nat → Bool → List Nat → List Nat
  | 0, _, _, dst => dst
  | n + 1, i, wrote, dst =>
    if !bitSet v i then maskLoop names sep v n (i + 1) wrote dst
    else if decide (i < names.length) && names.getD i emptyName == emptyName then
      maskLoop names sep v n (i + 1) wrote dst
    else
      let dst := if wrote then dst ++ sep else dst
      let dst := if i < names.length then dst ++ unpack (names.getD i emptyName)
                 else dst ++ hex0x 8 (2 ^ i)
      maskLoop names sep v n (i + 1) true dst

/-- ttlv.AppendBitmaskString([]byte{}, tag, value, sep) where `names = bitmaskNames[tag]`. -/
def maskToText (names sep : List Nat) (v : Nat) : List Nat :=
  if v == 0 then [] else maskLoop names sep v 32 0 false []

/-- the `0x` (and, for maskUnmarshalText, `0X`) prefix test; returns the digits. -/
def hexBody (upperX : Bool) : List Nat → Option (List Nat)
  | 48 :: 120 :: rest => some rest
  | 48 :: 88 :: rest => if upperX then some rest else none
  | _ => none

/-- one flag text: hexadecimal (an unsigned 32-bit pattern: `ParseUint(·,16,32)` then
    `int32(uint32(·))`), else decimal if it parses, else a registered flag name.
    `textForm = false`: xmlReader.Bitmask / jsonReader.Bitmask — prefix `0x`;
    `textForm = true`: bitmasks.go maskUnmarshalText — prefix `0x` or `0X`. -/
def maskPart (textForm : Bool) (byName : Table) (p : List Nat) : Option Nat :=
  match hexBody textForm p with
  | some rest => parseUint 16 32 rest
  | none => match parseInt 10 32 p with
    | some i => some (toU32 i)
    | none => lookup (pack p) byName

/-- `result |= int32(parsed)` over the parts; the first error aborts. -/
def maskFold (textForm : Bool) (byName : Table) : List (List Nat) → Nat → Option Nat
  | [], acc => some acc
  | p :: ps, acc => match maskPart textForm byName p with
    | some b => maskFold textForm byName ps (acc ||| b)
    | none => none

/-- xmlReader.Bitmask: `strings.Fields`, then `TrimSpace` of each part. -/
def maskFromTextXml (byName : Table) (s : List Nat) : Option Nat :=
  maskFold false byName ((fields s).map trim) 0

/-- jsonReader.Bitmask on a string value: `strings.Split(val, "|")`, `TrimSpace` of each part, empty
    parts skipped (since fix 3a0632c). -/
def maskFromTextJson (byName : Table) (s : List Nat) : Option Nat :=
  maskFold false byName (((splitOn 124 s).map trim).filter (fun p => !p.isEmpty)) 0

/-- bitmasks.go `maskUnmarshalText`: split on `|` if there is one, else on white space; trim; skip
    empty parts; `0x` and `0X`, signed. -/
def maskFromTextUnmarshal (byName : Table) (s : List Nat) : Option Nat :=
  let parts := if s.contains 124 then splitOn 124 s else fields s
  maskFold true byName ((parts.map trim).filter (fun p => !p.isEmpty)) 0

/-! ## decidable conditions on the NAMES of a table (discharged by evaluation in `Props/C17`) -/

def startsWith0x : List Nat → Bool
  | 48 :: 120 :: _ => true
  | 48 :: 88 :: _ => true
  | _ => false

/-- a name that every text reader above takes for a NAME: a packed non-empty ASCII string without white
    space and without `|`, not starting with `0x`/`0X`, that neither `ParseUint(·,10,32)` nor
    `ParseInt(·,10,32)` accepts, and different from the XML wrapper element name `TTLV`. -/
def cleanName (n : Nat) : Bool :=
  let bs := unpack n
  validName n && !bs.isEmpty && bs.all (fun c => c < 128 && !isSpace c && c != 124) &&
  !startsWith0x bs && (parseUint 10 32 bs).isNone && (parseInt 10 32 bs).isNone &&
  n != 0x0154544C56

/-- all names of a number ↦ name table are clean. -/
def cleanNames (byNum : Table) : Bool := byNum.all fun p => cleanName p.2

/-! ## typed values: the table is chosen by the Go TYPE, not by the element tag -/

/-- `getTagForType(ty)` as used by `buildEnumEncodeFunc` / `buildEnumDecodeFunc` (and the mask ones), which
    ignore its error: the entry of `tagByType`, else 0. (The fall-back of `getTagForType` on
    `tagByName[ty.Name()]` is not modelled: it is unreachable for a type registered by `RegisterEnum` /
    `RegisterBitmask`, which always fill `tagByType` — see `typesWF`.) -/
def typeTag (typeTags : Table) (ty : Nat) : Nat := (lookup ty typeTags).getD 0

/-- the tag whose table the XML / JSON / text writers and readers use for an item written under element
    tag `elem` by a codec passing `realtag`: `if realtag <= 0 { realtag = tag }`. -/
def effTag (realtag elem : Nat) : Nat := if realtag == 0 then elem else realtag

/-- what `Encoder.TagAny(elem, T(v))` — hence any struct field, attribute value or list element of the
    enumeration type `ty` — writes as value in the XML, JSON and text forms. -/
def typedEnumToText (typeTags : Table) (enums : EnumIndex) (ty elem v : Nat) : List Nat :=
  enumToText (enumByValue enums (effTag (typeTag typeTags ty) elem)) v

/-- what `Decoder.TagAny(elem, *T)` reads from a string value (XML, JSON). -/
def typedEnumFromText (typeTags : Table) (enums : EnumIndex) (ty elem : Nat) (s : List Nat) : Option Nat :=
  enumFromTextReader (enumByName enums (effTag (typeTag typeTags ty) elem)) s

/-- the same for a bit-mask type: `Encoder.TagAny(elem, T(v))` with the writer's separator … -/
def typedMaskToText (typeTags : Table) (masks : MaskIndex) (ty elem : Nat) (sep : List Nat) (v : Nat) :
    List Nat :=
  maskToText (maskNames masks (effTag (typeTag typeTags ty) elem)) sep v

/-- … and `Decoder.TagAny(elem, *T)` on the XML / JSON string value. -/
def typedMaskFromXml (typeTags : Table) (masks : MaskIndex) (ty elem : Nat) (s : List Nat) : Option Nat :=
  maskFromTextXml (maskByName masks (effTag (typeTag typeTags ty) elem)) s
def typedMaskFromJson (typeTags : Table) (masks : MaskIndex) (ty elem : Nat) (s : List Nat) : Option Nat :=
  maskFromTextJson (maskByName masks (effTag (typeTag typeTags ty) elem)) s

end Kmip.Reg
