/-
  C18 (typed layer) — definitions for the fixed point of re-encoding an ACCEPTED input:
  the extra executable schema condition `Schema.fixOK`, the quiet kinds (`dqK`: decoding them never
  writes the version cell), and the induction predicates `FK`/`FList`/`FFields`/`FDyn`/`FCust`, one per
  decoder function: whatever the decoder returns (`v`) has a CONFORMING twin `w` (`normK … w` succeeds)
  that the encoder cannot tell from `v` (same items, same version cell).  The twin differs from `v`
  only at fields the encoder gates away (present on the wire but outside the version in force).
  C01's round trip applied to the twin then gives the fixed point.
-/
import KmipModel.Lemmas.PlanRoundtrip18
import KmipModel.Lemmas.FixpointLemmas
namespace Kmip

/-! ## 1. The extra schema condition -/

/-- kinds whose decoder range-checks as much as the Go type holds (`u8`/`u16`/`u32`/`u64` are decoded
    from a wider wire integer with a sign check only; none occurs in the library's schema). -/
def Kind.noNarrow : Kind → Bool
  | .u8 | .u16 | .u32 | .u64 => false
  | .ptr k | .slice k => k.noNarrow
  | _ => true

/-- the hand-written encoder of ResponseBatchItem writes `TagBatchItem` whatever tag it is given: a
    value of that type survives re-encoding only under that tag. -/
def Schema.kindTagOK (S : Schema) (k : Kind) (tag : Nat) : Bool :=
  match k.base with
  | .struct j =>
    !((S.structDef j).encCustom && (S.structDef j).custom == Cust.responseBatchItem) || tag == T.batchItem
  | _ => true

/-- dynamic types the decoders put behind an interface (payloads, objects, attribute values). -/
def Schema.ctxDyns (S : Schema) : List Nat :=
  S.unknownPayloadDyn :: S.valueDyn ::
    (S.ops.map (fun p => p.2.1) ++ S.ops.map (fun p => p.2.2) ++ S.objects.map (·.2) ++ S.attrs.map (·.2))

mutual
  /-- quiet kinds: no `set-version` field is reachable by the DECODER from kind `k` through struct
      fields, pointers, slices and the members the hand-written decoders read (interfaces are filled
      with `ctxDyns` only, checked separately). -/
  def dqK (S : Schema) : Nat → Kind → Bool
    | 0, _ => false
    | n + 1, k =>
      match k with
      | .ptr k' => dqK S n k'
      | .slice k' => dqK S n k'
      | .struct id =>
        let d := S.structDef id
        dqFields S n d.fields &&
          (if d.decCustom then
            (if d.custom = Cust.credential then dqKs S n (customFieldKinds S Cust.credentialValue)
             else if d.custom = Cust.keyBlock then
               dqKs S n (customFieldKinds S Cust.keyMaterial) && dqK S n (.struct (attributeId S))
             else true)
           else true)
      | _ => true
  def dqFields (S : Schema) : Nat → List Field → Bool
    | 0, _ => false
    | _, [] => true
    | n + 1, f :: fs => !f.setVersion && dqK S n f.kind && dqFields S n fs
  def dqKs (S : Schema) : Nat → List Kind → Bool
    | 0, _ => false
    | _, [] => true
    | n + 1, k :: ks => dqK S n k && dqKs S n ks
end

def DqK (S : Schema) (k : Kind) : Prop := ∃ n, dqK S n k = true
def DqFields (S : Schema) (fs : List Field) : Prop := ∃ n, dqFields S n fs = true
def DqKs (S : Schema) (ks : List Kind) : Prop := ∃ n, dqKs S n ks = true

/-- per field: no narrow unsigned kind; a skippable `i64` does not occur (its zero is not recognised
    by `isZeroOfKind`); a version-gated field is quiet. -/
def Schema.fieldFixOK (S : Schema) (N : Nat) (f : Field) : Bool :=
  f.kind.noNarrow && (!(f.omitempty || f.vrange.isSome) || f.kind != .i64)
    && (f.vrange.isNone || dqK S N f.kind) && S.kindTagOK f.kind f.tag

/-- ImportRequestPayload: the attribute list that decides the object's type is a list of `Attribute`. -/
def Schema.importOK (S : Schema) (d : StructDef) : Bool :=
  !(d.decCustom && d.custom == Cust.importRequest) ||
    ((d.fields.getD 3 fieldDflt).kind == .slice (.struct (attributeId S))
      && (S.structDef (attributeId S)).decCustom && (S.structDef (attributeId S)).custom == Cust.attr)

/-- the payload member of the two batch-item structs is an interface (so that the value-side walk
    `goodU` follows the payload). -/
def Schema.payloadOK (_S : Schema) (d : StructDef) : Bool :=
  (!(d.decCustom && d.custom == Cust.requestBatchItem) || (d.fields.getD 2 fieldDflt).kind == .iface)
    && (!(d.decCustom && d.custom == Cust.responseBatchItem) || (d.fields.getD 6 fieldDflt).kind == .iface)

/-- THE extra structural condition of the typed fixed point (decided for `Gen.schema` by the kernel). -/
def Schema.fixOK (S : Schema) (N : Nat) : Bool :=
  S.structs.all (fun d => d.fields.all (S.fieldFixOK N) && S.importOK d && S.payloadOK d)
    && S.dyns.all (fun dy => dy.kind.noNarrow)
    && S.ctxDyns.all (fun d => dqK S N (S.dyn d).kind && S.kindTagOK (S.dyn d).kind 0)
    && S.kindTagOK (.struct (msgExtId S)) 0 && S.kindTagOK (.struct (attributeId S)) 0
    && (customFieldKinds S Cust.credentialValue ++ customFieldKinds S Cust.keyMaterial).all
        (fun k => S.kindTagOK k 0)

/-- `fixOK`, as facts about every struct id / dyn id (including ids that denote nothing). -/
structure FixOK (S : Schema) (N : Nat) : Prop where
  fields : ∀ id, ∀ f ∈ (S.structDef id).fields, S.fieldFixOK N f = true
  imp : ∀ id, S.importOK (S.structDef id) = true
  pay : ∀ id, S.payloadOK (S.structDef id) = true
  dyn : ∀ d, (S.dyn d).kind.noNarrow = true
  ctx : ∀ d ∈ S.ctxDyns, DqK S (S.dyn d).kind
  ctxTag : ∀ d ∈ S.ctxDyns, S.kindTagOK (S.dyn d).kind 0 = true
  msgExt : S.kindTagOK (.struct (msgExtId S)) 0 = true
  attr : S.kindTagOK (.struct (attributeId S)) 0 = true
  union : ∀ k ∈ customFieldKinds S Cust.credentialValue ++ customFieldKinds S Cust.keyMaterial,
    S.kindTagOK k 0 = true

theorem fixOK_spec {S : Schema} {N : Nat} (h : S.fixOK N = true) : FixOK S N := by
  simp only [Schema.fixOK, Bool.and_eq_true, List.all_eq_true] at h
  obtain ⟨⟨⟨⟨⟨h1, h2⟩, h3⟩, h4⟩, h5⟩, h6⟩ := h
  refine ⟨?_, ?_, ?_, ?_, fun d hd => ⟨N, (h3 d hd).1⟩, fun d hd => (h3 d hd).2, h4, h5, h6⟩
  · intro id f hf
    rcases getD_mem_or_default S.structs id { fields := [] } with hm | hm
    · exact (h1 _ hm).1.1 f hf
    · unfold Schema.structDef at hf; rw [hm] at hf; cases hf
  · intro id
    rcases getD_mem_or_default S.structs id { fields := [] } with hm | hm
    · exact (h1 _ hm).1.2
    · unfold Schema.structDef; rw [hm]; rfl
  · intro id
    rcases getD_mem_or_default S.structs id { fields := [] } with hm | hm
    · exact (h1 _ hm).2
    · unfold Schema.structDef; rw [hm]; rfl
  · intro d
    rcases getD_mem_or_default S.dyns d { defTag := 0, kind := .unsupported } with hm | hm
    · exact h2 _ hm
    · unfold Schema.dyn; rw [hm]; rfl

theorem FixOK.noNarrow {S : Schema} {N : Nat} (h : FixOK S N) (id : Nat) {f : Field}
    (hf : f ∈ (S.structDef id).fields) : f.kind.noNarrow = true := by
  have := h.fields id f hf
  simp only [Schema.fieldFixOK, Bool.and_eq_true] at this
  exact this.1.1.1

theorem FixOK.tagOK {S : Schema} {N : Nat} (h : FixOK S N) (id : Nat) {f : Field}
    (hf : f ∈ (S.structDef id).fields) : S.kindTagOK f.kind f.tag = true := by
  have := h.fields id f hf
  simp only [Schema.fieldFixOK, Bool.and_eq_true] at this
  exact this.2

/-- a kind that is fine under tag 0 (≠ TagBatchItem) is fine under every tag. -/
theorem kindTagOK_of_zero {S : Schema} {k : Kind} (h : S.kindTagOK k 0 = true) (tag : Nat) :
    S.kindTagOK k tag = true := by
  unfold Schema.kindTagOK at h ⊢
  split
  · rename_i j hj
    rw [hj] at h
    simp only [Bool.or_eq_true] at h ⊢
    rcases h with h | h
    · exact Or.inl h
    · exact absurd h (by decide)
  · rfl

theorem kindTagOK_nonstruct {S : Schema} {k : Kind} (h : ∀ j, k.base ≠ .struct j) (tag : Nat) :
    S.kindTagOK k tag = true := by
  unfold Schema.kindTagOK
  split
  · rename_i j hj; exact absurd hj (h j)
  · rfl

/-- the members of the union-like structs are fields of a struct of the schema. -/
theorem FixOK.custKinds {S : Schema} {N : Nat} (h : FixOK S N) (code : Nat) {k : Kind}
    (hk : k ∈ customFieldKinds S code) : k.noNarrow = true := by
  unfold customFieldKinds at hk
  cases hf : S.structs.find? (fun d => d.custom == code) with
  | none => rw [hf] at hk; cases hk
  | some d =>
    rw [hf] at hk
    simp only [List.mem_map] at hk
    obtain ⟨f, hfm, rfl⟩ := hk
    have hmem := List.mem_of_find?_eq_some hf
    obtain ⟨i, hi, hget⟩ := List.getElem_of_mem hmem
    have hsd : S.structDef i = d := by
      unfold Schema.structDef
      rw [List.getD_eq_getElem?_getD, List.getElem?_eq_getElem hi, hget]; rfl
    exact h.noNarrow i (hsd ▸ hfm)

/-! ## 2. What relates the decoded value, its conforming twin and the re-decoded value -/

def intView : Val → Option Int
  | .int x => some x
  | _ => none

/-- what `importObjectType` observes of one attribute. -/
def obsAttr (a : Val) : Option (Bytes × Nat × Option Int) :=
  match a.field 0, a.field 2 with
  | .text n, .iface (some (d, x)) => some (n, d, intView x)
  | _, _ => none

def attrLike (S : Schema) (id : Nat) : Prop :=
  (S.structDef id).decCustom = true ∧ (S.structDef id).custom = Cust.attr

def obsRel (S : Schema) : Kind → Val → Val → Prop
  | .struct id, v, w' => attrLike S id → obsAttr v = obsAttr w'
  | .slice (.struct id), v, w' =>
    attrLike S id → ∃ xs ys, v = .list xs ∧ w' = .list ys ∧ xs.map obsAttr = ys.map obsAttr
  | _, _, _ => True

/-- `v` decoded, `w` its conforming twin, `w'` the normal form of `w` (what re-decoding returns). -/
structure Rel (S : Schema) (k : Kind) (v w w' : Val) : Prop where
  zero : k.zeroFaithful = true → w.isZero = v.isZero
  int : intView v = intView w'
  obs : obsRel S k v w'

/-! ## 2'. The side condition on the decoded value: no member-less Credential / KeyMaterial

`CredentialValue.decode` and `KeyMaterial.decode` leave every member nil when the element is absent from
the input; such a value is accepted, re-encodes (without the element) and, on the model, is a fixed point
too — but it has no conforming twin (C01's conformance demands exactly one member), so the proof below
does not cover it: `goodU` excludes exactly these values. -/

def anyNonNil : List Val → Bool
  | [] => false
  | .ptr none :: xs => anyNonNil xs
  | _ :: _ => true

mutual
  /-- every CredentialValue / KeyMaterial inside `v` (walked along the kinds) has a non-nil member. -/
  def goodU (S : Schema) : Kind → Val → Bool
    | .struct id, .struct fs =>
      let d := S.structDef id
      if d.encCustom && (d.custom == Cust.credentialValue || d.custom == Cust.keyValue
          || d.custom == Cust.keyMaterial) then
        (d.custom == Cust.keyValue || anyNonNil fs) && goodL S (customFieldKinds S d.custom) fs
      else goodL S (d.fields.map (·.kind)) fs
    | .ptr k, .ptr (some x) => goodU S k x
    | .slice k, .list xs => goodAll S k xs
    | .iface, .iface (some (d, x)) => goodU S (S.dyn d).kind x
    | _, _ => true
  def goodL (S : Schema) : List Kind → List Val → Bool
    | k :: ks, v :: vs => goodU S k v && goodL S ks vs
    | _, _ => true
  def goodAll (S : Schema) : Kind → List Val → Bool
    | k, x :: xs => goodU S k x && goodAll S k xs
    | _, [] => true
end

/-! ## 2''. The measure of the decoded value: nesting and list lengths, NOT the size of opaque parts

`Val.depth` (C01) also counts the nodes of `ttlv.Value` / `ttlv.Struct` parts (the decoder's fuel on
them); the encoder spends no fuel there, so the side condition of the typed fixed point uses this
smaller measure: a large opaque payload does not count. -/

mutual
  def Val.edepth : Val → Nat
    | .struct fs => Val.edepthList fs + 12
    | .ptr (some x) => x.edepth + 2
    | .list xs => Val.edepthList xs + 2
    | .iface (some (_, x)) => x.edepth + 4
    | _ => 2
  def Val.edepthList : List Val → Nat
    | [] => 2
    | x :: xs => max x.edepth (Val.edepthList xs) + 1
end

theorem Val.edepth_pos (v : Val) : 2 ≤ v.edepth := by
  cases v with
  | struct fs => simp only [Val.edepth]; omega
  | ptr x => cases x <;> simp [Val.edepth]
  | list xs => simp only [Val.edepth]; omega
  | iface x =>
    cases x with
    | none => simp [Val.edepth]
    | some p => obtain ⟨d, x⟩ := p; simp only [Val.edepth]; omega
  | any x => simp [Val.edepth]
  | anyStruct its => simp [Val.edepth]
  | int _ => simp [Val.edepth]
  | bool _ => simp [Val.edepth]
  | text _ => simp [Val.edepth]
  | bytes _ => simp [Val.edepth]
  | big _ => simp [Val.edepth]

theorem Val.edepthList_pos (vs : List Val) : 2 ≤ Val.edepthList vs := by
  cases vs with
  | nil => simp [Val.edepthList]
  | cons x xs => have := Val.edepth_pos x; simp only [Val.edepthList]; omega

theorem edepthList_cons_ge (x : Val) (xs : List Val) :
    x.edepth + 1 ≤ Val.edepthList (x :: xs) ∧ Val.edepthList xs + 1 ≤ Val.edepthList (x :: xs) := by
  simp only [Val.edepthList]; omega

/-! ## 3. The induction predicates (indexed by the DECODER's fuel)

Two hypotheses beside the decoder equation: `v.edepth ≤ fd` (the decoder did not run at the very end of
its fuel, where `zeroOf S 0 _ = .int 0` produces ill-shaped zero values: an artefact of the model's
fuel — `unmarshal` runs with `bs.length + 3000000`) and `goodU`. -/

def FK (S : Schema) (fd : Nat) : Prop :=
  ∀ (k : Kind) (tag : Nat) (c : Cur) (ver : Option Ver) (v : Val) (c' : Cur) (ver' : Option Ver),
    S.decodable k = true → k.shapeOK = true → k.noNarrow = true → S.kindTagOK k tag = true →
    decK S fd k tag c ver = .ok (v, c', ver') → v.edepth ≤ fd → goodU S k v = true →
    ∀ n, v.edepth ≤ n → ∃ w w' items, normK S n k tag w ver = some (w', ver')
      ∧ encK S n k tag v ver = .ok (items, ver') ∧ encK S n k tag w ver = .ok (items, ver')
      ∧ Rel S k v w w'

def FList (S : Schema) (fd : Nat) : Prop :=
  ∀ (k : Kind) (tag : Nat) (c : Cur) (ver : Option Ver) (vs : List Val) (c' : Cur) (ver' : Option Ver),
    S.decodable k = true → k.definite = true → k.noNarrow = true → S.kindTagOK k tag = true →
    decList S fd k tag c ver = .ok (vs, c', ver') → Val.edepthList vs ≤ fd → goodAll S k vs = true →
    ∀ n, Val.edepthList vs ≤ n → ∃ ws ws' items, normSlice S n k tag ws ver = some (ws', ver')
      ∧ encSlice S n k tag vs ver = .ok (items, ver') ∧ encSlice S n k tag ws ver = .ok (items, ver')
      ∧ ws.length = vs.length
      ∧ (∀ id, k = .struct id → attrLike S id → vs.map obsAttr = ws'.map obsAttr)

def FFields (S : Schema) (N : Nat) (fd : Nat) : Prop :=
  ∀ (fs : List Field) (c : Cur) (ver : Option Ver) (vs : List Val) (c' : Cur) (ver' : Option Ver),
    (∀ f ∈ fs, S.fieldOK f = true ∧ S.fieldFixOK N f = true) →
    decFields S fd fs c ver = .ok (vs, c', ver') → Val.edepthList vs ≤ fd →
    goodL S (fs.map (·.kind)) vs = true →
    ∀ n, Val.edepthList vs ≤ n → ∃ ws ws' items, normFields S n fs ws ver = some (ws', ver')
      ∧ encFields S n fs vs ver = .ok (items, ver') ∧ encFields S n fs ws ver = .ok (items, ver')

/-- the value behind an interface, decoded under the dynamic type the caller chose. -/
def FDyn (S : Schema) (fd : Nat) : Prop :=
  ∀ (d tag : Nat) (c : Cur) (ver : Option Ver) (v : Val) (c' : Cur) (ver' : Option Ver),
    d ∈ S.ctxDyns →
    decDyn S fd d tag c ver = .ok (v, c', ver') → v.edepth ≤ fd → goodU S .iface v = true →
    ∃ x, v = .iface (some (d, x)) ∧ dynValOk (S.dyn d).kind x = true ∧
      ∀ n, x.edepth ≤ n → ∃ wx wx' items,
        normK S n (S.dyn d).kind (if tag = 0 then (S.dyn d).defTag else tag) wx ver = some (wx', ver')
        ∧ encK S n (S.dyn d).kind (if tag = 0 then (S.dyn d).defTag else tag) x ver = .ok (items, ver')
        ∧ encK S n (S.dyn d).kind (if tag = 0 then (S.dyn d).defTag else tag) wx ver = .ok (items, ver')
        ∧ dynValOk (S.dyn d).kind wx = true ∧ intView x = intView wx'

/-- structs with a hand-written decoder. -/
def FCust (S : Schema) (fd : Nat) : Prop :=
  ∀ (id tag : Nat) (c : Cur) (ver : Option Ver) (v : Val) (c' : Cur) (ver' : Option Ver),
    (S.structDef id).decCustom = true → S.customShapeOK (S.structDef id) = true →
    S.importOK (S.structDef id) = true → S.kindTagOK (.struct id) tag = true →
    decCustom S fd (S.structDef id).custom id tag c ver = .ok (v, c', ver') → v.edepth ≤ fd + 1 →
    goodU S (.struct id) v = true →
    ∀ n, v.edepth ≤ n → ∃ w w' items, normK S n (.struct id) tag w ver = some (w', ver')
      ∧ encK S n (.struct id) tag v ver = .ok (items, ver') ∧ encK S n (.struct id) tag w ver = .ok (items, ver')
      ∧ intView w' = none ∧ obsRel S (.struct id) v w'

/-- quiet kinds leave the version cell alone (decoder side). -/
structure DecQuiet (S : Schema) (fd : Nat) : Prop where
  decK : ∀ k tag c ver v c' ver', DqK S k → decK S fd k tag c ver = .ok (v, c', ver') → ver' = ver
  decStruct : ∀ fs tag c ver v c' ver', DqFields S fs →
    decStruct S fd fs tag c ver = .ok (v, c', ver') → ver' = ver
  decList : ∀ k tag c ver vs c' ver', DqK S k → decList S fd k tag c ver = .ok (vs, c', ver') → ver' = ver
  decFields : ∀ fs c ver vs c' ver', DqFields S fs →
    decFields S fd fs c ver = .ok (vs, c', ver') → ver' = ver
  decOpt : ∀ k tag c ver v c' ver', DqK S k → decOpt S fd k tag c ver = .ok (v, c', ver') → ver' = ver
  decDyn : ∀ d tag c ver v c' ver', d ∈ S.ctxDyns →
    decDyn S fd d tag c ver = .ok (v, c', ver') → ver' = ver
  decCustom : ∀ id tag c ver v c' ver', DqK S (.struct id) → (S.structDef id).decCustom = true →
    decCustom S fd (S.structDef id).custom id tag c ver = .ok (v, c', ver') → ver' = ver
  decKeyValue : ∀ fmt c ver v c' ver', DqKs S (customFieldKinds S Cust.keyMaterial) →
    DqK S (.struct (attributeId S)) → decKeyValue S fd fmt c ver = .ok (v, c', ver') → ver' = ver

end Kmip
