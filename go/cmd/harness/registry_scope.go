package main

// Engine `registry` (property C17), third part: two impl-side oracles on the REAL code for clauses of C17 that
// the pure model (text -> number, table chosen by the tag) cannot show a failing input for.
//
//   - oracleScopes ("every name denotes exactly one number WITHIN ITS SCOPE"): a by-name lookup answers exactly
//     what the live table of THAT tag says: the registered number for a registered (tag, name) pair, an error for
//     every other pair - in particular under every tag that has NO table (AttributeValue, CustomAttribute, every
//     registered non-enumeration tag, extension and unregistered tags) for EVERY name registered anywhere, and
//     under every enumeration for the names of every OTHER enumeration. Every lookup is repeated (the names that
//     several enumerations share with different numbers many times): the answer must not depend on the call
//     (Go's randomised map iteration order). Through ttlv.EnumByName / EnumName / BitmaskByStr and through the
//     XML / JSON readers of generic items (ttlv.Value, an item nested in a structure, a custom kmip.Attribute).
//
//   - oracleDest ("a name denotes exactly one number": the number read does not depend on what the destination
//     held before): UnmarshalText, encoding/json (value and struct field), encoding/xml (attribute) and
//     Decoder.TagAny (XML, JSON; own tag and AttributeValue) of EVERY enumeration and mask Go type into a
//     destination that is NOT fresh (all ones, alternating bits, other registered values, the complement of the
//     expected result, and the result of the previous read: one variable reused over a whole sequence of texts)
//     give the same outcome - same success / failure, same number - as into a fresh variable. What the
//     destination holds after a FAILED read is not judged (a reader may or may not leave it untouched).
//
// Destination reuse and call-to-call stability are not expressible in the model (its readers are functions of
// the text and the tables only); the oracles are what covers them.

import (
	"encoding"
	"encoding/json"
	"encoding/xml"
	"fmt"
	"reflect"
	"sort"
	"strconv"
	"strings"

	kmip "github.com/ovh/kmip-go"
	"github.com/ovh/kmip-go/ttlv"
)

// ---- scopes ---------------------------------------------------------------------------------------------------

// scopeClass names the kind of scope a tag is, for the violation keys.
func (e *regEnv) scopeClass(tag int) string {
	switch {
	case e.live.enums[tag] != nil:
		return "enumeration"
	case tag == kmip.TagAttributeValue:
		return "AttributeValue"
	case tag == kmip.TagCustomAttribute:
		return "CustomAttribute"
	case e.live.masks[tag] != nil:
		return "mask-tag"
	case e.live.tags[tag] != "":
		return "registered-tag-without-table"
	case tag >= 0x540000 && tag <= 0x54FFFF:
		return "extension-tag"
	default:
		return "unregistered-tag"
	}
}

// scopeEnumLookup: ttlv.EnumByName(tag, name), `reps` times, against the live table of `tag`.
func (e *regEnv) scopeEnumLookup(ctx *Ctx, tag int, name string, reps int) {
	line := fmt.Sprintf("#reg.scope enumbyname %d %s", tag, regHex(name))
	ctx.current = line
	want, registered := e.live.enumsByName[tag][name]
	class := e.scopeClass(tag)
	answers := map[string]bool{}
	first := ""
	for i := 0; i < reps; i++ {
		a := guardStr("EnumByName", func() string { return okNum(ttlv.EnumByName(tag, name)) })
		if i == 0 {
			first = a
		}
		answers[a] = true
	}
	ctx.Res.Count("oracle.scope.enumbyname." + class)
	expect := "err"
	if registered {
		expect = fmt.Sprintf("ok %d", want)
	}
	if len(answers) > 1 {
		e.violate(ctx, "C17", "lookup-unstable", "scope:unstable:EnumByName:"+class, fmt.Sprintf("EnumByName(%s, %q) called %d times answers %v: the number a name denotes changes from one call to the next (expected every time: %s)", ttlv.TagString(tag), name, reps, sortedSet(answers), expect), line)
	}
	if first != expect {
		why := "the tag has no enumeration: no name denotes a number in that scope"
		if e.live.enums[tag] != nil {
			why = "the enumeration of that tag does not register that name" + e.elsewhere(tag, name)
		}
		if registered {
			why = "the registered number"
		}
		e.violate(ctx, "C17", "name-scoped", "scope:EnumByName:"+class, fmt.Sprintf("EnumByName(%s, %q) = %s, expected %s (%s)", ttlv.TagString(tag), name, first, expect, why), line)
	}
}

// elsewhere says which other enumerations register the name (for the detail text).
func (e *regEnv) elsewhere(tag int, name string) string {
	var where []string
	for _, t := range sortedTagKeys(e.live.enumsByName) {
		if v, ok := e.live.enumsByName[t][name]; ok && t != tag {
			where = append(where, fmt.Sprintf("%s=0x%X", ttlv.TagString(t), v))
		}
	}
	if len(where) == 0 {
		return ""
	}
	return "; registered in " + strings.Join(where, ", ")
}

func sortedTagKeys[V any](m map[int]V) []int {
	ks := make([]int, 0, len(m))
	for k := range m {
		ks = append(ks, k)
	}
	sort.Ints(ks)
	return ks
}

func sortedSet(m map[string]bool) []string {
	ks := make([]string, 0, len(m))
	for k := range m {
		ks = append(ks, k)
	}
	sort.Strings(ks)
	return ks
}

// scopeEnumName: ttlv.EnumName(tag, v) under a tag WITHOUT table: no number has a name there.
func (e *regEnv) scopeEnumName(ctx *Ctx, tag int, v uint32) {
	line := fmt.Sprintf("#reg.scope enumname %d %d", tag, v)
	ctx.current = line
	want := e.live.enums[tag][v]
	class := e.scopeClass(tag)
	ctx.Res.Count("oracle.scope.enumname." + class)
	for i := 0; i < 2; i++ {
		got := guardStr("EnumName", func() string { return "ok " + regHex(ttlv.EnumName(tag, v)) })
		if got != "ok "+regHex(want) {
			e.violate(ctx, "C17", "name-scoped", "scope:EnumName:"+class, fmt.Sprintf("EnumName(%s, 0x%X) = %s, the table of that tag says %q", ttlv.TagString(tag), v, got, want), line)
			return
		}
	}
}

// scopeMaskLookup: ttlv.BitmaskByStr(tag, name) against the live table of `tag`.
func (e *regEnv) scopeMaskLookup(ctx *Ctx, tag int, name string, reps int) {
	line := fmt.Sprintf("#reg.scope maskbyname %d %s", tag, regHex(name))
	ctx.current = line
	want, registered := e.live.masksByName[tag][name]
	class := e.scopeClass(tag)
	if e.live.masks[tag] != nil {
		class = "mask"
	}
	ctx.Res.Count("oracle.scope.maskbyname." + class)
	expect := "err"
	if registered {
		expect = fmt.Sprintf("ok %d", want)
	}
	answers := map[string]bool{}
	first := ""
	for i := 0; i < reps; i++ {
		a := guardStr("BitmaskByStr", func() string {
			v, err := ttlv.BitmaskByStr(tag, name)
			return okNum(uint32(v), err)
		})
		if i == 0 {
			first = a
		}
		answers[a] = true
	}
	if len(answers) > 1 {
		e.violate(ctx, "C17", "lookup-unstable", "scope:unstable:BitmaskByStr:"+class, fmt.Sprintf("BitmaskByStr(%s, %q) called %d times answers %v (expected every time: %s)", ttlv.TagString(tag), name, reps, sortedSet(answers), expect), line)
	}
	if first != expect {
		e.violate(ctx, "C17", "name-scoped", "scope:BitmaskByStr:"+class, fmt.Sprintf("BitmaskByStr(%s, %q) = %s, expected %s (the table of that tag)", ttlv.TagString(tag), name, first, expect), line)
	}
}

// scopeForms: the readers of GENERIC items (no Go type tells the enumeration: the scope is the element tag).
var scopeForms = []string{"xml-value", "json-value", "xml-nested", "json-nested", "xml-custom-attribute", "json-custom-attribute"}

// scopeDoc builds the document of one generic form: written by the library's own writer with a placeholder number
// (no registry has it), in which the placeholder text is then replaced by the name.
const scopePlaceholder = 0x7ABCDEF1

func scopeDoc(form string, tag int, name string) []byte {
	item := ttlv.Value{Tag: tag, Value: ttlv.Enum(scopePlaceholder)}
	var val any = item
	switch {
	case strings.HasSuffix(form, "-nested"):
		val = ttlv.Value{Tag: 0x540002, Value: ttlv.Struct{item}}
	case strings.HasSuffix(form, "-custom-attribute"):
		val = &kmip.Attribute{AttributeName: "x-verif", AttributeValue: ttlv.Value{Tag: kmip.TagAttributeValue, Value: ttlv.Enum(scopePlaceholder)}}
	}
	ph := fmt.Sprintf("0x%08X", scopePlaceholder)
	if strings.HasPrefix(form, "xml") {
		return []byte(strings.Replace(string(ttlv.MarshalXML(val)), `"`+ph+`"`, `"`+xmlAttrEscape(name)+`"`, 1))
	}
	return []byte(strings.Replace(string(ttlv.MarshalJSON(val)), `"`+ph+`"`, jsonString(name), 1))
}

// scopeRead reads an Enumeration item whose value is `name` under element tag `tag` through one generic reader and
// returns "ok <number>" / "err".
func scopeRead(form string, tag int, name string) string {
	return guardStr("generic reader "+form, func() string {
		enumOf := func(v any) string {
			if x, ok := v.(ttlv.Value); ok {
				v = x.Value
			}
			if x, ok := v.(ttlv.Enum); ok {
				return fmt.Sprintf("ok %d", uint32(x))
			}
			return fmt.Sprintf("ok-other %T", v)
		}
		doc := scopeDoc(form, tag, name)
		read := ttlv.UnmarshalJSON
		if strings.HasPrefix(form, "xml") {
			read = ttlv.UnmarshalXML
		}
		switch {
		case strings.HasSuffix(form, "-nested"):
			var v ttlv.Value
			if err := read(doc, &v); err != nil {
				return "err"
			}
			st, ok := v.Value.(ttlv.Struct)
			if !ok || len(st) != 1 {
				return fmt.Sprintf("ok-other %T", v.Value)
			}
			return enumOf(st[0])
		case strings.HasSuffix(form, "-custom-attribute"):
			var att kmip.Attribute
			if err := read(doc, &att); err != nil {
				return "err"
			}
			return enumOf(att.AttributeValue)
		default:
			var v ttlv.Value
			if err := read(doc, &v); err != nil {
				return "err"
			}
			return enumOf(v)
		}
	})
}

// scopeReader: one generic reader on (tag, name), `reps` times, against the live table of `tag`.
func (e *regEnv) scopeReader(ctx *Ctx, form string, tag int, name string, reps int) {
	if strings.HasSuffix(form, "custom-attribute") {
		tag = kmip.TagAttributeValue
	}
	if tag <= 0 || tag > 0xFFFFFF || vecNumRe.MatchString(name) { // tag 0 is not an item the writers can write
		return
	}
	line := fmt.Sprintf("#reg.scope read %s %d %s", form, tag, regHex(name))
	ctx.current = line
	want, registered := e.live.enumsByName[tag][name]
	class := e.scopeClass(tag)
	ctx.Res.Count("oracle.scope.read." + form + "." + class)
	expect := "err"
	if registered {
		expect = fmt.Sprintf("ok %d", want)
	}
	answers := map[string]bool{}
	first := ""
	for i := 0; i < reps; i++ {
		a := scopeRead(form, tag, name)
		if i == 0 {
			first = a
		}
		answers[a] = true
	}
	if len(answers) > 1 {
		e.violate(ctx, "C17", "lookup-unstable", "scope:unstable:"+form+":"+class, fmt.Sprintf("%s: an Enumeration item %s with value %q read %d times gives %v: the number a name denotes changes from one read to the next (expected every time: %s)", form, ttlv.TagString(tag), name, reps, sortedSet(answers), expect), line)
	}
	if first != expect {
		why := "the element tag has no enumeration and no Go type tells one: the name denotes no number"
		if e.live.enums[tag] != nil {
			why = "the table of that tag" + e.elsewhere(tag, name)
		}
		e.violate(ctx, "C17", "name-scoped", "scope:"+form+":"+class, fmt.Sprintf("%s: an Enumeration item %s with value %q is read as %s, expected %s (%s)", form, ttlv.TagString(tag), name, first, expect, why), line)
	}
}

// scopeSets: every enumeration value name registered anywhere (live and pinned), the names that several
// enumerations register with DIFFERENT numbers, every distinct registered number, every flag name.
func (e *regEnv) scopeSets() (names, shared []string, numbers []uint32, flags []string) {
	byName := map[string]map[uint32]bool{}
	nums := map[uint32]bool{}
	for _, t := range sortedTagKeys(e.live.enumsByName) {
		for n, v := range e.live.enumsByName[t] {
			if byName[n] == nil {
				byName[n] = map[uint32]bool{}
			}
			byName[n][v] = true
		}
		for v := range e.live.enums[t] {
			nums[v] = true
		}
	}
	if e.pin != nil {
		for _, x := range e.pin.enumsByName {
			if byName[x.name] == nil {
				byName[x.name] = map[uint32]bool{}
			}
			byName[x.name][x.num] = true
		}
	}
	for n, vs := range byName {
		names = append(names, n)
		if len(vs) > 1 {
			shared = append(shared, n)
		}
	}
	sort.Strings(names)
	sort.Strings(shared)
	for v := range nums {
		numbers = append(numbers, v)
	}
	sort.Slice(numbers, func(i, j int) bool { return numbers[i] < numbers[j] })
	fl := map[string]bool{}
	for _, t := range sortedTagKeys(e.live.masks) {
		for _, n := range e.live.masks[t] {
			if n != "" {
				fl[n] = true
			}
		}
		for n := range e.live.masksByName[t] {
			fl[n] = true
		}
	}
	if e.pin != nil {
		for _, x := range e.pin.masksByName {
			fl[x.name] = true
		}
	}
	flags = sortedSet(fl)
	return
}

// scopeTags: the tags WITHOUT enumeration table, the interesting ones first: AttributeValue, CustomAttribute,
// extension tags, unregistered tags, the mask tags, then every other registered tag.
func (e *regEnv) scopeTags() (focus, all []int) {
	focus = []int{kmip.TagAttributeValue, kmip.TagCustomAttribute, kmip.TagAttribute, kmip.TagUniqueIdentifier, 0x540000, 0x540001, 0x54FFFF, 0x42FFFF, 0x420000, 0x000001, 0xFFFFFF, 0}
	focus = append(focus, sortedTagKeys(e.live.masks)...)
	seen := map[int]bool{}
	keep := focus[:0:0]
	for _, t := range focus {
		if e.live.enums[t] == nil && !seen[t] {
			seen[t] = true
			keep = append(keep, t)
		}
	}
	focus = keep
	all = append(all, focus...)
	for _, t := range append(sortedTagKeys(e.live.tags), -1, 0x1000000, 0x7FFFFFFF, 0x55000000) {
		if e.live.enums[t] == nil && !seen[t] {
			seen[t] = true
			all = append(all, t)
		}
	}
	return
}

const scopeManyReps = 48 // repetitions of a lookup whose answer could depend on Go's map iteration order

func (e *regEnv) oracleScopes(ctx *Ctx) {
	names, shared, numbers, flags := e.scopeSets()
	focus, all := e.scopeTags()
	isShared := map[string]bool{}
	for _, n := range shared {
		isShared[n] = true
	}
	ctx.Res.Count(fmt.Sprintf("oracle.scope.names=%d shared=%d numbers=%d flags=%d tags-without-table=%d", len(names), len(shared), len(numbers), len(flags), len(all)))
	if len(names) < 100 || len(all) < 100 || len(flags) < 10 {
		ctx.Res.Fail(fmt.Sprintf("lost evidence: the scope oracle found %d enumeration value names, %d flag names, %d tags without enumeration: the registry dump is not what it is claimed to be", len(names), len(flags), len(all)))
	}
	repsOf := func(n string) int {
		if isShared[n] {
			return scopeManyReps
		}
		return 2
	}
	// (1) tags without table x EVERY name registered anywhere; the shared names first (they are the ones a
	// scope-less lookup cannot resolve to one number)
	ordered := append(append([]string{}, shared...), names...)
	for _, tag := range all {
		for _, n := range ordered {
			e.scopeEnumLookup(ctx, tag, n, repsOf(n))
		}
		for _, v := range numbers {
			e.scopeEnumName(ctx, tag, v)
		}
	}
	// (2) every enumeration x every name registered anywhere (own names: the registered number; all others: error)
	// and the odd spellings of its own names
	for _, tag := range sortedTagKeys(e.live.enumsByName) {
		for _, n := range ordered {
			e.scopeEnumLookup(ctx, tag, n, repsOf(n))
		}
		own := make([]string, 0, len(e.live.enumsByName[tag]))
		for n := range e.live.enumsByName[tag] {
			own = append(own, n)
		}
		sort.Strings(own)
		for i, n := range own {
			if i%3 == 0 || ctx.Thor {
				for _, s := range variants(n)[1:] {
					e.scopeEnumLookup(ctx, tag, s, 1)
				}
			}
		}
		for _, f := range flags {
			e.scopeEnumLookup(ctx, tag, f, 2)
		}
	}
	// (3) the generic readers: the focus tags x every name (thorough: every tag without table, value forms)
	for _, tag := range focus {
		for _, n := range ordered {
			for _, form := range scopeForms {
				if strings.HasSuffix(form, "custom-attribute") && tag != kmip.TagAttributeValue {
					continue
				}
				e.scopeReader(ctx, form, tag, n, repsOf(n))
			}
		}
	}
	for i, tag := range all {
		for j, n := range ordered {
			if ctx.Thor || isShared[n] || (i+j)%23 == 0 {
				e.scopeReader(ctx, "xml-value", tag, n, repsOf(n))
				e.scopeReader(ctx, "json-value", tag, n, repsOf(n))
			}
		}
	}
	// generic readers inside an enumeration: names of other enumerations
	for _, tag := range sortedTagKeys(e.live.enumsByName) {
		for j, n := range ordered {
			if ctx.Thor || isShared[n] || j%11 == 0 {
				e.scopeReader(ctx, "xml-value", tag, n, repsOf(n))
				e.scopeReader(ctx, "json-value", tag, n, repsOf(n))
			}
		}
	}
	// (4) masks: every tag (with or without mask table) x every flag name; mask tags x enumeration value names
	maskScopes := append(append([]int{}, all...), sortedTagKeys(e.live.enumsByName)...)
	for _, tag := range maskScopes {
		for _, f := range flags {
			e.scopeMaskLookup(ctx, tag, f, 2)
		}
	}
	for _, tag := range sortedTagKeys(e.live.masks) {
		for _, n := range ordered {
			e.scopeMaskLookup(ctx, tag, n, 1)
		}
		for _, f := range flags {
			for _, s := range variants(f)[1:] {
				if !strings.ContainsAny(s, " |\t") { // BitmaskByStr takes ONE flag name
					e.scopeMaskLookup(ctx, tag, s, 1)
				}
			}
		}
	}
}

// ---- destinations that are not fresh ---------------------------------------------------------------------------

type destForm struct {
	name string
	// read reads `text` into the destination of Go type ty pre-filled with `prefill` (nil: a fresh variable) and
	// returns "ok <number>" / "err".
	read func(ty reflect.Type, own int, prefill *uint32, text string) string
}

func destNew(ty reflect.Type, prefill *uint32) reflect.Value {
	p := reflect.New(ty)
	if prefill != nil {
		destSet(p.Elem(), *prefill)
	}
	return p
}

func destSet(v reflect.Value, x uint32) {
	if v.Kind() == reflect.Int32 {
		v.SetInt(int64(int32(x)))
	} else {
		v.SetUint(uint64(x))
	}
}

func destGet(v reflect.Value) uint32 {
	if v.Kind() == reflect.Int32 {
		return uint32(int32(v.Int()))
	}
	return uint32(v.Uint())
}

func destResult(err error, v reflect.Value) string {
	if err != nil {
		return "err"
	}
	return fmt.Sprintf("ok %d", destGet(v))
}

// destStruct: struct { A T `json:"a" xml:"a,attr"`; B T `json:"b" xml:"b,attr"` }, both fields pre-filled.
func destStruct(ty reflect.Type, prefill *uint32) reflect.Value {
	st := reflect.StructOf([]reflect.StructField{
		{Name: "A", Type: ty, Tag: `json:"a" xml:"a,attr"`},
		{Name: "B", Type: ty, Tag: `json:"b" xml:"b,attr"`},
	})
	p := reflect.New(st)
	if prefill != nil {
		destSet(p.Elem().Field(0), *prefill)
		destSet(p.Elem().Field(1), *prefill)
	}
	return p
}

func destTTLV(form string, elemOf func(own int) int) func(ty reflect.Type, own int, prefill *uint32, text string) string {
	return func(ty reflect.Type, own int, prefill *uint32, text string) string {
		elem := elemOf(own)
		kind := "Enumeration"
		if ty.Kind() == reflect.Int32 {
			kind = "Integer"
		}
		var doc string
		if form == "xml" {
			doc = fmt.Sprintf(`<TTLV tag="0x%06X" type="%s" value="%s"/>`, elem, kind, xmlAttrEscape(text))
		} else {
			doc = fmt.Sprintf(`{"tag": "0x%06X", "type": "%s", "value": %s}`, elem, kind, jsonString(text))
		}
		p := destNew(ty, prefill)
		return destResult(typedDecode(form, []byte(doc), elem, p.Interface()), p.Elem())
	}
}

var destForms = []destForm{
	{"UnmarshalText", func(ty reflect.Type, own int, prefill *uint32, text string) string {
		p := destNew(ty, prefill)
		return destResult(p.Interface().(encoding.TextUnmarshaler).UnmarshalText([]byte(text)), p.Elem())
	}},
	{"encoding/json", func(ty reflect.Type, own int, prefill *uint32, text string) string {
		p := destNew(ty, prefill)
		return destResult(json.Unmarshal([]byte(jsonString(text)), p.Interface()), p.Elem())
	}},
	{"encoding/json-field", func(ty reflect.Type, own int, prefill *uint32, text string) string {
		p := destStruct(ty, prefill)
		return destResult(json.Unmarshal([]byte(`{"a": `+jsonString(text)+`}`), p.Interface()), p.Elem().Field(0))
	}},
	{"encoding/xml-attr", func(ty reflect.Type, own int, prefill *uint32, text string) string {
		p := destStruct(ty, prefill)
		return destResult(xml.Unmarshal([]byte(`<x a="`+xmlAttrEscape(text)+`"/>`), p.Interface()), p.Elem().Field(0))
	}},
	{"ttlv-xml", destTTLV("xml", func(own int) int { return own })},
	{"ttlv-json", destTTLV("json", func(own int) int { return own })},
	{"ttlv-xml-attribute-value", destTTLV("xml", func(int) int { return kmip.TagAttributeValue })},
	{"ttlv-json-attribute-value", destTTLV("json", func(int) int { return kmip.TagAttributeValue })},
}

// destCheck: one read of `text` into a destination pre-filled with `prefill`, compared with the read into a fresh one.
func (e *regEnv) destCheck(ctx *Ctx, tyName string, form destForm, prefill uint32, text, how string) {
	ty, ok := e.types[tyName]
	if !ok {
		return
	}
	own, isEnum := e.live.enumTypes[tyName]
	if !isEnum {
		if own, ok = e.live.maskTypes[tyName]; !ok {
			return
		}
	}
	line := fmt.Sprintf("#reg.dest %s %s %d %s", form.name, regHex(tyName), prefill, regHex(text))
	ctx.current = line
	ctx.Res.Count("oracle.dest." + form.name)
	fresh := guardStr("fresh "+form.name, func() string { return form.read(ty, own, nil, text) })
	got := guardStr("prefilled "+form.name, func() string { return form.read(ty, own, &prefill, text) })
	if got != fresh {
		e.violate(ctx, "C17", "destination-independent", "dest:"+form.name+":"+tyName, fmt.Sprintf("%s of %q into a %s that held 0x%08X (%s) gives %s; into a fresh variable it gives %s: the number a text denotes depends on the previous content of the destination", form.name, text, tyName, prefill, how, destHex(got), destHex(fresh)), line)
	}
}

func destHex(ans string) string {
	if f := strings.Fields(ans); len(f) == 2 && f[0] == "ok" {
		if v, err := strconv.ParseUint(f[1], 10, 32); err == nil {
			return fmt.Sprintf("0x%08X", v)
		}
	}
	return ans
}

func (e *regEnv) oracleDest(ctx *Ctx) {
	tyNames := make([]string, 0, len(e.types))
	for n := range e.types {
		tyNames = append(tyNames, n)
	}
	sort.Strings(tyNames)
	checked := 0
	for _, tyName := range tyNames {
		ty := e.types[tyName]
		var texts []string
		var fills []uint32
		if own, ok := e.live.enumTypes[tyName]; ok && ttlv.VerifIsEnum(ty) {
			names := make([]string, 0, len(e.live.enumsByName[own]))
			for n := range e.live.enumsByName[own] {
				names = append(names, n)
			}
			sort.Slice(names, func(i, j int) bool { return e.live.enumsByName[own][names[i]] < e.live.enumsByName[own][names[j]] })
			texts = append(texts, names...)
			texts = append(texts, "", "0", "1", "0x00000000", "0x00000001", "0X2", "0xFFFFFFFF", "4294967295", "Foo", "0xZZ", "4294967296")
			if len(names) > 0 {
				texts = append(texts, strings.ToLower(names[0]), " "+names[0], names[len(names)-1]+" ", names[0]+"x")
			}
			fills = []uint32{0xFFFFFFFF, 0x55555555, 1, 0x80000000}
			if len(names) > 1 {
				fills = append(fills, e.live.enumsByName[own][names[len(names)-1]], e.live.enumsByName[own][names[0]])
			}
		} else if own, ok := e.live.maskTypes[tyName]; ok && ttlv.VerifIsBitmask(ty) {
			var names []string
			for _, n := range e.live.masks[own] {
				if n != "" {
					names = append(names, n)
				}
			}
			texts = append(texts, names...)
			for i := 0; i+1 < len(names); i++ {
				texts = append(texts, names[i]+" "+names[i+1], names[i]+"|"+names[i+1], names[i+1]+" | "+names[i])
			}
			texts = append(texts, strings.Join(names, " "), strings.Join(names, "|"), strings.Join(names, " | "),
				"", " ", "|", " | ", "0", "0x0", "0x00000000", "1", "2", "3", "0x1", "0x00000003", "0x80000000", "0xFFFFFFFF", "-1", "2147483647",
				"Foo", "0xZZ", "4294967296")
			if len(names) > 0 {
				texts = append(texts, names[0]+" Foo", names[0]+"|Foo", "Foo "+names[0], names[0]+" 0x10", names[0]+" | 16", strings.ToLower(names[0]), names[0]+" "+names[0])
			}
			for _, t := range sortedTagKeys(e.live.masks) { // flags of the other masks
				if t != own {
					texts = append(texts, e.live.masks[t]...)
				}
			}
			fills = []uint32{0xFFFFFFFF, 0x55555555, 0xAAAAAAAA, 1, 2, 0xF, 0x80000000, 0x7FFFFFFF}
		} else {
			continue
		}
		checked++
		for _, form := range destForms {
			for _, text := range texts {
				for _, p := range fills {
					e.destCheck(ctx, tyName, form, p, text, "fixed pattern")
				}
				// the complement of what the text denotes: every bit the read must clear is set, every bit it must set is clear
				own := e.live.enumTypes[tyName] | e.live.maskTypes[tyName]
				if f := strings.Fields(guardStr("fresh", func() string { return form.read(ty, own, nil, text) })); len(f) == 2 && f[0] == "ok" {
					if v, err := strconv.ParseUint(f[1], 10, 32); err == nil {
						e.destCheck(ctx, tyName, form, ^uint32(v), text, "complement of the expected result")
					}
				}
			}
			// one variable reused over the whole sequence of texts, forwards then backwards: the destination holds
			// whatever the previous read left (also after a failed read)
			e.destChain(ctx, tyName, form, texts)
		}
	}
	ctx.Res.Count(fmt.Sprintf("oracle.dest.types=%d", checked))
	if all := len(e.dump.EnumTypes) + len(e.dump.BitmaskTypes); all == 0 || checked*2 < all {
		ctx.Res.Fail(fmt.Sprintf("lost evidence: the destination oracle reached %d of the %d registered enumeration / mask Go types", checked, all))
	}
}

// destChain: ONE destination of the form reused for a whole sequence of reads.
func (e *regEnv) destChain(ctx *Ctx, tyName string, form destForm, texts []string) {
	ty := e.types[tyName]
	own := e.live.enumTypes[tyName] | e.live.maskTypes[tyName]
	seq := append([]string{}, texts...)
	for i := len(texts) - 1; i >= 0; i-- {
		seq = append(seq, texts[i])
	}
	held := uint32(0) // what the reused variable holds
	for i, text := range seq {
		before := held
		var after uint32
		got := guardStr("chain "+form.name, func() string {
			// the form reads into a destination pre-filled with what the previous read left
			r := form.read(ty, own, &before, text)
			return r
		})
		fresh := guardStr("fresh "+form.name, func() string { return form.read(ty, own, nil, text) })
		if f := strings.Fields(got); len(f) == 2 && f[0] == "ok" {
			v, _ := strconv.ParseUint(f[1], 10, 32)
			after = uint32(v)
		} else {
			after = before // a failed read: keep the previous content (what it really holds is not judged)
		}
		held = after
		ctx.Res.Count("oracle.dest.chain")
		if got != fresh {
			line := fmt.Sprintf("#reg.dest %s %s %d %s", form.name, regHex(tyName), before, regHex(text))
			ctx.current = line
			e.violate(ctx, "C17", "destination-independent", "dest:"+form.name+":"+tyName, fmt.Sprintf("%s: read number %d of a sequence into ONE reused %s: %q read while the variable held 0x%08X (left by the previous read) gives %s; into a fresh variable it gives %s", form.name, i+1, tyName, text, before, destHex(got), destHex(fresh)), line)
			held = 0
			if f := strings.Fields(fresh); len(f) == 2 && f[0] == "ok" {
				v, _ := strconv.ParseUint(f[1], 10, 32)
				held = uint32(v)
			}
		}
	}
}

// replayScope evaluates one `#reg.scope …` / `#reg.dest …` line; reports whether the line was one of them.
func (e *regEnv) replayScope(ctx *Ctx, f []string) bool {
	num := func(i int) (int, bool) {
		if i >= len(f) {
			return 0, false
		}
		v, err := strconv.ParseInt(f[i], 10, 64)
		return int(v), err == nil
	}
	txt := func(i int) (string, bool) {
		if i >= len(f) {
			return "", false
		}
		return regUnhex(f[i])
	}
	switch f[0] {
	case "#reg.scope":
		if len(f) < 2 {
			return true
		}
		switch f[1] {
		case "enumbyname":
			t, ok1 := num(2)
			s, ok2 := txt(3)
			if ok1 && ok2 {
				e.scopeEnumLookup(ctx, t, s, scopeManyReps)
			}
		case "enumname":
			t, ok1 := num(2)
			v, ok2 := num(3)
			if ok1 && ok2 {
				e.scopeEnumName(ctx, t, uint32(v))
			}
		case "maskbyname":
			t, ok1 := num(2)
			s, ok2 := txt(3)
			if ok1 && ok2 {
				e.scopeMaskLookup(ctx, t, s, scopeManyReps)
			}
		case "read":
			t, ok1 := num(3)
			s, ok2 := txt(4)
			if ok1 && ok2 && len(f) > 2 {
				e.scopeReader(ctx, f[2], t, s, scopeManyReps)
			}
		}
		return true
	case "#reg.dest":
		if len(f) < 4 {
			return true
		}
		ty, ok1 := txt(2)
		p, ok2 := num(3)
		s := ""
		ok3 := true
		if len(f) > 4 {
			s, ok3 = txt(4)
		}
		if ok1 && ok2 && ok3 {
			for _, form := range destForms {
				if form.name == f[1] {
					e.destCheck(ctx, ty, form, uint32(p), s, "replayed")
				}
			}
		}
		return true
	}
	return false
}
