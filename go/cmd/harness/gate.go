package main

import (
	"bytes"
	"encoding/json"
	"fmt"
	"reflect"
	"regexp"
	"sort"
	"strconv"
	"strings"

	kmip "github.com/ovh/kmip-go"
	"github.com/ovh/kmip-go/ttlv"

	"verifharness/internal/model"
	"verifharness/internal/report"
	"verifharness/internal/tree"
)

// The `gate` engine: impl-side oracle of C05 (version gating), independent of the library's struct
// annotations: a PINNED table says in which protocol version each version-dependent element appears.
// SINGLE SOURCE: the table is lean/KmipModel/Pinned/Introduced.lean — the very definition the Lean theorems
// speak about; the engine asks the compiled model for it (`gate.pinned`), it has no copy of its own.

type gateKey struct {
	parent int // struct tag, or 1000000 + 2*op + direction for operation payloads
	child  int
	occ    int // position: number of earlier FIELDS of the parent with the same tag
}

type ver struct{ maj, min int }

func (a ver) lt(b ver) bool { return a.maj < b.maj || (a.maj == b.maj && a.min < b.min) }
func (a ver) String() string { return fmt.Sprintf("%d.%d", a.maj, a.min) }

func payloadKey(op uint32, response bool) int {
	k := 1000000 + 2*int(op)
	if response {
		k++
	}
	return k
}

type pinnedTable struct {
	rows   map[gateKey]ver
	maxOcc map[[2]int]int // (parent, child) -> highest pinned occurrence
	keys   []gateKey      // in table order
}

// loadPinned fetches Pinned.introduced from the model executable.
func loadPinned() (*pinnedTable, error) {
	ans, err := model.Run([]string{"gate.pinned"})
	if err != nil {
		return nil, err
	}
	f := strings.Fields(ans[0])
	if len(f) < 2 || f[0] != "ok" {
		return nil, fmt.Errorf("gate.pinned: unexpected answer %q", ans[0])
	}
	t := &pinnedTable{rows: map[gateKey]ver{}, maxOcc: map[[2]int]int{}}
	for _, tok := range f[1:] {
		p := strings.Split(tok, ":")
		if len(p) != 5 {
			return nil, fmt.Errorf("gate.pinned: bad row %q", tok)
		}
		var n [5]int
		for i, s := range p {
			v, err := strconv.Atoi(s)
			if err != nil {
				return nil, fmt.Errorf("gate.pinned: bad row %q", tok)
			}
			n[i] = v
		}
		k := gateKey{n[0], n[1], n[2]}
		if _, dup := t.rows[k]; dup {
			return nil, fmt.Errorf("gate.pinned: duplicate row %q", tok)
		}
		t.rows[k] = ver{n[3], n[4]}
		t.keys = append(t.keys, k)
		if n[2] > t.maxOcc[[2]int{n[0], n[1]}] {
			t.maxOcc[[2]int{n[0], n[1]}] = n[2]
		}
	}
	return t, nil
}

// gateStats: per-row coverage accounting.
type gateStats struct {
	removed map[gateKey]int // the row removed an element (version before its introduction)
	kept    map[gateKey]int // the row's element was present and in range
}

func (k gateKey) String() string { return fmt.Sprintf("%d.0x%06X.%d", k.parent, k.child, k.occ) }

// filterTree removes from t (an encoding made at a version where everything is in range) every element
// the pinned table introduces after v. response: direction of the message; op: operation of the
// enclosing batch item (0 outside).
func (pt *pinnedTable) filterTree(t *tree.Item, v ver, response bool, st *gateStats) *tree.Item {
	return pt.filterTreeA(t, v, response, 0, 0, st)
}

var tagByName map[string]int

func tagNamed(name string) (int, bool) {
	if tagByName == nil {
		tagByName = map[string]int{}
		for tg := 0x420001; tg < 0x420200; tg++ {
			if n := ttlv.TagString(tg); n != "" && !strings.HasPrefix(n, "0x") {
				if _, dup := tagByName[n]; !dup {
					tagByName[n] = tg
				}
			}
		}
	}
	t, ok := tagByName[name]
	return t, ok
}

func (pt *pinnedTable) filterTreeA(t *tree.Item, v ver, response bool, op uint32, attrParent int, st *gateStats) *tree.Item {
	if t.Kind != tree.KStruct {
		return t
	}
	out := &tree.Item{Kind: tree.KStruct, Tag: t.Tag}
	parent := t.Tag
	if t.Tag == kmip.TagRequestPayload || t.Tag == kmip.TagResponsePayload {
		parent = payloadKey(op, response)
	}
	curOp := op
	if t.Tag == kmip.TagBatchItem {
		for _, c := range t.Children {
			if c.Tag == kmip.TagOperation && c.Kind == tree.KEnum {
				curOp = uint32(c.Int)
			}
		}
	}
	// an Attribute's value structure is the one named by its Attribute Name (it travels under the Attribute Value tag)
	attrValueParent := 0
	if t.Tag == kmip.TagAttribute {
		for _, c := range t.Children {
			if c.Tag == kmip.TagAttributeName && c.Kind == tree.KText {
				name := strings.NewReplacer(" ", "", ".", "_", "#", "_").Replace(string(c.Data))
				if tg, ok := tagNamed(name); ok {
					attrValueParent = tg
				}
			}
		}
	}
	if t.Tag == kmip.TagAttributeValue && attrParent != 0 {
		parent = attrParent
	}
	seen := map[int]int{} // child tag -> number of earlier children with that tag
	for _, c := range t.Children {
		// the field (occurrence) a wire element belongs to: fields before the last one with a given tag hold
		// one element each, the last one holds all the remaining ones
		occ := seen[c.Tag]
		seen[c.Tag]++
		if m, ok := pt.maxOcc[[2]int{parent, c.Tag}]; ok && occ > m {
			occ = m
		} else if !ok {
			occ = 0
		}
		k := gateKey{parent, c.Tag, occ}
		if intro, ok := pt.rows[k]; ok {
			if v.lt(intro) {
				if st != nil {
					st.removed[k]++
				}
				continue
			}
			if st != nil {
				st.kept[k]++
			}
		}
		out.Children = append(out.Children, pt.filterTreeA(c, v, response, curOp, attrValueParent, st))
	}
	return out
}

func setVersionItems(t *tree.Item, v ver) {
	// the message header's ProtocolVersion (first child of the first child of the root)
	if len(t.Children) > 0 && len(t.Children[0].Children) > 0 && t.Children[0].Children[0].Tag == kmip.TagProtocolVersion {
		pv := t.Children[0].Children[0]
		if len(pv.Children) == 2 {
			pv.Children[0].Int, pv.Children[1].Int = int64(v.maj), int64(v.min)
		}
	}
}

// ---- element skeletons: which element (tag) sits where, at every depth — what C05 speaks about -------------

func skelTree(it *tree.Item, sb *strings.Builder) {
	if it.Kind != tree.KStruct {
		fmt.Fprintf(sb, "%X", it.Tag)
		return
	}
	fmt.Fprintf(sb, "(%X", it.Tag)
	for _, c := range it.Children {
		sb.WriteByte(' ')
		skelTree(c, sb)
	}
	sb.WriteByte(')')
}

func skelOfTree(it *tree.Item) string {
	var sb strings.Builder
	skelTree(it, &sb)
	return sb.String()
}

func textTag(s string) (int, error) {
	if strings.HasPrefix(s, "0x") {
		v, err := strconv.ParseUint(s[2:], 16, 32)
		return int(v), err
	}
	if t, ok := tagNamed(s); ok {
		return t, nil
	}
	return 0, fmt.Errorf("unknown tag name %q", s)
}

// skelOfXML reads an XML document with encoding/xml (independent of the library's reader).
func skelOfXML(doc []byte) (string, error) {
	roots, err := parseXMLNodes(doc)
	if err != nil {
		return "", err
	}
	if len(roots) != 1 {
		return "", fmt.Errorf("%d root elements", len(roots))
	}
	var sb strings.Builder
	var walk func(n *xnode) error
	walk = func(n *xnode) error {
		name := n.Name
		if name == "TTLV" {
			name = n.Attrs["tag"]
		}
		tg, err := textTag(name)
		if err != nil {
			return err
		}
		if ty, has := n.Attrs["type"]; has && ty != "Structure" {
			fmt.Fprintf(&sb, "%X", tg)
			return nil
		}
		fmt.Fprintf(&sb, "(%X", tg)
		for _, c := range n.Children {
			sb.WriteByte(' ')
			if err := walk(c); err != nil {
				return err
			}
		}
		sb.WriteByte(')')
		return nil
	}
	if err := walk(roots[0]); err != nil {
		return "", err
	}
	return sb.String(), nil
}

// skelOfJSON reads a JSON document with encoding/json (independent of the library's reader).
func skelOfJSON(doc []byte) (string, error) {
	var root any
	d := json.NewDecoder(bytes.NewReader(doc))
	d.UseNumber()
	if err := d.Decode(&root); err != nil {
		return "", err
	}
	var sb strings.Builder
	var walk func(v any) error
	walk = func(v any) error {
		o, ok := v.(map[string]any)
		if !ok {
			return fmt.Errorf("element is not an object")
		}
		name, _ := o["tag"].(string)
		tg, err := textTag(name)
		if err != nil {
			return err
		}
		if ty, has := o["type"]; has && ty != "Structure" {
			fmt.Fprintf(&sb, "%X", tg)
			return nil
		}
		kids, ok := o["value"].([]any)
		if !ok && o["value"] != nil {
			return fmt.Errorf("structure value is not an array")
		}
		fmt.Fprintf(&sb, "(%X", tg)
		for _, c := range kids {
			sb.WriteByte(' ')
			if err := walk(c); err != nil {
				return err
			}
		}
		sb.WriteByte(')')
		return nil
	}
	if err := walk(root); err != nil {
		return "", err
	}
	return sb.String(), nil
}

var (
	xmlMajorRe  = regexp.MustCompile(`(<ProtocolVersionMajor type="Integer" value=")-?[0-9]+(")`)
	xmlMinorRe  = regexp.MustCompile(`(<ProtocolVersionMinor type="Integer" value=")-?[0-9]+(")`)
	jsonMajorRe = regexp.MustCompile(`("tag": ?"ProtocolVersionMajor", ?"type": ?"Integer", ?"value": ?)-?[0-9]+`)
	jsonMinorRe = regexp.MustCompile(`("tag": ?"ProtocolVersionMinor", ?"type": ?"Integer", ?"value": ?)-?[0-9]+`)
)

func replaceFirst(re *regexp.Regexp, doc []byte, repl string) ([]byte, bool) {
	loc := re.FindSubmatchIndex(doc)
	if loc == nil {
		return doc, false
	}
	var out []byte
	out = append(out, doc[:loc[0]]...)
	out = re.Expand(out, []byte(repl), doc, loc)
	out = append(out, doc[loc[1]:]...)
	return out, true
}

// patchTextVersion rewrites the header's ProtocolVersion (the first one of the document) to v.
func patchTextVersion(codec string, doc []byte, v ver) ([]byte, bool) {
	var ok1, ok2 bool
	if codec == "xml" {
		doc, ok1 = replaceFirst(xmlMajorRe, doc, fmt.Sprintf("${1}%d${2}", v.maj))
		doc, ok2 = replaceFirst(xmlMinorRe, doc, fmt.Sprintf("${1}%d${2}", v.min))
	} else {
		doc, ok1 = replaceFirst(jsonMajorRe, doc, fmt.Sprintf("${1}%d", v.maj))
		doc, ok2 = replaceFirst(jsonMinorRe, doc, fmt.Sprintf("${1}%d", v.min))
	}
	return doc, ok1 && ok2
}

func init() {
	register(&Engine{
		Name: "gate",
		Rule: "request/response messages with EVERY field populated whatever the version (version-dependent ones included, inside nested structures, attributes and batches; the first batch item cycles through every registered operation x direction, attributes cycle through every standard name; 60% everything populated, 40% random subsets) encoded in binary, XML and JSON at each protocol version of {1.0 … 1.4} and of {0.0, 0.9, 1.5, 1.10, 2.0, 2.1, -1.3, 1.-1, 0.14, 0.(2^31-1), 2.(-2^31)}; the element tree at version V (binary: the independent parser's tree; XML/JSON: the element skeleton read with encoding/xml / encoding/json) must equal the tree at 1.4 with exactly the elements the pinned KMIP table (Pinned/Introduced.lean, served by the model: single source) introduces after V removed; the same expectation (binary tree; XML / JSON / human-readable text element skeleton) whatever the way the message is handed to the encoders — the four writers in turn, each meeting every way x version: Marshal{TTLV,XML,JSON,Text}, New{TTLV,XML,JSON,Text}Encoder().Any / TagAny, the same after Clear, nested in Encoder.Struct, after a 1.4 message on the same binary encoder without Clear, Stream.Send; message given as *T, T (by value: nothing addressable), **T, *any holding T or *T, []T, []*T, or as the field (T, *T, any holding T or *T) of a carrier struct passed by value or by pointer; every codec x way must have met `floor` messages with an element removed; the 1.4 bytes / documents with the header patched to V must decode to the full value; every pinned row must have removed and kept an element at least `floor` times; distinct = message x version; nontrivial = at least one element removed",
		Run:  runGate,
	})
}

func headerVersion(x any) *kmip.ProtocolVersion {
	switch m := x.(type) {
	case *kmip.RequestMessage:
		return &m.Header.ProtocolVersion
	case *kmip.ResponseMessage:
		return &m.Header.ProtocolVersion
	}
	return nil
}

// gateVersions: 1.0 … 1.4 (the quantifier of the property) and versions outside (the theorems speak about every pair).
// The last three separate the lexicographic order from every order computed on a single number mixing the two
// components (major*10+minor, major+minor/10, major<<16|minor ...): 0.14 and 0.(2^31-1) are below 1.0 whatever the
// minor, 2.(-2^31) is above 1.4 whatever the minor.
var gateVersions = []ver{{1, 0}, {1, 1}, {1, 2}, {1, 3}, {1, 4}, {0, 0}, {0, 9}, {1, 5}, {1, 10}, {2, 0}, {2, 1}, {-1, 3}, {1, -1},
	{0, 14}, {0, 2147483647}, {2, -2147483648}}

func gateViolate(ctx *Ctx, oracle, key, detail, line string) {
	ctx.Res.Violate(report.Violation{Property: "C05", Oracle: oracle, Key: "gate:" + key, Detail: detail, Line: line})
}

func gateKind(want, got string) string {
	switch {
	case len(got) > len(want):
		return "element-introduced-after-V-present"
	case len(got) < len(want):
		return "in-range-element-missing"
	}
	return "later-element-present-or-in-range-element-missing"
}

func runGate(ctx *Ctx) {
	s := getSchema()
	r := ctx.R
	pt, err := loadPinned()
	if err != nil {
		ctx.Res.Fail("cannot read the pinned introduction table from the model: " + err.Error())
		return
	}
	// the table is part of the evidence: one impl-only case per run documenting what was used
	ctx.Res.Count(fmt.Sprintf("gate.pinned-rows=%d", len(pt.keys)))
	st := &gateStats{removed: map[gateKey]int{}, kept: map[gateKey]int{}}
	fs := &gateFormStats{checked: map[string]int{}}
	reqT := planTarget{s.Roots["RequestMessage"], reflect.TypeFor[*kmip.RequestMessage](), 0}
	respT := planTarget{s.Roots["ResponseMessage"], reflect.TypeFor[*kmip.ResponseMessage](), 0}
	n := ctx.N(250, 5000)
	opSeq, attrSeq := 0, 0
	for i := 0; i < n; i++ {
		tg := reqT
		if i%2 == 1 {
			tg = respT
		}
		fill := 2
		if i%5 >= 3 {
			fill = 1 // random subsets of the (gated) fields present
		}
		// directed coverage: the first batch item of message i is operation (i/2) mod #ops, attributes cycle
		// through the standard names; text is kept XML/JSON-representable so that the same value goes
		// through the three encodings
		opSeq = i / 2
		p := &popCfg{r: r, s: s, fill: fill, respectGating: false, extTags: true, textMode: 2, opSeq: &opSeq, attrSeq: &attrSeq}
		x := reflect.New(tg.ty.Elem())
		p.populate(x.Elem())
		hv := headerVersion(x.Interface())
		*hv = kmip.V1_4
		full, pn := guard("MarshalTTLV", func() []byte { return ttlv.MarshalTTLV(x.Interface()) })
		if pn != "" {
			continue
		}
		fullTree, err := tree.Decode(full)
		if err != nil {
			continue
		}
		fullDocs := map[string][]byte{}
		for _, c := range textCodecs {
			doc, pn := guard("Marshal", func() []byte { return c.marshal(x.Interface()) })
			if pn == "" {
				fullDocs[c.name] = doc
			}
		}
		response := tg.dyn == respT.dyn
		for vi, v := range gateVersions {
			*hv = kmip.ProtocolVersion{ProtocolVersionMajor: int32(v.maj), ProtocolVersionMinor: int32(v.min)}
			val, _ := s.Render(x, s.Dyns[tg.dyn].Kind)
			line := fmt.Sprintf("plan.enc %d 0 %s", tg.dyn, val)
			ctx.current = line
			got, pn := guard("MarshalTTLV", func() []byte { return ttlv.MarshalTTLV(x.Interface()) })
			impl := "ok " + hexUp(got)
			if pn != "" {
				impl = "panic"
			}
			want := pt.filterTree(fullTree, v, response, st)
			setVersionItems(want, v)
			wantR := want.Render()
			nontrivial := wantR != fullTree.Render()
			ctx.Add(line, impl, nontrivial, "C05,C01")
			if pn != "" {
				gateViolate(ctx, "gating", "encoder-panic", "MarshalTTLV panicked at version "+v.String()+": "+pn, line)
				continue
			}
			gotTree, err := tree.Decode(got)
			if err != nil {
				ctx.Res.Violate(report.Violation{Property: "C03", Oracle: "independent-parse", Key: "gate:not-wellformed", Detail: err.Error(), Line: line})
				continue
			}
			binOK := true
			if gotR := gotTree.Render(); gotR != wantR {
				binOK = false
				gateViolate(ctx, "gating", gateKind(wantR, gotR), fmt.Sprintf("binary at version %s: %s", v, firstDiff(wantR, gotR)), line)
			}
			if vi < 5 {
				ctx.Res.Count("gate.v" + v.String())
			} else {
				ctx.Res.Count("gate.outside-1.0-1.4.v" + v.String())
			}
			if nontrivial {
				ctx.Res.Count("gate.nontrivial")
			}
			// ---- the same in XML and JSON: the element skeleton read by an independent reader ----
			wantSkel := skelOfTree(want)
			// ---- the same message through every other way of handing it to the encoders (gate_forms.go) ----
			rootTag := kmip.TagRequestMessage
			if response {
				rootTag = kmip.TagResponseMessage
			}
			for ci := range gateCodecs {
				// the four writers in turn: each of them meets every way x every version on a quarter of the
				// messages (the floor below is per codec x way)
				if (i+vi)%len(gateCodecs) != ci {
					continue
				}
				var base []byte
				if ci == 0 && binOK {
					base = got
				}
				gateForms(ctx, &gateCodecs[ci], x, rootTag, v, wantSkel, base, nontrivial, val, tg.dyn, fs)
			}
			if binOK && (i+vi)%len(gateCodecs) == 0 {
				gateSecondMessage(ctx, x, hv, v, full, got, nontrivial, val, tg.dyn, fs)
			}
			for _, c := range textCodecs {
				tline := fmt.Sprintf("#gate.text %s %d %s", c.name, tg.dyn, val)
				doc, pn := guard("Marshal", func() []byte { return c.marshal(x.Interface()) })
				if pn != "" {
					gateViolate(ctx, "gating-"+c.name, c.name+":encoder-panic", "encoder panicked at version "+v.String()+": "+pn, tline)
					continue
				}
				var gotSkel string
				var err error
				if c.name == "xml" {
					gotSkel, err = skelOfXML(doc)
				} else {
					gotSkel, err = skelOfJSON(doc)
				}
				if err != nil {
					// well-formedness of text documents is C04's business; say so once and go on
					ctx.Res.Count("gate.text." + c.name + ".unreadable")
					continue
				}
				if gotSkel != wantSkel {
					gateViolate(ctx, "gating-"+c.name, c.name+":"+gateKind(wantSkel, gotSkel), fmt.Sprintf("%s at version %s: %s", c.name, v, firstDiff(wantSkel, gotSkel)), tline)
				}
				ctx.Add(tline, "ok", nontrivial, "")
				ctx.Res.Count("gate.text." + c.name)
			}
			// ---- decoding is lenient: the full (1.4) element set under a version-V header is accepted and returned ----
			pt14, err := tree.Decode(full)
			if err == nil {
				setVersionItems(pt14, v)
				patched := pt14.Encode()
				dline := fmt.Sprintf("plan.dec %d 0 %s", tg.dyn, hexUp(patched))
				dimpl, _ := unmarshalInto(s, tg, append([]byte{}, patched...))
				ctx.Add(dline, dimpl, true, "C05,C02")
				wantVal := "ok " + val // same value, version fields = V
				if normContent(dimpl) != normContent(wantVal) {
					gateViolate(ctx, "lenient-decode", "later-element-not-returned", fmt.Sprintf("decoding at %s drops or rejects later-version elements: %s", v, firstDiff(normContent(wantVal), normContent(dimpl))), dline)
				}
			}
			for _, c := range textCodecs {
				doc14, ok := fullDocs[c.name]
				if !ok {
					continue
				}
				pdoc, ok := patchTextVersion(c.name, doc14, v)
				if !ok {
					ctx.Res.Count("gate.text." + c.name + ".unpatchable")
					continue
				}
				dline := fmt.Sprintf("#gate.textdec %s %d %s", c.name, tg.dyn, hexUp(pdoc))
				fresh := reflect.New(tg.ty.Elem())
				derr, pn := guard("Unmarshal", func() error { return c.unmarshal(pdoc, fresh.Interface()) })
				switch {
				case pn != "":
					gateViolate(ctx, "lenient-decode-"+c.name, c.name+":later-element-decode-panic", fmt.Sprintf("decoding the 1.4 element set under a %s header panicked: %s", v, pn), dline)
				case derr != nil:
					gateViolate(ctx, "lenient-decode-"+c.name, c.name+":later-element-rejected", fmt.Sprintf("decoding the 1.4 element set under a %s header is rejected: %v", v, derr), dline)
				default:
					fv := headerVersion(fresh.Interface())
					if int(fv.ProtocolVersionMajor) != v.maj || int(fv.ProtocolVersionMinor) != v.min {
						ctx.Res.Count("gate.text." + c.name + ".patch-missed")
						break
					}
					*fv = kmip.V1_4
					back, pn := guard("MarshalTTLV", func() []byte { return ttlv.MarshalTTLV(fresh.Interface()) })
					if pn != "" || !bytes.Equal(back, full) {
						gv, _ := s.Render(fresh, s.Dyns[tg.dyn].Kind)
						*hv = kmip.V1_4
						fv14, _ := s.Render(x, s.Dyns[tg.dyn].Kind)
						gateViolate(ctx, "lenient-decode-"+c.name, c.name+":later-element-not-returned", fmt.Sprintf("decoding the 1.4 element set under a %s header does not return the full value: %s", v, firstDiff(normContent(fv14), normContent(gv))), dline)
					}
				}
				ctx.Add(dline, "ok", true, "")
				ctx.Res.Count("gate.textdec." + c.name)
			}
		}
	}
	// ---- per-row coverage with a floor ----
	floor := ctx.N(1, 10)
	var low []string
	for _, k := range pt.keys {
		ctx.Res.Distribution["gate.row.removed."+k.String()] += st.removed[k]
		ctx.Res.Distribution["gate.row.kept."+k.String()] += st.kept[k]
		if st.removed[k] < floor || st.kept[k] < floor {
			low = append(low, fmt.Sprintf("%s(removed %d, kept %d)", k, st.removed[k], st.kept[k]))
		}
	}
	for _, k := range gateFormKeys() {
		ctx.Res.Distribution["gate.form.nontrivial."+k] += fs.checked[k]
		if fs.checked[k] < floor {
			low = append(low, fmt.Sprintf("gate.form.%s(%d)", k, fs.checked[k]))
		}
	}
	// the XML / JSON halves of the oracle must have run (they depend on reading the library's documents and on
	// patching the header version in them: if the document syntax changes, say so instead of silently skipping)
	for _, c := range textCodecs {
		for _, what := range []string{"gate.text.", "gate.textdec."} {
			if ctx.Res.Distribution[what+c.name] < n {
				low = append(low, fmt.Sprintf("%s%s(%d of at least %d)", what, c.name, ctx.Res.Distribution[what+c.name], n))
			}
		}
		// a header version that could not be patched into the document (or that the decoder did not see) makes
		// the lenient-decode oracle vacuous for that case (the document keeps its 1.4 header): never silently
		for _, what := range []string{".unpatchable", ".patch-missed"} {
			if k := ctx.Res.Distribution["gate.text."+c.name+what]; k > 0 {
				low = append(low, fmt.Sprintf("gate.text.%s%s(%d, must be 0)", c.name, what, k))
			}
		}
	}
	sort.Strings(low)
	if len(low) > 0 {
		ctx.Res.Fail(fmt.Sprintf("coverage floor %d not reached: %s", floor, strings.Join(low, ", ")))
	}
}
