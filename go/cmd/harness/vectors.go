package main

import (
	"bytes"
	"encoding/hex"
	"encoding/xml"
	"fmt"
	"math/big"
	"os"
	"path/filepath"
	"regexp"
	"sort"
	"strconv"
	"strings"
	"time"

	kmip "github.com/ovh/kmip-go"
	"github.com/ovh/kmip-go/ttlv"

	"verifharness/internal/report"
	"verifharness/internal/tree"
)

// The `vectors` engine: the OASIS conformance vectors shipped in /repo/kmiptest/testdata (and value /
// optional-element variations of them) are decoded by the library and encoded again as XML; an
// INDEPENDENT XML→tree converter (encoding/xml + the public registry lookups for names) reads both the
// vector's own element and the re-encoded one, and the two trees must be equal: every element and
// value reproduced, in the same order, nothing added, nothing dropped.

type xnode struct {
	Name     string
	Attrs    map[string]string
	Children []*xnode
}

func parseXMLNodes(b []byte) ([]*xnode, error) {
	d := xml.NewDecoder(bytes.NewReader(b))
	var stack []*xnode
	var roots []*xnode
	for {
		tok, err := d.Token()
		if err != nil {
			if err.Error() == "EOF" {
				break
			}
			return nil, err
		}
		switch t := tok.(type) {
		case xml.StartElement:
			n := &xnode{Name: t.Name.Local, Attrs: map[string]string{}}
			for _, a := range t.Attr {
				n.Attrs[a.Name.Local] = a.Value
			}
			if len(stack) == 0 {
				roots = append(roots, n)
			} else {
				p := stack[len(stack)-1]
				p.Children = append(p.Children, n)
			}
			stack = append(stack, n)
		case xml.EndElement:
			stack = stack[:len(stack)-1]
		}
	}
	return roots, nil
}

func (n *xnode) write(sb *strings.Builder) {
	sb.WriteString("<" + n.Name)
	keys := make([]string, 0, len(n.Attrs))
	for k := range n.Attrs {
		keys = append(keys, k)
	}
	sort.Strings(keys)
	for _, k := range keys {
		sb.WriteString(" " + k + `="`)
		xml.EscapeText(sb, []byte(n.Attrs[k]))
		sb.WriteString(`"`)
	}
	if len(n.Children) == 0 {
		sb.WriteString("/>")
		return
	}
	sb.WriteString(">")
	for _, c := range n.Children {
		c.write(sb)
	}
	sb.WriteString("</" + n.Name + ">")
}

func (n *xnode) String() string {
	var sb strings.Builder
	n.write(&sb)
	return sb.String()
}

// enum tag to use for names: the element's own tag, except for attribute values whose enumeration
// is determined by the attribute name (handled by the caller through enumCtx).
func parseNum(s string, bits int) (int64, error) {
	if strings.HasPrefix(s, "0x") {
		u, err := strconv.ParseUint(s[2:], 16, bits)
		return int64(u), err
	}
	return strconv.ParseInt(s, 10, bits)
}

// toTree converts an XML element into a generic TTLV tree, independently of the library's XML reader.
// enumTag: the enumeration/mask whose names apply to this element's value (0 = the element's own tag).
func (n *xnode) toTree(enumTag int) (*tree.Item, error) {
	var tag int
	if n.Name == "TTLV" {
		t, err := parseNum(n.Attrs["tag"], 32)
		if err != nil {
			return nil, fmt.Errorf("bad tag %q", n.Attrs["tag"])
		}
		tag = int(t)
	} else {
		t, found := vecTagOfName(n.Name)
		if !found {
			return nil, fmt.Errorf("unknown element name %q", n.Name)
		}
		tag = t
	}
	if enumTag == 0 {
		enumTag = tag
		if alias, ok := enumAlias()[tag]; ok {
			enumTag = alias
		}
	}
	it := &tree.Item{Tag: tag}
	val := n.Attrs["value"]
	switch n.Attrs["type"] {
	case "", "Structure":
		it.Kind = tree.KStruct
		// inside an Attribute, the value's enumeration is named by the AttributeName
		attrEnum := 0
		for _, c := range n.Children {
			ce := 0
			if c.Name == "AttributeName" {
				name := strings.ReplaceAll(c.Attrs["value"], " ", "")
				name = strings.ReplaceAll(name, ".", "_")
				name = strings.ReplaceAll(name, "#", "_")
				if t, ok := vecTagOfName(name); ok {
					attrEnum = t
				}
			}
			if c.Name == "AttributeValue" {
				ce = attrEnum
			}
			ci, err := c.toTree(ce)
			if err != nil {
				return nil, err
			}
			it.Children = append(it.Children, ci)
		}
	case "Integer":
		it.Kind = tree.KInt
		if v, err := parseNum(val, 32); err == nil {
			it.Int = int64(int32(v))
		} else {
			// bit mask written by names
			var m int32
			for _, p := range strings.FieldsFunc(val, func(r rune) bool { return r == ' ' || r == '|' }) {
				if strings.HasPrefix(p, "0x") {
					u, err := strconv.ParseUint(p[2:], 16, 32)
					if err != nil {
						return nil, err
					}
					m |= int32(uint32(u))
					continue
				}
				f, err := ttlv.BitmaskByStr(enumTag, p)
				if err != nil {
					return nil, fmt.Errorf("%s: %w", n.Name, err)
				}
				m |= f
			}
			it.Int = int64(m)
		}
	case "LongInteger":
		it.Kind = tree.KLong
		v, err := parseNum(val, 64)
		if err != nil {
			return nil, err
		}
		it.Int = v
	case "BigInteger":
		it.Kind = tree.KBig
		b, err := hex.DecodeString(val)
		if err != nil || len(b) == 0 {
			return nil, fmt.Errorf("bad big integer %q", val)
		}
		v := new(big.Int).SetBytes(b)
		if b[0]&0x80 != 0 {
			v.Sub(v, new(big.Int).Lsh(big.NewInt(1), uint(8*len(b))))
		}
		it.Big = v
	case "Enumeration":
		it.Kind = tree.KEnum
		if v, err := parseNum(val, 32); err == nil {
			it.Int = v
		} else {
			v, err := ttlv.EnumByName(enumTag, val)
			if err != nil {
				return nil, fmt.Errorf("%s: %w", n.Name, err)
			}
			it.Int = int64(v)
		}
	case "Boolean":
		it.Kind = tree.KBool
		it.Bool = val == "true"
	case "TextString":
		it.Kind, it.Data = tree.KText, []byte(val)
	case "ByteString":
		it.Kind = tree.KBytes
		b, err := hex.DecodeString(val)
		if err != nil {
			return nil, err
		}
		it.Data = b
	case "DateTime":
		it.Kind = tree.KDate
		t, err := time.Parse(time.RFC3339, val)
		if err != nil {
			return nil, err
		}
		it.Int = t.Unix()
	case "Interval":
		it.Kind = tree.KInterval
		v, err := parseNum(val, 32)
		if err != nil {
			return nil, err
		}
		it.Int = v
	default:
		return nil, fmt.Errorf("unknown type %q", n.Attrs["type"])
	}
	return it, nil
}

var vecNameTags map[string]int

// vecTagOfName: element name → tag through the public ttlv.TagString over the standard tag range (the last tag
// wins for a name that occurs twice, the first for toTree's own lookup: a name registered twice is C17's business).
func vecTagOfName(name string) (int, bool) {
	if vecNameTags == nil {
		vecNameTags = map[string]int{}
		for t := 0x4201FF; t >= 0x420001; t-- {
			vecNameTags[ttlv.TagString(t)] = t
		}
	}
	t, ok := vecNameTags[name]
	return t, ok
}

var enumAliasMap map[int]int

// enumAlias maps a field tag to the tag of the enumeration / bit mask TYPE stored in it when they differ
// (e.g. MaskGeneratorHashingAlgorithm holds a HashingAlgorithm), read from the reflected schema.
func enumAlias() map[int]int {
	if enumAliasMap != nil {
		return enumAliasMap
	}
	enumAliasMap = map[int]int{}
	for _, d := range getSchema().Structs {
		for _, f := range d.Fields {
			k := f.Kind
			for k.Elem != nil {
				k = *k.Elem
			}
			if (k.K == "enum" || k.K == "mask") && k.Tag != f.Tag && f.Tag != 0 {
				enumAliasMap[f.Tag] = k.Tag
			}
		}
	}
	return enumAliasMap
}

// supportedOps reports whether every batch item of the message names an operation with registered payloads.
func supportedOps(n *xnode) bool {
	ok := true
	reg := map[string]bool{}
	for _, op := range getSchema().Ops {
		reg[ttlv.EnumName(kmip.TagOperation, op.Op)] = true
	}
	var walk func(x *xnode)
	walk = func(x *xnode) {
		if x.Name == "Operation" && !reg[x.Attrs["value"]] {
			ok = false
		}
		for _, c := range x.Children {
			walk(c)
		}
	}
	walk(n)
	return ok
}

var (
	vecNowRe = regexp.MustCompile(`"\$NOW((\-|\+)\d+)?"`)
	vecVarRe = regexp.MustCompile(`"\$[A-Za-z0-9_]+"`)
)

// vectorCase judges one message; it reports whether the message was accepted and reproduced.
func vectorCase(ctx *Ctx, file string, idx int, n *xnode, origin string) bool {
	line := fmt.Sprintf("#vector %s %d %s %s", file, idx, origin, hexUp([]byte(n.String())))
	ctx.current = line
	want, err := n.toTree(0)
	if err != nil {
		ctx.Res.Count("vector.unreadable." + strings.SplitN(origin, ".", 2)[0])
		if origin == "original" {
			ctx.Res.Count("vector.unreadable:" + err.Error())
		}
		return false // the independent reader cannot interpret the vector (names unknown to the registry…): not judged here
	}
	doc := []byte(n.String())
	var msg any
	if n.Name == "RequestMessage" {
		msg = &kmip.RequestMessage{}
	} else {
		msg = &kmip.ResponseMessage{}
	}
	derr, p := guard("UnmarshalXML", func() error { return ttlv.UnmarshalXML(doc, msg) })
	key := fmt.Sprintf("vectors:%s#%d", file, idx)
	switch {
	case origin == "spec":
		key = "vectors:spec-variation"
	case origin != "original":
		key = "vectors:variation"
	}
	outcome := "ok"
	good := false
	switch {
	case p != "":
		outcome = "panic"
		ctx.Res.Violate(report.Violation{Property: "C02", Oracle: "no-panic", Key: "xml:decode-panic:" + panicKey(p), Detail: "decoder panicked on a conformance vector: " + p, Line: line})
	case derr != nil:
		outcome = "err"
		if origin == "original" && supportedOps(n) {
			ctx.Res.Violate(report.Violation{Property: "C04", Oracle: "vector-accepted", Key: key + ":rejected", Detail: "a conformance vector is rejected: " + derr.Error(), Line: line})
		}
		if origin == "spec" {
			vecViolate(ctx, "vector-accepted", key+":rejected", "a conformance vector with optional elements added / removed as the specification allows is rejected: "+derr.Error(), line)
		}
	default:
		out, p := guard("MarshalXML", func() []byte { return ttlv.MarshalXML(msg) })
		if p != "" {
			ctx.Res.Violate(report.Violation{Property: "C04", Oracle: "vector-reencode", Key: key + ":encoder-panic", Detail: p, Line: line})
			break
		}
		nodes, err := parseXMLNodes(out)
		if err != nil || len(nodes) != 1 {
			ctx.Res.Violate(report.Violation{Property: "C04", Oracle: "well-formed", Key: key + ":not-well-formed", Detail: fmt.Sprint(err), Line: line})
			break
		}
		got, err := nodes[0].toTree(0)
		if err != nil {
			ctx.Res.Violate(report.Violation{Property: "C04", Oracle: "vector-reencode", Key: key + ":unreadable", Detail: err.Error(), Line: line})
			break
		}
		if !tree.Equal(want, got) {
			vecViolate(ctx, "vector-reproduced", key+":differs", "re-encoding does not reproduce the vector: "+firstDiff(want.Render(), got.Render()), line)
			break
		}
		good = true
		// same elements and values; and where the vector names an enumeration value or mask bits, so does the re-encoding
		if m := vecLexical(n, nodes[0]); m != "" {
			good = false
			vecViolate(ctx, "vector-lexical", key+":name-not-reproduced", "re-encoding does not reproduce the vector's lexical form: "+m, line)
		}
		// and the binary of the decoded message carries the same tree
		bin, p := guard("MarshalTTLV", func() []byte { return ttlv.MarshalTTLV(msg) })
		if p == "" {
			if bt, err := tree.Decode(bin); err != nil || !tree.Equal(bt, want) {
				good = false
				ctx.Res.Violate(report.Violation{Property: "C04", Oracle: "vector-binary", Key: key + ":binary-differs", Detail: "binary encoding of the decoded vector differs from the vector's tree", Line: line})
			}
		}
	}
	ctx.Add(line, outcome, true, "")
	ctx.Res.Count("vector." + origin + "." + outcome)
	return good
}

func init() {
	register(&Engine{
		Name: "vectors",
		Rule: "every RequestMessage/ResponseMessage element of the OASIS conformance vector files under /repo/kmiptest/testdata (v1.0..v1.4), read by an independent XML reader; optional-element variations directed by a specification order pinned in the harness (Key Block, Key Wrapping Data / Specification, Encryption / MAC Signature Key Information, Cryptographic Parameters, headers: every single optional element, pairs, all, added or removed at the specification position, on every distinct occurrence); optional elements removed / added as the vectors themselves show them; value variations of every scalar type (text incl. markup and non-ASCII, integers, long and big integers, enumerations by other names / in hexadecimal / unregistered, masks, byte strings, dates incl. zone forms, intervals); every number of a vector respelled in another legal lexical form (leading zeros, explicit +, white space, hexadecimal, other case of hexBinary digits; oracle vector-lexical-form: binary TTLV byte-identical to that of the vector as shipped, or rejection - a violation too for forms of the xsd lexical space -, never another value); decoded by the library, re-encoded to XML and to binary, and compared tree-for-tree with the (varied) vector, names of enumeration values and mask bits compared as text; floors on the number of vectors judged and on every variation class; distinct = distinct message; nontrivial = all",
		Run:  runVectors,
	})
}

func runVectors(ctx *Ctx) {
	root := "/repo/kmiptest/testdata"
	// dates are compared as instants, but pin what the engine assumes rather than inherit the machine's zone
	savedLocal := time.Local
	time.Local = time.UTC
	defer func() { time.Local = savedLocal }()
	if len(ctx.Replay) > 0 {
		for _, l := range ctx.Replay {
			if g := strings.Split(l, " "); len(g) == 7 && g[0] == "#vectorform" {
				b0, err0 := hex.DecodeString(g[5])
				b1, err1 := hex.DecodeString(g[6])
				n0, err2 := parseXMLNodes(b0)
				n1, err3 := parseXMLNodes(b1)
				if err0 == nil && err1 == nil && err2 == nil && err3 == nil && len(n0) == 1 && len(n1) == 1 {
					idx, _ := strconv.Atoi(g[2])
					vectorFormCase(ctx, g[1], idx, n0[0], n1[0], g[3], g[4] == "must")
				}
				continue
			}
			f := strings.SplitN(l, " ", 5)
			if len(f) != 5 || f[0] != "#vector" {
				continue
			}
			b, err := hex.DecodeString(f[4])
			if err != nil {
				continue
			}
			nodes, err := parseXMLNodes(b)
			if err != nil || len(nodes) != 1 {
				continue
			}
			idx, _ := strconv.Atoi(f[2])
			vectorCase(ctx, f[1], idx, nodes[0], f[3])
		}
		return
	}
	files, _ := filepath.Glob(root + "/*/*.xml")
	sort.Strings(files)
	if len(files) == 0 {
		ctx.Res.Fail("no conformance vectors found under " + root)
		return
	}
	now := time.Unix(1700000000, 0).UTC()
	type vmsg struct {
		rel string
		idx int
		n   *xnode
	}
	var msgs []vmsg
	var good []*xnode
	total := 0
	st := newVecStats()
	// pass 1: every vector message as shipped
	for _, f := range files {
		b, err := os.ReadFile(f)
		if err != nil {
			ctx.Res.Fail(err.Error())
			continue
		}
		b = vecNowRe.ReplaceAllFunc(b, func(m []byte) []byte {
			off, _ := strconv.ParseInt(strings.Trim(string(m[5:]), `"`), 10, 64)
			return []byte(`"` + now.Add(time.Duration(off)*time.Second).Format(time.RFC3339) + `"`)
		})
		b = vecVarRe.ReplaceAll(b, []byte(`"DEADBEEFCAFE"`))
		roots, err := parseXMLNodes(b)
		if err != nil || len(roots) != 1 {
			ctx.Res.Fail(fmt.Sprintf("%s: %v", f, err))
			continue
		}
		rel, _ := filepath.Rel(root, f)
		for i, m := range roots[0].Children {
			if m.Name != "RequestMessage" && m.Name != "ResponseMessage" {
				continue
			}
			total++
			if vectorCase(ctx, rel, i, m, "original") {
				// only messages the library accepts and reproduces are varied: a variation of a message of an unsupported
				// operation says nothing
				msgs = append(msgs, vmsg{rel, i, m})
				good = append(good, m)
				st.learn(m)
			}
		}
	}
	st.finish(good)
	ctx.Res.Count(fmt.Sprintf("vector.files=%d", len(files)))
	// the engine judges nothing when the independent reader cannot read the vectors or the library rejects them: floors
	d := ctx.Res.Distribution
	if n := total; n < 5000 || d["vector.unreadable.original"]*100 > n || len(good)*100 < n*95 {
		ctx.Res.Fail(fmt.Sprintf("vectors: %d messages found, %d unreadable by the independent reader, %d accepted and reproduced: too few are judged (expected ≥ 5000 messages, ≤ 1%% unreadable, ≥ 95%% reproduced)", n, d["vector.unreadable.original"], len(good)))
	}
	// pass 2: optional elements added / removed as the specification allows, on every distinct occurrence of a pinned structure
	maxPairs := 24
	if ctx.Thor {
		maxPairs = 400
	}
	for _, vm := range msgs {
		ver := vecVersion(vm.n)
		var locs []vecLoc
		var keys []string
		vecWalk(vm.n, func(n, parent *xnode, loc vecLoc) {
			key := vecSpecKey(vm.n, n, parent)
			if _, ok := vecSpec[key]; !ok || (n.Attrs["type"] != "" && n.Attrs["type"] != "Structure") {
				return
			}
			if m := vecSpecCheck(key, n); m != "" {
				if !st.specSeen["bad:"+m] {
					st.specSeen["bad:"+m] = true
					ctx.Res.Fail("vectors: the pinned specification order disagrees with " + vm.rel + ": " + m)
				}
				return
			}
			k := vm.n.Name + "|" + strconv.Itoa(ver) + "|" + n.String()
			if key != n.Name {
				// context-keyed structures (batch items, payloads) occur thousands of times with different content: one
				// occurrence per shape (which children are present) and version
				k = key + "|" + strconv.Itoa(ver)
				for _, c := range n.Children {
					k += "|" + c.Name
				}
			}
			if parent != nil {
				k += "|" + parent.Name
			}
			if st.specSeen[k] {
				return
			}
			st.specSeen[k] = true
			locs = append(locs, loc)
			keys = append(keys, key)
		})
		for j, loc := range locs {
			ctx.Res.Count("vector.spec-node." + keys[j])
			for _, v := range vecSpecVariants(keys[j], vm.n, loc.path, ver, maxPairs, ctx.R) {
				vectorCase(ctx, vm.rel, vm.idx, v, "spec")
			}
		}
	}
	// pass 3: value variations and optional elements as the vectors themselves show them
	every := 2
	if ctx.Thor {
		every = 1
	}
	for i, vm := range msgs {
		if i%every != 0 {
			continue
		}
		wants := []string{"", ""}
		if ctx.Thor {
			wants = []string{"remove", "add", "TextString", "Integer", "Enumeration", "ByteString", "DateTime", "", ""}
		}
		// the types few vectors contain are varied wherever they occur
		wants = append(wants, "BigInteger", "LongInteger", "Interval", "Boolean")
		for _, w := range wants {
			if v, kind := st.vary(ctx.R, vm.n, w); v != nil {
				vectorCase(ctx, vm.rel, vm.idx, v, "var."+kind)
			}
		}
	}
	// pass 4: every big integer of the vectors, at the byte boundaries of both signs (few vectors carry one)
	for _, vm := range msgs {
		var locs []vecLoc
		vecWalk(vm.n, func(n, parent *xnode, loc vecLoc) {
			if n.Attrs["type"] == "BigInteger" {
				locs = append(locs, loc)
			}
		})
		for j, loc := range locs {
			for k, txt := range vecBigTexts {
				if !ctx.Thor && (j+k)%3 != 0 {
					continue
				}
				v := vecClone(vm.n)
				vecAt(v, loc.path).Attrs["value"] = txt
				vectorCase(ctx, vm.rel, vm.idx, v, "var.value.BigInteger")
			}
		}
	}
	// pass 5: the numbers of a vector respelled in other legal lexical forms (leading zeros, explicit sign, case of
	// hexadecimal digits, white space): byte-identical binary TTLV or rejection, never another value
	stride := 2
	if ctx.Thor {
		stride = 1
	}
	formSeen := map[string]bool{}
	for i, vm := range msgs {
		for j, f := range vecForms {
			if (i+j)%stride != 0 {
				continue
			}
			v := vecApplyForm(vm.n, f)
			if v == nil {
				continue
			}
			k := v.String()
			if formSeen[k] {
				continue
			}
			formSeen[k] = true
			vectorFormCase(ctx, vm.rel, vm.idx, vm.n, v, f.name, f.must)
		}
	}
	for _, k := range []string{"vector.form.must.ok", "vector.form:dec-zero1.ok", "vector.form:dec-plus.ok", "vector.form:hexbin-other-case.ok"} {
		if d[k] < 100 {
			ctx.Res.Fail(fmt.Sprintf("vectors: only %d cases of class %s (floor 100)", d[k], k))
		}
	}
	for _, k := range []string{"vector.spec.ok", "vector.var.remove.ok", "vector.var.add.ok", "vector.var.value.Enumeration.ok", "vector.var.value.BigInteger.ok", "vector.var.value.TextString.ok", "vector.var.value.Integer.ok", "vector.var.value.DateTime.ok"} {
		if d[k] < 20 {
			ctx.Res.Fail(fmt.Sprintf("vectors: only %d cases of class %s (floor 20)", d[k], k))
		}
	}
}
