package main

// Engine `registry` (property C17): the name <-> number registries of tags, enumerations and bit masks
// and every text conversion built on them, compared with the Lean model answering from the GENERATED
// tables, plus the impl-side oracles of C17 (independent of the model). The comparison with the PINNED
// registry, the Go-type -> tag maps and the typed values are in registry_pin.go.

import (
	"bytes"
	"encoding"
	"encoding/hex"
	"encoding/json"
	"encoding/xml"
	"fmt"
	"os"
	"path/filepath"
	"reflect"
	"regexp"
	"sort"
	"strconv"
	"strings"

	kmip "github.com/ovh/kmip-go"
	"github.com/ovh/kmip-go/ttlv"

	"verifharness/internal/report"
)

func init() {
	register(&Engine{
		Name: "registry",
		Rule: "EXHAUSTIVE over the live registry (every tag, every value of every enumeration, every flag of every mask, in both directions) x every public producer/consumer (TagString, XML/JSON/text writers and XML/JSON readers, EnumName/EnumByName, MarshalText/UnmarshalText of every enum and mask Go type, AppendBitmaskString/BitmaskByStr); EXHAUSTIVE over the pinned registry handed over by the Lean driver (every pinned tag, enumeration value, flag and Go type answered by the public functions as pinned; additions = extension, counted, not a violation); typed values: every enum/mask Go type (found by reflection over the message types) x {own tag, AttributeValue, element tags the library's structures use, another enumeration's tag, a mask tag, an unregistered tag} x {every registered value, edges, random} through Encoder.TagAny (XML, JSON, text) and Decoder.TagAny (XML, JSON), and every enum/mask-valued attribute as a real kmip.Attribute; plus unregistered numbers at the table edges, powers of two, 32-bit boundaries and seeded random ones; plus odd texts derived from every 7th name and a fixed list (empty, case changed, blanks/tabs inside and around, `|`, 0x/0X hex of several widths, decimal with sign/leading zeros/out of range, near-miss names); masks: every single bit 0..31, 0, all-ones, seeded random subsets; scopes (oracle only): EVERY tag without enumeration table (AttributeValue, CustomAttribute, every registered non-enumeration tag, the mask tags, extension and unregistered tags) and every enumeration x EVERY enumeration value name registered anywhere (own odd spellings included) through EnumByName (x every registered number through EnumName, x every flag name through BitmaskByStr) and, for AttributeValue / CustomAttribute / extension / unregistered / mask tags exhaustively and a stride of the others, through the XML and JSON readers of generic items (ttlv.Value, item nested in a structure, custom kmip.Attribute), every lookup repeated (names shared by several enumerations 48 times: no dependence on map order); destinations (oracle only): every enumeration / mask Go type x {UnmarshalText, encoding/json value and struct field, encoding/xml attribute, Decoder.TagAny XML/JSON under own tag and AttributeValue} x {every own name, flag pairs and full lists in the three separators, empty, blank, numbers, malformed, partially valid lists} x destinations pre-filled with {all ones, alternating bits, 1, sign bit, other registered values, the complement of the expected result} and ONE variable reused over the whole sequence forwards and backwards; run-time registrations (oracle only, child process): some 340 consistent ttlv.RegisterEnum / RegisterBitmask / RegisterTag calls - every enumeration of the library x {vendor value, existing pair + shared new name, more pairs than present, empty map, nil map, whole table + first unused and last number}, harness enumerations / masks on fresh extension tags in instalments, library and harness masks repeated and extended twice, library tags repeated, fresh tags three times - each followed by dump = reference for every table and every entry of the touched table, old and new, through every reader / writer (lines #reg.rt <scenario>:<tag>:<n-th call on that tag>). distinct = distinct protocol line; nontrivial = line about a registered entry or a non-empty text",
		Run:  runRegistry,
	})
}

// ---- the Go types behind the registries ----------------------------------------------------------

// The Go types behind the registries are FOUND BY REFLECTION over the library's message types
// (discoverTypes, registry_pin.go). staticTypes only supplements that walk with the types no message structure
// of the library uses yet (they would otherwise be exercised through the tag-level functions only). Neither is
// a reference: a type the library registers and the harness cannot reach is counted (`types.unreached:<name>`),
// not reported as a violation; what must exist is said by the pin (`pinned-type` oracle).
var staticTypes = []any{
	kmip.ResultStatus(0), kmip.ResultReason(0), kmip.CredentialType(0), kmip.RevocationReasonCode(0),
	kmip.BatchErrorContinuationOption(0), kmip.NameType(0), kmip.ObjectType(0), kmip.OpaqueDataType(0),
	kmip.State(0), kmip.CryptographicAlgorithm(0), kmip.BlockCipherMode(0), kmip.PaddingMethod(0),
	kmip.HashingAlgorithm(0), kmip.KeyRoleType(0), kmip.RecommendedCurve(0), kmip.SecretDataType(0),
	kmip.KeyFormatType(0), kmip.KeyCompressionType(0), kmip.WrappingMethod(0), kmip.CertificateType(0),
	kmip.LinkType(0), kmip.QueryFunction(0), kmip.UsageLimitsUnit(0), kmip.CancellationResult(0),
	kmip.PutFunction(0), kmip.CertificateRequestType(0), kmip.SplitKeyMethod(0), kmip.ObjectGroupMember(0),
	kmip.EncodingOption(0), kmip.DigitalSignatureAlgorithm(0), kmip.AttestationType(0),
	kmip.AlternativeNameType(0), kmip.KeyValueLocationType(0), kmip.ValidityIndicator(0), kmip.RNGAlgorithm(0),
	kmip.DRBGAlgorithm(0), kmip.FIPS186Variation(0), kmip.ProfileName(0), kmip.ValidationAuthorityType(0),
	kmip.ValidationType(0), kmip.UnwrapMode(0), kmip.DestroyAction(0), kmip.ShreddingAlgorithm(0),
	kmip.RNGMode(0), kmip.ClientRegistrationMethod(0), kmip.MaskGenerator(0), kmip.KeyWrapType(0),
	kmip.Operation(0), kmip.CryptographicUsageMask(0), kmip.StorageStatusMask(0),
}

type regEnv struct {
	dump      ttlv.VerifRegistry
	live      *liveTables
	pin       *regPin                 // nil when it could not be obtained (reported as lost evidence)
	types     map[string]reflect.Type // reflect.Type.String() -> Go type, for every enum / mask type the harness can reach
	uses      []typedUse              // (type, element tag) pairs found in the library's own structures
	usedUnder map[string]map[int]bool // type name -> element tags of `uses`
	enumType  map[int]reflect.Type    // enum tag (per ttlv.enums) -> Go type
	maskType  map[int]reflect.Type
	tagNames  map[int]string
}

func newRegEnv(ctx *Ctx) *regEnv {
	e := newRegEnvLocal(ctx)
	e.pin = loadPin(ctx)
	return e
}

// newRegEnvLocal: everything but the pin (which needs the Lean driver): also used by the child process of
// registry_rt.go. extra: Go types of the harness itself (registered at run time by that child).
func newRegEnvLocal(ctx *Ctx, extra ...reflect.Type) *regEnv {
	e := &regEnv{dump: ttlv.VerifDumpRegistry(), enumType: map[int]reflect.Type{}, maskType: map[int]reflect.Type{}, tagNames: map[int]string{}, usedUnder: map[string]map[int]bool{}}
	e.live = indexDump(e.dump)
	for _, t := range e.dump.Tags {
		e.tagNames[int(t.Value)] = t.Name
	}
	var problems []string
	e.types, e.uses, problems = discoverTypes()
	for _, p := range problems {
		ctx.Res.Count("types.field-tag-problem:" + p)
	}
	ctx.Res.Count(fmt.Sprintf("types.discovered=%d", len(e.types)))
	for _, z := range staticTypes {
		ty := reflect.TypeOf(z)
		if _, ok := e.types[ty.String()]; !ok {
			e.types[ty.String()] = ty
			ctx.Res.Count("types.static-only:" + ty.String())
		}
	}
	for _, ty := range extra {
		e.types[ty.String()] = ty
	}
	for _, u := range e.uses {
		if e.usedUnder[u.ty.String()] == nil {
			e.usedUnder[u.ty.String()] = map[int]bool{}
		}
		e.usedUnder[u.ty.String()][u.elem] = true
	}
	// tag -> Go type through ttlv.enums / ttlv.bitmasks (NOT through tagByType: the two are compared by oracleTypes)
	reached := 0
	for _, t := range e.dump.EnumTypes {
		if ty, ok := e.types[t.Name]; ok && ttlv.VerifIsEnum(ty) {
			reached++
			if _, dup := e.enumType[int(t.Value)]; !dup {
				e.enumType[int(t.Value)] = ty
			}
		} else {
			ctx.Res.Count("types.unreached:" + t.Name)
		}
	}
	for _, t := range e.dump.BitmaskTypes {
		if ty, ok := e.types[t.Name]; ok && ttlv.VerifIsBitmask(ty) {
			reached++
			if _, dup := e.maskType[int(t.Value)]; !dup {
				e.maskType[int(t.Value)] = ty
			}
		} else {
			ctx.Res.Count("types.unreached:" + t.Name)
		}
	}
	ctx.Res.Count(fmt.Sprintf("types.reached=%d/%d", reached, len(e.dump.EnumTypes)+len(e.dump.BitmaskTypes)))
	if all := len(e.dump.EnumTypes) + len(e.dump.BitmaskTypes); all == 0 || reached*2 < all {
		ctx.Res.Fail(fmt.Sprintf("lost evidence: the harness reaches only %d of the %d enumeration / mask Go types the library registers: the typed conversions (MarshalText / UnmarshalText, typed fields) went unchecked", reached, all))
	}
	return e
}

// reindex takes a new dump of the live registry (after a run-time registration, registry_rt.go).
func (e *regEnv) reindex() {
	e.dump = ttlv.VerifDumpRegistry()
	e.live = indexDump(e.dump)
	e.tagNames, e.enumType, e.maskType = map[int]string{}, map[int]reflect.Type{}, map[int]reflect.Type{}
	for _, t := range e.dump.Tags {
		e.tagNames[int(t.Value)] = t.Name
	}
	for _, t := range e.dump.EnumTypes {
		if ty, ok := e.types[t.Name]; ok && ttlv.VerifIsEnum(ty) {
			if _, dup := e.enumType[int(t.Value)]; !dup {
				e.enumType[int(t.Value)] = ty
			}
		}
	}
	for _, t := range e.dump.BitmaskTypes {
		if ty, ok := e.types[t.Name]; ok && ttlv.VerifIsBitmask(ty) {
			if _, dup := e.maskType[int(t.Value)]; !dup {
				e.maskType[int(t.Value)] = ty
			}
		}
	}
}

// ---- small helpers -----------------------------------------------------------------------------------

func regHex(s string) string { return hexUp([]byte(s)) }

func regUnhex(h string) (string, bool) {
	if h == "-" {
		return "", true
	}
	b, err := hex.DecodeString(h)
	return string(b), err == nil
}

func okNum[T ~uint32 | ~int | ~int64 | ~uint64](v T, err error) string {
	if err != nil {
		return "err"
	}
	return fmt.Sprintf("ok %d", v)
}

// xmlRoot parses the first start element of an XML document produced by the library.
func xmlRoot(doc []byte) (name string, attrs map[string]string, err error) {
	d := xml.NewDecoder(bytes.NewReader(doc))
	for {
		tok, err := d.Token()
		if err != nil {
			return "", nil, err
		}
		if se, ok := tok.(xml.StartElement); ok {
			attrs = map[string]string{}
			for _, a := range se.Attr {
				attrs[a.Name.Local] = a.Value
			}
			return se.Name.Local, attrs, nil
		}
	}
}

func xmlAttrEscape(s string) string {
	var b bytes.Buffer
	_ = xml.EscapeText(&b, []byte(s))
	return b.String()
}

func jsonString(s string) string {
	b, _ := json.Marshal(s)
	return string(b)
}

var identRe = regexp.MustCompile(`^[A-Za-z_][A-Za-z0-9_]*$`)

// regCase adds one correspondence case; a panic of the real code is a C02 violation.
func regCase(ctx *Ctx, line, impl string, nontrivial bool, bucket string) {
	if strings.HasPrefix(impl, "panic") {
		ctx.Res.Violate(report.Violation{Property: "C02", Oracle: "no-panic", Key: "registry:" + bucket + ":" + impl, Detail: impl, Line: line})
	}
	ctx.Add(line, impl, nontrivial, "C17,C04")
	ctx.Res.Count(bucket + "." + strings.SplitN(impl, " ", 2)[0])
}

func guardStr(what string, f func() string) string {
	r, p := guard(what, f)
	if p != "" {
		return "panic " + panicKey(p)
	}
	return r
}

// ---- evaluation of the real code, one function per protocol command ----------------------------

func (e *regEnv) tagName(ctx *Ctx, t int) {
	line := fmt.Sprintf("reg.tagname %d", t)
	ctx.current = line
	_, reg := e.tagNames[t]
	regCase(ctx, line, guardStr("TagString", func() string { return "ok " + regHex(ttlv.TagString(t)) }), reg, "tagname")
	// JSON writer: the "tag" member
	regCase(ctx, line, guardStr("MarshalJSON", func() string {
		var m map[string]any
		if err := json.Unmarshal(ttlv.MarshalJSON(ttlv.Value{Tag: t, Value: int32(1)}), &m); err != nil {
			return "err"
		}
		s, _ := m["tag"].(string)
		return "ok " + regHex(s)
	}), reg, "tagname.json")
	// text (debug) writer: the name before " ("
	regCase(ctx, line, guardStr("MarshalText", func() string {
		name, ok := textTagName(ttlv.MarshalText(ttlv.Value{Tag: t, Value: int32(1)}))
		if !ok {
			return "err"
		}
		return "ok " + regHex(name)
	}), reg, "tagname.text")
	// XML writer: element name, or the tag attribute of <TTLV>
	xline := fmt.Sprintf("reg.tagxml %d", t)
	regCase(ctx, xline, guardStr("MarshalXML", func() string {
		name, attrs, err := xmlRoot(ttlv.MarshalXML(ttlv.Value{Tag: t, Value: int32(1)}))
		if err != nil {
			return "err"
		}
		if name == "TTLV" {
			name = attrs["tag"]
		}
		return "ok " + regHex(name)
	}), reg, "tagname.xml")
}

func decodedTag(err error, v ttlv.Value) string {
	if err != nil {
		return "err"
	}
	return fmt.Sprintf("ok %d", v.Tag)
}

func (e *regEnv) tagNum(ctx *Ctx, text string) {
	line := "reg.tagnum " + regHex(text)
	ctx.current = line
	nontrivial := text != ""
	// the generic decoder takes whatever Tag() returns (0 when unknown): JSON reader
	regCase(ctx, line, guardStr("UnmarshalJSON", func() string {
		var v ttlv.Value
		err := ttlv.UnmarshalJSON([]byte(`{"tag": `+jsonString(text)+`, "type": "Integer", "value": 1}`), &v)
		return decodedTag(err, v)
	}), nontrivial, "tagnum.json")
	// XML reader through the tag attribute of <TTLV>
	regCase(ctx, line, guardStr("UnmarshalXML", func() string {
		var v ttlv.Value
		err := ttlv.UnmarshalXML([]byte(`<TTLV tag="`+xmlAttrEscape(text)+`" type="Integer" value="1"/>`), &v)
		return decodedTag(err, v)
	}), nontrivial, "tagnum.xmlattr")
	// XML reader through the element name
	if identRe.MatchString(text) && text != "TTLV" {
		regCase(ctx, line, guardStr("UnmarshalXML", func() string {
			var v ttlv.Value
			err := ttlv.UnmarshalXML([]byte(`<`+text+` type="Integer" value="1"/>`), &v)
			return decodedTag(err, v)
		}), nontrivial, "tagnum.xmlelem")
	}
}

func (e *regEnv) enumName(ctx *Ctx, tag int, v uint32) {
	line := fmt.Sprintf("reg.enumname %d %d", tag, v)
	ctx.current = line
	impl := guardStr("EnumName", func() string { return "ok " + regHex(ttlv.EnumName(tag, v)) })
	regCase(ctx, line, impl, impl != "ok -", "enumname")
}

func (e *regEnv) enumText(ctx *Ctx, tag int, v uint32) {
	line := fmt.Sprintf("reg.enumtext %d %d", tag, v)
	ctx.current = line
	reg := ttlv.EnumName(tag, v) != ""
	regCase(ctx, line, guardStr("MarshalXML", func() string {
		_, attrs, err := xmlRoot(ttlv.MarshalXML(ttlv.Value{Tag: tag, Value: ttlv.Enum(v)}))
		if err != nil {
			return "err"
		}
		return "ok " + regHex(attrs["value"])
	}), reg, "enumtext.xml")
	regCase(ctx, line, guardStr("MarshalJSON", func() string {
		var m map[string]any
		if err := json.Unmarshal(ttlv.MarshalJSON(ttlv.Value{Tag: tag, Value: ttlv.Enum(v)}), &m); err != nil {
			return "err"
		}
		s, ok := m["value"].(string)
		if !ok {
			return "err"
		}
		return "ok " + regHex(s)
	}), reg, "enumtext.json")
	regCase(ctx, line, guardStr("ttlv.MarshalText", func() string {
		s, ok := writtenValue("text", ttlv.MarshalText(ttlv.Value{Tag: tag, Value: ttlv.Enum(v)}))
		if !ok {
			return "err"
		}
		return "ok " + regHex(s)
	}), reg, "enumtext.text")
	if ty, ok := e.enumType[tag]; ok {
		regCase(ctx, line, guardStr("MarshalText", func() string {
			rv := reflect.New(ty).Elem()
			rv.SetUint(uint64(v))
			b, err := rv.Interface().(encoding.TextMarshaler).MarshalText()
			if err != nil {
				return "err"
			}
			return "ok " + regHex(string(b))
		}), reg, "enumtext.marshaltext")
	}
}

func (e *regEnv) enumByName(ctx *Ctx, tag int, text string) {
	line := fmt.Sprintf("reg.enumbyname %d %s", tag, regHex(text))
	ctx.current = line
	impl := guardStr("EnumByName", func() string { return okNum(ttlv.EnumByName(tag, text)) })
	regCase(ctx, line, impl, impl != "err", "enumbyname")
}

func (e *regEnv) enumParse(ctx *Ctx, tag int, text string) {
	line := fmt.Sprintf("reg.enumparse %d %s", tag, regHex(text))
	ctx.current = line
	get := func(err error, v ttlv.Value) string {
		if err != nil {
			return "err"
		}
		x, ok := v.Value.(ttlv.Enum)
		if !ok {
			return "err"
		}
		return fmt.Sprintf("ok %d", uint32(x))
	}
	regCase(ctx, line, guardStr("UnmarshalXML", func() string {
		var v ttlv.Value
		err := ttlv.UnmarshalXML([]byte(fmt.Sprintf(`<TTLV tag="0x%06X" type="Enumeration" value="%s"/>`, tag, xmlAttrEscape(text))), &v)
		return get(err, v)
	}), text != "", "enumparse.xml")
	regCase(ctx, line, guardStr("UnmarshalJSON", func() string {
		var v ttlv.Value
		err := ttlv.UnmarshalJSON([]byte(fmt.Sprintf(`{"tag": "0x%06X", "type": "Enumeration", "value": %s}`, tag, jsonString(text))), &v)
		return get(err, v)
	}), text != "", "enumparse.json")
}

func (e *regEnv) enumUnmarshal(ctx *Ctx, tag int, text string) {
	ty, ok := e.enumType[tag]
	if !ok {
		return
	}
	line := fmt.Sprintf("reg.enumunmarshal %d %s", tag, regHex(text))
	ctx.current = line
	regCase(ctx, line, guardStr("UnmarshalText", func() string {
		p := reflect.New(ty)
		if err := p.Interface().(encoding.TextUnmarshaler).UnmarshalText([]byte(text)); err != nil {
			return "err"
		}
		return fmt.Sprintf("ok %d", p.Elem().Uint())
	}), text != "", "enumunmarshal")
}

func (e *regEnv) maskText(ctx *Ctx, tag int, sep string, v uint32) {
	line := fmt.Sprintf("reg.masktext %d %s %d", tag, regHex(sep), v)
	ctx.current = line
	regCase(ctx, line, guardStr("AppendBitmaskString", func() string {
		return "ok " + regHex(string(ttlv.AppendBitmaskString([]byte{}, tag, int32(v), sep)))
	}), v != 0, "masktext")
	ty, ok := e.maskType[tag]
	if !ok {
		return
	}
	val := func() any {
		rv := reflect.New(ty).Elem()
		rv.SetInt(int64(int32(v)))
		return rv.Interface()
	}
	switch sep {
	case " | ":
		regCase(ctx, line, guardStr("MarshalText", func() string {
			b, err := val().(encoding.TextMarshaler).MarshalText()
			if err != nil {
				return "err"
			}
			return "ok " + regHex(string(b))
		}), v != 0, "masktext.marshaltext")
		regCase(ctx, line, guardStr("ttlv.MarshalText", func() string {
			s, ok := writtenValue("text", ttlv.MarshalText(val()))
			if !ok {
				return "err"
			}
			return "ok " + regHex(s)
		}), v != 0, "masktext.text")
	case " ":
		regCase(ctx, line, guardStr("MarshalXML", func() string {
			_, attrs, err := xmlRoot(ttlv.MarshalXML(val()))
			if err != nil {
				return "err"
			}
			return "ok " + regHex(attrs["value"])
		}), v != 0, "masktext.xml")
	case "|":
		regCase(ctx, line, guardStr("MarshalJSON", func() string {
			var m map[string]any
			if err := json.Unmarshal(ttlv.MarshalJSON(val()), &m); err != nil {
				return "err"
			}
			s, ok := m["value"].(string)
			if !ok {
				return "err"
			}
			return "ok " + regHex(s)
		}), v != 0, "masktext.json")
	}
}

func (e *regEnv) maskByName(ctx *Ctx, tag int, text string) {
	line := fmt.Sprintf("reg.maskbyname %d %s", tag, regHex(text))
	ctx.current = line
	impl := guardStr("BitmaskByStr", func() string {
		v, err := ttlv.BitmaskByStr(tag, text)
		return okNum(uint32(v), err)
	})
	regCase(ctx, line, impl, impl != "err", "maskbyname")
}

func (e *regEnv) maskRead(ctx *Ctx, kind string, tag int, text string) {
	ty, ok := e.maskType[tag]
	if !ok {
		return
	}
	line := fmt.Sprintf("reg.mask%s %d %s", kind, tag, regHex(text))
	ctx.current = line
	regCase(ctx, line, guardStr("mask "+kind, func() string {
		p := reflect.New(ty)
		var err error
		switch kind {
		case "xml":
			err = ttlv.UnmarshalXML([]byte(fmt.Sprintf(`<TTLV tag="0x%06X" type="Integer" value="%s"/>`, tag, xmlAttrEscape(text))), p.Interface())
		case "json":
			err = ttlv.UnmarshalJSON([]byte(fmt.Sprintf(`{"tag": "0x%06X", "type": "Integer", "value": %s}`, tag, jsonString(text))), p.Interface())
		case "unmarshal":
			err = p.Interface().(encoding.TextUnmarshaler).UnmarshalText([]byte(text))
		}
		if err != nil {
			return "err"
		}
		return fmt.Sprintf("ok %d", uint32(int32(p.Elem().Int())))
	}), text != "", "mask"+kind)
}

// ---- impl-side oracle of C17 (does not use the model) --------------------------------------------------

func (e *regEnv) violate(ctx *Ctx, prop, oracle, key, detail, line string) {
	ctx.Res.Violate(report.Violation{Property: prop, Oracle: oracle, Key: key, Detail: detail, Line: line})
}

// oracleTags: name -> number -> name and number -> name -> number are identities through the public functions.
func (e *regEnv) oracleTags(ctx *Ctx) {
	readTag := readTagName
	check := func(name string, num int, table string) {
		line := fmt.Sprintf("reg.tagname %d", num)
		ctx.Res.Count("oracle.tag")
		if got := ttlv.TagString(num); got != name {
			e.violate(ctx, "C17", "tag-bijection", fmt.Sprintf("tag:%s:0x%06X:name", table, num), fmt.Sprintf("%s has (0x%06X, %q) but TagString(0x%06X) = %q", table, num, name, num, got), line)
		}
		if got, ok := readTag(name); !ok || got != num {
			e.violate(ctx, "C17", "tag-bijection", fmt.Sprintf("tag:%s:%s:number", table, name), fmt.Sprintf("%s has (%q, 0x%06X) but the XML/JSON readers resolve %q to 0x%06X", table, name, num, name, got), "reg.tagnum "+regHex(name))
		}
		// single-item XML and JSON round trips by name
		for _, enc := range []string{"xml", "json"} {
			var doc []byte
			var v ttlv.Value
			var err error
			if enc == "xml" {
				doc = ttlv.MarshalXML(ttlv.Value{Tag: num, Value: int32(7)})
				err = ttlv.UnmarshalXML(doc, &v)
			} else {
				doc = ttlv.MarshalJSON(ttlv.Value{Tag: num, Value: int32(7)})
				err = ttlv.UnmarshalJSON(doc, &v)
			}
			if err != nil || v.Tag != num {
				e.violate(ctx, "C17", "tag-roundtrip", fmt.Sprintf("tag:%s:0x%06X", enc, num), fmt.Sprintf("%s round trip of tag 0x%06X gives 0x%06X (%v): %s", enc, num, v.Tag, err, doc), line)
			}
		}
	}
	for _, t := range e.dump.Tags {
		check(t.Name, int(t.Value), "tagNames")
	}
	for _, t := range e.dump.TagsByName {
		check(t.Name, int(t.Value), "tagByName")
	}
}

func (e *regEnv) enumRoundTrip(ctx *Ctx, tag int, v uint32, wantName string) {
	line := fmt.Sprintf("reg.enumtext %d %d", tag, v)
	tn := ttlv.TagString(tag)
	for _, enc := range []string{"xml", "json"} {
		var doc []byte
		var back ttlv.Value
		var err error
		if enc == "xml" {
			doc = ttlv.MarshalXML(ttlv.Value{Tag: tag, Value: ttlv.Enum(v)})
			err = ttlv.UnmarshalXML(doc, &back)
		} else {
			doc = ttlv.MarshalJSON(ttlv.Value{Tag: tag, Value: ttlv.Enum(v)})
			err = ttlv.UnmarshalJSON(doc, &back)
		}
		if x, ok := back.Value.(ttlv.Enum); err != nil || !ok || uint32(x) != v {
			e.violate(ctx, "C17", "enum-roundtrip", fmt.Sprintf("enum:%s:%s:%s", enc, tn, classify(wantName)), fmt.Sprintf("%s round trip of %s value 0x%08X gives %v (%v): %s", enc, tn, v, back.Value, err, doc), line)
		}
		if wantName != "" && !bytes.Contains(doc, []byte(`"`+wantName+`"`)) {
			e.violate(ctx, "C17", "enum-written-by-name", fmt.Sprintf("enum:%s:%s:%s:not-by-name", enc, tn, wantName), fmt.Sprintf("%s does not write %s value 0x%08X by its name %q: %s", enc, tn, v, wantName, doc), line)
		}
	}
	if wantName != "" {
		doc := ttlv.MarshalText(ttlv.Value{Tag: tag, Value: ttlv.Enum(v)})
		if got, _ := writtenValue("text", doc); got != wantName {
			e.violate(ctx, "C17", "enum-written-by-name", fmt.Sprintf("enum:textwriter:%s:%s:not-by-name", tn, wantName), fmt.Sprintf("the text writer does not write %s value 0x%08X by its name %q: %s", tn, v, wantName, doc), line)
		}
	}
	if ty, ok := e.enumType[tag]; ok {
		rv := reflect.New(ty).Elem()
		rv.SetUint(uint64(v))
		txt, err := rv.Interface().(encoding.TextMarshaler).MarshalText()
		p := reflect.New(ty)
		if err == nil {
			err = p.Interface().(encoding.TextUnmarshaler).UnmarshalText(txt)
		}
		if err != nil || uint32(p.Elem().Uint()) != v {
			e.violate(ctx, "C17", "enum-text-roundtrip", fmt.Sprintf("enum:text:%s:%s", tn, classify(wantName)), fmt.Sprintf("%s: UnmarshalText(MarshalText(0x%08X) = %q) = 0x%08X (%v)", ty, v, txt, p.Elem().Uint(), err), line)
		}
		if wantName != "" && string(txt) != wantName {
			e.violate(ctx, "C17", "enum-written-by-name", fmt.Sprintf("enum:text:%s:%s:not-by-name", tn, wantName), fmt.Sprintf("%s: MarshalText(0x%08X) = %q, registered name %q", ty, v, txt, wantName), line)
		}
	}
}

func classify(name string) string {
	if name == "" {
		return "unregistered"
	}
	return name
}

func (e *regEnv) oracleEnums(ctx *Ctx) {
	for _, en := range e.dump.Enums {
		tn := ttlv.TagString(en.Tag)
		check := func(name string, v uint32, table string) {
			ctx.Res.Count("oracle.enum")
			if got := ttlv.EnumName(en.Tag, v); got != name {
				e.violate(ctx, "C17", "enum-bijection", fmt.Sprintf("enum:%s:%s:0x%X:name", table, tn, v), fmt.Sprintf("%s[%s] has (0x%X, %q) but EnumName = %q", table, tn, v, name, got), fmt.Sprintf("reg.enumname %d %d", en.Tag, v))
			}
			if got, err := ttlv.EnumByName(en.Tag, name); err != nil || got != v {
				e.violate(ctx, "C17", "enum-bijection", fmt.Sprintf("enum:%s:%s:%s:number", table, tn, name), fmt.Sprintf("%s[%s] has (%q, 0x%X) but EnumByName = 0x%X (%v)", table, tn, name, v, got, err), fmt.Sprintf("reg.enumbyname %d %s", en.Tag, regHex(name)))
			}
			e.enumRoundTrip(ctx, en.Tag, v, name)
		}
		for _, x := range en.ByValue {
			check(x.Name, uint32(x.Value), "enumNames")
		}
		for _, x := range en.ByName {
			check(x.Name, uint32(x.Value), "enumsByName")
		}
	}
}

// ---- the enumeration iterators --------------------------------------------------------------------------------------

// enumIter[T] instantiates the generic ttlv.EnumValues for one Go type (generic functions cannot be reached by reflection).
func enumIter[T ~uint32]() func(stop int) (map[uint32]string, int) {
	return func(stop int) (map[uint32]string, int) {
		got, n := map[uint32]string{}, 0
		for v, name := range ttlv.EnumValues[T]() {
			got[uint32(v)] = name
			n++
			if n == stop {
				break
			}
		}
		return got, n
	}
}

// staticEnumIters: ttlv.EnumValues[T] for the enumeration types of the API, by reflect.Type.String().
var staticEnumIters = map[string]func(stop int) (map[uint32]string, int){
	"kmip.ResultStatus": enumIter[kmip.ResultStatus](), "kmip.ResultReason": enumIter[kmip.ResultReason](), "kmip.CredentialType": enumIter[kmip.CredentialType](),
	"kmip.RevocationReasonCode": enumIter[kmip.RevocationReasonCode](), "kmip.BatchErrorContinuationOption": enumIter[kmip.BatchErrorContinuationOption](),
	"kmip.NameType": enumIter[kmip.NameType](), "kmip.ObjectType": enumIter[kmip.ObjectType](), "kmip.OpaqueDataType": enumIter[kmip.OpaqueDataType](),
	"kmip.State": enumIter[kmip.State](), "kmip.CryptographicAlgorithm": enumIter[kmip.CryptographicAlgorithm](), "kmip.BlockCipherMode": enumIter[kmip.BlockCipherMode](),
	"kmip.PaddingMethod": enumIter[kmip.PaddingMethod](), "kmip.HashingAlgorithm": enumIter[kmip.HashingAlgorithm](), "kmip.KeyRoleType": enumIter[kmip.KeyRoleType](),
	"kmip.RecommendedCurve": enumIter[kmip.RecommendedCurve](), "kmip.SecretDataType": enumIter[kmip.SecretDataType](), "kmip.KeyFormatType": enumIter[kmip.KeyFormatType](),
	"kmip.KeyCompressionType": enumIter[kmip.KeyCompressionType](), "kmip.WrappingMethod": enumIter[kmip.WrappingMethod](), "kmip.CertificateType": enumIter[kmip.CertificateType](),
	"kmip.LinkType": enumIter[kmip.LinkType](), "kmip.QueryFunction": enumIter[kmip.QueryFunction](), "kmip.UsageLimitsUnit": enumIter[kmip.UsageLimitsUnit](),
	"kmip.CancellationResult": enumIter[kmip.CancellationResult](), "kmip.PutFunction": enumIter[kmip.PutFunction](), "kmip.CertificateRequestType": enumIter[kmip.CertificateRequestType](),
	"kmip.SplitKeyMethod": enumIter[kmip.SplitKeyMethod](), "kmip.ObjectGroupMember": enumIter[kmip.ObjectGroupMember](), "kmip.EncodingOption": enumIter[kmip.EncodingOption](),
	"kmip.DigitalSignatureAlgorithm": enumIter[kmip.DigitalSignatureAlgorithm](), "kmip.AttestationType": enumIter[kmip.AttestationType](),
	"kmip.AlternativeNameType": enumIter[kmip.AlternativeNameType](), "kmip.KeyValueLocationType": enumIter[kmip.KeyValueLocationType](),
	"kmip.ValidityIndicator": enumIter[kmip.ValidityIndicator](), "kmip.RNGAlgorithm": enumIter[kmip.RNGAlgorithm](), "kmip.DRBGAlgorithm": enumIter[kmip.DRBGAlgorithm](),
	"kmip.FIPS186Variation": enumIter[kmip.FIPS186Variation](), "kmip.ProfileName": enumIter[kmip.ProfileName](), "kmip.ValidationAuthorityType": enumIter[kmip.ValidationAuthorityType](),
	"kmip.ValidationType": enumIter[kmip.ValidationType](), "kmip.UnwrapMode": enumIter[kmip.UnwrapMode](), "kmip.DestroyAction": enumIter[kmip.DestroyAction](),
	"kmip.ShreddingAlgorithm": enumIter[kmip.ShreddingAlgorithm](), "kmip.RNGMode": enumIter[kmip.RNGMode](), "kmip.ClientRegistrationMethod": enumIter[kmip.ClientRegistrationMethod](),
	"kmip.MaskGenerator": enumIter[kmip.MaskGenerator](), "kmip.KeyWrapType": enumIter[kmip.KeyWrapType](), "kmip.Operation": enumIter[kmip.Operation](),
}

// oracleEnumIter: the public enumerators of the registry (ttlv.EnumValuesByTag, ttlv.EnumValuesByName, ttlv.EnumValues[T])
// yield EXACTLY the registered (value, name) pairs of the enumeration - all of them, each once, nothing else - as the
// live table says and as the pin says; a consumer that stops early gets what it asked for; a tag / name / type without
// enumeration yields nothing. (What a caller lists is what the writers write and the readers read.)
func (e *regEnv) oracleEnumIter(ctx *Ctx) {
	collect := func(seq func(func(uint32, string) bool), stop int) (map[uint32]string, int) {
		got, n := map[uint32]string{}, 0
		for v, name := range seq {
			got[v] = name
			n++
			if n == stop {
				break
			}
		}
		return got, n
	}
	compare := func(what string, tag int, got map[uint32]string, n int, want map[uint32]string, line string) {
		tn := ttlv.TagString(tag)
		if n != len(got) {
			e.violate(ctx, "C17", "enum-iterator", fmt.Sprintf("iter:%s:%s:duplicates", what, tn), fmt.Sprintf("%s of %s yields %d pairs for %d distinct values", what, tn, n, len(got)), line)
		}
		sorted := func(m map[uint32]string) []uint32 {
			ks := make([]uint32, 0, len(m))
			for k := range m {
				ks = append(ks, k)
			}
			sort.Slice(ks, func(i, j int) bool { return ks[i] < ks[j] })
			return ks
		}
		for _, v := range sorted(want) {
			name := want[v]
			if g, ok := got[v]; !ok || g != name {
				e.violate(ctx, "C17", "enum-iterator", fmt.Sprintf("iter:%s:%s:missing", what, tn), fmt.Sprintf("%s of %s does not yield the registered pair (0x%08X, %q): got %q (present=%v); %d pairs yielded, %d registered", what, tn, v, name, g, ok, len(got), len(want)), fmt.Sprintf("reg.enumname %d %d", tag, v))
				break
			}
		}
		for _, v := range sorted(got) {
			name := got[v]
			if w, ok := want[v]; !ok {
				e.violate(ctx, "C17", "enum-iterator", fmt.Sprintf("iter:%s:%s:extra", what, tn), fmt.Sprintf("%s of %s yields (0x%08X, %q), which the enumeration does not register (%q)", what, tn, v, name, w), fmt.Sprintf("reg.enumname %d %d", tag, v))
				break
			}
		}
	}
	tags := map[int]bool{kmip.TagDerivationMethod: true, kmip.TagAttribute: true, 0x540001: true, 0: true, -1: true} // no table: nothing to yield
	for _, en := range e.dump.Enums {
		tags[en.Tag] = true
	}
	for _, tag := range sortedInts(tags) {
		ctx.Res.Count("oracle.enum-iter")
		want := e.live.enums[tag]
		line := fmt.Sprintf("#reg.enumvalues %d", tag)
		ctx.current = line
		res, p := guard("EnumValuesByTag", func() string {
			got, n := collect(ttlv.EnumValuesByTag(tag), -1)
			compare("EnumValuesByTag", tag, got, n, want, line)
			if name, ok := e.live.tags[tag]; ok {
				got, n = collect(ttlv.EnumValuesByName(name), -1)
				compare("EnumValuesByName", tag, got, n, want, line)
			}
			// a consumer that stops after k pairs gets k pairs (and the iterator stops)
			for _, k := range []int{1, 2} {
				if len(want) >= k {
					if _, n := collect(ttlv.EnumValuesByTag(tag), k); n != k {
						return fmt.Sprintf("a consumer stopping after %d pairs got %d", k, n)
					}
				}
			}
			return ""
		})
		if p != "" {
			res = "panic " + p
		}
		if res != "" {
			e.violate(ctx, "C17", "enum-iterator", "iter:EnumValuesByTag:"+ttlv.TagString(tag)+":early-stop", res, line)
		}
		// the pin: every pinned pair is listed
		if e.pin != nil {
			got, _ := collect(ttlv.EnumValuesByTag(tag), -1)
			for _, x := range e.pin.enums {
				if x.tag == tag && got[x.num] != x.name {
					e.violate(ctx, "C17", "pinned-enum-iterator", fmt.Sprintf("pin:iter:%s", ttlv.TagString(tag)), fmt.Sprintf("EnumValuesByTag(%s) does not list the pinned pair (0x%08X, %q): got %q", ttlv.TagString(tag), x.num, x.name, got[x.num]), fmt.Sprintf("reg.enumname %d %d", tag, x.num))
					break
				}
			}
		}
	}
	if got, n := collect(ttlv.EnumValuesByName("NoSuchTagName"), -1); n != 0 {
		e.violate(ctx, "C17", "enum-iterator", "iter:EnumValuesByName:unknown-name", fmt.Sprintf("EnumValuesByName of an unknown name yields %v", got), "#reg.enumvalues NoSuchTagName")
	}
	// the generic form, per Go type
	reached := 0
	for _, t := range e.dump.EnumTypes {
		it, ok := staticEnumIters[t.Name]
		if !ok {
			ctx.Res.Count("iter.type-unreached:" + t.Name)
			continue
		}
		reached++
		tag := int(t.Value)
		line := fmt.Sprintf("#reg.enumvalues %s", t.Name)
		ctx.current = line
		res, p := guard("EnumValues[T]", func() string {
			got, n := it(-1)
			compare("EnumValues["+t.Name+"]", tag, got, n, e.live.enums[tag], line)
			if len(e.live.enums[tag]) >= 1 {
				if _, n := it(1); n != 1 {
					return fmt.Sprintf("a consumer stopping after 1 pair got %d", n)
				}
			}
			return ""
		})
		if p != "" {
			res = "panic " + p
		}
		if res != "" {
			e.violate(ctx, "C17", "enum-iterator", "iter:EnumValues:"+t.Name+":early-stop", res, line)
		}
	}
	if len(e.dump.EnumTypes) > 0 && reached*2 < len(e.dump.EnumTypes) {
		ctx.Res.Fail(fmt.Sprintf("lost evidence: ttlv.EnumValues[T] was instantiated for %d of the %d registered enumeration types only", reached, len(e.dump.EnumTypes)))
	}
}

// maskRoundTrip checks the three text forms of one mask value. Values made of REGISTERED flags only
// (what is "written by name") are C17 in every form. For the zero mask and for unnamed bits (written as
// nothing / as hex) the XML and JSON forms are the business of C04 (the defects the XML/JSON engines see),
// while MarshalText/UnmarshalText of the mask types (bitmasks.go, anchored by C17 only) stays C17.
func (e *regEnv) maskRoundTrip(ctx *Ctx, tag int, v uint32, nflags int) {
	ty, ok := e.maskType[tag]
	if !ok {
		return
	}
	tn := ttlv.TagString(tag)
	prop, class := "C17", "named-flags"
	switch {
	case v == 0:
		prop, class = "C04", "zero"
	case v>>31 != 0 && nflags < 32:
		prop, class = "C04", "bit31"
	case nflags < 32 && v>>uint(nflags) != 0:
		prop, class = "C04", "unnamed-bits"
	}
	ctx.Res.Count("oracle.mask." + class)
	mk := func() any {
		rv := reflect.New(ty).Elem()
		rv.SetInt(int64(int32(v)))
		return rv.Interface()
	}
	for _, form := range []struct{ name, sep string }{{"xml", " "}, {"json", "|"}, {"text", " | "}} {
		line := fmt.Sprintf("reg.masktext %d %s %d", tag, regHex(form.sep), v)
		res, p := guard("mask round trip", func() string {
			ptr := reflect.New(ty)
			var doc []byte
			var err error
			switch form.name {
			case "xml":
				doc = ttlv.MarshalXML(mk())
				err = ttlv.UnmarshalXML(doc, ptr.Interface())
			case "json":
				doc = ttlv.MarshalJSON(mk())
				err = ttlv.UnmarshalJSON(doc, ptr.Interface())
			case "text":
				doc, err = mk().(encoding.TextMarshaler).MarshalText()
				if err == nil {
					err = ptr.Interface().(encoding.TextUnmarshaler).UnmarshalText(doc)
				}
			}
			if err != nil {
				return fmt.Sprintf("written as %q, reading fails: %v", doc, err)
			}
			if got := uint32(int32(ptr.Elem().Int())); got != v {
				return fmt.Sprintf("written as %q, read back as 0x%08X", doc, got)
			}
			return ""
		})
		if p != "" {
			res = "panic " + p
		}
		if form.name == "text" {
			prop = "C17"
		}
		if res != "" {
			e.violate(ctx, prop, "mask-roundtrip", fmt.Sprintf("mask:%s:%s:%s", form.name, tn, class), fmt.Sprintf("%s %s value 0x%08X: %s", form.name, tn, v, res), line)
		}
	}
}

func (e *regEnv) oracleMasks(ctx *Ctx) {
	for _, m := range e.dump.Bitmasks {
		tn := ttlv.TagString(m.Tag)
		seen := map[string]int{}
		for i, name := range m.Names {
			ctx.Res.Count("oracle.maskflag")
			line := fmt.Sprintf("reg.maskbyname %d %s", m.Tag, regHex(name))
			if name == "" {
				continue // a reserved gap
			}
			if j, dup := seen[name]; dup {
				e.violate(ctx, "C17", "mask-bijection", fmt.Sprintf("mask:%s:%s:duplicate", tn, name), fmt.Sprintf("flag name %q registered for bits %d and %d", name, j, i), line)
			}
			seen[name] = i
			if i >= 32 {
				e.violate(ctx, "C17", "mask-bijection", fmt.Sprintf("mask:%s:%s:beyond-32", tn, name), fmt.Sprintf("flag %q is at position %d", name, i), line)
				continue
			}
			want := int32(uint32(1) << uint(i))
			if got, err := ttlv.BitmaskByStr(m.Tag, name); err != nil || got != want {
				e.violate(ctx, "C17", "mask-bijection", fmt.Sprintf("mask:%s:%s:number", tn, name), fmt.Sprintf("BitmaskByStr(%q) = 0x%X (%v), expected 0x%X", name, got, err, want), line)
			}
			if got := string(ttlv.AppendBitmaskString(nil, m.Tag, want, "|")); got != name {
				e.violate(ctx, "C17", "mask-bijection", fmt.Sprintf("mask:%s:%d:name", tn, i), fmt.Sprintf("flag 0x%X is written %q, registered name %q", want, got, name), fmt.Sprintf("reg.masktext %d 7C %d", m.Tag, uint32(want)))
			}
		}
		for _, x := range m.ByName {
			if i, ok := seen[x.Name]; x.Name != "" && (!ok || uint32(int32(x.Value)) != uint32(1)<<uint(i)) {
				e.violate(ctx, "C17", "mask-bijection", fmt.Sprintf("mask:%s:%s:reverse", tn, x.Name), fmt.Sprintf("bitmaskByName has (%q, 0x%X) without the matching position in bitmaskNames", x.Name, x.Value), fmt.Sprintf("reg.maskbyname %d %s", m.Tag, regHex(x.Name)))
			}
		}
	}
}

var (
	vecElemRe = regexp.MustCompile(`<([A-Za-z_][\w.\-]*)((?:\s+[\w:]+\s*=\s*"[^"]*")*)\s*/?>`)
	vecAttrRe = regexp.MustCompile(`([\w:]+)\s*=\s*"([^"]*)"`)
	vecNumRe  = regexp.MustCompile(`^(0x[0-9A-Fa-f]+|-?[0-9]+)$`)
)

// Floors under which the OASIS vectors are not the evidence they are claimed to be (410 files, 171 tag names,
// 157 enumeration value names, 10 flag names at the time of writing): below them the engine FAILS LOUDLY
// ("lost evidence") instead of passing with `files=0`.
const (
	minVecFiles     = 200
	minVecTagNames  = 80
	minVecEnumNames = 80
	minVecFlagNames = 5
)

// enumScopes: the enumerations whose names may appear as value of an element with tag `elem`: the enumeration
// of that tag if it has a table, else the enumerations of the Go types the LIBRARY ITSELF carries under that
// element tag (found by reflection: MaskGeneratorHashingAlgorithm carries a kmip.HashingAlgorithm) — no alias
// table to keep up to date.
func (e *regEnv) enumScopes(elem int) []int {
	if _, ok := e.live.enums[elem]; ok {
		return []int{elem}
	}
	set := map[int]bool{}
	for _, u := range e.uses {
		if u.elem == elem {
			if t, ok := e.live.enumTypes[u.ty.String()]; ok {
				set[t] = true
			}
		}
	}
	return sortedInts(set)
}

func (e *regEnv) maskScopes(elem int) []int {
	if _, ok := e.live.masks[elem]; ok {
		return []int{elem}
	}
	set := map[int]bool{}
	for _, u := range e.uses {
		if u.elem == elem {
			if t, ok := e.live.maskTypes[u.ty.String()]; ok {
				set[t] = true
			}
		}
	}
	return sortedInts(set)
}

// oracleVectors: every tag name, enumeration value name and mask flag name used by the OASIS XML vectors
// shipped with the library must be known to the library (in the scope of the right enumeration).
func (e *regEnv) oracleVectors(ctx *Ctx) {
	dir := "/repo/kmiptest/testdata"
	if d := os.Getenv("VERIF_REPO"); d != "" {
		dir = filepath.Join(d, "kmiptest", "testdata")
	}
	var files []string
	_ = filepath.WalkDir(dir, func(p string, d os.DirEntry, err error) error {
		if err == nil && !d.IsDir() && strings.HasSuffix(p, ".xml") {
			files = append(files, p)
		}
		return nil
	})
	sort.Strings(files)
	tagOf := func(name string) (int, bool) {
		var v ttlv.Value
		if err := ttlv.UnmarshalXML([]byte(`<TTLV tag="`+xmlAttrEscape(name)+`" type="Integer" value="1"/>`), &v); err != nil || v.Tag == 0 {
			return 0, false
		}
		return v.Tag, true
	}
	done := map[string]bool{}
	tagNames, enumNames, flagNames := map[string]bool{}, map[string]bool{}, map[string]bool{}
	read := 0
	for _, f := range files {
		src, err := os.ReadFile(f)
		if err != nil {
			continue
		}
		read++
		attrName := ""
		for _, m := range vecElemRe.FindAllStringSubmatch(string(src), -1) {
			name := m[1]
			if name == "KMIP" || name == "TTLV" {
				continue
			}
			attrs := map[string]string{}
			for _, a := range vecAttrRe.FindAllStringSubmatch(m[2], -1) {
				attrs[a[1]] = a[2]
			}
			if name == "AttributeName" {
				attrName = strings.ReplaceAll(attrs["value"], " ", "")
			}
			scopeName := name
			if name == "AttributeValue" {
				scopeName = attrName
			}
			val := attrs["value"]
			key := name + "|" + scopeName + "|" + attrs["type"] + "|" + val
			if attrs["type"] != "Enumeration" && attrs["type"] != "Integer" {
				key = name
			}
			if done[key] {
				continue
			}
			done[key] = true
			ctx.Res.Count("oracle.vectors.distinct")
			tag, ok := tagOf(name)
			if !ok {
				e.violate(ctx, "C17", "vectors", "vectors:tag:"+name, fmt.Sprintf("element <%s> of %s is not a tag name known to the library", name, filepath.Base(f)), "reg.tagnum "+regHex(name))
				continue
			}
			tagNames[name] = true
			scope := tag
			if scopeName != name {
				if scope, ok = tagOf(scopeName); !ok {
					continue // custom attribute
				}
			}
			switch attrs["type"] {
			case "Enumeration":
				if vecNumRe.MatchString(val) {
					continue
				}
				scopes := e.enumScopes(scope)
				if len(scopes) == 0 {
					ctx.Res.Count("oracle.vectors.enum-not-registered:" + scopeName)
					continue
				}
				found := false
				for _, sc := range scopes {
					if _, err := ttlv.EnumByName(sc, val); err == nil {
						found = true
					}
				}
				if !found {
					e.violate(ctx, "C17", "vectors", "vectors:enum:"+scopeName+"."+val, fmt.Sprintf("%s uses <%s type=\"Enumeration\" value=%q>: the library has no such name in %s", filepath.Base(f), name, val, ttlv.TagString(scopes[0])), fmt.Sprintf("reg.enumbyname %d %s", scopes[0], regHex(val)))
				} else {
					enumNames[ttlv.TagString(scopes[0])+"."+val] = true
				}
			case "Integer":
				scopes := e.maskScopes(scope)
				if len(scopes) == 0 {
					continue
				}
				for _, part := range strings.Fields(val) {
					if vecNumRe.MatchString(part) {
						continue
					}
					found := false
					for _, sc := range scopes {
						if _, err := ttlv.BitmaskByStr(sc, part); err == nil {
							found = true
						}
					}
					if !found {
						e.violate(ctx, "C17", "vectors", "vectors:mask:"+scopeName+"."+part, fmt.Sprintf("%s uses flag %q of %s unknown to the library", filepath.Base(f), part, scopeName), fmt.Sprintf("reg.maskbyname %d %s", scopes[0], regHex(part)))
					} else {
						flagNames[part] = true
					}
				}
			}
		}
	}
	ctx.Res.Count(fmt.Sprintf("oracle.vectors.files=%d", read))
	ctx.Res.Count(fmt.Sprintf("oracle.vectors.tagnames=%d", len(tagNames)))
	ctx.Res.Count(fmt.Sprintf("oracle.vectors.enumnames=%d", len(enumNames)))
	ctx.Res.Count(fmt.Sprintf("oracle.vectors.flagnames=%d", len(flagNames)))
	if read < minVecFiles || len(tagNames) < minVecTagNames || len(enumNames) < minVecEnumNames || len(flagNames) < minVecFlagNames {
		ctx.Res.Fail(fmt.Sprintf("lost evidence: the OASIS vectors under %s gave %d readable XML files, %d distinct tag names, %d enumeration value names, %d flag names (floors: %d / %d / %d / %d): the third-party naming evidence of C17 was not collected (moved test data, wrong VERIF_REPO?)",
			dir, read, len(tagNames), len(enumNames), len(flagNames), minVecFiles, minVecTagNames, minVecEnumNames, minVecFlagNames))
	}
}

// ---- generators ----------------------------------------------------------------------------------------------

var fixedTexts = []string{
	"", " ", "0", "1", "3", "03", "+3", "-1", "-0", "4294967295", "4294967296", "2147483647", "2147483648", "-2147483648",
	"-2147483649", "1e3", "3 ", " 3", "3\t", "0x", "0X", "0x3", "0X3", "0x03", "0x00000003", "0x0000000G", "0xFFFFFFFF",
	"0x100000000", "0x7FFFFFFF", "0x80000000", "0x-1", "0x+1", "0x 1", "0x1 ", "x3", "0b11", "0o7", "1_000", "0x1_0",
	"TTLV", "Foo", "foo bar", "|", "||", " | ", "a|b", "Sign|", "|Sign", "Sign | ", "Sign  Verify", "Sign\tVerify",
	"Sign\nVerify", "Sign,Verify", "0x1|0x2", "1 2", "1|2", "Sign|2", "Sign 0X10", "Sign | 0X10", "AES", "A ES", " AES ",
	"Attribute", "attribute", "ATTRIBUTE", "Attribute ", "0x420008", "0x42000", "0X420008", "0x0420008", "420008", "4325384",
}

// variants derives odd texts from a registered name.
func variants(name string) []string {
	res := []string{name, strings.ToLower(name), strings.ToUpper(name), " " + name, name + " ", "\t" + name, name + "x", "x" + name, name + "|", name + " " + name, name + "|" + name, name + " | " + name}
	if len(name) > 1 {
		res = append(res, name[:len(name)-1], name[1:], name[:1]+" "+name[1:], name[:len(name)/2]+"|"+name[len(name)/2:])
	}
	return res
}

func edgeNumbers(registered []int64, max uint64) []uint64 {
	set := map[uint64]bool{0: true, 1: true, max: true, max - 1: true, max / 2: true, max/2 + 1: true}
	for _, v := range registered {
		for d := int64(-2); d <= 2; d++ {
			if x := v + d; x >= 0 && uint64(x) <= max {
				set[uint64(x)] = true
			}
		}
	}
	for i := 0; i < 33; i++ {
		if x := uint64(1) << uint(i); x <= max {
			set[x] = true
			set[x-1] = true
		}
	}
	res := make([]uint64, 0, len(set))
	for v := range set {
		res = append(res, v)
	}
	sort.Slice(res, func(i, j int) bool { return res[i] < res[j] })
	return res
}

func runRegistry(ctx *Ctx) {
	e := newRegEnv(ctx)
	if len(ctx.Replay) > 0 {
		e.replay(ctx)
		return
	}
	r := ctx.R

	// --- oracle (exhaustive over the registry) ---
	e.oracles(ctx)

	// --- tags ---
	var tagVals []int64
	for _, t := range e.dump.Tags {
		tagVals = append(tagVals, t.Value)
	}
	for _, t := range edgeNumbers(tagVals, 0xFFFFFF) {
		e.tagName(ctx, int(t))
	}
	for i := 0; i < ctx.N(300, 20000); i++ {
		e.tagName(ctx, r.Intn(0x1000000))
	}
	for _, t := range []int{0x1000000, 0x7FFFFFFF, 0x54000001} { // wider than 24 bits: %06X grows
		e.tagName(ctx, t)
	}
	for i, t := range e.dump.TagsByName {
		e.tagNum(ctx, t.Name)
		e.tagNum(ctx, fmt.Sprintf("0x%06X", t.Value))
		if i%7 == 0 || ctx.Thor {
			for _, v := range variants(t.Name) {
				e.tagNum(ctx, v)
			}
			e.tagNum(ctx, fmt.Sprintf("0x%x", t.Value))
			e.tagNum(ctx, fmt.Sprintf("%d", t.Value))
		}
	}
	for _, s := range fixedTexts {
		e.tagNum(ctx, s)
	}

	// --- enumerations ---
	enumTags := []int{}
	for _, en := range e.dump.Enums {
		enumTags = append(enumTags, en.Tag)
	}
	enumTags = append(enumTags, kmip.TagDerivationMethod, kmip.TagAttribute, 0x540001) // tags without enumeration table
	enumTags = append(enumTags, kmip.TagAttributeValue, kmip.TagCustomAttribute, 0x42FFFF) // generic carriers, an unregistered tag
	for _, m := range e.dump.Bitmasks {
		enumTags = append(enumTags, m.Tag) // a mask table is not an enumeration table
	}
	_, sharedNames, _, _ := e.scopeSets() // names several enumerations register with different numbers
	for _, tag := range enumTags {
		var vals []int64
		var names []string
		for _, en := range e.dump.Enums {
			if en.Tag == tag {
				for _, x := range en.ByValue {
					vals = append(vals, x.Value)
				}
				for _, x := range en.ByName {
					names = append(names, x.Name)
				}
			}
		}
		nums := edgeNumbers(vals, 0xFFFFFFFF)
		for i := 0; i < ctx.N(6, 400); i++ {
			nums = append(nums, uint64(uint32(r.U64())))
		}
		for _, v := range nums {
			e.enumName(ctx, tag, uint32(v))
			e.enumText(ctx, tag, uint32(v))
			if ttlv.EnumName(tag, uint32(v)) == "" {
				e.enumRoundTrip(ctx, tag, uint32(v), "")
				ctx.Res.Count("oracle.enum.unregistered")
			}
		}
		texts := append([]string{}, fixedTexts...)
		for i, n := range names {
			texts = append(texts, n)
			if i%7 == 0 || ctx.Thor {
				texts = append(texts, variants(n)...)
			}
		}
		// names of OTHER enumerations must not leak into this scope
		texts = append(texts, "AES", "Success", "Sign", "Active", "Create")
		texts = append(texts, sharedNames...)
		for _, v := range nums[:min(len(nums), 12)] {
			texts = append(texts, fmt.Sprintf("0x%08X", v), fmt.Sprintf("0x%x", v), fmt.Sprintf("%d", v), fmt.Sprintf("0X%X", v))
		}
		for _, s := range texts {
			e.enumByName(ctx, tag, s)
			e.enumParse(ctx, tag, s)
			e.enumUnmarshal(ctx, tag, s)
		}
	}

	// --- bit masks ---
	maskTags := []int{}
	for _, m := range e.dump.Bitmasks {
		maskTags = append(maskTags, m.Tag)
	}
	maskTags = append(maskTags, kmip.TagAttribute) // a tag without mask table
	for _, tag := range maskTags {
		var names []string
		for _, m := range e.dump.Bitmasks {
			if m.Tag == tag {
				names = m.Names
			}
		}
		vals := []uint32{0, 0xFFFFFFFF, 0x7FFFFFFF, 0x80000000, 0x80000001, 3, 5, 0xFFFFF, 0x100000, 0x1FFFFF}
		for i := 0; i < 32; i++ {
			vals = append(vals, uint32(1)<<uint(i))
		}
		if n := len(names); n > 0 && n < 32 {
			vals = append(vals, uint32(1)<<uint(n)-1, uint32(1)<<uint(n-1)|1)
		}
		for i := 0; i < ctx.N(60, 5000); i++ {
			v := uint32(r.U64())
			switch i % 3 {
			case 0:
				if n := len(names); n > 0 && n < 32 {
					v &= uint32(1)<<uint(n) - 1 // registered flags only
				}
			case 1:
				v &= 0x7FFFFFFF
			}
			vals = append(vals, v)
		}
		for _, v := range vals {
			for _, sep := range []string{" ", "|", " | ", "", ","} {
				e.maskText(ctx, tag, sep, v)
			}
			e.maskRoundTrip(ctx, tag, v, len(names))
		}
		texts := append([]string{}, fixedTexts...)
		for _, n := range names {
			texts = append(texts, variants(n)...)
		}
		for i := 0; i < ctx.N(40, 2000); i++ {
			// what the writers produce, and neighbours of it
			v := uint32(r.U64()) & 0x7FFFFFFF
			for _, sep := range []string{" ", "|", " | "} {
				s := string(ttlv.AppendBitmaskString(nil, tag, int32(v), sep))
				texts = append(texts, s)
				if i%5 == 0 {
					texts = append(texts, s+sep, sep+s, strings.ToLower(s))
				}
			}
		}
		for _, s := range texts {
			e.maskByName(ctx, tag, s)
			e.maskRead(ctx, "xml", tag, s)
			e.maskRead(ctx, "json", tag, s)
			e.maskRead(ctx, "unmarshal", tag, s)
		}
	}
	e.genTyped(ctx)
	ctx.Res.Exhaustive = true // over the registry itself; the unregistered part is sampled
}

// oracles: the registry-wide impl-side oracles (cheap: they also run on replay, so that what they find replays).
func (e *regEnv) oracles(ctx *Ctx) {
	e.oracleTags(ctx)
	e.oracleEnums(ctx)
	e.oracleEnumIter(ctx)
	e.oracleMasks(ctx)
	e.oracleScopes(ctx)
	e.oracleDest(ctx)
	e.oracleTypes(ctx)
	e.oraclePin(ctx)
	e.oracleAttributes(ctx)
	e.oracleVectors(ctx)
	oracleRuntimeRegistrations(ctx)
}

// genTyped: every enumeration type x {its own tag, AttributeValue, every element tag under which the library's
// structures carry it, ANOTHER enumeration's tag (whose names must not leak in), a mask tag, an unregistered
// tag} x {every registered value, edges, random} through the three writers and the two readers; the same for
// the two mask types.
func (e *regEnv) genTyped(ctx *Ctx) {
	r := ctx.R
	var withTable []int
	for _, en := range e.dump.Enums {
		if len(en.ByValue) > 0 {
			withTable = append(withTable, en.Tag)
		}
	}
	maskTag := 0
	if len(e.dump.Bitmasks) > 0 {
		maskTag = e.dump.Bitmasks[0].Tag
	}
	elemsFor := func(tyName string, own int, extra ...int) []int {
		set := map[int]bool{own: true, kmip.TagAttributeValue: true, 0x540001: true}
		for el := range e.usedUnder[tyName] {
			set[el] = true
		}
		for _, x := range extra {
			if x != 0 {
				set[x] = true
			}
		}
		return sortedInts(set)
	}
	for _, t := range e.dump.EnumTypes {
		own := int(t.Value)
		if _, ok := e.types[t.Name]; !ok {
			continue
		}
		foreign := 0
		for _, x := range withTable { // the next enumeration that has a table (cyclically)
			if x > own {
				foreign = x
				break
			}
		}
		if foreign == 0 && len(withTable) > 0 && withTable[0] != own {
			foreign = withTable[0]
		}
		elems := elemsFor(t.Name, own, foreign, maskTag)
		var vals []uint32
		var names []string
		for _, en := range e.dump.Enums {
			if en.Tag == own {
				for _, x := range en.ByValue {
					vals = append(vals, uint32(x.Value))
				}
				for _, x := range en.ByName {
					names = append(names, x.Name)
				}
			}
		}
		top := uint32(0)
		for _, v := range vals {
			if v > top {
				top = v
			}
		}
		vals = append(vals, 0, top+1, 0x80000001, 0xFFFFFFFF)
		for i := 0; i < ctx.N(1, 20); i++ {
			vals = append(vals, uint32(r.U64()))
		}
		texts := append([]string{"", "1", "0x1", "0x00000001", "0X1", "4294967296", "Foo"}, names...)
		if len(names) > 0 {
			texts = append(texts, strings.ToLower(names[0]), " "+names[0], names[0]+" ")
		}
		for _, en := range e.dump.Enums { // names of the foreign enumeration: not names of this type
			if en.Tag == foreign {
				for i, x := range en.ByName {
					if i < 3 || ctx.Thor {
						texts = append(texts, x.Name)
					}
				}
			}
		}
		for _, elem := range elems {
			for _, v := range vals {
				e.typedEnum(ctx, t.Name, elem, v)
			}
			for _, s := range texts {
				e.typedParse(ctx, t.Name, elem, s)
			}
		}
	}
	for _, t := range e.dump.BitmaskTypes {
		own := int(t.Value)
		if _, ok := e.types[t.Name]; !ok {
			continue
		}
		other, anEnum := 0, 0
		for _, m := range e.dump.Bitmasks {
			if m.Tag != own {
				other = m.Tag
			}
		}
		if len(withTable) > 0 {
			anEnum = withTable[0]
		}
		elems := elemsFor(t.Name, own, other, anEnum)
		names := e.live.masks[own]
		vals := []uint32{0, 3, 5, 0xFFFFFFFF, 0x80000001, 0x7FFFFFFF}
		for i := 0; i < 32; i++ {
			vals = append(vals, uint32(1)<<uint(i))
		}
		if n := len(names); n > 0 && n < 32 {
			vals = append(vals, uint32(1)<<uint(n)-1)
		}
		for i := 0; i < ctx.N(20, 1000); i++ {
			v := uint32(r.U64())
			if n := len(names); i%2 == 0 && n > 0 && n < 32 {
				v &= uint32(1)<<uint(n) - 1
			}
			vals = append(vals, v)
		}
		texts := []string{"", "1", "0x1", "3", "0x80000000", "Foo", "Sign Verify", "Sign|Verify", "Sign | Verify", "OnLineStorage", "OnLineStorage ArchivalStorage"}
		for i, n := range names {
			texts = append(texts, n)
			if i+1 < len(names) {
				texts = append(texts, n+" "+names[i+1], n+"|"+names[i+1])
			}
		}
		texts = append(texts, e.live.masks[other]...)
		for _, elem := range elems {
			for _, v := range vals {
				e.typedMask(ctx, t.Name, elem, v)
			}
			for _, s := range texts {
				e.typedMaskParse(ctx, t.Name, elem, s)
			}
		}
	}
}

// replay evaluates exactly the given protocol lines.
func (e *regEnv) replay(ctx *Ctx) {
	for _, l := range ctx.Replay {
		f := strings.Fields(l)
		if len(f) < 2 {
			continue
		}
		if e.replayScope(ctx, f) {
			continue
		}
		num := func(i int) (uint64, bool) {
			if i >= len(f) {
				return 0, false
			}
			v, err := strconv.ParseUint(f[i], 10, 64)
			return v, err == nil
		}
		txt := func(i int) (string, bool) {
			if i >= len(f) {
				return "", false
			}
			return regUnhex(f[i])
		}
		switch f[0] {
		case "reg.tagname", "reg.tagxml":
			if t, ok := num(1); ok {
				e.tagName(ctx, int(t))
			}
		case "reg.tagnum":
			if s, ok := txt(1); ok {
				e.tagNum(ctx, s)
			}
		case "reg.enumname", "reg.enumtext":
			t, ok1 := num(1)
			v, ok2 := num(2)
			if ok1 && ok2 {
				e.enumName(ctx, int(t), uint32(v))
				e.enumText(ctx, int(t), uint32(v))
				e.enumRoundTrip(ctx, int(t), uint32(v), ttlv.EnumName(int(t), uint32(v)))
			}
		case "reg.enumbyname", "reg.enumparse", "reg.enumunmarshal":
			t, ok1 := num(1)
			s, ok2 := txt(2)
			if ok1 && ok2 {
				e.enumByName(ctx, int(t), s)
				e.enumParse(ctx, int(t), s)
				e.enumUnmarshal(ctx, int(t), s)
			}
		case "reg.masktext":
			t, ok1 := num(1)
			sep, ok2 := txt(2)
			v, ok3 := num(3)
			if ok1 && ok2 && ok3 {
				e.maskText(ctx, int(t), sep, uint32(v))
				n := 0
				for _, m := range e.dump.Bitmasks {
					if m.Tag == int(t) {
						n = len(m.Names)
					}
				}
				e.maskRoundTrip(ctx, int(t), uint32(v), n)
			}
		case "reg.typedenum", "reg.typedparse", "reg.typedmask", "reg.typedmaskxml", "reg.typedmaskjson":
			ty, ok1 := txt(1)
			el, ok2 := num(2)
			if !ok1 || !ok2 {
				continue
			}
			switch f[0] {
			case "reg.typedenum":
				if v, ok := num(3); ok {
					e.typedEnum(ctx, ty, int(el), uint32(v))
				}
			case "reg.typedparse":
				if s, ok := txt(3); ok {
					e.typedParse(ctx, ty, int(el), s)
				}
			case "reg.typedmask":
				if v, ok := num(4); ok {
					e.typedMask(ctx, ty, int(el), uint32(v))
				}
			default:
				if s, ok := txt(3); ok {
					e.typedMaskParse(ctx, ty, int(el), s)
				}
			}
		case "reg.maskbyname", "reg.maskxml", "reg.maskjson", "reg.maskunmarshal":
			t, ok1 := num(1)
			s, ok2 := txt(2)
			if ok1 && ok2 {
				e.maskByName(ctx, int(t), s)
				e.maskRead(ctx, "xml", int(t), s)
				e.maskRead(ctx, "json", int(t), s)
				e.maskRead(ctx, "unmarshal", int(t), s)
			}
		}
	}
	// the registry-wide oracles are cheap: run them on replay too, so that a violation found by them replays
	e.oracles(ctx)
}
