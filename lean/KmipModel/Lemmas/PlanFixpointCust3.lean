/-
  C18 (typed layer) — the hand-written codecs with union-like members: Credential (CredentialValue)
  and KeyBlock (KeyValue, PlainKeyValue, KeyMaterial).  For every value the decoder returns there is a
  conforming twin the encoder cannot tell from it — EXCEPT when the selected member of
  CredentialValue / KeyMaterial is absent from the input (all members nil): such a value has no
  conforming twin (`normSameTag` wants exactly one member set); that case is the second disjunct of
  `fcust_credential` / `fcust_keyBlock`.
-/
import KmipModel.Lemmas.PlanFixpointQuiet
import KmipModel.Lemmas.PlanFixpoint2
namespace Kmip
set_option linter.unusedVariables false

/-! ## Union-like structs: lists with (at most) one member set -/

/-- the members of a union-like struct value: member `i` is `x`, all others nil. -/
def fxc_mk (L i : Nat) (x : Val) : List Val :=
  (List.range L).map fun j => if j = i then x else Val.ptr none

theorem fxc_mk_zero (L : Nat) (x : Val) : fxc_mk (L + 1) 0 x = x :: List.replicate L (.ptr none) :=
  range_map_zero L x (.ptr none)

theorem fxc_mk_succ (L i : Nat) (x : Val) : fxc_mk (L + 1) (i + 1) x = .ptr none :: fxc_mk L i x :=
  range_map_shift L i x (.ptr none)

theorem fxc_mk_nil (L i : Nat) : fxc_mk L i (.ptr none) = List.replicate L (.ptr none) := by
  unfold fxc_mk
  simp only [ite_self, List.map_const', List.length_range]

theorem fxc_depth_len : ∀ xs : List Val, xs.length + 2 ≤ Val.edepthList xs
  | [] => by simp [Val.edepthList]
  | x :: xs => by
    have := fxc_depth_len xs
    simp only [Val.edepthList, List.length_cons]; omega

theorem fxc_mk_length (L i : Nat) (x : Val) : (fxc_mk L i x).length = L := by
  unfold fxc_mk; simp

theorem fxc_depth_mk : ∀ (L i : Nat) (x : Val), i < L → x.edepth + i + 1 ≤ Val.edepthList (fxc_mk L i x)
  | 0, _, _, h => by omega
  | L + 1, 0, x, _ => by rw [fxc_mk_zero]; simp only [Val.edepthList]; omega
  | L + 1, i + 1, x, h => by
    have := fxc_depth_mk L i x (by omega)
    rw [fxc_mk_succ]; simp only [Val.edepthList]; omega

theorem fxc_nilRest : ∀ (ks : List Kind) (n : Nat), (∀ k ∈ ks, ∃ k0, k = Kind.ptr k0) → ks.length < n →
    nilRest n ks (List.replicate ks.length (.ptr none)) = true
  | [], n, _, h => by
    obtain ⟨m, rfl⟩ : ∃ m, n = m + 1 := ⟨n - 1, by simp at h; omega⟩
    simp [nilRest]
  | k :: ks, n, hp, h => by
    obtain ⟨m, rfl⟩ : ∃ m, n = m + 1 := ⟨n - 1, by simp at h; omega⟩
    obtain ⟨k0, rfl⟩ := hp k (List.mem_cons_self ..)
    rw [List.length_cons, List.replicate_succ]
    simp only [nilRest]
    exact fxc_nilRest ks m (fun k hk => hp k (List.mem_cons_of_mem _ hk)) (by simp at h; omega)

theorem fxc_union_ptr {S : Schema} {ks : List Kind} (h : S.unionKindsOK ks = true) :
    ∀ k ∈ ks, ∃ k0, k = Kind.ptr k0 ∧ k0.definite = true ∧ S.decodable k0 = true := by
  intro k hk
  simp only [Schema.unionKindsOK, List.all_eq_true] at h
  have := h k hk
  split at this
  · rename_i k0
    simp only [Bool.and_eq_true] at this
    exact ⟨k0, rfl, this.1, this.2⟩
  · contradiction

theorem fxc_all_ptr {S : Schema} {ks : List Kind} (h : S.unionKindsOK ks = true) :
    ∀ k ∈ ks, ∃ k0, k = Kind.ptr k0 := by
  intro k hk
  obtain ⟨k0, hk0, _⟩ := fxc_union_ptr h k hk
  exact ⟨k0, hk0⟩

/-- all members nil: nothing is emitted. -/
theorem fxc_same_nil (S : Schema) (tag : Nat) (ks : List Kind) (n : Nat)
    (hp : ∀ k ∈ ks, ∃ k0, k = Kind.ptr k0) (hn : ks.length < n) (ver : Option Ver) :
    encSameTag S n ks tag (List.replicate ks.length (.ptr none)) ver = .ok ([], ver) :=
  (nilRest_spec S tag n ks _ (fxc_nilRest ks n hp hn)).2 ver

/-- member `i` set (decoded `y`, twin `wy`, normal form `wy'`). -/
theorem fxc_same (S : Schema) (tag : Nat) (k' : Kind) (hdef : k'.definite = true) (y wy wy' : Val)
    (items : List Item) (ver ver' : Option Ver) (m : Nat)
    (hn : normK S m k' tag wy ver = some (wy', ver'))
    (he : encK S m k' tag y ver = .ok (items, ver'))
    (hew : encK S m k' tag wy ver = .ok (items, ver')) :
    ∀ (i : Nat) (ks : List Kind), ks[i]? = some (.ptr k') → (∀ k ∈ ks, ∃ k0, k = Kind.ptr k0) →
      ks.length ≤ m + i + 1 →
      normSameTag S (m + i + 2) ks tag (fxc_mk ks.length i (.ptr (some wy))) ver
          = some (fxc_mk ks.length i (.ptr (some wy')), ver')
      ∧ encSameTag S (m + i + 2) ks tag (fxc_mk ks.length i (.ptr (some y))) ver = .ok (items, ver')
      ∧ encSameTag S (m + i + 2) ks tag (fxc_mk ks.length i (.ptr (some wy))) ver = .ok (items, ver')
      ∧ firstNonNil (fxc_mk ks.length i (.ptr (some wy'))) = some i := by
  intro i
  induction i with
  | zero =>
    intro ks hki hp hlen
    cases ks with
    | nil => simp at hki
    | cons k ks =>
    simp only [List.getElem?_cons_zero, Option.some.injEq] at hki
    subst hki
    have hp' : ∀ k ∈ ks, ∃ k0, k = Kind.ptr k0 := fun k hk => hp k (List.mem_cons_of_mem _ hk)
    have hl : ks.length < m + 1 := by simp only [List.length_cons] at hlen; omega
    have hnil := fxc_nilRest ks (m + 1) hp' hl
    have henil := fxc_same_nil S tag ks (m + 1) hp' hl
    simp only [List.length_cons, fxc_mk_zero, Nat.add_zero]
    refine ⟨?_, ?_, ?_, by simp [firstNonNil]⟩
    · rw [normSameTag_cons]
      simp only [hnil, if_true]
      rw [normK_ptr]
      simp only [hdef, if_true, hn]
    · rw [encSameTag_cons, encK_ptr_some]
      simp only [he, Res.ok_bind, henil, Res.pure_eq, List.append_nil]
    · rw [encSameTag_cons, encK_ptr_some]
      simp only [hew, Res.ok_bind, henil, Res.pure_eq, List.append_nil]
  | succ i ih =>
    intro ks hki hp hlen
    cases ks with
    | nil => simp at hki
    | cons k ks =>
    simp only [List.getElem?_cons_succ] at hki
    obtain ⟨k0, rfl⟩ := hp k (List.mem_cons_self ..)
    have hp' : ∀ k ∈ ks, ∃ k0, k = Kind.ptr k0 := fun k hk => hp k (List.mem_cons_of_mem _ hk)
    obtain ⟨h1, h2, h3, h4⟩ := ih ks hki hp' (by simp only [List.length_cons] at hlen; omega)
    have hf : m + (i + 1) + 2 = (m + i + 1) + 1 + 1 := by omega
    have hf' : m + i + 2 = (m + i + 1) + 1 := by omega
    rw [hf' ] at h1 h2 h3
    simp only [List.length_cons, fxc_mk_succ]
    rw [hf]
    refine ⟨?_, ?_, ?_, by simp [firstNonNil, h4]⟩
    · rw [normSameTag_cons]; simp only [h1]
    · rw [encSameTag_cons, encK_ptr_none]
      simp only [Res.ok_bind, h2, Res.pure_eq, List.nil_append]
    · rw [encSameTag_cons, encK_ptr_none]
      simp only [Res.ok_bind, h3, Res.pure_eq, List.nil_append]

/-- a union-like struct through `normK`/`encK` at its struct kind. -/
theorem fxc_union_struct (S : Schema) (cv code : Nat) (hc : isUnionCode code)
    (hec : (S.structDef cv).encCustom = true) (hcode : (S.structDef cv).custom = code)
    (n tag : Nat) (xs : List Val) (ver : Option Ver) :
    normK S (n + 2) (.struct cv) tag (.struct xs) ver =
      (match normSameTag S n (customFieldKinds S code) tag xs ver with
       | some (fs', ver') => some (.struct fs', ver')
       | none => none)
    ∧ encK S (n + 2) (.struct cv) tag (.struct xs) ver
        = encSameTag S n (customFieldKinds S code) tag xs ver := by
  constructor
  · rw [normK_struct]; simp only [hec, if_true, hcode]; rw [normCustom_union S n code tag hc]; rfl
  · rw [encK_struct]; simp only [hec, if_true, hcode]; rw [encCustom_union S n code tag hc]

theorem fxc_kindTagOK_ptr {S : Schema} {k' : Kind} (hdef : k'.definite = true) (tag : Nat)
    (h : S.kindTagOK (.ptr k') tag = true) : S.kindTagOK k' tag = true := by
  unfold Schema.kindTagOK at h ⊢
  rw [definite_base hdef]; exact h

theorem fxc_decK_unsupported (S : Schema) (fd tag : Nat) (c : Cur) (ver : Option Ver) (r : Val × DecSt) :
    decK S fd .unsupported tag c ver ≠ .ok r := by
  cases fd with
  | zero => rw [decK_zero]; intro h; cases h
  | succ f => simp only [decK]; intro h; cases h

/-! ## `goodU` of union-like structs and of their parents -/

theorem fxc_anyNonNil_replicate (L : Nat) : anyNonNil (List.replicate L (.ptr none)) = false := by
  induction L with
  | zero => rfl
  | succ L ih => rw [List.replicate_succ]; simp only [anyNonNil]; exact ih

theorem fxc_goodL_mk (S : Schema) (x : Val) : ∀ (i : Nat) (ks : List Kind) (k : Kind), ks[i]? = some k →
    goodL S ks (fxc_mk ks.length i x) = true → goodU S k x = true
  | _, [], _, h, _ => by simp at h
  | 0, k0 :: ks, k, h, hg => by
    simp only [List.getElem?_cons_zero, Option.some.injEq] at h
    subst h
    simp only [List.length_cons, fxc_mk_zero, goodL, Bool.and_eq_true] at hg
    exact hg.1
  | i + 1, k0 :: ks, k, h, hg => by
    simp only [List.getElem?_cons_succ] at h
    simp only [List.length_cons, fxc_mk_succ, goodL, Bool.and_eq_true] at hg
    exact fxc_goodL_mk S x i ks k h hg.2

theorem fxc_goodU_union (S : Schema) (cv code : Nat) (hc : isUnionCode code)
    (hec : (S.structDef cv).encCustom = true) (hcode : (S.structDef cv).custom = code) (fs : List Val) :
    goodU S (.struct cv) (.struct fs)
      = ((code == Cust.keyValue || anyNonNil fs) && goodL S (customFieldKinds S code) fs) := by
  simp only [goodU, hec, hcode, Bool.true_and]
  rcases hc with rfl | rfl | rfl <;> simp

theorem fxc_goodU_refl (S : Schema) (id : Nat) (hec : (S.structDef id).encCustom = false) (fs : List Val) :
    goodU S (.struct id) (.struct fs) = goodL S ((S.structDef id).fields.map (·.kind)) fs := by
  simp only [goodU, hec, Bool.false_and, Bool.false_eq_true, if_false]

/-- the selected member of a union-like struct, as the parent's decoder reads it. -/
theorem fxc_member (S : Schema) (fd : Nat) (hK : ∀ m, m ≤ fd → FK S m) (k' : Kind)
    (hdef : k'.definite = true) (hdec : S.decodable k' = true) (hnn : k'.noNarrow = true) (tag : Nat)
    (htg : S.kindTagOK k' tag = true) (c : Cur) (ver : Option Ver) (x : Val) (c' : Cur) (ver' : Option Ver)
    (h : decK S fd (.ptr k') tag c ver = .ok (x, c', ver'))
    (hdep : x.edepth ≤ fd) (hg : goodU S (.ptr k') x = true) :
    (x = .ptr none ∧ c' = c ∧ ver' = ver) ∨
    ∃ y, x = .ptr (some y) ∧ ∀ n, y.edepth ≤ n → ∃ wy wy' items,
      normK S n k' tag wy ver = some (wy', ver') ∧ encK S n k' tag y ver = .ok (items, ver')
      ∧ encK S n k' tag wy ver = .ok (items, ver') := by
  cases fd with
  | zero => rw [decK_zero] at h; contradiction
  | succ f =>
    simp only [decK] at h
    split at h
    · simp only [Res.ok.injEq, Prod.mk.injEq] at h
      obtain ⟨rfl, rfl, rfl⟩ := h
      exact Or.inl ⟨rfl, rfl, rfl⟩
    · obtain ⟨⟨y, c1, ver1⟩, h1, h2⟩ := Res.bind_eq_ok h
      simp only [Res.pure_eq, Res.ok.injEq, Prod.mk.injEq] at h2
      obtain ⟨rfl, rfl, rfl⟩ := h2
      refine Or.inr ⟨y, rfl, fun n hn => ?_⟩
      simp only [Val.edepth] at hdep
      simp only [goodU] at hg
      obtain ⟨wy, wy', items, a, b, c, _⟩ :=
        hK f (by omega) k' tag c ver y _ _ hdec (definite_shapeOK hdef) hnn htg h1 (by omega) hg n hn
      exact ⟨wy, wy', items, a, b, c⟩

/-- member `i` of the union-like struct with kinds `ks`, read under `tag`: nil, or set with a twin. -/
theorem fxc_member_at (S : Schema) (N : Nat) (hX : FixOK S N) (fd : Nat) (hK : ∀ m, m ≤ fd → FK S m)
    (code : Nat) (hu : S.unionKindsOK (customFieldKinds S code) = true)
    (hz : ∀ k ∈ customFieldKinds S code, S.kindTagOK k 0 = true)
    (i tag : Nat) (c : Cur) (ver : Option Ver) (x : Val) (c' : Cur) (ver' : Option Ver)
    (h : decK S fd ((customFieldKinds S code).getD i .unsupported) tag c ver = .ok (x, c', ver'))
    (hdep : x.edepth ≤ fd)
    (hg : goodL S (customFieldKinds S code) (fxc_mk (customFieldKinds S code).length i x) = true) :
    ∃ k', (customFieldKinds S code)[i]? = some (.ptr k') ∧ k'.definite = true ∧
    ((x = .ptr none ∧ c' = c ∧ ver' = ver) ∨
     ∃ y, x = .ptr (some y) ∧ ∀ n, y.edepth ≤ n → ∃ wy wy' items,
      normK S n k' tag wy ver = some (wy', ver') ∧ encK S n k' tag y ver = .ok (items, ver')
      ∧ encK S n k' tag wy ver = .ok (items, ver')) := by
  rw [List.getD_eq_getElem?_getD] at h
  cases hki : (customFieldKinds S code)[i]? with
  | none =>
    rw [hki] at h
    exact absurd h (fxc_decK_unsupported S fd tag c ver _)
  | some k =>
    rw [hki] at h
    have hmem := List.mem_of_getElem? hki
    obtain ⟨k', rfl, hdef, hdec⟩ := fxc_union_ptr hu k hmem
    have hnn : (Kind.ptr k').noNarrow = true := hX.custKinds code hmem
    exact ⟨k', rfl, hdef, fxc_member S fd hK k' hdef hdec hnn tag
      (fxc_kindTagOK_ptr hdef tag (kindTagOK_of_zero (hz _ hmem) tag)) c ver x c' ver' h hdep
      (fxc_goodL_mk S x i _ _ hki hg)⟩

/-! ## Scalar members -/

theorem fxc_enc_enum (S : Schema) (f t0 tag : Nat) (t : Int) (ver : Option Ver) :
    encK S (f + 1) (.enum t0) tag (.int t) ver = .ok ([.enum tag t.toNat], ver) := by rw [encK]


theorem fxc_norm_enum (S : Schema) (m t0 tag : Nat) (t : Int) (ht : isU32 t = true) (w0 : Option Ver) :
    normK S (m + 1) (.enum t0) tag (.int t) w0 = some (.int t, w0) := by
  simp only [normK, ht, if_true]

theorem fxc_not_attr (S : Schema) (id code : Nat) (hcode : (S.structDef id).custom = code)
    (hne : code ≠ Cust.attr) (v w' : Val) : obsRel S (.struct id) v w' := by
  unfold obsRel
  intro h
  exact absurd (hcode ▸ h.2) hne

theorem fxc_enum_int (S : Schema) (fd t0 tag : Nat) (c : Cur) (ver : Option Ver) (v : Val) (c' : Cur)
    (ver' : Option Ver) (h : decK S fd (.enum t0) tag c ver = .ok (v, c', ver')) :
    ∃ t, v = .int t ∧ isU32 t = true ∧ ver = ver' := by
  cases fd with
  | zero => rw [decK_zero] at h; contradiction
  | succ f =>
    simp only [decK] at h
    obtain ⟨⟨x, c1⟩, h1, h2⟩ := Res.bind_eq_ok h
    simp only [Res.pure_eq, Res.ok.injEq, Prod.mk.injEq] at h2
    obtain ⟨rfl, rfl, rfl⟩ := h2
    exact ⟨_, rfl, isU32_cast (Cur.enum_inv h1), rfl⟩

/-! ## Field steps of a reflectively encoded struct -/

/-- decoded members `vs`, twins `ws` with normal forms `ws'`: same items, same cell. -/
def fxc_FT (S : Schema) (n : Nat) (fs : List Field) (vs ws ws' : List Val) (items : List Item)
    (ver ver' : Option Ver) : Prop :=
  normFields S n fs ws ver = some (ws', ver') ∧ encFields S n fs vs ver = .ok (items, ver')
    ∧ encFields S n fs ws ver = .ok (items, ver')

theorem fxc_ft_nil (S : Schema) (n : Nat) (ver : Option Ver) : fxc_FT S (n + 1) [] [] [] [] [] ver ver :=
  ⟨normFields_nil .., encFields_nil .., encFields_nil ..⟩

theorem fxc_ft_plain (S : Schema) (n : Nat) (g : Field) (t : Nat) (hp : g.plainWith t = true)
    (gs : List Field) (v w w' : Val) (vs ws ws' : List Val) (a b : List Item) (ver ver1 ver' : Option Ver)
    (hn : normK S n g.kind t w ver = some (w', ver1)) (he : encK S n g.kind t v ver = .ok (a, ver1))
    (hew : encK S n g.kind t w ver = .ok (a, ver1)) (ht : fxc_FT S n gs vs ws ws' b ver1 ver') :
    fxc_FT S (n + 1) (g :: gs) (v :: vs) (w :: ws) (w' :: ws') (a ++ b) ver ver' := by
  obtain ⟨t1, t2, t3⟩ := ht
  refine ⟨?_, ?_, ?_⟩
  · rw [normFields_plain_cons S n g t hp]; simp only [hn, t1]
  · rw [encFields_plain_cons S n g t hp]; simp only [he, Res.ok_bind, t2, Res.pure_eq]
  · rw [encFields_plain_cons S n g t hp]; simp only [hew, Res.ok_bind, t3, Res.pure_eq]

theorem fxc_intKind_scalar {k : Kind} (hk : k.isEnum = true ∨ k = .i32) : k.scalar = true := by
  rcases hk with h | h
  · exact enum_scalar h
  · rw [h]; rfl

theorem fxc_intKind_noNarrow {k : Kind} (hk : k.isEnum = true ∨ k = .i32) : k.noNarrow = true := by
  rcases hk with h | h
  · obtain ⟨t0, rfl⟩ := isEnum_iff h; rfl
  · rw [h]; rfl

/-- an optional enum / i32 field: the twin is the decoded integer itself. -/
theorem fxc_ft_optInt (S : Schema) (n : Nat) (g : Field) (t : Nat) (hp : g.optWith t = true)
    (hk : g.kind.isEnum = true ∨ g.kind = .i32) (x : Int)
    (hnm : ∀ m w0, normK S (m + 1) g.kind t (.int x) w0 = some (.int x, w0))
    (gs : List Field) (vs ws ws' : List Val) (b : List Item) (ver ver' : Option Ver)
    (ht : fxc_FT S (n + 1) gs vs ws ws' b ver ver') :
    ∃ a, fxc_FT S (n + 2) (g :: gs) (.int x :: vs) (.int x :: ws) (.int x :: ws') (a ++ b) ver ver' := by
  obtain ⟨t1, t2, t3⟩ := ht
  by_cases hx : x = 0
  · subst hx
    have hz : (Val.int 0).isZero = true := rfl
    have hzk : isZeroOfKind g.kind (.int 0) = true := by
      rcases hk with h | h
      · obtain ⟨t0, h⟩ := isEnum_iff h; rw [h]; rfl
      · rw [h]; rfl
    refine ⟨[], ?_, ?_, ?_⟩
    · rw [normFields_opt_cons S _ g t hp]; simp only [hz, hzk, if_true, t1]
    · rw [encFields_opt_cons S _ g t hp]; simp only [hz, if_true, Res.ok_bind, t2, Res.pure_eq, List.nil_append]
    · rw [encFields_opt_cons S _ g t hp]; simp only [hz, if_true, Res.ok_bind, t3, Res.pure_eq, List.nil_append]
  · have hz : (Val.int x).isZero = false := by simp [Val.isZero, hx]
    obtain ⟨_, it, he, _⟩ := scalar_rt S n g.kind (fxc_intKind_scalar hk) t (.int x) (.int x) ver ver (hnm n ver)
    refine ⟨[it], ?_, ?_, ?_⟩
    · rw [normFields_opt_cons S _ g t hp]; simp only [hz, Bool.false_eq_true, if_false, hnm n ver, t1]
    · rw [encFields_opt_cons S _ g t hp]
      simp only [hz, Bool.false_eq_true, if_false, he, Res.ok_bind, t2, Res.pure_eq]
    · rw [encFields_opt_cons S _ g t hp]
      simp only [hz, Bool.false_eq_true, if_false, he, Res.ok_bind, t3, Res.pure_eq]

theorem fxc_zeroOf_int (S : Schema) (f : Nat) {k : Kind} (hk : k.isEnum = true ∨ k = .i32) :
    zeroOf S f k = .int 0 := by
  cases f with
  | zero => rw [zeroOf]
  | succ f =>
    rcases hk with h | h
    · obtain ⟨t0, rfl⟩ := isEnum_iff h; rw [zeroOf]
    · rw [h, zeroOf]

/-- `d.Opt` on an enum / i32 field. -/
theorem fxc_optInt (S : Schema) (fd : Nat) (k : Kind) (hk : k.isEnum = true ∨ k = .i32) (t : Nat)
    (c : Cur) (ver : Option Ver) (v : Val) (c1 : Cur) (ver1 : Option Ver)
    (h : decOpt S fd k t c ver = .ok (v, c1, ver1)) :
    ∃ x, v = .int x ∧ ver = ver1 ∧ ∀ m w0, normK S (m + 1) k t (.int x) w0 = some (.int x, w0) := by
  cases fd with
  | zero => rw [decOpt] at h; contradiction
  | succ f =>
    rw [decOpt_succ] at h
    split at h
    · obtain ⟨hv, hn⟩ := dec_scalar S f k (fxc_intKind_scalar hk) (fxc_intKind_noNarrow hk) t c ver v c1 ver1 h
      have h0 := hn 0 none
      rcases hk with hk | hk
      · obtain ⟨t0, rfl⟩ := isEnum_iff hk
        cases v with
        | int x => exact ⟨x, rfl, hv.symm, hn⟩
        | _ => simp only [normK] at h0 <;> contradiction
      · subst hk
        cases v with
        | int x => exact ⟨x, rfl, hv.symm, hn⟩
        | _ => simp only [normK] at h0 <;> contradiction
    · simp only [Res.ok.injEq, Prod.mk.injEq] at h
      obtain ⟨hv, _, hw⟩ := h
      rw [fxc_zeroOf_int S f hk] at hv
      refine ⟨0, hv.symm, hw, fun m w0 => ?_⟩
      rcases hk with hk | hk
      · obtain ⟨t0, rfl⟩ := isEnum_iff hk
        simp only [normK]; rfl
      · subst hk
        simp only [normK]; rfl

/-! ## The union-like member of a parent decoded by hand -/

/-- a union-like struct whose member `i` was read by the parent's decoder. -/
theorem fxc_union_step (S : Schema) (N : Nat) (hX : FixOK S N) (fd : Nat) (hK : ∀ m, m ≤ fd → FK S m)
    (cv code : Nat) (hc : isUnionCode code) (hcne : code ≠ Cust.keyValue)
    (hec : (S.structDef cv).encCustom = true) (hcode : (S.structDef cv).custom = code)
    (hu : S.unionKindsOK (customFieldKinds S code) = true)
    (hz : ∀ k ∈ customFieldKinds S code, S.kindTagOK k 0 = true)
    (i tag : Nat) (c : Cur) (ver : Option Ver) (x : Val) (c' : Cur) (ver' : Option Ver)
    (h : decK S fd ((customFieldKinds S code).getD i .unsupported) tag c ver = .ok (x, c', ver'))
    (hdep : x.edepth ≤ fd)
    (hg : goodU S (.struct cv) (.struct (fxc_mk (customFieldKinds S code).length i x)) = true) :
    ∀ n, (Val.struct (fxc_mk (customFieldKinds S code).length i x)).edepth ≤ n → ∃ wy wy' items,
      normK S n (.struct cv) tag (.struct (fxc_mk (customFieldKinds S code).length i (.ptr (some wy)))) ver
        = some (.struct (fxc_mk (customFieldKinds S code).length i (.ptr (some wy'))), ver')
      ∧ encK S n (.struct cv) tag (.struct (fxc_mk (customFieldKinds S code).length i x)) ver = .ok (items, ver')
      ∧ encK S n (.struct cv) tag (.struct (fxc_mk (customFieldKinds S code).length i (.ptr (some wy)))) ver
          = .ok (items, ver')
      ∧ firstNonNil (fxc_mk (customFieldKinds S code).length i (.ptr (some wy'))) = some i := by
  rw [fxc_goodU_union S cv code hc hec hcode] at hg
  simp only [Bool.and_eq_true, Bool.or_eq_true, beq_iff_eq] at hg
  obtain ⟨hany0, hgl⟩ := hg
  have hany : anyNonNil (fxc_mk (customFieldKinds S code).length i x) = true := by
    rcases hany0 with h | h
    · exact absurd h hcne
    · exact h
  obtain ⟨k', hki, hdef, hcase⟩ := fxc_member_at S N hX fd hK code hu hz i tag c ver x c' ver' h hdep hgl
  rcases hcase with ⟨rfl, _, _⟩ | ⟨y, rfl, htw⟩
  · rw [fxc_mk_nil, fxc_anyNonNil_replicate] at hany
    contradiction
  · intro n hn
    have hil : i < (customFieldKinds S code).length := by
      rcases Nat.lt_or_ge i (customFieldKinds S code).length with h | h
      · exact h
      · rw [List.getElem?_eq_none h] at hki; cases hki
    have hdm := fxc_depth_mk _ i (.ptr (some y)) hil
    have hlen := fxc_depth_len (fxc_mk (customFieldKinds S code).length i (.ptr (some y)))
    rw [fxc_mk_length] at hlen
    simp only [Val.edepth] at hdm hn
    obtain ⟨m, rfl⟩ : ∃ m, n = (m + i + 2) + 2 := ⟨n - i - 4, by omega⟩
    obtain ⟨wy, wy', items, hnm, he, hew⟩ := htw m (by omega)
    obtain ⟨s1, s2, s3, s4⟩ := fxc_same S tag k' hdef y wy wy' items ver ver' m hnm he hew i
      _ hki (fxc_all_ptr hu) (by omega)
    refine ⟨wy, wy', items, ?_, ?_, ?_, s4⟩
    · rw [(fxc_union_struct S cv code hc hec hcode (m + i + 2) tag _ ver).1, s1]
    · rw [(fxc_union_struct S cv code hc hec hcode (m + i + 2) tag _ ver).2, s2]
    · rw [(fxc_union_struct S cv code hc hec hcode (m + i + 2) tag _ ver).2, s3]

/-! ## Credential -/

set_option maxHeartbeats 1000000 in
theorem fxc_credential_core (S : Schema) (N : Nat) (hX : FixOK S N) (fd : Nat)
    (hK : ∀ m, m ≤ fd → FK S m)
    (id tag : Nat) (c : Cur) (ver : Option Ver) (v : Val) (c' : Cur) (ver' : Option Ver)
    (g0 g1 : Field) (cv t0 : Nat) (hF : (S.structDef id).fields = [g0, g1])
    (hec : (S.structDef id).encCustom = false) (hcode : (S.structDef id).custom = Cust.credential)
    (h0 : g0.plainWith T.credentialType = true) (h0k : g0.kind = .enum t0)
    (h1 : g1.plainWith T.credentialValue = true) (h1k : g1.kind = .struct cv)
    (hcve : (S.structDef cv).encCustom = true) (hcvc : (S.structDef cv).custom = Cust.credentialValue)
    (hcvu : S.unionKindsOK (customFieldKinds S Cust.credentialValue) = true)
    (h : decCustom S (fd + 1) Cust.credential id tag c ver = .ok (v, c', ver'))
    (hfd : v.edepth ≤ fd + 2) (hg : goodU S (.struct id) v = true) :
    ∀ n, v.edepth ≤ n → ∃ w w' items, normK S n (.struct id) tag w ver = some (w', ver')
      ∧ encK S n (.struct id) tag v ver = .ok (items, ver') ∧ encK S n (.struct id) tag w ver = .ok (items, ver')
      ∧ intView w' = none ∧ obsRel S (.struct id) v w' := by
  intro n hn
  have hg0 : ((S.structDef id).fields.getD 0 fieldDflt).kind = .enum t0 := by rw [hF]; exact h0k
  rw [decCustom_credential, hg0] at h
  obtain ⟨it, _, ha⟩ := Res.bind_eq_ok h
  obtain ⟨c0, _, hb⟩ := Res.bind_eq_ok ha
  obtain ⟨⟨v0, ver0⟩, hin, hc⟩ := Res.bind_eq_ok hb
  obtain ⟨c2, _, hd⟩ := Res.bind_eq_ok hc
  clear h ha hb hc
  simp only [Res.pure_eq, Res.ok.injEq, Prod.mk.injEq] at hd
  obtain ⟨rfl, rfl, rfl⟩ := hd
  obtain ⟨⟨ct, c1, v1⟩, hct, hin1⟩ := Res.bind_eq_ok hin
  clear hin
  obtain ⟨t, hcteq, htu, hv1⟩ := fxc_enum_int S fd t0 _ c0 ver ct c1 v1 hct
  subst hv1
  dsimp only at hin1
  by_cases hcond : ct.asInt = 1 ∨ ct.asInt = 2 ∨ ct.asInt = 3
  · rw [if_pos hcond] at hin1
    subst hcteq
    dsimp only [Val.asInt] at hin1 hcond
    obtain ⟨⟨x, c3, v2⟩, hx, hin2⟩ := Res.bind_eq_ok hin1
    clear hin1
    simp only [Res.pure_eq, Res.ok.injEq, Prod.mk.injEq] at hin2
    obtain ⟨hv0, hv2⟩ := hin2
    subst hv0
    subst hv2
    -- the value, in terms of `fxc_mk`
    change (Val.struct [.int t, .struct (fxc_mk (customFieldKinds S Cust.credentialValue).length
      (t.toNat - 1) x)]).edepth ≤ fd + 2 at hfd
    change (Val.struct [.int t, .struct (fxc_mk (customFieldKinds S Cust.credentialValue).length
      (t.toNat - 1) x)]).edepth ≤ n at hn
    change goodU S (.struct id) (Val.struct [.int t, .struct (fxc_mk
      (customFieldKinds S Cust.credentialValue).length (t.toNat - 1) x)]) = true at hg
    show ∃ w w' items, normK S n (.struct id) tag w ver = some (w', v2)
      ∧ encK S n (.struct id) tag (Val.struct [.int t, .struct (fxc_mk
          (customFieldKinds S Cust.credentialValue).length (t.toNat - 1) x)]) ver = .ok (items, v2)
      ∧ encK S n (.struct id) tag w ver = .ok (items, v2)
      ∧ intView w' = none ∧ obsRel S (.struct id) (Val.struct [.int t, .struct (fxc_mk
          (customFieldKinds S Cust.credentialValue).length (t.toNat - 1) x)]) w'
    rw [fxc_goodU_refl S id hec, hF] at hg
    simp only [List.map_cons, List.map_nil, goodL, Bool.and_eq_true, h1k] at hg
    simp only [Val.edepth, Val.edepthList] at hfd hn
    have hz : ∀ k ∈ customFieldKinds S Cust.credentialValue, S.kindTagOK k 0 = true :=
      fun k hk => hX.union k (List.mem_append_left _ hk)
    have hxd : x.edepth ≤ fd := by
      by_cases hil : t.toNat - 1 < (customFieldKinds S Cust.credentialValue).length
      · have := fxc_depth_mk _ _ x hil; omega
      · rw [List.getD_eq_getElem?_getD, List.getElem?_eq_none (by omega)] at hx
        exact absurd hx (fxc_decK_unsupported S fd _ c1 ver _)
    have hcv := fxc_union_step S N hX fd hK cv Cust.credentialValue (Or.inl rfl) (by decide) hcve hcvc hcvu hz
      (t.toNat - 1) T.credentialValue c1 ver x c3 v2 hx hxd hg.2.1
    obtain ⟨q, rfl⟩ : ∃ q, n = q + 1 + 1 + 1 + 1 := ⟨n - 4, by omega⟩
    obtain ⟨wy, wy', cI, k1, k2, k3, k4⟩ := hcv (q + 1) (by simp only [Val.edepth]; omega)
    have ft1 := fxc_ft_plain S (q + 1) g1 _ h1 [] _ _ _ [] [] [] cI [] ver v2 v2
      (by rw [h1k]; exact k1) (by rw [h1k]; exact k2) (by rw [h1k]; exact k3) (fxc_ft_nil S q v2)
    have ft0 := fxc_ft_plain S (q + 1 + 1) g0 _ h0 _ (.int t) (.int t) (.int t) _ _ _
      [.enum T.credentialType t.toNat] _ ver ver v2
      (by rw [h0k]; exact fxc_norm_enum S _ t0 _ t htu ver) (by rw [h0k]; exact fxc_enc_enum S _ t0 _ t ver)
      (by rw [h0k]; exact fxc_enc_enum S _ t0 _ t ver) ft1
    have ht123 : (t == 1 || t == 2 || t == 3) = true := by
      rcases hcond with rfl | rfl | rfl <;> rfl
    refine ⟨.struct [.int t, .struct (fxc_mk (customFieldKinds S Cust.credentialValue).length (t.toNat - 1)
        (.ptr (some wy)))],
      .struct [.int t, .struct (fxc_mk (customFieldKinds S Cust.credentialValue).length (t.toNat - 1)
        (.ptr (some wy')))],
      [.struct tag ([.enum T.credentialType t.toNat] ++ (cI ++ []))], ?_, ?_, ?_, rfl,
      fxc_not_attr S id _ hcode (by decide) _ _⟩
    · rw [normK_struct]
      simp only [hec, Bool.false_eq_true, if_false, hF, ft0.1, hcode, customOk_credential, Val.field,
        List.getD_cons_zero, List.getD_cons_succ, k4, ht123, beq_self_eq_true, Bool.and_true, Bool.or_true,
        if_true]
    · rw [encK_struct]
      simp only [hec, Bool.false_eq_true, if_false, hF, ft0.2.1, Res.ok_bind, Res.pure_eq]
    · rw [encK_struct]
      simp only [hec, Bool.false_eq_true, if_false, hF, ft0.2.2, Res.ok_bind, Res.pure_eq]
  · rw [if_neg hcond] at hin1; contradiction

theorem fcust_credential (S : Schema) (N : Nat) (hU : S.unambiguous = true) (hX : FixOK S N) (fd : Nat)
    (hK : ∀ m, m ≤ fd → FK S m) (hD : ∀ m, m ≤ fd → FDyn S m)
    (id tag : Nat) (c : Cur) (ver : Option Ver) (v : Val) (c' : Cur) (ver' : Option Ver)
    (hdc : (S.structDef id).decCustom = true) (hcode : (S.structDef id).custom = Cust.credential)
    (hshape : S.customShapeOK (S.structDef id) = true)
    (htag : S.kindTagOK (.struct id) tag = true)
    (h : decCustom S (fd + 1) Cust.credential id tag c ver = .ok (v, c', ver'))
    (hfd : v.edepth ≤ fd + 2) (hg : goodU S (.struct id) v = true) :
    ∀ n, v.edepth ≤ n → ∃ w w' items, normK S n (.struct id) tag w ver = some (w', ver')
      ∧ encK S n (.struct id) tag v ver = .ok (items, ver') ∧ encK S n (.struct id) tag w ver = .ok (items, ver')
      ∧ intView w' = none ∧ obsRel S (.struct id) v w' := by
  unfold Schema.customShapeOK at hshape
  rw [hcode] at hshape
  rw [if_neg (by decide), if_neg (by decide), if_neg (by decide), if_neg (by decide), if_pos rfl] at hshape
  simp only [Bool.and_eq_true, Bool.not_eq_true', beq_iff_eq, and_assoc] at hshape
  obtain ⟨hec, hlen, h0, h0k, h1, hm⟩ := hshape
  have hF := list_len2 hlen fieldDflt
  obtain ⟨t0, h0k⟩ := isEnum_iff h0k
  split at hm
  · rename_i cv hk1
    simp only [Bool.and_eq_true, beq_iff_eq, and_assoc] at hm
    obtain ⟨hcve, hcvc, hkeq, hu⟩ := hm
    exact fxc_credential_core S N hX fd hK id tag c ver v c' ver' _ _ cv t0 hF hec hcode h0 h0k h1 hk1
      hcve hcvc (by rw [hkeq]; exact hu) h hfd hg
  · contradiction

/-! ## KeyBlock: PlainKeyValue, KeyValue -/

theorem fxc_goodU_ptr (S : Schema) (k : Kind) (x : Val) :
    goodU S (.ptr k) (.ptr (some x)) = goodU S k x := by simp only [goodU]

theorem fxc_tagOK_attrs {S : Schema} {N : Nat} (hX : FixOK S N) (tag : Nat) :
    S.kindTagOK (.slice (.struct (attributeId S))) tag = true :=
  kindTagOK_of_zero (k := .slice (.struct (attributeId S))) hX.attr tag

/-- PlainKeyValue: KeyMaterial (member `i` by the key format), then the attributes. -/
theorem fxc_pkv_step (S : Schema) (N : Nat) (hX : FixOK S N) (fd : Nat) (hK : ∀ m, m ≤ fd → FK S m)
    (pkv km : Nat) (p0 p1 : Field)
    (hec : (S.structDef pkv).encCustom = false) (hdc : (S.structDef pkv).decCustom = false)
    (hFp : (S.structDef pkv).fields = [p0, p1])
    (hp0 : p0.plainWith T.keyMaterial = true) (hp0k : p0.kind = .struct km)
    (hkme : (S.structDef km).encCustom = true) (hkmc : (S.structDef km).custom = Cust.keyMaterial)
    (hkmu : S.unionKindsOK (customFieldKinds S Cust.keyMaterial) = true)
    (hp1 : p1.plainWith T.attr = true) (hp1k : p1.kind = .slice (.struct (attributeId S)))
    (hp1d : S.decodable (.struct (attributeId S)) = true)
    (i : Nat) (c0 : Cur) (ver : Option Ver) (x : Val) (c1 : Cur) (v1 : Option Ver) (attrs : Val) (c2 : Cur)
    (v2 : Option Ver)
    (hx : decK S fd ((customFieldKinds S Cust.keyMaterial).getD i .unsupported) T.keyMaterial c0 ver
      = .ok (x, c1, v1))
    (ha : decK S fd (.slice (.struct (attributeId S))) T.attr c1 v1 = .ok (attrs, c2, v2))
    (hdx : x.edepth ≤ fd) (hda : attrs.edepth ≤ fd)
    (hg : goodU S (.struct pkv)
      (.struct [.struct (fxc_mk (customFieldKinds S Cust.keyMaterial).length i x), attrs]) = true) :
    ∀ n, (Val.struct [.struct (fxc_mk (customFieldKinds S Cust.keyMaterial).length i x), attrs]).edepth ≤ n →
    ∃ wkm wkm' wa wa' items,
      normK S n (.struct pkv) T.keyValue (.struct [.struct wkm, wa]) ver = some (.struct [.struct wkm', wa'], v2)
      ∧ encK S n (.struct pkv) T.keyValue
          (.struct [.struct (fxc_mk (customFieldKinds S Cust.keyMaterial).length i x), attrs]) ver
          = .ok (items, v2)
      ∧ encK S n (.struct pkv) T.keyValue (.struct [.struct wkm, wa]) ver = .ok (items, v2)
      ∧ firstNonNil wkm' = some i := by
  rw [fxc_goodU_refl S pkv hec, hFp] at hg
  simp only [List.map_cons, List.map_nil, goodL, Bool.and_eq_true, hp0k, hp1k] at hg
  obtain ⟨hgkm, hgat, _⟩ := hg
  have hz : ∀ k ∈ customFieldKinds S Cust.keyMaterial, S.kindTagOK k 0 = true :=
    fun k hk => hX.union k (List.mem_append_right _ hk)
  have hkm := fxc_union_step S N hX fd hK km Cust.keyMaterial (Or.inr (Or.inr rfl)) (by decide) hkme hkmc
    hkmu hz i T.keyMaterial c0 ver x c1 v1 hx hdx hgkm
  have hat := hK fd (Nat.le_refl _) (.slice (.struct (attributeId S))) T.attr c1 v1 attrs c2 v2
    (decodable_slice_of rfl hp1d) rfl rfl (fxc_tagOK_attrs hX _) ha hda hgat
  intro n hn
  simp only [Val.edepth, Val.edepthList] at hn
  obtain ⟨q, rfl⟩ : ∃ q, n = q + 1 + 1 + 1 + 1 := ⟨n - 4, by omega⟩
  obtain ⟨wy, wy', kmI, k1, k2, k3, k4⟩ := hkm (q + 1 + 1) (by simp only [Val.edepth]; omega)
  obtain ⟨wa, wa', aI, a1, a2, a3, _⟩ := hat (q + 1) (by omega)
  have ft1 := fxc_ft_plain S (q + 1) p1 _ hp1 [] attrs wa wa' [] [] [] aI [] v1 v2 v2
    (by rw [hp1k]; exact a1) (by rw [hp1k]; exact a2) (by rw [hp1k]; exact a3) (fxc_ft_nil S q v2)
  have ft0 := fxc_ft_plain S (q + 1 + 1) p0 _ hp0 [p1] _ _ _ [attrs] [wa] [wa'] kmI (aI ++ []) ver v1 v2
    (by rw [hp0k]; exact k1) (by rw [hp0k]; exact k2) (by rw [hp0k]; exact k3) ft1
  refine ⟨fxc_mk (customFieldKinds S Cust.keyMaterial).length i (.ptr (some wy)),
    fxc_mk (customFieldKinds S Cust.keyMaterial).length i (.ptr (some wy')), wa, wa',
    [.struct T.keyValue (kmI ++ (aI ++ []))], ?_, ?_, ?_, k4⟩
  · rw [normK_struct]
    simp only [hec, Bool.false_eq_true, if_false, hFp, ft0.1, hdc, Bool.not_false, Bool.true_or, if_true]
  · rw [encK_struct]
    simp only [hec, Bool.false_eq_true, if_false, hFp, ft0.2.1, Res.ok_bind, Res.pure_eq]
  · rw [encK_struct]
    simp only [hec, Bool.false_eq_true, if_false, hFp, ft0.2.2, Res.ok_bind, Res.pure_eq]

/-- shape of a normalised KeyValue that `customOk` accepts under key format `fmt`. -/
def fxc_kvShape (fmt : Nat) (w' : Val) : Prop :=
  (∃ z, w' = .struct [.ptr (some z), .ptr none]) ∨
  (∃ kms' a' i, w' = .struct [.ptr none, .ptr (some (.struct [.struct kms', a']))]
      ∧ keyMaterialIndex fmt = some i ∧ firstNonNil kms' = some i)

set_option maxHeartbeats 1000000 in
/-- `KeyValue.decode`: the wrapped (byte string) or the plain (structure) form. -/
theorem fxc_kv_step (S : Schema) (N : Nat) (hX : FixOK S N) (f : Nat) (hK : ∀ m, m ≤ f → FK S m)
    (kv pkv km : Nat) (p0 p1 : Field)
    (hkve : (S.structDef kv).encCustom = true) (hkvc : (S.structDef kv).custom = Cust.keyValue)
    (hkinds : customFieldKinds S Cust.keyValue = [.ptr .bytes, .ptr (.struct pkv)])
    (hec : (S.structDef pkv).encCustom = false) (hdc : (S.structDef pkv).decCustom = false)
    (hFp : (S.structDef pkv).fields = [p0, p1])
    (hp0 : p0.plainWith T.keyMaterial = true) (hp0k : p0.kind = .struct km)
    (hkme : (S.structDef km).encCustom = true) (hkmc : (S.structDef km).custom = Cust.keyMaterial)
    (hkmu : S.unionKindsOK (customFieldKinds S Cust.keyMaterial) = true)
    (hp1 : p1.plainWith T.attr = true) (hp1k : p1.kind = .slice (.struct (attributeId S)))
    (hp1d : S.decodable (.struct (attributeId S)) = true)
    (fmt : Nat) (c : Cur) (ver : Option Ver) (kvv : Val) (c' : Cur) (ver' : Option Ver)
    (h : decKeyValue S (f + 1) fmt c ver = .ok (kvv, c', ver'))
    (hdep : kvv.edepth ≤ f) (hg : goodU S (.struct kv) kvv = true) :
    ∀ n, kvv.edepth ≤ n → ∃ w w' items, normK S n (.struct kv) T.keyValue w ver = some (w', ver')
      ∧ encK S n (.struct kv) T.keyValue kvv ver = .ok (items, ver')
      ∧ encK S n (.struct kv) T.keyValue w ver = .ok (items, ver') ∧ fxc_kvShape fmt w' := by
  have hptr : ∀ k ∈ [Kind.ptr .bytes, .ptr (.struct pkv)], ∃ k0, k = Kind.ptr k0 := by
    intro k hk
    simp only [List.mem_cons, List.not_mem_nil, or_false] at hk
    rcases hk with rfl | rfl
    · exact ⟨_, rfl⟩
    · exact ⟨_, rfl⟩
  have e20 : ∀ x, fxc_mk [Kind.ptr .bytes, .ptr (.struct pkv)].length 0 x = [x, .ptr none] := fun _ => rfl
  have e21 : ∀ x, fxc_mk [Kind.ptr .bytes, .ptr (.struct pkv)].length 1 x = [.ptr none, x] := fun _ => rfl
  have hun := fun n xs => fxc_union_struct S kv Cust.keyValue (Or.inr (Or.inl rfl)) hkve hkvc n T.keyValue xs ver
  rw [decKeyValue_succ] at h
  by_cases h8 : c.ty = 8
  · rw [if_pos h8] at h
    obtain ⟨⟨b, c1⟩, hb, h2⟩ := Res.bind_eq_ok h
    clear h
    simp only [Res.pure_eq, Res.ok.injEq, Prod.mk.injEq] at h2
    obtain ⟨hkvv, _, hver⟩ := h2
    subst hkvv
    subst hver
    intro n hn
    simp only [Val.edepth, Val.edepthList] at hn
    obtain ⟨m, rfl⟩ : ∃ m, n = ((m + 1) + 0 + 2) + 2 := ⟨n - 5, by omega⟩
    have hnm : normK S (m + 1) .bytes T.keyValue (.bytes (some b)) ver = some (.bytes (some b), ver) := by
      simp only [normK, Option.getD_some]
    have he : encK S (m + 1) .bytes T.keyValue (.bytes (some b)) ver = .ok ([.bytes T.keyValue b], ver) := by
      rw [encK]; rfl
    obtain ⟨s1, s2, s3, s4⟩ := fxc_same S T.keyValue .bytes rfl _ _ _ _ ver ver (m + 1) hnm he he 0
      [.ptr .bytes, .ptr (.struct pkv)] rfl hptr (by simp)
    rw [e20] at s1 s2 s3
    refine ⟨.struct [.ptr (some (.bytes (some b))), .ptr none], .struct [.ptr (some (.bytes (some b))), .ptr none],
      [.bytes T.keyValue b], ?_, ?_, ?_, Or.inl ⟨_, rfl⟩⟩
    · rw [(hun _ _).1, hkinds, s1]
    · rw [(hun _ _).2, hkinds, s2]
    · rw [(hun _ _).2, hkinds, s2]
  · rw [if_neg h8] at h
    by_cases h1 : c.ty = 1
    · rw [if_pos h1] at h
      obtain ⟨it, _, h2⟩ := Res.bind_eq_ok h
      obtain ⟨c0, _, h3⟩ := Res.bind_eq_ok h2
      clear h h2
      cases hidx : keyMaterialIndex fmt with
      | none => simp only [hidx] at h3; contradiction
      | some i =>
        simp only [hidx] at h3
        obtain ⟨⟨x, c1, v1⟩, hx, h4⟩ := Res.bind_eq_ok h3
        obtain ⟨⟨attrs, c2, v2⟩, ha, h5⟩ := Res.bind_eq_ok h4
        obtain ⟨c3, _, h6⟩ := Res.bind_eq_ok h5
        clear h3 h4 h5
        simp only [Res.pure_eq, Res.ok.injEq, Prod.mk.injEq] at h6
        obtain ⟨hkvv, _, hver⟩ := h6
        subst hkvv
        subst hver
        change (Val.struct [.ptr none, .ptr (some (.struct [.struct
          (fxc_mk (customFieldKinds S Cust.keyMaterial).length i x), attrs]))]).edepth ≤ f at hdep
        change goodU S (.struct kv) (Val.struct [.ptr none, .ptr (some (.struct [.struct
          (fxc_mk (customFieldKinds S Cust.keyMaterial).length i x), attrs]))]) = true at hg
        rw [fxc_goodU_union S kv Cust.keyValue (Or.inr (Or.inl rfl)) hkve hkvc, hkinds] at hg
        simp only [goodL, Bool.and_eq_true, fxc_goodU_ptr] at hg
        obtain ⟨_, _, hgp, _⟩ := hg
        simp only [Val.edepth, Val.edepthList] at hdep
        have hdx : x.edepth ≤ f := by
          by_cases hil : i < (customFieldKinds S Cust.keyMaterial).length
          · have := fxc_depth_mk _ i x hil; omega
          · rw [List.getD_eq_getElem?_getD, List.getElem?_eq_none (by omega)] at hx
            exact absurd hx (fxc_decK_unsupported S f _ c0 ver _)
        have hpk := fxc_pkv_step S N hX f hK pkv km p0 p1 hec hdc hFp hp0 hp0k hkme hkmc hkmu hp1 hp1k hp1d
          i c0 ver x c1 v1 attrs c2 v2 hx ha hdx (by omega) hgp
        intro n hn
        change (Val.struct [.ptr none, .ptr (some (.struct [.struct
          (fxc_mk (customFieldKinds S Cust.keyMaterial).length i x), attrs]))]).edepth ≤ n at hn
        simp only [Val.edepth, Val.edepthList] at hn
        obtain ⟨m, rfl⟩ : ∃ m, n = (m + 1 + 2) + 2 := ⟨n - 5, by omega⟩
        obtain ⟨wkm, wkm', wa, wa', pI, q1, q2, q3, q4⟩ :=
          hpk m (by simp only [Val.edepth, Val.edepthList]; omega)
        obtain ⟨s1, s2, s3, s4⟩ := fxc_same S T.keyValue (.struct pkv) rfl _ _ _ pI ver v2 m q1 q2 q3 1
          [.ptr .bytes, .ptr (.struct pkv)] rfl hptr (by simp)
        simp only [e21] at s1 s2 s3
        refine ⟨.struct [.ptr none, .ptr (some (.struct [.struct wkm, wa]))],
          .struct [.ptr none, .ptr (some (.struct [.struct wkm', wa']))], pI, ?_, ?_, ?_,
          Or.inr ⟨wkm', wa', i, rfl, hidx, q4⟩⟩
        · rw [(hun _ _).1, hkinds, s1]
        · rw [(hun _ _).2, hkinds]; exact s2
        · rw [(hun _ _).2, hkinds, s3]
    · rw [if_neg h1] at h; contradiction

/-- the KeyValue step of `KeyBlock`'s decoder: `if tag == KeyValue { kv.decode(format) }`. -/
theorem fxc_kvp_step (S : Schema) (N : Nat) (hX : FixOK S N) (fd : Nat) (hK : ∀ m, m ≤ fd → FK S m)
    (kv pkv km : Nat) (p0 p1 : Field)
    (hkve : (S.structDef kv).encCustom = true) (hkvc : (S.structDef kv).custom = Cust.keyValue)
    (hkinds : customFieldKinds S Cust.keyValue = [.ptr .bytes, .ptr (.struct pkv)])
    (hec : (S.structDef pkv).encCustom = false) (hdc : (S.structDef pkv).decCustom = false)
    (hFp : (S.structDef pkv).fields = [p0, p1])
    (hp0 : p0.plainWith T.keyMaterial = true) (hp0k : p0.kind = .struct km)
    (hkme : (S.structDef km).encCustom = true) (hkmc : (S.structDef km).custom = Cust.keyMaterial)
    (hkmu : S.unionKindsOK (customFieldKinds S Cust.keyMaterial) = true)
    (hp1 : p1.plainWith T.attr = true) (hp1k : p1.kind = .slice (.struct (attributeId S)))
    (hp1d : S.decodable (.struct (attributeId S)) = true)
    (fmt : Nat) (c : Cur) (ver : Option Ver) (kvp : Val) (c' : Cur) (ver' : Option Ver)
    (h : (if c.tag = T.keyValue then do
            let (x, st) ← decKeyValue S fd fmt c ver
            (pure (Val.ptr (some x), st) : Res (Val × DecSt))
          else .ok (.ptr none, c, ver)) = .ok (kvp, c', ver'))
    (hdep : kvp.edepth ≤ fd) (hg : goodU S (.ptr (.struct kv)) kvp = true) :
    ∀ n, kvp.edepth ≤ n → ∃ w w' items, normK S n (.ptr (.struct kv)) T.keyValue w ver = some (w', ver')
      ∧ encK S n (.ptr (.struct kv)) T.keyValue kvp ver = .ok (items, ver')
      ∧ encK S n (.ptr (.struct kv)) T.keyValue w ver = .ok (items, ver')
      ∧ (w' = .ptr none ∨ ∃ z, w' = .ptr (some z) ∧ fxc_kvShape fmt z) := by
  by_cases hc : c.tag = T.keyValue
  · rw [if_pos hc] at h
    obtain ⟨⟨kvv, c1, w1⟩, hd, h2⟩ := Res.bind_eq_ok h
    clear h
    simp only [Res.pure_eq, Res.ok.injEq, Prod.mk.injEq] at h2
    obtain ⟨hk, _, hv⟩ := h2
    subst hk
    subst hv
    cases fd with
    | zero => rw [decKeyValue_zero] at hd; contradiction
    | succ f =>
      simp only [Val.edepth] at hdep
      rw [fxc_goodU_ptr] at hg
      have hkv := fxc_kv_step S N hX f (fun m hm => hK m (by omega)) kv pkv km p0 p1 hkve hkvc hkinds hec hdc hFp hp0 hp0k hkme hkmc hkmu hp1 hp1k hp1d
        fmt c ver kvv c1 w1 hd (by omega) hg
      intro n hn
      simp only [Val.edepth] at hn
      obtain ⟨m, rfl⟩ : ∃ m, n = m + 1 := ⟨n - 1, by omega⟩
      obtain ⟨w, w', items, a1, a2, a3, a4⟩ := hkv m (by omega)
      refine ⟨.ptr (some w), .ptr (some w'), items, ?_, ?_, ?_, Or.inr ⟨w', rfl, a4⟩⟩
      · rw [normK_ptr]; simp only [Kind.definite, if_true, a1]
      · rw [encK_ptr_some]; exact a2
      · rw [encK_ptr_some]; exact a3
  · rw [if_neg hc] at h
    simp only [Res.ok.injEq, Prod.mk.injEq] at h
    obtain ⟨hk, _, hv⟩ := h
    subst hk
    subst hv
    intro n hn
    obtain ⟨m, rfl⟩ : ∃ m, n = m + 1 := ⟨n - 1, by have := Val.edepth_pos (.ptr none); omega⟩
    exact ⟨.ptr none, .ptr none, [], by rw [normK_ptr], encK_ptr_none .., encK_ptr_none .., Or.inl rfl⟩

theorem fxc_customOk_kb (S : Schema) (fmt : Int) (a kvw' b c d : Val)
    (h : kvw' = .ptr none ∨ ∃ z, kvw' = .ptr (some z) ∧ fxc_kvShape fmt.toNat z) :
    customOk S Cust.keyBlock (.struct [.int fmt, a, kvw', b, c, d]) = true := by
  rw [customOk_keyBlock]
  simp only [Val.field, List.getD_cons_zero, List.getD_cons_succ]
  rcases h with rfl | ⟨z, rfl, ⟨y, rfl⟩ | ⟨kms', a', i, rfl, hi, hf⟩⟩
  · rfl
  · rfl
  · simp [hi, hf]

set_option maxHeartbeats 2000000 in
theorem fxc_keyBlock_core (S : Schema) (N : Nat) (hX : FixOK S N) (fd : Nat) (hK : ∀ m, m ≤ fd → FK S m)
    (id tag : Nat) (c : Cur) (ver : Option Ver) (v : Val) (c' : Cur) (ver' : Option Ver)
    (g0 g1 g2 g3 g4 g5 : Field) (k5 : Kind) (t0 : Nat)
    (hF : (S.structDef id).fields = [g0, g1, g2, g3, g4, g5])
    (hecid : (S.structDef id).encCustom = false) (hcode : (S.structDef id).custom = Cust.keyBlock)
    (h0 : g0.plainWith T.keyFormatType = true) (h0k : g0.kind = .enum t0)
    (h1 : g1.optWith T.keyCompressionType = true) (h1k : g1.kind.isEnum = true)
    (h3 : g3.optWith T.cryptographicAlgorithm = true) (h3k : g3.kind.isEnum = true)
    (h4 : g4.optWith T.cryptographicLength = true) (h4k : g4.kind = .i32)
    (h5 : g5.plainWith T.keyWrappingData = true) (h5k : g5.kind = .ptr k5) (h5d : k5.definite = true)
    (h5dd : S.decodable k5 = true)
    (kv pkv km : Nat) (p0 p1 : Field)
    (hkve : (S.structDef kv).encCustom = true) (hkvc : (S.structDef kv).custom = Cust.keyValue)
    (hkinds : customFieldKinds S Cust.keyValue = [.ptr .bytes, .ptr (.struct pkv)])
    (hec : (S.structDef pkv).encCustom = false) (hdc : (S.structDef pkv).decCustom = false)
    (hFp : (S.structDef pkv).fields = [p0, p1])
    (hp0 : p0.plainWith T.keyMaterial = true) (hp0k : p0.kind = .struct km)
    (hkme : (S.structDef km).encCustom = true) (hkmc : (S.structDef km).custom = Cust.keyMaterial)
    (hkmu : S.unionKindsOK (customFieldKinds S Cust.keyMaterial) = true)
    (hp1 : p1.plainWith T.attr = true) (hp1k : p1.kind = .slice (.struct (attributeId S)))
    (hp1d : S.decodable (.struct (attributeId S)) = true)
    (h2 : g2.plainWith T.keyValue = true) (h2k : g2.kind = .ptr (.struct kv))
    (h : decCustom S (fd + 1) Cust.keyBlock id tag c ver = .ok (v, c', ver'))
    (hfd : v.edepth ≤ fd + 2) (hg : goodU S (.struct id) v = true) :
    ∀ n, v.edepth ≤ n → ∃ w w' items, normK S n (.struct id) tag w ver = some (w', ver')
      ∧ encK S n (.struct id) tag v ver = .ok (items, ver') ∧ encK S n (.struct id) tag w ver = .ok (items, ver')
      ∧ intView w' = none ∧ obsRel S (.struct id) v w' := by
  intro n hn
  have hg0 : ((S.structDef id).fields.getD 0 fieldDflt).kind = .enum t0 := by rw [hF]; exact h0k
  have hg1 : ((S.structDef id).fields.getD 1 fieldDflt).kind = g1.kind := by rw [hF]; rfl
  have hg3 : ((S.structDef id).fields.getD 3 fieldDflt).kind = g3.kind := by rw [hF]; rfl
  have hg4 : ((S.structDef id).fields.getD 4 fieldDflt).kind = g4.kind := by rw [hF]; rfl
  have hg5 : ((S.structDef id).fields.getD 5 fieldDflt).kind = .ptr k5 := by rw [hF]; exact h5k
  have hm5 : g5 ∈ (S.structDef id).fields := by rw [hF]; simp
  rw [decCustom_keyBlock, hg0, hg1, hg3, hg4, hg5] at h
  obtain ⟨it, _, ha⟩ := Res.bind_eq_ok h
  obtain ⟨c0, _, hb⟩ := Res.bind_eq_ok ha
  obtain ⟨⟨v0, ver0⟩, hin, hc⟩ := Res.bind_eq_ok hb
  obtain ⟨cN, _, hd⟩ := Res.bind_eq_ok hc
  clear h ha hb hc
  simp only [Res.pure_eq, Res.ok.injEq, Prod.mk.injEq] at hd
  obtain ⟨rfl, rfl, rfl⟩ := hd
  obtain ⟨⟨fmt, c1, v1⟩, hfmt, hi1⟩ := Res.bind_eq_ok hin
  dsimp only at hi1
  obtain ⟨⟨comp, c2, v2⟩, hcomp, hi2⟩ := Res.bind_eq_ok hi1
  dsimp only at hi2
  have hsplit : ∃ kvp c3 v3,
      (if c2.tag = T.keyValue then do
            let (x, st) ← decKeyValue S fd fmt.asInt.toNat c2 v2
            (pure (Val.ptr (some x), st) : Res (Val × DecSt))
          else .ok (.ptr none, c2, v2)) = .ok (kvp, c3, v3)
      ∧ (do
          let (alg, c4, v4) ← decOpt S fd g3.kind T.cryptographicAlgorithm c3 v3
          let (len, c5, v5) ← decOpt S fd g4.kind T.cryptographicLength c4 v4
          let (kwd, _, v6) ← decK S fd (.ptr k5) T.keyWrappingData c5 v5
          (pure (Val.struct [fmt, comp, kvp, alg, len, kwd], v6) : Res (Val × Option Ver)))
        = .ok (v0, ver0) := by
    by_cases hc2 : c2.tag = T.keyValue
    · rw [if_pos hc2] at hi2 ⊢
      obtain ⟨⟨kvv, c3, v3⟩, hdkv, hi2a⟩ := Res.bind_eq_ok hi2
      refine ⟨.ptr (some kvv), c3, v3, ?_, hi2a⟩
      rw [hdkv]; rfl
    · rw [if_neg hc2] at hi2 ⊢
      exact ⟨.ptr none, c2, v2, rfl, hi2⟩
  obtain ⟨kvp, c3, v3, hkv, hi3⟩ := hsplit
  obtain ⟨⟨alg, c4, v4⟩, halg, hi4⟩ := Res.bind_eq_ok hi3
  dsimp only at hi4
  obtain ⟨⟨len, c5, v5⟩, hlen, hi5⟩ := Res.bind_eq_ok hi4
  dsimp only at hi5
  obtain ⟨⟨kwd, c6, v6⟩, hkwd, hi6⟩ := Res.bind_eq_ok hi5
  clear hin hi1 hi2 hi3 hi4 hi5
  simp only [Res.pure_eq, Res.ok.injEq, Prod.mk.injEq] at hi6
  obtain ⟨hv0, hv6⟩ := hi6
  subst hv0
  subst hv6
  -- the scalar members
  obtain ⟨t, hfmteq, htu, hv1⟩ := fxc_enum_int S fd t0 _ c0 ver fmt c1 v1 hfmt
  subst hfmteq
  subst hv1
  obtain ⟨x1, hcompeq, hv2, hn1⟩ := fxc_optInt S fd g1.kind (Or.inl h1k) _ c1 ver comp c2 v2 hcomp
  subst hcompeq
  subst hv2
  obtain ⟨x3, halgeq, hv4, hn3⟩ := fxc_optInt S fd g3.kind (Or.inl h3k) _ c3 v3 alg c4 v4 halg
  subst halgeq
  subst hv4
  obtain ⟨x4, hleneq, hv5, hn4⟩ := fxc_optInt S fd g4.kind (Or.inr h4k) _ c4 v3 len c5 v5 hlen
  subst hleneq
  subst hv5
  -- goodU and depth of the members
  rw [fxc_goodU_refl S id hecid, hF] at hg
  simp only [List.map_cons, List.map_nil, goodL, Bool.and_eq_true, h2k, h5k] at hg
  obtain ⟨_, _, hgkv, _, _, hgkwd, _⟩ := hg
  simp only [Val.edepth, Val.edepthList] at hfd hn
  have hkvd := Val.edepth_pos kvp
  have hkwdd := Val.edepth_pos kwd
  -- KeyValue and KeyWrappingData
  have hkvs := fxc_kvp_step S N hX fd hK kv pkv km p0 p1 hkve hkvc hkinds hec hdc hFp hp0 hp0k hkme hkmc hkmu hp1 hp1k hp1d t.toNat c2 ver kvp c3 v3 hkv (by omega) hgkv
  have htg5 : S.kindTagOK (.ptr k5) T.keyWrappingData = true := by
    have := hX.tagOK id hm5
    rw [h5k, (plainWith_iff h5).1] at this
    exact this
  have hnn5 : (Kind.ptr k5).noNarrow = true := by
    have := hX.noNarrow id hm5
    rw [h5k] at this
    exact this
  have hkws := hK fd (Nat.le_refl _) (.ptr k5) T.keyWrappingData c5 v3 kwd c6 v6 (decodable_ptr_of h5d h5dd)
    h5d hnn5 htg5 hkwd (by omega) hgkwd
  obtain ⟨q, rfl⟩ : ∃ q, n = q + 8 := ⟨n - 8, by omega⟩
  obtain ⟨wk, wk', kI, kw1, kw2, kw3, _⟩ := hkws (q + 1) (by omega)
  obtain ⟨wv, wv', vI, kv1, kv2, kv3, kv4⟩ := hkvs (q + 4) (by omega)
  have ft5 : fxc_FT S (q + 2) [g5] [kwd] [wk] [wk'] (kI ++ []) v3 v6 :=
    fxc_ft_plain S (q + 1) g5 _ h5 [] kwd wk wk' [] [] [] kI [] v3 v6 v6
      (by rw [h5k]; exact kw1) (by rw [h5k]; exact kw2) (by rw [h5k]; exact kw3) (fxc_ft_nil S q v6)
  obtain ⟨a4, ft4⟩ := fxc_ft_optInt S (q + 1) g4 _ h4 (Or.inr h4k) x4 hn4 _ _ _ _ _ v3 v6 ft5
  obtain ⟨a3, ft3⟩ := fxc_ft_optInt S (q + 2) g3 _ h3 (Or.inl h3k) x3 hn3 _ _ _ _ _ v3 v6 ft4
  have ft2 := fxc_ft_plain S (q + 4) g2 _ h2 _ kvp wv wv' _ _ _ vI _ ver v3 v6
    (by rw [h2k]; exact kv1) (by rw [h2k]; exact kv2) (by rw [h2k]; exact kv3) ft3
  obtain ⟨a1, ft1⟩ := fxc_ft_optInt S (q + 4) g1 _ h1 (Or.inl h1k) x1 hn1 _ _ _ _ _ ver v6 ft2
  have ft0 := fxc_ft_plain S (q + 6) g0 _ h0 _ (.int t) (.int t) (.int t) _ _ _
    [.enum T.keyFormatType t.toNat] _ ver ver v6
    (by rw [h0k]; exact fxc_norm_enum S _ t0 _ t htu ver) (by rw [h0k]; exact fxc_enc_enum S _ t0 _ t ver)
    (by rw [h0k]; exact fxc_enc_enum S _ t0 _ t ver) ft1
  refine ⟨.struct [.int t, .int x1, wv, .int x3, .int x4, wk], .struct [.int t, .int x1, wv', .int x3, .int x4, wk'],
    [.struct tag ([.enum T.keyFormatType t.toNat] ++ (a1 ++ (vI ++ (a3 ++ (a4 ++ (kI ++ []))))))], ?_, ?_, ?_, rfl,
    fxc_not_attr S id _ hcode (by decide) _ _⟩
  · rw [normK_struct]
    simp only [hecid, Bool.false_eq_true, if_false, hF, ft0.1, hcode, fxc_customOk_kb S t _ _ _ _ _ kv4,
      Bool.or_true, if_true]
  · rw [encK_struct]
    simp only [hecid, Bool.false_eq_true, if_false, hF, ft0.2.1, Res.ok_bind, Res.pure_eq]
  · rw [encK_struct]
    simp only [hecid, Bool.false_eq_true, if_false, hF, ft0.2.2, Res.ok_bind, Res.pure_eq]

set_option maxHeartbeats 1000000 in
theorem fcust_keyBlock (S : Schema) (N : Nat) (hU : S.unambiguous = true) (hX : FixOK S N) (fd : Nat)
    (hK : ∀ m, m ≤ fd → FK S m) (hD : ∀ m, m ≤ fd → FDyn S m)
    (id tag : Nat) (c : Cur) (ver : Option Ver) (v : Val) (c' : Cur) (ver' : Option Ver)
    (hdc : (S.structDef id).decCustom = true) (hcode : (S.structDef id).custom = Cust.keyBlock)
    (hshape : S.customShapeOK (S.structDef id) = true)
    (htag : S.kindTagOK (.struct id) tag = true)
    (h : decCustom S (fd + 1) Cust.keyBlock id tag c ver = .ok (v, c', ver'))
    (hfd : v.edepth ≤ fd + 2) (hg : goodU S (.struct id) v = true) :
    ∀ n, v.edepth ≤ n → ∃ w w' items, normK S n (.struct id) tag w ver = some (w', ver')
      ∧ encK S n (.struct id) tag v ver = .ok (items, ver') ∧ encK S n (.struct id) tag w ver = .ok (items, ver')
      ∧ intView w' = none ∧ obsRel S (.struct id) v w' := by
  unfold Schema.customShapeOK at hshape
  rw [hcode] at hshape
  rw [if_neg (by decide), if_neg (by decide), if_neg (by decide), if_neg (by decide), if_neg (by decide),
    if_pos rfl] at hshape
  simp only [Bool.and_eq_true, Bool.not_eq_true', beq_iff_eq, and_assoc] at hshape
  obtain ⟨hecid, hlen, h0, h0k, h1, h1k, h2, h3, h3k, h4, h4k, h5, hm5, hm2⟩ := hshape
  have hF := list_len6 hlen fieldDflt
  obtain ⟨t0, h0k⟩ := isEnum_iff h0k
  split at hm5
  · rename_i k5 hk5
    simp only [Bool.and_eq_true] at hm5
    split at hm2
    · rename_i kv hk2
      simp only [Bool.and_eq_true, beq_iff_eq, and_assoc] at hm2
      obtain ⟨hkve, hkvc, hm⟩ := hm2
      split at hm
      · rename_i pkv hkinds
        simp only [Bool.and_eq_true, Bool.not_eq_true', and_assoc] at hm
        obtain ⟨hpe, hpd, hm⟩ := hm
        split at hm
        · rename_i p0 p1 hFp
          simp only [Bool.and_eq_true, beq_iff_eq, and_assoc] at hm
          obtain ⟨hp0, hp1, hp1k, hp1d, hm⟩ := hm
          split at hm
          · rename_i km hp0k
            simp only [Bool.and_eq_true, beq_iff_eq, and_assoc] at hm
            obtain ⟨hkme, hkmc, hkmu⟩ := hm
            exact fxc_keyBlock_core S N hX fd hK id tag c ver v c' ver' _ _ _ _ _ _ k5 t0 hF hecid hcode
              h0 h0k h1 h1k h3 h3k h4 h4k h5 hk5 hm5.1 hm5.2 kv pkv km p0 p1 hkve hkvc hkinds hpe hpd hFp
              hp0 hp0k hkme hkmc hkmu hp1 hp1k hp1d h2 hk2 h hfd hg
          · contradiction
        · contradiction
      · contradiction
    · contradiction
  · contradiction

end Kmip
