/-
  Certificate obligations, parts 16..23 of 64 of the `current` client system (kernel evaluation; 8 modules
  so that lake checks them in parallel; small parts keep the kernel's memory small).
  Assembled in `Lemmas/CliCert.lean`.
-/
import KmipModel.Model.CliConn
import KmipModel.Gen.CertCliConn
namespace Kmip.CliCert
open Kmip.CliLts Kmip.CliConn Kmip.Gen.CertCliConn

theorem cuClosed16 : partClosed (sys current) codec certCurrent cuP16 = true := by decide +kernel
theorem cuSafe16 : partSafe codec (badPartial current) cuP16 = true := by decide +kernel
theorem cuClosed17 : partClosed (sys current) codec certCurrent cuP17 = true := by decide +kernel
theorem cuSafe17 : partSafe codec (badPartial current) cuP17 = true := by decide +kernel
theorem cuClosed18 : partClosed (sys current) codec certCurrent cuP18 = true := by decide +kernel
theorem cuSafe18 : partSafe codec (badPartial current) cuP18 = true := by decide +kernel
theorem cuClosed19 : partClosed (sys current) codec certCurrent cuP19 = true := by decide +kernel
theorem cuSafe19 : partSafe codec (badPartial current) cuP19 = true := by decide +kernel
theorem cuClosed20 : partClosed (sys current) codec certCurrent cuP20 = true := by decide +kernel
theorem cuSafe20 : partSafe codec (badPartial current) cuP20 = true := by decide +kernel
theorem cuClosed21 : partClosed (sys current) codec certCurrent cuP21 = true := by decide +kernel
theorem cuSafe21 : partSafe codec (badPartial current) cuP21 = true := by decide +kernel
theorem cuClosed22 : partClosed (sys current) codec certCurrent cuP22 = true := by decide +kernel
theorem cuSafe22 : partSafe codec (badPartial current) cuP22 = true := by decide +kernel
theorem cuClosed23 : partClosed (sys current) codec certCurrent cuP23 = true := by decide +kernel
theorem cuSafe23 : partSafe codec (badPartial current) cuP23 = true := by decide +kernel

end Kmip.CliCert
