/-
  Certificate obligations, parts 24..31 of 64 of the `patched` client system (kernel evaluation; 8 modules
  so that lake checks them in parallel; small parts keep the kernel's memory small).
  Assembled in `Lemmas/CliCert.lean`.
-/
import KmipModel.Model.CliConn
import KmipModel.Gen.CertCliConn
namespace Kmip.CliCert
open Kmip.CliLts Kmip.CliConn Kmip.Gen.CertCliConn

theorem paClosed24 : partClosed (sys patched) codec certPatched paP24 = true := by decide +kernel
theorem paSafe24 : partSafe codec (badFull patched) paP24 = true := by decide +kernel
theorem paClosed25 : partClosed (sys patched) codec certPatched paP25 = true := by decide +kernel
theorem paSafe25 : partSafe codec (badFull patched) paP25 = true := by decide +kernel
theorem paClosed26 : partClosed (sys patched) codec certPatched paP26 = true := by decide +kernel
theorem paSafe26 : partSafe codec (badFull patched) paP26 = true := by decide +kernel
theorem paClosed27 : partClosed (sys patched) codec certPatched paP27 = true := by decide +kernel
theorem paSafe27 : partSafe codec (badFull patched) paP27 = true := by decide +kernel
theorem paClosed28 : partClosed (sys patched) codec certPatched paP28 = true := by decide +kernel
theorem paSafe28 : partSafe codec (badFull patched) paP28 = true := by decide +kernel
theorem paClosed29 : partClosed (sys patched) codec certPatched paP29 = true := by decide +kernel
theorem paSafe29 : partSafe codec (badFull patched) paP29 = true := by decide +kernel
theorem paClosed30 : partClosed (sys patched) codec certPatched paP30 = true := by decide +kernel
theorem paSafe30 : partSafe codec (badFull patched) paP30 = true := by decide +kernel
theorem paClosed31 : partClosed (sys patched) codec certPatched paP31 = true := by decide +kernel
theorem paSafe31 : partSafe codec (badFull patched) paP31 = true := by decide +kernel

end Kmip.CliCert
