package main

// Object-reuse part of the `key` engine (property C14): what an accessor returns depends only on what the
// object contains when the accessor is called.
//
// The Lean model is functional — an accessor is a function of the object VALUE — so "the same Go object, first
// with one content, then with another" cannot be said in it: this part is an oracle on the real code.
//
// One case = one Get response payload `pl` holding one library object O with content A:
//   1. every accessor is called on it (EVERY method without parameters of the payload, of the object and of its
//      key block, found by reflection — an accessor added to the library is covered without a change here);
//   2. O is changed IN PLACE towards content B (key block / key value / plain value / material slot replaced,
//      numbers overwritten, a second message decoded into the same object or payload in each encoding, the
//      material removed at each level, the format changed, the values returned by step 1 overwritten by the caller);
//   3. every accessor is called again on O and, independently, on a FRESH object built from nothing but O's
//      exported fields as they are now (a reflect deep copy: an unexported field starts at its zero value there).
// Oracles: accessor-content-only — the two results of step 3 are the same value (keys compared number by number,
// incl. the CRT values; bytes, PEM texts, certificates byte by byte; error against error); the same in step 1;
// accessor-leaves-object — the exported content of the payload is the same before and after each call.
// Nothing is assumed about what a decoder does with fields absent from the second message: the reference is
// always the content the object actually has.
// The class of outcome of the reused object is also sent to the model (`key.access` lines, origin reuse:<change>).

import (
	"crypto/ecdsa"
	"crypto/rsa"
	"crypto/x509"
	"fmt"
	"math/big"
	"reflect"
	"sort"
	"strconv"
	"strings"
	"time"

	kmip "github.com/ovh/kmip-go"
	"github.com/ovh/kmip-go/payloads"
	"github.com/ovh/kmip-go/ttlv"
)

const keyLibPkg = "github.com/ovh/kmip-go"

var (
	keyBigIntT = reflect.TypeOf(big.Int{})
	keyTimeT   = reflect.TypeOf(time.Time{})
	keyErrorT  = reflect.TypeOf((*error)(nil)).Elem()
)

func keyIsLibStruct(t reflect.Type) bool {
	return t.Kind() == reflect.Struct && (t.PkgPath() == keyLibPkg || strings.HasPrefix(t.PkgPath(), keyLibPkg+"/"))
}

// keyCloneExp: deep copy through the EXPORTED fields of the library's structs; unexported fields of the copy are
// zero. Structs of other packages (big.Int, time.Time) are values.
func keyCloneExp(v reflect.Value) reflect.Value {
	switch v.Kind() {
	case reflect.Ptr:
		if v.IsNil() {
			return reflect.Zero(v.Type())
		}
		n := reflect.New(v.Type().Elem())
		n.Elem().Set(keyCloneExp(v.Elem()))
		return n
	case reflect.Interface:
		out := reflect.New(v.Type()).Elem()
		if !v.IsNil() {
			out.Set(keyCloneExp(v.Elem()))
		}
		return out
	case reflect.Struct:
		t := v.Type()
		out := reflect.New(t).Elem()
		if t == keyBigIntT {
			src := v
			if !src.CanAddr() {
				tmp := reflect.New(t).Elem()
				tmp.Set(v)
				src = tmp
			}
			out.Addr().Interface().(*big.Int).Set(src.Addr().Interface().(*big.Int))
			return out
		}
		if !keyIsLibStruct(t) {
			out.Set(v)
			return out
		}
		for i := 0; i < t.NumField(); i++ {
			if t.Field(i).PkgPath != "" {
				continue
			}
			out.Field(i).Set(keyCloneExp(v.Field(i)))
		}
		return out
	case reflect.Slice:
		if v.IsNil() {
			return reflect.Zero(v.Type())
		}
		out := reflect.MakeSlice(v.Type(), v.Len(), v.Len())
		for i := 0; i < v.Len(); i++ {
			out.Index(i).Set(keyCloneExp(v.Index(i)))
		}
		return out
	case reflect.Array:
		out := reflect.New(v.Type()).Elem()
		for i := 0; i < v.Len(); i++ {
			out.Index(i).Set(keyCloneExp(v.Index(i)))
		}
		return out
	case reflect.Map:
		if v.IsNil() {
			return reflect.Zero(v.Type())
		}
		out := reflect.MakeMapWithSize(v.Type(), v.Len())
		it := v.MapRange()
		for it.Next() {
			out.SetMapIndex(keyCloneExp(it.Key()), keyCloneExp(it.Value()))
		}
		return out
	}
	return v
}

func keyClonePayload(pl *payloads.GetResponsePayload) *payloads.GetResponsePayload {
	return keyCloneExp(reflect.ValueOf(pl)).Interface().(*payloads.GetResponsePayload)
}

func keyCloneObject(o kmip.Object) kmip.Object {
	if o == nil {
		return nil
	}
	return keyCloneExp(reflect.ValueOf(o)).Interface().(kmip.Object)
}

// keyCanon: the exported content of a value as text (what keyCloneExp copies).
func keyCanon(sb *strings.Builder, v reflect.Value) {
	if !v.IsValid() {
		sb.WriteString("nil")
		return
	}
	switch v.Kind() {
	case reflect.Ptr, reflect.Interface:
		if v.IsNil() {
			sb.WriteString("nil")
			return
		}
		if v.Kind() == reflect.Interface {
			sb.WriteString(v.Elem().Type().String())
			sb.WriteByte(':')
		} else {
			sb.WriteByte('&')
		}
		keyCanon(sb, v.Elem())
	case reflect.Struct:
		t := v.Type()
		switch {
		case t == keyBigIntT:
			tmp := reflect.New(t).Elem()
			tmp.Set(v)
			sb.WriteString(tmp.Addr().Interface().(*big.Int).String())
		case t == keyTimeT && v.CanInterface():
			sb.WriteString(strconv.FormatInt(v.Interface().(time.Time).UnixNano(), 10))
		case !keyIsLibStruct(t):
			if v.CanInterface() {
				fmt.Fprintf(sb, "%v", v.Interface())
			} else {
				sb.WriteString(t.String())
			}
		default:
			sb.WriteByte('{')
			for i := 0; i < t.NumField(); i++ {
				if t.Field(i).PkgPath != "" {
					continue
				}
				sb.WriteString(t.Field(i).Name)
				sb.WriteByte('=')
				keyCanon(sb, v.Field(i))
				sb.WriteByte(' ')
			}
			sb.WriteByte('}')
		}
	case reflect.Slice, reflect.Array:
		if v.Kind() == reflect.Slice && v.IsNil() {
			sb.WriteString("nil")
			return
		}
		if v.Type().Elem().Kind() == reflect.Uint8 {
			b := make([]byte, v.Len())
			for i := range b {
				b[i] = byte(v.Index(i).Uint())
			}
			sb.WriteString("h'" + hexUp(b) + "'")
			return
		}
		sb.WriteByte('[')
		for i := 0; i < v.Len(); i++ {
			keyCanon(sb, v.Index(i))
			sb.WriteByte(',')
		}
		sb.WriteByte(']')
	case reflect.Map:
		var parts []string
		it := v.MapRange()
		for it.Next() {
			var e strings.Builder
			keyCanon(&e, it.Key())
			e.WriteString("->")
			keyCanon(&e, it.Value())
			parts = append(parts, e.String())
		}
		sort.Strings(parts)
		sb.WriteString("map[" + strings.Join(parts, ",") + "]")
	case reflect.String:
		sb.WriteString(strconv.Quote(v.String()))
	case reflect.Bool:
		sb.WriteString(strconv.FormatBool(v.Bool()))
	case reflect.Int, reflect.Int8, reflect.Int16, reflect.Int32, reflect.Int64:
		sb.WriteString(strconv.FormatInt(v.Int(), 10))
	case reflect.Uint, reflect.Uint8, reflect.Uint16, reflect.Uint32, reflect.Uint64, reflect.Uintptr:
		sb.WriteString(strconv.FormatUint(v.Uint(), 10))
	case reflect.Float32, reflect.Float64:
		sb.WriteString(strconv.FormatFloat(v.Float(), 'g', -1, 64))
	default:
		sb.WriteString(v.Type().String())
	}
}

func keyCanonOf(x any) string {
	var sb strings.Builder
	keyCanon(&sb, reflect.ValueOf(x))
	return sb.String()
}

func keyBigStr(v *big.Int) string {
	if v == nil {
		return "_"
	}
	return v.String()
}

// keyRenderResult: what an accessor returned, as a value (never an address, never an error text).
func keyRenderResult(outs []reflect.Value) string {
	if n := len(outs); n > 0 && outs[n-1].Type() == keyErrorT {
		if !outs[n-1].IsNil() {
			return "err"
		}
		outs = outs[:n-1]
	}
	parts := []string{"ok"}
	for _, o := range outs {
		var x any
		if o.CanInterface() {
			x = o.Interface()
		}
		switch k := x.(type) {
		case *rsa.PrivateKey:
			if k == nil {
				parts = append(parts, "rsapriv:nil")
				break
			}
			s := fmt.Sprintf("rsapriv N=%s E=%d D=%s", keyBigStr(k.N), k.E, keyBigStr(k.D))
			for _, p := range k.Primes {
				s += " P=" + keyBigStr(p)
			}
			s += fmt.Sprintf(" Dp=%s Dq=%s Qinv=%s crt=%d", keyBigStr(k.Precomputed.Dp), keyBigStr(k.Precomputed.Dq), keyBigStr(k.Precomputed.Qinv), len(k.Precomputed.CRTValues))
			parts = append(parts, s)
		case *rsa.PublicKey:
			if k == nil {
				parts = append(parts, "rsapub:nil")
				break
			}
			parts = append(parts, fmt.Sprintf("rsapub N=%s E=%d", keyBigStr(k.N), k.E))
		case *ecdsa.PrivateKey:
			if k == nil {
				parts = append(parts, "ecpriv:nil")
				break
			}
			name := "?"
			if k.Curve != nil {
				name = k.Curve.Params().Name
			}
			parts = append(parts, fmt.Sprintf("ecpriv %s D=%s X=%s Y=%s", name, keyBigStr(k.D), keyBigStr(k.X), keyBigStr(k.Y)))
		case *ecdsa.PublicKey:
			if k == nil {
				parts = append(parts, "ecpub:nil")
				break
			}
			name := "?"
			if k.Curve != nil {
				name = k.Curve.Params().Name
			}
			parts = append(parts, fmt.Sprintf("ecpub %s X=%s Y=%s", name, keyBigStr(k.X), keyBigStr(k.Y)))
		case *x509.Certificate:
			if k == nil {
				parts = append(parts, "cert:nil")
				break
			}
			parts = append(parts, "cert "+hexUp(k.Raw))
		default:
			var sb strings.Builder
			keyCanon(&sb, o)
			parts = append(parts, sb.String())
		}
	}
	return strings.Join(parts, " ")
}

// keyScribbleResult plays the caller that overwrites (wipes) what an accessor gave it. deep: the numbers are
// written through their pointers (they may be the object's own numbers: then the content changes with them);
// otherwise only the fields of the returned key structure are replaced, no number is written to.
func keyScribbleResult(outs []reflect.Value, deep bool) {
	if !deep {
		for _, o := range outs {
			if !o.CanInterface() {
				continue
			}
			switch k := o.Interface().(type) {
			case *rsa.PrivateKey:
				if k != nil {
					*k = rsa.PrivateKey{PublicKey: rsa.PublicKey{N: big.NewInt(15), E: 3}, D: big.NewInt(3)}
				}
			case *rsa.PublicKey:
				if k != nil {
					*k = rsa.PublicKey{N: big.NewInt(15), E: 3}
				}
			case *ecdsa.PrivateKey:
				if k != nil {
					k.D, k.X, k.Y = big.NewInt(1), big.NewInt(2), big.NewInt(3)
				}
			case *ecdsa.PublicKey:
				if k != nil {
					k.X, k.Y = big.NewInt(2), big.NewInt(3)
				}
			}
		}
		return
	}
	flip := func(v *big.Int) {
		if v != nil {
			v.Xor(v, big.NewInt(2))
		}
	}
	for _, o := range outs {
		if !o.CanInterface() {
			continue
		}
		switch k := o.Interface().(type) {
		case *rsa.PrivateKey:
			if k != nil {
				flip(k.N)
				flip(k.D)
				k.E ^= 2
				for _, p := range k.Primes {
					flip(p)
				}
				flip(k.Precomputed.Dp)
				flip(k.Precomputed.Dq)
				flip(k.Precomputed.Qinv)
			}
		case *rsa.PublicKey:
			if k != nil {
				flip(k.N)
				k.E ^= 2
			}
		case *ecdsa.PrivateKey:
			if k != nil {
				flip(k.D)
				flip(k.X)
				flip(k.Y)
			}
		case *ecdsa.PublicKey:
			if k != nil {
				flip(k.X)
				flip(k.Y)
			}
		case []byte:
			keyScribble(k)
		}
	}
}

type keyReuseAcc struct {
	name string
	recv reflect.Value
	fn   reflect.Method
}

// keyReuseAccessors: every method without parameters of the payload, of the object it holds now and of that
// object's key block (the receivers are looked up at each call: a change may have replaced the object).
func keyReuseAccessors(pl *payloads.GetResponsePayload) []keyReuseAcc {
	var out []keyReuseAcc
	add := func(prefix string, recv reflect.Value) {
		t := recv.Type()
		for i := 0; i < t.NumMethod(); i++ {
			m := t.Method(i)
			if m.Type.NumIn() != 1 || m.Type.NumOut() == 0 || m.Type.NumOut() > 2 {
				continue
			}
			if m.Type.NumOut() == 2 && m.Type.Out(1) != keyErrorT {
				continue
			}
			out = append(out, keyReuseAcc{prefix + "." + m.Name, recv, m})
		}
	}
	add("Get", reflect.ValueOf(pl))
	if pl.Object != nil {
		rv := reflect.ValueOf(pl.Object)
		if rv.Kind() == reflect.Ptr && !rv.IsNil() {
			add(rv.Type().Elem().Name(), rv)
			if kb := rv.Elem().FieldByName("KeyBlock"); kb.IsValid() && kb.CanAddr() {
				add("KeyBlock", kb.Addr())
			}
		}
	}
	return out
}

// call: scribble 0 = the result is left alone, 1 = overwritten through its pointers, 2 = its fields replaced
func (a *keyReuseAcc) call(scribble int) string {
	out, p := guard("reuse "+a.name, func() string {
		outs := a.fn.Func.Call([]reflect.Value{a.recv})
		s := keyRenderResult(outs)
		if scribble != 0 {
			keyScribbleResult(outs, scribble == 1)
		}
		return s
	})
	if p != "" {
		return "panic " + panicKey(p)
	}
	return out
}

// ---- the in-place changes ----

type keyReuseChange struct {
	name   string
	needsB bool
	decode bool // O starts as a decoded object (the first message), not as a hand-built one
	// apply returns false when the change does not apply to this pair
	apply func(env *keyEnv, pl *payloads.GetResponsePayload, a, b *keyShObj) bool
}

func keyObjStruct(o kmip.Object) reflect.Value {
	rv := reflect.ValueOf(o)
	if !rv.IsValid() || rv.Kind() != reflect.Ptr || rv.IsNil() {
		return reflect.Value{}
	}
	return rv.Elem()
}

// keySlotPairs: the pointer fields of two KeyMaterial values, slot by slot.
func keySlotPairs(o, b *kmip.KeyMaterial) [][2]reflect.Value {
	vo, vb := reflect.ValueOf(o).Elem(), reflect.ValueOf(b).Elem()
	var out [][2]reflect.Value
	for i := 0; i < vo.NumField(); i++ {
		if vo.Type().Field(i).PkgPath == "" && vo.Field(i).Kind() == reflect.Ptr {
			out = append(out, [2]reflect.Value{vo.Field(i), vb.Field(i)})
		}
	}
	return out
}

func keyEncNamed(name string) keyEnc {
	for _, e := range keyEncs {
		if e.name == name {
			return e
		}
	}
	return keyEncs[0]
}

func keyReuseDecodeInto(enc keyEnc, src any, dst any) bool {
	doc, p := guard("marshal", func() []byte { return enc.marshal(src) })
	if p != "" || len(doc) == 0 {
		return false
	}
	err, p := guard("unmarshal", func() error { return enc.unmarshal(doc, dst) })
	return p == "" && err == nil
}

// keyReuseDecodePayloadInto: a Get response payload written under the Response Payload tag and decoded into an
// existing payload.
func keyReuseDecodePayloadInto(enc keyEnc, src, dst *payloads.GetResponsePayload) bool {
	doc, p := guard("marshal", func() []byte {
		var e ttlv.Encoder
		switch enc.name {
		case "xml":
			e = ttlv.NewXMLEncoder()
		case "json":
			e = ttlv.NewJSONEncoder()
		default:
			e = ttlv.NewTTLVEncoder()
		}
		e.TagAny(kmip.TagResponsePayload, src)
		return append([]byte{}, e.Bytes()...)
	})
	if p != "" || len(doc) == 0 {
		return false
	}
	err, p := guard("unmarshal", func() error {
		var d ttlv.Decoder
		var err error
		switch enc.name {
		case "xml":
			d, err = ttlv.NewXMLDecoder(doc)
		case "json":
			d, err = ttlv.NewJSONDecoder(doc)
		default:
			d, err = ttlv.NewTTLVDecoder(doc)
		}
		if err != nil {
			return err
		}
		return d.TagAny(kmip.TagResponsePayload, dst)
	})
	return p == "" && err == nil
}

func keyReuseChanges() []keyReuseChange {
	sameType := func(pl *payloads.GetResponsePayload, bo kmip.Object) bool {
		return pl.Object != nil && bo != nil && reflect.TypeOf(pl.Object) == reflect.TypeOf(bo)
	}
	withKb := func(f func(okb, bkb *kmip.KeyBlock) bool) func(*keyEnv, *payloads.GetResponsePayload, *keyShObj, *keyShObj) bool {
		return func(_ *keyEnv, pl *payloads.GetResponsePayload, _, b *keyShObj) bool {
			okb := keyKbOf(pl.Object)
			var bkb *kmip.KeyBlock
			if b != nil {
				bkb = keyKbOf(b.toGo())
				if bkb == nil {
					return false
				}
			}
			if okb == nil {
				return false
			}
			return f(okb, bkb)
		}
	}
	bothPlain := func(okb, bkb *kmip.KeyBlock) bool {
		return okb.KeyValue != nil && okb.KeyValue.Plain != nil && bkb.KeyValue != nil && bkb.KeyValue.Plain != nil
	}
	out := []keyReuseChange{
		{name: "none", apply: func(*keyEnv, *payloads.GetResponsePayload, *keyShObj, *keyShObj) bool { return true }},
		{name: "assign", needsB: true, apply: func(_ *keyEnv, pl *payloads.GetResponsePayload, _, b *keyShObj) bool {
			bo := b.toGo()
			if !sameType(pl, bo) {
				return false
			}
			keyObjStruct(pl.Object).Set(keyObjStruct(bo))
			return true
		}},
		{name: "pl-object", needsB: true, apply: func(_ *keyEnv, pl *payloads.GetResponsePayload, _, b *keyShObj) bool {
			pl.Object = b.toGo()
			pl.ObjectType = kmip.ObjectType(b.naturalType())
			return true
		}},
		{name: "kb", needsB: true, apply: withKb(func(okb, bkb *kmip.KeyBlock) bool { *okb = *bkb; return true })},
		{name: "kv", needsB: true, apply: withKb(func(okb, bkb *kmip.KeyBlock) bool {
			okb.KeyFormatType, okb.KeyCompressionType, okb.KeyValue = bkb.KeyFormatType, bkb.KeyCompressionType, bkb.KeyValue
			return true
		})},
		{name: "kv-content", needsB: true, apply: withKb(func(okb, bkb *kmip.KeyBlock) bool {
			if okb.KeyValue == nil || bkb.KeyValue == nil {
				return false
			}
			okb.KeyFormatType, okb.KeyCompressionType = bkb.KeyFormatType, bkb.KeyCompressionType
			*okb.KeyValue = *bkb.KeyValue
			return true
		})},
		{name: "plain-content", needsB: true, apply: withKb(func(okb, bkb *kmip.KeyBlock) bool {
			if !bothPlain(okb, bkb) {
				return false
			}
			okb.KeyFormatType, okb.KeyCompressionType = bkb.KeyFormatType, bkb.KeyCompressionType
			*okb.KeyValue.Plain = *bkb.KeyValue.Plain
			return true
		})},
		{name: "slot-content", needsB: true, apply: withKb(func(okb, bkb *kmip.KeyBlock) bool {
			// the content of each material slot replaced under the pointer the object already has
			if !bothPlain(okb, bkb) {
				return false
			}
			okb.KeyFormatType, okb.KeyCompressionType = bkb.KeyFormatType, bkb.KeyCompressionType
			for _, pr := range keySlotPairs(&okb.KeyValue.Plain.KeyMaterial, &bkb.KeyValue.Plain.KeyMaterial) {
				if !pr[0].IsNil() && !pr[1].IsNil() {
					pr[0].Elem().Set(pr[1].Elem())
				} else {
					pr[0].Set(pr[1])
				}
			}
			return true
		})},
		{name: "numbers", needsB: true, apply: withKb(func(okb, bkb *kmip.KeyBlock) bool {
			// big integers and byte strings overwritten where they are (no pointer of the object changes)
			if !bothPlain(okb, bkb) || okb.KeyFormatType != bkb.KeyFormatType {
				return false
			}
			changed := false
			var walk func(o, b reflect.Value)
			walk = func(o, b reflect.Value) {
				switch o.Kind() {
				case reflect.Ptr:
					if !o.IsNil() && !b.IsNil() {
						walk(o.Elem(), b.Elem())
					}
				case reflect.Struct:
					if o.Type() == keyBigIntT {
						o.Addr().Interface().(*big.Int).Set(b.Addr().Interface().(*big.Int))
						changed = true
						return
					}
					if keyIsLibStruct(o.Type()) {
						for i := 0; i < o.NumField(); i++ {
							if o.Type().Field(i).PkgPath == "" {
								walk(o.Field(i), b.Field(i))
							}
						}
					}
				case reflect.Slice:
					if o.Type().Elem().Kind() == reflect.Uint8 && o.Len() == b.Len() && o.Len() > 0 {
						reflect.Copy(o, b)
						changed = true
					}
				default:
					if o.CanSet() && o.Kind() != reflect.Interface {
						o.Set(b)
					}
				}
			}
			walk(reflect.ValueOf(&okb.KeyValue.Plain.KeyMaterial), reflect.ValueOf(&bkb.KeyValue.Plain.KeyMaterial))
			return changed
		})},
		{name: "format", needsB: true, apply: withKb(func(okb, bkb *kmip.KeyBlock) bool {
			if okb.KeyFormatType == bkb.KeyFormatType {
				return false
			}
			okb.KeyFormatType = bkb.KeyFormatType
			return true
		})},
		{name: "rm-kv", apply: withKb(func(okb, _ *kmip.KeyBlock) bool {
			if okb.KeyValue == nil {
				return false
			}
			okb.KeyValue = nil
			return true
		})},
		{name: "rm-plain", apply: withKb(func(okb, _ *kmip.KeyBlock) bool {
			if okb.KeyValue == nil || okb.KeyValue.Plain == nil {
				return false
			}
			okb.KeyValue.Plain = nil
			return true
		})},
		{name: "rm-wrapped", apply: withKb(func(okb, _ *kmip.KeyBlock) bool {
			// the key value becomes a wrapped one: a byte string, no plain material
			if okb.KeyValue == nil || okb.KeyValue.Plain == nil {
				return false
			}
			w := []byte{7, 7, 7}
			okb.KeyValue.Plain, okb.KeyValue.Wrapped = nil, &w
			return true
		})},
		{name: "rm-slots", apply: withKb(func(okb, _ *kmip.KeyBlock) bool {
			if okb.KeyValue == nil || okb.KeyValue.Plain == nil {
				return false
			}
			okb.KeyValue.Plain.KeyMaterial = kmip.KeyMaterial{}
			return true
		})},
		{name: "rm-numbers", apply: withKb(func(okb, _ *kmip.KeyBlock) bool {
			// the optional numbers of a transparent RSA private key removed, the byte strings emptied
			if okb.KeyValue == nil || okb.KeyValue.Plain == nil {
				return false
			}
			km := &okb.KeyValue.Plain.KeyMaterial
			changed := false
			if t := km.TransparentRSAPrivateKey; t != nil {
				t.PrivateExponent, t.P, t.Q, t.PrimeExponentP, t.PrimeExponentQ, t.CRTCoefficient = nil, nil, nil, nil, nil, nil
				changed = true
			}
			if km.Bytes != nil {
				*km.Bytes = (*km.Bytes)[:0]
				changed = true
			}
			if t := km.TransparentSymmetricKey; t != nil {
				t.Key = nil
				changed = true
			}
			return changed
		})},
		{name: "cert-value", needsB: true, apply: func(_ *keyEnv, pl *payloads.GetResponsePayload, _, b *keyShObj) bool {
			c, ok := pl.Object.(*kmip.Certificate)
			if !ok || b.kind != "ce" {
				return false
			}
			c.CertificateType = kmip.CertificateType(b.ty)
			c.CertificateValue = append([]byte{}, b.cert...)
			return true
		}},
		{name: "cert-inplace", needsB: true, apply: func(_ *keyEnv, pl *payloads.GetResponsePayload, _, b *keyShObj) bool {
			c, ok := pl.Object.(*kmip.Certificate)
			if !ok || b.kind != "ce" {
				return false
			}
			c.CertificateValue = append(c.CertificateValue[:0], b.cert...)
			return true
		}},
		{name: "cert-empty", apply: func(_ *keyEnv, pl *payloads.GetResponsePayload, _, _ *keyShObj) bool {
			c, ok := pl.Object.(*kmip.Certificate)
			if !ok {
				return false
			}
			c.CertificateValue = nil
			return true
		}},
		{name: "scribble", apply: func(*keyEnv, *payloads.GetResponsePayload, *keyShObj, *keyShObj) bool { return true }},
		{name: "scribble-fields", apply: func(*keyEnv, *payloads.GetResponsePayload, *keyShObj, *keyShObj) bool { return true }},
	}
	for _, enc := range keyEncs {
		enc := enc
		// a second message decoded into the object that holds the first one
		out = append(out, keyReuseChange{name: "dec-" + enc.name, needsB: true, decode: true,
			apply: func(_ *keyEnv, pl *payloads.GetResponsePayload, _, b *keyShObj) bool {
				bo := b.toGo()
				if !sameType(pl, bo) {
					return false
				}
				return keyReuseDecodeInto(enc, bo, pl.Object)
			}})
		// … and into the payload that holds the first one
		out = append(out, keyReuseChange{name: "pl-dec-" + enc.name, needsB: true, decode: true,
			apply: func(_ *keyEnv, pl *payloads.GetResponsePayload, _, b *keyShObj) bool {
				src := &payloads.GetResponsePayload{ObjectType: kmip.ObjectType(b.naturalType()), UniqueIdentifier: "id2", Object: b.toGo()}
				return keyReuseDecodePayloadInto(enc, src, pl)
			}})
	}
	return out
}

var keyReuseChangeList = keyReuseChanges()

func keyAbbrev(s string) string {
	if len(s) > 260 {
		return s[:120] + "…" + s[len(s)-120:]
	}
	return s
}

// keyReuseCase: one change on one ordered pair of contents.
func keyReuseCase(env *keyEnv, ch *keyReuseChange, a, b *keyShObj) {
	ctx := env.ctx
	bTok := "-"
	if ch.needsB {
		bTok = b.render(env.blobs)
	}
	line := fmt.Sprintf("#key.reuse %s %s | %s", ch.name, a.render(env.blobs), bTok)
	if env.seen[line] {
		return
	}
	env.seen[line] = true
	ctx.current = line

	// the payload with content A
	pl := &payloads.GetResponsePayload{ObjectType: kmip.ObjectType(a.naturalType()), UniqueIdentifier: "id", Object: a.toGo()}
	if ch.decode {
		// the first message is decoded into a new object / payload
		if strings.HasPrefix(ch.name, "pl-") {
			dst := &payloads.GetResponsePayload{}
			if !keyReuseDecodePayloadInto(keyEncNamed(strings.TrimPrefix(ch.name, "pl-dec-")), pl, dst) {
				ctx.Res.Count("reuse.skip.undecodable-first." + ch.name)
				return
			}
			pl = dst
		} else {
			dst := reflect.New(reflect.TypeOf(pl.Object).Elem()).Interface().(kmip.Object)
			if !keyReuseDecodeInto(keyEncNamed(strings.TrimPrefix(ch.name, "dec-")), pl.Object, dst) {
				ctx.Res.Count("reuse.skip.undecodable-first." + ch.name)
				return
			}
			pl.Object = dst
		}
	}

	outcome := "ok"
	nViol := 0
	report := func(oracle, key, detail string) {
		outcome = "violation"
		nViol++
		if nViol <= 3 {
			keyViolate(ctx, oracle, key, detail+" ["+keyAbbrev(line)+"]", line)
		}
	}
	// check: every accessor on the object as it is, against a fresh object with the same exported content
	check := func(phase string, scribble int) bool {
		accs := keyReuseAccessors(pl)
		// the reference object is made from the content the object has at the moment of the call (a caller that
		// overwrites what an earlier accessor returned may have changed the content through shared memory)
		before := keyCanonOf(pl)
		var fresh *payloads.GetResponsePayload
		var faccs []keyReuseAcc
		for i := range accs {
			acc := &accs[i]
			if fresh == nil {
				fresh = keyClonePayload(pl)
				if got := keyCanonOf(fresh); got != before {
					ctx.Res.Fail("key reuse: the copy of the payload differs from the payload: " + keyAbbrev(got) + " / " + keyAbbrev(before))
					return false
				}
				faccs = keyReuseAccessors(fresh)
			}
			if len(accs) != len(faccs) || faccs[i].name != acc.name {
				ctx.Res.Fail("key reuse: accessor lists differ")
				return false
			}
			got := acc.call(scribble)
			after := keyCanonOf(pl)
			if after != before {
				if scribble == 0 {
					report("accessor-leaves-object", "key:accessor-modifies-object:"+acc.name,
						fmt.Sprintf("%s (%s, change %s) changed the object it was called on: before %s, after %s", acc.name, phase, ch.name, keyAbbrev(before), keyAbbrev(after)))
				}
			}
			ref := faccs[i].call(0)
			if got != ref {
				what := "a new object with the same content gives"
				report("accessor-content-only", "key:accessor-stale:"+acc.name,
					fmt.Sprintf("%s on an object that was used before (%s; in-place change: %s) returns %s; %s %s; content now: %s", acc.name, phase, ch.name, keyAbbrev(got), what, keyAbbrev(ref), keyAbbrev(keyCanonOf(pl.Object))))
			}
			ctx.Res.Count("reuse.acc." + strings.SplitN(got, " ", 2)[0])
			if after != before {
				before, fresh = after, nil
			}
		}
		ctx.Res.Count(fmt.Sprintf("reuse.accessors=%d", len(accs)))
		return true
	}
	scr := 0
	switch ch.name {
	case "scribble":
		scr = 1
	case "scribble-fields":
		scr = 2
	}
	if !check("first content", scr) {
		return
	}
	if !ch.apply(env, pl, a, b) {
		ctx.Res.Count("reuse.skip.not-applicable." + ch.name)
		return
	}
	if !check("after the change", 0) {
		return
	}
	// the class of outcome of the reused object against the model's answer for its present content
	if o := keyObjFromGo(pl.Object); pl.Object != nil && o != nil && keyReuseModelKnows(env, o) {
		keyAccessCase(env, pl, false, "reuse:"+ch.name, "")
	}
	ctx.current = line
	ctx.Add(line, outcome, true, "C14")
	ctx.Res.Count("reuse." + ch.name)
}

// keyReuseModelKnows: the model tells the standard library's blobs apart by name; a blob or a curve point it has
// no name for is garbage to it.  Contents of private / public keys and certificates go to the model only when
// all their byte strings are named ones (symmetric keys and secrets are any bytes).
func keyReuseModelKnows(env *keyEnv, o *keyShObj) bool {
	named := func(b []byte) bool { _, ok := env.blobs.byHex[hexUp(b)]; return ok }
	switch o.kind {
	case "ce":
		return named(o.cert)
	case "pr", "pu":
		m := o.kb.plain
		if m == nil {
			return true
		}
		if m.bytes != nil && !named(*m.bytes) {
			return false
		}
		for _, t := range []*keyShEcPub{m.ecdsaPub, m.ecPub} {
			if t != nil && !named(t.q) {
				return false
			}
		}
	}
	return true
}

// keyReuseShapes: contents grouped by object kind; every ordered pair within a group is a case.
func keyReuseShapes(env *keyEnv) map[string][]*keyShObj {
	bl := env.blobs
	k1 := env.shapeRSA
	var others []*rsa.PrivateKey
	for _, s := range env.rsas {
		if s.lenient || s.multi || s.key == k1 || s.key.N.Cmp(k1.N) == 0 {
			continue
		}
		others = append(others, s.key)
	}
	sort.SliceStable(others, func(i, j int) bool { return others[i].N.BitLen() < others[j].N.BitLen() })
	rsaKeys := []*rsa.PrivateKey{k1}
	if len(others) > 0 {
		rsaKeys = append(rsaKeys, others[0])
	}
	if n := len(others); n > 1 && env.ctx.Thor {
		rsaKeys = append(rsaKeys, others[n-1])
	}
	out := map[string][]*keyShObj{}
	add := func(o *keyShObj) { out[o.kind] = append(out[o.kind], o) }
	kbBytes := func(kind string, f uint32, b []byte) *keyShObj {
		return &keyShObj{kind: kind, ty: 1, kb: keyShKeyBlock{format: f, hasKV: true, plain: &keyShMaterial{bytes: keyBp(b)}}}
	}
	must := func(b []byte, err error) []byte {
		if err != nil {
			env.ctx.Res.Fail("key reuse: " + err.Error())
		}
		return b
	}
	for i, k := range rsaKeys {
		t := &keyShRsaPriv{n: k.N, d: k.D, e: big.NewInt(int64(k.E)), p: k.Primes[0], q: k.Primes[1], dp: k.Precomputed.Dp, dq: k.Precomputed.Dq, qi: k.Precomputed.Qinv}
		add(&keyShObj{kind: "pr", kb: keyShKeyBlock{format: 10, hasKV: true, plain: &keyShMaterial{rsaPriv: t}}})
		add(&keyShObj{kind: "pu", kb: keyShKeyBlock{format: 11, hasKV: true, plain: &keyShMaterial{rsaPub: &keyShRsaPub{n: k.N, e: big.NewInt(int64(k.E))}}}})
		if i < 2 {
			add(kbBytes("pr", 3, x509.MarshalPKCS1PrivateKey(k)))
			add(kbBytes("pr", 4, must(x509.MarshalPKCS8PrivateKey(k))))
			add(kbBytes("pu", 3, x509.MarshalPKCS1PublicKey(&k.PublicKey)))
			add(kbBytes("pu", 5, must(x509.MarshalPKIXPublicKey(&k.PublicKey))))
		}
	}
	// transparent RSA private key without the CRT numbers, and one the accessor refuses (no private exponent)
	add(&keyShObj{kind: "pr", kb: keyShKeyBlock{format: 10, hasKV: true, plain: &keyShMaterial{rsaPriv: &keyShRsaPriv{n: k1.N, d: k1.D, e: big.NewInt(int64(k1.E)), p: k1.Primes[0], q: k1.Primes[1]}}}})
	add(&keyShObj{kind: "pr", kb: keyShKeyBlock{format: 10, hasKV: true, plain: &keyShMaterial{rsaPriv: &keyShRsaPriv{n: k1.N, e: big.NewInt(int64(k1.E))}}}})
	// EC keys: two scalars on P-256, one on P-384; transparent (both representations), SEC1, PKCS#8, PKIX
	type ecS struct {
		ci keyCurveInfo
		d  *big.Int
	}
	var ecs []ecS
	for _, ci := range keyCurves {
		switch ci.name {
		case "p256":
			ecs = append(ecs, ecS{ci, big.NewInt(1000 + int64(ci.code))}, ecS{ci, new(big.Int).Lsh(big.NewInt(0x1234567), 200)})
		case "p384":
			ecs = append(ecs, ecS{ci, big.NewInt(1000 + int64(ci.code))})
		}
	}
	for i, e := range ecs {
		k := keyECFromD(e.ci.curve, e.d)
		pt := keyECPoint(k)
		f1, f2 := uint32(14), uint32(15)
		if i%2 == 1 {
			f1, f2 = 20, 21
		}
		mp, mu := &keyShMaterial{}, &keyShMaterial{}
		if f1 == 14 {
			mp.ecdsaPriv, mu.ecdsaPub = &keyShEcPriv{curve: e.ci.code, d: e.d}, &keyShEcPub{curve: e.ci.code, q: pt}
		} else {
			mp.ecPriv, mu.ecPub = &keyShEcPriv{curve: e.ci.code, d: e.d}, &keyShEcPub{curve: e.ci.code, q: pt}
		}
		add(&keyShObj{kind: "pr", kb: keyShKeyBlock{format: f1, hasKV: true, plain: mp}})
		add(&keyShObj{kind: "pu", kb: keyShKeyBlock{format: f2, hasKV: true, plain: mu}})
		add(kbBytes("pr", 6, must(x509.MarshalECPrivateKey(k))))
		if i != 1 {
			add(kbBytes("pr", 4, must(x509.MarshalPKCS8PrivateKey(k))))
			add(kbBytes("pu", 5, must(x509.MarshalPKIXPublicKey(&k.PublicKey))))
		}
	}
	add(kbBytes("pr", 3, []byte{0xDE, 0xAD, 0xBE, 0xEF}))
	// byte strings
	b1, b2 := []byte{9, 8, 7, 6, 5, 4, 3, 2, 1, 0, 1, 2, 3, 4, 5, 6}, []byte{0x80, 0, 0xFF, 1, 2, 3, 4, 5, 6, 7, 8, 9, 10, 11, 12, 13}
	b3 := []byte{1, 2, 3}
	for _, kind := range []string{"sk", "sd", "sp", "pg"} {
		for _, b := range [][]byte{b1, b2, b3} {
			add(kbBytes(kind, 1, b))
		}
		add(kbBytes(kind, 2, b2))
	}
	for _, b := range [][]byte{b1, b2} {
		add(&keyShObj{kind: "sk", kb: keyShKeyBlock{format: 7, hasKV: true, plain: &keyShMaterial{sym: keyBp(b)}}})
	}
	add(&keyShObj{kind: "sd", ty: 2, kb: keyShKeyBlock{format: 2, hasKV: true, plain: &keyShMaterial{bytes: keyBp(b1)}}})
	// metadata-only and wrapped blocks as second content
	for _, kind := range []string{"pr", "pu", "sk", "sd"} {
		add(&keyShObj{kind: kind, ty: 1, kb: keyShKeyBlock{format: 1}})
		add(&keyShObj{kind: kind, ty: 1, kb: keyShKeyBlock{format: 10, hasKV: true, wrapped: true}})
	}
	// certificates
	if c := bl.byName["cert"]; c != nil {
		add(&keyShObj{kind: "ce", ty: 1, cert: c})
		add(&keyShObj{kind: "ce", ty: 2, cert: c})
	}
	add(&keyShObj{kind: "ce", ty: 1, cert: bl.byName["pkixrsa"]})
	add(&keyShObj{kind: "ce", ty: 1, cert: []byte{0x30, 0x00}})
	return out
}

func keyECPoint(k *ecdsa.PrivateKey) []byte {
	bl := (k.Curve.Params().BitSize + 7) / 8
	out := make([]byte, 1+2*bl)
	out[0] = 4
	k.X.FillBytes(out[1 : 1+bl])
	k.Y.FillBytes(out[1+bl:])
	return out
}

var keyReuseKinds = []string{"pr", "pu", "sk", "sd", "sp", "pg", "ce"}

func keyRunReusePart(env *keyEnv) {
	shapes := keyReuseShapes(env)
	for _, kind := range keyReuseKinds {
		list := shapes[kind]
		// neighbours in format order (same format, other key; the adjacent formats), both directions;
		// thorough: every ordered pair
		sort.SliceStable(list, func(i, j int) bool { return list[i].kb.format < list[j].kb.format })
		for i, a := range list {
			for j, b := range list {
				if d := i - j; i == j || (!env.ctx.Thor && (d > 2 || d < -2)) {
					continue
				}
				for ci := range keyReuseChangeList {
					keyReuseCase(env, &keyReuseChangeList[ci], a, b)
				}
			}
		}
	}
	// a payload whose object is replaced by one of another kind
	for _, pair := range [][2]string{{"pr", "pu"}, {"pu", "pr"}, {"sk", "sd"}, {"sd", "ce"}, {"ce", "pr"}, {"pr", "sk"}} {
		withMaterial := func(l []*keyShObj) []*keyShObj {
			var out []*keyShObj
			for _, o := range l {
				if o.kind == "ce" || o.kb.plain != nil {
					out = append(out, o)
				}
			}
			return out
		}
		la, lb := withMaterial(shapes[pair[0]]), withMaterial(shapes[pair[1]])
		if len(la) == 0 || len(lb) == 0 {
			continue
		}
		for ci := range keyReuseChangeList {
			ch := &keyReuseChangeList[ci]
			if strings.HasPrefix(ch.name, "pl-") || ch.name == "kb" || ch.name == "kv" {
				keyReuseCase(env, ch, la[0], lb[0])
			}
		}
	}
}

// keyReuseReplay: `#key.reuse <change> <content A> | <content B or ->`
func keyReuseReplay(env *keyEnv, arg string) {
	f := strings.Fields(arg)
	if len(f) < 4 {
		return
	}
	sep := -1
	for i, t := range f {
		if t == "|" {
			sep = i
		}
	}
	if sep < 2 || sep == len(f)-1 {
		return
	}
	a, err := keyParseShObj(env.blobs, f[1:sep])
	if err != nil {
		env.ctx.Res.Fail("key reuse replay: " + err.Error())
		return
	}
	b := a
	if f[sep+1] != "-" {
		if b, err = keyParseShObj(env.blobs, f[sep+1:]); err != nil {
			env.ctx.Res.Fail("key reuse replay: " + err.Error())
			return
		}
	}
	for ci := range keyReuseChangeList {
		if keyReuseChangeList[ci].name == f[0] {
			keyReuseCase(env, &keyReuseChangeList[ci], a, b)
		}
	}
}
