module verifharness

go 1.24.0

require github.com/ovh/kmip-go v0.0.0

replace github.com/ovh/kmip-go => /repo
