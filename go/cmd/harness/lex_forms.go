package main

// C04, "documents produced elsewhere": ALTERNATIVE BUT LEGAL LEXICAL FORMS OF NUMBERS (part of engine `lex`).
//
// The library's own writers emit one lexical form per value (decimal without sign or leading zeros, 0x + upper-case
// digits of a fixed width, upper-case hexBinary, JSON integers without fraction or exponent). A conformant producer
// may spell the SAME value differently. For every scalar kind that carries a number this file builds — with the
// harness's own formatter, never with the library's writer — documents that differ from the library's own document
// only in the spelling of one number, decodes them with the real readers and demands the C04 clause:
//
//	the document decodes to a message whose binary TTLV is BYTE-IDENTICAL to that of the value spelled, or it is
//	rejected; it never decodes silently to another value.
//
// Per form, `must` says whether rejection is a violation too. It is only where the lexical space of the schema type is
// unambiguous and the conformance vectors / the profile use the type that way:
//
//	XML Integer / LongInteger / Interval (xsd:int, xsd:long, xsd:unsignedInt): leading zeros            MUST decode
//	XML Integer / LongInteger: explicit '+', '+' with leading zeros, "-0"                                MUST decode
//	XML ByteString / BigInteger (xsd:hexBinary): lower-case and mixed-case digits (the vectors use them) MUST decode
//	everything else — '+' / "-0" on the unsigned Interval, white space around a number (xsd collapses it, the library
//	does not), 0x forms where the library writes decimal, lower-case / short / over-long 0x digits, an upper-case 0X
//	prefix, decimal inside a JSON string, JSON numbers with a zero fraction or an exponent, "1"/"0" for a Boolean,
//	zone offsets for a date, unpadded / over-padded big integers, other spellings of a tag —      same value OR rejected
//
// Every document is also a reader line of the correspondence (origin "form"), so the Lean readers answer them too.

import (
	"bytes"
	"encoding/hex"
	"fmt"
	"math"
	"math/big"
	"strconv"
	"strings"
	"time"

	"github.com/ovh/kmip-go/ttlv"

	"verifharness/internal/tree"
)

type lexFormAlt struct {
	name    string
	text    string // attribute value / JSON string content; the JSON literal itself when raw
	raw     bool   // JSON only
	mustXML bool
	tag     string // non-empty: another spelling of the element's TAG (text is then the canonical value)
}

func lexAbsDec(v int64) (sign, mag string) {
	b := big.NewInt(v)
	if b.Sign() < 0 {
		sign = "-"
	}
	return sign, new(big.Int).Abs(b).String()
}

// lexDecForms: other spellings of the decimal number v. signed: the schema type has a sign (xsd:int / xsd:long).
// must: leading zeros (and sign forms of signed types) are in the lexical space of the XML schema type.
func lexDecForms(v int64, signed, must bool) []lexFormAlt {
	sign, mag := lexAbsDec(v)
	canon := sign + mag
	pad := mag
	if len(pad) < 24 {
		pad = strings.Repeat("0", 24-len(pad)) + pad
	}
	fs := []lexFormAlt{
		{name: "dec-zero1", text: sign + "0" + mag, mustXML: must},
		{name: "dec-zero3", text: sign + "000" + mag, mustXML: must},
		{name: "dec-zero-pad24", text: sign + pad, mustXML: must},
		{name: "dec-space-lead", text: " " + canon},
		{name: "dec-space-trail", text: canon + " "},
		{name: "dec-space-both", text: "  " + canon + "  "},
		{name: "dec-tab-newline", text: "\t" + canon + "\n"},
		{name: "dec-zero-space", text: " " + sign + "0" + mag + " "},
	}
	if v >= 0 {
		fs = append(fs,
			lexFormAlt{name: "dec-plus", text: "+" + mag, mustXML: must && signed},
			lexFormAlt{name: "dec-plus-zero", text: "+00" + mag, mustXML: must && signed})
	}
	if v == 0 {
		fs = append(fs,
			lexFormAlt{name: "dec-neg-zero", text: "-0", mustXML: must && signed},
			lexFormAlt{name: "dec-neg-zero2", text: "-00", mustXML: must && signed})
	}
	return fs
}

func lexMixCase(s string) string {
	b := []byte(s)
	up := false
	for i, c := range b {
		if (c >= 'a' && c <= 'f') || (c >= 'A' && c <= 'F') {
			if up {
				b[i] = c &^ 0x20
			} else {
				b[i] = c | 0x20
			}
			up = !up
		}
	}
	return string(b)
}

// lexHexForms: spellings of the bit pattern u (width hex digits) with the 0x prefix.
func lexHexForms(u uint64, width int) []lexFormAlt {
	up := fmt.Sprintf("%0*X", width, u)
	return []lexFormAlt{
		{name: "hex-upper", text: "0x" + up},
		{name: "hex-lower", text: "0x" + strings.ToLower(up)},
		{name: "hex-mixed", text: "0x" + lexMixCase(up)},
		{name: "hex-short", text: fmt.Sprintf("0x%X", u)},
		{name: "hex-short-lower", text: fmt.Sprintf("0x%x", u)},
		{name: "hex-zero-extended", text: "0x00000000" + up},
		{name: "hex-prefix-upper", text: "0X" + up},
		{name: "hex-space", text: " 0x" + up + " "},
		{name: "hex-plus", text: "+0x" + up},
	}
}

// lexJSONNumForms: JSON number literals denoting the integer v (RFC 8259 allows a fraction and an exponent on any number).
func lexJSONNumForms(v int64) []lexFormAlt {
	sign, mag := lexAbsDec(v)
	c := sign + mag
	fs := []lexFormAlt{
		{name: "num-plain", text: c, raw: true},
		{name: "num-frac0", text: c + ".0", raw: true},
		{name: "num-frac000", text: c + ".000", raw: true},
		{name: "num-exp0", text: c + "e0", raw: true},
		{name: "num-Exp-plus0", text: c + "E+0", raw: true},
		{name: "num-exp-minus0", text: c + "e-0", raw: true},
		{name: "num-frac-exp", text: c + ".0e0", raw: true},
	}
	if len(mag) > 1 {
		// scientific notation: d.ddd e(n-1)
		fs = append(fs, lexFormAlt{name: "num-scientific", text: sign + mag[:1] + "." + mag[1:] + "e" + strconv.Itoa(len(mag)-1), raw: true})
		fs = append(fs, lexFormAlt{name: "num-scientific-E", text: sign + mag[:1] + "." + mag[1:] + "E+" + strconv.Itoa(len(mag)-1), raw: true})
	}
	if v != 0 && v%10 == 0 {
		t := strings.TrimRight(mag, "0")
		fs = append(fs, lexFormAlt{name: "num-exp-trailing-zeros", text: sign + t + "e" + strconv.Itoa(len(mag)-len(t)), raw: true})
	}
	if v != 0 {
		fs = append(fs, lexFormAlt{name: "num-times-ten-exp-minus1", text: c + "0e-1", raw: true})
	}
	if v == 0 {
		for _, z := range []string{"-0", "-0.0", "0e5", "0.0e-3", "0E0", "-0e-0"} {
			fs = append(fs, lexFormAlt{name: "num-zero:" + z, text: z, raw: true})
		}
	}
	return fs
}

func lexHexBinForms(b []byte, prefix string) []lexFormAlt {
	up := strings.ToUpper(hex.EncodeToString(b))
	fs := []lexFormAlt{
		{name: "hexbin-upper", text: prefix + up, mustXML: true},
		{name: "hexbin-lower", text: prefix + strings.ToLower(up), mustXML: true},
		{name: "hexbin-mixed", text: prefix + lexMixCase(up), mustXML: true},
		{name: "hexbin-space", text: " " + prefix + up + " "},
	}
	if prefix != "" {
		fs = append(fs, lexFormAlt{name: "hexbin-prefix-upper", text: "0X" + up})
	}
	return fs
}

// lexBigBytes: two's complement of v, minimal length, then sign-extended to a multiple of `to` bytes.
func lexBigBytes(v *big.Int, to int) []byte {
	var b []byte
	if v.Sign() >= 0 {
		b = v.Bytes()
		if len(b) == 0 || b[0]&0x80 != 0 {
			b = append([]byte{0}, b...)
		}
	} else {
		n := len(new(big.Int).Abs(v).Bytes()) + 1
		m := new(big.Int).Add(v, new(big.Int).Lsh(big.NewInt(1), uint(8*n)))
		b = m.Bytes()
		for len(b) < n {
			b = append([]byte{0}, b...)
		}
		for len(b) > 1 && b[0] == 0xFF && b[1]&0x80 != 0 {
			b = b[1:]
		}
	}
	ext := byte(0)
	if b[0]&0x80 != 0 {
		ext = 0xFF
	}
	for len(b)%to != 0 {
		b = append([]byte{ext}, b...)
	}
	return b
}

var lexFormTypeName = map[tree.Kind]string{tree.KInt: "Integer", tree.KLong: "LongInteger", tree.KBig: "BigInteger", tree.KEnum: "Enumeration", tree.KBool: "Boolean",
	tree.KBytes: "ByteString", tree.KDate: "DateTime", tree.KInterval: "Interval"}

// lexFormsOf: the alternative spellings of scalar x in codec c, and the class name of x.
func lexFormsOf(c *lexCodec, x *lexItem) (string, []lexFormAlt) {
	var fs []lexFormAlt
	isXML := c == lexXML
	class := lexFormTypeName[x.kind]
	switch {
	case x.kind == tree.KInt && x.mask:
		class = "Mask"
		fs = append(fs, lexDecForms(x.i, true, false)...)
		fs = append(fs, lexHexForms(uint64(uint32(int32(x.i))), 8)...)
		// bit by bit, in hexadecimal, with the separator of the encoding
		var bits, low []string
		for k := 0; k < 32; k++ {
			if uint32(int32(x.i))&(1<<k) != 0 {
				bits = append(bits, fmt.Sprintf("0x%08X", uint32(1)<<k))
				low = append(low, fmt.Sprintf("0x%x", uint32(1)<<k))
			}
		}
		if len(bits) > 1 {
			sep := "|"
			if isXML {
				sep = " "
			}
			fs = append(fs, lexFormAlt{name: "mask-bits-hex", text: strings.Join(bits, sep)}, lexFormAlt{name: "mask-bits-hex-short-lower", text: strings.Join(low, sep)},
				lexFormAlt{name: "mask-bits-spaced", text: " " + strings.Join(bits, " "+sep+" ") + " "})
			var dec []string
			for k := 0; k < 31; k++ {
				if uint32(int32(x.i))&(1<<k) != 0 {
					dec = append(dec, "0"+strconv.Itoa(1<<k))
				}
			}
			if uint32(int32(x.i))&(1<<31) != 0 {
				dec = append(dec, "-02147483648")
			}
			if len(dec) > 1 {
				fs = append(fs, lexFormAlt{name: "mask-bits-dec-zero1", text: strings.Join(dec, sep)})
			}
		}
		if !isXML {
			fs = append(fs, lexJSONNumForms(x.i)...)
		}
	case x.kind == tree.KInt:
		fs = append(fs, lexDecForms(x.i, true, true)...)
		fs = append(fs, lexHexForms(uint64(uint32(int32(x.i))), 8)...)
		if !isXML {
			fs = append(fs, lexJSONNumForms(x.i)...)
		}
	case x.kind == tree.KLong:
		fs = append(fs, lexDecForms(x.i, true, true)...)
		fs = append(fs, lexHexForms(uint64(x.i), 16)...)
		if !isXML {
			fs = append(fs, lexJSONNumForms(x.i)...)
		}
	case x.kind == tree.KInterval:
		fs = append(fs, lexDecForms(x.i, false, true)...)
		fs = append(fs, lexHexForms(uint64(x.i), 8)...)
		if !isXML {
			fs = append(fs, lexJSONNumForms(x.i)...)
		}
	case x.kind == tree.KEnum:
		fs = append(fs, lexDecForms(x.i, false, false)...)
		fs = append(fs, lexHexForms(uint64(x.i), 8)...)
		if !isXML {
			fs = append(fs, lexJSONNumForms(x.i)...)
		}
	case x.kind == tree.KBytes:
		fs = append(fs, lexHexBinForms(x.data, "")...)
	case x.kind == tree.KBig:
		prefix := "0x"
		if isXML {
			prefix = ""
		}
		fs = append(fs, lexHexBinForms(lexBigBytes(x.big, 8), prefix)...)
		min := strings.ToUpper(hex.EncodeToString(lexBigBytes(x.big, 1)))
		over := strings.ToUpper(hex.EncodeToString(lexBigBytes(x.big, 8)))
		ext := "00"
		if x.big.Sign() < 0 {
			ext = "FF"
		}
		over = strings.Repeat(ext, 8) + over
		fs = append(fs, lexFormAlt{name: "big-minimal", text: prefix + min}, lexFormAlt{name: "big-minimal-lower", text: prefix + strings.ToLower(min)},
			lexFormAlt{name: "big-over-padded", text: prefix + over})
		if !isXML && x.big.IsInt64() {
			fs = append(fs, lexJSONNumForms(x.big.Int64())...)
		}
	case x.kind == tree.KBool:
		one := "0"
		if x.b {
			one = "1"
		}
		fs = append(fs, lexFormAlt{name: "bool-digit", text: one}, lexFormAlt{name: "bool-space", text: " " + strconv.FormatBool(x.b) + " "})
		if !isXML {
			fs = append(fs, lexFormAlt{name: "bool-hex16", text: "0x000000000000000" + one}, lexFormAlt{name: "bool-hex-short", text: "0x" + one},
				lexFormAlt{name: "bool-digit-zero1", text: "0" + one}, lexFormAlt{name: "bool-literal", text: strconv.FormatBool(x.b), raw: true})
		}
	case x.kind == tree.KDate:
		t := time.Unix(x.i, 0).UTC()
		base := t.Format("2006-01-02T15:04:05")
		fs = append(fs, lexFormAlt{name: "date-Z", text: base + "Z"}, lexFormAlt{name: "date-plus0000", text: base + "+00:00"}, lexFormAlt{name: "date-minus0000", text: base + "-00:00"},
			lexFormAlt{name: "date-frac000", text: base + ".000Z"}, lexFormAlt{name: "date-frac9", text: base + ".000000000Z"}, lexFormAlt{name: "date-lower", text: strings.ToLower(base + "Z")},
			lexFormAlt{name: "date-space", text: " " + base + "Z "})
		for _, off := range []int{2 * 3600, -(7*3600 + 1800), 14 * 3600, -12 * 3600, 5*3600 + 45*60} {
			z := time.FixedZone("", off)
			fs = append(fs, lexFormAlt{name: "date-offset", text: t.In(z).Format("2006-01-02T15:04:05-07:00")})
		}
		if !isXML && x.i >= 0 {
			fs = append(fs, lexHexForms(uint64(x.i), 16)...)
		}
	}
	return class, fs
}

// lexFormTagTexts: other spellings of the tag of an element (the value is left in the library's own form).
func (e *lexEnv) lexFormTagTexts(tag int) []lexFormAlt {
	fs := []lexFormAlt{
		{name: "tag-hex-upper", tag: fmt.Sprintf("0x%06X", tag)},
		{name: "tag-hex-lower", tag: fmt.Sprintf("0x%06x", tag)},
		{name: "tag-hex-mixed", tag: "0x" + lexMixCase(fmt.Sprintf("%06X", tag))},
		{name: "tag-hex-zero-extended", tag: fmt.Sprintf("0x%08X", tag)},
		// not here: texts that are no tag at all in the profile (0X prefix, decimal, white space). The readers report
		// those as "no tag" (0), which the generic structure loop takes for the end of the structure: outside C04's
		// conformant documents (hand documents of lexRun cover them for C02 / the correspondence).
	}
	for n, t := range e.tagByName {
		if t == tag {
			fs = append(fs, lexFormAlt{name: "tag-name", tag: n})
		}
	}
	return fs
}

// lexFormCanon: the text of x's value as the library itself writes it in XML (used where only the tag is respelled).
func lexFormCanon(x *lexItem) string {
	switch x.kind {
	case tree.KInt, tree.KLong, tree.KInterval:
		return strconv.FormatInt(x.i, 10)
	}
	return ""
}

func lexFormXML(tagText, typ, val string) string {
	return `<TTLV tag="` + xmlAttrEscape(tagText) + `" type="` + typ + `" value="` + xmlAttrEscape(val) + `"/>`
}

func lexFormJSON(tagText, typ, val string, raw bool) string {
	if !raw {
		val = jsonString(val)
	}
	return `{"tag":` + jsonString(tagText) + `,"type":"` + typ + `","value":` + val + `}`
}

// formScalar: every alternative spelling of scalar x, alone and between two siblings, in codec c.
func (e *lexEnv) formScalar(ctx *Ctx, c *lexCodec, x *lexItem) {
	class, fs := lexFormsOf(c, x)
	if x.kind == tree.KInt && !x.mask || x.kind == tree.KLong || x.kind == tree.KInterval {
		for _, f := range e.lexFormTagTexts(x.tag) {
			f.text = lexFormCanon(x)
			fs = append(fs, f)
		}
	}
	typ := lexFormTypeName[x.kind]
	own := fmt.Sprintf("0x%06X", x.tag)
	for _, f := range fs {
		tagText := own
		if f.tag != "" {
			tagText = f.tag
		}
		var el string
		if c == lexXML {
			if f.raw {
				continue
			}
			el = lexFormXML(tagText, typ, f.text)
		} else {
			el = lexFormJSON(tagText, typ, f.text, f.raw)
		}
		must := f.mustXML && c == lexXML
		e.formCase(ctx, c, x, class, f.name, must, []byte(el))
		// between two siblings of a structure: the reader must also move on to the next element
		a := &lexItem{kind: tree.KInt, tag: 0x540011, i: 1}
		b := &lexItem{kind: tree.KInt, tag: 0x540012, i: 2}
		root := &lexItem{kind: tree.KStruct, tag: 0x420078, children: []*lexItem{a, x, b}}
		var doc string
		if c == lexXML {
			doc = `<RequestMessage>` + lexFormXML("0x540011", "Integer", "1") + el + lexFormXML("0x540012", "Integer", "2") + `</RequestMessage>`
		} else {
			doc = `{"tag":"RequestMessage","value":[` + lexFormJSON("0x540011", "Integer", "1", true) + `,` + el + `,` + lexFormJSON("0x540012", "Integer", "2", true) + `]}`
		}
		e.formCase(ctx, c, root, class, f.name, must, []byte(doc))
	}
}

// formCase: doc spells the tree `want` in an alternative lexical form. The real reader either rejects it (a violation
// only when must) or decodes it to a message with the binary TTLV of `want`.
func (e *lexEnv) formCase(ctx *Ctx, c *lexCodec, want *lexItem, class, form string, must bool, doc []byte) {
	mode := "may"
	if must {
		mode = "must"
	}
	line := "#lex.form " + c.name + " " + mode + " " + class + "/" + form + " " + hexUp(doc) + " " + want.render()
	if e.seen[line] {
		return
	}
	e.seen[line] = true
	if c == lexXML && e.tagByName["RequestMessage"] != 0x420078 {
		lexFail(ctx, "RequestMessage is not registered as 0x420078")
		return
	}
	if !c.wellFormed(doc) {
		lexFail(ctx, "the harness built an ill-formed document: "+shortKey(doc))
		return
	}
	h, consistent := lexHintsOf(want)
	if !consistent {
		h = lexPosHintsOf(want)
	}
	// the correspondence (and the C02 / C18 oracles on whatever is accepted)
	e.readerCase(ctx, c, doc, h, "form")
	ctx.current = line
	d := lexDecode(ctx, c, doc, h, line)
	key := c.name + ":" + class + ":" + form
	outcome := strings.SplitN(d.ans, " ", 2)[0]
	show := fmt.Sprintf("%s document %s spells %s", c.name, shortKey(doc), want.render())
	switch {
	case outcome == "panic":
		// reported by readerCase (C02 no-panic)
	case d.it == nil:
		outcome = "rejected"
		if must {
			e.violate(ctx, "C04", "lexical-form", key+":rejected", "a form in the lexical space of the schema type is rejected ("+fmt.Sprint(d.err)+"): "+show, line)
		}
	default:
		wantBin := want.erase().Encode()
		ref, pr := guard("MarshalTTLV", func() []byte { return ttlv.MarshalTTLV(lexEnc{want}) })
		got, pg := guard("MarshalTTLV", func() []byte { return ttlv.MarshalTTLV(d.val) })
		if pr != "" || !bytes.Equal(ref, wantBin) {
			lexFail(ctx, "the library's binary encoding of the expected tree is not the harness's at "+line)
		}
		if pg != "" || !bytes.Equal(got, wantBin) {
			outcome = "different"
			e.violate(ctx, "C04", "lexical-form", key+":different-value", "accepted WITHOUT error but decoded to "+d.it.Render()+" (binary TTLV "+shortKey([]byte(hexUp(got)))+" instead of "+shortKey([]byte(hexUp(wantBin)))+"): "+show, line)
		}
	}
	ctx.Add(line, outcome, true, "C04")
	ctx.Res.Count("form." + c.name + "." + mode + "." + outcome)
	ctx.Res.Count("form.class." + class + "." + outcome)
	fname, _, _ := strings.Cut(form, ":")
	ctx.Res.Count("form:" + c.name + ":" + fname + "." + outcome)
}

var lexFormInts = []int64{0, 1, 7, 8, 9, 10, 17, 63, 64, 77, 100, 128, 255, 256, 511, 777, 1000, 3600, 4096, 65535, 65536, 1000000, 1234567, 12345670, math.MaxInt32,
	-1, -7, -8, -10, -100, -256, -3600, -1234567, math.MinInt32}

// formRun: alternative lexical forms of every number-carrying scalar kind, in both encodings.
func (e *lexEnv) formRun(ctx *Ctx) {
	r := ctx.R
	var xs []*lexItem
	add := func(x *lexItem) { xs = append(xs, x) }
	ints := append([]int64{}, lexFormInts...)
	for i := 0; i < ctx.N(12, 300); i++ {
		v := int64(int32(r.U64()))
		if i%3 == 0 {
			v = int64(r.Intn(100000))
		}
		ints = append(ints, v)
	}
	for _, v := range ints {
		add(&lexItem{kind: tree.KInt, tag: lexTagBatchCount, i: v})
	}
	longs := append(append([]int64{}, lexFormInts...), 1<<52-1, 1<<52, 1<<53+1, math.MaxInt64, math.MinInt64, -(1 << 52), -(1<<52)-1, 10000000000, 4294967296, 1<<32-1, -(1 << 32))
	for i := 0; i < ctx.N(8, 300); i++ {
		longs = append(longs, int64(r.U64())>>uint(r.Intn(60)))
	}
	for _, v := range longs {
		add(&lexItem{kind: tree.KLong, tag: 0x540002, i: v})
	}
	ivs := []int64{0, 1, 7, 8, 10, 60, 100, 256, 3600, 86400, 1234567, 2147483647, 2147483648, 4294967295}
	for i := 0; i < ctx.N(6, 200); i++ {
		ivs = append(ivs, int64(uint32(r.U64()))>>uint(r.Intn(28)))
	}
	for _, v := range ivs {
		add(&lexItem{kind: tree.KInterval, tag: 0x42004A, i: v})
	}
	for _, v := range []int64{0, 1, 3, 8, 10, 16, 100, 256, 0x80000001, 0x8000ABCD, 0xFFFFFFFF} {
		add(&lexItem{kind: tree.KEnum, tag: lexTagCryptoAlg, i: v})
		add(&lexItem{kind: tree.KEnum, tag: lexTagAttrValue, ann: lexTagCryptoAlg, i: v})
		add(&lexItem{kind: tree.KEnum, tag: 0x540005, i: v})
	}
	for _, v := range []int64{0, 1, 4, 12, 100, 256, 0x000FFFFF, 0x7FFFFFFF, math.MinInt32, -1, math.MinInt32 + 12} {
		add(&lexItem{kind: tree.KInt, mask: true, tag: lexTagUsageMask, i: v})
		add(&lexItem{kind: tree.KInt, mask: true, tag: lexTagAttrValue, ann: lexTagUsageMask, i: v})
	}
	for _, b := range [][]byte{{}, {0x00}, {0xAB}, {0xab, 0xcd, 0xef}, {0x01, 0x23, 0x45, 0x67, 0x89, 0xAB, 0xCD, 0xEF, 0xFE}, bytes.Repeat([]byte{0xA5, 0x5A, 0xFF}, 40)} {
		add(&lexItem{kind: tree.KBytes, tag: 0x540003, data: b})
	}
	for _, s := range []string{"0", "1", "-1", "127", "128", "-128", "-129", "255", "256", "65535", "9223372036854775807", "9223372036854775808", "-9223372036854775808", "-9223372036854775809",
		"18446744073709551615", "18446744073709551616", "340282366920938463463374607431768211455", "-340282366920938463463374607431768211456", "1234567890123456789012345678901234567890"} {
		v, _ := new(big.Int).SetString(s, 10)
		add(&lexItem{kind: tree.KBig, tag: 0x540004, big: v})
	}
	add(&lexItem{kind: tree.KBool, tag: 0x540006, b: true})
	add(&lexItem{kind: tree.KBool, tag: 0x540006, b: false})
	for _, v := range []int64{0, 1, 86400 * 365, 1700000000, 951782400, -1, -86400 * 3650, 4102444800, 32503680000} {
		add(&lexItem{kind: tree.KDate, tag: 0x540007, i: v})
	}
	for _, x := range xs {
		for _, c := range []*lexCodec{lexXML, lexJSON} {
			e.formScalar(ctx, c, x)
		}
	}
}

func (e *lexEnv) formReplay(ctx *Ctx, l string) {
	g := strings.SplitN(l, " ", 6)
	if len(g) != 6 {
		lexFail(ctx, "replay: bad form line "+l)
		return
	}
	doc, err := lexUnhex(g[4])
	x, err2 := lexParseItem(g[5])
	if err != nil || err2 != nil {
		lexFail(ctx, "replay: bad form line "+l)
		return
	}
	c := lexXML
	if g[1] == "json" {
		c = lexJSON
	}
	class, form, _ := strings.Cut(g[3], "/")
	e.formCase(ctx, c, x, class, form, g[2] == "must", []byte(doc))
}
