import KmipModel.Model.Bytes
import KmipModel.Model.BigInt
import KmipModel.Model.Wire
import KmipModel.Model.Reader
import KmipModel.Model.Syntax
