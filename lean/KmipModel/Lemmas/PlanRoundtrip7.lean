/-
  C01 — stage 3 (continued): structs that are encoded reflectively and decoded by hand.
  Part 1: generic field steps, and the payloads that carry a managed object (Get, Register).
-/
import KmipModel.Lemmas.PlanRoundtrip6
namespace Kmip

/-! ## Peeling one field of a reflectively encoded struct -/

theorem plainWith_iff {f : Field} {t : Nat} (h : f.plainWith t = true) :
    f.tag = t ∧ f.omitempty = false ∧ f.setVersion = false ∧ f.vrange = none ∧ f.dynTag = false := by
  simp only [Field.plainWith, Bool.and_eq_true, beq_iff_eq, Bool.not_eq_true', Option.isNone_iff_eq_none] at h
  exact ⟨h.1.1.1.1, h.1.1.1.2, h.1.1.2, h.1.2, h.2⟩

theorem optWith_iff {f : Field} {t : Nat} (h : f.optWith t = true) :
    f.tag = t ∧ f.omitempty = true ∧ f.setVersion = false ∧ f.vrange = none ∧ f.dynTag = false := by
  simp only [Field.optWith, Bool.and_eq_true, beq_iff_eq, Bool.not_eq_true', Option.isNone_iff_eq_none] at h
  exact ⟨h.1.1.1.1, h.1.1.1.2, h.1.1.2, h.1.2, h.2⟩

theorem normFields_plain_cons (S : Schema) (n : Nat) (f : Field) (t : Nat) (hp : f.plainWith t = true)
    (fs : List Field) (v : Val) (vs : List Val) (ver : Option Ver) :
    normFields S (n + 1) (f :: fs) (v :: vs) ver =
      (match normK S n f.kind t v ver with
        | none => none
        | some (v', ver2) =>
          match normFields S n fs vs ver2 with
          | none => none
          | some (vs', ver3) => some (v' :: vs', ver3)) := by
  obtain ⟨h1, h2, h3, h4, h5⟩ := plainWith_iff hp
  rw [normFields_cons]
  have hv1 : f.ver1 v ver = ver := by simp [Field.ver1, h3]
  have hsk : f.skip v ver = false := by simp [Field.skip, h4, h2]
  have het : f.etag S v = t := by simp [Field.etag, h5, h1]
  simp only [hv1, hsk, het, Bool.false_eq_true, if_false]
  rfl

theorem encFields_plain_cons (S : Schema) (n : Nat) (f : Field) (t : Nat) (hp : f.plainWith t = true)
    (fs : List Field) (v : Val) (vs : List Val) (ver : Option Ver) :
    encFields S (n + 1) (f :: fs) (v :: vs) ver = (do
      let (a, ver2) ← encK S n f.kind t v ver
      let (b, ver3) ← encFields S n fs vs ver2
      pure (a ++ b, ver3)) := by
  obtain ⟨h1, h2, h3, h4, h5⟩ := plainWith_iff hp
  rw [encFields_cons]
  have hv1 : f.ver1 v ver = ver := by simp [Field.ver1, h3]
  have hsk : f.skip v ver = false := by simp [Field.skip, h4, h2]
  have het : f.etag S v = t := by simp [Field.etag, h5, h1]
  simp only [hv1, hsk, het, Bool.false_eq_true, if_false]

theorem normFields_opt_cons (S : Schema) (n : Nat) (f : Field) (t : Nat) (hp : f.optWith t = true)
    (fs : List Field) (v : Val) (vs : List Val) (ver : Option Ver) :
    normFields S (n + 1) (f :: fs) (v :: vs) ver =
      (if v.isZero then
        if isZeroOfKind f.kind v then
          match normFields S n fs vs ver with
          | none => none
          | some (vs', ver3) => some (v :: vs', ver3)
        else none
      else
        match normK S n f.kind t v ver with
        | none => none
        | some (v', ver2) =>
          match normFields S n fs vs ver2 with
          | none => none
          | some (vs', ver3) => some (v' :: vs', ver3)) := by
  obtain ⟨h1, h2, h3, h4, h5⟩ := optWith_iff hp
  rw [normFields_cons]
  have hv1 : f.ver1 v ver = ver := by simp [Field.ver1, h3]
  have hsk : f.skip v ver = v.isZero := by simp [Field.skip, h4, h2]
  have het : f.etag S v = t := by simp [Field.etag, h5, h1]
  simp only [hv1, hsk, het]
  rfl

theorem encFields_opt_cons (S : Schema) (n : Nat) (f : Field) (t : Nat) (hp : f.optWith t = true)
    (fs : List Field) (v : Val) (vs : List Val) (ver : Option Ver) :
    encFields S (n + 1) (f :: fs) (v :: vs) ver = (do
      let (a, ver2) ← (if v.isZero then (.ok ([], ver) : Res EncSt) else encK S n f.kind t v ver)
      let (b, ver3) ← encFields S n fs vs ver2
      pure (a ++ b, ver3)) := by
  obtain ⟨h1, h2, h3, h4, h5⟩ := optWith_iff hp
  rw [encFields_cons]
  have hv1 : f.ver1 v ver = ver := by simp [Field.ver1, h3]
  have hsk : f.skip v ver = v.isZero := by simp [Field.skip, h4, h2]
  have het : f.etag S v = t := by simp [Field.etag, h5, h1]
  simp only [hv1, hsk, het]

/-- the untagged interface field that carries a managed object. -/
def objField : Field := { tag := 0, kind := .iface, dynTag := true }

/-- the tag an object travels under: its dynamic type's default tag. -/
def dynTagOf (S : Schema) (v : Val) : Nat :=
  match v with
  | .iface (some (d, _)) => (S.dyn d).defTag
  | _ => 0

theorem normFields_obj_cons (S : Schema) (n : Nat) (fs : List Field) (v : Val) (vs : List Val)
    (ver : Option Ver) :
    normFields S (n + 1) (objField :: fs) (v :: vs) ver =
      (match normK S n .iface (dynTagOf S v) v ver with
        | none => none
        | some (v', ver2) =>
          match normFields S n fs vs ver2 with
          | none => none
          | some (vs', ver3) => some (v' :: vs', ver3)) := by
  rw [normFields_cons]; rfl

theorem encFields_obj_cons (S : Schema) (n : Nat) (fs : List Field) (v : Val) (vs : List Val)
    (ver : Option Ver) :
    encFields S (n + 1) (objField :: fs) (v :: vs) ver = (do
      let (a, ver2) ← encK S n .iface (dynTagOf S v) v ver
      let (b, ver3) ← encFields S n fs vs ver2
      pure (a ++ b, ver3)) := by
  rw [encFields_cons]; rfl

theorem list_len3 {α : Type} {l : List α} (h : l.length = 3) (d : α) :
    l = [l.getD 0 d, l.getD 1 d, l.getD 2 d] := by
  match l, h with
  | [a, b, c], _ => rfl

theorem list_len2 {α : Type} {l : List α} (h : l.length = 2) (d : α) :
    l = [l.getD 0 d, l.getD 1 d] := by
  match l, h with
  | [a, b], _ => rfl

theorem list_len4 {α : Type} {l : List α} (h : l.length = 4) (d : α) :
    l = [l.getD 0 d, l.getD 1 d, l.getD 2 d, l.getD 3 d] := by
  match l, h with
  | [a, b, c, e], _ => rfl

theorem list_len5 {α : Type} {l : List α} (h : l.length = 5) (d : α) :
    l = [l.getD 0 d, l.getD 1 d, l.getD 2 d, l.getD 3 d, l.getD 4 d] := by
  match l, h with
  | [a, b, c, e, g], _ => rfl

theorem list_len6 {α : Type} {l : List α} (h : l.length = 6) (d : α) :
    l = [l.getD 0 d, l.getD 1 d, l.getD 2 d, l.getD 3 d, l.getD 4 d, l.getD 5 d] := by
  match l, h with
  | [a, b, c, e, g, i], _ => rfl


/-! ## The managed object behind an untagged interface field -/

theorem obj_step (S : Schema) (hU : S.unambiguous = true) (n4 : Nat) (hK : PK S n4) (v : Val)
    (ver : Option Ver) (d : Nat) (x' : Val) (w : Option Ver)
    (h : normK S (n4 + 1) .iface (dynTagOf S v) v ver = some (.iface (some (d, x')), w)) :
    ∃ x objI, v = .iface (some (d, x))
      ∧ encK S (n4 + 1) .iface (dynTagOf S v) v ver = .ok (objI, w)
      ∧ (∀ it ∈ objI, it.tag = (S.dyn d).defTag) ∧ objI.length = 1
      ∧ (Item.AllInRange objI → ∀ (f : Nat) (rs : List RawItem), x.depth + 4 ≤ f →
          decDyn S f d 0 (Cur.of (objI.map Item.raw ++ rs)) ver = .ok (.iface (some (d, x')), Cur.of rs, w)) := by
  cases v with
  | iface o =>
    cases o with
    | none =>
      rw [normK_iface] at h
      simp at h
    | some p =>
      obtain ⟨d0, x⟩ := p
      have hdok := normK_iface_ok h
      obtain ⟨x1, objI, hv', he, _, _, ht, hl, hd⟩ := pdyn_succ S n4 hK d0 _ x ver _ w h
      simp only [Val.iface.injEq, Option.some.injEq, Prod.mk.injEq] at hv'
      obtain ⟨rfl, rfl⟩ := hv'
      refine ⟨x, objI, rfl, he, ht, hl, ?_⟩
      intro hr f rs hf
      exact hd (unamb_dynOK hU d x hdok) hr f rs 0 (Or.inr ⟨rfl, rfl⟩) hf
  | _ => rw [normK_iface] at h; contradiction

theorem customOk_get (S : Schema) (v : Val) :
    customOk S Cust.getResponse v =
      (match v.field 0, v.field 2 with
       | .int ot, .iface (some (d, _)) => S.objectDyn ot.toNat == some d
       | _, _ => false) := rfl

theorem customOk_register (S : Schema) (v : Val) :
    customOk S Cust.registerRequest v =
      (match v.field 0, v.field 2 with
       | .int ot, .iface (some (d, _)) => S.objectDyn ot.toNat == some d
       | _, _ => false) := rfl

theorem decCustom_get (S : Schema) (n id tag : Nat) (c : Cur) (ver : Option Ver) :
    decCustom S (n + 1) Cust.getResponse id tag c ver = (do
      let it ← c.expect 1 tag
      let c0 ← Cur.start it.val
      let (v, ver') ← (do
          let (ot, c1, v1) ← decK S n ((S.structDef id).fields.getD 0 fieldDflt).kind T.objectType c0 ver
          let (uid, c2, v2) ← decK S n .text T.uniqueIdentifier c1 v1
          match S.objectDyn ot.asInt.toNat with
          | none => .err .other
          | some d => do
            let (obj, _, v3) ← decDyn S n d 0 c2 v2
            pure (Val.struct [ot, uid, obj], v3) : Res (Val × Option Ver))
      let c' ← c.next
      pure (v, c', ver')) := by
  rw [decCustom.eq_def]; rfl


theorem normFields_succ_of_some {S : Schema} {n : Nat} {fs : List Field} {vs : List Val} {ver : Option Ver}
    {r : List Val × Option Ver} (h : normFields S n fs vs ver = some r) : ∃ m, n = m + 1 := by
  cases n with
  | zero => rw [normFields_zero] at h; contradiction
  | succ m => exact ⟨m, rfl⟩

theorem normK_succ_of_some {S : Schema} {n : Nat} {k : Kind} {t : Nat} {v : Val} {ver : Option Ver}
    {r : Val × Option Ver} (h : normK S n k t v ver = some r) : ∃ m, n = m + 1 := by
  cases n with
  | zero => rw [normK_zero] at h; contradiction
  | succ m => exact ⟨m, rfl⟩

theorem normFields_nil_inv {S : Schema} {n : Nat} {vs : List Val} {ver : Option Ver}
    {r : List Val} {w : Option Ver} (h : normFields S n [] vs ver = some (r, w)) :
    vs = [] ∧ r = [] ∧ w = ver := by
  obtain ⟨m, rfl⟩ := normFields_succ_of_some h
  cases vs with
  | nil =>
    rw [normFields_nil] at h
    obtain ⟨rfl, rfl⟩ := pair_eq (Option.some.inj h)
    exact ⟨rfl, rfl, rfl⟩
  | cons v vs => rw [normFields_nil_cons] at h; contradiction

/-- one required scalar field, as the custom decoders read it (`decK` under the tag). -/
theorem scalar_field (S : Schema) (n : Nat) (k : Kind) (hk : k.scalar = true) (t : Nat) (v v' : Val)
    (ver w : Option Ver) (h : normK S n k t v ver = some (v', w)) :
    w = ver ∧ ∃ it, encK S n k t v ver = .ok ([it], ver) ∧ it.tag = t
      ∧ (it.InRange → ∀ (fd : Nat) (rs : List RawItem) (w0 : Option Ver),
          decK S (fd + 1) k t (Cur.of (it.raw :: rs)) w0 = .ok (v', Cur.of rs, w0)) := by
  obtain ⟨m, rfl⟩ := normK_succ_of_some h
  obtain ⟨hw, it, he, ht, _, _, _, _, _, _, hd⟩ := scalar_rt S m k hk t v v' ver w h
  exact ⟨hw, it, hw ▸ he, ht, hd⟩

theorem enum_scalar {k : Kind} (h : k.isEnum = true) : k.scalar = true := by
  obtain ⟨t, rfl⟩ := isEnum_iff h; rfl

set_option maxHeartbeats 1000000 in
/-- GetResponsePayload: ObjectType, UniqueIdentifier, then the object under its own tag. -/
theorem custdec_get (S : Schema) (hU : S.unambiguous = true) (n : Nat) (hK : ∀ m, m < n → PK S m)
    (id tag : Nat) (fs : List Val) (ver : Option Ver) (fs' : List Val) (ver' : Option Ver) (items : List Item)
    (g0 g1 g2 : Field) (hF : (S.structDef id).fields = [g0, g1, g2])
    (h0 : g0.plainWith T.objectType = true) (h0k : g0.kind.isEnum = true)
    (h1 : g1.plainWith T.uniqueIdentifier = true) (h1k : g1.kind = .text) (h2 : g2 = objField)
    (hx : normFields S n (S.structDef id).fields fs ver = some (fs', ver'))
    (hcok : customOk S Cust.getResponse (.struct fs') = true)
    (he : encFields S n (S.structDef id).fields fs ver = .ok (items, ver'))
    (hr : (Item.struct tag items).InRange) (fd : Nat) (rs : List RawItem)
    (hfd : (Val.struct fs).depth ≤ fd + 1) :
    decCustom S fd Cust.getResponse id tag (Cur.of ((Item.struct tag items).raw :: rs)) ver
      = .ok (.struct fs', Cur.of rs, ver') := by
  have hg0 : ((S.structDef id).fields.getD 0 fieldDflt).kind = g0.kind := by rw [hF]; rfl
  rw [hF] at hx he
  subst h2
  -- field 0: ObjectType
  obtain ⟨n1, rfl⟩ := normFields_succ_of_some hx
  cases fs with
  | nil => rw [normFields_cons_nil] at hx; contradiction
  | cons v0 vs =>
  rw [normFields_plain_cons S n1 g0 _ h0] at hx
  rw [encFields_plain_cons S n1 g0 _ h0] at he
  cases hn0 : normK S n1 g0.kind T.objectType v0 ver with
  | none => simp only [hn0] at hx; contradiction
  | some p =>
  obtain ⟨v0', w0⟩ := p
  simp only [hn0] at hx
  obtain ⟨rfl, it0, he0, ht0, hd0⟩ := scalar_field S n1 g0.kind (enum_scalar h0k) _ v0 v0' ver w0 hn0
  simp only [he0, Res.ok_bind] at he
  -- field 1: UniqueIdentifier
  cases hxr : normFields S n1 [g1, objField] vs w0 with
  | none => simp only [hxr] at hx; contradiction
  | some p =>
  obtain ⟨r1, w1⟩ := p
  simp only [hxr] at hx
  obtain ⟨rfl, rfl⟩ := pair_eq (Option.some.inj hx)
  obtain ⟨n2, rfl⟩ := normFields_succ_of_some hxr
  cases vs with
  | nil => rw [normFields_cons_nil] at hxr; contradiction
  | cons v1 vs =>
  rw [normFields_plain_cons S n2 g1 _ h1, h1k] at hxr
  rw [encFields_plain_cons S n2 g1 _ h1, h1k] at he
  cases hn1 : normK S n2 .text T.uniqueIdentifier v1 w0 with
  | none => simp only [hn1] at hxr; contradiction
  | some p =>
  obtain ⟨v1', w1'⟩ := p
  simp only [hn1] at hxr
  obtain ⟨rfl, it1, he1, ht1, hd1⟩ := scalar_field S n2 .text rfl _ v1 v1' w0 w1' hn1
  simp only [he1, Res.ok_bind] at he
  -- field 2: the object
  cases hxr2 : normFields S n2 [objField] vs w1' with
  | none => simp only [hxr2] at hxr; contradiction
  | some p =>
  obtain ⟨r2, w2⟩ := p
  simp only [hxr2] at hxr
  obtain ⟨rfl, rfl⟩ := pair_eq (Option.some.inj hxr)
  obtain ⟨n3, rfl⟩ := normFields_succ_of_some hxr2
  cases vs with
  | nil => rw [normFields_cons_nil] at hxr2; contradiction
  | cons v2 vs =>
  rw [normFields_obj_cons] at hxr2
  rw [encFields_obj_cons] at he
  cases hn2 : normK S n3 .iface (dynTagOf S v2) v2 w1' with
  | none => simp only [hn2] at hxr2; contradiction
  | some p =>
  obtain ⟨v2', w2'⟩ := p
  simp only [hn2] at hxr2
  cases hxr3 : normFields S n3 [] vs w2' with
  | none => simp only [hxr3] at hxr2; contradiction
  | some p =>
  obtain ⟨r3, w3⟩ := p
  simp only [hxr3] at hxr2
  obtain ⟨rfl, rfl⟩ := pair_eq (Option.some.inj hxr2)
  obtain ⟨rfl, rfl, rfl⟩ := normFields_nil_inv hxr3
  obtain ⟨n4, rfl⟩ := normK_succ_of_some hn2
  -- the side condition of the decoder: the object is of the type registered for ObjectType
  rw [customOk_get] at hcok
  simp only [Val.field, List.getD_cons_zero, List.getD_cons_succ] at hcok
  split at hcok
  · rename_i _ _ ot d x'
    simp only [beq_iff_eq] at hcok
    obtain ⟨x, objI, rfl, heo, hto, hlo, hdo⟩ := obj_step S hU n4 (hK n4 (by omega)) v2 w1' d x' w3 hn2
    simp only [heo, Res.ok_bind, encFields_nil, Res.pure_eq, Res.ok.injEq, Prod.mk.injEq] at he
    obtain ⟨rfl, -⟩ := he
    rw [Item.InRange] at hr
    obtain ⟨_, _, _, hin⟩ := hr
    have hi0 := ((Item.allInRange_append [it0] _).1 hin)
    have hi1 := ((Item.allInRange_append [it1] _).1 hi0.2)
    have hi2 := ((Item.allInRange_append objI []).1 hi1.2)
    simp only [Val.depth, Val.depthList] at hfd
    obtain ⟨f, rfl, hf⟩ := fuel_succ (by omega : 5 + 1 ≤ fd)
    obtain ⟨f1, rfl, hf1⟩ := fuel_succ (by omega : 4 + 1 ≤ f)
    rw [decCustom_get]
    have hexp : (Cur.of ((Item.struct tag ([it0] ++ ([it1] ++ (objI ++ [])))).raw :: rs)).expect 1 tag
        = .ok (Item.struct tag _).raw := Cur.expect_of (.struct tag _) rs
    have hstart : Cur.start (Item.struct tag ([it0] ++ ([it1] ++ (objI ++ [])))).raw.val
        = .ok (Cur.of (([it0] ++ ([it1] ++ (objI ++ []))).map Item.raw)) := Cur.start_encList _ hin
    have hnext : (Cur.of ((Item.struct tag ([it0] ++ ([it1] ++ (objI ++ [])))).raw :: rs)).next
        = .ok (Cur.of rs) := Cur.next_of _ rs
    simp only [hexp, Res.ok_bind, hstart, hnext, hg0]
    have hl : ([it0] ++ ([it1] ++ (objI ++ []))).map Item.raw
        = it0.raw :: (it1.raw :: (objI.map Item.raw ++ [])) := by simp
    rw [hl, hd0 ((Item.allInRange_singleton it0).1 hi0.1) f1 _ w1']
    simp only [Res.ok_bind]
    rw [hd1 ((Item.allInRange_singleton it1).1 hi1.1) f1 _ w1']
    simp only [Res.ok_bind, Val.asInt, hcok]
    rw [hdo hi2.1 (f1 + 1) [] (by omega)]
    simp only [Res.ok_bind, Res.pure_eq]
  · contradiction

end Kmip
