// Package model drives the compiled Lean model (`kmip-model`) through its line protocol.
package model

import (
	"bufio"
	"bytes"
	"fmt"
	"os"
	"os/exec"
	"sort"
	"strings"
	"sync"
)

// Path returns the model executable path (env VERIF_MODEL or the default build location).
func Path() string {
	if p := os.Getenv("VERIF_MODEL"); p != "" {
		return p
	}
	return "/verif/lean/.lake/build/bin/kmip-model"
}

// Workers is the number of model processes Run spreads the lines over. The default, 1, is the historical
// behaviour (one process sees all lines in order). An engine whose protocol lines are all stateless (each answer a
// pure function of its own line) may raise it inside its Run function; the answers come back in request order.
var Workers = 1

// Run sends all lines to a fresh model process (or to Workers processes, see above) and returns one answer per line.
func Run(lines []string) ([]string, error) {
	for i, l := range lines {
		if strings.ContainsAny(l, "\n\r") {
			return nil, fmt.Errorf("line %d contains a newline", i)
		}
	}
	w := Workers
	if w > len(lines)/64 {
		w = len(lines) / 64
	}
	if w <= 1 {
		return runOne(lines)
	}
	// balance by bytes: longest lines first, each to the least loaded worker
	order := make([]int, len(lines))
	for i := range order {
		order[i] = i
	}
	sort.SliceStable(order, func(a, b int) bool { return len(lines[order[a]]) > len(lines[order[b]]) })
	load := make([]int, w)
	part := make([][]int, w)
	for _, i := range order {
		k := 0
		for j := 1; j < w; j++ {
			if load[j] < load[k] {
				k = j
			}
		}
		load[k] += len(lines[i]) + 64
		part[k] = append(part[k], i)
	}
	res := make([]string, len(lines))
	errs := make([]error, w)
	var wg sync.WaitGroup
	for k := 0; k < w; k++ {
		wg.Add(1)
		go func(k int) {
			defer wg.Done()
			sort.Ints(part[k])
			sub := make([]string, len(part[k]))
			for j, i := range part[k] {
				sub[j] = lines[i]
			}
			ans, err := runOne(sub)
			if err != nil {
				errs[k] = err
				return
			}
			for j, i := range part[k] {
				res[i] = ans[j]
			}
		}(k)
	}
	wg.Wait()
	for _, err := range errs {
		if err != nil {
			return nil, err
		}
	}
	return res, nil
}

func runOne(lines []string) ([]string, error) {
	cmd := exec.Command(Path())
	cmd.Stdin = strings.NewReader(strings.Join(lines, "\n") + "\n")
	var out bytes.Buffer
	cmd.Stdout = &out
	cmd.Stderr = os.Stderr
	if err := cmd.Run(); err != nil {
		return nil, fmt.Errorf("model process failed: %w", err)
	}
	res := make([]string, 0, len(lines))
	sc := bufio.NewScanner(&out)
	sc.Buffer(make([]byte, 1<<20), 1<<28)
	for sc.Scan() {
		res = append(res, sc.Text())
	}
	if len(res) != len(lines) {
		return nil, fmt.Errorf("model answered %d lines for %d requests", len(res), len(lines))
	}
	return res, nil
}
