package main

// Key samples of the `key` engine (C14): real RSA / ECDSA keys with chosen byte patterns, built
// deterministically from the engine's PRNG (no crypto/rand: every choice derives from the seed).

import (
	"crypto/ecdsa"
	"crypto/ed25519"
	"crypto/elliptic"
	"crypto/rsa"
	"crypto/x509"
	"crypto/x509/pkix"
	"fmt"
	"math/big"
	"time"

	kmip "github.com/ovh/kmip-go"

	"verifharness/internal/rng"
)

type keyRngReader struct{ r *rng.R }

func (rr keyRngReader) Read(p []byte) (int, error) {
	copy(p, rr.r.Bytes(len(p)))
	return len(p), nil
}

var keyBigOne = big.NewInt(1)

// keyDetPrime: the first probable prime at or above a random odd number of exactly `bits` bits whose two top
// bits are set (so that a product of two has exactly 2*bits bits).
func keyDetPrime(r *rng.R, bits int) *big.Int {
	b := r.Bytes((bits + 7) / 8)
	p := new(big.Int).SetBytes(b)
	p.SetBit(p, bits-1, 1)
	p.SetBit(p, bits-2, 1)
	for i := p.BitLen() - 1; i >= bits; i-- {
		p.SetBit(p, i, 0)
	}
	p.SetBit(p, 0, 1)
	return keyNextPrime(p)
}

func keyNextPrime(p *big.Int) *big.Int {
	p = new(big.Int).Set(p)
	if p.Bit(0) == 0 {
		p.Add(p, keyBigOne)
	}
	two := big.NewInt(2)
	for !p.ProbablyPrime(20) {
		p.Add(p, two)
	}
	return p
}

type keyRSASample struct {
	label string
	key   *rsa.PrivateKey
	multi bool
	// lenient: a key the standard library itself does not accept (Validate fails: public exponent of 2^31 or more).
	// The DER formats may refuse it; in the transparent formats, where the standard library is not involved, it
	// must come back equal.
	lenient bool
}

// keyRSAFromPrimes builds a key from its primes with D = E^-1 mod phi; ok=false when E is not invertible.
func keyRSAFromPrimes(e int, precompute bool, primes ...*big.Int) (*rsa.PrivateKey, bool) {
	n := big.NewInt(1)
	phi := big.NewInt(1)
	for _, p := range primes {
		n.Mul(n, p)
		phi.Mul(phi, new(big.Int).Sub(p, keyBigOne))
	}
	d := new(big.Int).ModInverse(big.NewInt(int64(e)), phi)
	if d == nil {
		return nil, false
	}
	k := &rsa.PrivateKey{PublicKey: rsa.PublicKey{N: n, E: e}, D: d}
	for _, p := range primes {
		k.Primes = append(k.Primes, new(big.Int).Set(p))
	}
	if precompute {
		k.Precompute()
	}
	return k, true
}

// keyPrimeForTop finds q such that p*q has `nbits` bits and starts with the byte `top`.
func keyPrimeForTop(r *rng.R, p *big.Int, nbits int, top byte) *big.Int {
	target := new(big.Int).SetBytes(append([]byte{top}, r.Bytes((nbits+7)/8-1)...))
	if extra := target.BitLen() - nbits; extra > 0 {
		target.Rsh(target, uint(extra))
	}
	// keep the byte after `top` away from 0xFF so that rounding up to a prime cannot carry into it
	q := new(big.Int).Div(target, p)
	return keyNextPrime(q)
}

var keySmallOddPrimes = []int{3, 5, 7, 11, 13, 17, 19, 23, 29, 31, 37, 41, 43, 47, 53, 59, 61, 67, 71, 73, 79, 83, 89, 97, 101, 257, 65537}

func keyBuildRSASamples(ctx *Ctx) []*keyRSASample {
	r := ctx.R.Fork()
	var out []*keyRSASample
	add := func(label string, k *rsa.PrivateKey, ok bool) {
		if !ok || k == nil {
			return
		}
		if err := k.Validate(); err != nil {
			// the policy of the standard library on what a valid key is may change (small moduli, small exponents):
			// such a sample is left out and counted; the floor below keeps the run meaningful
			ctx.Res.Count("sample.rsa.rejected-by-stdlib." + label)
			return
		}
		out = append(out, &keyRSASample{label: label, key: k, multi: len(k.Primes) > 2})
	}
	p256a, p256b := keyDetPrime(r, 256), keyDetPrime(r, 256)
	k, ok := keyRSAFromPrimes(65537, true, p256a, p256b)
	add("r512", k, ok)
	p512a, p512b := keyDetPrime(r, 512), keyDetPrime(r, 512)
	k, ok = keyRSAFromPrimes(65537, true, p512a, p512b)
	add("r1024", k, ok)
	k, ok = keyRSAFromPrimes(65537, false, p512a, p512b)
	add("r1024-noprecomp", k, ok)
	for _, e := range keySmallOddPrimes {
		if k, ok = keyRSAFromPrimes(e, true, p512a, p512b); ok {
			add(fmt.Sprintf("r1024-e%d", e), k, ok)
			break
		}
	}
	// modulus with top byte 0x80 / 0xFF (the sign bit is set: the binary form gets a whole 0x00 pad block)
	q80 := keyPrimeForTop(r, p512a, 1024, 0x80)
	k, ok = keyRSAFromPrimes(65537, true, p512a, q80)
	add("r1024-n80", k, ok && k.N.BitLen() == 1024 && k.N.Bytes()[0] == 0x80)
	qff := keyPrimeForTop(r, p512a, 1024, 0xFF)
	k, ok = keyRSAFromPrimes(65537, true, p512a, qff)
	add("r1024-nFF", k, ok && k.N.BitLen() == 1024 && k.N.Bytes()[0] == 0xFF)
	// modulus of 1017 bits (top byte 0x01), primes of different byte lengths
	q505 := keyDetPrime(r, 505)
	k, ok = keyRSAFromPrimes(65537, true, p512a, q505)
	add("r1017", k, ok)
	// private exponent with its top bit set on a byte boundary / with a leading zero byte after padding
	found80, found00 := false, false
	for _, e := range keySmallOddPrimes {
		for _, pq := range [][2]*big.Int{{p512a, p512b}, {p512a, q80}, {p512b, qff}, {p256a, p256b}} {
			k, ok = keyRSAFromPrimes(e, true, pq[0], pq[1])
			if !ok {
				continue
			}
			if !found80 && k.D.BitLen()%8 == 0 {
				add(fmt.Sprintf("rD80-e%d", e), k, true)
				found80 = true
			}
			if !found00 && k.D.BitLen()%8 == 1 {
				add(fmt.Sprintf("rD01-e%d", e), k, true)
				found00 = true
			}
		}
	}
	// three primes: PKCS#1 / PKCS#8 carry them all, the transparent KMIP format has only P and Q
	p342a, p342b, p342c := keyDetPrime(r, 342), keyDetPrime(r, 342), keyDetPrime(r, 342)
	k, ok = keyRSAFromPrimes(65537, true, p342a, p342b, p342c)
	add("r3primes", k, ok)
	// largest public exponent the standard library accepts (2^31-1, a prime), and the smallest exponents
	for _, pq := range [][2]*big.Int{{p512a, p512b}, {p512a, q80}, {p512b, qff}} {
		if k, ok = keyRSAFromPrimes(1<<31-1, true, pq[0], pq[1]); ok {
			add("r1024-eMax", k, ok)
			break
		}
	}
	for _, pq := range [][2]*big.Int{{p512a, p512b}, {p512a, q80}, {p512b, qff}, {p512a, q505}} {
		if k, ok = keyRSAFromPrimes(3, true, pq[0], pq[1]); ok {
			add("r-e3", k, ok)
			break
		}
	}
	// 2048 bits in every tier; 3072 and 4096 bits, four primes, in the thorough one
	p1024a, p1024b := keyDetPrime(r, 1024), keyDetPrime(r, 1024)
	k, ok = keyRSAFromPrimes(65537, true, p1024a, p1024b)
	add("r2048", k, ok)
	if ctx.Thor {
		k, ok = keyRSAFromPrimes(65537, true, p1024a, keyPrimeForTop(r, p1024a, 2048, 0x80))
		add("r2048-n80", k, ok)
		k, ok = keyRSAFromPrimes(17, true, keyDetPrime(r, 384), keyDetPrime(r, 384))
		add("r768-e17", k, ok)
		k, ok = keyRSAFromPrimes(65537, true, keyDetPrime(r, 1536), keyDetPrime(r, 1536))
		add("r3072", k, ok)
		k, ok = keyRSAFromPrimes(65537, true, keyDetPrime(r, 2048), keyDetPrime(r, 2048))
		add("r4096", k, ok)
		k, ok = keyRSAFromPrimes(65537, true, keyDetPrime(r, 512), keyDetPrime(r, 512), keyDetPrime(r, 512), keyDetPrime(r, 512))
		add("r4primes", k, ok)
	}
	// public exponent beyond what the standard library accepts (Go `int` goes up to 2^63-1)
	for _, e := range []int{1<<31 + 11, 1<<31 + 1, 1<<62 + 57, 1<<62 + 1} {
		for _, pq := range [][2]*big.Int{{p512a, p512b}, {p512a, q80}} {
			k, ok = keyRSAFromPrimes(e, false, pq[0], pq[1])
			if ok {
				out = append(out, &keyRSASample{label: fmt.Sprintf("r1024-eBig%d", e), key: k, lenient: true})
				break
			}
		}
	}
	valid := 0
	for _, s := range out {
		if !s.lenient {
			valid++
		}
	}
	if valid < 8 {
		ctx.Res.Fail(fmt.Sprintf("key: only %d RSA samples are accepted by (*rsa.PrivateKey).Validate", valid))
	}
	return out
}

type keyECSample struct {
	label string
	curve elliptic.Curve
	code  uint32 // RecommendedCurve
	key   *ecdsa.PrivateKey
}

type keyCurveInfo struct {
	name  string
	curve elliptic.Curve
	code  uint32
}

var keyCurves = []keyCurveInfo{
	{"p224", elliptic.P224(), uint32(kmip.RecommendedCurveP_224)},
	{"p256", elliptic.P256(), uint32(kmip.RecommendedCurveP_256)},
	{"p384", elliptic.P384(), uint32(kmip.RecommendedCurveP_384)},
	{"p521", elliptic.P521(), uint32(kmip.RecommendedCurveP_521)},
}

func keyECFromD(c elliptic.Curve, d *big.Int) *ecdsa.PrivateKey {
	k := &ecdsa.PrivateKey{PublicKey: ecdsa.PublicKey{Curve: c}, D: new(big.Int).Set(d)}
	//nolint:staticcheck
	k.X, k.Y = c.ScalarBaseMult(d.Bytes())
	return k
}

func keyBuildECSamples(ctx *Ctx) []*keyECSample {
	r := ctx.R.Fork()
	var out []*keyECSample
	for _, ci := range keyCurves {
		n := ci.curve.Params().N
		bl := (n.BitLen() + 7) / 8
		add := func(label string, d *big.Int) {
			if d.Sign() <= 0 || d.Cmp(n) >= 0 {
				return
			}
			out = append(out, &keyECSample{label: ci.name + "-" + label, curve: ci.curve, code: ci.code, key: keyECFromD(ci.curve, d)})
		}
		randD := func(nbytes int) *big.Int {
			d := new(big.Int).SetBytes(r.Bytes(nbytes))
			d.Mod(d, new(big.Int).Sub(n, keyBigOne))
			return d.Add(d, keyBigOne)
		}
		add("d1", big.NewInt(1))
		add("dn1", new(big.Int).Sub(n, keyBigOne))
		add("rand", randD(bl+8))
		// leading zero bytes in the scalar
		add("dlead00", new(big.Int).SetBytes(append([]byte{0, 0, 1}, r.Bytes(bl-3)...)))
		// top bit of the top byte set (bit length a multiple of 8)
		top := (n.BitLen() - 1) / 8 * 8
		d80 := new(big.Int).SetBytes(r.Bytes(top / 8))
		d80.SetBit(d80, top-1, 1)
		add("d80", d80)
		// public point with a leading zero byte in X / in Y
		foundX, foundY := false, false
		for i := 0; i < 4000 && !(foundX && foundY); i++ {
			d := randD(bl + 8)
			k := keyECFromD(ci.curve, d)
			if !foundX && k.X.BitLen() <= 8*(bl-1) && (n.BitLen()%8 == 0 || k.X.BitLen() <= 8*(bl-1)-7) {
				out = append(out, &keyECSample{label: ci.name + "-x00", curve: ci.curve, code: ci.code, key: k})
				foundX = true
			} else if !foundY && k.Y.BitLen() <= 8*(bl-1) && (n.BitLen()%8 == 0 || k.Y.BitLen() <= 8*(bl-1)-7) {
				out = append(out, &keyECSample{label: ci.name + "-y00", curve: ci.curve, code: ci.code, key: k})
				foundY = true
			}
		}
		if ctx.Thor {
			for i := 0; i < 6; i++ {
				add(fmt.Sprintf("rand%d", i), randD(bl+8))
			}
		}
	}
	return out
}

type keyBytesSample struct {
	label string
	b     []byte
}

func keyBuildBytesSamples(ctx *Ctx) []keyBytesSample {
	r := ctx.R.Fork()
	out := []keyBytesSample{
		{"empty", []byte{}},
		{"one00", []byte{0}},
		{"one80", []byte{0x80}},
		{"aes128", r.Bytes(16)},
		{"aes192", r.Bytes(24)},
		{"aes256", r.Bytes(32)},
		{"zeros16", make([]byte, 16)},
		{"ff32", keyBytesRepeat(0xFF, 32)},
		{"lead00", append([]byte{0, 0, 0}, r.Bytes(13)...)},
		{"lead80", append([]byte{0x80}, r.Bytes(31)...)},
		{"odd7", r.Bytes(7)},
		{"long257", r.Bytes(257)},
		{"text", []byte("pässwörd \x00\"<&>")},
	}
	return out
}

func keyBytesRepeat(b byte, n int) []byte {
	out := make([]byte, n)
	for i := range out {
		out[i] = b
	}
	return out
}

// keyBlobs are well-formed outputs of the standard library, one per named kind of the line protocol.
type keyBlobs struct {
	byName map[string][]byte
	byHex  map[string]string
	rsa    *rsa.PrivateKey
	ec     *ecdsa.PrivateKey
	cert   *x509.Certificate
	points map[string][]byte // u<code> / c<code>
}

func keyBuildBlobs(ctx *Ctx, rsaKey *rsa.PrivateKey) *keyBlobs {
	r := ctx.R.Fork()
	kb := &keyBlobs{byName: map[string][]byte{}, byHex: map[string]string{}, points: map[string][]byte{}, rsa: rsaKey}
	ecKey := keyECFromD(elliptic.P256(), new(big.Int).SetBytes(append([]byte{1}, r.Bytes(30)...)))
	kb.ec = ecKey
	edKey := ed25519.NewKeyFromSeed(r.Bytes(ed25519.SeedSize))
	must := func(b []byte, err error) []byte {
		if err != nil {
			ctx.Res.Fail("blob: " + err.Error())
		}
		return b
	}
	kb.byName["pkcs1priv"] = x509.MarshalPKCS1PrivateKey(rsaKey)
	kb.byName["pkcs1pub"] = x509.MarshalPKCS1PublicKey(&rsaKey.PublicKey)
	kb.byName["pkcs8rsa"] = must(x509.MarshalPKCS8PrivateKey(rsaKey))
	kb.byName["pkcs8ec"] = must(x509.MarshalPKCS8PrivateKey(ecKey))
	kb.byName["pkcs8ed"] = must(x509.MarshalPKCS8PrivateKey(edKey))
	kb.byName["sec1"] = must(x509.MarshalECPrivateKey(ecKey))
	kb.byName["pkixrsa"] = must(x509.MarshalPKIXPublicKey(&rsaKey.PublicKey))
	kb.byName["pkixec"] = must(x509.MarshalPKIXPublicKey(&ecKey.PublicKey))
	kb.byName["pkixed"] = must(x509.MarshalPKIXPublicKey(edKey.Public()))
	tmpl := &x509.Certificate{
		SerialNumber: big.NewInt(1),
		Subject:      pkix.Name{CommonName: "verif"},
		NotBefore:    time.Unix(1700000000, 0),
		NotAfter:     time.Unix(1900000000, 0),
	}
	der, err := x509.CreateCertificate(keyRngReader{r}, tmpl, tmpl, &ecKey.PublicKey, ecKey)
	if err != nil {
		ctx.Res.Fail("cannot create the sample certificate: " + err.Error())
	} else {
		kb.byName["cert"] = der
		kb.cert, _ = x509.ParseCertificate(der)
	}
	for _, ci := range keyCurves {
		k := keyECFromD(ci.curve, big.NewInt(int64(1000+ci.code)))
		//nolint:staticcheck
		kb.byName[fmt.Sprintf("u%d", ci.code)] = elliptic.Marshal(ci.curve, k.X, k.Y)
		kb.byName[fmt.Sprintf("c%d", ci.code)] = elliptic.MarshalCompressed(ci.curve, k.X, k.Y)
	}
	for name, b := range kb.byName {
		kb.byHex[hexUp(b)] = name
	}
	return kb
}

// kind renders a byte string as a token of the line protocol.
func (kb *keyBlobs) kind(b []byte) string {
	if name, ok := kb.byHex[hexUp(b)]; ok {
		return name
	}
	if len(b) == 0 {
		return "x"
	}
	return "x" + hexUp(b)
}
