/-
  Helper lemmas about `KmipModel.Model.Middleware`. Core Lean only.
-/
import KmipModel.Model.Middleware
namespace Kmip.Mw

@[simp] theorem St.log_trace (s : St) (e : Event) : (s.log e).trace = s.trace ++ [e] := rfl
@[simp] theorem St.log_calls (s : St) (e : Event) : (s.log e).calls = s.calls := rfl

theorem doCall_fst (next : Next) (id : Nat) (m : Msg) (c : Nat) (s : St) :
    (doCall next id m c s).1 = (next m c (s.log (.call id m c))).1 := rfl

theorem doCall_snd (next : Next) (id : Nat) (m : Msg) (c : Nat) (s : St) :
    (doCall next id m c s).2
      = (next m c (s.log (.call id m c))).2.log (.back id (next m c (s.log (.call id m c))).1) := rfl

theorem runStage_fst (next : Next) (st : Stage) (m : Msg) (c : Nat) (s : St) :
    (runStage next st m c s).1
      = (runActs next st.id st.body m c R.nil (s.log (.enter st.id m c))).1 := rfl

theorem runStage_snd (next : Next) (st : Stage) (m : Msg) (c : Nat) (s : St) :
    (runStage next st m c s).2
      = (runActs next st.id st.body m c R.nil (s.log (.enter st.id m c))).2.log
          (.exit st.id (runStage next st m c s).1) := rfl

/-! ### the code's `nextFrom(i)` is nested composition of the stages from `i` on -/

theorem nextFrom_eq_specNext_aux (chain : List Stage) (core : Next) :
    ∀ (n i : Nat), chain.length - i = n → nextFrom chain core i = specNext core (chain.drop i) := by
  intro n
  induction n with
  | zero =>
    intro i h
    have hi : chain.length ≤ i := by omega
    funext m c s
    rw [nextFrom, dif_neg (by omega), List.drop_of_length_le hi]
    rfl
  | succ n ih =>
    intro i h
    have hi : i < chain.length := by omega
    funext m c s
    rw [nextFrom, dif_pos hi, ih (i + 1) (by omega), List.drop_eq_getElem_cons hi]
    rfl

theorem nextFrom_eq_specNext (chain : List Stage) (core : Next) (i : Nat) :
    nextFrom chain core i = specNext core (chain.drop i) :=
  nextFrom_eq_specNext_aux chain core _ i rfl

/-! ### traces are well nested -/

/-- a continuation whose only effect on the trace is to append one complete well-nested execution
    of the stages `ids` + core, which received what the continuation was given and returned what the
    continuation returns. -/
def NextWN (cs : Msg → Nat → R → List Event → Prop) (ids : List Nat) (next : Next) : Prop :=
  ∀ m c s, ∃ tr, (next m c s).2.trace = s.trace ++ tr ∧ WN cs ids m c (next m c s).1 tr

theorem coreRun_NextWN (k : Kind) (core : Core) (h : Msg → Nat) :
    NextWN (CoreSem k) [] (coreRun k core h) := by
  intro m c s
  by_cases hr : routed k m.op = true
  · refine ⟨[.core s.calls (handlerOf k m.op) m c (h m) (core.outcome s.calls m.tok)], ?_, ?_⟩
    · simp [coreRun, hr]
    · refine WN.core _ _ _ _ (Or.inl ⟨hr, s.calls, h m, core.outcome s.calls m.tok, rfl, ?_⟩)
      simp [coreRun, hr]
  · refine ⟨[], ?_, ?_⟩
    · simp [coreRun, hr]
    · refine WN.core _ _ _ _ (Or.inr ⟨by simpa using hr, rfl, ?_⟩)
      simp [coreRun, hr]

theorem doCall_trace {cs : Msg → Nat → R → List Event → Prop} {ids : List Nat} {next : Next}
    (hn : NextWN cs ids next) (id : Nat) (m : Msg) (c : Nat) (s : St) :
    ∃ tr, WN cs ids m c (doCall next id m c s).1 tr ∧
      (doCall next id m c s).2.trace
        = s.trace ++ (.call id m c :: tr ++ [.back id (doCall next id m c s).1]) := by
  obtain ⟨tr, htr, hwn⟩ := hn m c (s.log (.call id m c))
  refine ⟨tr, hwn, ?_⟩
  rw [doCall_snd, St.log_trace, htr, St.log_trace, doCall_fst]
  simp [List.append_assoc]

theorem runActs_trace {cs : Msg → Nat → R → List Event → Prop} {ids : List Nat} {next : Next}
    (hn : NextWN cs ids next) (id : Nat) :
    ∀ (as : List Act) (m : Msg) (c : Nat) (last : R) (s : St),
    ∃ parts : List (Msg × Nat × R × List Event),
      (∀ p ∈ parts, WN cs ids p.1 p.2.1 p.2.2.1 p.2.2.2) ∧
      (runActs next id as m c last s).2.trace = s.trace ++ segsOf id parts := by
  intro as
  induction as with
  | nil => intro m c last s; exact ⟨[], by simp, by simp [runActs, segsOf]⟩
  | cons a as ih =>
    intro m c last s
    have hcall : ∃ parts : List (Msg × Nat × R × List Event),
        (∀ p ∈ parts, WN cs ids p.1 p.2.1 p.2.2.1 p.2.2.2) ∧
        (runActs next id as m c (doCall next id m c s).1 (doCall next id m c s).2).2.trace
          = s.trace ++ segsOf id parts := by
      obtain ⟨tr, hwn, htr⟩ := doCall_trace hn id m c s
      obtain ⟨parts, hp, ht⟩ := ih m c (doCall next id m c s).1 (doCall next id m c s).2
      refine ⟨(m, c, (doCall next id m c s).1, tr) :: parts, ?_, ?_⟩
      · intro p hp'
        rcases List.mem_cons.mp hp' with rfl | h
        · exact hwn
        · exact hp p h
      · rw [ht, htr]
        simp [segsOf, List.append_assoc]
    cases a with
    | setMsg t => simpa [runActs] using ih { m with tok := t.app m.tok } c last s
    | setOp o => simpa [runActs] using ih { m with op := o } c last s
    | setCtx t => simpa [runActs] using ih m (t.app c) last s
    | call => simpa [runActs] using hcall
    | callIfFail =>
      by_cases hf : last.isFail = true
      · simpa [runActs, hf] using hcall
      · simpa [runActs, hf] using ih m c last s
    | ret rt => exact ⟨[], by simp, by simp [runActs, segsOf]⟩
    | retIfFail rt =>
      by_cases hf : last.isFail = true
      · exact ⟨[], by simp, by simp [runActs, hf, segsOf]⟩
      · simpa [runActs, hf] using ih m c last s
    | retIfOk rt =>
      by_cases hf : last.isFail = true
      · simpa [runActs, hf] using ih m c last s
      · exact ⟨[], by simp, by simp [runActs, hf, segsOf]⟩

theorem runStage_NextWN {cs : Msg → Nat → R → List Event → Prop} {ids : List Nat} {next : Next}
    (hn : NextWN cs ids next) (st : Stage) : NextWN cs (st.id :: ids) (runStage next st) := by
  intro m c s
  obtain ⟨parts, hp, ht⟩ := runActs_trace hn st.id st.body m c R.nil (s.log (.enter st.id m c))
  refine ⟨.enter st.id m c :: segsOf st.id parts ++ [.exit st.id (runStage next st m c s).1], ?_, ?_⟩
  · rw [runStage_snd, St.log_trace, ht, St.log_trace]
    simp [List.append_assoc]
  · exact WN.stage st.id ids m c _ parts hp

theorem specNext_NextWN (k : Kind) (core : Core) (h : Msg → Nat) :
    ∀ chain : List Stage,
      NextWN (CoreSem k) (chain.map Stage.id) (specNext (coreRun k core h) chain) := by
  intro chain
  induction chain with
  | nil => exact coreRun_NextWN k core h
  | cons st rest ih => exact runStage_NextWN ih st

/-! ### call counts of straight-line chains -/

/-- a continuation that invokes a handler exactly `p` times when given a message requesting
    operation `op`. -/
def NextCount (op p : Nat) (next : Next) : Prop :=
  ∀ m c s, m.op = op → (next m c s).2.calls = s.calls + p ∧
    coreEvents (next m c s).2.trace = coreEvents s.trace + p

theorem coreEvents_append (a b : List Event) : coreEvents (a ++ b) = coreEvents a + coreEvents b := by
  simp [coreEvents, List.countP_append]

theorem coreRun_NextCount (k : Kind) (core : Core) (h : Msg → Nat) (op : Nat)
    (hr : routed k op = true) :
    NextCount op 1 (coreRun k core h) := by
  intro m c s hm
  have hr' : routed k m.op = true := by rw [hm]; exact hr
  constructor
  · simp [coreRun, hr']
  · simp [coreRun, hr', coreEvents, Event.isCore]

theorem doCall_count {op p : Nat} {next : Next} (hn : NextCount op p next) (id : Nat) (m : Msg)
    (c : Nat) (s : St) (hm : m.op = op) :
    (doCall next id m c s).2.calls = s.calls + p ∧
      coreEvents (doCall next id m c s).2.trace = coreEvents s.trace + p := by
  obtain ⟨h1, h2⟩ := hn m c (s.log (.call id m c)) hm
  rw [St.log_calls] at h1
  rw [St.log_trace, coreEvents_append] at h2
  constructor
  · rw [doCall_snd, St.log_calls, h1]
  · rw [doCall_snd, St.log_trace, coreEvents_append, h2]
    simp [coreEvents, Event.isCore]

theorem runActs_count {op p : Nat} {next : Next} (hn : NextCount op p next) (id : Nat) :
    ∀ (as : List Act), (∀ a ∈ as, a.straight = true) →
      ∀ (m : Msg) (c : Nat) (last : R) (s : St), m.op = op →
      (runActs next id as m c last s).2.calls = s.calls + callsBefore as * p ∧
      coreEvents (runActs next id as m c last s).2.trace
        = coreEvents s.trace + callsBefore as * p := by
  intro as
  induction as with
  | nil => intro _ m c last s _; simp [runActs, callsBefore]
  | cons a as ih =>
    intro hs m c last s hm
    have hs' : ∀ a ∈ as, a.straight = true := fun a h => hs a (List.mem_cons_of_mem _ h)
    cases a with
    | setMsg t => simpa [runActs, callsBefore] using ih hs' { m with tok := t.app m.tok } c last s hm
    | setCtx t => simpa [runActs, callsBefore] using ih hs' m (t.app c) last s hm
    | call =>
      obtain ⟨h1, h2⟩ := doCall_count hn id m c s hm
      obtain ⟨i1, i2⟩ := ih hs' m c (doCall next id m c s).1 (doCall next id m c s).2 hm
      simp only [runActs, callsBefore, i1, i2, h1, h2, Nat.add_mul, Nat.one_mul]
      omega
    | ret rt => simp [runActs, callsBefore]
    | setOp o => exact absurd (hs _ (List.mem_cons_self ..)) (by simp [Act.straight])
    | callIfFail => exact absurd (hs _ (List.mem_cons_self ..)) (by simp [Act.straight])
    | retIfFail rt => exact absurd (hs _ (List.mem_cons_self ..)) (by simp [Act.straight])
    | retIfOk rt => exact absurd (hs _ (List.mem_cons_self ..)) (by simp [Act.straight])

theorem runStage_NextCount {op p : Nat} {next : Next} (hn : NextCount op p next) (st : Stage)
    (hs : st.Straight) : NextCount op (st.mult * p) (runStage next st) := by
  intro m c s hm
  obtain ⟨h1, h2⟩ := runActs_count hn st.id st.body hs m c R.nil (s.log (.enter st.id m c)) hm
  rw [St.log_calls] at h1
  rw [St.log_trace, coreEvents_append] at h2
  constructor
  · rw [runStage_snd, St.log_calls, h1, Stage.mult]
  · rw [runStage_snd, St.log_trace, coreEvents_append, h2, Stage.mult]
    simp [coreEvents, Event.isCore]

theorem specNext_NextCount (k : Kind) (core : Core) (h : Msg → Nat) (op : Nat)
    (hr : routed k op = true) :
    ∀ chain : List Stage, (∀ st ∈ chain, st.Straight) →
      NextCount op (prodL (chain.map Stage.mult)) (specNext (coreRun k core h) chain) := by
  intro chain
  induction chain with
  | nil => intro _; exact coreRun_NextCount k core h op hr
  | cons st rest ih =>
    intro hs
    exact runStage_NextCount (ih fun st h => hs st (List.mem_cons_of_mem _ h)) st
      (hs st (List.mem_cons_self ..))

/-! ### pipelines: every stage receives what its predecessor passed on -/

theorem enters_append (a b : List Event) : enters (a ++ b) = enters a ++ enters b := by
  induction a with
  | nil => rfl
  | cons e a ih => cases e <;> simp [enters, ih]

theorem coreInputs_append (a b : List Event) :
    coreInputs (a ++ b) = coreInputs a ++ coreInputs b := by
  induction a with
  | nil => rfl
  | cons e a ih => cases e <;> simp [coreInputs, ih]

theorem runStage_pipe (next : Next) (p : Nat × Tr × Nat × Tr) (m : Msg) (c : Nat) (s : St) :
    (runStage next (pipeStage p) m c s).2
      = ((next (pipeMsg p m) (p.2.2.2.app c)
            ((s.log (.enter p.1 m c)).log (.call p.1 (pipeMsg p m) (p.2.2.2.app c)))).2.log
          (.back p.1 (runStage next (pipeStage p) m c s).1)).log
          (.exit p.1 (runStage next (pipeStage p) m c s).1) := rfl

theorem specNext_pipe (k : Kind) (core : Core) (h : Msg → Nat) :
    ∀ (ps : List (Nat × Tr × Nat × Tr)) (m : Msg) (c : Nat) (s : St),
      enters (specNext (coreRun k core h) (ps.map pipeStage) m c s).2.trace
        = enters s.trace ++ pipeEnters ps m c ∧
      coreInputs (specNext (coreRun k core h) (ps.map pipeStage) m c s).2.trace
        = coreInputs s.trace ++ pipeCore k (pipeOut ps m c) := by
  intro ps
  induction ps with
  | nil =>
    intro m c s
    by_cases hr : routed k m.op = true
    · simp [specNext, coreRun, hr, enters_append, coreInputs_append, enters, coreInputs, pipeEnters,
        pipeOut, pipeCore]
    · simp [specNext, coreRun, hr, pipeEnters, pipeOut, pipeCore]
  | cons p ps ih =>
    intro m c s
    obtain ⟨h1, h2⟩ := ih (pipeMsg p m) (p.2.2.2.app c)
      ((s.log (.enter p.1 m c)).log (.call p.1 (pipeMsg p m) (p.2.2.2.app c)))
    simp only [List.map_cons, specNext]
    rw [runStage_pipe]
    simp only [St.log_trace, enters_append, coreInputs_append, h1, h2]
    simp [enters, coreInputs, pipeEnters, pipeOut]

/-! ### registration -/

theorem foldl_append_eq (acc : List Stage) (calls : List (List Stage)) :
    calls.foldl (· ++ ·) acc = acc ++ calls.flatten := by
  induction calls generalizing acc with
  | nil => simp
  | cons c cs ih => simp [ih, List.append_assoc]

theorem registered_eq_flatten (calls : List (List Stage)) : registered calls = calls.flatten := by
  simp [registered, foldl_append_eq]

/-! ### several items -/

/-- the trace and the results of a batch: one complete well-nested execution of the item chain per
    item, in order, each on its own item with the context of the batch, each result finished as
    `executeItemWithMiddleware` does. -/
inductive ItemsWN (ids : List Nat) (c : Nat) : List Msg → List R → List Event → Prop where
  | nil : ItemsWN ids c [] [] []
  | cons (it : Msg) (rest : List Msg) (r : R) (rs : List R) (tr trs : List Event) :
      WN (CoreSem .srvitem) ids it c r tr → ItemsWN ids c rest rs trs →
      ItemsWN ids c (it :: rest) (finish .srvitem it.op r :: rs) (tr ++ trs)

theorem runItems_ItemsWN (chain : List Stage) (core : Core) (h0 c : Nat) :
    ∀ (items : List Msg) (s : St), ∃ tr,
      (runItems chain core h0 c items s).2.trace = s.trace ++ tr ∧
      ItemsWN (chain.map Stage.id) c items (runItems chain core h0 c items s).1 tr := by
  intro items
  induction items with
  | nil => intro s; exact ⟨[], by simp [runItems], .nil⟩
  | cons it rest ih =>
    intro s
    have hwn := specNext_NextWN .srvitem core (fun _ => h0) chain it c s
    rw [← List.drop_zero (l := chain), ← nextFrom_eq_specNext] at hwn
    obtain ⟨tr, htr, hw⟩ := hwn
    obtain ⟨trs, htrs, hws⟩ := ih (nextFrom chain (coreRun .srvitem core (fun _ => h0)) 0 it c s).2
    refine ⟨tr ++ trs, ?_, ?_⟩
    · simp only [runItems]
      rw [htrs, htr, List.append_assoc]
    · simp only [runItems]
      exact .cons it rest _ _ tr trs hw hws

theorem runItems_eq_specItems (chain : List Stage) (core : Core) (h0 c : Nat) :
    ∀ (items : List Msg) (s : St),
      runItems chain core h0 c items s = specItems chain core h0 c items s := by
  intro items
  induction items with
  | nil => intro s; rfl
  | cons it rest ih =>
    intro s
    simp only [runItems, specItems]
    rw [nextFrom_eq_specNext, List.drop_zero, ih]

/-! ### both chains -/

/-- one invocation of the innermost continuation of the MESSAGE chain when an item chain `iids` is
    installed: one complete well-nested execution of the item chain on the message's item. -/
def BothSem (iids : List Nat) (m : Msg) (c : Nat) (r : R) (tr : List Event) : Prop :=
  ∃ r', WN (CoreSem .srvitem) iids m c r' tr ∧ r = finish .srvitem m.op r'

theorem bothCore_NextWN (ichain : List Stage) (core : Core) (h : Msg → Nat) :
    NextWN (BothSem (ichain.map Stage.id)) [] (bothCore ichain core h) := by
  intro m c s
  have hwn := specNext_NextWN .srvitem core (fun _ => h m) ichain m c s
  rw [← List.drop_zero (l := ichain), ← nextFrom_eq_specNext] at hwn
  obtain ⟨tr, htr, hw⟩ := hwn
  exact ⟨tr, htr, WN.core _ _ _ _ ⟨_, hw, rfl⟩⟩

theorem specNext_both_NextWN (ichain : List Stage) (core : Core) (h : Msg → Nat) :
    ∀ mchain : List Stage,
      NextWN (BothSem (ichain.map Stage.id)) (mchain.map Stage.id)
        (specNext (bothCore ichain core h) mchain) := by
  intro mchain
  induction mchain with
  | nil => exact bothCore_NextWN ichain core h
  | cons st rest ih => exact runStage_NextWN ih st

/-! ### the handler's context reports the header of the message that is executed -/

def Event.hdrOk : Event → Bool
  | .core _ _ m _ h _ => h == m.tok
  | _ => true

/-- a continuation that only appends events whose reported header is the executed message's. -/
def NextHdr (next : Next) : Prop :=
  ∀ m c s, ∃ tr, (next m c s).2.trace = s.trace ++ tr ∧ tr.all Event.hdrOk = true

theorem coreRun_NextHdr (k : Kind) (core : Core) : NextHdr (coreRun k core (fun m => m.tok)) := by
  intro m c s
  by_cases hr : routed k m.op = true
  · exact ⟨[.core s.calls (handlerOf k m.op) m c m.tok (core.outcome s.calls m.tok)],
      by simp [coreRun, hr], by simp [Event.hdrOk]⟩
  · exact ⟨[], by simp [coreRun, hr], rfl⟩

theorem runActs_NextHdr {next : Next} (hn : NextHdr next) (id : Nat) :
    ∀ (as : List Act) (m : Msg) (c : Nat) (last : R) (s : St), ∃ tr,
      (runActs next id as m c last s).2.trace = s.trace ++ tr ∧ tr.all Event.hdrOk = true := by
  intro as
  induction as with
  | nil => intro m c last s; exact ⟨[], by simp [runActs], rfl⟩
  | cons a as ih =>
    intro m c last s
    have hcall : ∃ tr,
        (runActs next id as m c (doCall next id m c s).1 (doCall next id m c s).2).2.trace
          = s.trace ++ tr ∧ tr.all Event.hdrOk = true := by
      obtain ⟨t1, h1, a1⟩ := hn m c (s.log (.call id m c))
      obtain ⟨t2, h2, a2⟩ := ih m c (doCall next id m c s).1 (doCall next id m c s).2
      refine ⟨.call id m c :: t1 ++ [.back id (doCall next id m c s).1] ++ t2, ?_, ?_⟩
      · rw [h2, doCall_snd, St.log_trace, h1, St.log_trace, doCall_fst]
        simp [List.append_assoc]
      · simp [List.all_append, a1, a2, Event.hdrOk]
    cases a with
    | setMsg t => simpa [runActs] using ih { m with tok := t.app m.tok } c last s
    | setOp o => simpa [runActs] using ih { m with op := o } c last s
    | setCtx t => simpa [runActs] using ih m (t.app c) last s
    | call => simpa [runActs] using hcall
    | callIfFail =>
      by_cases hf : last.isFail = true
      · simpa [runActs, hf] using hcall
      · simpa [runActs, hf] using ih m c last s
    | ret rt => exact ⟨[], by simp [runActs], rfl⟩
    | retIfFail rt =>
      by_cases hf : last.isFail = true
      · exact ⟨[], by simp [runActs, hf], rfl⟩
      · simpa [runActs, hf] using ih m c last s
    | retIfOk rt =>
      by_cases hf : last.isFail = true
      · simpa [runActs, hf] using ih m c last s
      · exact ⟨[], by simp [runActs, hf], rfl⟩

theorem runStage_NextHdr {next : Next} (hn : NextHdr next) (st : Stage) :
    NextHdr (runStage next st) := by
  intro m c s
  obtain ⟨tr, h, a⟩ := runActs_NextHdr hn st.id st.body m c R.nil (s.log (.enter st.id m c))
  refine ⟨.enter st.id m c :: tr ++ [.exit st.id (runStage next st m c s).1], ?_, ?_⟩
  · rw [runStage_snd, St.log_trace, h, St.log_trace]
    simp [List.append_assoc]
  · simp [List.all_append, a, Event.hdrOk]

theorem specNext_NextHdr (k : Kind) (core : Core) (chain : List Stage) :
    NextHdr (specNext (coreRun k core (fun m => m.tok)) chain) := by
  induction chain with
  | nil => exact coreRun_NextHdr k core
  | cons st rest ih => exact runStage_NextHdr ih st

/-! ### interference on a shared cell -/

/-- two states that differ at most in the shared cell. -/
def Sim (s s' : St) : Prop := s.trace = s'.trace ∧ s.calls = s'.calls

/-- `nextP` under interference does what `next` does, whatever the shared cell holds. -/
def NextSim (nextP next : Next) : Prop :=
  ∀ m c s s', Sim s s' → (nextP m c s).1 = (next m c s').1 ∧ Sim (nextP m c s).2 (next m c s').2

theorem Sim_logP (env : Nat → Nat) {s s' : St} (h : Sim s s') (e : Event) :
    Sim (s.logP env e) (s'.log e) := by
  obtain ⟨h1, h2⟩ := h
  exact ⟨by simp [St.logP, St.log, h1], by simp [St.logP, St.log, h2]⟩

theorem coreRunP_sim (env : Nat → Nat) (k : Kind) (core : Core) (h : Msg → Nat) :
    NextSim (coreRunP env k core h) (coreRun k core h) := by
  intro m c s s' hs
  obtain ⟨h1, h2⟩ := hs
  by_cases hr : routed k m.op = true
  · simp [coreRunP, coreRun, hr, Sim, h1, h2]
  · simp [coreRunP, coreRun, hr, Sim, h1, h2]

theorem doCallP_sim (env : Nat → Nat) {nextP next : Next} (hn : NextSim nextP next) (id : Nat)
    (m : Msg) (c : Nat) {s s' : St} (hs : Sim s s') :
    (doCallP env nextP id m c s).1 = (doCall next id m c s').1 ∧
      Sim (doCallP env nextP id m c s).2 (doCall next id m c s').2 := by
  obtain ⟨h1, h2⟩ := hn m c _ _ (Sim_logP env hs (.call id m c))
  refine ⟨h1, ?_⟩
  simp only [doCallP, doCall]
  rw [h1]
  exact Sim_logP env h2 _

theorem runActsP_sim (env : Nat → Nat) {nextP next : Next} (hn : NextSim nextP next) (id : Nat) :
    ∀ (as : List Act) (m : Msg) (c : Nat) (last : R) (s s' : St), Sim s s' →
      (runActsP env nextP id as m c last s).1 = (runActs next id as m c last s').1 ∧
      Sim (runActsP env nextP id as m c last s).2 (runActs next id as m c last s').2 := by
  intro as
  induction as with
  | nil => intro m c last s s' hs; exact ⟨rfl, hs⟩
  | cons a as ih =>
    intro m c last s s' hs
    have hcall := doCallP_sim env hn id m c hs
    cases a with
    | setMsg t => simpa [runActsP, runActs] using ih { m with tok := t.app m.tok } c last s s' hs
    | setOp o => simpa [runActsP, runActs] using ih { m with op := o } c last s s' hs
    | setCtx t => simpa [runActsP, runActs] using ih m (t.app c) last s s' hs
    | call =>
      simp only [runActsP, runActs]
      rw [hcall.1]
      exact ih m c _ _ _ hcall.2
    | callIfFail =>
      by_cases hf : last.isFail = true
      · simp only [runActsP, runActs, hf, if_true]
        rw [hcall.1]
        exact ih m c _ _ _ hcall.2
      · simpa [runActsP, runActs, hf] using ih m c last s s' hs
    | ret rt => exact ⟨rfl, hs⟩
    | retIfFail rt =>
      by_cases hf : last.isFail = true
      · simpa [runActsP, runActs, hf] using hs
      · simpa [runActsP, runActs, hf] using ih m c last s s' hs
    | retIfOk rt =>
      by_cases hf : last.isFail = true
      · simpa [runActsP, runActs, hf] using ih m c last s s' hs
      · simpa [runActsP, runActs, hf] using hs

theorem runStageP_sim (env : Nat → Nat) {nextP next : Next} (hn : NextSim nextP next) (st : Stage) :
    NextSim (runStageP env nextP st) (runStage next st) := by
  intro m c s s' hs
  obtain ⟨h1, h2⟩ := runActsP_sim env hn st.id st.body m c R.nil _ _
    (Sim_logP env hs (.enter st.id m c))
  refine ⟨h1, ?_⟩
  simp only [runStageP, runStage]
  rw [h1]
  exact Sim_logP env h2 _

theorem nextFromP_sim (env : Nat → Nat) (chain : List Stage) {coreP core : Next}
    (hc : NextSim coreP core) :
    ∀ (n i : Nat), chain.length - i = n →
      NextSim (nextFromP env chain coreP i) (nextFrom chain core i) := by
  intro n
  induction n with
  | zero =>
    intro i h m c s s' hs
    rw [nextFromP, nextFrom, dif_neg (by omega), dif_neg (by omega)]
    exact hc m c s s' hs
  | succ n ih =>
    intro i h m c s s' hs
    have hi : i < chain.length := by omega
    rw [nextFromP, nextFrom, dif_pos hi, dif_pos hi]
    exact runStageP_sim env (ih (i + 1) (by omega)) chain[i] m c s s' hs

end Kmip.Mw
