/-
  C06 at EVERY nesting depth: a checker `wd*` over decoded values, mirroring the eight mutually recursive typed
  decoders (same fuel steps), which demands of every interface value met on the way — payloads of batch items,
  attribute values, objects of Get / Register / Import / Export payloads, attributes inside key values, … — that
  its dynamic type is the one the dispatch tables give for the operation code / attribute name / object type
  found next to it; and the theorem that every successfully decoded value passes the checker.
-/
import KmipModel.Lemmas.DispatchLemmas
namespace Kmip

def Val.isIfaceSome : Val → Bool
  | .iface (some _) => true
  | _ => false

mutual
  def wdK (S : Schema) : Nat → Kind → Val → Bool
    | 0, _, _ => true
    | n + 1, k, v =>
      match k, v with
      | .ptr k', .ptr (some x) => wdK S n k' x
      | .slice k', .list xs => wdList S n k' xs
      | .struct id, v =>
        if (S.structDef id).decCustom then wdCustom S n (S.structDef id).custom id v
        else wdStruct S n (S.structDef id).fields v
      | _, _ => true
  def wdStruct (S : Schema) : Nat → List Field → Val → Bool
    | 0, _, _ => true
    | n + 1, fields, v =>
      match v with
      | .struct vs => wdFields S n fields vs
      | _ => true
  def wdList (S : Schema) : Nat → Kind → List Val → Bool
    | 0, _, _ => true
    | _, _, [] => true
    | n + 1, k, x :: xs => wdK S n k x && wdList S n k xs
  def wdFields (S : Schema) : Nat → List Field → List Val → Bool
    | 0, _, _ => true
    | _, [], _ => true
    | _, _ :: _, [] => true
    | n + 1, f :: fs, v :: vs => wdK S n f.kind v && wdFields S n fs vs
  def wdOpt (S : Schema) : Nat → Kind → Val → Bool
    | 0, _, _ => true
    | n + 1, k, v => wdK S n k v
  /-- the value behind an interface: its dynamic type must be `d`, and its content is checked as `decDyn`
      decoded it (pointee of a pointer type). Anything that is not a non-nil interface value passes. -/
  def wdDyn (S : Schema) : Nat → Nat → Val → Bool
    | 0, _, _ => true
    | n + 1, d, v =>
      match v with
      | .iface (some (d', x)) =>
        d' == d &&
          (match (S.dyn d).kind, x with
           | .ptr k', .ptr (some y) => wdK S n k' y
           | .ptr _, _ => true
           | k, y => wdK S n k y)
      | _ => true
  def wdCustom (S : Schema) : Nat → Nat → Nat → Val → Bool
    | 0, _, _, _ => true
    | n + 1, code, id, v =>
      let fields := (S.structDef id).fields
      let fk (i : Nat) : Kind := (fields.getD i { tag := 0, kind := .unsupported }).kind
      if code = Cust.requestBatchItem then
        wdDyn S n (S.payloadDyn (v.field 0).asInt.toNat false) (v.field 2) && wdOpt S n (fk 3) (v.field 3)
      else if code = Cust.responseBatchItem then
        wdDyn S n (S.payloadDyn (v.field 0).asInt.toNat true) (v.field 6) && wdOpt S n (fk 7) (v.field 7)
      else if code = Cust.attr then
        (match v.field 0 with
         | .text name => wdDyn S n (S.attrDyn name) (v.field 2)
         | _ => true)
      else if code = Cust.keyBlock then
        (match v.field 2 with
         | .ptr (some x) => wdKeyValue S n x
         | _ => true) && wdK S n (fk 5) (v.field 5)
      else if code = Cust.getResponse then
        (match S.objectDyn (v.field 0).asInt.toNat with
         | some d => wdDyn S n d (v.field 2)
         | none => !(v.field 2).isIfaceSome)
      else if code = Cust.registerRequest then
        wdK S n (fk 1) (v.field 1) &&
        (match S.objectDyn (v.field 0).asInt.toNat with
         | some d => wdDyn S n d (v.field 2)
         | none => !(v.field 2).isIfaceSome)
      else if code = Cust.exportResponse then
        wdK S n (fk 2) (v.field 2) &&
        (match S.objectDyn (v.field 0).asInt.toNat with
         | some d => wdDyn S n d (v.field 3)
         | none => !(v.field 3).isIfaceSome)
      else if code = Cust.importRequest then
        wdK S n (fk 3) (v.field 3) &&
        (match (importObjectType S (v.field 3)).bind S.objectDyn with
         | some d => wdDyn S n d (v.field 4)
         | none => !(v.field 4).isIfaceSome)
      else true
  def wdKeyValue (S : Schema) : Nat → Val → Bool
    | 0, _ => true
    | n + 1, v =>
      match v.field 1 with
      | .ptr (some pl) => wdK S n (.slice (.struct (attributeId S))) (pl.field 1)
      | _ => true
end

/-! zero values -/

theorem zeroOf_unsupported (S : Schema) (m : Nat) : zeroOf S m .unsupported = .int 0 := by
  cases m <;> rw [zeroOf]

theorem zeroFields_getD (S : Schema) (m : Nat) : ∀ (fields : List Field) (i : Nat),
    (zeroFields S m fields).getD i (.int 0) = zeroOf S m (kindAt fields i)
  | [], i => by
    rw [zeroFields]
    simp only [kindAt, List.getD_nil]
    rw [zeroOf_unsupported]
  | f :: fs, 0 => by rw [zeroFields]; rfl
  | f :: fs, i + 1 => by
    rw [zeroFields]
    simp only [kindAt, List.getD_cons_succ]
    exact zeroFields_getD S m fs i

theorem zeroOf_shape (S : Schema) (m : Nat) (k : Kind) :
    zeroOf S m k = .int 0 ∨ zeroOf S m k = .bool false ∨ zeroOf S m k = .text [] ∨
    zeroOf S m k = .bytes none ∨ zeroOf S m k = .int zeroTimeSecs ∨ zeroOf S m k = .big 0 ∨
    zeroOf S m k = .ptr none ∨ zeroOf S m k = .list [] ∨ zeroOf S m k = .iface none ∨
    zeroOf S m k = .any none ∨ zeroOf S m k = .anyStruct [] ∨
    ∃ id m', k = .struct id ∧ m = m' + 1 ∧ zeroOf S m k = .struct (zeroFields S m' (S.structDef id).fields) := by
  cases m with
  | zero => left; rw [zeroOf]
  | succ m' =>
    rw [zeroOf.eq_def]
    cases k <;> simp

theorem zeroOf_not_ifaceSome (S : Schema) (m : Nat) (k : Kind) : (zeroOf S m k).isIfaceSome = false := by
  rcases zeroOf_shape S m k with h | h | h | h | h | h | h | h | h | h | h | ⟨_, _, _, _, h⟩ <;> rw [h] <;> rfl

theorem wdDyn_of_not_ifaceSome (S : Schema) (n d : Nat) (v : Val) (h : v.isIfaceSome = false) :
    wdDyn S n d v = true := by
  cases n with
  | zero => rw [wdDyn]
  | succ n =>
    rw [wdDyn.eq_def]
    dsimp only
    split
    · exact nomatch h
    · rfl

theorem zeroOf_not_ptrSome (S : Schema) (m : Nat) (k : Kind) (x : Val) : zeroOf S m k ≠ .ptr (some x) := by
  rcases zeroOf_shape S m k with h | h | h | h | h | h | h | h | h | h | h | ⟨_, _, _, _, h⟩ <;> rw [h] <;>
    (intro e; cases e)

theorem zeroOf_list (S : Schema) (m : Nat) (k : Kind) (xs : List Val) (h : zeroOf S m k = .list xs) : xs = [] := by
  rcases zeroOf_shape S m k with h' | h' | h' | h' | h' | h' | h' | h' | h' | h' | h' | ⟨_, _, _, _, h'⟩ <;>
    rw [h'] at h <;> first | (cases h; rfl) | (cases h)

/-- the i-th field of the zero value of a struct kind is the zero value of that field's kind. -/
theorem zeroOf_struct_field (S : Schema) (m id i : Nat) :
    (zeroOf S m (.struct id)).field i = zeroOf S (m - 1) (kindAt (S.structDef id).fields i) := by
  cases m with
  | zero =>
    rw [zeroOf]
    show Val.int 0 = zeroOf S 0 _
    rw [zeroOf]
  | succ m' =>
    rw [zeroOf.eq_def]
    dsimp only
    show (zeroFields S m' (S.structDef id).fields).getD i (.int 0) = _
    rw [zeroFields_getD]
    rfl

/-- zero values pass the checker, at any fuel of either. -/
theorem wd_zero_all (S : Schema) : ∀ n,
    (∀ m k, wdK S n k (zeroOf S m k) = true) ∧
    (∀ m fields, wdFields S n fields (zeroFields S m fields) = true) := by
  intro n
  induction n using Nat.strongRecOn with
  | _ n ih =>
    have hF : ∀ m fields, wdFields S n fields (zeroFields S m fields) = true := by
      intro m fields
      cases n with
      | zero => rw [wdFields]
      | succ n' =>
        cases fields with
        | nil => rw [zeroFields, wdFields.eq_def]
        | cons f fs =>
          rw [zeroFields, wdFields]
          rw [(ih n' (Nat.lt_succ_self _)).1 m f.kind, (ih n' (Nat.lt_succ_self _)).2 m fs]
          rfl
    refine ⟨?_, hF⟩
    intro m k
    cases n with
    | zero => rw [wdK]
    | succ n' =>
      have ihK := fun j (hj : j < n' + 1) => (ih j hj).1
      have ihF := fun j (hj : j < n' + 1) => (ih j hj).2
      have hdyn : ∀ j d m' k', wdDyn S j d (zeroOf S m' k') = true :=
        fun j d m' k' => wdDyn_of_not_ifaceSome S j d _ (zeroOf_not_ifaceSome S m' k')
      have hopt : ∀ j, j < n' + 1 → ∀ m' k', wdOpt S j k' (zeroOf S m' k') = true := by
        intro j hj m' k'
        cases j with
        | zero => rw [wdOpt]
        | succ j' => rw [wdOpt]; exact ihK j' (by omega) m' k'
      rw [wdK.eq_def]
      dsimp only
      split
      · rename_i k' x hz; exact absurd hz (zeroOf_not_ptrSome S m _ x)
      · rename_i k' xs hz
        have := zeroOf_list S m _ xs hz
        subst this
        cases n' <;> rw [wdList.eq_def]
      · rename_i id v0
        split
        · -- hand-written decoder: every component is itself a zero value
          cases n' with
          | zero => rw [wdCustom]
          | succ n'' =>
            rw [wdCustom.eq_def]
            dsimp only
            simp only [zeroOf_struct_field]
            have hK := ihK n'' (by omega)
            have hO := hopt n'' (by omega)
            have hnot : ∀ m' k', (!(zeroOf S m' k').isIfaceSome) = true := by
              intro m' k'; rw [zeroOf_not_ifaceSome]; rfl
            repeat' split
            all_goals simp only [hdyn, hK, hO, hnot, Bool.and_self, Bool.and_true]
            all_goals first
              | rfl
              | (rename_i x hx; exact absurd hx (zeroOf_not_ptrSome S _ _ x))
        · cases n' with
          | zero => rw [wdStruct]
          | succ n'' =>
            rw [wdStruct.eq_def]
            dsimp only
            split
            · rename_i vs hv
              cases m with
              | zero => rw [zeroOf] at hv; exact nomatch hv
              | succ m' =>
                rw [zeroOf.eq_def] at hv
                dsimp only at hv
                cases hv
                exact ihF n'' (by omega) m' _
            · rfl
      · rfl

/-! postconditions, the induction over the eight decoders -/

/-- postcondition of a successful result. -/
def Res.post {α : Type} (r : Res α) (P : α → Prop) : Prop := ∀ a, r = .ok a → P a

theorem Res.post_bind {α β : Type} {x : Res α} {f : α → Res β} {Q : α → Prop} {P : β → Prop}
    (h1 : x.post Q) (h2 : ∀ a, Q a → (f a).post P) : (x >>= f).post P := by
  intro b hb
  obtain ⟨a, ha, hf⟩ := Res.bind_eq_ok hb
  exact h2 a (h1 a ha) b hf

theorem Res.post_true {α : Type} (x : Res α) : x.post (fun _ => True) := fun _ _ => trivial
theorem Res.post_err {α : Type} (e : Err) (P : α → Prop) : (Res.err e : Res α).post P := fun _ h => nomatch h
theorem Res.post_panic {α : Type} (m : String) (P : α → Prop) : (Res.panic m : Res α).post P :=
  fun _ h => nomatch h
theorem Res.post_ok {α : Type} {a : α} {P : α → Prop} (h : P a) : (Res.ok a).post P := by
  intro b hb; cases hb; exact h
theorem Res.post_pure {α : Type} {a : α} {P : α → Prop} (h : P a) : (pure a : Res α).post P :=
  Res.post_ok h
theorem Res.post_ite {α : Type} {c : Prop} [Decidable c] {a b : Res α} {P : α → Prop}
    (h1 : c → a.post P) (h2 : ¬c → b.post P) : (if c then a else b).post P := by
  split
  · exact h1 ‹_›
  · exact h2 ‹_›

theorem Res.post_ok_self {α : Type} (a : α) : (Res.ok a).post (fun b => b = a) := by
  intro b hb; cases hb; rfl
theorem Res.post_panic_false {α : Type} (m : String) : (Res.panic m : Res α).post (fun _ => False) :=
  fun _ h => nomatch h
theorem Res.post_imp {α : Type} {x : Res α} {Q P : α → Prop} (h1 : x.post Q) (h2 : ∀ a, Q a → P a) :
    x.post P := fun a ha => h2 a (h1 a ha)

open Lean Elab Tactic Meta in
/-- close a `Res.post` goal with a local hypothesis whose conclusion is `Res.post` (reducible unification). -/
elab "post_hyp" : tactic => withMainContext do
  let g ← getMainGoal
  for ld in (← getLCtx) do
    if ld.isImplementationDetail then continue
    let ty ← instantiateMVars ld.type
    if ty.getForallBody.isAppOf ``Res.post then
      let s ← saveState
      try
        let gs ← withReducible (g.apply ld.toExpr)
        for g' in gs do
          unless (← g'.isAssigned) do throwError "open goal"
        replaceMainGoal []
        return
      catch _ => s.restore
  throwError "post_hyp: no hypothesis applies"

macro "post_step" : tactic => `(tactic| with_reducible first
  | exact Res.post_err _ _
  | exact Res.post_panic _ _
  | (apply Res.post_bind; (first | post_hyp | exact Res.post_ok_self _ | exact Res.post_panic_false _ | exact Res.post_true _); intro _ _)
  | refine Res.post_ite (fun _ => ?_) (fun _ => ?_)
  | refine Res.post_pure ?_
  | refine Res.post_ok ?_
  | split)

theorem Res.bind_assoc' {α β γ : Type} (x : Res α) (f : α → Res β) (g : β → Res γ) :
    ((x >>= f) >>= g) = (x >>= fun a => f a >>= g) := by
  cases x <;> rfl
theorem Res.pure_bind' {α β : Type} (a : α) (f : α → Res β) : ((pure a : Res α) >>= f) = f a := rfl
theorem wdDyn_ifaceNone (S : Schema) (n d : Nat) : wdDyn S n d (.iface none) = true :=
  wdDyn_of_not_ifaceSome S n d _ rfl

macro "post_step2" : tactic => `(tactic| first
  | exact Res.post_err _ _
  | exact Res.post_panic _ _
  | rw [Res.bind_assoc']
  | rw [Res.ok_bind]
  | rw [Res.pure_bind']
  | (with_reducible apply Res.post_bind; (first | post_hyp | exact Res.post_true _); intro _ _)
  | with_reducible refine Res.post_ite (fun _ => ?_) (fun _ => ?_)
  | with_reducible refine Res.post_pure ?_
  | with_reducible refine Res.post_ok ?_
  | split)

structure DecWd (S : Schema) (fuel : Nat) : Prop where
  decK : ∀ k tag c ver, (decK S fuel k tag c ver).post (fun r => wdK S fuel k r.1 = true)
  decStruct : ∀ fields tag c ver,
    (decStruct S fuel fields tag c ver).post (fun r => wdStruct S fuel fields r.1 = true)
  decList : ∀ k tag c ver, (decList S fuel k tag c ver).post (fun r => wdList S fuel k r.1 = true)
  decFields : ∀ fields c ver, (decFields S fuel fields c ver).post (fun r => wdFields S fuel fields r.1 = true)
  decOpt : ∀ k tag c ver, (decOpt S fuel k tag c ver).post (fun r => wdOpt S fuel k r.1 = true)
  decDyn : ∀ d tag c ver, (decDyn S fuel d tag c ver).post (fun r => wdDyn S fuel d r.1 = true)
  decCustom : ∀ code id tag c ver,
    (decCustom S fuel code id tag c ver).post (fun r => wdCustom S fuel code id r.1 = true)
  decKeyValue : ∀ fmt c ver, (decKeyValue S fuel fmt c ver).post (fun r => wdKeyValue S fuel r.1 = true)

theorem decWd_succ (S : Schema) (fuel : Nat) (ih : DecWd S fuel) : DecWd S (fuel + 1) := by
  have ihK := ih.decK
  have ihS := ih.decStruct
  have ihL := ih.decList
  have ihF := ih.decFields
  have ihO := ih.decOpt
  have ihD := ih.decDyn
  have ihC := ih.decCustom
  have ihV := ih.decKeyValue
  have hz0 : ∀ m k, wdK S fuel k (zeroOf S m k) = true := (wd_zero_all S fuel).1
  constructor
  · -- decK
    intro k tag c ver
    cases k
    all_goals rw [decK]
    case struct id =>
      split
      · rename_i hc
        exact Res.post_imp (ihC _ _ _ _ _) (fun r h => by rw [wdK.eq_def]; simp only [hc, if_true]; exact h)
      · rename_i hc
        exact Res.post_imp (ihS _ _ _ _) (fun r h => by rw [wdK.eq_def]; simp only [hc]; exact h)
    all_goals repeat (any_goals post_step)
    all_goals try (rw [wdK.eq_def]; done)
    · -- ptr
      rw [wdK.eq_def]; assumption
    · -- slice
      rw [wdK.eq_def]; assumption
  · -- decStruct
    intro fields tag c ver
    rw [decStruct]
    repeat (any_goals post_step)
    all_goals (rw [wdStruct]; assumption)
  · -- decList
    intro k tag c ver
    rw [decList]
    repeat (any_goals post_step)
    · rw [wdList.eq_def]
    · rw [wdList]; simp [*]
  · -- decFields
    intro fields c ver
    cases fields with
    | nil => rw [decFields.eq_def]; dsimp only; refine Res.post_ok ?_; rw [wdFields.eq_def]
    | cons f fs =>
      rw [decFields]
      repeat (any_goals post_step)
      · rename_i hf _ _; exact hf.elim
      · rename_i a hz b hb
        rw [hz, wdFields]
        simp only [hz0, hb, Bool.and_self]
      · rename_i a ha b hb
        rw [wdFields]
        simp only [ha, hb, Bool.and_self]
  · -- decOpt
    intro k tag c ver
    rw [decOpt]
    split
    · exact Res.post_imp (ihK _ _ _ _) (fun r h => by rw [wdOpt]; exact h)
    · refine Res.post_ok ?_
      rw [wdOpt]; exact hz0 _ _
  · -- decDyn
    intro d tag c ver
    rw [decDyn]
    refine Res.post_bind (Q := fun r => wdK S fuel (match (S.dyn d).kind with | .ptr k' => k' | k' => k') r.1 = true)
      (ihK _ _ _ _) (fun a ha => ?_)
    obtain ⟨x, st⟩ := a
    refine Res.post_pure ?_
    rw [wdDyn.eq_def]
    dsimp only at ha ⊢
    cases hk : (S.dyn d).kind <;> simp only [hk] at ha ⊢ <;> simp [ha]
  · -- decCustom
    intro code id tag c ver
    rw [decCustom]
    dsimp only
    by_cases hc : code = Cust.unknownPayload
    · rw [if_pos hc]
      refine Res.post_bind (Res.post_true _) (fun a _ => ?_)
      refine Res.post_pure ?_
      rw [wdCustom.eq_def]
      dsimp only
      rw [hc]
      simp [Cust.unknownPayload, Cust.requestBatchItem, Cust.responseBatchItem, Cust.attr, Cust.keyBlock,
        Cust.getResponse, Cust.registerRequest, Cust.exportResponse, Cust.importRequest]
    · rw [if_neg hc]
      refine Res.post_bind (Res.post_true _) (fun it _ => ?_)
      refine Res.post_bind (Res.post_true _) (fun c0 _ => ?_)
      refine Res.post_bind (Q := fun r => wdCustom S (fuel + 1) code id r.1 = true) ?_ (fun r hr => ?_)
      · repeat (any_goals post_step2)
        all_goals (
          rw [wdCustom.eq_def]
          dsimp only
          simp only [*, Val.field, List.getD_cons_zero, List.getD_cons_succ, wdDyn_ifaceNone,
            Cust.unknownPayload, Cust.requestBatchItem, Cust.responseBatchItem, Cust.attr, Cust.keyBlock,
            Cust.credential, Cust.getResponse, Cust.registerRequest, Cust.exportResponse, Cust.importRequest,
            Bool.and_self, Bool.and_true, if_true, if_false, ↓reduceIte, Nat.reduceEqDiff, Option.bind_some, Bool.true_and] )
      · repeat (any_goals post_step)
        exact hr
  · -- decKeyValue
    intro fmt c ver
    rw [decKeyValue]
    dsimp only
    repeat (any_goals post_step2)
    all_goals (
      rw [wdKeyValue.eq_def]
      dsimp only
      simp only [*, Val.field, List.getD_cons_zero, List.getD_cons_succ])

theorem decWd_zero (S : Schema) : DecWd S 0 := by
  constructor
  · intro k tag c ver; rw [decK]; exact Res.post_err _ _
  · intro fs tag c ver; rw [decStruct]; exact Res.post_err _ _
  · intro k tag c ver; rw [decList]; exact Res.post_err _ _
  · intro fs c ver; rw [decFields]; exact Res.post_err _ _
  · intro k tag c ver; rw [decOpt]; exact Res.post_err _ _
  · intro d tag c ver; rw [decDyn]; exact Res.post_err _ _
  · intro code id tag c ver; rw [decCustom]; exact Res.post_err _ _
  · intro fmt c ver; rw [decKeyValue]; exact Res.post_err _ _

theorem decWd (S : Schema) : ∀ fuel, DecWd S fuel
  | 0 => decWd_zero S
  | fuel + 1 => decWd_succ S fuel (decWd S fuel)

/-- the checker applied to the result of `unmarshalWith` (the target is a fresh pointer to dyn type `d`). -/
def wdTop (S : Schema) (fuel d : Nat) (v : Val) : Bool :=
  match (S.dyn d).kind, v with
  | .ptr k, .ptr (some x) => wdK S fuel k x
  | .ptr _, _ => true
  | k, x => wdK S fuel k x

theorem unmarshalWith_wd (S : Schema) (F d tag : Nat) (bs : Bytes) (v : Val)
    (h : unmarshalWith S F d tag bs = .ok v) : wdTop S F d v = true := by
  unfold unmarshalWith at h
  obtain ⟨c, _, h⟩ := Res.bind_eq_ok h
  obtain ⟨⟨x, st⟩, hx, h⟩ := Res.bind_eq_ok h
  have hw := (decWd S F).decK _ _ _ _ _ hx
  cases h
  unfold wdTop
  cases hk : (S.dyn d).kind <;> simp only [hk] at hw ⊢ <;> exact hw

/-- **every depth**: whatever `unmarshal` accepts passes the dispatch checker. -/
theorem unmarshal_wd (S : Schema) (d tag : Nat) (bs : Bytes) (v : Val)
    (h : unmarshal S d tag bs = .ok v) : wdTop S (decFuel bs.length) d v = true := by
  unfold unmarshal at h
  split at h
  · exact nomatch h
  · exact unmarshalWith_wd S _ d tag bs v h


/-! what the checker says at the three kinds of dispatch site (positive fuel) -/

theorem wdDyn_some {S : Schema} {n d d' : Nat} {x : Val}
    (h : wdDyn S (n + 1) d (.iface (some (d', x))) = true) : d' = d := by
  rw [wdDyn.eq_def] at h
  simp only [Bool.and_eq_true, beq_iff_eq] at h
  exact h.1

/-- a checked request batch item holds the payload type registered for its operation code. -/
theorem wdCustom_requestItem {S : Schema} {n id d : Nat} {op bid x me : Val}
    (h : wdCustom S (n + 2) Cust.requestBatchItem id (.struct [op, bid, .iface (some (d, x)), me]) = true) :
    d = S.payloadDyn op.asInt.toNat false := by
  rw [wdCustom.eq_def] at h
  simp only [Val.field, List.getD_cons_zero, List.getD_cons_succ, if_true, Bool.and_eq_true] at h
  exact wdDyn_some h.1

/-- a checked attribute holds the value type registered for its name. -/
theorem wdCustom_attr {S : Schema} {n id d : Nat} {name : Bytes} {idx x : Val}
    (h : wdCustom S (n + 2) Cust.attr id (.struct [.text name, idx, .iface (some (d, x))]) = true) :
    d = S.attrDyn name := by
  rw [wdCustom.eq_def] at h
  simp only [Val.field, List.getD_cons_zero, List.getD_cons_succ, Cust.attr, Cust.requestBatchItem,
    Cust.responseBatchItem, ↓reduceIte, Nat.reduceEqDiff] at h
  exact wdDyn_some h

/-- a checked Get response holds the object type registered for its object type field. -/
theorem wdCustom_getResponse {S : Schema} {n id d : Nat} {ot uid x : Val}
    (h : wdCustom S (n + 2) Cust.getResponse id (.struct [ot, uid, .iface (some (d, x))]) = true) :
    S.objectDyn ot.asInt.toNat = some d := by
  rw [wdCustom.eq_def] at h
  simp only [Val.field, List.getD_cons_zero, List.getD_cons_succ, Cust.attr, Cust.requestBatchItem,
    Cust.responseBatchItem, Cust.keyBlock, Cust.getResponse, ↓reduceIte, Nat.reduceEqDiff] at h
  cases ho : S.objectDyn ot.asInt.toNat with
  | none => rw [ho] at h; simp [Val.isIfaceSome] at h
  | some d0 => rw [ho] at h; rw [wdDyn_some h]

end Kmip
