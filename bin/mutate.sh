#!/bin/sh
# mutate.sh <patch.diff> <Cxx> [tier]   — run a check against /repo + patch WITHOUT touching /repo
# (the patch is applied to a scratch copy of the touched files and handed to `go build -overlay`).
set -e
PATCH=$(readlink -f "$1"); PROP=$2; TIER=${3:-quick}
D=$(mktemp -d /tmp/ovl.XXXXXX)
trap 'rm -rf "$D"' EXIT
FILES=$(grep '^+++ b/' "$PATCH" | sed 's|^+++ b/||')
for f in $FILES; do mkdir -p "$D/src/$(dirname $f)"; [ -f /repo/$f ] && cp /repo/$f "$D/src/$f"; done
(cd "$D/src" && patch -s -p1 < "$PATCH")
printf '{"Replace":{' > "$D/overlay.json"; sep=""
for f in $FILES; do printf '%s"/repo/%s":"%s/src/%s"' "$sep" "$f" "$D" "$f" >> "$D/overlay.json"; sep=","; done
printf '}}\n' >> "$D/overlay.json"
cd "$(dirname "$0")/.."
VERIF_OVERLAY="$D/overlay.json" python3 bin/check.py "$PROP" "$TIER" || true
# remove only this overlay's private binaries (parallel runs keep theirs)
rm -rf ".work/bin-$(sha1sum "$D/overlay.json" | cut -c1-10)"
