/-
  Helper lemmas about `KmipModel.Model.Stream`: the receive loop against an adversarial transport.
  Core Lean only.
-/
import KmipModel.Lemmas.BytesLemmas
import KmipModel.Model.Stream
namespace Kmip

/-! ### `computeNeededBytes` -/

theorem computeNeededBytes_short {b : Bytes} (h : b.length < 8) : computeNeededBytes b = 8 := by
  simp [computeNeededBytes, h]

theorem computeNeededBytes_ge (b : Bytes) : 8 ≤ computeNeededBytes b := by
  unfold computeNeededBytes; split <;> omega

/-- once the 8 header bytes are there, what follows does not change the announced size. -/
theorem computeNeededBytes_prefix (b x : Bytes) (h : 8 ≤ b.length) :
    computeNeededBytes (b ++ x) = computeNeededBytes b := by
  unfold computeNeededBytes
  have h1 : ¬ (b ++ x).length < 8 := by simp only [List.length_append]; omega
  have h2 : ¬ b.length < 8 := by omega
  rw [if_neg h1, if_neg h2, List.drop_append_of_le_length (by omega),
    List.take_append_of_le_length (by simp only [List.length_drop]; omega)]

theorem computeNeededBytes_take8 (w : Bytes) (h : 8 ≤ w.length) :
    computeNeededBytes (w.take 8) = computeNeededBytes w := by
  have := computeNeededBytes_prefix (w.take 8) (w.drop 8) (by simp only [List.length_take]; omega)
  rw [List.take_append_drop] at this
  exact this.symm

/-- the size needed by a prefix `b` of a complete frame `m`. -/
theorem needed_of_prefix {m b x : Bytes} (hm : Framed m) (e : m = b ++ x) :
    computeNeededBytes b = if b.length < 8 then 8 else m.length := by
  by_cases h : b.length < 8
  · rw [if_pos h, computeNeededBytes_short h]
  · rw [if_neg h, hm.2, e, computeNeededBytes_prefix b x (by omega)]

/-! ### schedules -/

/-- no scheduled read is flagged with an error. -/
def ErrFree (s : List ReadEv) : Prop := ∀ ev ∈ s, ev.withErr = false

/-- Byte accounting for a frame of `total` bytes of which `got` have been received. A scheduled read
    requests `need - got` bytes where `need` is 8 during the header phase and `total` afterwards, and
    delivers `min ev.k (need - got)`. Either it completes the frame (then it may be flagged with an
    error, and the rest of the schedule — which belongs to the following frames — satisfies `P`), or
    it does not and is not flagged. -/
def FrameSched (total : Nat) (P : List ReadEv → Prop) : Nat → List ReadEv → Prop
  | _, [] => P []
  | got, ev :: rest =>
    (total ≤ got + min ev.k ((if got < 8 then 8 else total) - got) ∧ P rest) ∨
    (got + min ev.k ((if got < 8 then 8 else total) - got) < total ∧ ev.withErr = false ∧
      FrameSched total P (got + min ev.k ((if got < 8 then 8 else total) - got)) rest)

/-- a single frame: only the read that completes it may be flagged; what follows is unconstrained. -/
def ErrOnlyAtEnd (total : Nat) : Nat → List ReadEv → Prop := FrameSched total (fun _ => True)

/-- a sequence of frames of the given lengths: in every frame only the completing read may be flagged. -/
def SeqSched : List Nat → List ReadEv → Prop
  | [] => fun _ => True
  | l :: ls => fun s => FrameSched l (SeqSched ls) 0 s

theorem FrameSched_of_errFree (total : Nat) (P : List ReadEv → Prop)
    (hP : ∀ s, ErrFree s → P s) : ∀ (s : List ReadEv) (got : Nat), ErrFree s →
    FrameSched total P got s
  | [], _, h => hP [] h
  | ev :: rest, got, h => by
    unfold FrameSched
    have hr : ErrFree rest := fun e he => h e (List.mem_cons_of_mem _ he)
    by_cases hc : total ≤ got + min ev.k ((if got < 8 then 8 else total) - got)
    · exact Or.inl ⟨hc, hP rest hr⟩
    · exact Or.inr ⟨by omega, h ev (by simp), FrameSched_of_errFree total P hP rest _ hr⟩

theorem ErrOnlyAtEnd_of_errFree (total : Nat) (s : List ReadEv) (got : Nat) (h : ErrFree s) :
    ErrOnlyAtEnd total got s :=
  FrameSched_of_errFree total _ (fun _ _ => trivial) s got h

theorem SeqSched_of_errFree : ∀ (ls : List Nat) (s : List ReadEv), ErrFree s → SeqSched ls s
  | [], _, _ => trivial
  | l :: ls, s, h => by
    show FrameSched l (SeqSched ls) 0 s
    exact FrameSched_of_errFree l _ (fun s' hs' => SeqSched_of_errFree ls s' hs') s 0 h

theorem Progressive_of_suffix {pre s s' : List ReadEv} (e : s = pre ++ s') (h : Progressive s) :
    Progressive s' := fun ev hev => h ev (by rw [e]; exact List.mem_append_right _ hev)

theorem ErrFree_of_suffix {pre s s' : List ReadEv} (e : s = pre ++ s') (h : ErrFree s) :
    ErrFree s' := fun ev hev => h ev (by rw [e]; exact List.mem_append_right _ hev)

/-! ### one `Read` -/

/-- a read of `1 ≤ req ≤ |a|` bytes from a wire `a ++ rest` under a progressive schedule delivers a
    non-empty prefix of `a`. -/
theorem read_spec (a rest : Bytes) (sched : List ReadEv) (req : Nat)
    (h1 : 1 ≤ req) (h2 : req ≤ a.length) (hp : Progressive sched) :
    ∃ n e sched', 1 ≤ n ∧ n ≤ req ∧
      (Transport.read { wire := a ++ rest, sched := sched } req
        = (a.take n, e, { wire := a.drop n ++ rest, sched := sched' })) ∧
      ((sched = [] ∧ sched' = [] ∧ e = false ∧ n = req) ∨
       (∃ ev, sched = ev :: sched' ∧ e = ev.withErr ∧ n = min ev.k req)) := by
  have hne : (a ++ rest).isEmpty = false := by
    cases a with
    | nil => simp at h2; omega
    | cons x xs => rfl
  cases sched with
  | nil =>
    refine ⟨req, false, [], h1, Nat.le_refl _, ?_, Or.inl ⟨rfl, rfl, rfl, rfl⟩⟩
    simp only [Transport.read, hne]
    rw [List.take_append_of_le_length h2, List.drop_append_of_le_length h2]
    rfl
  | cons ev sr =>
    have hk : 1 ≤ ev.k := hp ev (by simp)
    have hn1 : 1 ≤ min ev.k req := by omega
    have hn2 : min ev.k req ≤ req := by omega
    refine ⟨min ev.k req, ev.withErr, sr, hn1, hn2, ?_, Or.inr ⟨ev, rfl, rfl, rfl⟩⟩
    simp only [Transport.read, hne]
    rw [List.take_append_of_le_length (by omega), List.drop_append_of_le_length (by omega)]
    rfl

/-- whatever the schedule, a `Read` delivers a prefix of the wire, at most what was requested. -/
theorem read_gen (t : Transport) (req : Nat) :
    ∃ n, n ≤ req ∧ (t.read req).1 = t.wire.take n ∧ (t.read req).2.2.wire = t.wire.drop n := by
  unfold Transport.read
  cases hs : t.sched with
  | nil =>
    cases hw : t.wire.isEmpty with
    | true => exact ⟨0, Nat.zero_le _, by simp, by simp⟩
    | false => exact ⟨req, Nat.le_refl _, by simp, by simp⟩
  | cons ev sr =>
    cases hw : t.wire.isEmpty with
    | true => exact ⟨0, Nat.zero_le _, by simp, by simp⟩
    | false => exact ⟨min ev.k req, Nat.min_le_right _ _, by simp, by simp⟩

theorem recvLoop_succ (max fuel : Nat) (t : Transport) (buf : Bytes) (need cap : Nat) :
    recvLoop max (fuel + 1) t buf need cap =
      if (t.read (need - buf.length)).1.isEmpty then
        if (t.read (need - buf.length)).2.1 then
          { res := .ioErr, t := (t.read (need - buf.length)).2.2,
            cap := if need > cap then need else cap }
        else { res := .eof, t := (t.read (need - buf.length)).2.2,
               cap := if need > cap then need else cap }
      else
        if max > 0 ∧ computeNeededBytes (buf ++ (t.read (need - buf.length)).1) > max then
          { res := .tooBig, t := (t.read (need - buf.length)).2.2,
            cap := if need > cap then need else cap }
        else if (buf ++ (t.read (need - buf.length)).1).length
            ≥ computeNeededBytes (buf ++ (t.read (need - buf.length)).1) then
          { res := .msg ((buf ++ (t.read (need - buf.length)).1).take
              (computeNeededBytes (buf ++ (t.read (need - buf.length)).1))),
            t := (t.read (need - buf.length)).2.2, cap := if need > cap then need else cap }
        else if (t.read (need - buf.length)).2.1 then
          { res := .ioErr, t := (t.read (need - buf.length)).2.2,
            cap := if need > cap then need else cap }
        else recvLoop max fuel (t.read (need - buf.length)).2.2
          (buf ++ (t.read (need - buf.length)).1)
          (computeNeededBytes (buf ++ (t.read (need - buf.length)).1))
          (if need > cap then need else cap) := by
  rw [recvLoop]

/-- the loop, given the outcome of the `Read`. -/
theorem recvLoop_step {max fuel : Nat} {t t' : Transport} {buf bs : Bytes} {need cap : Nat}
    {e : Bool} (h : t.read (need - buf.length) = (bs, e, t')) :
    recvLoop max (fuel + 1) t buf need cap =
      if bs.isEmpty then
        if e then { res := .ioErr, t := t', cap := if need > cap then need else cap }
        else { res := .eof, t := t', cap := if need > cap then need else cap }
      else
        if max > 0 ∧ computeNeededBytes (buf ++ bs) > max then
          { res := .tooBig, t := t', cap := if need > cap then need else cap }
        else if (buf ++ bs).length ≥ computeNeededBytes (buf ++ bs) then
          { res := .msg ((buf ++ bs).take (computeNeededBytes (buf ++ bs))), t := t',
            cap := if need > cap then need else cap }
        else if e then { res := .ioErr, t := t', cap := if need > cap then need else cap }
        else recvLoop max fuel t' (buf ++ bs) (computeNeededBytes (buf ++ bs))
          (if need > cap then need else cap) := by
  rw [recvLoop_succ, h]

theorem isEmpty_false_of_length_pos {l : Bytes} (h : 0 < l.length) : l.isEmpty = false := by
  cases l with
  | nil => simp at h
  | cons _ _ => rfl

/-! ### C07.1 — the loop returns exactly the first frame -/

theorem recvLoop_exact (max : Nat) (m : Bytes) (hm : Framed m) (hmax : max = 0 ∨ m.length ≤ max)
    (rest : Bytes) (P : List ReadEv → Prop) :
    ∀ (fuel : Nat) (buf m2 : Bytes) (sched : List ReadEv) (cap : Nat),
      m = buf ++ m2 → m2 ≠ [] → m2.length ≤ fuel → Progressive sched →
      FrameSched m.length P buf.length sched →
      ∃ pre sched' cap', sched = pre ++ sched' ∧ P sched' ∧
        recvLoop max fuel { wire := m2 ++ rest, sched := sched } buf (computeNeededBytes buf) cap
          = { res := .msg m, t := { wire := rest, sched := sched' }, cap := cap' } := by
  intro fuel
  induction fuel with
  | zero =>
    intro buf m2 sched cap _ hne hf _ _
    cases m2 with
    | nil => exact absurd rfl hne
    | cons _ _ => simp at hf
  | succ fuel ih =>
    intro buf m2 sched cap e hne hf hp he
    have hml : m.length = buf.length + m2.length := by rw [e, List.length_append]
    have hm2 : 0 < m2.length := by
      cases m2 with
      | nil => exact absurd rfl hne
      | cons _ _ => simp
    have hneed := needed_of_prefix hm e
    have hm8 := hm.1
    -- the request
    have hreq1 : 1 ≤ computeNeededBytes buf - buf.length := by rw [hneed]; split <;> omega
    have hreq2 : computeNeededBytes buf - buf.length ≤ m2.length := by rw [hneed]; split <;> omega
    obtain ⟨n, er, sched', hn1, hn2, hread, hcases⟩ :=
      read_spec m2 rest sched _ hreq1 hreq2 hp
    rw [recvLoop_step hread]
    have hbs : 0 < (m2.take n).length := by rw [List.length_take]; omega
    rw [isEmpty_false_of_length_pos hbs]
    have e' : m = (buf ++ m2.take n) ++ m2.drop n := by
      rw [List.append_assoc, List.take_append_drop]; exact e
    have hneed' := needed_of_prefix hm e'
    have hlen' : (buf ++ m2.take n).length = buf.length + n := by
      rw [List.length_append, List.length_take]; omega
    have hle : computeNeededBytes (buf ++ m2.take n) ≤ m.length := by
      rw [hneed']; split <;> omega
    have hnotbig : ¬ (max > 0 ∧ computeNeededBytes (buf ++ m2.take n) > max) := by omega
    simp only [Bool.false_eq_true, if_false]
    rw [if_neg hnotbig]
    by_cases hdone : (buf ++ m2.take n).length ≥ computeNeededBytes (buf ++ m2.take n)
    · -- frame complete
      rw [if_pos hdone]
      have h8 : ¬ (buf ++ m2.take n).length < 8 := by
        intro h; rw [hneed', if_pos h] at hdone; omega
      rw [hneed', if_neg h8] at hdone
      have hn : n = m2.length := by omega
      have hpre : ∃ pre, sched = pre ++ sched' ∧ P sched' := by
        rcases hcases with ⟨h1, h2, _, _⟩ | ⟨ev, h1, _, h4⟩
        · subst h1 h2
          exact ⟨[], rfl, by unfold FrameSched at he; exact he⟩
        · subst h1
          unfold FrameSched at he
          rw [← hneed, ← h4] at he
          rcases he with ⟨_, hP⟩ | ⟨hlt, _, _⟩
          · exact ⟨[ev], rfl, hP⟩
          · omega
      obtain ⟨pre, hpre, hP⟩ := hpre
      refine ⟨pre, sched', (if computeNeededBytes buf > cap then computeNeededBytes buf else cap),
        hpre, hP, ?_⟩
      have hfull : buf ++ m2.take n = m := by
        rw [hn, List.take_length]; exact e.symm
      rw [hneed', if_neg h8, hfull, List.take_length, hn, List.drop_length, List.nil_append]
    · rw [if_neg hdone]
      have hlt : buf.length + n < m.length := by
        rw [hneed'] at hdone; rw [hlen'] at hdone
        by_cases h8 : buf.length + n < 8
        · omega
        · rw [if_neg h8] at hdone; omega
      rcases hcases with ⟨h1, h2, h3, _⟩ | ⟨ev, h1, h3, h4⟩
      · subst h1 h2 h3
        simp only [Bool.false_eq_true, if_false]
        have hP0 : P [] := by unfold FrameSched at he; exact he
        have := ih (buf ++ m2.take n) (m2.drop n) [] (if computeNeededBytes buf > cap then
          computeNeededBytes buf else cap) e'
          (by intro h; have := congrArg List.length h; simp at this; omega)
          (by rw [List.length_drop]; omega) hp (by unfold FrameSched; exact hP0)
        obtain ⟨pre, s', c', hs, hP, hr⟩ := this
        exact ⟨pre, s', c', hs, hP, hr⟩
      · subst h1
        unfold FrameSched at he
        rw [← hneed, ← h4] at he
        rcases he with ⟨he, _⟩ | ⟨_, he1, he2⟩
        · omega
        · rw [h3, he1]
          simp only [Bool.false_eq_true, if_false]
          have := ih (buf ++ m2.take n) (m2.drop n) sched' (if computeNeededBytes buf > cap then
            computeNeededBytes buf else cap) e'
            (by intro h; have := congrArg List.length h; simp at this; omega)
            (by rw [List.length_drop]; omega)
            (fun x hx => hp x (List.mem_cons_of_mem _ hx)) (by rw [hlen']; exact he2)
          obtain ⟨pre, s', c', hs, hP, hr⟩ := this
          exact ⟨ev :: pre, s', c', by rw [hs]; rfl, hP, hr⟩

theorem computeNeededBytes_nil : computeNeededBytes [] = 8 := rfl

/-- one frame, general form: `P` is what the schedule accounting promises about the unread schedule. -/
theorem recv_exact_P (c0 max : Nat) (m rest : Bytes) (sched : List ReadEv) (P : List ReadEv → Prop)
    (hm : Framed m) (hmax : max = 0 ∨ m.length ≤ max) (hp : Progressive sched)
    (he : FrameSched m.length P 0 sched) :
    ∃ pre sched' cap', sched = pre ++ sched' ∧ P sched' ∧
      recvC c0 max { wire := m ++ rest, sched := sched }
        = { res := .msg m, t := { wire := rest, sched := sched' }, cap := cap' } := by
  have hne : m ≠ [] := by
    intro h; have := hm.1; rw [h] at this; simp at this
  have := recvLoop_exact max m hm hmax rest P ((m ++ rest).length + sched.length + 2) [] m sched c0
    rfl hne (by rw [List.length_append]; omega) hp he
  rw [computeNeededBytes_nil] at this
  exact this

theorem recv_exact_gen (c0 max : Nat) (m rest : Bytes) (sched : List ReadEv)
    (hm : Framed m) (hmax : max = 0 ∨ m.length ≤ max) (hp : Progressive sched)
    (he : ErrOnlyAtEnd m.length 0 sched) :
    ∃ pre sched' cap', sched = pre ++ sched' ∧
      recvC c0 max { wire := m ++ rest, sched := sched }
        = { res := .msg m, t := { wire := rest, sched := sched' }, cap := cap' } := by
  obtain ⟨pre, s', c', hs, _, hr⟩ := recv_exact_P c0 max m rest sched _ hm hmax hp he
  exact ⟨pre, s', c', hs, hr⟩

/-! ### C07.2 — a sequence of frames -/

theorem recvAll_exact_aux (c0 max : Nat) (rest : Bytes) :
    ∀ (ms : List Bytes) (sched : List ReadEv),
      (∀ m ∈ ms, Framed m ∧ (max = 0 ∨ m.length ≤ max)) → Progressive sched →
      SeqSched (ms.map List.length) sched →
      ∃ sched', recvAll c0 max ms.length { wire := ms.flatten ++ rest, sched := sched }
          = (ms, none, { wire := rest, sched := sched' }) ∧ Progressive sched'
  | [], sched, _, hp, _ => ⟨sched, rfl, hp⟩
  | m :: ms, sched, h, hp, he => by
    have hm := h m (by simp)
    obtain ⟨pre, s1, c1, hs, hP, hr⟩ := recv_exact_P c0 max m (ms.flatten ++ rest) sched
      (SeqSched (ms.map List.length)) hm.1 hm.2 hp he
    obtain ⟨s2, hr2, hp2⟩ := recvAll_exact_aux c0 max rest ms s1
      (fun x hx => h x (List.mem_cons_of_mem _ hx)) (Progressive_of_suffix hs hp) hP
    refine ⟨s2, ?_, hp2⟩
    simp only [List.flatten_cons, List.length_cons, List.append_assoc, recvAll, hr, hr2]

/-! ### C07.3 — a truncated stream never yields a message -/

theorem read_split (t : Transport) (req : Nat) :
    (t.read req).1 ++ (t.read req).2.2.wire = t.wire := by
  unfold Transport.read
  cases hs : t.sched with
  | nil =>
    cases hw : t.wire.isEmpty with
    | true => simp
    | false => simp
  | cons ev sr =>
    cases hw : t.wire.isEmpty with
    | true => simp
    | false => simp

theorem recvLoop_never_msg (max : Nat) (m : Bytes) (hm : Framed m) :
    ∀ (fuel : Nat) (t : Transport) (buf : Bytes) (need cap : Nat),
      (∃ tail, tail ≠ [] ∧ m = buf ++ t.wire ++ tail) →
      ∀ bs, (recvLoop max fuel t buf need cap).res ≠ .msg bs := by
  intro fuel
  induction fuel with
  | zero => intro t buf need cap _ bs; simp [recvLoop]
  | succ fuel ih =>
    intro t buf need cap ⟨tail, htail, e⟩ bs
    have hsplit := read_split t (need - buf.length)
    rw [recvLoop_succ]
    generalize t.read (need - buf.length) = r at hsplit
    obtain ⟨rb, re, t'⟩ := r
    simp only at hsplit ⊢
    have e' : m = (buf ++ rb) ++ (t'.wire ++ tail) := by
      rw [e, ← hsplit]; simp only [List.append_assoc]
    have hneed := needed_of_prefix hm e'
    have hlen : (buf ++ rb).length < m.length := by
      have : 0 < tail.length := by
        cases tail with
        | nil => exact absurd rfl htail
        | cons _ _ => simp
      have h2 := congrArg List.length e'
      simp only [List.length_append] at h2 ⊢
      omega
    have hm8 := hm.1
    split
    · split <;> simp
    · split
      · simp
      · split
        · rename_i hdone
          exfalso
          rw [hneed] at hdone
          split at hdone <;> omega
        · split
          · simp
          · exact ih t' (buf ++ rb) _ _ ⟨tail, htail, by rw [e']; simp only [List.append_assoc]⟩ bs

/-! ### C07.4 — oversized announcements -/

theorem recvLoop_too_big (max : Nat) (hmax : 0 < max) (w : Bytes) (h8 : 8 ≤ w.length)
    (hbig : max < computeNeededBytes (w.take 8)) (c0 : Nat) (hc0 : 8 ≤ c0) :
    ∀ (fuel : Nat) (buf wire : Bytes) (sched : List ReadEv),
      w = buf ++ wire → buf.length < 8 → 8 - buf.length ≤ fuel → Progressive sched →
      ((recvLoop max fuel { wire := wire, sched := sched } buf 8 c0).res = .tooBig ∨
        (recvLoop max fuel { wire := wire, sched := sched } buf 8 c0).res = .ioErr) ∧
      w.length - (recvLoop max fuel { wire := wire, sched := sched } buf 8 c0).t.wire.length ≤ 8 ∧
      (recvLoop max fuel { wire := wire, sched := sched } buf 8 c0).cap = c0 ∧
      (ErrFree sched →
        (recvLoop max fuel { wire := wire, sched := sched } buf 8 c0).res = .tooBig ∧
        (8 ≤ max →
          w.length - (recvLoop max fuel { wire := wire, sched := sched } buf 8 c0).t.wire.length
            = 8)) := by
  intro fuel
  induction fuel with
  | zero => intro buf wire sched _ hb hf _; omega
  | succ fuel ih =>
    intro buf wire sched e hb hf hp
    have hwl : w.length = buf.length + wire.length := by rw [e, List.length_append]
    obtain ⟨n, er, sched', hn1, hn2, hread, hcases⟩ :=
      read_spec wire [] sched (8 - buf.length) (by omega) (by omega) hp
    simp only [List.append_nil] at hread
    rw [recvLoop_step hread]
    have hbs : 0 < (wire.take n).length := by rw [List.length_take]; omega
    rw [isEmpty_false_of_length_pos hbs]
    have e' : w = (buf ++ wire.take n) ++ wire.drop n := by
      rw [List.append_assoc, List.take_append_drop]; exact e
    have hlen' : (buf ++ wire.take n).length = buf.length + n := by
      rw [List.length_append, List.length_take]; omega
    have hcap : (if 8 > c0 then 8 else c0) = c0 := by rw [if_neg (by omega)]
    simp only [Bool.false_eq_true, if_false, hcap]
    by_cases hfull : buf.length + n = 8
    · have htake : w.take 8 = buf ++ wire.take n := by
        rw [e']; exact List.take_left' (by rw [hlen', hfull])
      rw [← htake, if_pos ⟨hmax, hbig⟩]
      simp only [List.length_drop]
      refine ⟨Or.inl (by first | trivial | rfl), by omega, (by first | trivial | rfl), fun _ => ⟨(by first | trivial | rfl), fun _ => by omega⟩⟩
    · have hshort : (buf ++ wire.take n).length < 8 := by omega
      rw [computeNeededBytes_short hshort]
      by_cases hm8 : 8 > max
      · rw [if_pos ⟨hmax, hm8⟩]
        simp only [List.length_drop]
        refine ⟨Or.inl (by first | trivial | rfl), by omega, (by first | trivial | rfl), fun _ => ⟨(by first | trivial | rfl), fun _ => by omega⟩⟩
      · rw [if_neg (by omega), if_neg (by omega)]
        cases her : er with
        | true =>
          simp only [if_true, List.length_drop]
          refine ⟨Or.inr (by first | trivial | rfl), by omega, (by first | trivial | rfl), fun hef => ?_⟩
          exfalso
          rcases hcases with ⟨_, _, h3, _⟩ | ⟨ev, h1, h3, _⟩
          · rw [h3] at her; cases her
          · have := hef ev (by rw [h1]; simp)
            rw [← h3, her] at this; cases this
        | false =>
          simp only [Bool.false_eq_true, if_false]
          have hsuf : ∃ pre, sched = pre ++ sched' := by
            rcases hcases with ⟨h1, h2, _, _⟩ | ⟨ev, h1, _, _⟩
            · exact ⟨[], by rw [h1, h2]; rfl⟩
            · exact ⟨[ev], by rw [h1]; rfl⟩
          obtain ⟨pre, hsuf⟩ := hsuf
          have := ih (buf ++ wire.take n) (wire.drop n) sched' e' hshort (by omega)
            (Progressive_of_suffix hsuf hp)
          exact ⟨this.1, this.2.1, this.2.2.1, fun hef => this.2.2.2 (ErrFree_of_suffix hsuf hef)⟩

/-- oversized announcement, EVERY schedule (zero-length reads and errors included): never a message,
    at most the 8 header bytes consumed, the buffer is never grown. -/
theorem recvLoop_too_big_any (max : Nat) (hmax : 0 < max) (w : Bytes)
    (hbig : max < computeNeededBytes (w.take 8)) (c0 : Nat) (hc0 : 8 ≤ c0) :
    ∀ (fuel : Nat) (t : Transport) (buf : Bytes),
      w = buf ++ t.wire → buf.length < 8 →
      (∀ bs, (recvLoop max fuel t buf 8 c0).res ≠ .msg bs) ∧
      w.length - (recvLoop max fuel t buf 8 c0).t.wire.length ≤ 8 ∧
      (recvLoop max fuel t buf 8 c0).cap = c0 := by
  intro fuel
  induction fuel with
  | zero =>
    intro t buf e hb
    have hwl : w.length = buf.length + t.wire.length := by rw [e, List.length_append]
    refine ⟨fun bs h => by simp [recvLoop] at h, ?_, by simp [recvLoop]⟩
    simp only [recvLoop]; omega
  | succ fuel ih =>
    intro t buf e hb
    have hwl : w.length = buf.length + t.wire.length := by rw [e, List.length_append]
    obtain ⟨n, hn, hr1, hr2⟩ := read_gen t (8 - buf.length)
    rw [recvLoop_succ]
    generalize t.read (8 - buf.length) = r at hr1 hr2
    obtain ⟨rb, re, t'⟩ := r
    simp only at hr1 hr2 ⊢
    have hcap : (if 8 > c0 then 8 else c0) = c0 := by rw [if_neg (by omega)]
    rw [hcap]
    have hw'l : t'.wire.length = t.wire.length - n := by rw [hr2, List.length_drop]
    have hrbl : rb.length = min n t.wire.length := by rw [hr1, List.length_take]
    have hlen' : (buf ++ rb).length = buf.length + min n t.wire.length := by
      rw [List.length_append, hrbl]
    have e' : w = (buf ++ rb) ++ t'.wire := by
      rw [hr1, hr2, List.append_assoc, List.take_append_drop]; exact e
    have hcons : w.length - t'.wire.length ≤ 8 := by omega
    split
    · split
      · exact ⟨fun bs h => by simp at h, hcons, rfl⟩
      · exact ⟨fun bs h => by simp at h, hcons, rfl⟩
    · split
      · exact ⟨fun bs h => by simp at h, hcons, rfl⟩
      · rename_i hnb
        have hshort : (buf ++ rb).length < 8 := by
          by_cases h8 : (buf ++ rb).length = 8
          · exfalso
            have htake : w.take 8 = buf ++ rb := by rw [e']; exact List.take_left' h8
            rw [htake] at hbig
            exact hnb ⟨hmax, hbig⟩
          · omega
        have hneed8 := computeNeededBytes_short hshort
        split
        · rename_i hdone
          exfalso; rw [hneed8] at hdone; omega
        · split
          · exact ⟨fun bs h => by simp at h, hcons, rfl⟩
          · rw [hneed8]
            exact ih t' (buf ++ rb) e' hshort

/-! ### C07.5 — the buffer never grows beyond the limit -/

theorem recvLoop_cap_bound (max B : Nat) (hmax : 0 < max) (hB : max ≤ B) :
    ∀ (fuel : Nat) (t : Transport) (buf : Bytes) (need cap : Nat), need ≤ B → cap ≤ B →
      (recvLoop max fuel t buf need cap).cap ≤ B := by
  intro fuel
  induction fuel with
  | zero => intro t buf need cap _ hc; simpa [recvLoop] using hc
  | succ fuel ih =>
    intro t buf need cap hn hc
    have hcap : (if need > cap then need else cap) ≤ B := by split <;> omega
    rw [recvLoop_succ]
    split
    · split <;> exact hcap
    · split
      · exact hcap
      · rename_i hnb
        split
        · exact hcap
        · split
          · exact hcap
          · exact ih _ _ _ _ (by omega) hcap

/-! ### fuel adequacy: `.fuel` is never returned by `recv` -/

theorem read_length (t : Transport) (req : Nat) :
    (t.read req).1.length + (t.read req).2.2.wire.length = t.wire.length := by
  have := congrArg List.length (read_split t req)
  rw [List.length_append] at this
  exact this

theorem recvLoop_ne_fuel (max : Nat) :
    ∀ (fuel : Nat) (t : Transport) (buf : Bytes) (need cap : Nat), t.wire.length < fuel →
      (recvLoop max fuel t buf need cap).res ≠ .fuel := by
  intro fuel
  induction fuel with
  | zero => intro t buf need cap h; omega
  | succ fuel ih =>
    intro t buf need cap h
    have hlen := read_length t (need - buf.length)
    rw [recvLoop_succ]
    generalize t.read (need - buf.length) = r at hlen
    obtain ⟨rb, re, t'⟩ := r
    simp only at hlen ⊢
    split
    · split <;> simp
    · rename_i hne
      have hpos : 0 < rb.length := by
        cases rb with
        | nil => simp at hne
        | cons _ _ => simp
      split
      · simp
      · split
        · simp
        · split
          · simp
          · exact ih t' _ _ _ (by omega)

/-! ### safety under EVERY schedule (zero-length reads, errors anywhere) -/

/-- Loop invariant: `buf` is a proper prefix of the frame `m`, the wire holds the rest of `m` followed
    by `rest`. Then, for every schedule: a returned message is exactly `m` leaving exactly `rest`, and
    in every outcome `rest` is still entirely on the wire. -/
theorem recvLoop_sound (max : Nat) (m : Bytes) (hm : Framed m) (rest : Bytes) :
    ∀ (fuel : Nat) (t : Transport) (buf m2 : Bytes) (cap : Nat),
      m = buf ++ m2 → m2 ≠ [] → t.wire = m2 ++ rest →
      (∀ bs, (recvLoop max fuel t buf (computeNeededBytes buf) cap).res = .msg bs →
        bs = m ∧ (recvLoop max fuel t buf (computeNeededBytes buf) cap).t.wire = rest) ∧
      ∃ pre, (recvLoop max fuel t buf (computeNeededBytes buf) cap).t.wire = pre ++ rest := by
  intro fuel
  induction fuel with
  | zero =>
    intro t buf m2 cap _ _ hw
    refine ⟨fun bs h => ?_, m2, ?_⟩
    · simp [recvLoop] at h
    · simp [recvLoop, hw]
  | succ fuel ih =>
    intro t buf m2 cap e hne hw
    have hml : m.length = buf.length + m2.length := by rw [e, List.length_append]
    have hm2 : 0 < m2.length := by
      cases m2 with
      | nil => exact absurd rfl hne
      | cons _ _ => simp
    have hm8 := hm.1
    have hneed := needed_of_prefix hm e
    have hreq : computeNeededBytes buf - buf.length ≤ m2.length := by rw [hneed]; split <;> omega
    obtain ⟨n, hn, hr1, hr2⟩ := read_gen t (computeNeededBytes buf - buf.length)
    rw [recvLoop_succ]
    generalize t.read (computeNeededBytes buf - buf.length) = r at hr1 hr2
    obtain ⟨rb, re, t'⟩ := r
    simp only at hr1 hr2 ⊢
    have hnm : n ≤ m2.length := by omega
    have hrb : rb = m2.take n := by rw [hr1, hw, List.take_append_of_le_length hnm]
    have hw' : t'.wire = m2.drop n ++ rest := by rw [hr2, hw, List.drop_append_of_le_length hnm]
    have e' : m = (buf ++ rb) ++ m2.drop n := by
      rw [hrb, List.append_assoc, List.take_append_drop]; exact e
    have hneed' := needed_of_prefix hm e'
    have hlen' : (buf ++ rb).length = buf.length + n := by
      rw [hrb, List.length_append, List.length_take]; omega
    have hpre : ∃ pre, t'.wire = pre ++ rest := ⟨_, hw'⟩
    split
    · split
      · exact ⟨fun bs h => by simp at h, hpre⟩
      · exact ⟨fun bs h => by simp at h, hpre⟩
    · split
      · exact ⟨fun bs h => by simp at h, hpre⟩
      · split
        · rename_i hdone
          have h8 : ¬ (buf ++ rb).length < 8 := by
            intro h; rw [hneed', if_pos h] at hdone; omega
          rw [hneed', if_neg h8] at hdone
          have hn' : n = m2.length := by omega
          have hfull : buf ++ rb = m := by
            rw [hrb, hn', List.take_length]; exact e.symm
          have hrest : t'.wire = rest := by
            rw [hw', hn', List.drop_length, List.nil_append]
          refine ⟨fun bs h => ?_, [], by simpa using hrest⟩
          simp only [RecvRes.msg.injEq] at h
          refine ⟨?_, hrest⟩
          rw [← h, hneed', if_neg h8, hfull, List.take_length]
        · rename_i hdone
          have hlt : buf.length + n < m.length := by
            rw [hneed', hlen'] at hdone
            by_cases h8 : buf.length + n < 8
            · omega
            · rw [if_neg h8] at hdone; omega
          split
          · exact ⟨fun bs h => by simp at h, hpre⟩
          · exact ih t' (buf ++ rb) (m2.drop n) _ e'
              (by intro h; have := congrArg List.length h; simp at this; omega) hw'

end Kmip
