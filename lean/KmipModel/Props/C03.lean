/-
  C03 — the binary TTLV writer `enc` produces well-formed TTLV: every encoding has a length that is
  a multiple of 8, big integers are emitted as minimal-padded two's complement, the Go decode loop
  `bytesToBigInt` agrees with the two's complement specification on every non-empty input, and the
  independent strict specification parser reads every in-range encoding back to the same tree.
-/
import KmipModel.Lemmas.WireLemmas
import KmipModel.Lemmas.FixpointLemmas
import KmipModel.Model.Plan
namespace Kmip.C03
open Kmip

/-- 1. `padForLen` pads up to the next multiple of 8 with fewer than 8 bytes. -/
theorem padForLen_spec (l : Nat) : (l + padForLen l 8) % 8 = 0 ∧ padForLen l 8 < 8 :=
  ⟨padForLen_mod l, padForLen_lt l⟩

/-- 2. the bytes written for a big integer are a two's complement encoding of it. -/
theorem encodeBig_twos (v : Int) : twos (encodeBig v) = v :=
  twos_encodeBig v

/-- 3. … of positive length, a multiple of 8. -/
theorem encodeBig_shape (v : Int) : 0 < (encodeBig v).length ∧ (encodeBig v).length % 8 = 0 :=
  ⟨encodeBig_length_pos v, encodeBig_length_mod v⟩

/-- 4. the decoder's negate loop computes two's complement on every non-empty byte string
    (any length: over-long / non-minimal encodings included). -/
theorem bytesToBigInt_eq_twos (bs : Bytes) (h : bs ≠ []) : bytesToBigInt bs = twos bs :=
  bytesToBigInt_eq_twos_aux bs h

/-- 5. big integer round trip through the two Go loops. -/
theorem bytesToBigInt_encodeBig (v : Int) : bytesToBigInt (encodeBig v) = v := by
  rw [bytesToBigInt_eq_twos _ (encodeBig_ne_nil v), encodeBig_twos]

/-- 6. every encoding is 8-byte aligned. -/
theorem enc_len8 (t : Item) : (enc t).length % 8 = 0 :=
  enc_length_mod t

theorem encList_len8 (ts : List Item) : (encList ts).length % 8 = 0 :=
  encList_length_mod ts

/-- 7. the strict specification parser reads back every in-range encoding, leaving the rest. -/
theorem specParse_enc (t : Item) (h : t.InRange) (fuel : Nat) (hf : t.size ≤ fuel) (rest : Bytes) :
    specParse fuel (enc t ++ rest) = some (t, rest) :=
  specParse_enc_aux t h fuel hf rest

theorem specParseList_enc (ts : List Item) (h : Item.AllInRange ts) (fuel : Nat)
    (hf : Item.sizeList ts ≤ fuel) : specParseList fuel (encList ts) = some ts :=
  specParseList_enc_aux ts h fuel hf

/-- non-vacuity of `Item.InRange`: a nested tree with a negative int, big integers on both sides
    of a pad boundary, a text of length 3 and an empty structure. -/
def sample : Item :=
  .struct 0x420078 [.int 0x42000A (-1), .big 0x42000B (-128), .big 0x42000C (2 ^ 64),
    .text 0x42000D [0x61, 0x62, 0x63], .struct 0x42000E []]

example : sample.InRange := by
  have e1 : (encodeBig (-128)).length = 8 := by
    rw [encodeBig_neg _ (by decide)]
    simp [negBody, negPad, natToBytesBE, negEncLE, padForLen]
  have e2 : (encodeBig 18446744073709551616).length = 16 := by
    rw [encodeBig_pos _ (by decide)]
    simp [posPad, natToBytesBE, padForLen]
  simp [sample, Item.InRange, Item.AllInRange, inInt, enc, encList, hdr, e1, e2, padForLen]

/-- 8. the fuel `t.size` is bounded by the length of the encoding. -/
theorem size_le_length (t : Item) : t.size + 1 ≤ (enc t).length :=
  size_le_length_aux t

theorem sizeList_le_length (ts : List Item) : Item.sizeList ts ≤ 1 + (encList ts).length :=
  sizeList_le_length_aux ts

/-- 9. top-level strict decode of an encoding returns the tree. -/
theorem specDecode_enc (t : Item) (h : t.InRange) : specDecode (enc t) = some t := by
  have hs := size_le_length t
  have := specParse_enc t h ((enc t).length + 1) (by omega) []
  rw [List.append_nil] at this
  simp [specDecode, this]

/-- 10. (beyond the property text, which only asks for sign extension to a multiple of 8 bytes; a fact
    about the current code, not in `required_theorems`) `encodeBig` is the shortest 8-byte-aligned two's complement encoding of its value. -/
theorem encodeBig_minimal (v : Int) (bs : Bytes) (hne : bs ≠ []) (h8 : bs.length % 8 = 0)
    (hv : twos bs = v) : (encodeBig v).length ≤ bs.length :=
  encodeBig_minimal_aux v bs hne h8 hv

/-! ### The converse clause: "any well-formed encoding produced by the independent generator decodes
     to the same tree" -/

/-- 11. whatever the independent strict parser (`specDecode`, written from KMIP 1.4 §9.1; it does not
    mention `enc` or the reader) accepts, the library's generic decoder (`unmarshalValue`, the model of
    `ttlv.UnmarshalTTLV` into a `ttlv.Value`) reads as the SAME tree — for every byte string, no bound
    on length, depth or sibling count. (Also stated for C18 as `C18.strict_accepts_imply_lenient`.) -/
theorem strict_accepts_library_decodes (bs : Bytes) (t : Item) (h : specDecode bs = some t) :
    unmarshalValue bs = .ok t :=
  unmarshalValue_of_specDecode bs t h

/-- 11'. in particular the library reads back its own encodings of in-range trees (composition of 9
    and 11: the round trip goes through the independent parser, not through a shared mistake). -/
theorem library_decodes_enc (t : Item) (h : t.InRange) : unmarshalValue (enc t) = .ok t :=
  strict_accepts_library_decodes _ _ (specDecode_enc t h)

/-- an over-long (non-minimal, 16-byte) big integer 1: well-formed per the specification. -/
def big16 : Bytes := [0x42, 0, 0x0B, 4, 0, 0, 0, 16, 0, 0, 0, 0, 0, 0, 0, 0, 0, 0, 0, 0, 0, 0, 0, 1]

set_option maxRecDepth 8192 in
/-- non-vacuity of 11 on an input that is NOT an output of `enc` (the writer is minimal): the strict
    parser accepts it, hence so does the library, with the same value. -/
theorem strict_accepts_big16 : specDecode big16 = some (.big 0x42000B 1) := by rfl

example : unmarshalValue big16 = .ok (.big 0x42000B 1) :=
  strict_accepts_library_decodes _ _ strict_accepts_big16

/-- … the writer itself emits the 8-byte form. -/
example : (encodeBig 1).length = 8 ∧ big16.length = 24 := by
  refine ⟨?_, rfl⟩
  rw [encodeBig_pos _ (by decide)]
  simp [posPad, natToBytesBE, padForLen]

/-! ### "Every binary encoding produced by the library", KMIP messages included -/

/-- 12. the typed encoder (`ttlv.MarshalTTLV` on a request/response message, payload, object or
    attribute value of ANY schema, any dynamic type, any tag): whenever it succeeds its output is the
    `enc`-encoding of a list of generic items, so it is 8-aligned and — when the items are representable
    (tags in (0, 2^24), lengths < 2^32) — the independent strict parser reads exactly those items back. -/
theorem typed_encoding_wellformed (S : Schema) (d tag : Nat) (v : Val) (bs : Bytes)
    (h : marshal S d tag v = .ok bs) :
    ∃ items, bs = encList items ∧ bs.length % 8 = 0
      ∧ (Item.AllInRange items → ∀ fuel, Item.sizeList items ≤ fuel → specParseList fuel bs = some items) := by
  unfold marshal at h
  dsimp only at h
  cases he : encK S 100000 (S.dyn d).kind (if tag = 0 then (S.dyn d).defTag else tag) v none with
  | ok p =>
    obtain ⟨items, w⟩ := p
    rw [he] at h
    simp only [Res.ok_bind, Res.pure_eq, Res.ok.injEq] at h
    subst h
    exact ⟨items, rfl, encList_len8 items, fun hr fuel hf => specParseList_enc items hr fuel hf⟩
  | err e => rw [he] at h; simp only [Res.err_bind] at h; contradiction
  | panic m => rw [he] at h; simp only [Res.panic_bind] at h; contradiction

end Kmip.C03
