/-
  C18 (typed layer) — quiet kinds leave the version cell alone (decoder side): `DecQuiet S fd` for
  every decoder fuel `fd`, provided every dynamic type the decoders put behind an interface
  (`Schema.ctxDyns`) is quiet.  Decoder-side twin of `cellStable` (Lemmas/PlanLemmas).
-/
import KmipModel.Lemmas.PlanFixpoint
namespace Kmip

/-! ## 1. The dynamic types the decoders choose are context types -/

theorem payloadDyn_mem_ctx (S : Schema) (op : Nat) (r : Bool) : S.payloadDyn op r ∈ S.ctxDyns := by
  unfold Schema.payloadDyn Schema.ctxDyns
  split
  · rename_i a rq rs hf
    have hm := List.mem_of_find?_eq_some hf
    cases r with
    | true =>
      refine List.mem_cons_of_mem _ (List.mem_cons_of_mem _ ?_)
      refine List.mem_append_left _ (List.mem_append_left _ (List.mem_append_right _ ?_))
      exact List.mem_map.2 ⟨_, hm, rfl⟩
    | false =>
      refine List.mem_cons_of_mem _ (List.mem_cons_of_mem _ ?_)
      refine List.mem_append_left _ (List.mem_append_left _ (List.mem_append_left _ ?_))
      exact List.mem_map.2 ⟨_, hm, rfl⟩
  · exact List.mem_cons_self

theorem valueDyn_mem_ctx (S : Schema) : S.valueDyn ∈ S.ctxDyns := by
  unfold Schema.ctxDyns
  exact List.mem_cons_of_mem _ List.mem_cons_self

theorem fxq_lookupNat_mem {l : List (Nat × Nat)} {k d : Nat} (h : lookupNat l k = some d) :
    d ∈ l.map (·.2) := by
  unfold lookupNat at h
  split at h
  · rename_i p hf
    cases h
    exact List.mem_map.2 ⟨_, List.mem_of_find?_eq_some hf, rfl⟩
  · cases h

theorem attrDyn_mem_ctx (S : Schema) (name : Bytes) : S.attrDyn name ∈ S.ctxDyns := by
  unfold Schema.attrDyn
  dsimp only
  split
  · exact valueDyn_mem_ctx S
  · split
    · rename_i d hd
      unfold Schema.ctxDyns
      refine List.mem_cons_of_mem _ (List.mem_cons_of_mem _ ?_)
      exact List.mem_append_right _ (fxq_lookupNat_mem hd)
    · exact valueDyn_mem_ctx S

theorem objectDyn_mem_ctx {S : Schema} {ot d : Nat} (h : S.objectDyn ot = some d) : d ∈ S.ctxDyns := by
  unfold Schema.objectDyn at h
  unfold Schema.ctxDyns
  refine List.mem_cons_of_mem _ (List.mem_cons_of_mem _ ?_)
  exact List.mem_append_left _ (List.mem_append_right _ (fxq_lookupNat_mem h))

/-! ## 2. Inversion of the quietness check -/

theorem DqK.ptr {S : Schema} {k : Kind} (h : DqK S (.ptr k)) : DqK S k := by
  obtain ⟨n, h⟩ := h
  cases n with
  | zero => rw [dqK] at h; exact nomatch h
  | succ n => rw [dqK] at h; exact ⟨n, h⟩

theorem DqK.slice {S : Schema} {k : Kind} (h : DqK S (.slice k)) : DqK S k := by
  obtain ⟨n, h⟩ := h
  cases n with
  | zero => rw [dqK] at h; exact nomatch h
  | succ n => rw [dqK] at h; exact ⟨n, h⟩

theorem DqK.of_slice {S : Schema} {k : Kind} (h : DqK S k) : DqK S (.slice k) := by
  obtain ⟨n, h⟩ := h
  exact ⟨n + 1, by rw [dqK]; exact h⟩

theorem DqK.unsupported (S : Schema) : DqK S .unsupported := ⟨1, by simp [dqK]⟩
theorem DqK.bytes (S : Schema) : DqK S .bytes := ⟨1, by simp [dqK]⟩
theorem DqK.text (S : Schema) : DqK S .text := ⟨1, by simp [dqK]⟩
theorem DqK.bool (S : Schema) : DqK S .bool := ⟨1, by simp [dqK]⟩

theorem DqK.struct {S : Schema} {id : Nat} (h : DqK S (.struct id)) :
    DqFields S (S.structDef id).fields ∧
    ((S.structDef id).decCustom = true → (S.structDef id).custom = Cust.credential →
      DqKs S (customFieldKinds S Cust.credentialValue)) ∧
    ((S.structDef id).decCustom = true → (S.structDef id).custom = Cust.keyBlock →
      DqKs S (customFieldKinds S Cust.keyMaterial) ∧ DqK S (.struct (attributeId S))) := by
  obtain ⟨n, h⟩ := h
  cases n with
  | zero => rw [dqK] at h; exact nomatch h
  | succ n =>
    rw [dqK] at h
    rw [Bool.and_eq_true] at h
    obtain ⟨h1, h2⟩ := h
    refine ⟨⟨n, h1⟩, ?_, ?_⟩
    · intro hc he
      rw [if_pos hc, if_pos he] at h2
      exact ⟨n, h2⟩
    · intro hc he
      have hne : ¬ (S.structDef id).custom = Cust.credential := by rw [he]; decide
      rw [if_pos hc, if_neg hne, if_pos he, Bool.and_eq_true] at h2
      exact ⟨⟨n, h2.1⟩, ⟨n, h2.2⟩⟩

theorem DqFields.cons {S : Schema} {f : Field} {fs : List Field} (h : DqFields S (f :: fs)) :
    f.setVersion = false ∧ DqK S f.kind ∧ DqFields S fs := by
  obtain ⟨n, h⟩ := h
  cases n with
  | zero => rw [dqFields] at h; exact nomatch h
  | succ n =>
    rw [dqFields] at h
    simp only [Bool.and_eq_true, Bool.not_eq_true'] at h
    exact ⟨h.1.1, ⟨n, h.1.2⟩, ⟨n, h.2⟩⟩

theorem DqKs.cons {S : Schema} {k : Kind} {ks : List Kind} (h : DqKs S (k :: ks)) :
    DqK S k ∧ DqKs S ks := by
  obtain ⟨n, h⟩ := h
  cases n with
  | zero => rw [dqKs] at h; exact nomatch h
  | succ n =>
    rw [dqKs] at h
    simp only [Bool.and_eq_true] at h
    exact ⟨⟨n, h.1⟩, ⟨n, h.2⟩⟩

theorem DqFields.getD {S : Schema} : ∀ {fs : List Field}, DqFields S fs →
    ∀ i, DqK S (fs.getD i fieldDflt).kind
  | [], _, i => by rw [List.getD_nil]; exact DqK.unsupported S
  | f :: fs, h, 0 => by rw [List.getD_cons_zero]; exact h.cons.2.1
  | f :: fs, h, i + 1 => by rw [List.getD_cons_succ]; exact DqFields.getD h.cons.2.2 i

theorem DqKs.getD {S : Schema} : ∀ {ks : List Kind}, DqKs S ks →
    ∀ i, DqK S (ks.getD i .unsupported)
  | [], _, i => by rw [List.getD_nil]; exact DqK.unsupported S
  | k :: ks, h, 0 => by rw [List.getD_cons_zero]; exact h.cons.1
  | k :: ks, h, i + 1 => by rw [List.getD_cons_succ]; exact DqKs.getD h.cons.2 i

/-! ## 3. The induction on the decoder's fuel -/

theorem decQuiet_zero (S : Schema) : DecQuiet S 0 := by
  constructor
  · intro k tag c ver v c' ver' _ h; rw [decK_zero] at h; exact nomatch h
  · intro fs tag c ver v c' ver' _ h; rw [decStruct_zero] at h; exact nomatch h
  · intro k tag c ver vs c' ver' _ h; rw [decList] at h; exact nomatch h
  · intro fs c ver vs c' ver' _ h; rw [decFields_zero] at h; exact nomatch h
  · intro k tag c ver v c' ver' _ h; rw [decOpt] at h; exact nomatch h
  · intro d tag c ver v c' ver' _ h; rw [decDyn] at h; exact nomatch h
  · intro id tag c ver v c' ver' _ _ h; rw [decCustom_zero] at h; exact nomatch h
  · intro fmt c ver v c' ver' _ _ h; rw [decKeyValue_zero] at h; exact nomatch h

theorem decQuiet_succ (S : Schema) (hX : ∀ d ∈ S.ctxDyns, DqK S (S.dyn d).kind) (fd : Nat)
    (ih : DecQuiet S fd) : DecQuiet S (fd + 1) := by
  constructor
  · -- decK
    intro k tag c ver v c' ver' hk h
    cases k with
    | ptr k' =>
      rw [decK] at h
      split at h
      · cases h; rfl
      · obtain ⟨⟨x, c1, v1⟩, h1, h⟩ := Res.bind_eq_ok h
        cases h
        exact ih.decK _ _ _ _ _ _ _ hk.ptr h1
    | slice k' =>
      rw [decK] at h
      obtain ⟨⟨xs, c1, v1⟩, h1, h⟩ := Res.bind_eq_ok h
      cases h
      exact ih.decList _ _ _ _ _ _ _ hk.slice h1
    | struct id =>
      rw [decK_struct] at h
      split at h
      · rename_i hc
        exact ih.decCustom _ _ _ _ _ _ _ hk hc h
      · exact ih.decStruct _ _ _ _ _ _ _ hk.struct.1 h
    | iface => rw [decK] at h; exact nomatch h
    | i8 => rw [decK] at h; exact nomatch h
    | i16 => rw [decK] at h; exact nomatch h
    | unsupported => rw [decK] at h; exact nomatch h
    | u8 | u16 | u32 | u64 =>
      rw [decK] at h
      obtain ⟨⟨x, c1⟩, _, h⟩ := Res.bind_eq_ok h
      dsimp only at h
      split at h
      · exact nomatch h
      · cases h; rfl
    | _ =>
      rw [decK] at h
      obtain ⟨⟨x, c1⟩, _, h⟩ := Res.bind_eq_ok h
      cases h
      rfl
  · -- decStruct
    intro fs tag c ver v c' ver' hfs h
    rw [decStruct_succ] at h
    obtain ⟨it, _, h⟩ := Res.bind_eq_ok h
    obtain ⟨inner, _, h⟩ := Res.bind_eq_ok h
    obtain ⟨⟨vs, c1, v1⟩, h1, h⟩ := Res.bind_eq_ok h
    obtain ⟨c2, _, h⟩ := Res.bind_eq_ok h
    cases h
    exact ih.decFields _ _ _ _ _ _ hfs h1
  · -- decList
    intro k tag c ver vs c' ver' hk h
    rw [decList] at h
    split at h
    · cases h; rfl
    · obtain ⟨⟨x, c1, v1⟩, h1, h⟩ := Res.bind_eq_ok h
      obtain ⟨⟨xs, c2, v2⟩, h2, h⟩ := Res.bind_eq_ok h
      cases h
      have r1 := ih.decK _ _ _ _ _ _ _ hk h1
      have r2 := ih.decList _ _ _ _ _ _ _ hk h2
      rw [r2, r1]
  · -- decFields
    intro fs c ver vs c' ver' hfs h
    cases fs with
    | nil => rw [decFields_nil] at h; cases h; rfl
    | cons f fs =>
      obtain ⟨hsv, hk, hrest⟩ := hfs.cons
      rw [decFields_cons] at h
      obtain ⟨⟨x, c1, v1⟩, h1, h⟩ := Res.bind_eq_ok h
      obtain ⟨⟨xs, c2, v2⟩, h2, h⟩ := Res.bind_eq_ok h
      cases h
      rw [hsv] at h2
      have r2 := ih.decFields _ _ _ _ _ _ hrest h2
      have r1 : v1 = ver := by
        split at h1
        · exact nomatch h1
        · split at h1
          · cases h1; rfl
          · exact ih.decK _ _ _ _ _ _ _ hk h1
      rw [r2]
      simpa using r1
  · -- decOpt
    intro k tag c ver v c' ver' hk h
    rw [decOpt_succ] at h
    split at h
    · exact ih.decK _ _ _ _ _ _ _ hk h
    · cases h; rfl
  · -- decDyn
    intro d tag c ver v c' ver' hd h
    have hq := hX d hd
    rw [decDyn] at h
    dsimp only at h
    obtain ⟨⟨x, c1, v1⟩, h1, h⟩ := Res.bind_eq_ok h
    cases h
    generalize (S.dyn d).kind = kk at h1 hq
    cases kk with
    | ptr k' => exact ih.decK _ _ _ _ _ _ _ hq.ptr h1
    | _ => exact ih.decK _ _ _ _ _ _ _ hq h1
  · -- decCustom
    intro id tag c ver v c' ver' hk hdc h
    obtain ⟨hF, hCred, hKB⟩ := hk.struct
    have hfk : ∀ i, DqK S ((S.structDef id).fields.getD i fieldDflt).kind := hF.getD
    generalize hcode : (S.structDef id).custom = code at h
    by_cases c1 : code = Cust.unknownPayload
    · subst c1
      rw [decCustom_unknown] at h
      obtain ⟨⟨its, c1⟩, _, h⟩ := Res.bind_eq_ok h
      cases h
      rfl
    by_cases c2 : code = Cust.requestBatchItem
    · subst c2
      rw [decCustom_request] at h
      obtain ⟨it, _, h⟩ := Res.bind_eq_ok h
      obtain ⟨c0, _, h⟩ := Res.bind_eq_ok h
      obtain ⟨⟨w, w'⟩, h, hh⟩ := Res.bind_eq_ok h
      obtain ⟨cn, _, hh⟩ := Res.bind_eq_ok hh
      cases hh
      obtain ⟨⟨op, d1, v1⟩, e1, h⟩ := Res.bind_eq_ok h
      obtain ⟨⟨bid, d2, v2⟩, e2, h⟩ := Res.bind_eq_ok h
      obtain ⟨⟨pl, d3, v3⟩, e3, h⟩ := Res.bind_eq_ok h
      obtain ⟨⟨me, d4, v4⟩, e4, h⟩ := Res.bind_eq_ok h
      cases h
      have r1 := ih.decK _ _ _ _ _ _ _ (hfk 0) e1
      have r2 := ih.decOpt _ _ _ _ _ _ _ (DqK.bytes S) e2
      have r3 := ih.decDyn _ _ _ _ _ _ _ (payloadDyn_mem_ctx S _ _) e3
      have r4 := ih.decOpt _ _ _ _ _ _ _ (hfk 3) e4
      rw [r4, r3, r2, r1]
    by_cases c3 : code = Cust.responseBatchItem
    · subst c3
      rw [decCustom_response] at h
      obtain ⟨it, _, h⟩ := Res.bind_eq_ok h
      obtain ⟨c0, _, h⟩ := Res.bind_eq_ok h
      obtain ⟨⟨w, w'⟩, h, hh⟩ := Res.bind_eq_ok h
      obtain ⟨cn, _, hh⟩ := Res.bind_eq_ok hh
      cases hh
      obtain ⟨⟨op, d1, v1⟩, e1, h⟩ := Res.bind_eq_ok h
      obtain ⟨⟨bid, d2, v2⟩, e2, h⟩ := Res.bind_eq_ok h
      obtain ⟨⟨st, d3, v3⟩, e3, h⟩ := Res.bind_eq_ok h
      obtain ⟨⟨rs, d4, v4⟩, e4, h⟩ := Res.bind_eq_ok h
      obtain ⟨⟨msg, d5, v5⟩, e5, h⟩ := Res.bind_eq_ok h
      obtain ⟨⟨acv, d6, v6⟩, e6, h⟩ := Res.bind_eq_ok h
      have r1 := ih.decOpt _ _ _ _ _ _ _ (hfk 0) e1
      have r2 := ih.decOpt _ _ _ _ _ _ _ (DqK.bytes S) e2
      have r3 := ih.decK _ _ _ _ _ _ _ (hfk 2) e3
      have r4 := ih.decOpt _ _ _ _ _ _ _ (hfk 3) e4
      have r5 := ih.decOpt _ _ _ _ _ _ _ (DqK.text S) e5
      have r6 := ih.decOpt _ _ _ _ _ _ _ (DqK.bytes S) e6
      dsimp only at h
      split at h
      · obtain ⟨⟨pl, d7, v7⟩, e7, h⟩ := Res.bind_eq_ok h
        obtain ⟨⟨me, d8, v8⟩, e8, h⟩ := Res.bind_eq_ok h
        cases h
        have r7 := ih.decDyn _ _ _ _ _ _ _ (payloadDyn_mem_ctx S _ _) e7
        have r8 := ih.decOpt _ _ _ _ _ _ _ (hfk 7) e8
        rw [r8, r7, r6, r5, r4, r3, r2, r1]
      · obtain ⟨⟨pl, d7, v7⟩, e7, h⟩ := Res.bind_eq_ok h
        cases e7
        obtain ⟨⟨me, d8, v8⟩, e8, h⟩ := Res.bind_eq_ok h
        cases h
        have r8 := ih.decOpt _ _ _ _ _ _ _ (hfk 7) e8
        rw [r8, r6, r5, r4, r3, r2, r1]
    by_cases c4 : code = Cust.attr
    · subst c4
      rw [decCustom_attr] at h
      obtain ⟨it, _, h⟩ := Res.bind_eq_ok h
      obtain ⟨c0, _, h⟩ := Res.bind_eq_ok h
      obtain ⟨⟨w, w'⟩, h, hh⟩ := Res.bind_eq_ok h
      obtain ⟨cn, _, hh⟩ := Res.bind_eq_ok hh
      cases hh
      obtain ⟨⟨name, d1⟩, _, h⟩ := Res.bind_eq_ok h
      dsimp only at h
      split at h
      · obtain ⟨⟨i, d2'⟩, _, h⟩ := Res.bind_eq_ok h
        obtain ⟨⟨idx, d2, v2⟩, e2, h⟩ := Res.bind_eq_ok h
        cases e2
        obtain ⟨⟨x, d3, v3⟩, e3, h⟩ := Res.bind_eq_ok h
        cases h
        exact ih.decDyn _ _ _ _ _ _ _ (attrDyn_mem_ctx S _) e3
      · obtain ⟨⟨idx, d2, v2⟩, e2, h⟩ := Res.bind_eq_ok h
        cases e2
        obtain ⟨⟨x, d3, v3⟩, e3, h⟩ := Res.bind_eq_ok h
        cases h
        exact ih.decDyn _ _ _ _ _ _ _ (attrDyn_mem_ctx S _) e3
    by_cases c5 : code = Cust.credential
    · subst c5
      have hcv := hCred hdc hcode
      rw [decCustom_credential] at h
      obtain ⟨it, _, h⟩ := Res.bind_eq_ok h
      obtain ⟨c0, _, h⟩ := Res.bind_eq_ok h
      obtain ⟨⟨w, w'⟩, h, hh⟩ := Res.bind_eq_ok h
      obtain ⟨cn, _, hh⟩ := Res.bind_eq_ok hh
      cases hh
      obtain ⟨⟨ct, d1, v1⟩, e1, h⟩ := Res.bind_eq_ok h
      dsimp only at h
      split at h
      · obtain ⟨⟨x, d2, v2⟩, e2, h⟩ := Res.bind_eq_ok h
        cases h
        have r1 := ih.decK _ _ _ _ _ _ _ (hfk 0) e1
        have r2 := ih.decK _ _ _ _ _ _ _ (hcv.getD _) e2
        rw [r2, r1]
      · exact nomatch h
    by_cases c6 : code = Cust.keyBlock
    · subst c6
      obtain ⟨hkm, hat⟩ := hKB hdc hcode
      rw [decCustom_keyBlock] at h
      obtain ⟨it, _, h⟩ := Res.bind_eq_ok h
      obtain ⟨c0, _, h⟩ := Res.bind_eq_ok h
      obtain ⟨⟨w, w'⟩, h, hh⟩ := Res.bind_eq_ok h
      obtain ⟨cn, _, hh⟩ := Res.bind_eq_ok hh
      cases hh
      obtain ⟨⟨fmt, d1, v1⟩, e1, h⟩ := Res.bind_eq_ok h
      obtain ⟨⟨comp, d2, v2⟩, e2, h⟩ := Res.bind_eq_ok h
      have r1 := ih.decK _ _ _ _ _ _ _ (hfk 0) e1
      have r2 := ih.decOpt _ _ _ _ _ _ _ (hfk 1) e2
      dsimp only at h
      split at h
      · obtain ⟨⟨x, dx, vx⟩, ex, h⟩ := Res.bind_eq_ok h
        obtain ⟨⟨kv, d3, v3⟩, e3, h⟩ := Res.bind_eq_ok h
        cases e3
        obtain ⟨⟨alg, d4, v4⟩, e4, h⟩ := Res.bind_eq_ok h
        obtain ⟨⟨len, d5, v5⟩, e5, h⟩ := Res.bind_eq_ok h
        obtain ⟨⟨kwd, d6, v6⟩, e6, h⟩ := Res.bind_eq_ok h
        cases h
        have r3 := ih.decKeyValue _ _ _ _ _ _ hkm hat ex
        have r4 := ih.decOpt _ _ _ _ _ _ _ (hfk 3) e4
        have r5 := ih.decOpt _ _ _ _ _ _ _ (hfk 4) e5
        have r6 := ih.decK _ _ _ _ _ _ _ (hfk 5) e6
        rw [r6, r5, r4, r3, r2, r1]
      · obtain ⟨⟨kv, d3, v3⟩, e3, h⟩ := Res.bind_eq_ok h
        cases e3
        obtain ⟨⟨alg, d4, v4⟩, e4, h⟩ := Res.bind_eq_ok h
        obtain ⟨⟨len, d5, v5⟩, e5, h⟩ := Res.bind_eq_ok h
        obtain ⟨⟨kwd, d6, v6⟩, e6, h⟩ := Res.bind_eq_ok h
        cases h
        have r4 := ih.decOpt _ _ _ _ _ _ _ (hfk 3) e4
        have r5 := ih.decOpt _ _ _ _ _ _ _ (hfk 4) e5
        have r6 := ih.decK _ _ _ _ _ _ _ (hfk 5) e6
        rw [r6, r5, r4, r2, r1]
    by_cases c7 : code = Cust.getResponse
    · subst c7
      rw [decCustom_get] at h
      obtain ⟨it, _, h⟩ := Res.bind_eq_ok h
      obtain ⟨c0, _, h⟩ := Res.bind_eq_ok h
      obtain ⟨⟨w, w'⟩, h, hh⟩ := Res.bind_eq_ok h
      obtain ⟨cn, _, hh⟩ := Res.bind_eq_ok hh
      cases hh
      obtain ⟨⟨ot, d1, v1⟩, e1, h⟩ := Res.bind_eq_ok h
      obtain ⟨⟨uid, d2, v2⟩, e2, h⟩ := Res.bind_eq_ok h
      dsimp only at h
      split at h
      · exact nomatch h
      · rename_i d hd
        obtain ⟨⟨obj, d3, v3⟩, e3, h⟩ := Res.bind_eq_ok h
        cases h
        have r1 := ih.decK _ _ _ _ _ _ _ (hfk 0) e1
        have r2 := ih.decK _ _ _ _ _ _ _ (DqK.text S) e2
        have r3 := ih.decDyn _ _ _ _ _ _ _ (objectDyn_mem_ctx hd) e3
        rw [r3, r2, r1]
    by_cases c8 : code = Cust.registerRequest
    · subst c8
      rw [decCustom_register] at h
      obtain ⟨it, _, h⟩ := Res.bind_eq_ok h
      obtain ⟨c0, _, h⟩ := Res.bind_eq_ok h
      obtain ⟨⟨w, w'⟩, h, hh⟩ := Res.bind_eq_ok h
      obtain ⟨cn, _, hh⟩ := Res.bind_eq_ok hh
      cases hh
      obtain ⟨⟨ot, d1, v1⟩, e1, h⟩ := Res.bind_eq_ok h
      obtain ⟨⟨ta, d2, v2⟩, e2, h⟩ := Res.bind_eq_ok h
      dsimp only at h
      split at h
      · exact nomatch h
      · rename_i d hd
        obtain ⟨⟨obj, d3, v3⟩, e3, h⟩ := Res.bind_eq_ok h
        cases h
        have r1 := ih.decK _ _ _ _ _ _ _ (hfk 0) e1
        have r2 := ih.decK _ _ _ _ _ _ _ (hfk 1) e2
        have r3 := ih.decDyn _ _ _ _ _ _ _ (objectDyn_mem_ctx hd) e3
        rw [r3, r2, r1]
    by_cases c9 : code = Cust.exportResponse
    · subst c9
      rw [decCustom_export] at h
      obtain ⟨it, _, h⟩ := Res.bind_eq_ok h
      obtain ⟨c0, _, h⟩ := Res.bind_eq_ok h
      obtain ⟨⟨w, w'⟩, h, hh⟩ := Res.bind_eq_ok h
      obtain ⟨cn, _, hh⟩ := Res.bind_eq_ok hh
      cases hh
      obtain ⟨⟨ot, d1, v1⟩, e1, h⟩ := Res.bind_eq_ok h
      obtain ⟨⟨uid, d2, v2⟩, e2, h⟩ := Res.bind_eq_ok h
      obtain ⟨⟨attrs, d3, v3⟩, e3, h⟩ := Res.bind_eq_ok h
      dsimp only at h
      split at h
      · exact nomatch h
      · rename_i d hd
        obtain ⟨⟨obj, d4, v4⟩, e4, h⟩ := Res.bind_eq_ok h
        cases h
        have r1 := ih.decK _ _ _ _ _ _ _ (hfk 0) e1
        have r2 := ih.decK _ _ _ _ _ _ _ (DqK.text S) e2
        have r3 := ih.decK _ _ _ _ _ _ _ (hfk 2) e3
        have r4 := ih.decDyn _ _ _ _ _ _ _ (objectDyn_mem_ctx hd) e4
        rw [r4, r3, r2, r1]
    by_cases c10 : code = Cust.importRequest
    · subst c10
      rw [decCustom_import] at h
      obtain ⟨it, _, h⟩ := Res.bind_eq_ok h
      obtain ⟨c0, _, h⟩ := Res.bind_eq_ok h
      obtain ⟨⟨w, w'⟩, h, hh⟩ := Res.bind_eq_ok h
      obtain ⟨cn, _, hh⟩ := Res.bind_eq_ok hh
      cases hh
      obtain ⟨⟨uid, d1, v1⟩, e1, h⟩ := Res.bind_eq_ok h
      obtain ⟨⟨rep, d2, v2⟩, e2, h⟩ := Res.bind_eq_ok h
      obtain ⟨⟨kwt, d3, v3⟩, e3, h⟩ := Res.bind_eq_ok h
      obtain ⟨⟨attrs, d4, v4⟩, e4, h⟩ := Res.bind_eq_ok h
      dsimp only at h
      split at h
      · exact nomatch h
      · split at h
        · exact nomatch h
        · rename_i d hd
          obtain ⟨⟨obj, d5, v5⟩, e5, h⟩ := Res.bind_eq_ok h
          cases h
          have r1 := ih.decK _ _ _ _ _ _ _ (DqK.text S) e1
          have r2 := ih.decOpt _ _ _ _ _ _ _ (DqK.bool S) e2
          have r3 := ih.decOpt _ _ _ _ _ _ _ (hfk 2) e3
          have r4 := ih.decK _ _ _ _ _ _ _ (hfk 3) e4
          have r5 := ih.decDyn _ _ _ _ _ _ _ (objectDyn_mem_ctx hd) e5
          rw [r5, r4, r3, r2, r1]
    · -- no decoder under this code
      rw [decCustom.eq_def] at h
      dsimp only at h
      rw [if_neg c1] at h
      obtain ⟨it, _, h⟩ := Res.bind_eq_ok h
      obtain ⟨c0, _, h⟩ := Res.bind_eq_ok h
      obtain ⟨⟨w, w'⟩, h, hh⟩ := Res.bind_eq_ok h
      rw [if_neg c2, if_neg c3, if_neg c4, if_neg c5, if_neg c6, if_neg c7, if_neg c8, if_neg c9,
        if_neg c10] at h
      exact nomatch h
  · -- decKeyValue
    intro fmt c ver v c' ver' hkm hat h
    rw [decKeyValue_succ] at h
    split at h
    · obtain ⟨⟨b, c1⟩, _, h⟩ := Res.bind_eq_ok h
      cases h
      rfl
    · split at h
      · obtain ⟨it, _, h⟩ := Res.bind_eq_ok h
        obtain ⟨c0, _, h⟩ := Res.bind_eq_ok h
        split at h
        · exact nomatch h
        · obtain ⟨⟨x, d1, v1⟩, e1, h⟩ := Res.bind_eq_ok h
          obtain ⟨⟨attrs, d2, v2⟩, e2, h⟩ := Res.bind_eq_ok h
          obtain ⟨cn, _, h⟩ := Res.bind_eq_ok h
          cases h
          have r1 := ih.decK _ _ _ _ _ _ _ (hkm.getD _) e1
          have r2 := ih.decK _ _ _ _ _ _ _ hat.of_slice e2
          rw [r2, r1]
      · exact nomatch h

theorem decQuiet (S : Schema) (hX : ∀ d ∈ S.ctxDyns, DqK S (S.dyn d).kind) : ∀ fd, DecQuiet S fd
  | 0 => decQuiet_zero S
  | fd + 1 => decQuiet_succ S hX fd (decQuiet S hX fd)

end Kmip
