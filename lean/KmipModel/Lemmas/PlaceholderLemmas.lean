/-
  Lemmas about the placeholder model: one cell (`runActs`), the world (`runWorld`), merges.
-/
import KmipModel.Model.Placeholder
namespace Kmip.Placeholder

/-! ### one cell -/

theorem runActs_append (c : Val) (xs ys : List PAct) :
    runActs c (xs ++ ys) =
      ((runActs (runActs c xs).1 ys).1, (runActs c xs).2 ++ (runActs (runActs c xs).1 ys).2) := by
  induction xs generalizing c with
  | nil => simp [runActs]
  | cons a as ih =>
    simp only [List.cons_append, runActs]
    rw [ih]
    simp [List.append_assoc]

theorem getLast?_cons_getD (v c : Val) (l : List Val) :
    (v :: l).getLast?.getD c = l.getLast?.getD v := by
  cases l with
  | nil => simp
  | cons x xs => simp [List.getLast?_cons]

theorem runActs_fst (c : Val) (as : List PAct) : (runActs c as).1 = lastWrite c as := by
  induction as generalizing c with
  | nil => simp [runActs, lastWrite, writes]
  | cons a as ih =>
    cases a with
    | read => simp only [runActs, stepCell]; rw [ih]; simp [lastWrite, writes]
    | set v =>
      simp only [runActs, stepCell]; rw [ih]
      simp only [lastWrite, writes]; rw [getLast?_cons_getD]
    | clear =>
      simp only [runActs, stepCell]; rw [ih]
      simp only [lastWrite, writes]; rw [getLast?_cons_getD]

theorem writes_append (xs ys : List PAct) : writes (xs ++ ys) = writes xs ++ writes ys := by
  induction xs with
  | nil => simp [writes]
  | cons a as ih => cases a <;> simp [writes, ih]

theorem lastWrite_append (c : Val) (xs ys : List PAct) :
    lastWrite c (xs ++ ys) = lastWrite (lastWrite c xs) ys := by
  rw [← runActs_fst, ← runActs_fst, ← runActs_fst, runActs_append]

/-! ### the world -/

/-- every bound request points to an allocated holder, and no two requests share one. -/
structure Inv (w : World) : Prop where
  bound : ∀ q a, w.env q = some a → a < w.heap.length
  inj : ∀ q q' a, w.env q = some a → w.env q' = some a → q = q'

theorem Inv_init : Inv World.init :=
  ⟨by intro q a h; simp [World.init] at h, by intro q q' a h; simp [World.init] at h⟩

theorem Inv_step (w : World) (r : Nat) (s : GStep) (h : Inv w) : Inv (stepWorld w r s).1 := by
  cases s with
  | begin =>
    refine ⟨?_, ?_⟩
    · intro q a hq
      simp only [stepWorld] at hq ⊢
      simp only [List.length_append, List.length_cons, List.length_nil]
      by_cases hqr : q = r
      · simp [hqr] at hq; omega
      · simp [hqr] at hq; have := h.bound q a hq; omega
    · intro q q' a hq hq'
      simp only [stepWorld] at hq hq'
      by_cases hqr : q = r <;> by_cases hqr' : q' = r
      · rw [hqr, hqr']
      · simp [hqr] at hq; simp [hqr'] at hq'
        have := h.bound q' a hq'; omega
      · simp [hqr] at hq; simp [hqr'] at hq'
        have := h.bound q a hq; omega
      · simp [hqr] at hq; simp [hqr'] at hq'
        exact h.inj q q' a hq hq'
  | act a =>
    simp only [stepWorld]
    cases he : w.env r with
    | none => simpa using h
    | some addr =>
      refine ⟨?_, ?_⟩
      · intro q b hq; simp at hq ⊢; exact h.bound q b hq
      · intro q q' b hq hq'; simp at hq hq'; exact h.inj q q' b hq hq'

theorem proj_cons_self (r : Nat) (s : GStep) (rest : List (Nat × GStep)) :
    proj r ((r, s) :: rest) = s :: proj r rest := by
  simp [proj]

theorem proj_cons_ne (r q : Nat) (s : GStep) (rest : List (Nat × GStep)) (h : q ≠ r) :
    proj r ((q, s) :: rest) = proj r rest := by
  simp [proj, h]

theorem obsOf_append (r : Nat) (xs ys : List (Nat × Obs)) :
    obsOf r (xs ++ ys) = obsOf r xs ++ obsOf r ys := by
  simp [obsOf]

/-- a step of another request leaves `r`'s binding and holder untouched. -/
theorem step_other (w : World) (r q a : Nat) (s : GStep) (hinv : Inv w) (hr : w.env r = some a)
    (hq : q ≠ r) :
    (stepWorld w q s).1.env r = some a ∧ (stepWorld w q s).1.heap.getD a 0 = w.heap.getD a 0 := by
  have ha := hinv.bound r a hr
  cases s with
  | begin =>
    simp only [stepWorld]
    have : r ≠ q := fun h => hq h.symm
    refine ⟨by simp [this, hr], ?_⟩
    simp [List.getD_eq_getElem?_getD, List.getElem?_append_left ha]
  | act x =>
    simp only [stepWorld]
    cases he : w.env q with
    | none => exact ⟨hr, rfl⟩
    | some b =>
      have hba : b ≠ a := fun h => hq (hinv.inj q r a (h ▸ he) hr)
      refine ⟨hr, ?_⟩
      simp [List.getD_eq_getElem?_getD, List.getElem?_set_ne hba]

/-- a step of another request does not bind `r`. -/
theorem step_other_unbound (w : World) (r q : Nat) (s : GStep) (hr : w.env r = none) (hq : q ≠ r) :
    (stepWorld w q s).1.env r = none := by
  cases s with
  | begin =>
    have : r ≠ q := fun h => hq h.symm
    simp [stepWorld, this, hr]
  | act x =>
    simp only [stepWorld]
    cases he : w.env q <;> simp [hr]

theorem obsOf_step_other (r q : Nat) (o : Option Obs) (os : List (Nat × Obs)) (hq : q ≠ r) :
    obsOf r (o.toList.map (fun v => (q, v)) ++ os) = obsOf r os := by
  cases o <;> simp [obsOf, hq]

/-- Request `r`, already bound to holder `a`, performs the accesses `as` somewhere inside the
    schedule: it observes what it would observe alone on a cell with the same content. -/
theorem runWorld_bound (sched : List (Nat × GStep)) (w : World) (r a : Nat) (as : List PAct)
    (hinv : Inv w) (hr : w.env r = some a) (hproj : proj r sched = as.map GStep.act) :
    obsOf r (runWorld w sched).2 = (runActs (w.heap.getD a 0) as).2.map Obs.val := by
  induction sched generalizing w as with
  | nil =>
    cases as with
    | nil => simp [runWorld, obsOf, runActs]
    | cons x xs => simp [proj] at hproj
  | cons e rest ih =>
    obtain ⟨q, s⟩ := e
    by_cases hq : q = r
    · subst hq
      rw [proj_cons_self] at hproj
      cases as with
      | nil => simp at hproj
      | cons x xs =>
        simp only [List.map_cons, List.cons.injEq] at hproj
        obtain ⟨hs, hrest⟩ := hproj
        subst hs
        have ha := hinv.bound q a hr
        have hinv' := Inv_step w q (.act x) hinv
        simp only [runWorld]
        rw [obsOf_append]
        have hstep : stepWorld w q (.act x) =
            ({ w with heap := w.heap.set a (stepCell (w.heap.getD a 0) x).1 },
              (stepCell (w.heap.getD a 0) x).2.map Obs.val) := by
          simp [stepWorld, hr]
        rw [hstep] at hinv' ⊢
        simp only
        have hget : (w.heap.set a (stepCell (w.heap.getD a 0) x).1).getD a 0 =
            (stepCell (w.heap.getD a 0) x).1 := by
          simp [List.getD_eq_getElem?_getD, List.getElem?_set_self ha]
        rw [ih _ xs hinv' hr hrest]
        simp only [hget, runActs]
        cases (stepCell (w.heap.getD a 0) x).2 <;> simp [obsOf]
    · rw [proj_cons_ne r q s rest hq] at hproj
      simp only [runWorld]
      rw [obsOf_step_other r q _ _ hq]
      have hinv' := Inv_step w q s hinv
      obtain ⟨henv, hheap⟩ := step_other w r q a s hinv hr hq
      rw [ih _ as hinv' henv hproj, hheap]

/-- Request `r`, not yet started, runs `prog as` inside the schedule: it observes what it observes
    alone (its holder is freshly allocated by its `begin`). -/
theorem runWorld_fresh (sched : List (Nat × GStep)) (w : World) (r : Nat) (as : List PAct)
    (hinv : Inv w) (hr : w.env r = none) (hproj : proj r sched = prog as) :
    obsOf r (runWorld w sched).2 = (solo as).map Obs.val := by
  induction sched generalizing w with
  | nil => simp [proj, prog] at hproj
  | cons e rest ih =>
    obtain ⟨q, s⟩ := e
    by_cases hq : q = r
    · subst hq
      rw [proj_cons_self] at hproj
      simp only [prog, List.cons.injEq] at hproj
      obtain ⟨hs, hrest⟩ := hproj
      subst hs
      simp only [runWorld]
      have hinv' := Inv_step w q .begin hinv
      have henv : (stepWorld w q .begin).1.env q = some w.heap.length := by simp [stepWorld]
      have hheap : (stepWorld w q .begin).1.heap.getD w.heap.length 0 = 0 := by
        simp [stepWorld, List.getD_eq_getElem?_getD]
      have hobs : (stepWorld w q .begin).2 = none := by simp [stepWorld]
      rw [hobs]
      simp only [Option.toList_none, List.map_nil, List.nil_append]
      rw [runWorld_bound rest _ q _ as hinv' henv hrest, hheap]
      rfl
    · rw [proj_cons_ne r q s rest hq] at hproj
      simp only [runWorld]
      rw [obsOf_step_other r q _ _ hq]
      exact ih _ (Inv_step w q s hinv) (step_other_unbound w r q s hr hq) hproj

/-! ### merges -/

theorem proj_of_interleaving {progs : List (List GStep)} {sched : List (Nat × GStep)}
    (h : Interleaving progs sched) (j : Nat) : proj j sched = progs[j]?.getD [] := by
  induction h with
  | done progs hall =>
    cases hj : progs[j]? with
    | none => simp [proj]
    | some p =>
      have := hall p (List.mem_of_getElem? hj)
      simp [proj, this]
  | step progs i s rest sched hget _ ih =>
    have hi : i < progs.length := by
      cases Nat.lt_or_ge i progs.length with
      | inl h => exact h
      | inr h => rw [List.getElem?_eq_none h] at hget; cases hget
    by_cases hij : i = j
    · subst hij
      rw [proj_cons_self, ih, hget]
      simp [List.getElem?_set_self hi]
    · rw [proj_cons_ne j i s sched hij, ih, List.getElem?_set_ne hij]

theorem seqSched_interleaving (ps pre : List (List GStep)) (hpre : ∀ p ∈ pre, p = []) :
    Interleaving (pre ++ ps) (seqSched pre.length ps) := by
  induction ps generalizing pre with
  | nil => exact .done _ (by simpa using hpre)
  | cons p ps ih =>
    induction p with
    | nil =>
      simp only [seqSched, List.map_nil, List.nil_append]
      have := ih (pre ++ [[]]) (by
        intro p hp; simp at hp; cases hp with
        | inl h => exact hpre p h
        | inr h => exact h)
      simpa using this
    | cons s rest ihp =>
      simp only [seqSched, List.map_cons, List.cons_append]
      refine .step _ pre.length s rest _ (by simp) ?_
      simpa [seqSched] using ihp

theorem mergeBy_interleaving (is : List Nat) (progs : List (List GStep)) :
    Interleaving progs (mergeBy is progs) := by
  induction is generalizing progs with
  | nil => simpa [mergeBy] using seqSched_interleaving progs [] (by simp)
  | cons i is ih =>
    simp only [mergeBy]
    split
    · next s rest h => exact .step _ i s rest _ h (ih _)
    · exact ih _

end Kmip.Placeholder
