/-
  C10 — a client call only ever receives the response to its own request.

  System: `Kmip.CliConn.sys current` (model of kmipclient/conn.go + client.go as they are now): any number
  of serialised callers, a server that answers after any delay or never, I/O faults at any point,
  cancellation of the caller's context at any step, `Close()` concurrent with everything. Messages are
  coloured *cur* / *stale* (see the header of `Model/CliConn.lean` for the abstraction and why it is
  sound). The theorems are consequences of a kernel-checked inductive invariant (the certificate
  `Gen.CertCliConn.certCurrent`, 15 778 states, closed under `step`), so they hold for runs of any length
  and every interleaving of the modelled steps.

  What is proved is a property of the modelled state machine under the encoded semantics of channels,
  `select`, contexts and atomics. That the real code behaves like the model (Go scheduler, net.Conn) is
  what the `lts.cli` engine of the harness observes.

-/
import KmipModel.Lemmas.CliCert
namespace Kmip.C10
open Kmip.CliLts Kmip.CliConn Kmip.Gen.CertCliConn

/-- the certificate contains the initial state and is closed under the successor function
    (16 kernel-evaluated parts, `Lemmas/CliCertCur*.lean`). -/
theorem cliconn_closed : closedUnder (sys current) codec certCurrent := CliCert.current_closed

/-- no state of the certificate is bad. -/
theorem cliconn_safe : safeOn codec (bad current) certCurrent := CliCert.current_safe

/-- 1. No call is ever handed a response that belongs to an abandoned (earlier) exchange: the ghost
    `stale`, set by exactly the `rx` hand-off of a stale token (`delivery_of_stale_is_flagged`), is
    never set. -/
theorem no_stale_delivery {s : St} (h : Reachable (sys current) s) : s.stale = false :=
  (CliCert.bad_false (CliCert.current_inv h)).1

/-- 2. A connection on which an exchange has been abandoned after its request was handed to the writer
    never carries a later exchange: no request is handed to the writer of a tainted connection. -/
theorem abandoned_conn_not_reused {s : St} (h : Reachable (sys current) s) : s.reused = false :=
  (CliCert.bad_false (CliCert.current_inv h)).2.1

/-- 3. The bound "one stale token per connection" of the model is never exceeded (it loses nothing). -/
theorem one_stale_token_suffices {s : St} (h : Reachable (sys current) s) : s.overflow = false :=
  (CliCert.bad_false (CliCert.current_inv h)).2.2.1

/-! ### the ghosts mean what they say -/

/-- whenever the caller is in `recv`'s select and the reader holds a stale response, the hand-off is a
    possible step, it makes the call return a response, and it is flagged. -/
theorem delivery_of_stale_is_flagged (p : Params) (s : St) (hk : s.kp = .k6) (hr : s.rp = .r2s) :
    ∃ t ∈ stepK p s, t.stale = true ∧ t.kp = .retOk := by
  refine ⟨kResult { s with rp := .r0, stale := true } 0, ?_, rfl, rfl⟩
  simp [stepK, hk, hr]

/-- handing a request to the writer of a tainted connection is flagged. -/
theorem reuse_is_flagged (p : Params) (s : St) (hk : s.kp = .k3o) (hw : s.wp = .ws) (ht : s.tainted = true) :
    ∃ t ∈ stepK p s, t.reused = true ∧ t.kp = .k4 := by
  refine ⟨{ s with wp := .w1c, kp := .k4, errCh := 0, ntx := min 5 (s.ntx + 1),
                   reused := s.reused || s.tainted }, ?_, by simp [ht], rfl⟩
  simp [stepK, hk, hw]

/-! ### non-vacuity: calls do complete, and stale tokens do exist -/

/-- a call that gets its own response (dial, send, server answers, read, hand-off). -/
example : ∃ s, Reachable (sys current) s ∧ s.kp = .retOk ∧ s.stale = false :=
  ⟨endOf (sys current) [0, 0, 0, 0, 0, 0, 0, 0, 0, 0, 2, 0, 0, 3, 0, 0],
    reachable_endOf _ (by decide +kernel), by decide +kernel, by decide +kernel⟩

/-- a call is cancelled between send and receive: the connection is tainted, its context cancelled,
    and the late response is in the system as a stale token. -/
example : ∃ s, Reachable (sys current) s ∧ s.tainted = true ∧ s.cause ≠ 0 ∧ hasStale s = true :=
  ⟨endOf (sys current) [0, 0, 0, 0, 0, 0, 0, 1, 0, 1, 0, 0],
    reachable_endOf _ (by decide +kernel), by decide +kernel, by decide +kernel, by decide +kernel⟩

/-! ### the behaviour before the repairs -/

/-- the code before aa61431 (`recv` returns the context error from its availability check without
    terminating the connection). -/
def beforeRecvFix : Params := { current with recvCheckTearsDown := false }

/-- Before aa61431 a stale response IS delivered: call 1 is cancelled between `send` and `recv`, the
    connection stays in use, call 2 sends on it and receives the response to call 1. -/
theorem old_recv_check_delivers_stale : ∃ s, Reachable (sys beforeRecvFix) s ∧ s.stale = true :=
  ⟨endOf (sys beforeRecvFix)
      [0, 0, 0, 0, 0, 0, 0, 0, 0, 0, 0, 2, 0, 0, 0, 0, 0, 0, 0, 0, 0, 0, 2, 0, 2, 0, 0, 0],
    reachable_endOf _ (by decide +kernel), by decide +kernel⟩

/-- … and the connection of the abandoned exchange is used for the next exchange. -/
theorem old_recv_check_reuses_conn : ∃ s, Reachable (sys beforeRecvFix) s ∧ s.reused = true :=
  ⟨endOf (sys beforeRecvFix) [0, 0, 0, 0, 0, 0, 0, 1, 0, 1, 3, 0, 0, 0, 1, 1, 0, 0, 0, 0, 0],
    reachable_endOf _ (by decide +kernel), by decide +kernel⟩

end Kmip.C10
