/-
  C01 — "equal in content": the normalisation only identifies nil and empty byte strings.
-/
import KmipModel.Lemmas.PlanRoundtrip16
namespace Kmip

mutual
  theorem ContentEq.refl : (v : Val) → ContentEq v v
    | .int a => by rw [ContentEq]
    | .bool a => by rw [ContentEq]
    | .text a => by rw [ContentEq]
    | .bytes a => by rw [ContentEq]
    | .big a => by rw [ContentEq]
    | .struct fs => by rw [ContentEq]; exact ContentEqList.refl fs
    | .ptr none => by rw [ContentEq]; trivial
    | .ptr (some a) => by rw [ContentEq]; exact ContentEq.refl a
    | .list xs => by rw [ContentEq]; exact ContentEqList.refl xs
    | .iface none => by rw [ContentEq]; trivial
    | .iface (some (d, a)) => by rw [ContentEq]; exact ⟨rfl, ContentEq.refl a⟩
    | .any a => by rw [ContentEq]
    | .anyStruct a => by rw [ContentEq]
  theorem ContentEqList.refl : (l : List Val) → ContentEqList l l
    | [] => by rw [ContentEqList]; trivial
    | x :: xs => by rw [ContentEqList]; exact ⟨ContentEq.refl x, ContentEqList.refl xs⟩
end

theorem normBid_getD (bid : Option Bytes) : (normBid bid).getD [] = bid.getD [] := by
  cases bid with
  | none => rfl
  | some b =>
    simp only [normBid]
    by_cases hb : b.isEmpty = true
    · have : b = [] := by simpa using hb
      simp [hb, this]
    · simp [hb]

def CK (S : Schema) (n : Nat) : Prop :=
  ∀ k tag v ver v' w, normK S n k tag v ver = some (v', w) → ContentEq v v'
def CSlice (S : Schema) (n : Nat) : Prop :=
  ∀ k tag xs ver xs' w, normSlice S n k tag xs ver = some (xs', w) → ContentEqList xs xs'
def CFields (S : Schema) (n : Nat) : Prop :=
  ∀ fs vs ver vs' w, normFields S n fs vs ver = some (vs', w) → ContentEqList vs vs'
def CCustom (S : Schema) (n : Nat) : Prop :=
  ∀ code tag v ver v' w, normCustom S n code tag v ver = some (v', w) → ContentEq v v'
def CSame (S : Schema) (n : Nat) : Prop :=
  ∀ ks tag xs ver xs' w, normSameTag S n ks tag xs ver = some (xs', w) → ContentEqList xs xs'

theorem ck_succ (S : Schema) (n : Nat) (hK : CK S n) (hSl : CSlice S n) (hF : CFields S n)
    (hC : CCustom S n) : CK S (n + 1) := by
  intro k tag v ver v' w h
  by_cases hs : k.scalar = true
  · -- scalars: identical, except a nil byte string that becomes empty
    cases k <;> simp only [Kind.scalar] at hs <;> try contradiction
    all_goals (cases v <;> simp only [normK] at h <;> try contradiction)
    case bytes.bytes b =>
      obtain ⟨rfl, -⟩ := pair_eq (Option.some.inj h)
      rw [ContentEq]; simp
    all_goals first
      | (obtain ⟨_, e⟩ := ite_some_eq h; obtain ⟨rfl, -⟩ := pair_eq e; exact ContentEq.refl _)
      | (obtain ⟨rfl, -⟩ := pair_eq (Option.some.inj h); exact ContentEq.refl _)
  · cases k <;> simp only [Kind.scalar, not_true_eq_false] at hs
    case any =>
      rw [normK_any] at h
      split at h
      · obtain ⟨_, e⟩ := ite_some_eq h; obtain ⟨rfl, -⟩ := pair_eq e; exact ContentEq.refl _
      · contradiction
    case anyStruct =>
      rw [normK_anyStruct] at h
      split at h
      · obtain ⟨rfl, -⟩ := pair_eq (Option.some.inj h); exact ContentEq.refl _
      · contradiction
    case ptr k' =>
      rw [normK_ptr] at h
      split at h
      · obtain ⟨rfl, -⟩ := pair_eq (Option.some.inj h); exact ContentEq.refl _
      · rename_i x
        obtain ⟨_, h⟩ := ite_eq_some h
        cases hx : normK S n k' tag x ver with
        | none => simp only [hx] at h; contradiction
        | some p =>
          obtain ⟨x', w1⟩ := p
          simp only [hx] at h
          obtain ⟨rfl, -⟩ := pair_eq (Option.some.inj h)
          rw [ContentEq]; exact hK _ _ _ _ _ _ hx
      · contradiction
    case slice k' =>
      rw [normK_slice] at h
      split at h
      · rename_i xs
        obtain ⟨_, h⟩ := ite_eq_some h
        cases hx : normSlice S n k' tag xs ver with
        | none => simp only [hx] at h; contradiction
        | some p =>
          obtain ⟨xs', w1⟩ := p
          simp only [hx] at h
          obtain ⟨rfl, -⟩ := pair_eq (Option.some.inj h)
          rw [ContentEq]; exact hSl _ _ _ _ _ _ hx
      · contradiction
    case iface =>
      rw [normK_iface] at h
      split at h
      · obtain ⟨rfl, -⟩ := pair_eq (Option.some.inj h); exact ContentEq.refl _
      · rename_i d x
        obtain ⟨_, h⟩ := ite_eq_some h
        cases hx : normK S n (S.dyn d).kind tag x ver with
        | none => simp only [hx] at h; contradiction
        | some p =>
          obtain ⟨x', w1⟩ := p
          simp only [hx] at h
          obtain ⟨rfl, -⟩ := pair_eq (Option.some.inj h)
          rw [ContentEq]; exact ⟨rfl, hK _ _ _ _ _ _ hx⟩
      · contradiction
    case struct id =>
      rw [normK_struct] at h
      split at h
      · rename_i fs
        by_cases hec : (S.structDef id).encCustom = true
        · simp only [hec, if_true] at h
          exact hC _ _ _ _ _ _ h
        · simp only [hec, Bool.false_eq_true, if_false] at h
          cases hx : normFields S n (S.structDef id).fields fs ver with
          | none => simp only [hx] at h; contradiction
          | some p =>
            obtain ⟨fs', w1⟩ := p
            simp only [hx] at h
            obtain ⟨_, e⟩ := ite_some_eq h
            obtain ⟨rfl, -⟩ := pair_eq e
            rw [ContentEq]; exact hF _ _ _ _ _ hx
      · contradiction
    all_goals (rw [normK.eq_def] at h; simp at h)

theorem cslice_succ (S : Schema) (n : Nat) (hK : CK S n) (hSl : CSlice S n) : CSlice S (n + 1) := by
  intro k tag xs ver xs' w h
  cases xs with
  | nil =>
    rw [normSlice_nil] at h
    obtain ⟨rfl, -⟩ := pair_eq (Option.some.inj h)
    rw [ContentEqList]; trivial
  | cons x xs =>
    rw [normSlice_cons] at h
    cases hx : normK S n k tag x ver with
    | none => simp only [hx] at h; contradiction
    | some p =>
      obtain ⟨x', w1⟩ := p
      simp only [hx] at h
      cases hxs : normSlice S n k tag xs w1 with
      | none => simp only [hxs] at h; contradiction
      | some q =>
        obtain ⟨xs1, w2⟩ := q
        simp only [hxs] at h
        obtain ⟨rfl, -⟩ := pair_eq (Option.some.inj h)
        rw [ContentEqList]; exact ⟨hK _ _ _ _ _ _ hx, hSl _ _ _ _ _ _ hxs⟩

theorem cfields_succ (S : Schema) (n : Nat) (hK : CK S n) (hF : CFields S n) : CFields S (n + 1) := by
  intro fs vs ver vs' w h
  cases fs with
  | nil =>
    cases vs with
    | nil =>
      rw [normFields_nil] at h
      obtain ⟨rfl, -⟩ := pair_eq (Option.some.inj h)
      rw [ContentEqList]; trivial
    | cons v vs => rw [normFields_nil_cons] at h; contradiction
  | cons f fs =>
    cases vs with
    | nil => rw [normFields_cons_nil] at h; contradiction
    | cons v vs =>
      rw [normFields_cons] at h
      by_cases hs : f.skip v (f.ver1 v ver) = true
      · simp only [hs, if_true] at h
        obtain ⟨_, h⟩ := ite_eq_some h
        cases hr : normFields S n fs vs (f.ver1 v ver) with
        | none => simp only [hr] at h; contradiction
        | some p =>
          obtain ⟨vs1, w1⟩ := p
          simp only [hr] at h
          obtain ⟨rfl, -⟩ := pair_eq (Option.some.inj h)
          rw [ContentEqList]; exact ⟨ContentEq.refl v, hF _ _ _ _ _ hr⟩
      · have hs' : f.skip v (f.ver1 v ver) = false := by simpa using hs
        simp only [hs', Bool.false_eq_true, if_false] at h
        cases hx : normK S n f.kind (f.etag S v) v (f.ver1 v ver) with
        | none => simp only [hx] at h; contradiction
        | some p =>
          obtain ⟨v', w1⟩ := p
          simp only [hx] at h
          cases hr : normFields S n fs vs w1 with
          | none => simp only [hr] at h; contradiction
          | some q =>
            obtain ⟨vs1, w2⟩ := q
            simp only [hr] at h
            obtain ⟨rfl, -⟩ := pair_eq (Option.some.inj h)
            rw [ContentEqList]; exact ⟨hK _ _ _ _ _ _ hx, hF _ _ _ _ _ hr⟩

theorem csame_succ (S : Schema) (n : Nat) (hK : CK S n) (hSm : CSame S n) : CSame S (n + 1) := by
  intro ks tag xs ver xs' w h
  cases ks with
  | nil => rw [normSameTag_nil] at h; contradiction
  | cons k ks =>
  cases xs with
  | nil => rw [normSameTag_cons_nil] at h; contradiction
  | cons x xs =>
  rw [normSameTag_cons] at h
  split at h
  · rename_i k0
    split at h
    · cases hr : normSameTag S n ks tag xs ver with
      | none => simp only [hr] at h; contradiction
      | some p =>
        obtain ⟨xs1, w1⟩ := p
        simp only [hr] at h
        obtain ⟨rfl, -⟩ := pair_eq (Option.some.inj h)
        rw [ContentEqList]; exact ⟨ContentEq.refl _, hSm _ _ _ _ _ _ hr⟩
    · rename_i y
      obtain ⟨_, h⟩ := ite_eq_some h
      cases hx : normK S n (.ptr k0) tag (.ptr (some y)) ver with
      | none => simp only [hx] at h; contradiction
      | some p =>
        obtain ⟨x', w1⟩ := p
        simp only [hx] at h
        obtain ⟨rfl, -⟩ := pair_eq (Option.some.inj h)
        rw [ContentEqList]; exact ⟨hK _ _ _ _ _ _ hx, ContentEqList.refl xs⟩
    · contradiction
  · contradiction

theorem ccustom_succ (S : Schema) (n : Nat) (hK : CK S n) (hSm : CSame S n) : CCustom S (n + 1) := by
  intro code tag v ver v' w h
  by_cases c1 : code = Cust.requestBatchItem
  · subst c1
    rw [normCustom_request] at h
    split at h
    · rename_i op bid d x me
      obtain ⟨_, h⟩ := ite_eq_some h
      cases hpl : normK S n .iface T.requestPayload (.iface (some (d, x))) ver with
      | none => simp only [hpl] at h; contradiction
      | some p =>
      obtain ⟨pl', ver1⟩ := p
      simp only [hpl] at h
      cases hme : normK S n (.ptr (.struct (msgExtId S))) T.messageExtension me ver1 with
      | none => simp only [hme] at h; contradiction
      | some q =>
      obtain ⟨me', ver2⟩ := q
      simp only [hme] at h
      obtain ⟨rfl, -⟩ := pair_eq (Option.some.inj h)
      rw [ContentEq]
      simp only [ContentEqList, and_true]
      refine ⟨by rw [ContentEq], by rw [ContentEq, normBid_getD], hK _ _ _ _ _ _ hpl, hK _ _ _ _ _ _ hme⟩
    · contradiction
  by_cases c2 : code = Cust.responseBatchItem
  · subst c2
    rw [normCustom_response'] at h
    split at h
    · rename_i op bid st rs msg acv pl me
      obtain ⟨_, h⟩ := ite_eq_some h
      cases hpl : normK S n .iface T.responsePayload pl ver with
      | none => simp only [hpl] at h; contradiction
      | some p =>
      obtain ⟨pl', ver1⟩ := p
      simp only [hpl] at h
      cases hme : normK S n (.ptr (.struct (msgExtId S))) T.messageExtension me ver1 with
      | none => simp only [hme] at h; contradiction
      | some q =>
      obtain ⟨me', ver2⟩ := q
      simp only [hme] at h
      obtain ⟨rfl, -⟩ := pair_eq (Option.some.inj h)
      rw [ContentEq]
      simp only [ContentEqList, and_true]
      refine ⟨by rw [ContentEq], by rw [ContentEq, normBid_getD], by rw [ContentEq], by rw [ContentEq],
        by rw [ContentEq], by rw [ContentEq, normBid_getD], hK _ _ _ _ _ _ hpl, hK _ _ _ _ _ _ hme⟩
    · contradiction
  by_cases c5 : code = Cust.unknownPayload
  · subst c5
    rw [normCustom_unknown] at h
    split at h
    · obtain ⟨rfl, -⟩ := pair_eq (Option.some.inj h); exact ContentEq.refl _
    · contradiction
  by_cases cu : isUnionCode code
  · rw [normCustom_union S n code tag cu] at h
    split at h
    · rename_i fs
      cases hx : normSameTag S n (customFieldKinds S code) tag fs ver with
      | none => simp only [hx] at h; contradiction
      | some p =>
        obtain ⟨fs', w1⟩ := p
        simp only [hx] at h
        obtain ⟨rfl, -⟩ := pair_eq (Option.some.inj h)
        rw [ContentEq]; exact hSm _ _ _ _ _ _ hx
    · contradiction
  · exfalso
    rw [normCustom.eq_def] at h
    simp only [isUnionCode] at cu
    simp only [c1, c2, c5, cu, if_false] at h
    contradiction

theorem call (S : Schema) (n : Nat) : CK S n ∧ CSlice S n ∧ CFields S n ∧ CCustom S n ∧ CSame S n := by
  induction n with
  | zero =>
    refine ⟨?_, ?_, ?_, ?_, ?_⟩
    · intro k tag v ver v' w h; rw [normK_zero] at h; contradiction
    · intro k tag xs ver xs' w h; rw [normSlice_zero] at h; contradiction
    · intro fs vs ver vs' w h; rw [normFields_zero] at h; contradiction
    · intro code tag v ver v' w h; rw [normCustom_zero] at h; contradiction
    · intro ks tag xs ver xs' w h; rw [normSameTag_zero] at h; contradiction
  | succ n ih =>
    obtain ⟨hK, hSl, hF, hC, hSm⟩ := ih
    exact ⟨ck_succ S n hK hSl hF hC, cslice_succ S n hK hSl, cfields_succ S n hK hF,
      ccustom_succ S n hK hSm, csame_succ S n hK hSm⟩

/-- the normalisation preserves the content: it only identifies nil and empty byte strings. -/
theorem norm_content_aux (S : Schema) (d tag : Nat) (v : Val) : ContentEq v (norm S d tag v) := by
  unfold norm
  split
  · rename_i v' w h
    unfold normTop at h
    obtain ⟨_, h⟩ := ite_eq_some h
    exact (call S marshalFuel).1 _ _ _ _ _ _ h
  · exact ContentEq.refl v

end Kmip
