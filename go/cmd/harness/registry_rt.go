package main

// C17, registrations made at RUN TIME through the public API (ttlv.RegisterTag / RegisterEnum / RegisterBitmask).
//
// "Every registered tag, enumeration value and bit-mask flag has exactly one canonical name and every name denotes
// exactly one number within its scope, so whatever the XML, JSON and text forms write by name is read back as the
// same number": the registries are OPEN - the three registration functions are exported so that an application can
// add vendor values to a standard enumeration (extension range 8XXXXXXX), values of a later KMIP version, vendor
// flags, or whole extension tags (54XXXX). The init-time content of the registries is what the Lean tables are
// regenerated from and what the rest of the registry engine walks; the library registers every tag exactly once
// there, so nothing at init time shows what a SECOND or THIRD registration on the same tag does to the entries
// that were already there. That is checked here, on the real code only, in a CHILD PROCESS (this binary re-executed
// with VERIF_C17_RT_CHILD set) so that the registrations cannot leak into any other engine, nor into the tables the
// model is instantiated with.
//
// The child keeps an independent REFERENCE of what the registries must hold (the dump taken before the first
// registration, then the union with every pair handed to a Register* call) and only makes CONSISTENT calls: a
// number is never given two names nor a name two numbers within one scope (what an inconsistent call should do is
// not the library's promise - the one "renaming" sequence at the end is judged on write -> read only). Calls:
//   - every one of the library's enumerations, through its own Go type: a vendor value; an existing pair registered
//     again together with a new value whose NAME every other enumeration also receives, with another number; more
//     new pairs than the table holds; an empty map; a nil map; the whole current table registered again plus 0xFFFFFFFF;
//   - enumerations of the harness on fresh extension tags: in several instalments, value 0 and the top bit, a name
//     another enumeration owns, type first and values later, RegisterEnum before / without RegisterTag;
//   - both of the library's masks and masks of the harness: the same list again, the list extended (twice);
//   - tags: the library's own (name, number) pairs again, fresh extension tags three times, with and without types.
// After EVERY call: the dump (forward and reverse maps separately, the three Go-type maps) equals the reference,
// for every tag / enumeration / mask, touched or not; every entry of the touched table, old and new, is answered
// by the public functions in both directions (EnumName / EnumByName, BitmaskByStr / AppendBitmaskString, TagString
// and the readers' tag resolution), written by name by the XML / JSON / text writers, read back by the XML / JSON
// readers from what the writers wrote and from hand-written documents, MarshalText / UnmarshalText and
// Encoder.TagAny / Decoder.TagAny of the Go type, the public enumerators list exactly the reference; a name never
// registered is refused. At check points (after each family of calls) the registry-wide oracles of registry.go run
// over the WHOLE registry as it then is.

import (
	"bytes"
	"encoding"
	"encoding/json"
	"fmt"
	"os"
	"os/exec"
	"reflect"
	"sort"
	"strconv"
	"strings"
	"time"

	kmip "github.com/ovh/kmip-go"
	"github.com/ovh/kmip-go/ttlv"

	"verifharness/internal/report"
	"verifharness/internal/rng"
)

const regRtChildEnv = "VERIF_C17_RT_CHILD"

func init() {
	if os.Getenv(regRtChildEnv) != "" {
		regRtChildMain()
		os.Exit(0)
	}
}

type regRtOut struct {
	Cases      []Case
	Violations []report.Violation
	Dist       map[string]int
	Fail       []string
	Done       bool
}

// ---- the Go types of the harness (registered at run time, in the child only) -------------------------------------

const (
	rtTagEnumA  = 0x540A01
	rtTagEnumB  = 0x540A02
	rtTagEnumC  = 0x540A03
	rtTagEnumR  = 0x540A04
	rtTagMaskA  = 0x540A11
	rtTagMaskB  = 0x540A12
	rtTagPlain  = 0x540A20
	rtTagPlain2 = 0x540A21
)

type (
	rtEnumA uint32
	rtEnumB uint32
	rtEnumC uint32
	rtEnumR uint32
	rtMaskA int32
	rtMaskB int32
)

func rtEnumMarshal[T ~uint32](v T) ([]byte, error) { return []byte(ttlv.EnumStr(v)), nil }

func rtEnumUnmarshal[T ~uint32](dst *T, tag int, text string) error {
	if strings.HasPrefix(text, "0x") {
		n, err := strconv.ParseUint(text[2:], 16, 32)
		if err != nil {
			return err
		}
		*dst = T(n)
		return nil
	}
	n, err := ttlv.EnumByName(tag, text)
	if err != nil {
		return err
	}
	*dst = T(n)
	return nil
}

func rtMaskUnmarshal[T ~int32](dst *T, tag int, text string) error {
	*dst = 0
	for _, part := range strings.Split(text, "|") {
		part = strings.TrimSpace(part)
		if part == "" {
			continue
		}
		if strings.HasPrefix(part, "0x") {
			n, err := strconv.ParseUint(part[2:], 16, 32)
			if err != nil {
				return err
			}
			*dst |= T(int32(uint32(n)))
			continue
		}
		n, err := ttlv.BitmaskByStr(tag, part)
		if err != nil {
			return err
		}
		*dst |= T(n)
	}
	return nil
}

func (v rtEnumA) MarshalText() ([]byte, error)  { return rtEnumMarshal(v) }
func (v *rtEnumA) UnmarshalText(b []byte) error { return rtEnumUnmarshal(v, rtTagEnumA, string(b)) }
func (v rtEnumB) MarshalText() ([]byte, error)  { return rtEnumMarshal(v) }
func (v *rtEnumB) UnmarshalText(b []byte) error { return rtEnumUnmarshal(v, rtTagEnumB, string(b)) }
func (v rtEnumC) MarshalText() ([]byte, error)  { return rtEnumMarshal(v) }
func (v *rtEnumC) UnmarshalText(b []byte) error { return rtEnumUnmarshal(v, rtTagEnumC, string(b)) }
func (v rtEnumR) MarshalText() ([]byte, error)  { return rtEnumMarshal(v) }
func (v *rtEnumR) UnmarshalText(b []byte) error { return rtEnumUnmarshal(v, rtTagEnumR, string(b)) }
func (v rtMaskA) MarshalText() ([]byte, error)  { return []byte(ttlv.BitmaskStr(v, " | ")), nil }
func (v *rtMaskA) UnmarshalText(b []byte) error { return rtMaskUnmarshal(v, rtTagMaskA, string(b)) }
func (v rtMaskB) MarshalText() ([]byte, error)  { return []byte(ttlv.BitmaskStr(v, " | ")), nil }
func (v *rtMaskB) UnmarshalText(b []byte) error { return rtMaskUnmarshal(v, rtTagMaskB, string(b)) }

// rtEnumReg: ttlv.RegisterEnum instantiated for one Go type (generic functions cannot be reached by reflection).
type rtEnumReg struct {
	ty  reflect.Type
	reg func(tag int, pairs map[uint32]string, nilMap bool)
}

func rtReg[T ~uint32]() rtEnumReg {
	return rtEnumReg{reflect.TypeFor[T](), func(tag int, pairs map[uint32]string, nilMap bool) {
		if nilMap {
			ttlv.RegisterEnum[T](tag, nil)
			return
		}
		m := make(map[T]string, len(pairs))
		for v, n := range pairs {
			m[T(v)] = n
		}
		ttlv.RegisterEnum(tag, m)
	}}
}

type rtMaskReg struct {
	ty  reflect.Type
	reg func(tag int, names []string)
}

func rtRegMask[T ~int32]() rtMaskReg {
	return rtMaskReg{reflect.TypeFor[T](), func(tag int, names []string) { ttlv.RegisterBitmask[T](tag, names...) }}
}

// rtLibEnums: the enumeration types of the API. Not a reference: the tag of each comes from the library's own
// ttlv.enums (dump); a type the library no longer registers is skipped and counted.
var rtLibEnums = []rtEnumReg{
	rtReg[kmip.ResultStatus](), rtReg[kmip.ResultReason](), rtReg[kmip.CredentialType](), rtReg[kmip.RevocationReasonCode](),
	rtReg[kmip.BatchErrorContinuationOption](), rtReg[kmip.NameType](), rtReg[kmip.ObjectType](), rtReg[kmip.OpaqueDataType](),
	rtReg[kmip.State](), rtReg[kmip.CryptographicAlgorithm](), rtReg[kmip.BlockCipherMode](), rtReg[kmip.PaddingMethod](),
	rtReg[kmip.HashingAlgorithm](), rtReg[kmip.KeyRoleType](), rtReg[kmip.RecommendedCurve](), rtReg[kmip.SecretDataType](),
	rtReg[kmip.KeyFormatType](), rtReg[kmip.KeyCompressionType](), rtReg[kmip.WrappingMethod](), rtReg[kmip.CertificateType](),
	rtReg[kmip.LinkType](), rtReg[kmip.QueryFunction](), rtReg[kmip.UsageLimitsUnit](), rtReg[kmip.CancellationResult](),
	rtReg[kmip.PutFunction](), rtReg[kmip.CertificateRequestType](), rtReg[kmip.SplitKeyMethod](), rtReg[kmip.ObjectGroupMember](),
	rtReg[kmip.EncodingOption](), rtReg[kmip.DigitalSignatureAlgorithm](), rtReg[kmip.AttestationType](),
	rtReg[kmip.AlternativeNameType](), rtReg[kmip.KeyValueLocationType](), rtReg[kmip.ValidityIndicator](), rtReg[kmip.RNGAlgorithm](),
	rtReg[kmip.DRBGAlgorithm](), rtReg[kmip.FIPS186Variation](), rtReg[kmip.ProfileName](), rtReg[kmip.ValidationAuthorityType](),
	rtReg[kmip.ValidationType](), rtReg[kmip.UnwrapMode](), rtReg[kmip.DestroyAction](), rtReg[kmip.ShreddingAlgorithm](),
	rtReg[kmip.RNGMode](), rtReg[kmip.ClientRegistrationMethod](), rtReg[kmip.MaskGenerator](), rtReg[kmip.KeyWrapType](),
	rtReg[kmip.Operation](),
}

var rtLibMasks = []rtMaskReg{rtRegMask[kmip.CryptographicUsageMask](), rtRegMask[kmip.StorageStatusMask]()}

// ---- the child ------------------------------------------------------------------------------------------------------

type rtEnv struct {
	ctx   *Ctx
	res   *report.Result // the child's result (ctx.Res is swapped for a scratch result during a step)
	e     *regEnv
	want  *liveTables         // the reference
	hist  map[string][]string // "kind:tag" -> the calls made so far
	kept  int
	steps int
}

const rtNever = "VerifNeverRegistered"

func rtLabel(w *liveTables, tag int) string {
	if n, ok := w.tags[tag]; ok {
		return n
	}
	return fmt.Sprintf("0x%06X", tag)
}

func rtPairs(pairs map[uint32]string) string {
	ks := make([]uint32, 0, len(pairs))
	for k := range pairs {
		ks = append(ks, k)
	}
	sort.Slice(ks, func(i, j int) bool { return ks[i] < ks[j] })
	var b strings.Builder
	b.WriteString("{")
	for i, k := range ks {
		if i == 6 && len(ks) > 8 {
			fmt.Fprintf(&b, ", ... %d pairs in all", len(ks))
			break
		}
		if i > 0 {
			b.WriteString(", ")
		}
		fmt.Fprintf(&b, "0x%X: %q", k, pairs[k])
	}
	b.WriteString("}")
	return b.String()
}

// diffMap describes how got differs from want ("" when equal).
func diffMap[K comparable, V comparable](want, got map[K]V, show func(K, V) string) string {
	var missing, extra, other []string
	for k, v := range want {
		g, ok := got[k]
		switch {
		case !ok:
			missing = append(missing, show(k, v))
		case g != v:
			other = append(other, show(k, v)+" is "+show(k, g))
		}
	}
	for k, v := range got {
		if _, ok := want[k]; !ok {
			extra = append(extra, show(k, v))
		}
	}
	if len(missing)+len(extra)+len(other) == 0 {
		return ""
	}
	sort.Strings(missing)
	sort.Strings(extra)
	sort.Strings(other)
	part := func(what string, l []string) string {
		if len(l) == 0 {
			return ""
		}
		return fmt.Sprintf(" %d %s (first: %s)", len(l), what, l[0])
	}
	return fmt.Sprintf("%d entries expected, %d present:%s%s%s", len(want), len(got), part("missing", missing), part("unexpected", extra), part("changed", other))
}

func showNum(v uint32, n string) string  { return fmt.Sprintf("(0x%X, %q)", v, n) }
func showName(n string, v uint32) string { return fmt.Sprintf("(%q, 0x%X)", n, v) }

// compareTables: the dump equals the reference - every table, forward and reverse separately.
func (x *rtEnv) compareTables(line string) {
	ctx, w := x.ctx, x.want
	g := indexDump(ttlv.VerifDumpRegistry())
	bad := func(table, scope, d string) {
		if d != "" {
			x.e.violate(ctx, "C17", "runtime-registration-tables", "tables:"+table+":"+scope, fmt.Sprintf("%s of %s: %s", table, scope, d), line)
		}
	}
	bad("tagNames", "tags", diffMap(w.tags, g.tags, func(k int, v string) string { return fmt.Sprintf("(0x%06X, %q)", k, v) }))
	bad("tagByName", "tags", diffMap(w.tagsByName, g.tagsByName, func(k string, v int) string { return fmt.Sprintf("(%q, 0x%06X)", k, v) }))
	tags := map[int]bool{}
	for t := range w.enums {
		tags[t] = true
	}
	for t := range w.enumsByName {
		tags[t] = true
	}
	for t := range g.enums {
		tags[t] = true
	}
	for t := range g.enumsByName {
		tags[t] = true
	}
	for _, t := range sortedInts(tags) {
		bad("enumNames", rtLabel(w, t), diffMap(w.enums[t], g.enums[t], showNum))
		bad("enumsByName", rtLabel(w, t), diffMap(w.enumsByName[t], g.enumsByName[t], showName))
	}
	tags = map[int]bool{}
	for t := range w.masks {
		tags[t] = true
	}
	for t := range g.masks {
		tags[t] = true
	}
	for t := range g.masksByName {
		tags[t] = true
	}
	for _, t := range sortedInts(tags) {
		if !reflect.DeepEqual(append([]string{}, w.masks[t]...), append([]string{}, g.masks[t]...)) {
			bad("bitmaskNames", rtLabel(w, t), fmt.Sprintf("expected %q, present %q", w.masks[t], g.masks[t]))
		}
		bad("bitmaskByName", rtLabel(w, t), diffMap(w.masksByName[t], g.masksByName[t], showName))
	}
	showTy := func(k string, v int) string { return fmt.Sprintf("(%s, 0x%06X)", k, v) }
	bad("enums(types)", "types", diffMap(w.enumTypes, g.enumTypes, showTy))
	bad("bitmasks(types)", "types", diffMap(w.maskTypes, g.maskTypes, showTy))
	bad("tagByType", "types", diffMap(w.typeTags, g.typeTags, showTy))
}

func sortedU32[V any](m map[uint32]V) []uint32 {
	ks := make([]uint32, 0, len(m))
	for k := range m {
		ks = append(ks, k)
	}
	sort.Slice(ks, func(i, j int) bool { return ks[i] < ks[j] })
	return ks
}

func sortedStr[V any](m map[string]V) []string {
	ks := make([]string, 0, len(m))
	for k := range m {
		ks = append(ks, k)
	}
	sort.Strings(ks)
	return ks
}

// checkEnum: every entry of the reference table of one enumeration, through everything that reads or writes it.
func (x *rtEnv) checkEnum(tag int, line string) {
	ctx, e, w := x.ctx, x.e, x.want
	tn := rtLabel(w, tag)
	fw, rv := w.enums[tag], w.enumsByName[tag]
	ty, typed := e.enumType[tag]
	for _, v := range sortedU32(fw) {
		name := fw[v]
		ctx.Res.Count("rt.enum.entry")
		if got := ttlv.EnumName(tag, v); got != name {
			e.violate(ctx, "C17", "enum-bijection", fmt.Sprintf("enum:%s:name", tn), fmt.Sprintf("(0x%X, %q) was registered for %s but EnumName(0x%X) = %q", v, name, tn, v, got), line)
		}
		e.enumRoundTrip(ctx, tag, v, name)
		if typed {
			for _, form := range []string{"xml", "json"} {
				res, p := guard("TagAny "+form, func() string {
					doc := typedEncode(form, tag, newTyped(ty, v))
					if s, _ := writtenValue(form, doc); s != name {
						return fmt.Sprintf("written %s, not by the registered name %q", doc, name)
					}
					ptr := reflect.New(ty)
					if err := typedDecode(form, doc, tag, ptr.Interface()); err != nil {
						return fmt.Sprintf("written %s, reading fails: %v", doc, err)
					}
					if back := typedNumber(ptr); back != v {
						return fmt.Sprintf("written %s, read back as 0x%08X", doc, back)
					}
					return ""
				})
				if p != "" {
					res = "panic " + p
				}
				if res != "" {
					e.violate(ctx, "C17", "typed-enum-roundtrip", fmt.Sprintf("typed:%s:%s", form, tn), fmt.Sprintf("%s(0x%X) under %s, %s: %s", ty, v, tn, form, res), line)
				}
			}
		}
	}
	for _, name := range sortedStr(rv) {
		v := rv[name]
		ctx.Res.Count("rt.enum.name")
		if got, err := ttlv.EnumByName(tag, name); err != nil || got != v {
			e.violate(ctx, "C17", "enum-bijection", fmt.Sprintf("enum:%s:number", tn), fmt.Sprintf("(%q, 0x%X) was registered for %s but EnumByName(%q) = 0x%X (%v)", name, v, tn, name, got, err), line)
		}
		for _, form := range []string{"xml", "json"} {
			res, p := guard("read "+form, func() string {
				var val ttlv.Value
				var err error
				var doc string
				if form == "xml" {
					doc = fmt.Sprintf(`<TTLV tag="0x%06X" type="Enumeration" value="%s"/>`, tag, xmlAttrEscape(name))
					err = ttlv.UnmarshalXML([]byte(doc), &val)
				} else {
					doc = fmt.Sprintf(`{"tag": "0x%06X", "type": "Enumeration", "value": %s}`, tag, jsonString(name))
					err = ttlv.UnmarshalJSON([]byte(doc), &val)
				}
				if err != nil {
					return fmt.Sprintf("%s is refused: %v", doc, err)
				}
				if en, ok := val.Value.(ttlv.Enum); !ok || uint32(en) != v {
					return fmt.Sprintf("%s is read as %v", doc, val.Value)
				}
				return ""
			})
			if p != "" {
				res = "panic " + p
			}
			if res != "" {
				e.violate(ctx, "C17", "enum-read-by-name", fmt.Sprintf("enum:%s:%s:read", form, tn), fmt.Sprintf("(%q, 0x%X) was registered for %s but %s", name, v, tn, res), line)
			}
		}
		if typed {
			res, p := guard("UnmarshalText", func() string {
				ptr := reflect.New(ty)
				if err := ptr.Interface().(encoding.TextUnmarshaler).UnmarshalText([]byte(name)); err != nil {
					return fmt.Sprintf("is refused: %v", err)
				}
				if back := typedNumber(ptr); back != v {
					return fmt.Sprintf("= 0x%08X", back)
				}
				return ""
			})
			if p != "" {
				res = "panic " + p
			}
			if res != "" {
				e.violate(ctx, "C17", "enum-text-roundtrip", fmt.Sprintf("enum:text:%s:read", tn), fmt.Sprintf("(%q, 0x%X) was registered for %s but %s.UnmarshalText(%q) %s", name, v, tn, ty, name, res), line)
			}
		}
	}
	// what was never registered stays unknown
	if _, err := ttlv.EnumByName(tag, rtNever); err == nil {
		e.violate(ctx, "C17", "name-scoped", fmt.Sprintf("enum:%s:never-registered", tn), fmt.Sprintf("EnumByName(%s, %q) succeeds", tn, rtNever), line)
	}
	if _, used := fw[0x7FFFFF01]; !used {
		if got := ttlv.EnumName(tag, 0x7FFFFF01); got != "" {
			e.violate(ctx, "C17", "name-scoped", fmt.Sprintf("enum:%s:never-registered-number", tn), fmt.Sprintf("EnumName(%s, 0x7FFFFF01) = %q", tn, got), line)
		}
	}
	// the public enumerator lists exactly the reference
	got := map[uint32]string{}
	n := 0
	for v, name := range ttlv.EnumValuesByTag(tag) {
		got[v] = name
		n++
	}
	if d := diffMap(fw, got, showNum); d != "" || n != len(got) {
		e.violate(ctx, "C17", "enum-iterator", fmt.Sprintf("iter:EnumValuesByTag:%s", tn), fmt.Sprintf("EnumValuesByTag(%s) yields %d pairs: %s", tn, n, d), line)
	}
}

func (x *rtEnv) checkMask(tag int, line string) {
	ctx, e, w := x.ctx, x.e, x.want
	tn := rtLabel(w, tag)
	names := w.masks[tag]
	for i, name := range names {
		if name == "" || i >= 31 {
			continue
		}
		ctx.Res.Count("rt.mask.flag")
		want := int32(1) << uint(i)
		if got, err := ttlv.BitmaskByStr(tag, name); err != nil || got != want {
			e.violate(ctx, "C17", "mask-bijection", fmt.Sprintf("mask:%s:number", tn), fmt.Sprintf("flag %q was registered at position %d of %s but BitmaskByStr = 0x%X (%v)", name, i, tn, got, err), line)
		}
		if got := string(ttlv.AppendBitmaskString(nil, tag, want, "|")); got != name {
			e.violate(ctx, "C17", "mask-bijection", fmt.Sprintf("mask:%s:name", tn), fmt.Sprintf("flag %q was registered at position %d of %s but 0x%X is written %q", name, i, tn, want, got), line)
		}
		e.maskRoundTrip(ctx, tag, uint32(want), len(names))
		e.maskRoundTrip(ctx, tag, uint32(want)|1, len(names))
	}
	for _, name := range sortedStr(w.masksByName[tag]) {
		if got, err := ttlv.BitmaskByStr(tag, name); err != nil || uint32(got) != w.masksByName[tag][name] {
			e.violate(ctx, "C17", "mask-bijection", fmt.Sprintf("mask:%s:number", tn), fmt.Sprintf("flag %q of %s is 0x%X but BitmaskByStr = 0x%X (%v)", name, tn, w.masksByName[tag][name], got, err), line)
		}
	}
	if n := len(names); n > 0 && n < 31 {
		e.maskRoundTrip(ctx, tag, uint32(1)<<uint(n)-1, n)
	}
	if _, err := ttlv.BitmaskByStr(tag, rtNever); err == nil {
		e.violate(ctx, "C17", "name-scoped", fmt.Sprintf("mask:%s:never-registered", tn), fmt.Sprintf("BitmaskByStr(%s, %q) succeeds", tn, rtNever), line)
	}
}

func (x *rtEnv) checkTag(value int, line string) {
	ctx, e, w := x.ctx, x.e, x.want
	name := w.tags[value]
	ctx.Res.Count("rt.tag")
	if got := ttlv.TagString(value); got != name {
		e.violate(ctx, "C17", "tag-bijection", "tag:name", fmt.Sprintf("(%q, 0x%06X) was registered but TagString(0x%06X) = %q", name, value, value, got), line)
	}
	for _, n := range sortedStr(w.tagsByName) {
		if w.tagsByName[n] != value {
			continue
		}
		if got, ok := readTagName(n); !ok || got != value {
			e.violate(ctx, "C17", "tag-bijection", "tag:number", fmt.Sprintf("(%q, 0x%06X) was registered but the XML/JSON readers resolve %q to 0x%06X", n, value, n, got), line)
		}
		if identRe.MatchString(n) && n != "TTLV" {
			var v ttlv.Value
			if err := ttlv.UnmarshalXML([]byte(`<`+n+` type="Integer" value="1"/>`), &v); err != nil || v.Tag != value {
				e.violate(ctx, "C17", "tag-bijection", "tag:number:xml-element", fmt.Sprintf("(%q, 0x%06X) was registered but the XML element <%s> is read as tag 0x%06X (%v)", n, value, n, v.Tag, err), line)
			}
		}
	}
	for _, enc := range []string{"xml", "json"} {
		var doc []byte
		var v ttlv.Value
		var err error
		if enc == "xml" {
			doc = ttlv.MarshalXML(ttlv.Value{Tag: value, Value: int32(7)})
			err = ttlv.UnmarshalXML(doc, &v)
		} else {
			doc = ttlv.MarshalJSON(ttlv.Value{Tag: value, Value: int32(7)})
			err = ttlv.UnmarshalJSON(doc, &v)
		}
		if err != nil || v.Tag != value {
			e.violate(ctx, "C17", "tag-roundtrip", "tag:"+enc, fmt.Sprintf("%s round trip of tag 0x%06X gives 0x%06X (%v): %s", enc, value, v.Tag, err, doc), line)
		}
		if !bytes.Contains(doc, []byte(name)) {
			e.violate(ctx, "C17", "tag-bijection", "tag:"+enc+":not-by-name", fmt.Sprintf("%s does not write tag 0x%06X by its registered name %q: %s", enc, value, name, doc), line)
		}
	}
}

// step makes one registration call and checks what it did. consistent: "" or why the call is not made.
func (x *rtEnv) step(class, kind string, tag int, call string, inconsistent string, apply func(), update func(), check func(line string)) {
	hk := fmt.Sprintf("%s:%d", kind, tag)
	x.hist[hk] = append(x.hist[hk], call)
	id := fmt.Sprintf("%s:%s:%d", class, rtLabel(x.want, tag), len(x.hist[hk]))
	line := "#reg.rt " + id
	if inconsistent != "" {
		x.res.Fail(fmt.Sprintf("registry run-time registrations: step %s (%s) is not consistent with what is registered: %s", id, call, inconsistent))
		return
	}
	x.steps++
	scratch := report.New("registry", "quick", 1)
	x.ctx.Res = scratch
	x.ctx.current = line
	if _, pn := guard("Register*", func() int { apply(); return 0 }); pn != "" {
		x.e.violate(x.ctx, "C17", "runtime-registration-panics", "panic", fmt.Sprintf("%s panics: %s", call, pn), line)
	} else {
		update()
		x.e.reindex()
		res, pn := guard("checks after "+call, func() string { x.compareTables(line); check(line); return "" })
		if pn != "" {
			x.e.violate(x.ctx, "C02", "no-panic", "panic:"+panicKey(pn), "after "+call+": "+pn+res, line)
		}
	}
	x.merge(scratch, class, line, hk)
}

// merge moves what a step found into the child's result: keys and lines are those of the step (the original line
// of a registry-wide oracle would replay in a process where nothing was registered).
func (x *rtEnv) merge(scratch *report.Result, class, line, hk string) {
	x.ctx.Res = x.res
	for k, n := range scratch.Distribution {
		if !strings.HasPrefix(k, "VIOLATION:") {
			x.res.Distribution[k] += n
		}
	}
	impl := "ok"
	perOracle := map[string]int{}
	for _, v := range scratch.Violations {
		impl = "violation"
		perOracle[v.Oracle]++
		if perOracle[v.Oracle] > 2 || x.kept >= 80 {
			x.res.Count("rt.violations-not-kept")
			continue
		}
		x.kept++
		calls := "the run-time registrations " + strings.Join(x.hist[hk], "; then ")
		if hk == "" {
			calls = "all the run-time registrations"
		}
		x.res.Violate(report.Violation{Property: v.Property, Oracle: v.Oracle, Key: "rt:" + class + ":" + v.Key,
			Detail: truncate("after "+calls+": "+v.Detail, 1500), Line: line})
	}
	x.ctx.Add(line, impl, true, "")
	x.res.Count("rt.step." + class)
}

// checkpoint: the registry-wide oracles over the WHOLE registry as it is now, and every table of the reference.
func (x *rtEnv) checkpoint(name string) {
	line := "#reg.rt checkpoint:" + name
	scratch := report.New("registry", "quick", 1)
	x.ctx.Res = scratch
	x.ctx.current = line
	_, pn := guard("checkpoint "+name, func() int {
		x.e.reindex()
		x.compareTables(line)
		x.e.oracleTags(x.ctx)
		x.e.oracleEnums(x.ctx)
		x.e.oracleEnumIter(x.ctx)
		x.e.oracleMasks(x.ctx)
		for _, t := range sortedTagKeys(x.want.enums) {
			x.checkEnum(t, line)
		}
		for _, t := range sortedTagKeys(x.want.masks) {
			x.checkMask(t, line)
		}
		for _, t := range sortedTagKeys(x.want.tags) {
			x.checkTag(t, line)
		}
		return 0
	})
	if pn != "" {
		x.e.violate(x.ctx, "C02", "no-panic", "panic:"+panicKey(pn), "check point "+name+": "+pn, line)
	}
	x.merge(scratch, "checkpoint:"+name, line, "")
}

// ---- the three kinds of calls ----------------------------------------------------------------------------------

func (x *rtEnv) enumStep(class string, r rtEnumReg, tag int, pairs map[uint32]string, nilMap bool) {
	w := x.want
	why := ""
	for v, n := range pairs {
		if old, ok := w.enums[tag][v]; ok && old != n {
			why = fmt.Sprintf("0x%X is %q", v, old)
		}
		if old, ok := w.enumsByName[tag][n]; ok && old != v {
			why = fmt.Sprintf("%q is 0x%X", n, old)
		}
	}
	arg := rtPairs(pairs)
	if nilMap {
		arg = "nil"
	}
	call := fmt.Sprintf("RegisterEnum[%s](%s, %s)", r.ty, rtLabel(w, tag), arg)
	x.step(class, "enum", tag, call, why,
		func() { r.reg(tag, pairs, nilMap) },
		func() {
			w.enumTypes[r.ty.String()] = tag
			w.typeTags[r.ty.String()] = tag
			if nilMap {
				return
			}
			if w.enums[tag] == nil {
				w.enums[tag] = map[uint32]string{}
			}
			if w.enumsByName[tag] == nil {
				w.enumsByName[tag] = map[string]uint32{}
			}
			for v, n := range pairs {
				w.enums[tag][v] = n
				w.enumsByName[tag][n] = v
			}
		},
		func(line string) { x.checkEnum(tag, line) })
}

func (x *rtEnv) maskStep(class string, r rtMaskReg, tag int, names []string) {
	w := x.want
	why := ""
	for i, n := range w.masks[tag] { // only the same list again, or an extension of it
		if i >= len(names) || names[i] != n {
			why = fmt.Sprintf("position %d is %q", i, n)
		}
	}
	seen := map[string]bool{}
	for _, n := range names {
		if seen[n] {
			why = "duplicate flag " + n
		}
		seen[n] = true
	}
	call := fmt.Sprintf("RegisterBitmask[%s](%s, %q)", r.ty, rtLabel(w, tag), names)
	x.step(class, "mask", tag, call, why,
		func() { r.reg(tag, append([]string{}, names...)) },
		func() {
			w.maskTypes[r.ty.String()] = tag
			w.typeTags[r.ty.String()] = tag
			w.masks[tag] = append([]string{}, names...)
			w.masksByName[tag] = map[string]uint32{}
			for i, n := range names {
				w.masksByName[tag][n] = uint32(1) << uint(i)
			}
		},
		func(line string) { x.checkMask(tag, line) })
}

func (x *rtEnv) tagStep(class, name string, value int, types ...reflect.Type) {
	w := x.want
	why := ""
	if old, ok := w.tags[value]; ok && old != name {
		why = fmt.Sprintf("0x%06X is %q", value, old)
	}
	if old, ok := w.tagsByName[name]; ok && old != value {
		why = fmt.Sprintf("%q is 0x%06X", name, old)
	}
	var tys []string
	for _, t := range types {
		tys = append(tys, ", "+t.String())
	}
	call := fmt.Sprintf("RegisterTag(%q, 0x%06X%s)", name, value, strings.Join(tys, ""))
	x.step(class, "tag", value, call, why,
		func() { ttlv.RegisterTag(name, value, types...) },
		func() {
			w.tags[value] = name
			w.tagsByName[name] = value
			for _, t := range types {
				w.typeTags[t.String()] = value
			}
		},
		func(line string) {
			x.checkTag(value, line)
			if _, ok := w.enums[value]; ok {
				x.checkEnum(value, line)
			}
			if _, ok := w.masks[value]; ok {
				x.checkMask(value, line)
			}
		})
}

func regRtChildMain() {
	res := report.New("registry", "quick", 1)
	ctx := &Ctx{R: rng.New(1), Tier: "quick", Res: res}
	out := regRtOut{}
	defer func() {
		if r := recover(); r != nil {
			res.Fail(fmt.Sprint("registry run-time registrations: the child panicked: ", r))
		}
		out.Cases, out.Violations, out.Dist, out.Fail = ctx.cases, res.Violations, res.Distribution, res.HarnessErrors
		b, _ := json.Marshal(out)
		os.Stdout.Write(b)
	}()
	scratch := report.New("registry", "quick", 1) // the counters of the type discovery are the parent's business
	ctx.Res = scratch
	e := newRegEnvLocal(ctx, reflect.TypeFor[rtEnumA](), reflect.TypeFor[rtEnumB](), reflect.TypeFor[rtEnumC](), reflect.TypeFor[rtEnumR](),
		reflect.TypeFor[rtMaskA](), reflect.TypeFor[rtMaskB]())
	ctx.Res = res
	x := &rtEnv{ctx: ctx, res: res, e: e, want: indexDump(e.dump), hist: map[string][]string{}}
	w := x.want
	for _, t := range []int{rtTagEnumA, rtTagEnumB, rtTagEnumC, rtTagEnumR, rtTagMaskA, rtTagMaskB, rtTagPlain, rtTagPlain2} {
		_, a := w.tags[t]
		_, b := w.enums[t]
		_, c := w.masks[t]
		if a || b || c {
			res.Fail(fmt.Sprintf("registry run-time registrations: tag 0x%06X of the harness is registered by the library itself", t))
			return
		}
	}
	x.checkpoint("before")

	// ---- every enumeration of the library, through its own Go type ----
	reached := 0
	for i, r := range rtLibEnums {
		tag, ok := w.enumTypes[r.ty.String()]
		if !ok {
			res.Count("rt.type-not-registered:" + r.ty.String())
			continue
		}
		reached++
		free := func(from uint32) uint32 { // a number this enumeration does not use
			for ; ; from++ {
				if _, used := w.enums[tag][from]; !used {
					return from
				}
			}
		}
		// 1. a vendor value (the same name and number in every enumeration)
		x.enumStep("enum-add", r, tag, map[uint32]string{free(0x80000001): "VerifVendor_1"}, false)
		// 2. an existing pair again, with a new value whose name every enumeration receives with ANOTHER number
		again := map[uint32]string{free(0x80000100 + uint32(i)): "VerifShared"}
		if ks := sortedU32(w.enums[tag]); len(ks) > 0 {
			again[ks[0]] = w.enums[tag][ks[0]]
		}
		x.enumStep("enum-again-and-add", r, tag, again, false)
		// 3. a call bringing MORE new pairs than the table holds (none of the present ones among them)
		many := map[uint32]string{}
		for k, from := 0, uint32(0x80001000); k <= len(w.enums[tag]); k++ {
			from = free(from)
			many[from] = fmt.Sprintf("VerifMany_%d", k)
			from++
		}
		x.enumStep("enum-add-many", r, tag, many, false)
		// 4. nothing to add
		x.enumStep("enum-empty", r, tag, map[uint32]string{}, false)
		x.enumStep("enum-nil", r, tag, nil, true)
		// 5. the whole table again, one more value in the first unused standard number and the last number
		all := map[uint32]string{}
		for v, n := range w.enums[tag] {
			all[v] = n
		}
		all[free(1)] = "VerifLaterVersion"
		if _, used := all[0xFFFFFFFF]; !used {
			all[0xFFFFFFFF] = "VerifVendor_Max"
		}
		x.enumStep("enum-whole-table-and-add", r, tag, all, false)
	}
	if len(e.dump.EnumTypes) > 0 && reached*2 < len(e.dump.EnumTypes) {
		res.Fail(fmt.Sprintf("lost evidence: ttlv.RegisterEnum[T] was instantiated for %d of the %d registered enumeration types only", reached, len(e.dump.EnumTypes)))
	}
	x.checkpoint("library-enumerations")

	// ---- enumerations of the harness on fresh extension tags ----
	ea, eb, ec := rtReg[rtEnumA](), rtReg[rtEnumB](), rtReg[rtEnumC]()
	x.tagStep("tag-fresh", "VerifExtEnumA", rtTagEnumA, ea.ty)
	x.enumStep("ext-enum-first", ea, rtTagEnumA, map[uint32]string{1: "One", 2: "Two"}, false)
	x.enumStep("ext-enum-add", ea, rtTagEnumA, map[uint32]string{3: "Three"}, false)
	x.enumStep("ext-enum-again-and-add", ea, rtTagEnumA, map[uint32]string{1: "One", 4: "AES", 5: "X_509"}, false) // names other enumerations own
	x.tagStep("tag-again", "VerifExtEnumA", rtTagEnumA)
	x.enumStep("ext-enum-add", ea, rtTagEnumA, map[uint32]string{0x80000001: "VerifVendor_1"}, false)
	x.tagStep("tag-again", "VerifExtEnumA", rtTagEnumA, ea.ty)
	// type first, values later, name last
	x.enumStep("ext-enum-type-only", eb, rtTagEnumB, nil, true)
	x.enumStep("ext-enum-first", eb, rtTagEnumB, map[uint32]string{0x80000000: "High", 7: "Seven"}, false)
	x.enumStep("ext-enum-add", eb, rtTagEnumB, map[uint32]string{0xFFFFFFFF: "Max"}, false)
	x.tagStep("tag-fresh", "VerifExtEnumB", rtTagEnumB)
	x.enumStep("ext-enum-add", eb, rtTagEnumB, map[uint32]string{8: "Eight", 9: "Nine"}, false)
	x.enumStep("ext-enum-again", eb, rtTagEnumB, map[uint32]string{7: "Seven"}, false)
	// a tag that never gets a name
	x.enumStep("ext-enum-first", ec, rtTagEnumC, map[uint32]string{1: "Alpha"}, false)
	x.enumStep("ext-enum-add", ec, rtTagEnumC, map[uint32]string{2: "Beta"}, false)
	x.enumStep("ext-enum-add", ec, rtTagEnumC, map[uint32]string{3: "Gamma", 1: "Alpha"}, false)
	x.enumStep("ext-enum-add-many", ec, rtTagEnumC, map[uint32]string{4: "Delta", 5: "Epsilon", 6: "Zeta", 7: "Eta", 8: "Theta"}, false)
	x.enumStep("ext-enum-add", ec, rtTagEnumC, map[uint32]string{9: "Iota"}, false)
	x.checkpoint("extension-enumerations")

	// ---- masks ----
	for _, r := range rtLibMasks {
		tag, ok := w.maskTypes[r.ty.String()]
		if !ok {
			res.Count("rt.type-not-registered:" + r.ty.String())
			continue
		}
		names := append([]string{}, w.masks[tag]...)
		x.maskStep("mask-again", r, tag, names)
		if len(names) <= 26 {
			names = append(names, "VerifVendorFlagA", "VerifVendorFlagB")
			x.maskStep("mask-extend", r, tag, names)
			names = append(names, "VerifVendorFlagC")
			x.maskStep("mask-extend", r, tag, names)
			x.maskStep("mask-again", r, tag, names)
		}
	}
	ma, mb := rtRegMask[rtMaskA](), rtRegMask[rtMaskB]()
	x.tagStep("tag-fresh", "VerifExtMaskA", rtTagMaskA, ma.ty)
	x.maskStep("ext-mask-first", ma, rtTagMaskA, []string{"A0", "A1", "A2"})
	x.maskStep("ext-mask-extend", ma, rtTagMaskA, []string{"A0", "A1", "A2", "Sign", "A4"}) // a flag name another mask owns, elsewhere
	x.maskStep("ext-mask-again", ma, rtTagMaskA, []string{"A0", "A1", "A2", "Sign", "A4"})
	x.maskStep("ext-mask-first", mb, rtTagMaskB, []string{"B0"})
	x.maskStep("ext-mask-extend", mb, rtTagMaskB, []string{"B0", "B1"})
	x.maskStep("ext-mask-extend", mb, rtTagMaskB, []string{"B0", "B1", "A0", "OnLineStorage"})
	x.checkpoint("masks")

	// ---- tags ----
	lib := sortedTagKeys(e.live.tags)
	pick := []int{kmip.TagRecommendedCurve, kmip.TagAttributeValue, kmip.TagBatchItem, kmip.TagCryptographicUsageMask}
	if len(lib) > 0 {
		pick = append(pick, lib[0], lib[len(lib)-1], lib[len(lib)/2])
	}
	for _, t := range pick {
		if n, ok := w.tags[t]; ok {
			x.tagStep("tag-library-again", n, t)
			x.tagStep("tag-library-again", n, t)
		}
	}
	x.tagStep("tag-fresh", "VerifExtPlain", rtTagPlain)
	x.tagStep("tag-again", "VerifExtPlain", rtTagPlain)
	x.tagStep("tag-again", "VerifExtPlain", rtTagPlain, reflect.TypeFor[regRtOut]())
	x.tagStep("tag-fresh", "VerifExtPlain2", rtTagPlain2, reflect.TypeFor[rtEnv]())
	x.tagStep("tag-again", "VerifExtPlain", rtTagPlain)
	x.checkpoint("tags")

	// ---- a number given a second name (not a consistent call: judged on write -> read only) ----
	x.rename()

	for _, k := range []string{"rt.step.enum-add", "rt.step.enum-again-and-add", "rt.step.enum-add-many", "rt.step.enum-whole-table-and-add", "rt.step.ext-enum-add", "rt.step.mask-extend", "rt.step.ext-mask-extend", "rt.step.tag-again", "rt.step.tag-library-again", "rt.enum.entry", "rt.enum.name", "rt.mask.flag", "rt.tag"} {
		if res.Distribution[k] == 0 {
			res.Fail("registry run-time registrations: nothing happened for " + k)
		}
	}
	out.Done = true
}

// rename: RegisterEnum gives number 1 of a fresh enumeration a second name. Which of the two names is canonical
// afterwards is the library's choice; whatever the writers write for 1 and 2 must still be read back as 1 and 2.
func (x *rtEnv) rename() {
	r := rtReg[rtEnumR]()
	line := "#reg.rt rename:0x540A04"
	scratch := report.New("registry", "quick", 1)
	x.ctx.Res = scratch
	x.ctx.current = line
	calls := []map[uint32]string{{1: "Old", 2: "Other"}, {1: "New"}}
	hk := fmt.Sprintf("enum:%d", rtTagEnumR)
	_, pn := guard("rename", func() int {
		for _, c := range calls {
			x.hist[hk] = append(x.hist[hk], fmt.Sprintf("RegisterEnum[%s](0x%06X, %s)", r.ty, rtTagEnumR, rtPairs(c)))
			r.reg(rtTagEnumR, c, false)
		}
		x.e.reindex()
		for v, allowed := range map[uint32][]string{1: {"Old", "New"}, 2: {"Other"}} {
			name := ttlv.EnumName(rtTagEnumR, v)
			ok := false
			for _, a := range allowed {
				ok = ok || a == name
			}
			if !ok {
				x.e.violate(x.ctx, "C17", "enum-bijection", "enum:renamed:name", fmt.Sprintf("EnumName(0x%06X, %d) = %q, registered: %q", rtTagEnumR, v, name, allowed), line)
			}
			x.e.enumRoundTrip(x.ctx, rtTagEnumR, v, name)
		}
		return 0
	})
	if pn != "" {
		x.e.violate(x.ctx, "C17", "runtime-registration-panics", "panic", "RegisterEnum panics: "+pn, line)
	}
	x.merge(scratch, "rename", line, hk)
}

// ---- the parent side -------------------------------------------------------------------------------------

// oracleRuntimeRegistrations runs the child and merges its cases, violations and counters.
func oracleRuntimeRegistrations(ctx *Ctx) {
	ctx.current = "#reg.rt (child process)"
	cmd := exec.Command(os.Args[0])
	cmd.Env = append(os.Environ(), regRtChildEnv+"=1")
	var stdout, stderr bytes.Buffer
	cmd.Stdout, cmd.Stderr = &stdout, &stderr
	if err := cmd.Start(); err != nil {
		ctx.Res.Fail("registry run-time registrations: cannot start the child process: " + err.Error())
		return
	}
	done := make(chan error, 1)
	go func() { done <- cmd.Wait() }()
	var werr error
	select {
	case werr = <-done:
	case <-time.After(5 * time.Minute):
		_ = cmd.Process.Kill()
		<-done
		ctx.Res.Fail("registry run-time registrations: the child process did not finish within 5 minutes")
		return
	}
	var out regRtOut
	if err := json.Unmarshal(stdout.Bytes(), &out); err != nil {
		ctx.Res.Fail(fmt.Sprintf("registry run-time registrations: unreadable child output (%v, exit %v): %s", err, werr, truncate(stderr.String(), 400)))
		return
	}
	for _, c := range out.Cases {
		ctx.Add(c.Line, c.Impl, c.Nontrivial, c.Props)
	}
	for _, v := range out.Violations {
		ctx.Res.Violate(report.Violation{Property: v.Property, Oracle: v.Oracle, Key: v.Key, Detail: v.Detail, Line: v.Line})
	}
	for k, n := range out.Dist {
		if strings.HasPrefix(k, "rt.") {
			ctx.Res.Distribution[k] += n
		}
	}
	for _, f := range out.Fail {
		ctx.Res.Fail(f)
	}
	if !out.Done && len(out.Fail) == 0 {
		ctx.Res.Fail("registry run-time registrations: the child process did not complete: " + truncate(stderr.String(), 400))
	}
}
