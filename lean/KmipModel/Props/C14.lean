/-
  C14 — key material survives registration, transport and extraction.

  What is proved here, and at which level:
  * `accessor_total` (= `C14_accessor_total_full`, a theorem): for EVERY `GetResponsePayload` / object / key
    block value (any subset of the optional parts missing, any format, compression, curve and object type
    code) every accessor of objects.go and payloads/get.go returns a value or an error, never a Go panic.
    Repairs this rests on, each with the witness of what the previous code did: /repo 414a481 (nil
    dereferences: `old_accessors_can_panic`), e2e4a08 (range check of a transparent EC scalar: before it
    `Pkcs8Pem` / `PemPrivateKey` handed an oversized scalar to `x509.MarshalPKCS8PrivateKey`, which panics:
    `old_pem_can_panic`), d693174 (multi-prime RSA keys in the transparent format: `old_rsa_multiprime_truncated`,
    `old_register_can_panic`).
  * the lexical transport of big integers for EVERY integer (any sign, any size) in the three encodings
    (`ttlv_big_roundtrip`, `xml_big_roundtrip`, `json_big_roundtrip` — both sides of ±2^52) and of byte
    strings (`hex_roundtrip`), from the Go loops `bigIntToBytes` / `bytesToBigInt`.
  * `key_roundtrip`: for every key of every kind, every format selector, every protocol version (with the
    1.3 switch of the transparent EC representation) and every encoding,
    `extract (transport (register key)) = ok key`.
  LEVEL NOTE.  (1) The standard library (x509 / elliptic / rsa marshal–parse pairs, `Precompute`,
  `ScalarBaseMult`) is a parameter: its inverse laws are the fields of `structure Crypto`, i.e. hypotheses of
  the theorems, never axioms; `Toy.crypto` shows that they are satisfiable.  (2) `transport` here is the
  VALUE-LEVEL transport: every big integer and byte string of the key material goes through the writer and
  the reader of the chosen encoding.  The structure-level transport (order / tagging / optionality of the
  fields of KeyBlock, KeyValue, KeyMaterial, enumerations, message framing) is the business of C01/C04 and
  is taken as the identity on the `KeyBlockV` shape.
-/
import KmipModel.Lemmas.KeyAccessLemmas
import KmipModel.Props.C03
namespace Kmip.C14
open Kmip Kmip.Key

/-! ## 1. Accessor totality -/

/-- the full statement: no accessor panics, for every standard library satisfying the laws. -/
def C14_accessor_total_full : Prop :=
  ∀ (C : Crypto) (a : Accessor) (r : GetResp), ∀ msg, run C.toCryptoOps a r ≠ .panic msg

/-- 1. no accessor panics: every accessor, every response payload (object type code and object
    independent, object possibly nil), every key block content.  The only standard library function of
    the accessors that is not total is `x509.MarshalPKCS8PrivateKey`; the laws say where it does not
    panic (RSA keys, keys returned by the parsers, an ecdsa key built from a scalar in `[1, n-1]`), and
    the range check of `PrivateKey.ECDSA` makes these the only keys `Pkcs8Pem` can hand it. -/
theorem accessor_total (C : Crypto) (a : Accessor) (r : GetResp) :
    ∀ msg, run C.toCryptoOps a r ≠ .panic msg :=
  run_noPanic C a r

theorem accessor_total_full : C14_accessor_total_full := accessor_total

/-- 1'. without any law about the standard library: every accessor except the PKCS#8 PEM helpers. -/
theorem accessor_total_except_pem (C : CryptoOps) (a : Accessor) (r : GetResp)
    (ha : a ≠ .privPem ∧ a ≠ .getPemPriv) : ∀ msg, run C a r ≠ .panic msg :=
  run_noPanic_ops C a ha r

/-- 1''. and the PEM helper can panic only inside `MarshalPKCS8PrivateKey`, on the key the accessor built:
    there is no panic in the library's own code. -/
theorem pem_panics_only_in_stdlib (C : CryptoOps) (kb : KeyBlockV) (m : String) :
    privPkcs8Pem C kb = .panic m ↔ ∃ k, privCrypto C kb = .ok k ∧ C.marshalPKCS8 k = .panic m :=
  privPkcs8Pem_panic_iff C kb m

/-- a decodable object: a transparent EC private key whose scalar `D` does not fit the byte size of the
    curve order (here 2^256 on P-256). -/
def oversizedScalar : KeyBlockV :=
  { format := fTransparentECPrivateKey,
    keyValue := some { plain := some { material := { ecPriv := some { curve := 7, d := 2 ^ 256 } } } } }

/-- 2a. before e2e4a08 `PrivateKey.ECDSA` accepted any `D` and `Pkcs8Pem` panicked inside
    `x509.MarshalPKCS8PrivateKey` (`D.FillBytes`; the toy library reproduces that behaviour of the real
    one); HEAD answers with an error on the same object. -/
theorem old_pem_can_panic :
    (∃ m, privPkcs8PemNoRange Toy.ops oversizedScalar = .panic m) ∧
    (∃ e, privPkcs8Pem Toy.ops oversizedScalar = .err e) ∧
    (∃ e, privECDSA Toy.ops oversizedScalar = .err e) :=
  ⟨⟨_, rfl⟩, ⟨_, rfl⟩, ⟨_, rfl⟩⟩

/-- 1a. the key block accessors, for every key block. -/
theorem keyblock_accessors_total (kb : KeyBlockV) :
    (getMaterial kb).NoPanic ∧ (getBytes kb).NoPanic ∧ (getAttributes kb).NoPanic :=
  ⟨getMaterial_noPanic kb, getBytes_noPanic kb, getAttributes_noPanic kb⟩

/-- 1b. the object accessors, for every key block and every standard library (the last one under the laws). -/
theorem object_accessors_total (C : Crypto) (kb : KeyBlockV) :
    (secretData kb).NoPanic ∧ (symKeyMaterial kb).NoPanic ∧
    (pubRSA C.toCryptoOps kb).NoPanic ∧ (pubECDSA C.toCryptoOps kb).NoPanic ∧
    (pubCrypto C.toCryptoOps kb).NoPanic ∧ (pubPkixPem C.toCryptoOps kb).NoPanic ∧
    (privRSA C.toCryptoOps kb).NoPanic ∧ (privECDSA C.toCryptoOps kb).NoPanic ∧
    (privCrypto C.toCryptoOps kb).NoPanic ∧ (privPkcs8Pem C.toCryptoOps kb).NoPanic :=
  ⟨secretData_noPanic kb, symKeyMaterial_noPanic kb, pubRSA_noPanic _ kb, pubECDSA_noPanic _ kb,
    pubCrypto_noPanic _ kb, pubPkixPem_noPanic _ kb, privRSA_noPanic _ kb, privECDSA_noPanic _ kb,
    privCrypto_noPanic _ kb, privPkcs8Pem_noPanic C kb⟩

/-- 1c. a metadata-only object (no KeyValue) and a wrapped one give errors. -/
theorem missing_material_is_error (C : CryptoOps) (f c : Nat) (w : Bytes) :
    (∃ e, getMaterial { format := f, comp := c } = .err e) ∧
    (∃ e, getMaterial { format := f, comp := c, keyValue := some { wrapped := some w } } = .err e) ∧
    (∃ e, privRSA C { format := fTransparentRSAPrivateKey, comp := c } = .err e) ∧
    (∃ e, privECDSA C { format := fTransparentECPrivateKey, comp := c,
                        keyValue := some { plain := some { material := {} } } } = .err e) :=
  ⟨⟨_, rfl⟩, ⟨_, rfl⟩, ⟨_, rfl⟩, ⟨_, rfl⟩⟩

/-- a metadata-only key block (what a server returns when the key value is withheld). -/
def metadataOnly (format : Nat) : KeyBlockV := { format := format }
/-- a transparent EC key block whose KeyMaterial structure is empty. -/
def emptyMaterial (format : Nat) : KeyBlockV :=
  { format := format, keyValue := some { plain := some { material := {} } } }

/-- 2. the accessors as they were before 414a481 panic on decodable objects — and HEAD answers `err`
    on the same ones. -/
theorem old_accessors_can_panic (C : CryptoOps) :
    (∃ m, getMaterialOld (metadataOnly fRaw) = .panic m) ∧
    (∃ m, getAttributesOld (metadataOnly fRaw) = .panic m) ∧
    (∃ m, pubECDSAOld C (emptyMaterial fTransparentECPublicKey) = .panic m) ∧
    (∃ m, privECDSAOld C (emptyMaterial fTransparentECDSAPrivateKey) = .panic m) ∧
    (∃ m, privECDSAOld C (metadataOnly fTransparentECPrivateKey) = .panic m) ∧
    (∃ e, getMaterial (metadataOnly fRaw) = .err e) ∧
    getAttributes (metadataOnly fRaw) = .ok 0 ∧
    (∃ e, pubECDSA C (emptyMaterial fTransparentECPublicKey) = .err e) ∧
    (∃ e, privECDSA C (emptyMaterial fTransparentECDSAPrivateKey) = .err e) :=
  ⟨⟨_, rfl⟩, ⟨_, rfl⟩, ⟨_, rfl⟩, ⟨_, rfl⟩, ⟨_, rfl⟩, ⟨_, rfl⟩, rfl, ⟨_, rfl⟩, ⟨_, rfl⟩⟩

/-- 2'. in terms of the uniform runner: the old code has a panicking (accessor, payload) pair. -/
theorem old_run_can_panic (C : CryptoOps) :
    ∃ a r m, runOld C a r = .panic m ∧ ∀ msg, run C a r ≠ .panic msg :=
  ⟨.kbMaterial, respOf (.privateKey (metadataOnly fPKCS1)), _, rfl,
    accessor_total_except_pem C _ _ (by decide)⟩

/-! ## 2. Big integers and byte strings in the three encodings -/

/-- 3. for every padding, `bigIntToBytes(v, padding)` with its left padding is a two's complement
    encoding of `v` (padding 8: binary and JSON; padding 1: XML). -/
theorem bigBytes_twos (v : Int) (padding : Nat) : twos (bigBytes v padding) = v ∧ bigBytes v padding ≠ [] :=
  ⟨twos_bigBytes v padding, bigBytes_ne_nil v padding⟩

/-- 4. binary: every integer (C03). -/
theorem ttlv_big_roundtrip (v : Int) : ttlvBigRead (encodeBig v) = .ok v :=
  ttlvBigRead_encodeBig v

/-- 5. XML: every integer. -/
theorem xml_big_roundtrip (v : Int) : xmlBigRead (xmlBigWrite v) = .ok v :=
  xmlBig_roundtrip v

/-- 6. JSON: every integer — the number form strictly inside ±2^52, the `0x` form outside. -/
theorem json_big_roundtrip (v : Int) : jsonBigRead (jsonBigWrite v) = .ok v :=
  jsonBig_roundtrip v

/-- 6a. which form is written. -/
theorem json_big_form (v : Int) :
    (-4503599627370496 < v ∧ v < 4503599627370496 → jsonBigWrite v = .num (decText v)) ∧
    (v ≤ -4503599627370496 ∨ 4503599627370496 ≤ v →
      jsonBigWrite v = .str (48 :: 120 :: hexLower (encodeBig v))) := by
  unfold jsonBigWrite maxJsonInt
  constructor
  · intro h
    rw [if_neg (by omega)]
  · intro h
    rw [if_pos (by omega)]
    rfl

/-- both sides of the boundary. -/
example : jsonBigWrite 4503599627370495 = .num (decText 4503599627370495) := (json_big_form _).1 (by decide)
example : jsonBigWrite 4503599627370496 = .str (48 :: 120 :: hexLower (encodeBig 4503599627370496)) :=
  (json_big_form _).2 (by decide)
example : jsonBigWrite (-4503599627370496) = .str (48 :: 120 :: hexLower (encodeBig (-4503599627370496))) :=
  (json_big_form _).2 (by decide)

/-- leading 0x00 / 0x80 patterns in XML: `128 ↦ "0080"`, `-128 ↦ "80"`, `0 ↦ "00"`. -/
example : xmlBigWrite 128 = [48, 48, 56, 48] := by
  rw [xmlBigWrite, bigBytes_pos _ _ (by decide)]
  simp [posPadG, effPad, natToBytesBE, padForLen, hexUpper, nibUp]
example : xmlBigWrite (-128) = [56, 48] := by
  have e : (~~~(128 : UInt8) + 1) = 128 := by decide
  rw [xmlBigWrite, bigBytes_neg _ _ (by decide)]
  simp [negPadG, negBody, effPad, natToBytesBE, negEncLE, padForLen, hexUpper, nibUp, e]
example : xmlBigWrite 0 = [48, 48] := by
  rw [xmlBigWrite, bigBytes_zero]; decide

/-- 7. one statement for the three encodings. -/
theorem big_transport (enc : Enc) (v : Int) : bigTransport enc v = .ok v :=
  bigTransport_ok enc v

/-- 8. byte strings: upper-case (XML, JSON byte strings) and lower-case (JSON big integers) hex are
    read back by `hex.DecodeString`, for every byte list. -/
theorem hex_roundtrip (bs : Bytes) : hexDecode (hexUpper bs) = some bs ∧ hexDecode (hexLower bs) = some bs :=
  ⟨hexDecode_hexUpper bs, hexDecode_hexLower bs⟩

theorem bytes_transport (enc : Enc) (bs : Bytes) : bytesTransport enc bs = .ok bs :=
  bytesTransport_ok enc bs

/-- 9. hence the value-level transport is the identity on every object, whatever it contains
    (including non-minimal material: any integer, any byte string, any missing part). -/
theorem transport_id (enc : Enc) (o : Obj) : transportObj enc o = .ok o :=
  transportObj_ok enc o

/-! ## 3. Format selectors and the version switch -/

/-- 10. every format selector returns a format that exists for its kind of key, for every bit mask:
    the `panic("Unexpected key format")` of the builders is unreachable. -/
theorem selectors_total (kf : Nat) :
    (rsaPrivFormat kf = kfPKCS1 ∨ rsaPrivFormat kf = kfPKCS8 ∨ rsaPrivFormat kf = kfTransparent) ∧
    (rsaPubFormat kf = kfPKCS1 ∨ rsaPubFormat kf = kfX509 ∨ rsaPubFormat kf = kfTransparent) ∧
    (ecdsaPrivFormat kf = kfSEC1 ∨ ecdsaPrivFormat kf = kfPKCS8 ∨ ecdsaPrivFormat kf = kfTransparent) ∧
    (ecdsaPubFormat kf = kfX509 ∨ ecdsaPubFormat kf = kfTransparent) ∧
    (symmetricFormat kf = kfRAW ∨ symmetricFormat kf = kfTransparent) :=
  ⟨rsaPrivFormat_mem kf, rsaPubFormat_mem kf, ecdsaPrivFormat_mem kf, ecdsaPubFormat_mem kf,
    symmetricFormat_mem kf⟩

/-- 10a. a single requested format that exists for the kind is honoured; no request = the default. -/
theorem selectors_honour_request :
    rsaPrivFormat 0 = kfPKCS1 ∧ rsaPrivFormat kfPKCS1 = kfPKCS1 ∧ rsaPrivFormat kfPKCS8 = kfPKCS8 ∧
      rsaPrivFormat kfTransparent = kfTransparent ∧
    rsaPubFormat 0 = kfPKCS1 ∧ rsaPubFormat kfPKCS1 = kfPKCS1 ∧ rsaPubFormat kfX509 = kfX509 ∧
      rsaPubFormat kfTransparent = kfTransparent ∧
    ecdsaPrivFormat 0 = kfSEC1 ∧ ecdsaPrivFormat kfSEC1 = kfSEC1 ∧ ecdsaPrivFormat kfPKCS8 = kfPKCS8 ∧
      ecdsaPrivFormat kfTransparent = kfTransparent ∧
    ecdsaPubFormat 0 = kfX509 ∧ ecdsaPubFormat kfX509 = kfX509 ∧ ecdsaPubFormat kfTransparent = kfTransparent ∧
    symmetricFormat 0 = kfRAW ∧ symmetricFormat kfRAW = kfRAW ∧ symmetricFormat kfTransparent = kfTransparent := by
  decide

/-- 10b. the register builders never panic in their own code: a panic is one of
    `x509.MarshalPKCS8PrivateKey` on the caller's own key. -/
theorem register_panic_only (C : CryptoOps) (kf : Nat) (ver : Nat × Nat) (key : AnyKey C) (m : String)
    (h : register C kf ver key = .panic m) : ∃ pk, C.marshalPKCS8 pk = .panic m :=
  Key.register_panic_only C kf ver key m h

/-- 10c. an RSA private key that has not exactly two primes is refused in the transparent format (d693174). -/
theorem rsa_multiprime_refused (C : CryptoOps) (kf : Nat) (k : C.RsaPriv)
    (hlen : bitLen (C.rsaPrivParts k).n ≤ maxInt32) (hf : rsaPrivFormat kf = kfTransparent)
    (hp : (C.rsaPrivParts k).primes.length ≠ 2) : ∃ e, registerRsaPriv C kf k = .err e :=
  registerRsaPriv_refuses C kf k hlen hf hp

/-- 11. the version switch: `TransparentEC*` from 1.3 on, `TransparentECDSA*` before. -/
theorem version_switch (major minor : Nat) :
    verGE13 (major, minor) = true ↔ (1 < major ∨ (major = 1 ∧ 3 ≤ minor)) := by
  unfold verGE13
  by_cases h : major = 1
  · subst h; simp
  · simp [h]

example : verGE13 (1, 0) = false ∧ verGE13 (1, 1) = false ∧ verGE13 (1, 2) = false ∧
    verGE13 (1, 3) = true ∧ verGE13 (1, 4) = true ∧ verGE13 (2, 0) = true := by decide

/-- 11a. the transparent EC private key the client builds, as a function of the version. -/
theorem ec_priv_transparent_repr (C : CryptoOps) (kf : Nat) (ver : Nat × Nat) (k : C.EcPriv)
    (hc : curveSupported (C.ecPrivCurve k) = true) (hf : ecdsaPrivFormat kf = kfTransparent) :
    registerEcPriv C kf ver k = .ok (.privateKey
      (if verGE13 ver then
        plainKB fTransparentECPrivateKey 0 algECDSA (curveBitlen (C.ecPrivCurve k))
          { ecPriv := some { curve := C.ecPrivCurve k, d := C.ecPrivD k } }
      else
        plainKB fTransparentECDSAPrivateKey 0 algECDSA (curveBitlen (C.ecPrivCurve k))
          { ecdsaPriv := some { curve := C.ecPrivCurve k, d := C.ecPrivD k } })) := by
  unfold registerEcPriv
  simp only [hc, hf]
  cases verGE13 ver <;> simp [kfTransparent, kfSEC1, kfPKCS8]

/-- 11b. the transparent EC public key: uncompressed point, compression type 1. -/
theorem ec_pub_transparent_repr (C : CryptoOps) (kf : Nat) (ver : Nat × Nat) (k : C.EcPub)
    (hc : curveSupported (C.ecPubCurve k) = true) (hf : ecdsaPubFormat kf = kfTransparent) :
    registerEcPub C kf ver k = .ok (.publicKey
      (if verGE13 ver then
        plainKB fTransparentECPublicKey 1 algECDSA (curveBitlen (C.ecPubCurve k))
          { ecPub := some { curve := C.ecPubCurve k, q := C.ecMarshal k } }
      else
        plainKB fTransparentECDSAPublicKey 1 algECDSA (curveBitlen (C.ecPubCurve k))
          { ecdsaPub := some { curve := C.ecPubCurve k, q := C.ecMarshal k } })) := by
  unfold registerEcPub
  simp only [hc, hf]
  cases verGE13 ver <;> simp [kfTransparent, kfX509]

/-! ## 4. Register, transport, extract -/

/-- the keys for which the property can hold: an ECDSA private key has its scalar in `[1, n-1]` (anything
    else is not a key of the curve; the accessor refuses it in the transparent format). -/
def Valid {C : CryptoOps} : AnyKey C → Prop
  | .ecPriv k => 0 < C.ecPrivD k ∧ C.ecPrivD k < C.curveOrder (C.ecPrivCurve k)
  | _ => True

/-- 12. extraction from the registered object gives back the key: every kind, every format selector,
    every version. -/
theorem extract_register (C : Crypto) (kf : Nat) (ver : Nat × Nat) (key : AnyKey C.toCryptoOps)
    (hv : Valid key) (o : Obj) (h : register C.toCryptoOps kf ver key = .ok o) :
    extract C.toCryptoOps key (respOf o) = .ok key.content := by
  cases key with
  | rsaPriv k => simp [extract, AnyKey.content, rsaPriv_extract C kf k o h]
  | rsaPub k => simp [extract, AnyKey.content, rsaPub_extract C kf k o h]
  | ecPriv k => simp [extract, AnyKey.content, ecPriv_extract C kf ver k o (fun _ => hv) h]
  | ecPub k => simp [extract, AnyKey.content, ecPub_extract C kf ver k o h]
  | sym alg v => simp [extract, AnyKey.content, sym_extract kf alg v o h]
  | secret kind v => simp [extract, AnyKey.content, secret_extract kind v o h]

/-- 13. C14: for every key of each kind (RSA keys with any number of primes included), every format
    selector, every version, each of the three encodings: whenever the builder accepts the key, the key
    extracted from the transported object is the original. -/
theorem key_roundtrip (C : Crypto) (kf : Nat) (ver : Nat × Nat) (enc : Enc) (key : AnyKey C.toCryptoOps)
    (hv : Valid key) (o : Obj) (h : register C.toCryptoOps kf ver key = .ok o) :
    roundtrip C.toCryptoOps kf ver enc key = .ok key.content := by
  unfold roundtrip
  rw [h]
  simp only [transportObj_ok]
  exact extract_register C kf ver key hv o h

/-- 13a. in all cases, without any hypothesis on the key: the round trip gives the key, or the builder
    refused it with an error (marshal error of the standard library, unsupported curve, length overflow,
    an RSA key without exactly two primes in the transparent format), or the standard library panicked
    while marshalling the caller's own key, or the key is an ECDSA key whose scalar is out of range and
    the accessor refused it — never another key. -/
theorem key_roundtrip_or_refused (C : Crypto) (kf : Nat) (ver : Nat × Nat) (enc : Enc)
    (key : AnyKey C.toCryptoOps) :
    roundtrip C.toCryptoOps kf ver enc key = .ok key.content ∨
    (∃ e, register C.toCryptoOps kf ver key = .err e ∧ roundtrip C.toCryptoOps kf ver enc key = .err e) ∨
    (∃ pk m, C.marshalPKCS8 pk = .panic m) ∨
    (¬ Valid key ∧ ∃ e, roundtrip C.toCryptoOps kf ver enc key = .err e) := by
  cases h : register C.toCryptoOps kf ver key with
  | err e => exact Or.inr (Or.inl ⟨e, rfl, by simp [roundtrip, h]⟩)
  | panic m =>
    obtain ⟨pk, hpk⟩ := Key.register_panic_only _ kf ver key m h
    exact Or.inr (Or.inr (Or.inl ⟨pk, m, hpk⟩))
  | ok o =>
    by_cases hv : Valid key
    · exact Or.inl (key_roundtrip C kf ver enc key hv o h)
    · cases key with
      | ecPriv k =>
        by_cases hf : ecdsaPrivFormat kf = kfTransparent
        · refine Or.inr (Or.inr (Or.inr ⟨hv, .range, ?_⟩))
          have := ecPriv_extract_invalid C kf ver k o hf hv h
          simp only [register] at h
          simp [roundtrip, register, h, transportObj_ok, extract, this]
        · left
          have := ecPriv_extract C kf ver k o (fun hc => absurd hc hf) h
          simp only [register] at h
          simp [roundtrip, register, h, transportObj_ok, extract, this, AnyKey.content]
      | rsaPriv k => exact absurd trivial hv
      | rsaPub k => exact absurd trivial hv
      | ecPub k => exact absurd trivial hv
      | sym a v => exact absurd trivial hv
      | secret a v => exact absurd trivial hv

/-- 14. the dynamically typed accessors (`CryptoPrivateKey`, `CryptoPublicKey`, `GetResponsePayload.
    PrivateKey/PublicKey`) return the same key as the typed ones, on every key block. -/
theorem crypto_accessors_agree (C : CryptoOps) (kb : KeyBlockV) :
    (∀ k, privRSA C kb = .ok k → privCrypto C kb = .ok (.rsa k)) ∧
    (∀ k, privECDSA C kb = .ok k → privCrypto C kb = .ok (.ecdsa k)) ∧
    (∀ k, pubRSA C kb = .ok k → pubCrypto C kb = .ok (.rsa k)) ∧
    (∀ k, pubECDSA C kb = .ok k → pubCrypto C kb = .ok (.ecdsa k)) :=
  ⟨privCrypto_of_privRSA C kb, privCrypto_of_privECDSA C kb, pubCrypto_of_pubRSA C kb,
    pubCrypto_of_pubECDSA C kb⟩

/-- 15. before d693174, stated exactly: of a key with more than two primes the builder silently kept the
    first two (`key.Primes[0]`, `key.Primes[1]`); what came back was the key rebuilt from those two. -/
theorem old_rsa_multiprime_truncated (C : Crypto) (kf : Nat) (k : C.RsaPriv) (p q : Int) (rest : List Int)
    (hp : (C.rsaPrivParts k).primes = p :: q :: rest) (hlen : bitLen (C.rsaPrivParts k).n ≤ maxInt32)
    (hf : rsaPrivFormat kf = kfTransparent) :
    ∃ o, registerRsaPrivOld C.toCryptoOps kf k = .ok o ∧
      getRsaPrivateKey C.toCryptoOps (respOf o) =
        .ok (C.rsaPrivBuild { C.rsaPrivParts k with primes := [p, q] }) :=
  rsaPriv_transparent_truncates C kf k p q rest hp hlen hf

/-- 15a. and a key with fewer than two primes made the old builder panic on the index. -/
theorem old_register_can_panic (C : CryptoOps) (kf : Nat) (k : C.RsaPriv)
    (hlen : bitLen (C.rsaPrivParts k).n ≤ maxInt32) (hf : rsaPrivFormat kf = kfTransparent)
    (hp : (C.rsaPrivParts k).primes.length < 2) : ∃ m, registerRsaPrivOld C kf k = .panic m :=
  registerRsaPrivOld_panics C kf k hlen hf hp

/-! ## 5. Non-vacuity: the laws of `Crypto` are satisfiable and the hypotheses of `key_roundtrip` hold -/

/-- the toy standard library satisfies every law; every toy RSA key is accepted by the builders (moduli
    below 2^(2^31)), so `key_roundtrip` applies to all of them. -/
example (kf : Nat) (ver : Nat × Nat) (enc : Enc) (k : Toy.RsaPriv) (h : bitLen k.n ≤ maxInt32) :
    roundtrip Toy.crypto.toCryptoOps kf ver enc (.rsaPriv k) = .ok (.rsaPriv k) := by
  have hlen : ¬ bitLen (Toy.crypto.toCryptoOps.rsaPrivParts k).n > maxInt32 := by
    show ¬ bitLen (k.n : Int) > maxInt32
    omega
  have hm : Toy.crypto.toCryptoOps.marshalPKCS8 (.rsa k) = .ok (3 :: Toy.serRsaPriv k) := rfl
  have hpr : (Toy.crypto.toCryptoOps.rsaPrivParts k).primes = [(k.p : Int), (k.q : Int)] := rfl
  cases hr : register Toy.crypto.toCryptoOps kf ver (.rsaPriv k) with
  | ok o => exact key_roundtrip Toy.crypto kf ver enc (.rsaPriv k) trivial o hr
  | err e =>
    exfalso
    simp only [register, registerRsaPriv, hlen, if_false, hm, hpr] at hr
    split at hr
    · cases hr
    · split at hr
      · cases hr
      · split at hr <;> cases hr
  | panic m =>
    exfalso
    simp only [register, registerRsaPriv, hlen, if_false, hm, hpr] at hr
    split at hr
    · cases hr
    · split at hr
      · cases hr
      · split at hr
        · cases hr
        · rcases rsaPrivFormat_mem kf with h | h | h <;> contradiction

/-- concrete instances, evaluated: an RSA key in the transparent format through JSON, an EC private key
    in the transparent format below and above 1.3, an EC public key through XML. -/
example : roundtrip Toy.crypto.toCryptoOps kfTransparent (1, 4) .json (.rsaPriv { n := 35, d := 5, p := 5, q := 7 })
    = .ok (.rsaPriv { n := 35, d := 5, p := 5, q := 7 }) :=
  key_roundtrip Toy.crypto _ _ _ _ trivial _ rfl

/-- a valid EC private key (scalar 9 on P-256) in the transparent format, through binary. -/
example : roundtrip Toy.crypto.toCryptoOps kfTransparent (1, 3) .ttlv (.ecPriv { crv := 1, d := 9 })
    = .ok (.ecPriv { crv := 1, d := 9 }) :=
  key_roundtrip Toy.crypto _ _ _ _ (show (0 : Int) < 9 ∧ (9 : Int) < Toy.curveOrder 7 by decide) _ rfl

example : ∃ t, register Toy.ops kfTransparent (1, 2) (.ecPriv { crv := 1, d := 9 }) =
    .ok (.privateKey (plainKB fTransparentECDSAPrivateKey 0 algECDSA 256 { ecdsaPriv := some t })) := ⟨_, rfl⟩
example : ∃ t, register Toy.ops kfTransparent (1, 3) (.ecPriv { crv := 1, d := 9 }) =
    .ok (.privateKey (plainKB fTransparentECPrivateKey 0 algECDSA 256 { ecPriv := some t })) := ⟨_, rfl⟩

example : roundtrip Toy.crypto.toCryptoOps kfTransparent (1, 0) .xml (.ecPub { crv := 3, x := 2, y := 3 })
    = .ok (.ecPub { crv := 3, x := 2, y := 3 }) :=
  key_roundtrip Toy.crypto _ _ _ _ trivial _ rfl

end Kmip.C14
