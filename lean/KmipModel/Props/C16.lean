/-
  C16 — Shutdown drains cleanly and connection hooks are paired.

  The statements are about the MODELLED state machine of the server (`Kmip.Server`: `Serve`,
  `Shutdown` statement by statement with its critical sections, the grace timer as a
  non-deterministic event, two anonymous connection slots in the abstracted form of their owner
  goroutine), for executions of any length and any interleaving, with `Shutdown` called at any
  moment, clients connecting / sending / disconnecting at any moment, connect hooks succeeding or
  failing, handlers returning or waiting for their context. Per connection, what reader and writer
  do (they end once the owner has closed the stream, whatever the client does) is `Kmip.C08`.
  The Go scheduler, the listener, real timers and goroutine reclamation are observed by the harness
  engine `lts.server` on the real server, which also checks that what it observes is a behaviour of
  this model.
-/
import KmipModel.Model.Server
import KmipModel.Gen.CertServer
import KmipModel.Lemmas.LtsLemmas
namespace Kmip.C16
open Kmip.Lts Kmip.Server

theorem server_cert :
    closedUnder (sys current) coding Gen.certServer = true ∧
    safeOn coding Gen.certServer (bad current) = true :=
  cert_of_ok (by decide +kernel) Gen.certServer_ok

theorem server_closed : closedUnder (sys current) coding Gen.certServer = true := server_cert.1

theorem server_safe : ∀ x, Reachable (sys current) x → bad current x = false :=
  safe_of_cert server_closed server_cert.2

/-- once `Shutdown` has returned: the listener is closed; the accept loop has ended with the
    shutdown error or can only end so; both contexts are cancelled; no handler is running; no owner
    goroutine is alive (so none can start a handler); the WaitGroup is at zero; the timer is not
    pending. -/
theorem after_shutdown : ∀ x, Reachable (sys current) x → x.s = .returned →
    x.lClosed = true ∧ acceptEnds x = true ∧ x.recvCtx = true ∧ x.srvCtx = true ∧
    x.c0.handling = false ∧ x.c1.handling = false ∧ x.c0.alive = false ∧ x.c1.alive = false ∧
    x.wg = .w0 ∧ x.tm ≠ .armed := by
  intro x hr hs
  have h := (bad_parts (server_safe x hr)).2.1
  have hret : returned x = true := by simp [returned, SPc.is, hs, SPc.toNat]
  simp only [afterShutdownBad, hret, Bool.true_and, Bool.or_eq_false_iff] at h
  obtain ⟨⟨⟨⟨⟨⟨⟨⟨⟨h1, h2⟩, h3⟩, h4⟩, h5⟩, h6⟩, h7⟩, h8⟩, h9⟩, h10⟩ := h
  refine ⟨by simpa using h1, by simpa using h2, by simpa using h4, by simpa using h3, h5, h6, h7, h8,
    ?_, ?_⟩
  · cases hw : x.wg <;> simp [hw, Wg.toNat] at h9 ⊢
  · intro ht; simp [Tm.is, ht, Tm.toNat] at h10

/-- in flight requests: a handler that waits for its context is cancelled through the server
    context only after the grace timer has fired (never earlier); handlers that return are waited
    for (`after_shutdown`: none is running when `Shutdown` returns). The WaitGroup never goes
    negative and a terminate hook never runs twice. -/
theorem drained : ∀ x, Reachable (sys current) x → x.fault = .none := by
  intro x hr
  have h := (bad_parts (server_safe x hr)).1
  cases hf : x.fault <;> simp [Fault.is, Fault.toNat, hf] at h ⊢

/-- every quiescent state after `Shutdown` has returned (nothing the server can do by itself is
    left) has all goroutines of all connections ended (owner, reader, writer) and the accept loop
    ended with the shutdown error. -/
theorem goroutines_end : ∀ x, Reachable (sys current) x → x.s = .returned →
    quiescent current x = true →
    x.c0.quiet = true ∧ x.c1.quiet = true ∧ x.a = .endShutdown := by
  intro x hr hs hq
  have h := (bad_parts (server_safe x hr)).2.2.1
  have hret : returned x = true := by simp [returned, SPc.is, hs, SPc.toNat]
  simp only [goroutinesBad, hret, hq, Bool.true_and, Bool.not_eq_false', Bool.and_eq_true] at h
  refine ⟨h.1.1, h.1.2, ?_⟩
  have ha := h.2
  cases hx : x.a <;> simp [APc.is, APc.toNat, hx] at ha ⊢

/-- hook pairing, for each connection and at all times: the terminate hook has run at most once
    (`drained`), only if the connect hook succeeded, not before the connection's last handler has
    ended (never while it is started / idle / handling / leaving), and exactly once when the owner
    goroutine has run its deferred calls (closing / winding / ended) after a successful connect hook
    — never for a connection whose connect hook failed or that was refused. -/
theorem hooks_paired : ∀ x, Reachable (sys current) x → ∀ c, (c = x.c0 ∨ c = x.c1) →
    (c.termRan = true → c.hookOk = true) ∧
    (c.termRan = true → c.pc = .closing ∨ c.pc = .winding ∨ c.pc = .ended) ∧
    ((c.pc = .closing ∨ c.pc = .winding ∨ c.pc = .ended) → c.termRan = c.hookOk) ∧
    (c.pc = .refused → c.hookOk = false ∧ c.termRan = false) := by
  intro x hr c hc
  have hp := bad_parts (server_safe x hr)
  have h : c.hooksBad = false := by
    rcases hc with rfl | rfl
    · exact hp.2.2.2.1
    · exact hp.2.2.2.2.1
  simp only [Conn.hooksBad, Bool.or_eq_false_iff, Bool.and_eq_false_iff] at h
  cases hpc : c.pc <;> cases ht : c.termRan <;> cases hk : c.hookOk <;>
    simp [CPc.is, CPc.toNat, hpc, ht, hk] at h ⊢

/-- the WaitGroup counts exactly the owner goroutines that are registered and have not called
    `Done` — in particular a connection is registered BEFORE `Shutdown` can pass its `Wait`. -/
theorem wg_exact : ∀ x, Reachable (sys current) x → x.wg.toNat = wgExpected x := by
  intro x hr
  exact Nat.eq_of_beq_eq_true (bad_parts (server_safe x hr)).2.2.2.2.2

/-- isolation (hand-proved, for every state and BOTH parameter valuations): a step of one connection
    leaves the other connection exactly as it was, in one of the two (sorted) slots. Connections
    interact only through `wg` and the shared monotone contexts; reader / writer level isolation
    for ANY number of connections is `Kmip.C08.isolation`. -/
theorem conn_isolated (x : State) :
    (∀ e ∈ conn x x.c0 x.c1, e.2.c0 = x.c1 ∨ e.2.c1 = x.c1) ∧
    (∀ e ∈ conn x x.c1 x.c0, e.2.c0 = x.c0 ∨ e.2.c1 = x.c0) :=
  ⟨Server.conn_isolated x x.c0 x.c1 (Or.inr rfl), Server.conn_isolated x x.c1 x.c0 (Or.inl rfl)⟩

/-! ### the repaired defect, exhibited by the same model under the OLD parameter -/

/-- before 267c9a5 (`wg.Add` after `Accept`, unordered with `Shutdown`): `Accept` hands out a
    connection; `Shutdown` runs to completion (the counter is still 0, `Wait` returns) and returns;
    THEN the accept loop registers the connection and starts its goroutine: an owner goroutine (its
    connect hook, its handlers' prologue) runs after `Shutdown` has returned. -/
theorem old_add_after_wait :
    ∃ x, Reachable (sys oldAddAfterWait) x ∧ (returned x && (x.c0.alive || x.c1.alive)) = true :=
  exists_reachable_of_follow (sys oldAddAfterWait) [0, 1, 1, 1, 1, 1, 0, 0, 1, 1] _ (by decide +kernel)

/-! ### non-vacuity -/

/-- `Shutdown` does return in the model with two served connections whose terminate hooks have run,
    after the grace timer had to fire (a handler was waiting for its context). -/
example : ∃ x, Reachable (sys current) x ∧
    (returned x && x.c0.termRan && x.c1.termRan && x.tm.is .fired) = true :=
  exists_reachable_of_follow (sys current)
    [0, 0, 0, 0, 0, 0, 0, 0, 0, 0, 0, 0, 1, 1, 1, 1, 1, 2, 2, 1, 1, 1, 2, 1, 1, 1] _ (by decide +kernel)

end Kmip.C16
