package main

// Engine `registry` (property C17), second part:
//   - the PINNED registry, obtained from the Lean driver (`reg.pin …`, one source of truth: lean/KmipModel/Pinned),
//     compared with the real code by impl-side oracles; the pin is a LOWER BOUND: a pinned entry that is missing,
//     renamed or renumbered is a violation, an entry the library has IN ADDITION is an extension (information);
//   - the Go types behind the registries, found by reflection over the library's message types (no list to keep
//     up to date), and the Go-type -> tag maps (ttlv.enums, ttlv.bitmasks, ttlv.tagByType);
//   - typed values: what Encoder.TagAny(elem, T(v)) writes under an element tag that is not the enumeration's
//     own tag (attribute values, MaskGeneratorHashingAlgorithm, …) and what Decoder.TagAny reads back.

import (
	"encoding/json"
	"fmt"
	"math/big"
	"reflect"
	"sort"
	"strconv"
	"strings"
	"time"

	kmip "github.com/ovh/kmip-go"
	"github.com/ovh/kmip-go/ttlv"

	"verifharness/internal/model"
)

// ---- the pin ------------------------------------------------------------------------------------------

type pinPair struct {
	tag  int
	num  uint32
	name string
}

type regPin struct {
	tags        []pinPair // tagNames   (num = tag number)
	tagsByName  []pinPair // tagByName
	enumTags    []int
	enums       []pinPair // (enum tag, value, name) of the value -> name tables
	enumsByName []pinPair
	maskTags    []int
	masks       []pinPair // (mask tag, bit position, name)
	masksByName []pinPair // (mask tag, flag pattern, name)
	enumTypes   map[string]int
	maskTypes   map[string]int
}

var pinCommands = []string{"tags", "tagsbyname", "enumtags", "enums", "enumsbyname", "masktags", "masks", "masksbyname", "enumtypes", "masktypes"}

// loadPin asks the Lean driver for the pinned registry. Any failure is LOST EVIDENCE (reported loudly).
func loadPin(ctx *Ctx) *regPin {
	lines := make([]string, len(pinCommands))
	for i, c := range pinCommands {
		lines[i] = "reg.pin " + c
	}
	ans, err := model.Run(lines)
	if err != nil {
		ctx.Res.Fail("lost evidence: the pinned registry could not be obtained from the model (" + err.Error() + "): no comparison with the pin was made")
		return nil
	}
	p := &regPin{enumTypes: map[string]int{}, maskTypes: map[string]int{}}
	bad := func(what, tok string) *regPin {
		ctx.Res.Fail(fmt.Sprintf("lost evidence: cannot parse the model's answer to `reg.pin %s` at %q: no comparison with the pin was made", what, tok))
		return nil
	}
	for i, a := range ans {
		what := pinCommands[i]
		f := strings.Fields(a)
		if len(f) == 0 || f[0] != "ok" {
			return bad(what, a)
		}
		for _, tok := range f[1:] {
			tag := 0
			rest := tok
			if k := strings.IndexByte(tok, '/'); k >= 0 {
				t, err := strconv.Atoi(tok[:k])
				if err != nil {
					return bad(what, tok)
				}
				tag, rest = t, tok[k+1:]
			}
			kv := strings.SplitN(rest, ":", 2)
			num := func(s string) (uint32, bool) {
				v, err := strconv.ParseUint(s, 10, 32)
				return uint32(v), err == nil
			}
			switch what {
			case "enumtags", "masktags":
				t, err := strconv.Atoi(tok)
				if err != nil {
					return bad(what, tok)
				}
				if what == "enumtags" {
					p.enumTags = append(p.enumTags, t)
				} else {
					p.maskTags = append(p.maskTags, t)
				}
				continue
			}
			if len(kv) != 2 {
				return bad(what, tok)
			}
			var pr pinPair
			pr.tag = tag
			numFirst := what == "tags" || what == "enums" || what == "masks"
			ns, hs := kv[1], kv[0]
			if numFirst {
				ns, hs = kv[0], kv[1]
			}
			n, ok1 := num(ns)
			name, ok2 := regUnhex(hs)
			if !ok1 || !ok2 {
				return bad(what, tok)
			}
			pr.num, pr.name = n, name
			switch what {
			case "tags":
				p.tags = append(p.tags, pr)
			case "tagsbyname":
				p.tagsByName = append(p.tagsByName, pr)
			case "enums":
				p.enums = append(p.enums, pr)
			case "enumsbyname":
				p.enumsByName = append(p.enumsByName, pr)
			case "masks":
				p.masks = append(p.masks, pr)
			case "masksbyname":
				p.masksByName = append(p.masksByName, pr)
			case "enumtypes":
				p.enumTypes[name] = int(n)
			case "masktypes":
				p.maskTypes[name] = int(n)
			}
		}
	}
	if len(p.tags) == 0 || len(p.enums) == 0 || len(p.masks) == 0 || len(p.enumTypes) == 0 || len(p.maskTypes) == 0 {
		ctx.Res.Fail(fmt.Sprintf("lost evidence: the pinned registry handed over by the model is empty (tags=%d enum values=%d flags=%d enum types=%d mask types=%d)", len(p.tags), len(p.enums), len(p.masks), len(p.enumTypes), len(p.maskTypes)))
		return nil
	}
	ctx.Res.Count(fmt.Sprintf("pin.tags=%d", len(p.tags)))
	ctx.Res.Count(fmt.Sprintf("pin.enums=%d", len(p.enumTags)))
	ctx.Res.Count(fmt.Sprintf("pin.enumvalues=%d", len(p.enums)))
	ctx.Res.Count(fmt.Sprintf("pin.maskflags=%d", len(p.masks)))
	ctx.Res.Count(fmt.Sprintf("pin.types=%d", len(p.enumTypes)+len(p.maskTypes)))
	return p
}

// liveTables indexes the dump of the live registry.
type liveTables struct {
	tags        map[int]string
	tagsByName  map[string]int
	enums       map[int]map[uint32]string
	enumsByName map[int]map[string]uint32
	masks       map[int][]string
	masksByName map[int]map[string]uint32
	enumTypes   map[string]int
	maskTypes   map[string]int
	typeTags    map[string]int
}

func indexDump(d ttlv.VerifRegistry) *liveTables {
	l := &liveTables{tags: map[int]string{}, tagsByName: map[string]int{}, enums: map[int]map[uint32]string{}, enumsByName: map[int]map[string]uint32{},
		masks: map[int][]string{}, masksByName: map[int]map[string]uint32{}, enumTypes: map[string]int{}, maskTypes: map[string]int{}, typeTags: map[string]int{}}
	for _, t := range d.Tags {
		l.tags[int(t.Value)] = t.Name
	}
	for _, t := range d.TagsByName {
		l.tagsByName[t.Name] = int(t.Value)
	}
	for _, e := range d.Enums {
		l.enums[e.Tag] = map[uint32]string{}
		l.enumsByName[e.Tag] = map[string]uint32{}
		for _, x := range e.ByValue {
			l.enums[e.Tag][uint32(x.Value)] = x.Name
		}
		for _, x := range e.ByName {
			l.enumsByName[e.Tag][x.Name] = uint32(x.Value)
		}
	}
	for _, m := range d.Bitmasks {
		l.masks[m.Tag] = m.Names
		l.masksByName[m.Tag] = map[string]uint32{}
		for _, x := range m.ByName {
			l.masksByName[m.Tag][x.Name] = uint32(int32(x.Value))
		}
	}
	for _, t := range d.EnumTypes {
		l.enumTypes[t.Name] = int(t.Value)
	}
	for _, t := range d.BitmaskTypes {
		l.maskTypes[t.Name] = int(t.Value)
	}
	for _, t := range d.TypeTags {
		l.typeTags[t.Name] = int(t.Value)
	}
	return l
}

// oraclePin: every pinned entry is answered by the PUBLIC functions of the library as the pin says, in both
// directions. Then: what the live registry has in addition (information), and the two summary questions
// (`covers` = the obligation C17.registry_agrees, `equal` = the information flag C17.registry_equals_pin) as
// correspondence cases, so that the Go-side and the Lean-side comparison with the pin are themselves compared.
func (e *regEnv) oraclePin(ctx *Ctx) {
	p, l := e.pin, e.live
	if p == nil {
		return
	}
	covers := true
	miss := func(oracle, key, detail, line string) {
		covers = false
		e.violate(ctx, "C17", oracle, key, detail, line)
	}
	// --- tags ---
	for _, t := range p.tags {
		ctx.Res.Count("oracle.pin.tag")
		num := int(t.num)
		line := fmt.Sprintf("reg.tagname %d", num)
		if got, ok := l.tags[num]; !ok || got != t.name {
			miss("pinned-tag", fmt.Sprintf("pin:tag:0x%06X:name", num), fmt.Sprintf("the pin has tag 0x%06X = %q, ttlv.tagNames has %q (registered: %v)", num, t.name, got, ok), line)
		}
		if got := ttlv.TagString(num); got != t.name {
			miss("pinned-tag", fmt.Sprintf("pin:tag:0x%06X:name", num), fmt.Sprintf("the pin has tag 0x%06X = %q, TagString answers %q", num, t.name, got), line)
		}
	}
	for _, t := range p.tagsByName {
		ctx.Res.Count("oracle.pin.tag")
		num := int(t.num)
		line := "reg.tagnum " + regHex(t.name)
		if got, ok := l.tagsByName[t.name]; !ok || got != num {
			miss("pinned-tag", "pin:tagname:"+t.name+":number", fmt.Sprintf("the pin has name %q = 0x%06X, ttlv.tagByName has 0x%06X (registered: %v)", t.name, num, got, ok), line)
		}
		if got, ok := readTagName(t.name); !ok || got != num {
			miss("pinned-tag", "pin:tagname:"+t.name+":number", fmt.Sprintf("the pin has name %q = 0x%06X, the XML/JSON readers resolve it to 0x%06X", t.name, num, got), line)
		}
	}
	// --- enumerations ---
	for _, x := range p.enums {
		ctx.Res.Count("oracle.pin.enumvalue")
		tn := p.tagName(x.tag)
		line := fmt.Sprintf("reg.enumname %d %d", x.tag, x.num)
		if got, ok := l.enums[x.tag][x.num]; !ok || got != x.name {
			miss("pinned-enum", fmt.Sprintf("pin:enum:%s:0x%X:name", tn, x.num), fmt.Sprintf("the pin has %s 0x%X = %q, ttlv.enumNames has %q (registered: %v)", tn, x.num, x.name, got, ok), line)
		}
		if got := ttlv.EnumName(x.tag, x.num); got != x.name {
			miss("pinned-enum", fmt.Sprintf("pin:enum:%s:0x%X:name", tn, x.num), fmt.Sprintf("the pin has %s 0x%X = %q, EnumName answers %q", tn, x.num, x.name, got), line)
		}
	}
	for _, x := range p.enumsByName {
		ctx.Res.Count("oracle.pin.enumvalue")
		tn := p.tagName(x.tag)
		line := fmt.Sprintf("reg.enumbyname %d %s", x.tag, regHex(x.name))
		if got, ok := l.enumsByName[x.tag][x.name]; !ok || got != x.num {
			miss("pinned-enum", fmt.Sprintf("pin:enum:%s:%s:number", tn, x.name), fmt.Sprintf("the pin has %s %q = 0x%X, ttlv.enumsByName has 0x%X (registered: %v)", tn, x.name, x.num, got, ok), line)
		}
		if got, err := ttlv.EnumByName(x.tag, x.name); err != nil || got != x.num {
			miss("pinned-enum", fmt.Sprintf("pin:enum:%s:%s:number", tn, x.name), fmt.Sprintf("the pin has %s %q = 0x%X, EnumByName answers 0x%X (%v)", tn, x.name, x.num, got, err), line)
		}
	}
	// --- masks ---
	for _, x := range p.masks {
		ctx.Res.Count("oracle.pin.maskflag")
		tn := p.tagName(x.tag)
		want := uint32(1) << x.num
		line := fmt.Sprintf("reg.masktext %d 7C %d", x.tag, want)
		names := l.masks[x.tag]
		if int(x.num) >= len(names) || names[x.num] != x.name {
			got := ""
			if int(x.num) < len(names) {
				got = names[x.num]
			}
			miss("pinned-mask", fmt.Sprintf("pin:mask:%s:%d:name", tn, x.num), fmt.Sprintf("the pin has %s bit %d = %q, ttlv.bitmaskNames has %q", tn, x.num, x.name, got), line)
		}
		if got := string(ttlv.AppendBitmaskString(nil, x.tag, int32(want), "|")); got != x.name {
			miss("pinned-mask", fmt.Sprintf("pin:mask:%s:%d:name", tn, x.num), fmt.Sprintf("the pin has %s bit %d = %q, the flag 0x%X is written %q", tn, x.num, x.name, want, got), line)
		}
	}
	for _, x := range p.masksByName {
		ctx.Res.Count("oracle.pin.maskflag")
		tn := p.tagName(x.tag)
		line := fmt.Sprintf("reg.maskbyname %d %s", x.tag, regHex(x.name))
		if got, ok := l.masksByName[x.tag][x.name]; !ok || got != x.num {
			miss("pinned-mask", fmt.Sprintf("pin:mask:%s:%s:number", tn, x.name), fmt.Sprintf("the pin has %s %q = 0x%X, ttlv.bitmaskByName has 0x%X (registered: %v)", tn, x.name, x.num, got, ok), line)
		}
		if got, err := ttlv.BitmaskByStr(x.tag, x.name); err != nil || uint32(got) != x.num {
			miss("pinned-mask", fmt.Sprintf("pin:mask:%s:%s:number", tn, x.name), fmt.Sprintf("the pin has %s %q = 0x%X, BitmaskByStr answers 0x%X (%v)", tn, x.name, x.num, uint32(got), err), line)
		}
	}
	// --- Go types ---
	checkType := func(kind string, pinned, live map[string]int) {
		for _, ty := range sortedKeys(pinned) {
			ctx.Res.Count("oracle.pin.type")
			tag := pinned[ty]
			line := fmt.Sprintf("reg.typed%s %s %d 1", kind, regHex(ty), tag)
			if kind == "mask" {
				line = fmt.Sprintf("reg.typedmask %s %d 20 1", regHex(ty), tag)
			}
			if got, ok := live[ty]; !ok || got != tag {
				miss("pinned-type", "pin:type:"+ty, fmt.Sprintf("the pin has the %s type %s with the table of tag 0x%06X (%s); the library registers it with 0x%06X (registered: %v)", kind, ty, tag, p.tagName(tag), got, ok), line)
			}
			// (the default tag is not part of `covers`: the Lean checker compares ttlv.enums / ttlv.bitmasks with the
			// pin and ties ttlv.tagByType to them by `typesWF`)
			if got, ok := l.typeTags[ty]; !ok || got != tag {
				e.violate(ctx, "C17", "pinned-type", "pin:type:"+ty+":default-tag", fmt.Sprintf("the pin has the %s type %s with tag 0x%06X (%s); its default tag (ttlv.tagByType, what typed fields are written with) is 0x%06X (registered: %v)", kind, ty, tag, p.tagName(tag), got, ok), line)
			}
			if rt, ok := e.types[ty]; ok {
				if got, ok := ttlv.VerifTagForType(rt); !ok || got != tag {
					e.violate(ctx, "C17", "pinned-type", "pin:type:"+ty+":default-tag", fmt.Sprintf("getTagForType(%s) = 0x%06X (%v), pinned 0x%06X", ty, got, ok, tag), line)
				}
			}
		}
	}
	checkType("enum", p.enumTypes, l.enumTypes)
	checkType("mask", p.maskTypes, l.maskTypes)

	// --- what the library has IN ADDITION to the pin: an extension, reported as information ---
	equal := covers
	ext := func(class, what string) {
		equal = false
		ctx.Res.Count("extension." + class)
		if ctx.Res.Distribution["extension."+class] <= 40 {
			ctx.Res.Count("extension." + class + ":" + what)
		}
	}
	pinTags := map[int]string{}
	for _, t := range p.tags {
		pinTags[int(t.num)] = t.name
	}
	pinTagsByName := map[string]int{}
	for _, t := range p.tagsByName {
		pinTagsByName[t.name] = int(t.num)
	}
	for _, t := range e.dump.Tags {
		if _, ok := pinTags[int(t.Value)]; !ok {
			ext("tag", fmt.Sprintf("0x%06X=%s", t.Value, t.Name))
		}
	}
	for _, t := range e.dump.TagsByName {
		if _, ok := pinTagsByName[t.Name]; !ok {
			ext("tagname", fmt.Sprintf("%s=0x%06X", t.Name, t.Value))
		}
	}
	pinEnumTag := map[int]bool{}
	for _, t := range p.enumTags {
		pinEnumTag[t] = true
	}
	pinEnum := map[string]bool{}
	for _, x := range p.enums {
		pinEnum[fmt.Sprintf("%d/%d", x.tag, x.num)] = true
	}
	pinEnumByName := map[string]bool{}
	for _, x := range p.enumsByName {
		pinEnumByName[fmt.Sprintf("%d/%s", x.tag, x.name)] = true
	}
	for _, en := range e.dump.Enums {
		if !pinEnumTag[en.Tag] {
			ext("enum", fmt.Sprintf("0x%06X=%s", en.Tag, ttlv.TagString(en.Tag)))
		}
		for _, x := range en.ByValue {
			if !pinEnum[fmt.Sprintf("%d/%d", en.Tag, x.Value)] {
				ext("enumvalue", fmt.Sprintf("%s.0x%X=%s", ttlv.TagString(en.Tag), x.Value, x.Name))
			}
		}
		for _, x := range en.ByName {
			if !pinEnumByName[fmt.Sprintf("%d/%s", en.Tag, x.Name)] {
				ext("enumname", fmt.Sprintf("%s.%s=0x%X", ttlv.TagString(en.Tag), x.Name, x.Value))
			}
		}
	}
	pinMaskTag := map[int]bool{}
	for _, t := range p.maskTags {
		pinMaskTag[t] = true
	}
	pinFlags := map[int]int{}
	for _, x := range p.masks {
		pinFlags[x.tag]++
	}
	pinMaskByName := map[string]bool{}
	for _, x := range p.masksByName {
		pinMaskByName[fmt.Sprintf("%d/%s", x.tag, x.name)] = true
	}
	for _, m := range e.dump.Bitmasks {
		if !pinMaskTag[m.Tag] {
			ext("mask", fmt.Sprintf("0x%06X=%s", m.Tag, ttlv.TagString(m.Tag)))
		}
		for i := pinFlags[m.Tag]; i < len(m.Names); i++ {
			ext("maskflag", fmt.Sprintf("%s.bit%d=%s", ttlv.TagString(m.Tag), i, m.Names[i]))
		}
		for _, x := range m.ByName {
			if !pinMaskByName[fmt.Sprintf("%d/%s", m.Tag, x.Name)] {
				ext("maskname", fmt.Sprintf("%s.%s=0x%X", ttlv.TagString(m.Tag), x.Name, uint32(int32(x.Value))))
			}
		}
	}
	for _, t := range e.dump.EnumTypes {
		if _, ok := p.enumTypes[t.Name]; !ok {
			ext("enumtype", fmt.Sprintf("%s=0x%06X", t.Name, t.Value))
		}
	}
	for _, t := range e.dump.BitmaskTypes {
		if _, ok := p.maskTypes[t.Name]; !ok {
			ext("masktype", fmt.Sprintf("%s=0x%06X", t.Name, t.Value))
		}
	}
	// `equal` is an equality of INDEXES on the Lean side (equalsRegistry): a pinned enumeration / mask whose table is
	// not live at all - possible without `covers` failing when the pinned table is empty, as OpaqueDataType's - makes
	// it false (information, like an extension: an absent table and an empty one answer every question alike)
	liveTab := map[int]bool{}
	for _, en := range e.dump.Enums {
		liveTab[en.Tag] = true
	}
	for _, t := range p.enumTags {
		if !liveTab[t] {
			equal = false
			ctx.Res.Count(fmt.Sprintf("pin.table-not-live:enum:0x%06X", t))
		}
	}
	liveTab = map[int]bool{}
	for _, m := range e.dump.Bitmasks {
		liveTab[m.Tag] = true
	}
	for _, t := range p.maskTags {
		if !liveTab[t] {
			equal = false
			ctx.Res.Count(fmt.Sprintf("pin.table-not-live:mask:0x%06X", t))
		}
	}
	// the pin's own index must not list an enumeration / mask twice for `equal` (the Lean checker demands it)
	ctx.Res.Count(fmt.Sprintf("registry.covers-pin=%v", covers))
	ctx.Res.Count(fmt.Sprintf("registry.equals-pin=%v", equal))
	ctx.Add("reg.pin covers", fmt.Sprintf("ok %v", covers), true, "C17")
	ctx.Add("reg.pin equal", fmt.Sprintf("ok %v", equal), true, "C17")
}

func (p *regPin) tagName(tag int) string {
	for _, t := range p.tags {
		if int(t.num) == tag {
			return t.name
		}
	}
	return fmt.Sprintf("0x%06X", tag)
}

func sortedKeys(m map[string]int) []string {
	res := make([]string, 0, len(m))
	for k := range m {
		res = append(res, k)
	}
	sort.Strings(res)
	return res
}

// readTagName resolves a tag name through the JSON and the XML reader (they must agree).
func readTagName(name string) (int, bool) {
	var v ttlv.Value
	if err := ttlv.UnmarshalJSON([]byte(`{"tag": `+jsonString(name)+`, "type": "Integer", "value": 1}`), &v); err != nil {
		return 0, false
	}
	var w ttlv.Value
	if err := ttlv.UnmarshalXML([]byte(`<TTLV tag="`+xmlAttrEscape(name)+`" type="Integer" value="1"/>`), &w); err != nil || w.Tag != v.Tag {
		return v.Tag, false
	}
	return v.Tag, true
}

// ---- the Go types, by reflection -------------------------------------------------------------------------

// typedUse: the library's own structures carry a value of the enumeration / mask type `ty` under element tag `elem`.
type typedUse struct {
	ty    reflect.Type
	elem  int
	where string
}

// discoverTypes walks every message type of the library (request/response messages, the payload types of the
// operation registry, the managed objects, the attribute value types) and returns the enumeration and mask Go
// types it meets (by `reflect.Type.String()`) and the element tags under which they are carried.
func discoverTypes() (map[string]reflect.Type, []typedUse, []string) {
	types := map[string]reflect.Type{}
	var uses []typedUse
	var problems []string
	seen := map[reflect.Type]bool{}
	tTime, tBig := reflect.TypeFor[time.Time](), reflect.TypeFor[big.Int]()
	strip := func(t reflect.Type) reflect.Type {
		for t.Kind() == reflect.Pointer || t.Kind() == reflect.Slice || t.Kind() == reflect.Array {
			t = t.Elem()
		}
		return t
	}
	isTyped := func(t reflect.Type) bool { return ttlv.VerifIsEnum(t) || ttlv.VerifIsBitmask(t) }
	var visit func(t reflect.Type)
	visit = func(t reflect.Type) {
		t = strip(t)
		if seen[t] {
			return
		}
		seen[t] = true
		if isTyped(t) {
			types[t.String()] = t
			return
		}
		if t.Kind() != reflect.Struct || t == tTime || t == tBig {
			return
		}
		for i := 0; i < t.NumField(); i++ {
			f := t.Field(i)
			if !f.IsExported() {
				continue
			}
			ft := strip(f.Type)
			if isTyped(ft) {
				types[ft.String()] = ft
				func() {
					defer func() {
						if r := recover(); r != nil {
							problems = append(problems, fmt.Sprintf("%s.%s: %v", t, f.Name, r))
						}
					}()
					if info := ttlv.VerifGetFieldInfo(f); !info.Skip && info.Tag != 0 {
						uses = append(uses, typedUse{ft, info.Tag, t.String() + "." + f.Name})
					}
				}()
			}
			visit(f.Type)
		}
	}
	visit(reflect.TypeFor[kmip.RequestMessage]())
	visit(reflect.TypeFor[kmip.ResponseMessage]())
	for _, op := range kmip.VerifDumpOperations() {
		visit(op.Request)
		visit(op.Response)
	}
	for ot := uint32(0); ot < 64; ot++ {
		if obj, err := kmip.NewObjectForType(kmip.ObjectType(ot)); err == nil {
			visit(reflect.TypeOf(obj))
		}
	}
	for _, a := range kmip.VerifDumpAttrTypes() {
		visit(a.Type)
		if ft := strip(a.Type); isTyped(ft) {
			uses = append(uses, typedUse{ft, kmip.TagAttributeValue, "attribute " + string(a.Name)})
		}
	}
	return types, uses, problems
}

// oracleTypes: the Go-type -> tag maps, on their own (the Go counterpart of `typesWF`): an enumeration / mask
// type has ONE table, which is also its default tag (what typed fields are written and read with); two types
// never share a table; the tag is a registered one; every table has its type.
func (e *regEnv) oracleTypes(ctx *Ctx) {
	check := func(kind string, list []ttlv.VerifNamed, tables map[int]bool) {
		byTag := map[int]string{}
		for _, t := range list {
			ctx.Res.Count("oracle.type")
			tag := int(t.Value)
			line := fmt.Sprintf("reg.typed%s %s %d 1", kind, regHex(t.Name), tag)
			if kind == "mask" {
				line = fmt.Sprintf("reg.typedmask %s %d 20 1", regHex(t.Name), tag)
			}
			if def, ok := e.live.typeTags[t.Name]; !ok || def != tag {
				e.violate(ctx, "C17", "type-table", "type:"+t.Name+":default-tag", fmt.Sprintf("%s type %s is registered with the table of tag 0x%06X (%s) but its default tag (ttlv.tagByType: what typed fields are written and read with) is 0x%06X (%s)", kind, t.Name, tag, ttlv.TagString(tag), def, ttlv.TagString(def)), line)
			}
			if other, dup := byTag[tag]; dup {
				e.violate(ctx, "C17", "type-table", fmt.Sprintf("type:shared-table:0x%06X", tag), fmt.Sprintf("the %s types %s and %s share the table of tag 0x%06X (%s)", kind, other, t.Name, tag, ttlv.TagString(tag)), line)
			}
			byTag[tag] = t.Name
			if _, ok := e.live.tags[tag]; !ok || tag <= 0 {
				e.violate(ctx, "C17", "type-table", "type:"+t.Name+":unregistered-tag", fmt.Sprintf("%s type %s is registered with tag 0x%06X, which has no name", kind, t.Name, tag), line)
			}
		}
		for _, tag := range sortedInts(tables) {
			if _, ok := byTag[tag]; !ok {
				e.violate(ctx, "C17", "type-table", fmt.Sprintf("type:orphan-table:0x%06X", tag), fmt.Sprintf("the %s table of tag 0x%06X (%s) belongs to no Go type", kind, tag, ttlv.TagString(tag)), fmt.Sprintf("reg.enumname %d 1", tag))
			}
		}
	}
	et, mt := map[int]bool{}, map[int]bool{}
	for _, en := range e.dump.Enums {
		et[en.Tag] = true
	}
	for _, m := range e.dump.Bitmasks {
		mt[m.Tag] = true
	}
	check("enum", e.dump.EnumTypes, et)
	check("mask", e.dump.BitmaskTypes, mt)
}

func sortedInts(m map[int]bool) []int {
	res := make([]int, 0, len(m))
	for k := range m {
		res = append(res, k)
	}
	sort.Ints(res)
	return res
}

// ---- typed values ------------------------------------------------------------------------------------------

func typedEncode(form string, elem int, val any) []byte {
	var enc ttlv.Encoder
	switch form {
	case "xml":
		enc = ttlv.NewXMLEncoder()
	case "json":
		enc = ttlv.NewJSONEncoder()
	default:
		enc = ttlv.NewTextEncoder()
	}
	enc.TagAny(elem, val)
	return append([]byte(nil), enc.Bytes()...)
}

func typedDecode(form string, doc []byte, elem int, ptr any) error {
	var dec ttlv.Decoder
	var err error
	if form == "xml" {
		dec, err = ttlv.NewXMLDecoder(doc)
	} else {
		dec, err = ttlv.NewJSONDecoder(doc)
	}
	if err != nil {
		return err
	}
	return dec.TagAny(elem, ptr)
}

// writtenValue extracts the value text of a single-item document.
func writtenValue(form string, doc []byte) (string, bool) {
	switch form {
	case "xml":
		_, attrs, err := xmlRoot(doc)
		if err != nil {
			return "", false
		}
		v, ok := attrs["value"]
		return v, ok
	case "json":
		var m map[string]any
		if err := json.Unmarshal(doc, &m); err != nil {
			return "", false
		}
		s, ok := m["value"].(string)
		return s, ok
	default: // text: `<TagString> (<Type>): <value>`
		s := string(doc)
		k := strings.Index(s, "): ")
		if k < 0 || strings.Contains(s, "\n") {
			return "", false
		}
		return s[k+3:], true
	}
}

// textTagName extracts the tag name of a single-item text document.
func textTagName(doc []byte) (string, bool) {
	s := string(doc)
	k := strings.Index(s, " (")
	if k < 0 {
		return "", false
	}
	return s[:k], true
}

func newTyped(ty reflect.Type, v uint32) any {
	rv := reflect.New(ty).Elem()
	if rv.Kind() == reflect.Int32 {
		rv.SetInt(int64(int32(v)))
	} else {
		rv.SetUint(uint64(v))
	}
	return rv.Interface()
}

func typedNumber(ptr reflect.Value) uint32 {
	if ptr.Elem().Kind() == reflect.Int32 {
		return uint32(int32(ptr.Elem().Int()))
	}
	return uint32(ptr.Elem().Uint())
}

var typedForms = []string{"xml", "json", "text"}

// typedEnum: one value of one enumeration type under one element tag, through the three writers and the two
// readers: correspondence with the model (which chooses the table through Gen.typeTags) and the oracle
// "written by the registered name of the type's OWN enumeration, read back as the same number".
func (e *regEnv) typedEnum(ctx *Ctx, tyName string, elem int, v uint32) {
	ty, ok := e.types[tyName]
	own, isEnum := e.live.enumTypes[tyName]
	if !ok || !isEnum {
		return
	}
	line := fmt.Sprintf("reg.typedenum %s %d %d", regHex(tyName), elem, v)
	ctx.current = line
	want := e.live.enums[own][v] // the registered name in the type's own enumeration ("" if none)
	pinnedName := ""
	if e.pin != nil {
		if ptag, ok := e.pin.enumTypes[tyName]; ok {
			for _, x := range e.pin.enums {
				if x.tag == ptag && x.num == v {
					pinnedName = x.name
				}
			}
		}
	}
	class := "foreign-elem"
	switch {
	case elem == own:
		class = "own-tag"
	case elem == kmip.TagAttributeValue:
		class = "attribute-value"
	case e.usedUnder[tyName][elem]:
		class = "library-field"
	}
	ctx.Res.Count("typedenum." + class)
	for _, form := range typedForms {
		var doc []byte
		impl := guardStr("TagAny "+form, func() string {
			doc = typedEncode(form, elem, newTyped(ty, v))
			s, ok := writtenValue(form, doc)
			if !ok {
				return "err"
			}
			return "ok " + regHex(s)
		})
		regCase(ctx, line, impl, want != "", "typedenum."+form)
		got, _ := writtenValue(form, doc)
		key := fmt.Sprintf("typed:%s:%s:%s", form, tyName, class)
		if want != "" && got != want {
			e.violate(ctx, "C17", "typed-enum-written-by-name", key+":not-by-name", fmt.Sprintf("%s(0x%X) under element %s is written %q in %s, the registered name in %s is %q: %s", tyName, v, ttlv.TagString(elem), got, form, ttlv.TagString(own), want, doc), line)
		}
		if pinnedName != "" && got != pinnedName {
			e.violate(ctx, "C17", "pinned-typed-enum", fmt.Sprintf("pin:typed:%s:%s:%s", form, tyName, class), fmt.Sprintf("%s(0x%X) under element %s is written %q in %s, the pinned name is %q: %s", tyName, v, ttlv.TagString(elem), got, form, pinnedName, doc), line)
		}
		if form == "text" || strings.HasPrefix(impl, "panic") {
			continue
		}
		res, p := guard("TagAny round trip "+form, func() string {
			ptr := reflect.New(ty)
			if err := typedDecode(form, doc, elem, ptr.Interface()); err != nil {
				return fmt.Sprintf("reading fails: %v", err)
			}
			if back := typedNumber(ptr); back != v {
				return fmt.Sprintf("read back as 0x%08X", back)
			}
			return ""
		})
		if p != "" {
			res = "panic " + p
		}
		if res != "" {
			e.violate(ctx, "C17", "typed-enum-roundtrip", key+":"+classify(want), fmt.Sprintf("%s(0x%X) under element %s, %s: written %s, %s", tyName, v, ttlv.TagString(elem), form, doc, res), line)
		}
	}
}

// typedParse: Decoder.TagAny(elem, *T) on a string value.
func (e *regEnv) typedParse(ctx *Ctx, tyName string, elem int, text string) {
	ty, ok := e.types[tyName]
	if _, isEnum := e.live.enumTypes[tyName]; !ok || !isEnum {
		return
	}
	line := fmt.Sprintf("reg.typedparse %s %d %s", regHex(tyName), elem, regHex(text))
	ctx.current = line
	for _, form := range []string{"xml", "json"} {
		regCase(ctx, line, guardStr("TagAny "+form, func() string {
			var doc string
			if form == "xml" {
				doc = fmt.Sprintf(`<TTLV tag="0x%06X" type="Enumeration" value="%s"/>`, elem, xmlAttrEscape(text))
			} else {
				doc = fmt.Sprintf(`{"tag": "0x%06X", "type": "Enumeration", "value": %s}`, elem, jsonString(text))
			}
			ptr := reflect.New(ty)
			if err := typedDecode(form, []byte(doc), elem, ptr.Interface()); err != nil {
				return "err"
			}
			return fmt.Sprintf("ok %d", typedNumber(ptr))
		}), text != "", "typedparse."+form)
	}
}

// typedMask: one value of one mask type under one element tag.
func (e *regEnv) typedMask(ctx *Ctx, tyName string, elem int, v uint32) {
	ty, ok := e.types[tyName]
	own, isMask := e.live.maskTypes[tyName]
	if !ok || !isMask {
		return
	}
	names := e.live.masks[own]
	named := v != 0 && (len(names) >= 32 || v>>uint(len(names)) == 0)
	class := "foreign-elem"
	switch {
	case elem == own:
		class = "own-tag"
	case elem == kmip.TagAttributeValue:
		class = "attribute-value"
	}
	ctx.Res.Count("typedmask." + class)
	for _, f := range []struct{ form, sep string }{{"xml", " "}, {"json", "|"}, {"text", " | "}} {
		line := fmt.Sprintf("reg.typedmask %s %d %s %d", regHex(tyName), elem, regHex(f.sep), v)
		ctx.current = line
		var doc []byte
		impl := guardStr("TagAny "+f.form, func() string {
			doc = typedEncode(f.form, elem, newTyped(ty, v))
			s, ok := writtenValue(f.form, doc)
			if !ok {
				return "err"
			}
			return "ok " + regHex(s)
		})
		regCase(ctx, line, impl, v != 0, "typedmask."+f.form)
		got, _ := writtenValue(f.form, doc)
		key := fmt.Sprintf("typed:%s:%s:%s", f.form, tyName, class)
		if named {
			// registered flags only: the text is exactly the registered names of the type's OWN mask
			var parts []string
			for i := 0; i < len(names) && i < 32; i++ {
				if v&(uint32(1)<<uint(i)) != 0 {
					parts = append(parts, names[i])
				}
			}
			if want := strings.Join(parts, f.sep); got != want {
				e.violate(ctx, "C17", "typed-mask-written-by-name", key+":not-by-name", fmt.Sprintf("%s(0x%X) under element %s is written %q in %s, the registered flag names of %s give %q", tyName, v, ttlv.TagString(elem), got, f.form, ttlv.TagString(own), want), line)
			}
		}
		if f.form == "text" || !named || strings.HasPrefix(impl, "panic") {
			continue // zero / unnamed bits in XML and JSON are the business of C04 (see maskRoundTrip)
		}
		res, p := guard("TagAny round trip "+f.form, func() string {
			ptr := reflect.New(ty)
			if err := typedDecode(f.form, doc, elem, ptr.Interface()); err != nil {
				return fmt.Sprintf("reading fails: %v", err)
			}
			if back := typedNumber(ptr); back != v {
				return fmt.Sprintf("read back as 0x%08X", back)
			}
			return ""
		})
		if p != "" {
			res = "panic " + p
		}
		if res != "" {
			e.violate(ctx, "C17", "typed-mask-roundtrip", key, fmt.Sprintf("%s(0x%X) under element %s, %s: written %s, %s", tyName, v, ttlv.TagString(elem), f.form, doc, res), line)
		}
	}
}

func (e *regEnv) typedMaskParse(ctx *Ctx, tyName string, elem int, text string) {
	ty, ok := e.types[tyName]
	if _, isMask := e.live.maskTypes[tyName]; !ok || !isMask {
		return
	}
	for _, form := range []string{"xml", "json"} {
		line := fmt.Sprintf("reg.typedmask%s %s %d %s", form, regHex(tyName), elem, regHex(text))
		ctx.current = line
		regCase(ctx, line, guardStr("TagAny "+form, func() string {
			var doc string
			if form == "xml" {
				doc = fmt.Sprintf(`<TTLV tag="0x%06X" type="Integer" value="%s"/>`, elem, xmlAttrEscape(text))
			} else {
				doc = fmt.Sprintf(`{"tag": "0x%06X", "type": "Integer", "value": %s}`, elem, jsonString(text))
			}
			ptr := reflect.New(ty)
			if err := typedDecode(form, []byte(doc), elem, ptr.Interface()); err != nil {
				return "err"
			}
			return fmt.Sprintf("ok %d", typedNumber(ptr))
		}), text != "", "typedmask"+form)
	}
}

// oracleAttributes: every attribute of the library whose value type is an enumeration or a mask, as a real
// kmip.Attribute (AttributeName + AttributeValue) through XML, JSON (write + read) and the text writer, for
// EVERY registered value of the type: the value travels under the element tag AttributeValue, is written by the
// registered name of the type's own table and read back as the same typed number.
func (e *regEnv) oracleAttributes(ctx *Ctx) {
	n := 0
	for _, a := range kmip.VerifDumpAttrTypes() {
		ty := a.Type
		tyName := ty.String()
		var vals []uint32
		var nameOf func(v uint32) string
		if tag, ok := e.live.enumTypes[tyName]; ok && ttlv.VerifIsEnum(ty) {
			for v := range e.live.enums[tag] {
				vals = append(vals, v)
			}
			nameOf = func(v uint32) string { return e.live.enums[tag][v] }
		} else if tag, ok := e.live.maskTypes[tyName]; ok && ttlv.VerifIsBitmask(ty) {
			names := e.live.masks[tag]
			for i := range names {
				if i < 32 && names[i] != "" {
					vals = append(vals, uint32(1)<<uint(i))
				}
			}
			if len(names) >= 2 {
				vals = append(vals, 3)
			}
			nameOf = func(v uint32) string {
				var parts []string
				for i := 0; i < len(names) && i < 32; i++ {
					if v&(uint32(1)<<uint(i)) != 0 {
						parts = append(parts, names[i])
					}
				}
				return strings.Join(parts, "\x00") // separator checked per form below
			}
		} else {
			continue
		}
		sort.Slice(vals, func(i, j int) bool { return vals[i] < vals[j] })
		for _, v := range vals {
			n++
			ctx.Res.Count("oracle.attribute")
			line := fmt.Sprintf("#reg.attribute %s %s %d", regHex(string(a.Name)), regHex(tyName), v)
			ctx.current = line
			att := kmip.Attribute{AttributeName: a.Name, AttributeValue: newTyped(ty, v)}
			for _, f := range []struct{ form, sep string }{{"xml", " "}, {"json", "|"}, {"text", " | "}} {
				res, p := guard("Attribute "+f.form, func() string {
					var doc []byte
					switch f.form {
					case "xml":
						doc = ttlv.MarshalXML(&att)
					case "json":
						doc = ttlv.MarshalJSON(&att)
					default:
						doc = ttlv.MarshalText(&att)
					}
					want := strings.ReplaceAll(nameOf(v), "\x00", f.sep)
					var needle string
					switch f.form {
					case "xml":
						needle = `value="` + want + `"`
					case "json":
						needle = `"value": "` + want + `"`
					default:
						needle = "): " + want
					}
					if !strings.Contains(string(doc), needle) {
						return fmt.Sprintf("the value is not written by its registered name %q: %s", want, doc)
					}
					if f.form == "text" {
						return ""
					}
					var back kmip.Attribute
					var err error
					if f.form == "xml" {
						err = ttlv.UnmarshalXML(doc, &back)
					} else {
						err = ttlv.UnmarshalJSON(doc, &back)
					}
					if err != nil {
						return fmt.Sprintf("written %s, reading fails: %v", doc, err)
					}
					if back.AttributeValue == nil || reflect.TypeOf(back.AttributeValue) != ty || !reflect.DeepEqual(back.AttributeValue, att.AttributeValue) {
						return fmt.Sprintf("written %s, read back as %T(%v)", doc, back.AttributeValue, back.AttributeValue)
					}
					return ""
				})
				if p != "" {
					res = "panic " + p
				}
				if res != "" {
					e.violate(ctx, "C17", "attribute-value-by-name", fmt.Sprintf("attribute:%s:%s", f.form, a.Name), fmt.Sprintf("attribute %q = %s(0x%X), %s: %s", a.Name, tyName, v, f.form, res), line)
				}
			}
		}
	}
	if n == 0 {
		ctx.Res.Fail("lost evidence: no attribute of an enumeration or mask type was found (kmip.VerifDumpAttrTypes): the attribute-value oracle checked nothing")
	}
}
