/-
  C18 (typed layer) — stage 4: the induction over the decoder's fuel and the `unmarshal` / `marshal`
  wrappers: every accepted input decodes to a value that has a conforming twin with the same encoding.
  The ten hand-written decoders enter through `CustStep` (discharged in `PlanFixpoint6`).
-/
import KmipModel.Lemmas.PlanFixpoint4
namespace Kmip

/-- the step for the hand-written decoders, given the reflective ones at smaller fuel. -/
def CustStep (S : Schema) : Prop :=
  ∀ fd, (∀ m, m ≤ fd → FK S m) → (∀ m, m ≤ fd → FDyn S m) → FCust S (fd + 1)

structure FAll (S : Schema) (N : Nat) (fd : Nat) : Prop where
  k : FK S fd
  list : FList S fd
  fields : FFields S N fd
  dyn : FDyn S fd
  cust : FCust S fd

theorem fcust_zero (S : Schema) : FCust S 0 := by
  intro id tag c ver v c' ver' _ _ _ _ h
  rw [decCustom_zero] at h; contradiction

theorem fall (S : Schema) (N : Nat) (hU : S.unambiguous = true) (hX : FixOK S N) (hCS : CustStep S) :
    ∀ fd, FAll S N fd := by
  intro fd
  induction fd using Nat.strongRecOn with
  | _ fd ih =>
    cases fd with
    | zero => exact ⟨fk_zero S, flist_zero S, ffields_zero S N, fdyn_zero S, fcust_zero S⟩
    | succ fd =>
      have hm := ih fd (Nat.lt_succ_self fd)
      have hQ := decQuiet S hX.ctx fd
      refine ⟨fk_succ S N hU hX fd hm.k hm.list (fun m hlt => (ih m (by omega)).fields) hm.cust,
        flist_succ S fd hm.k hm.list, ffields_succ S N hX fd hm.k hQ hm.fields,
        fdyn_succ S N hU hX fd hm.k, ?_⟩
      exact hCS fd (fun m hle => (ih m (by omega)).k) (fun m hle => (ih m (by omega)).dyn)

theorem decFuel_ge (n : Nat) : marshalFuel + 8 ≤ decFuel n := by
  unfold decFuel marshalFuel; omega

/-- the core of the typed fixed point: an accepted input decodes to a value whose encoding is also the
    encoding of a CONFORMING value. -/
theorem accepted_has_twin (S : Schema) (N : Nat) (hU : S.unambiguous = true) (hX : FixOK S N)
    (hCS : CustStep S) (d tag : Nat) (bs : Bytes) (v : Val)
    (h : unmarshal S d tag bs = .ok v)
    (hfuel : v.edepth ≤ marshalFuel)
    (hg : goodU S (S.dyn d).kind v = true)
    (htag : S.kindTagOK (S.dyn d).kind (topTag S d tag) = true)
    (hir : ∀ items ver', encK S marshalFuel (S.dyn d).kind (topTag S d tag) v none = .ok (items, ver') →
      Item.AllInRange items) :
    ∃ w items, Conforms S d tag w ∧ marshal S d tag v = .ok (encList items)
      ∧ marshal S d tag w = .ok (encList items) := by
  rw [unmarshal_eq] at h
  split at h
  · cases h
  · have hF := decFuel_ge bs.length
    generalize decFuel bs.length = F at h hF
    obtain ⟨F', rfl⟩ : ∃ F', F = F' + 1 := ⟨F - 1, by omega⟩
    unfold unmarshalFuel unmarshalWith at h
    obtain ⟨c, _, h⟩ := Res.bind_eq_ok h
    dsimp only at h
    obtain ⟨⟨x, c1, ver1⟩, h1, h2⟩ := Res.bind_eq_ok h
    simp only [Res.pure_eq, Res.ok.injEq] at h2
    -- the same decoding, seen as `decDyn`
    have hdd : decDyn S (F' + 2) d tag c none = .ok (.iface (some (d, v)), c1, ver1) := by
      by_cases hp : ∃ k', (S.dyn d).kind = .ptr k'
      · obtain ⟨k', hk⟩ := hp
        rw [decDyn_ptr S _ d tag c none k' hk]
        simp only [hk] at h1 h2
        simp only [h1, Res.ok_bind, Res.pure_eq, h2]
      · have hnp : ∀ k', (S.dyn d).kind ≠ .ptr k' := fun k' hk => hp ⟨k', hk⟩
        rw [decDyn_nonptr S _ d tag c none hnp]
        generalize (S.dyn d).kind = kk at h1 h2 hnp ⊢
        cases kk <;> first
          | (exact absurd rfl (hnp _))
          | (simp only at h1 h2; simp only [h1, Res.ok_bind, Res.pure_eq, h2])
    have hA := fall S N hU hX hCS (F' + 1)
    obtain ⟨x', hx', hdv, htw⟩ := fdyn_core S N hU hX (F' + 1) hA.k d tag c none _ c1 ver1 htag hdd
      (by simp only [Val.edepth]; omega) (by simpa [goodU] using hg)
    simp only [Val.iface.injEq, Option.some.injEq, Prod.mk.injEq, true_and] at hx'
    subst hx'
    obtain ⟨wx, wx', items, hnm, he, hew, hdw, _⟩ := htw marshalFuel hfuel
    have hdyn := dynOK_of_decDyn hU hdd
    have hm : ∀ y, encK S marshalFuel (S.dyn d).kind (topTag S d tag) y none = .ok (items, ver1) →
        marshal S d tag y = .ok (encList items) := by
      intro y hy
      unfold marshal
      simp only [topTag, marshalFuel] at hy
      simp only [hy, Res.ok_bind, Res.pure_eq]
    refine ⟨wx, items, ⟨?_, ?_⟩, hm v he, hm wx hew⟩
    · unfold normTop
      simp only [hdw, hdyn, Bool.and_self, if_true]
      have : normK S marshalFuel (S.dyn d).kind (topTag S d tag) wx none = some (wx', ver1) := hnm
      rw [this]; rfl
    · intro items2 ver2 h2'
      have hew' : encK S marshalFuel (S.dyn d).kind (topTag S d tag) wx none = .ok (items, ver1) := hew
      rw [hew'] at h2'
      simp only [Res.ok.injEq, Prod.mk.injEq] at h2'
      obtain ⟨rfl, -⟩ := h2'
      exact hir items ver1 he

end Kmip
