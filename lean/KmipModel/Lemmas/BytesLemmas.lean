/-
  Helper lemmas about `KmipModel.Model.Bytes`: padding, big-endian words, `beVal`, `natToBytesBE`,
  fixed-width two's complement. Core Lean only.
-/
import KmipModel.Model.Bytes
namespace Kmip

/-! ### padding -/

theorem padForLen_mod (l : Nat) : (l + padForLen l 8) % 8 = 0 := by
  unfold padForLen; omega

theorem padForLen_lt (l : Nat) : padForLen l 8 < 8 := by
  unfold padForLen; omega

theorem padForLen_eq_zero {l : Nat} (h : l % 8 = 0) : padForLen l 8 = 0 := by
  unfold padForLen; omega

theorem padForLen_eq_zero_iff (l : Nat) : padForLen l 8 = 0 ↔ l % 8 = 0 := by
  unfold padForLen; omega

theorem plen_eq (len : Nat) : len + (8 - len % 8) % 8 = len + padForLen len 8 := rfl

/-! ### `UInt8` facts -/

theorem UInt8.topbit_zero_iff (h : UInt8) : ((h >>> 7) &&& 1 = 0 ↔ h < 0x80) := by
  rw [← UInt8.toNat_inj, UInt8.lt_iff_toNat_lt, UInt8.toNat_and, UInt8.toNat_shiftRight]
  have := h.toNat_lt
  simp [Nat.shiftRight_eq_div_pow, Nat.and_one_is_mod]
  omega

theorem UInt8.topbit_one_iff (h : UInt8) : ((h >>> 7) &&& 1 = 1 ↔ ¬ h < 0x80) := by
  rw [← UInt8.toNat_inj, UInt8.lt_iff_toNat_lt, UInt8.toNat_and, UInt8.toNat_shiftRight]
  have := h.toNat_lt
  simp [Nat.shiftRight_eq_div_pow, Nat.and_one_is_mod]
  omega

theorem UInt8.lt_0x80_iff (h : UInt8) : h < 0x80 ↔ h.toNat < 128 := by
  rw [UInt8.lt_iff_toNat_lt]; simp

theorem byteAt_toNat (n i : Nat) : (byteAt n i).toNat = n / 2 ^ (8 * i) % 256 := by
  simp [byteAt, Nat.shiftRight_eq_div_pow]

theorem toUInt8_toNat (n : Nat) : (Nat.toUInt8 n).toNat = n % 256 := by simp

/-! ### `beVal` and the little-endian value `valLE` -/

/-- value of a little-endian byte list. -/
def valLE : Bytes → Nat
  | [] => 0
  | b :: bs => b.toNat + 256 * valLE bs

theorem valLE_lt (bs : Bytes) : valLE bs < 256 ^ bs.length := by
  induction bs with
  | nil => simp [valLE]
  | cons b bs ih =>
    have := b.toNat_lt
    simp only [valLE, List.length_cons, Nat.pow_succ]
    omega

@[simp] theorem beVal_nil : beVal [] = 0 := rfl

theorem beVal_snoc (bs : Bytes) (b : UInt8) : beVal (bs ++ [b]) = beVal bs * 256 + b.toNat := by
  simp [beVal, List.foldl_append]

theorem beVal_reverse (l : Bytes) : beVal l.reverse = valLE l := by
  induction l with
  | nil => rfl
  | cons b bs ih =>
    rw [List.reverse_cons, beVal_snoc, ih, valLE]; omega

theorem beVal_eq_valLE_reverse (l : Bytes) : beVal l = valLE l.reverse := by
  rw [← beVal_reverse, List.reverse_reverse]

theorem valLE_append (a b : Bytes) : valLE (a ++ b) = valLE a + 256 ^ a.length * valLE b := by
  induction a with
  | nil => simp [valLE]
  | cons x xs ih =>
    simp only [List.cons_append, valLE, ih, List.length_cons, Nat.pow_succ]
    rw [Nat.mul_add, Nat.mul_comm (256 ^ xs.length) 256, Nat.mul_assoc]
    omega

theorem beVal_append (a b : Bytes) : beVal (a ++ b) = beVal a * 256 ^ b.length + beVal b := by
  rw [beVal_eq_valLE_reverse, List.reverse_append, valLE_append, List.length_reverse,
    ← beVal_eq_valLE_reverse, ← beVal_eq_valLE_reverse, Nat.mul_comm]
  omega

theorem beVal_cons (b : UInt8) (bs : Bytes) :
    beVal (b :: bs) = b.toNat * 256 ^ bs.length + beVal bs := by
  have := beVal_append [b] bs
  simpa [beVal] using this

theorem beVal_lt (bs : Bytes) : beVal bs < 256 ^ bs.length := by
  rw [beVal_eq_valLE_reverse]
  have := valLE_lt bs.reverse
  simpa using this

theorem valLE_replicate_zero (k : Nat) : valLE (List.replicate k 0) = 0 := by
  induction k with
  | zero => rfl
  | succ k ih => simp [List.replicate_succ, valLE, ih]

theorem valLE_replicate_ff (k : Nat) : valLE (List.replicate k 0xFF) + 1 = 256 ^ k := by
  induction k with
  | zero => rfl
  | succ k ih =>
    simp only [List.replicate_succ, valLE, Nat.pow_succ]
    have : (255 : UInt8).toNat = 255 := rfl
    omega

theorem beVal_replicate_zero (k : Nat) : beVal (List.replicate k 0) = 0 := by
  rw [beVal_eq_valLE_reverse, List.reverse_replicate, valLE_replicate_zero]

theorem beVal_replicate_ff (k : Nat) : beVal (List.replicate k 0xFF) + 1 = 256 ^ k := by
  rw [beVal_eq_valLE_reverse, List.reverse_replicate, valLE_replicate_ff]

theorem beVal_be32 (n : Nat) (h : n < 2 ^ 32) : beVal (be32 n) = n := by
  simp [beVal, be32, byteAt_toNat]
  omega

theorem beVal_be64 (n : Nat) (h : n < 2 ^ 64) : beVal (be64 n) = n := by
  simp [beVal, be64, byteAt_toNat]
  omega

theorem beVal_tag3 (n : Nat) (h : n < 2 ^ 24) : beVal (tag3 n) = n := by
  simp [beVal, tag3, byteAt_toNat]
  omega

@[simp] theorem be32_length (n : Nat) : (be32 n).length = 4 := rfl
@[simp] theorem be64_length (n : Nat) : (be64 n).length = 8 := rfl
@[simp] theorem tag3_length (n : Nat) : (tag3 n).length = 3 := rfl

/-! ### `natToBytesBE` -/

theorem natToBytesBE_zero : natToBytesBE 0 = [] := by
  rw [natToBytesBE]; simp

theorem natToBytesBE_pos {n : Nat} (h : n ≠ 0) :
    natToBytesBE n = natToBytesBE (n / 256) ++ [n.toUInt8] := by
  rw [natToBytesBE]; simp [h]

theorem natToBytesBE_ne_nil {n : Nat} (h : n ≠ 0) : natToBytesBE n ≠ [] := by
  rw [natToBytesBE_pos h]; simp

theorem beVal_natToBytesBE (n : Nat) : beVal (natToBytesBE n) = n := by
  induction n using Nat.strongRecOn with
  | _ n ih =>
    by_cases h : n = 0
    · subst h; rw [natToBytesBE_zero]; rfl
    · rw [natToBytesBE_pos h, beVal_snoc, ih (n / 256) (by omega), toUInt8_toNat]
      omega

theorem natToBytesBE_length_pos {n : Nat} (h : n ≠ 0) : 0 < (natToBytesBE n).length := by
  rw [natToBytesBE_pos h]; simp

/-- minimality of `natToBytesBE`: the leading byte is non-zero. -/
theorem natToBytesBE_lower {n : Nat} (h : n ≠ 0) : 256 ^ ((natToBytesBE n).length - 1) ≤ n := by
  induction n using Nat.strongRecOn with
  | _ n ih =>
    rw [natToBytesBE_pos h]
    by_cases h0 : n / 256 = 0
    · rw [h0, natToBytesBE_zero]; simp; omega
    · have := ih (n / 256) (by omega) h0
      have hl := natToBytesBE_length_pos h0
      simp only [List.length_append, List.length_cons, List.length_nil, Nat.add_sub_cancel]
      have e : (natToBytesBE (n / 256)).length = ((natToBytesBE (n / 256)).length - 1) + 1 := by
        omega
      rw [e, Nat.pow_succ]
      omega

/-! ### fixed-width two's complement -/

theorem unsignedOfInt32_lt (v : Int) : unsignedOfInt 32 v < 2 ^ 32 := by
  simp only [unsignedOfInt, Nat.reducePow]; omega

theorem unsignedOfInt64_lt (v : Int) : unsignedOfInt 64 v < 2 ^ 64 := by
  simp only [unsignedOfInt, Nat.reducePow]; omega

theorem signed_unsigned32 (v : Int) (h1 : -2147483648 ≤ v) (h2 : v < 2147483648) :
    signedOfNat 32 (unsignedOfInt 32 v) = v := by
  have hu : ((unsignedOfInt 32 v : Nat) : Int) = v % 4294967296 := by
    simp only [unsignedOfInt, Nat.reducePow]; omega
  have e1 : (2 : Nat) ^ (32 - 1) = 2147483648 := by decide
  have e2 : (2 : Nat) ^ 32 = 4294967296 := by decide
  unfold signedOfNat
  by_cases h : unsignedOfInt 32 v < 2 ^ (32 - 1)
  · rw [if_pos h]; rw [e1] at h; omega
  · rw [if_neg h]; rw [e1] at h; rw [e2]; omega

theorem signed_unsigned64 (v : Int) (h1 : -9223372036854775808 ≤ v)
    (h2 : v < 9223372036854775808) :
    signedOfNat 64 (unsignedOfInt 64 v) = v := by
  have hu : ((unsignedOfInt 64 v : Nat) : Int) = v % 18446744073709551616 := by
    simp only [unsignedOfInt, Nat.reducePow]; omega
  have e1 : (2 : Nat) ^ (64 - 1) = 9223372036854775808 := by decide
  have e2 : (2 : Nat) ^ 64 = 18446744073709551616 := by decide
  unfold signedOfNat
  by_cases h : unsignedOfInt 64 v < 2 ^ (64 - 1)
  · rw [if_pos h]; rw [e1] at h; omega
  · rw [if_neg h]; rw [e1] at h; rw [e2]; omega

end Kmip
