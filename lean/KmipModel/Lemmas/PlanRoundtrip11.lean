/-
  C01 — stage 3 (continued): Credential (with its union-like CredentialValue).
-/
import KmipModel.Lemmas.PlanRoundtrip10
namespace Kmip

theorem customOk_credential (S : Schema) (v : Val) :
    customOk S Cust.credential v =
      (match v.field 0, v.field 1 with
       | .int t, .struct cvs =>
         (t == 1 || t == 2 || t == 3) && firstNonNil cvs == some (t.toNat - 1)
       | _, _ => false) := rfl

theorem decCustom_credential (S : Schema) (n id tag : Nat) (c : Cur) (ver : Option Ver) :
    decCustom S (n + 1) Cust.credential id tag c ver = (do
      let it ← c.expect 1 tag
      let c0 ← Cur.start it.val
      let (v, ver') ← (do
          let (ct, c1, v1) ← decK S n ((S.structDef id).fields.getD 0 fieldDflt).kind T.credentialType c0 ver
          if ct.asInt = 1 ∨ ct.asInt = 2 ∨ ct.asInt = 3 then do
            let (x, _, v2) ← decK S n ((customFieldKinds S Cust.credentialValue).getD (ct.asInt.toNat - 1) .unsupported)
              T.credentialValue c1 v1
            pure (Val.struct [ct, .struct ((List.range (customFieldKinds S Cust.credentialValue).length).map
              fun j => if j = ct.asInt.toNat - 1 then x else Val.ptr none)], v2)
          else .err .other : Res (Val × Option Ver))
      let c' ← c.next
      pure (v, c', ver')) := by
  rw [decCustom.eq_def]; rfl

theorem unionKinds_decodable {S : Schema} {ks : List Kind} (h : S.unionKindsOK ks = true) {i : Nat} {k' : Kind}
    (hi : ks[i]? = some (.ptr k')) : S.decodable (.ptr k') = true := by
  simp only [Schema.unionKindsOK, List.all_eq_true] at h
  have := h _ (List.mem_of_getElem? hi)
  simp only [Bool.and_eq_true] at this
  exact decodable_ptr_of this.1 this.2

/-- a union-like struct value, through `normK` at its struct kind: the one member that is set. -/
theorem union_struct (S : Schema) (n : Nat) (hK : ∀ m, m < n → PK S m) (cv : Nat) (code : Nat)
    (hc : isUnionCode code) (hec : (S.structDef cv).encCustom = true) (hcode : (S.structDef cv).custom = code)
    (tag : Nat) (v : Val) (ver : Option Ver) (v' : Val) (w : Option Ver)
    (h : normK S n (.struct cv) tag v ver = some (v', w)) :
    ∃ (xs xs' : List Val) (i : Nat) (k' : Kind) (y' : Val) (items : List Item),
      v = .struct xs ∧ v' = .struct xs'
      ∧ (customFieldKinds S code)[i]? = some (.ptr k')
      ∧ xs' = (List.range (customFieldKinds S code).length).map
          (fun j => if j = i then Val.ptr (some y') else Val.ptr none)
      ∧ firstNonNil xs' = some i
      ∧ encK S n (.struct cv) tag v ver = .ok (items, w)
      ∧ (∀ it ∈ items, it.tag = tag) ∧ items.length = 1
      ∧ (S.decodable (.ptr k') = true → Item.AllInRange items → ∀ (fd : Nat) (rs : List RawItem),
          Val.depthList xs ≤ fd →
          decK S fd (.ptr k') tag (Cur.of (items.map Item.raw ++ rs)) ver
            = .ok (.ptr (some y'), Cur.of rs, w)) := by
  obtain ⟨n1, rfl⟩ := normK_succ_of_some h
  rw [normK_struct] at h
  split at h
  · rename_i xs
    simp only [hec, if_true, hcode] at h
    obtain ⟨n2, rfl⟩ : ∃ n2, n1 = n2 + 1 := by
      cases n1 with
      | zero => rw [normCustom_zero] at h; contradiction
      | succ n2 => exact ⟨n2, rfl⟩
    rw [normCustom_union S n2 code tag hc] at h
    simp only at h
    cases hx : normSameTag S n2 (customFieldKinds S code) tag xs ver with
    | none => simp only [hx] at h; contradiction
    | some p =>
      obtain ⟨xs', w1⟩ := p
      simp only [hx] at h
      obtain ⟨rfl, rfl⟩ := pair_eq (Option.some.inj h)
      obtain ⟨i, k', y', items, hki, _, hxs', hfn, he, _, _, ht, hl, hd⟩ :=
        psame S n2 (fun m hm => hK m (by omega)) _ tag xs ver xs' w1 hx
      refine ⟨xs, xs', i, k', y', items, rfl, rfl, hki, hxs', hfn, ?_, ht, hl, hd⟩
      rw [encK_struct]
      simp only [hec, if_true, hcode]
      rw [encCustom_union S n2 code tag hc]
      exact he
  · contradiction

set_option maxHeartbeats 1000000 in
theorem custdec_credential (S : Schema) (n : Nat) (hK : ∀ m, m < n → PK S m)
    (id tag : Nat) (fs : List Val) (ver : Option Ver) (fs' : List Val) (ver' : Option Ver) (items : List Item)
    (g0 g1 : Field) (cv : Nat) (hF : (S.structDef id).fields = [g0, g1])
    (h0 : g0.plainWith T.credentialType = true) (h0k : g0.kind.isEnum = true)
    (h1 : g1.plainWith T.credentialValue = true) (h1k : g1.kind = .struct cv)
    (hcve : (S.structDef cv).encCustom = true) (hcvc : (S.structDef cv).custom = Cust.credentialValue)
    (hcvu : S.unionKindsOK (customFieldKinds S Cust.credentialValue) = true)
    (hx : normFields S n (S.structDef id).fields fs ver = some (fs', ver'))
    (hcok : customOk S Cust.credential (.struct fs') = true)
    (he : encFields S n (S.structDef id).fields fs ver = .ok (items, ver'))
    (hr : (Item.struct tag items).InRange) (fd : Nat) (rs : List RawItem)
    (hfd : (Val.struct fs).depth ≤ fd + 1) :
    decCustom S fd Cust.credential id tag (Cur.of ((Item.struct tag items).raw :: rs)) ver
      = .ok (.struct fs', Cur.of rs, ver') := by
  have hg0 : ((S.structDef id).fields.getD 0 fieldDflt).kind = g0.kind := by rw [hF]; rfl
  rw [hF] at hx he
  obtain ⟨n1, rfl⟩ := normFields_succ_of_some hx
  obtain ⟨v0, v0', vs1, r1, it0, b0, rfl, rfl, rfl, hrt1, ht0, hd0⟩ :=
    head_req_scalar S n1 g0 _ h0 (enum_scalar h0k) _ fs ver fs' ver' items ⟨hx, he⟩
  -- CredentialValue: a union-like struct with its own encoder
  obtain ⟨hx1, he1⟩ := hrt1
  obtain ⟨n2, rfl⟩ := normFields_succ_of_some hx1
  cases vs1 with
  | nil => rw [normFields_cons_nil] at hx1; contradiction
  | cons v1 vs2 =>
  rw [normFields_plain_cons S n2 g1 _ h1, h1k] at hx1
  rw [encFields_plain_cons S n2 g1 _ h1, h1k] at he1
  cases hn1 : normK S n2 (.struct cv) T.credentialValue v1 ver with
  | none => simp only [hn1] at hx1; contradiction
  | some p =>
  obtain ⟨v1', w1⟩ := p
  simp only [hn1] at hx1
  cases hx2 : normFields S n2 [] vs2 w1 with
  | none => simp only [hx2] at hx1; contradiction
  | some q =>
  obtain ⟨r2, w2⟩ := q
  simp only [hx2] at hx1
  obtain ⟨rfl, rfl⟩ := pair_eq (Option.some.inj hx1)
  obtain ⟨rfl, rfl, rfl⟩ := normFields_nil_inv hx2
  obtain ⟨n3, rfl⟩ := normFields_succ_of_some hx2
  obtain ⟨xs, xs', i, k', y', cvI, rfl, rfl, hki, hxs', hfn, hecv, htcv, hlcv, hdcv⟩ :=
    union_struct S (n3 + 1) (fun m hm => hK m (by omega)) cv _ (Or.inl rfl) hcve hcvc
      T.credentialValue v1 ver v1' w2 hn1
  simp only [hecv, Res.ok_bind, encFields_nil, Res.pure_eq, Res.ok.injEq, Prod.mk.injEq, List.append_nil] at he1
  obtain ⟨rfl, -⟩ := he1
  rw [customOk_credential] at hcok
  simp only [Val.field, List.getD_cons_zero, List.getD_cons_succ] at hcok
  split at hcok
  · rename_i _ _ t cvs hv1
    simp only [Val.struct.injEq] at hv1
    subst hv1
    simp only [Bool.and_eq_true, Bool.or_eq_true, beq_iff_eq] at hcok
    obtain ⟨ht123, hfn'⟩ := hcok
    rw [hfn] at hfn'
    simp only [Option.some.injEq] at hfn'
    subst hfn'
    rw [Item.InRange] at hr
    obtain ⟨_, _, _, hin⟩ := hr
    have hi0 := (Item.allInRange_append [it0] cvI).1 hin
    simp only [Val.depth, Val.depthList] at hfd
    have hxd := Val.depthList_pos xs
    obtain ⟨f, rfl, hf⟩ := fuel_succ (by omega : 5 + 1 ≤ fd)
    obtain ⟨f1, rfl, hf1⟩ := fuel_succ (by omega : 4 + 1 ≤ f)
    rw [decCustom_credential]
    have hexp : (Cur.of ((Item.struct tag (it0 :: cvI)).raw :: rs)).expect 1 tag
        = .ok (Item.struct tag _).raw := Cur.expect_of (.struct tag _) rs
    have hstart : Cur.start (Item.struct tag (it0 :: cvI)).raw.val
        = .ok (Cur.of ((it0 :: cvI).map Item.raw)) := Cur.start_encList _ hin
    have hnext : (Cur.of ((Item.struct tag (it0 :: cvI)).raw :: rs)).next
        = .ok (Cur.of rs) := Cur.next_of _ rs
    simp only [hexp, Res.ok_bind, hstart, hnext, hg0]
    have hl : (it0 :: cvI).map Item.raw = it0.raw :: (cvI.map Item.raw ++ []) := by simp
    have hcond : t = 1 ∨ t = 2 ∨ t = 3 := by
      rcases ht123 with (h | h) | h
      · exact Or.inl h
      · exact Or.inr (Or.inl h)
      · exact Or.inr (Or.inr h)
    have hgetD : (customFieldKinds S Cust.credentialValue).getD (t.toNat - 1) .unsupported = .ptr k' := by
      rw [List.getD_eq_getElem?_getD, hki]; rfl
    rw [hl, hd0 ((Item.allInRange_singleton it0).1 hi0.1) f1 _ ver, Res.ok_bind]
    rw [if_pos (by exact hcond)]
    simp only [Val.asInt]
    rw [hgetD, hdcv (unionKinds_decodable hcvu hki) hi0.2 (f1 + 1) [] (by omega)]
    simp only [Res.ok_bind, Res.pure_eq]
    rw [hxs']
    rfl
  · contradiction

end Kmip
