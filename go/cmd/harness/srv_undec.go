package main

// C08: the class "correctly framed but undecodable request". A deterministic family of messages made
// from real request encodings by TREE-level mutation (the framing - every length, the padding, the
// outer item - stays consistent, only the content is no request any more): a structure that ends early
// at each depth (a mandatory element is missing: the decoder runs out of items), an empty structure, an
// element dropped from the middle, an extra / repeated element, a wrong type, a wrong tag, a wrong root.
// Used by lts.srv (badRequest variants >= undecBase, sent on the socket transport) and by srv.http (in
// the three content types). Whatever way the decoder fails, the answer must be ONE invalid-message
// response (and the server keeps serving the other connections).

import (
	"bytes"
	"fmt"
	"sync"

	"github.com/ovh/kmip-go"
	"github.com/ovh/kmip-go/payloads"
	"github.com/ovh/kmip-go/ttlv"
)

const undecBase = 100000 // badRequest(variant >= undecBase) = member (variant-undecBase) of the family

type undecMember struct {
	Kind string // cut / empty / drop / extra / dup / type / tag / root
	Name string // kind@path
	V    ttlv.Value
	TTLV []byte
}

func undecClone(v ttlv.Value) ttlv.Value {
	if s, ok := v.Value.(ttlv.Struct); ok {
		n := make(ttlv.Struct, len(s))
		for i := range s {
			n[i] = undecClone(s[i])
		}
		return ttlv.Value{Tag: v.Tag, Value: n}
	}
	if b, ok := v.Value.([]byte); ok {
		return ttlv.Value{Tag: v.Tag, Value: bytes.Clone(b)}
	}
	return v
}

// undecAt: a copy of the tree with f applied to the node at path.
func undecAt(v ttlv.Value, path []int, f func(ttlv.Value) ttlv.Value) ttlv.Value {
	if len(path) == 0 {
		return f(undecClone(v))
	}
	s := v.Value.(ttlv.Struct)
	n := make(ttlv.Struct, len(s))
	for i := range s {
		if i == path[0] {
			n[i] = undecAt(s[i], path[1:], f)
		} else {
			n[i] = undecClone(s[i])
		}
	}
	return ttlv.Value{Tag: v.Tag, Value: n}
}

func undecBases() [][]byte {
	a := kmip.NewRequestMessage(kmip.V1_4, &payloads.ActivateRequestPayload{UniqueIdentifier: "ok"})
	a.BatchItem[0].UniqueBatchItemID = []byte{0, 0, 3, 232}
	b := kmip.NewRequestMessage(kmip.V1_4,
		&payloads.ActivateRequestPayload{UniqueIdentifier: "ok"},
		&payloads.ActivateRequestPayload{UniqueIdentifier: "ok"})
	b.Header.MaximumResponseSize = 4096
	b.Header.BatchOrderOption = ptrTo(true)
	b.BatchItem[0].UniqueBatchItemID = []byte{0, 0, 3, 232}
	b.BatchItem[1].UniqueBatchItemID = []byte{0, 0, 3, 233}
	return [][]byte{ttlv.MarshalTTLV(&a), ttlv.MarshalTTLV(&b)}
}

func ptrTo[T any](v T) *T { return &v }

// is the message decodable as what the server reads from a connection (a request or a response message).
func undecDecodable(b []byte) bool {
	var v ttlv.Value
	if err := ttlv.UnmarshalTTLV(b, &v); err != nil {
		return false // (not even a TTLV item: cannot happen for a family member, see the self check)
	}
	switch v.Tag {
	case kmip.TagRequestMessage:
		return ttlv.UnmarshalTTLV(b, &kmip.RequestMessage{}) == nil
	case kmip.TagResponseMessage:
		return ttlv.UnmarshalTTLV(b, &kmip.ResponseMessage{}) == nil
	}
	return false
}

var (
	undecOnce sync.Once
	undecFam  []undecMember
	undecErr  string
)

// undecFamily: the members, in a fixed order. A mutated tree the library decodes all the same (an extra
// element the decoder tolerates ...) is no member. undecErr != "" = the construction itself is broken.
func undecFamily() ([]undecMember, string) {
	undecOnce.Do(func() {
		seen := map[string]bool{}
		for bi, base := range undecBases() {
			var root ttlv.Value
			if err := ttlv.UnmarshalTTLV(base, &root); err != nil {
				undecErr = "base request not decodable as a generic tree: " + err.Error()
				return
			}
			// positive controls: the generic tree re-encodes to the very bytes, and those are a request
			if !bytes.Equal(ttlv.MarshalTTLV(root), base) || !undecDecodable(base) {
				undecErr = "generic tree of the base request does not re-encode to the request"
				return
			}
			add := func(kind string, path []int, detail string, v ttlv.Value) {
				var enc []byte
				func() {
					defer func() { _ = recover() }()
					enc = ttlv.MarshalTTLV(v)
				}()
				if enc == nil || seen[string(enc)] || undecDecodable(enc) {
					return
				}
				// framing self check: one complete TTLV item, nothing after it
				var back ttlv.Value
				if err := ttlv.UnmarshalTTLV(enc, &back); err != nil {
					return
				}
				seen[string(enc)] = true
				undecFam = append(undecFam, undecMember{Kind: kind, Name: fmt.Sprintf("%s%s@%d%v", kind, detail, bi, path), V: v, TTLV: enc})
			}
			extra := ttlv.Value{Tag: kmip.TagIterationCount, Value: int32(7)}
			var walk func(node ttlv.Value, path []int)
			walk = func(node ttlv.Value, path []int) {
				p := append([]int{}, path...)
				// wrong tag (the root: another message / a non-message structure)
				tags := []int{kmip.TagIterationCount}
				kind := "tag"
				if len(p) == 0 {
					tags, kind = []int{kmip.TagResponseMessage, kmip.TagRequestHeader, kmip.TagBatchItem}, "root"
				}
				for _, tg := range tags {
					tg := tg
					add(kind, p, fmt.Sprintf(":%06x", tg), undecAt(root, p, func(n ttlv.Value) ttlv.Value { n.Tag = tg; return n }))
				}
				// wrong type
				add("type", p, "", undecAt(root, p, func(n ttlv.Value) ttlv.Value {
					switch x := n.Value.(type) {
					case int32:
						n.Value = int64(x)
					case int64:
						n.Value = int32(x)
					case ttlv.Enum:
						n.Value = int32(x)
					case string:
						n.Value = []byte(x)
					case []byte:
						n.Value = string(x)
					case bool:
						n.Value = int32(1)
					default:
						n.Value = int32(1)
					}
					return n
				}))
				s, ok := node.Value.(ttlv.Struct)
				if !ok {
					return
				}
				for i := 0; i < len(s); i++ {
					i := i
					k := "cut"
					if i == 0 {
						k = "empty"
					}
					// the structure ends before element i (everything after it is gone too)
					add(k, p, fmt.Sprintf(":%d", i), undecAt(root, p, func(n ttlv.Value) ttlv.Value {
						n.Value = n.Value.(ttlv.Struct)[:i]
						return n
					}))
					if i < len(s)-1 {
						add("drop", p, fmt.Sprintf(":%d", i), undecAt(root, p, func(n ttlv.Value) ttlv.Value {
							c := n.Value.(ttlv.Struct)
							n.Value = append(append(ttlv.Struct{}, c[:i]...), c[i+1:]...)
							return n
						}))
					}
					add("dup", p, fmt.Sprintf(":%d", i), undecAt(root, p, func(n ttlv.Value) ttlv.Value {
						c := n.Value.(ttlv.Struct)
						n.Value = append(append(append(ttlv.Struct{}, c[:i+1]...), undecClone(c[i])), c[i+1:]...)
						return n
					}))
				}
				for _, at := range []int{0, len(s)} {
					at := at
					add("extra", p, fmt.Sprintf(":%d", at), undecAt(root, p, func(n ttlv.Value) ttlv.Value {
						c := n.Value.(ttlv.Struct)
						n.Value = append(append(append(ttlv.Struct{}, c[:at]...), extra), c[at:]...)
						return n
					}))
				}
				for i := range s {
					walk(s[i], append(p, i))
				}
			}
			walk(root, nil)
		}
	})
	return undecFam, undecErr
}

func undecKinds() []string {
	return []string{"cut", "empty", "drop", "extra", "dup", "type", "tag", "root"}
}
