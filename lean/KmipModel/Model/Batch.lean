/-
  Batch executor — model of `kmipserver/router.go` (`HandleRequest`, `handleRequest`,
  `executeItemWithMiddleware`, `executeItem`, `handleDiscover`) and `kmipserver/errors.go`
  (`handleMessageError`, `handleBatchItemError`), without middlewares (those are C19's).

  Handlers are data: the script of an item says which placeholder accesses its handler performs
  and how it ends (return nil / return an error matching `kmipserver.Error` / any other error /
  panic with such an error / panic with anything else). The mutable holder of the ID placeholder
  (`batchData.idPlaceholder`, reached through the context) is threaded explicitly as `ph`.
-/
import KmipModel.Model.Placeholder
namespace Kmip.Batch
open Kmip.Placeholder

/-- `kmip.ProtocolVersion{major, minor}` (two `int32`). -/
abbrev Ver := Int × Int

def v10 : Ver := (1, 0)
/-- Fallback for `Srv.supported = []` only (kept for the examples of C15): a copy of today's
    `defaultSupportedVersion`. It is NOT part of the tie: the harness reads the default set off the real
    executor on every run (built-in DiscoverVersions) and sends it on every protocol line (`=<list>`), so the
    model is always run with an explicit, live set; the theorems hold for every `Srv`. -/
def defaultSupported : List Ver := [(1, 4), (1, 3), (1, 2), (1, 1), (1, 0)]

-- numeric values of the enumerations involved (enums.go)
def optContinue : Nat := 1
def optStop : Nat := 2
def optUndo : Nat := 3
def reasonInvalidMessage : Nat := 4
def reasonOperationNotSupported : Nat := 5
def reasonFeatureNotSupported : Nat := 8
def reasonOperationCanceledByRequester : Nat := 9
def reasonGeneralFailure : Nat := 0x100

/-- how a handler invocation ends. -/
inductive Outcome where
  | success                      -- `return payload, nil`
  | typedErr (reason : Nat)      -- returns an error for which `errors.As(err, &kmipserver.Error{})`
  | plainErr                     -- returns any other error
  | panicTyped (reason : Nat)    -- `panic(err)` with such an `err`
  | panicOther                   -- panics with a string / Stringer / other error / anything else
  deriving Repr, DecidableEq, Inhabited

/-- one request batch item together with the script of the handler invocation it would cause. -/
structure Item where
  op : Nat                       -- `Operation` (uint32)
  id : Option Nat                -- `UniqueBatchItemID` (none = absent/empty); the byte string is opaque to the
                                 -- executor, the driver codes it injectively as a number
  ext : Option Bool              -- `MessageExtension`: none = nil, some c = CriticalityIndicator c
  discover : Bool                -- dynamic type of the payload is `*DiscoverVersionsRequestPayload` (any other
                                 -- payload type — unknown or registered — takes the `default` branch)
  acts : List PAct               -- placeholder accesses of the handler, in order
  out : Outcome
  deriving Repr, DecidableEq, Inhabited

/-- executor configuration. -/
structure Srv where
  supported : List Ver           -- `exec.supportedVersions`: the arguments of `SetSupportedProtocolVersions`,
                                 -- or, for an executor left at its default, `defaultSupportedVersion` as the
                                 -- harness reads it off the real executor (built-in DiscoverVersions) on every
                                 -- run ([] falls back to `defaultSupported`; harness lines never use that)
  routes : List Nat              -- operations registered with `Route`
  deriving Repr, Inhabited

/-- membership in `exec.supportedVersions` after `SetSupportedProtocolVersions` (sorting and
    de-duplication do not change membership). -/
def Srv.supports (s : Srv) (v : Ver) : Bool :=
  (if s.supported.isEmpty then defaultSupported else s.supported).contains v

def Srv.routed (s : Srv) (op : Nat) : Bool := s.routes.contains op

structure Req where
  ver : Ver
  opt : Nat                      -- `BatchErrorContinuationOption` as a number (0 = absent)
  count : Int                    -- `BatchCount` (int32)
  items : List Item
  deriving Repr, Inhabited

/-- `kmip.ResponseBatchItem` as far as the property is concerned. `op = 0` / `id = none` are the
    Go zero values (both fields are `omitempty`). `failed = false` is `ResultStatusSuccess` (the
    zero value), `failed = true` is `ResultStatusOperationFailed`. -/
structure RItem where
  op : Nat
  id : Option Nat
  failed : Bool
  reason : Nat
  deriving Repr, DecidableEq, Inhabited

structure Resp where
  ver : Ver
  count : Int
  items : List RItem
  deriving Repr, DecidableEq, Inhabited

/-- the errors `handleBatchItemError` can tell apart. -/
inductive Err where
  | typed (reason : Nat)
  | plain
  deriving Repr, DecidableEq, Inhabited

/-- `handleBatchItemError(ctx, bi, err)` with `err ≠ nil`: clears the placeholder, marks the item
    failed with the error's reason (`GeneralFailure` when it is not a `kmipserver.Error`). -/
def handleBatchItemError (bi : RItem) (e : Err) : Val × RItem :=
  (0, { bi with failed := true,
                reason := match e with | .typed r => r | .plain => reasonGeneralFailure })

/-- result of processing one item. -/
structure ItemOut where
  ri : RItem
  ph : Val                       -- placeholder afterwards
  obs : List Val                 -- values the handler read
  called : Bool                  -- `HandleOperation` was invoked
  deriving Repr, Inhabited

/-- body of a routed handler: runs the scripted accesses, then ends as scripted. A panic is
    recovered by the deferred function of `executeItem`, which calls `handleBatchItemError` itself
    and lets `executeItem` return `(resp, nil)`. -/
def callHandler (ph : Val) (resp : RItem) (it : Item) : ItemOut × Option Err :=
  let (ph', obs) := runActs ph it.acts
  match it.out with
  | .success => ({ ri := resp, ph := ph', obs := obs, called := true }, none)
  | .typedErr r => ({ ri := resp, ph := ph', obs := obs, called := true }, some (.typed r))
  | .plainErr => ({ ri := resp, ph := ph', obs := obs, called := true }, some .plain)
  | .panicTyped r =>
    let (ph'', resp') := handleBatchItemError resp (.typed r)
    ({ ri := resp', ph := ph'', obs := obs, called := true }, none)
  | .panicOther =>
    let (ph'', resp') := handleBatchItemError resp .plain
    ({ ri := resp', ph := ph'', obs := obs, called := true }, none)

/-- `executeItem`. -/
def executeItem (srv : Srv) (ph : Val) (it : Item) : ItemOut × Option Err :=
  let resp : RItem := { op := it.op, id := it.id, failed := false, reason := 0 }
  if it.ext = some true then
    ({ ri := resp, ph := ph, obs := [], called := false }, some (.typed reasonFeatureNotSupported))
  else if it.discover then
    if srv.routed it.op then callHandler ph resp it
    else ({ ri := resp, ph := ph, obs := [], called := false }, none)      -- `handleDiscover`
  else
    if !srv.routed it.op then
      ({ ri := resp, ph := ph, obs := [], called := false },
        some (.typed reasonOperationNotSupported))                          -- ErrOperationNotSupported
    else callHandler ph resp it

/-- `executeItemWithMiddleware` with no batch item middleware: `respBi` is never nil.
    Its last-resort recovery (06bba78) catches a panic raised while the outcome of the handler is
    RENDERED (the `Error` / `Unwrap` / `String` method of the error returned or of the value panicked
    with panics): it clears the placeholder and answers the item failed, echoing operation and id.
    Observably that is what `.plainErr` (error returned) and `.panicOther` (value panicked with) give
    here, so such outcomes are not constructors of their own: the harness scripts them as variants of
    `x` / `p` and the real code must answer as this model does. -/
def executeItemWithMiddleware (srv : Srv) (ph : Val) (it : Item) : ItemOut :=
  match executeItem srv ph it with
  | (o, none) => o
  | (o, some e) =>
    let (ph', ri') := handleBatchItemError o.ri e
    { o with ri := ri', ph := ph' }

/-- the response item of an item that is skipped because the batch has stopped. -/
def canceled (it : Item) : RItem :=
  { op := it.op, id := it.id, failed := true, reason := reasonOperationCanceledByRequester }

structure LoopOut where
  items : List RItem
  calls : List Nat               -- indices of the items whose handler was invoked, in order
  obs : List (Nat × Val)         -- (item index, value read), in order
  ph : Val
  deriving Repr, Inhabited

/-- the `for i := range req.BatchItem` loop; `stop` is
    `errorContinuationOption == BatchErrorContinuationOptionStop`. -/
def loop (srv : Srv) (stop : Bool) : List Item → Nat → Bool → Val → LoopOut
  | [], _, _, ph => { items := [], calls := [], obs := [], ph := ph }
  | it :: rest, i, stopped, ph =>
    if stopped then
      let r := loop srv stop rest (i + 1) true ph
      { r with items := canceled it :: r.items }
    else
      let o := executeItemWithMiddleware srv ph it
      let r := loop srv stop rest (i + 1) (o.ri.failed && stop) o.ph
      { items := o.ri :: r.items,
        calls := (if o.called then [i] else []) ++ r.calls,
        obs := o.obs.map (fun v => (i, v)) ++ r.obs,
        ph := r.ph }

structure Out where
  resp : Resp
  calls : List Nat
  obs : List (Nat × Val)
  ph : Val
  deriving Repr, Inhabited

/-- `handleRequest` (the core handler). `ph`: the content of the holder the operation handlers reach
    when the loop starts. Since 4b5c841 the core handler makes a batch context of its own for every
    message it executes, so this is always `""` (`execFull` passes `0`); the world model of
    `Placeholder` is where that is a parameter (`Impl.atCore`). -/
def handleRequest (srv : Srv) (ph : Val) (req : Req) : Except Err Out :=
  if !srv.supports req.ver then .error (.typed reasonInvalidMessage)
  else if req.opt > 0 && req.opt == optUndo then .error (.typed reasonFeatureNotSupported)
  else
    let eco := if req.opt > 0 then req.opt else optContinue
    if req.count ≠ (req.items.length : Int) then .error (.typed reasonInvalidMessage)
    else
      let r := loop srv (eco == optStop) req.items 0 false ph
      .ok { resp := { ver := req.ver, count := req.count, items := r.items },
            calls := r.calls, obs := r.obs, ph := r.ph }

/-- `handleMessageError`: one item without operation and id; request version, or 1.0 for the zero
    value; count 1. -/
def handleMessageError (req : Req) (e : Err) : Out :=
  let ver := if req.ver ≠ ((0, 0) : Ver) then req.ver else v10
  let (ph, bi) := handleBatchItemError { op := 0, id := none, failed := false, reason := 0 } e
  { resp := { ver := ver, count := 1, items := [bi] }, calls := [], obs := [], ph := ph }

/-- `HandleRequest` without message middleware: batch context for the middlewares, core handler
    (which makes the batch context of the handlers: placeholder ""), message error mapping (whose
    `Clear` hits the first of the two contexts, which no handler reaches). -/
def execFull (srv : Srv) (req : Req) : Out :=
  match handleRequest srv 0 req with
  | .ok o => o
  | .error e => handleMessageError req e

/-- response and ordered log of handler invocations. -/
def exec (srv : Srv) (req : Req) : Resp × List Nat :=
  ((execFull srv req).resp, (execFull srv req).calls)

/-! ### vocabulary of the properties -/

/-- the request passes the three header checks. -/
def Accepted (srv : Srv) (req : Req) : Prop :=
  srv.supports req.ver = true ∧ req.opt ≠ optUndo ∧ req.count = (req.items.length : Int)

instance (srv : Srv) (req : Req) : Decidable (Accepted srv req) := by
  unfold Accepted; infer_instance

/-- the item reaches a registered handler. -/
def dispatched (srv : Srv) (it : Item) : Bool :=
  it.ext != some true && srv.routed it.op

/-- the item, when it is processed, ends up failed. -/
def fails (srv : Srv) (it : Item) : Bool :=
  it.ext == some true ||
  (if srv.routed it.op then it.out != .success else !it.discover)

/-- the result reason of an item that is processed. -/
def itemReason (srv : Srv) (it : Item) : Nat :=
  if it.ext = some true then reasonFeatureNotSupported
  else if srv.routed it.op then
    match it.out with
    | .success => 0
    | .typedErr r => r
    | .plainErr => reasonGeneralFailure
    | .panicTyped r => r
    | .panicOther => reasonGeneralFailure
  else if it.discover then 0 else reasonOperationNotSupported

/-- the response item of an item that is processed (it does not depend on the placeholder). -/
def itemResult (srv : Srv) (it : Item) : RItem :=
  { op := it.op, id := it.id, failed := fails srv it, reason := itemReason srv it }

/-- the placeholder accesses caused by processing one item (handler accesses, then the `Clear` of
    `handleBatchItemError` when the item fails). -/
def itemSteps (srv : Srv) (it : Item) : List PAct :=
  (if dispatched srv it then it.acts else []) ++ (if fails srv it then [.clear] else [])

/-- the placeholder accesses of the loop. -/
def loopSteps (srv : Srv) (stop : Bool) : List Item → Bool → List PAct
  | [], _ => []
  | it :: rest, stopped =>
    if stopped then loopSteps srv stop rest true
    else itemSteps srv it ++ loopSteps srv stop rest (fails srv it && stop)

/-- the placeholder accesses of a whole request (after `newBatchContext`). -/
def steps (srv : Srv) (req : Req) : List PAct :=
  if Accepted srv req then loopSteps srv (req.opt == optStop) req.items false else [.clear]


/-- item `j` of the loop is skipped: the loop was entered stopped, or `stop` is on and an earlier
    item fails. -/
def stoppedAt (srv : Srv) (stop stopped : Bool) (items : List Item) (j : Nat) : Bool :=
  stopped || (stop && (items.take j).any (fails srv))

/-- the values read on behalf of item `c`. -/
def obsOfItem (c : Nat) (obs : List (Nat × Val)) : List Val :=
  (obs.filter (fun e => e.1 == c)).map (·.2)

/-- the content of the placeholder when item `j` is reached: the last value written by the
    accesses of the items before it (`""` when there is none). -/
def phBefore (srv : Srv) (req : Req) (j : Nat) : Val :=
  lastWrite 0 (loopSteps srv (req.opt == optStop) (req.items.take j) false)

/-! ### the loop around an arbitrary item chain

With batch-item middlewares installed `executeItemWithMiddleware` is no longer `executeItem` + error mapping: a
middleware may skip, retry, rewrite or replace the item result (C19 models one such chain around one item). The
loop of `handleRequest` only sees what comes OUT of the chain. `loopG` is that loop around an arbitrary item
executor `f` (index, placeholder, request item ↦ response item, placeholder): what holds of it holds whatever
middlewares are installed. -/

structure GItemOut where
  ri : RItem
  ph : Val
  deriving Repr, Inhabited

/-- response items, and the indices of the items handed to the item chain, in order. -/
def loopG (f : Nat → Val → Item → GItemOut) (stop : Bool) :
    List Item → Nat → Bool → Val → List RItem × List Nat
  | [], _, _, _ => ([], [])
  | it :: rest, i, stopped, ph =>
    if stopped then
      let r := loopG f stop rest (i + 1) true ph
      (canceled it :: r.1, r.2)
    else
      let o := f i ph it
      let r := loopG f stop rest (i + 1) (o.ri.failed && stop) o.ph
      (o.ri :: r.1, i :: r.2)

/-- the item executor of the middleware-free model. -/
def plainItem (srv : Srv) : Nat → Val → Item → GItemOut :=
  fun _ ph it => { ri := (executeItemWithMiddleware srv ph it).ri, ph := (executeItemWithMiddleware srv ph it).ph }

end Kmip.Batch
