/-
  C05 — message elements are gated by the protocol version in the header.

  A message encoded for protocol version V contains no element that the KMIP specification introduces
  after V (neither a later field of an existing structure nor a later header field) and contains every
  populated element that is valid at V. Decoding at any version still accepts and returns later-version
  elements when they are present on the wire.

  Shape of the argument (model: `Model/Plan.lean`, the field loop `encFields`/`decFields` with the three
  wrappers `set-version`, `version=`, `omitempty` and the shared version cell):
    1/2  per field: out of range ⇒ nothing is written; in range and populated ⇒ the kind's encoding is written;
    3    the cell every nested field loop sees is the header's ProtocolVersion (the cell is only ever written
         by the first field of the two headers — a decidable fact of the regenerated schema);
    3'   END TO END: the bytes of a whole message = the bytes obtained, with the schema RESTRICTED to the
         header's version (no later element, no annotation), from the message stripped of its later elements;
    4    the decoder consults the range only for ABSENT elements;
    5    the `version=` annotations of the Go structs are exactly the pinned introduction table, POSITION-AWARE
         (structure key, element tag, occurrence of that tag in the structure, version).

  1, 1', 2, 2', 4 are one-step characterisations of the model's field loops (true by unfolding the model: all
  their force comes from the model/code correspondence); the content is in 3, 3' (inductions over the five
  mutually recursive encoders) and 5 (kernel-evaluated comparison of regenerated data with pinned data).
-/
import KmipModel.Lemmas.GateLemmas
import KmipModel.Lemmas.GateDecLemmas
import KmipModel.Gen.Schema
import KmipModel.Pinned.Introduced
namespace Kmip.C05
open Kmip

/-! ### 1 / 2 — one step of the encoder's field loop -/

/-- 0. the field loop, one step, with the wrappers made explicit: the field is skipped iff it is out of the
    range of the current version cell or it is an empty `omitempty` value; otherwise the kind's encoder runs
    (with the cell as updated by a set-version field). Every nested struct goes through this same loop. -/
theorem encFields_step (S : Schema) (fuel : Nat) (f : Field) (fs : List Field) (v : Val)
    (vs : List Val) (cell : Option Ver) :
    encFields S (fuel + 1) (f :: fs) (v :: vs) cell =
      if (fieldOutOfRange f (fieldCell f v cell) || (f.omitempty && v.isZero)) = true then
        encFields S fuel fs vs (fieldCell f v cell)
      else (do
        let (a, ver2) ← encK S fuel f.kind (fieldTag S f v) v (fieldCell f v cell)
        let (b, ver3) ← encFields S fuel fs vs ver2
        pure (a ++ b, ver3)) :=
  encFields_cons S fuel f fs v vs cell

/-- 1. a field whose range does not contain the current version contributes NO item, whatever its value
    (at any nesting depth this is the same lemma: nested structs go through `encFields` again, with the
    same cell — see `version_cell_stable`). -/
theorem gated_field_emits_nothing (S : Schema) (fuel : Nat) (f : Field) (fs : List Field) (v : Val)
    (vs : List Val) (r : VRange) (ver : Ver) (hr : f.vrange = some r) (hsv : f.setVersion = false)
    (hout : r.contains ver = false) :
    encFields S (fuel + 1) (f :: fs) (v :: vs) (some ver) = encFields S fuel fs vs (some ver) := by
  have hcell : fieldCell f v (some ver) = some ver := by unfold fieldCell; rw [hsv]; rfl
  have hskip : fieldOutOfRange f (some ver) = true := by
    unfold fieldOutOfRange; rw [hr]; simp [versionIn, hout]
  rw [encFields_step, hcell, hskip]
  rfl

/-- 1'. the same for a set-version field (the header's own ProtocolVersion field), gated by its own value. -/
theorem gated_field_emits_nothing' (S : Schema) (fuel : Nat) (f : Field) (fs : List Field) (v : Val)
    (vs : List Val) (r : VRange) (cell : Option Ver) (hr : f.vrange = some r)
    (hout : versionIn (fieldCell f v cell) r = false) :
    encFields S (fuel + 1) (f :: fs) (v :: vs) cell = encFields S fuel fs vs (fieldCell f v cell) := by
  have hskip : fieldOutOfRange f (fieldCell f v cell) = true := by
    unfold fieldOutOfRange; rw [hr]; dsimp only; rw [hout]; rfl
  rw [encFields_step, hskip]
  rfl

/-- 2. a populated field that is valid at the current version IS written: the items of the struct are the
    items of the field's own encoding followed by those of the remaining fields. -/
theorem ingated_field_emitted (S : Schema) (fuel : Nat) (f : Field) (fs : List Field) (v : Val)
    (vs : List Val) (ver : Ver) (hsv : f.setVersion = false)
    (hin : f.vrange = none ∨ ∃ r, f.vrange = some r ∧ r.contains ver = true)
    (hpop : ¬ (f.omitempty = true ∧ v.isZero = true)) :
    encFields S (fuel + 1) (f :: fs) (v :: vs) (some ver) = (do
      let (a, ver2) ← encK S fuel f.kind (fieldTag S f v) v (some ver)
      let (b, ver3) ← encFields S fuel fs vs ver2
      pure (a ++ b, ver3)) := by
  have hcell : fieldCell f v (some ver) = some ver := by unfold fieldCell; rw [hsv]; rfl
  have hrange : fieldOutOfRange f (some ver) = false := by
    unfold fieldOutOfRange
    rcases hin with h | ⟨r, h, hc⟩
    · rw [h]
    · rw [h]; simp [versionIn, hc]
  have hempty : (f.omitempty && v.isZero) = false := by
    cases ho : f.omitempty <;> cases hz : v.isZero <;> simp_all
  rw [encFields_step, hcell, hrange, hempty]
  rfl

/-- 2'. consequently, when the whole struct encodes, the field's items are a prefix of the struct's items. -/
theorem ingated_field_items_prefix (S : Schema) (fuel : Nat) (f : Field) (fs : List Field) (v : Val)
    (vs : List Val) (ver : Ver) (items : List Item) (ver' : Option Ver) (hsv : f.setVersion = false)
    (hin : f.vrange = none ∨ ∃ r, f.vrange = some r ∧ r.contains ver = true)
    (hpop : ¬ (f.omitempty = true ∧ v.isZero = true))
    (h : encFields S (fuel + 1) (f :: fs) (v :: vs) (some ver) = .ok (items, ver')) :
    ∃ a ver2 b, encK S fuel f.kind (fieldTag S f v) v (some ver) = .ok (a, ver2) ∧
      encFields S fuel fs vs ver2 = .ok (b, ver') ∧ items = a ++ b := by
  rw [ingated_field_emitted S fuel f fs v vs ver hsv hin hpop] at h
  obtain ⟨⟨a, c1⟩, h1, h2⟩ := Res.bind_eq_ok h
  obtain ⟨⟨b, c2⟩, h3, h4⟩ := Res.bind_eq_ok h2
  cases h4
  exact ⟨a, c1, b, h1, h3, rfl⟩

/-! ### 3 — the version used for gating everywhere below the header is the header's -/

/-- 3a. encoding a value whose kind reaches no set-version field (decidable: `svFreeK S N k`), and whose
    interface values hold only dynamic types of that sort, hands back the version cell it was given. -/
theorem version_cell_stable (S : Schema) (N fuel : Nat) (k : Kind) (tag : Nat) (v : Val) (ver : Ver)
    (items : List Item) (ver' : Option Ver) (hk : svFreeK S N k = true)
    (hv : v.dynsOk (S.svFreeDyn N) = true)
    (h : encK S fuel k tag v (some ver) = .ok (items, ver')) : ver' = some ver :=
  (cellStable S _ (S.svFreeDyn_sound N) fuel).encK k tag v (some ver) items ver' ⟨N, hk⟩ hv h

/-- 3b. the same for a field loop without set-version field. -/
theorem version_cell_stable_fields (S : Schema) (N fuel : Nat) (fields : List Field) (vs : List Val)
    (ver : Ver) (items : List Item) (ver' : Option Ver) (hf : svFreeFields S N fields = true)
    (hv : Val.dynsOkL (S.svFreeDyn N) vs = true)
    (h : encFields S fuel fields vs (some ver) = .ok (items, ver')) : ver' = some ver :=
  (cellStable S _ (S.svFreeDyn_sound N) fuel).encFields fields vs (some ver) items ver' ⟨N, hf⟩ hv h

/-- 3c. a header (first field set-version, nothing else): after it the cell is the header's own
    ProtocolVersion, whatever the cell was before. -/
theorem header_sets_version_cell (S : Schema) (N fuel : Nat) (f : Field) (fs : List Field) (pv : Val)
    (vs : List Val) (cell : Option Ver) (items : List Item) (cell' : Option Ver)
    (hsv : f.setVersion = true) (hk : svFreeK S N f.kind = true) (hfs : svFreeFields S N fs = true)
    (hv : Val.dynsOkL (S.svFreeDyn N) (pv :: vs) = true)
    (h : encFields S fuel (f :: fs) (pv :: vs) cell = .ok (items, cell')) : cell' = some pv.asVer :=
  encFields_header_cell S _ (S.svFreeDyn_sound N) fuel f fs pv vs cell items cell' hsv ⟨N, hk⟩ ⟨N, hfs⟩ hv h

/-- 3d. **a whole message**: under the two decidable schema conditions, encoding the fields of a
    Request/ResponseMessage `[header (pv :: …), batch items]` encodes the header into one structure item and
    then the batch items WITH THE CELL `some pv.asVer` — the header's ProtocolVersion — which they hand
    back unchanged (so by 3a/3b every field loop nested anywhere in the batch items is gated by it). -/
theorem message_gated_by_header_version (S : Schema) (N : Nat)
    (hH : S.noNestedSetVersion N = true) (hM : S.messageShape N = true)
    (d : StructDef) (hd : d ∈ S.structs)
    (htag : d.defTag = T.requestMessage ∨ d.defTag = T.responseMessage)
    (fuel : Nat) (pv : Val) (hs : List Val) (bv : Val) (cell : Option Ver) (items : List Item)
    (cell' : Option Ver) (hv : Val.dynsOkL (S.svFreeDyn N) [.struct (pv :: hs), bv] = true)
    (h : encFields S (fuel + 2) d.fields [.struct (pv :: hs), bv] cell = .ok (items, cell')) :
    ∃ fh fb hitems b, d.fields = [fh, fb] ∧
      encK S (fuel + 1) fh.kind fh.tag (.struct (pv :: hs)) cell
        = .ok ([.struct fh.tag hitems], some pv.asVer) ∧
      encFields S (fuel + 1) [fb] [bv] (some pv.asVer) = .ok (b, some pv.asVer) ∧
      items = .struct fh.tag hitems :: b ∧ cell' = some pv.asVer :=
  message_encode_cell S N hH hM _ (S.svFreeDyn_sound N) d hd htag fuel pv hs bv cell items cell' hv h

/-- 3e. the decidable side conditions hold of the schema extracted from the current Go types: the only
    structs with a set-version field are RequestHeader (0x420077) and ResponseHeader (0x42007A), there it
    is the first field; the messages are `[header, batch items]`; every dynamic type except the two
    messages themselves reaches no set-version field. -/
theorem gen_no_nested_set_version : Gen.schema.noNestedSetVersion 128 = true := by decide +kernel
theorem gen_message_shape : Gen.schema.messageShape 128 = true := by decide +kernel
theorem gen_dyns_svFree : Gen.schema.dynsSvFree 128 = true := by decide +kernel

/-! ### 3' — end to end: every element at every depth is gated by the header's version -/

/-- 3'a. what the version-`V` schema is: a reflectively encoded struct keeps exactly the fields that exist at
    `V` (same order), and none of them carries an annotation any more — encoding with it gates nothing. -/
theorem restricted_schema_has_no_later_element (S : Schema) (V : Ver) (id : Nat)
    (h : (S.structDef id).encCustom = false) :
    ((S.restrict V).structDef id).fields
        = ((S.structDef id).fields.filter (Field.inAt V)).map Field.ungate ∧
    ∀ f ∈ ((S.restrict V).structDef id).fields, f.vrange = none :=
  S.restrict_fields V id h

/-- 3'b. **any value, any depth**: under the version cell `V`, a value whose kind reaches no set-version field
    encodes to the same items as, in the version-`V` schema, the value stripped of the elements that do not
    exist at `V` (`rvK` drops them in every nested struct, slice element, pointer target and interface value).
    Hence: no element introduced after `V` is written at any depth, and every element that the restricted
    schema's (ungated) encoder writes for the stripped value is written. -/
theorem encode_at_version_eq_restricted (S : Schema) (V : Ver) (N fuel : Nat)
    (hC : S.customsUngated = true) (hO : S.noOmitemptyStruct = true)
    (k : Kind) (tag : Nat) (v : Val) (r : EncSt) (hk : svFreeK S N k = true)
    (hv : v.dynsOk (S.svFreeDyn N) = true) (h : encK S fuel k tag v (some V) = .ok r) :
    encK (S.restrict V) fuel k tag (rvK S V fuel k v) (some V) = .ok r :=
  (restrictOk S V _ (S.svFreeDyn_sound N) hC hO fuel).encK k tag v r ⟨N, hk⟩ hv h

/-- 3'c. **whole messages** (general schema): `marshal` of a message whose header announces `M.m` equals
    `marshal`, with the schema restricted to `M.m`, of the message stripped of its later elements — the header's
    own later fields included. The version cell starts empty (`none`) and is set by the header itself. -/
theorem marshal_eq_marshal_restricted (S : Schema) (N : Nat)
    (hH : S.noNestedSetVersion N = true) (hM : S.messageShape N = true) (hC : S.customsUngated = true)
    (hO : S.noOmitemptyStruct = true) (hP : S.pvPlain = true)
    (dyn : Nat) (hdyn : S.isMessageDyn dyn = true) (tag : Nat) (M m : Val) (hs : List Val) (bv : Val)
    (hv : Val.dynsOkL (S.svFreeDyn N) [.struct (.struct [M, m] :: hs), bv] = true) (bs : Bytes)
    (h : marshal S dyn tag (.ptr (some (.struct [.struct (.struct [M, m] :: hs), bv]))) = .ok bs) :
    marshal (S.restrict (Val.struct [M, m]).asVer) dyn tag
      (restrictMessage S (Val.struct [M, m]).asVer dyn
        (.ptr (some (.struct [.struct (.struct [M, m] :: hs), bv])))) = .ok bs :=
  Kmip.marshal_eq_marshal_restricted S N hH hM hC hO hP dyn hdyn tag M m hs bv hv bs h

/-- 3'd. the decidable side conditions of 3'b/3'c hold of the regenerated schema: structs with a hand-written
    encoder carry no annotation (Go would ignore it); no `omitempty` field holds a struct directly; the first
    header field is an unannotated struct of two plain integers; the two message types are what they are. -/
theorem gen_customs_ungated : Gen.schema.customsUngated = true := by decide +kernel
theorem gen_no_omitempty_struct : Gen.schema.noOmitemptyStruct = true := by decide +kernel
theorem gen_pv_plain : Gen.schema.pvPlain = true := by decide +kernel
theorem gen_message_dyns : Gen.schema.isMessageDyn Gen.requestMessageDyn = true ∧
    Gen.schema.isMessageDyn Gen.responseMessageDyn = true := by decide +kernel

/-- 3'e. **the library's messages**: for the schema regenerated from the Go types and both message types
    (`response = false/true`): whatever the header (`M`, `m`, other header fields `hs`) and the batch items
    `bv`, provided the interface values inside hold registered payload / object / attribute types (not a
    message smuggled behind an interface), the bytes `ttlv.MarshalTTLV` produces are the bytes of the message
    stripped of everything later than `M.m`, encoded with the schema of version `M.m`. -/
theorem gen_marshal_at_header_version (response : Bool) (M m : Val) (hs : List Val) (bv : Val)
    (hv : Val.dynsOkL Gen.schema.payloadLikeDyn [.struct (.struct [M, m] :: hs), bv] = true) (bs : Bytes)
    (h : marshal Gen.schema (if response then Gen.responseMessageDyn else Gen.requestMessageDyn) 0
      (.ptr (some (.struct [.struct (.struct [M, m] :: hs), bv]))) = .ok bs) :
    marshal (Gen.schema.restrict (Val.struct [M, m]).asVer)
      (if response then Gen.responseMessageDyn else Gen.requestMessageDyn) 0
      (restrictMessage Gen.schema (Val.struct [M, m]).asVer
        (if response then Gen.responseMessageDyn else Gen.requestMessageDyn)
        (.ptr (some (.struct [.struct (.struct [M, m] :: hs), bv])))) = .ok bs := by
  have hv' := Val.dynsOkL_mono _ _ (Gen.schema.payloadLikeDyn_svFree 128 gen_dyns_svFree) _ hv
  have hd : Gen.schema.isMessageDyn (if response then Gen.responseMessageDyn else Gen.requestMessageDyn)
      = true := by
    cases response
    · exact gen_message_dyns.1
    · exact gen_message_dyns.2
  exact Kmip.marshal_eq_marshal_restricted Gen.schema 128 gen_no_nested_set_version gen_message_shape
    gen_customs_ungated gen_no_omitempty_struct gen_pv_plain _ hd 0 M m hs bv hv' bs h

/-! ### 4 — decoding is lenient -/

/-- 4. when the element is present on the wire (the current tag is the field's tag) it is decoded by the
    kind's decoder WHATEVER the version cell says: out-of-range versions do not reject present elements. -/
theorem decode_lenient (S : Schema) (fuel : Nat) (f : Field) (fs : List Field) (c : Cur)
    (ver : Option Ver) (ht : c.tag = f.tag) (hd : f.dynTag = false) :
    decFields S (fuel + 1) (f :: fs) c ver = (do
      let (v, c1, ver1) ← decK S fuel f.kind f.tag c ver
      let ver2 := if f.setVersion then some v.asVer else ver1
      let (vs, st) ← decFields S fuel fs c1 ver2
      pure (v :: vs, st)) :=
  decFields_present S fuel f fs c ver ht hd

/-- 4'. **end to end** (any schema, any bytes, any target type): whatever the ANNOTATION-FREE decoder — the
    decoder of the schema `S.ungated`, in which every element exists at every version — accepts, the library's
    decoder accepts too and returns the same value, whatever version the header announces and at any depth.
    So a later-version element present on the wire is never rejected nor dropped because of the version: the
    only effect an annotation has on decoding is to make an ABSENT out-of-range element not an error. -/
theorem decode_lenient_everywhere (S : Schema) (d tag : Nat) (bs : Bytes) (v : Val)
    (h : unmarshal S.ungated d tag bs = .ok v) : unmarshal S d tag bs = .ok v :=
  unmarshal_lenient S d tag bs v h

/-- 4'a. `S.ungated` is what it says: same structs, same fields, no annotation. -/
theorem ungated_schema_has_no_annotation (S : Schema) (id : Nat) :
    (S.ungated.structDef id).fields = (S.structDef id).fields.map Field.ungate ∧
    ∀ f ∈ (S.ungated.structDef id).fields, f.vrange = none := by
  rw [Schema.ungated_structDef]
  refine ⟨rfl, ?_⟩
  intro f hf
  rw [StructDef.ungate_fields, List.mem_map] at hf
  obtain ⟨g, _, rfl⟩ := hf
  rfl

/-- 4'b. for the library's messages. -/
theorem gen_decode_lenient (response : Bool) (bs : Bytes) (v : Val)
    (h : unmarshal Gen.schema.ungated (if response then Gen.responseMessageDyn else Gen.requestMessageDyn) 0 bs
      = .ok v) :
    unmarshal Gen.schema (if response then Gen.responseMessageDyn else Gen.requestMessageDyn) 0 bs = .ok v :=
  unmarshal_lenient _ _ _ _ _ h

/-! ### 5 — the `version=` annotations are the pinned table -/

/-- 5. the set of (structure key, element tag, occurrence, introduction version) rows carried by the Go structs
    equals the pinned table of DESIGN.md Appendix B (61 rows): both inclusions and the same number of rows — a
    field that gains or loses a range, whose start version changes, that gets an upper bound, or an annotation
    MOVED to another field with the same tag in the same structure (Authentication: Credential vs additional
    Credential) fails. -/
theorem gen_gating_matches : gatingMatchesPos Pinned.introduced Gen.schema = true := by decide +kernel

/-- 5a. what 5 means, code ⇒ table: every field of every struct of the schema that carries a range has an
    open-ended range `vM.m..`, sits in a struct with a stable key, and is pinned at exactly that version and
    position (`occ` = number of earlier fields of the struct with the same tag). -/
theorem gen_every_range_is_pinned (id : Nat) (hid : id < Gen.schema.structs.length) (f : Field) (occ : Nat)
    (hf : (f, occ) ∈ withOcc [] (Gen.schema.structDef id).fields) (r : VRange) (hr : f.vrange = some r) :
    r.stop = none ∧ ∃ M m, r.start = some (M, m) ∧ structKeys Gen.schema id ≠ [] ∧
      ∀ k ∈ structKeys Gen.schema id, (k, f.tag, occ, M, m) ∈ Pinned.introduced :=
  gatingMatchesPos_code_in_table _ _ gen_gating_matches id hid f occ hf r hr

/-- 5b. table ⇒ code: every pinned row is the annotation of the field at that position of the struct with
    that key. -/
theorem gen_every_pin_is_annotated (q : Nat × Nat × Nat × Nat × Nat) (hq : q ∈ Pinned.introduced) :
    ∃ id, id < Gen.schema.structs.length ∧ q.1 ∈ structKeys Gen.schema id ∧
      ∃ f, (f, q.2.2.1) ∈ withOcc [] (Gen.schema.structDef id).fields ∧
        f.tag = q.2.1 ∧ f.vrange = some { start := some (q.2.2.2.1, q.2.2.2.2), stop := none } :=
  gatingMatchesPos_table_in_code _ _ gen_gating_matches q hq

/-- the occurrence number is what it says: the number of earlier fields with the same tag. -/
theorem occurrence_counts_earlier_same_tag (fields : List Field) (f : Field) (occ : Nat)
    (h : (f, occ) ∈ withOcc [] fields) :
    ∃ pre post, fields = pre ++ f :: post ∧ occ = (pre.map (·.tag)).count f.tag := by
  obtain ⟨pre, post, he, ho⟩ := withOcc_mem h
  exact ⟨pre, post, he, by simpa using ho⟩

/-- 5c. `contains` for the ranges of the table: an element introduced at `s` is in range exactly from `s` on. -/
theorem introduced_range_contains (s v : Ver) :
    ({ start := some s, stop := none } : VRange).contains v = !(Ver.lt v s) := by
  simp [VRange.contains]

/-- 5d. 3' and 5 together, code ⇒ specification: a field that the version-`V` schema of the library does NOT
    have is an element the pinned table introduces after `V` (under every key of its struct). -/
theorem gen_dropped_field_is_pinned_later (V : Ver) (id : Nat) (hid : id < Gen.schema.structs.length)
    (f : Field) (occ : Nat) (hf : (f, occ) ∈ withOcc [] (Gen.schema.structDef id).fields)
    (hout : f.inAt V = false) :
    structKeys Gen.schema id ≠ [] ∧ ∃ M m, Ver.lt V (M, m) = true ∧
      ∀ k ∈ structKeys Gen.schema id, (k, f.tag, occ, M, m) ∈ Pinned.introduced := by
  unfold Field.inAt at hout
  cases hr : f.vrange with
  | none => rw [hr] at hout; exact nomatch hout
  | some r =>
    rw [hr] at hout
    obtain ⟨hstop, M, m, hstart, hne, hall⟩ := gen_every_range_is_pinned id hid f occ hf r hr
    refine ⟨hne, M, m, ?_, hall⟩
    obtain ⟨st, sp⟩ := r
    cases hstop; cases hstart
    dsimp only at hout
    rw [introduced_range_contains] at hout
    simpa using hout

/-- 5e. specification ⇒ code: every pinned row `(key, tag, occ, M.m)` is a field of the struct with that key
    which the version-`V` schema drops for every `V` before `M.m` and keeps from `M.m` on. -/
theorem gen_pinned_later_is_dropped (q : Nat × Nat × Nat × Nat × Nat) (hq : q ∈ Pinned.introduced) :
    ∃ id, id < Gen.schema.structs.length ∧ q.1 ∈ structKeys Gen.schema id ∧
      ∃ f, (f, q.2.2.1) ∈ withOcc [] (Gen.schema.structDef id).fields ∧ f.tag = q.2.1 ∧
        ∀ V, f.inAt V = !(Ver.lt V (q.2.2.2.1, q.2.2.2.2)) := by
  obtain ⟨id, hid, hk, f, hf, ht, hr⟩ := gen_every_pin_is_annotated q hq
  refine ⟨id, hid, hk, f, hf, ht, ?_⟩
  intro V
  unfold Field.inAt
  rw [hr]
  exact introduced_range_contains _ _

/-- 5f. **independent of the pinned table** (which was first produced from the annotations, then reviewed): KMIP
    numbers tags and operation codes chronologically (1.0: … 0x4200A1, 1.1: … 0x4200B7, 1.2: … 0x4200D3,
    1.3: … 0x4200F7, 1.4 after; operations 1.0: … 0x1C, 1.1: … 0x1E, 1.2: … 0x29, 1.4 after). In the regenerated
    schema NO field whose tag is younger than its structure (the structure's own tag, or the operation of the
    payload) lacks a range starting at the tag's version or later: a later element placed in an older structure
    without annotation — the kind of omission a table derived from the annotations could not reveal — fails here.
    (Older tags re-used in a new place — 4 of the 61 rows — are beyond this check and rest on the review.) -/
theorem gen_chronology_consistent : lateUngated Gen.schema = [] := by decide +kernel

/-! ### non-vacuity -/

/-- the table is not empty and every row names a version 1.1 … 1.4 (so "below 1.0 everything goes, from 1.4
    on everything stays"). -/
example : Pinned.introduced.length ≥ 1 ∧
    Pinned.introduced.all (fun q => q.2.2.2.1 == 1 && 1 ≤ q.2.2.2.2 && q.2.2.2.2 ≤ 4) = true := by
  decide +kernel

/-- a changed introduction version, a dropped row, an extra row, and an annotation MOVED from the additional
    Credential to the first one (same structure, same tag, other position) are all detected. -/
example : gatingMatchesPos ((0x420077, 0x420105, 0, 1, 3) :: Pinned.introduced.tail) Gen.schema = false := by
  decide +kernel
example : gatingMatchesPos Pinned.introduced.tail Gen.schema = false := by decide +kernel
example : gatingMatchesPos ((0x420077, 0x420050, 0, 1, 1) :: Pinned.introduced) Gen.schema = false := by
  decide +kernel
example : gatingMatchesPos ((0x42000C, 0x420023, 0, 1, 2) ::
    Pinned.introduced.filter (fun q => q.1 != 0x42000C)) Gen.schema = false := by decide +kernel
/-- … and the row of Authentication really is at occurrence 1. -/
example : (0x42000C, 0x420023, 1, 1, 2) ∈ Pinned.introduced := by decide +kernel

/-- 5f is not vacuous: 57 of the 61 pinned rows gate an element at exactly the version that created its tag, and
    the check does fire on a schema in which ClientCorrelationValue (a 1.4 tag in the 1.0 request header) has
    lost its annotation. -/
example : (Pinned.introduced.filter (fun q => tagVer q.2.1 == (q.2.2.2.1, q.2.2.2.2))).length + 4
    = Pinned.introduced.length := by decide +kernel
example : lateUngated { Gen.schema with structs := Gen.schema.structs.map fun d =>
    if d.defTag = T.requestHeader then
      { d with fields := d.fields.map fun f => if f.tag = 0x420105 then { f with vrange := none } else f }
    else d } ≠ [] := by decide +kernel

/-- the RequestHeader of the current schema (found by its tag, not by its id). -/
def requestHeaderDef : StructDef :=
  (Gen.schema.structs.find? (fun d => d.defTag == T.requestHeader)).getD { fields := [] }

/-- a populated request header: version `pv`, ClientCorrelationValue "c", ServerCorrelationValue "s",
    AttestationCapableIndicator = true, one AttestationType, BatchCount 1 — everything else absent. -/
def sampleHeader (major minor : Int) : List Val :=
  [.struct [.int major, .int minor], .int 0, .text [0x63], .text [0x73], .ptr none,
   .ptr (some (.bool true)), .list [.int 1], .ptr none, .int 0, .ptr none, .ptr none, .int 1]

/-- tags of the items written for a header value. -/
def headerTags (major minor : Int) : List Nat :=
  match encFields Gen.schema 64 requestHeaderDef.fields (sampleHeader major minor) none with
  | .ok (items, _) => items.map Item.tag
  | _ => []

/-- at 1.0: ProtocolVersion and BatchCount only — the 1.2 and 1.4 header fields are absent although populated. -/
example : headerTags 1 0 = [0x420069, 0x42000D] := by decide +kernel
/-- at 1.2: the attestation fields appear, the correlation values (1.4) still do not. -/
example : headerTags 1 2 = [0x420069, 0x4200D3, 0x4200C7, 0x42000D] := by decide +kernel
/-- at 1.4: every populated field is present. -/
example : headerTags 1 4 = [0x420069, 0x420105, 0x420106, 0x4200D3, 0x4200C7, 0x42000D] := by
  decide +kernel
/-- the cell handed on after the header is the header's version (3c on a concrete value). -/
example : (match encFields Gen.schema 64 requestHeaderDef.fields (sampleHeader 1 2) none with
    | .ok (_, cell) => cell | _ => none) = some (1, 2) := by decide +kernel

/-- the hypotheses of 1 and 2 are satisfiable on the current schema: the request header has a field
    ClientCorrelationValue (0x420105), not set-version, gated from 1.4 — out of range at 1.3, in range at
    1.4 and at 2.0. -/
example : requestHeaderDef.fields.any (fun f => f.tag == 0x420105 && !f.setVersion &&
    f.vrange == some { start := some (1, 4), stop := none }) = true ∧
    ({ start := some (1, 4), stop := none } : VRange).contains (1, 3) = false ∧
    ({ start := some (1, 4), stop := none } : VRange).contains (1, 4) = true ∧
    ({ start := some (1, 4), stop := none } : VRange).contains (2, 0) = true := by decide +kernel

/-- the hypotheses of 3a/3d are satisfiable: there is a struct tagged RequestMessage, it is
    `[header, batch items]` and the batch item kind reaches no set-version field; a Get request batch item
    (payload behind an interface) satisfies the value-side condition. -/
example : Gen.schema.structs.any (fun d => d.defTag == T.requestMessage &&
    match d.fields with
    | [_, fb] => svFreeK Gen.schema 128 fb.kind
    | _ => false) = true := by decide +kernel
example : (Val.list [.struct [.int 0xA, .bytes none,
      .iface (some (Gen.schema.payloadDyn 0xA false, .ptr (some (.struct [.text [0x31], .int 0, .int 0, .int 0, .ptr none])))),
      .ptr none]]).dynsOk (Gen.schema.svFreeDyn 128) = true := by decide +kernel
/-- …while a RequestMessage smuggled behind an interface is (rightly) not accepted by the condition. -/
example : (Val.iface (some (Gen.requestMessageDyn, .ptr none))).dynsOk (Gen.schema.svFreeDyn 128) = false := by
  decide +kernel

/-! a whole message, nested: RequestMessage → BatchItem → (interface) Get request payload → KeyWrapType
    (a 1.4 element, populated) and KeyWrappingSpecification → EncodingOption (a 1.1 element, populated). -/

mutual
  def allTags : Item → List Nat
    | .struct t cs => t :: allTagsL cs
    | .int t _ | .long t _ | .big t _ | .enum t _ | .bool t _ | .text t _ | .bytes t _ | .date t _
    | .interval t _ => [t]
  def allTagsL : List Item → List Nat
    | [] => []
    | c :: cs => allTags c ++ allTagsL cs
end

def sampleMessage (major minor : Int) : Val :=
  .struct [
    .struct [.struct [.int major, .int minor], .int 0, .text [], .text [], .ptr none, .ptr none, .list [],
             .ptr none, .int 0, .ptr none, .ptr none, .int 1],
    .list [.struct [.int 0xA, .bytes none,
      .iface (some (Gen.schema.payloadDyn 0xA false,
        .ptr (some (.struct [.text [0x31], .int 0, .int 1, .int 0,
          .ptr (some (.struct [.int 1, .ptr none, .ptr none, .list [], .int 1]))])))),
      .ptr none]]]

def messageTags (major minor : Int) : List Nat :=
  match encK Gen.schema 64 (Gen.schema.dyn Gen.requestMessageDyn).kind T.requestMessage
      (.ptr (some (sampleMessage major minor))) none with
  | .ok (items, _) => allTagsL items
  | _ => []

/-- version 1.0: neither KeyWrapType (0x4200F8) nor EncodingOption (0x4200A3) is written. -/
example : messageTags 1 0 =
    [0x420078, 0x420077, 0x420069, 0x42006A, 0x42006B, 0x42000D,
     0x42000F, 0x42005C, 0x420079, 0x420094, 0x420047, 0x42009E] := by decide +kernel
/-- version 1.1: EncodingOption appears (two levels below the payload), KeyWrapType does not. -/
example : messageTags 1 1 =
    [0x420078, 0x420077, 0x420069, 0x42006A, 0x42006B, 0x42000D,
     0x42000F, 0x42005C, 0x420079, 0x420094, 0x420047, 0x42009E, 0x4200A3] := by decide +kernel
/-- version 1.4: both are written. -/
example : messageTags 1 4 =
    [0x420078, 0x420077, 0x420069, 0x42006A, 0x42006B, 0x42000D,
     0x42000F, 0x42005C, 0x420079, 0x420094, 0x4200F8, 0x420047, 0x42009E, 0x4200A3] := by
  decide +kernel

/-- lenient decoding on bytes: a RequestHeader announcing version 1.0 but carrying a ClientCorrelationValue
    (a 1.4 element) decodes, and the element is returned. -/
def lenientBytes : Bytes :=
  [0x42, 0x00, 0x77, 0x01, 0, 0, 0, 0x48,
     0x42, 0x00, 0x69, 0x01, 0, 0, 0, 0x20,
       0x42, 0x00, 0x6A, 0x02, 0, 0, 0, 4, 0, 0, 0, 1, 0, 0, 0, 0,
       0x42, 0x00, 0x6B, 0x02, 0, 0, 0, 4, 0, 0, 0, 0, 0, 0, 0, 0,
     0x42, 0x01, 0x05, 0x07, 0, 0, 0, 1, 0x63, 0, 0, 0, 0, 0, 0, 0,
     0x42, 0x00, 0x0D, 0x02, 0, 0, 0, 4, 0, 0, 0, 1, 0, 0, 0, 0]

def decodedClientCorrelation : Option Bytes :=
  match (do
      let c ← Cur.start lenientBytes
      decStruct Gen.schema 64 requestHeaderDef.fields T.requestHeader c none) with
  | .ok (.struct (_ :: _ :: .text s :: _), _) => some s
  | _ => none

example : decodedClientCorrelation = some [0x63] := by decide +kernel

/-! the end-to-end statement on concrete values -/

/-- the version-1.0 schema of the request header has lost the four later header fields … -/
example : ((Gen.schema.restrict (1, 0)).structs.find? (fun d => d.defTag == T.requestHeader)).map
    (fun d => d.fields.map (·.tag)) = some
    [0x420069, 0x420050, 0x420007, 0x42000C, 0x42000E, 0x420010, 0x420092, 0x42000D] := by decide +kernel
/-- … the version-1.3 schema only the two 1.4 ones, the version-2.0 schema none. -/
example : ((Gen.schema.restrict (1, 3)).structs.find? (fun d => d.defTag == T.requestHeader)).map
    (fun d => d.fields.map (·.tag)) = some
    [0x420069, 0x420050, 0x420007, 0x4200D3, 0x4200C7, 0x42000C, 0x42000E, 0x420010, 0x420092, 0x42000D] := by
  decide +kernel
example : ((Gen.schema.restrict (2, 0)).structs.find? (fun d => d.defTag == T.requestHeader)).map
    (fun d => d.fields.length) = some requestHeaderDef.fields.length := by decide +kernel
/-- no annotation is left anywhere in a restricted schema's reflectively encoded structs. -/
example : (Gen.schema.restrict (1, 2)).structs.all
    (fun d => d.encCustom || d.fields.all (fun f => f.vrange.isNone)) = true := by decide +kernel

/-- the hypotheses of 3'e are satisfiable: the nested sample message only holds a Get request payload behind
    its interface. -/
example : Val.dynsOkL Gen.schema.payloadLikeDyn
    (match sampleMessage 1 0 with | .struct fs => fs | _ => []) = true := by decide +kernel

/-- the stripped Get request payload: at 1.0 KeyWrapType (third field) and, inside the
    KeyWrappingSpecification, EncodingOption are gone (5 → 4 fields each); at 1.1 only KeyWrapType; at 1.4
    nothing. -/
def strippedGetShape (V : Ver) : Nat × Nat :=
  match rvK Gen.schema V 64 (Gen.schema.dyn (Gen.schema.payloadDyn 0xA false)).kind
      (.ptr (some (.struct [.text [0x31], .int 0, .int 1, .int 0,
          .ptr (some (.struct [.int 1, .ptr none, .ptr none, .list [], .int 1]))]))) with
  | .ptr (some (.struct fs)) =>
    (fs.length, match fs.getLast? with | some (.ptr (some (.struct gs))) => gs.length | _ => 0)
  | _ => (0, 0)
example : strippedGetShape (1, 0) = (4, 4) ∧ strippedGetShape (1, 1) = (4, 5) ∧
    strippedGetShape (1, 4) = (5, 5) ∧ strippedGetShape (0, 9) = (4, 4) ∧ strippedGetShape (2, 0) = (5, 5) := by
  decide +kernel

/-- 3'c on the nested sample message, computed: the tags written with the RESTRICTED schema for the STRIPPED
    message are the tags written by the library's schema (cf. `messageTags` above), at 1.0, 1.1 and 1.4. -/
def restrictedMessageTags (major minor : Int) : List Nat :=
  let V : Ver := (major.toNat, minor.toNat)
  match encK (Gen.schema.restrict V) 64 (Gen.schema.dyn Gen.requestMessageDyn).kind T.requestMessage
      (rvK Gen.schema V 64 (Gen.schema.dyn Gen.requestMessageDyn).kind
        (.ptr (some (sampleMessage major minor)))) none with
  | .ok (items, _) => allTagsL items
  | _ => []
example : restrictedMessageTags 1 0 = messageTags 1 0 ∧ restrictedMessageTags 1 1 = messageTags 1 1 ∧
    restrictedMessageTags 1 4 = messageTags 1 4 := by decide +kernel

/-! 4' on bytes: the nested sample message encoded at 1.4 (KeyWrapType and EncodingOption on the wire), with the
    header's minor version patched to 0 (byte 51): the annotation-free decoder accepts it (hypothesis of 4'
    satisfiable) and the library's decoder, under a 1.0 header, returns KeyWrapType = 1 and EncodingOption = 1. -/

def laterElementsUnder10 : Bytes :=
  match marshal Gen.schema Gen.requestMessageDyn 0 (.ptr (some (sampleMessage 1 4))) with
  | .ok bs => bs.set 51 0
  | _ => []

def decodedLater (S : Schema) : Option (Int × Int × Int) :=
  match unmarshal S Gen.requestMessageDyn 0 laterElementsUnder10 with
  | .ok (.ptr (some (.struct [.struct (.struct [_, .int minor] :: _),
      .list [.struct [_, _, .iface (some (_, .ptr (some (.struct [_, _, .int kwt, _,
        .ptr (some (.struct [_, _, _, _, .int eo]))])))), _]]]))) => some (minor, kwt, eo)
  | _ => none

set_option maxRecDepth 100000 in
example : decodedLater Gen.schema.ungated = some (0, 1, 1) ∧ decodedLater Gen.schema = some (0, 1, 1) := by
  decide +kernel

end Kmip.C05
