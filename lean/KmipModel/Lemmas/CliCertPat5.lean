/-
  Certificate obligations, part 5 of 8 of the `patched` client system (kernel evaluation; one module per
  part so that lake checks them in parallel). Assembled in `Lemmas/CliCert.lean`.
-/
import KmipModel.Model.CliConn
import KmipModel.Gen.CertCliConn
namespace Kmip.CliCert
open Kmip.CliLts Kmip.CliConn Kmip.Gen.CertCliConn

theorem paClosed5 : partClosed (sys patched) codec certPatched paP5 = true := by decide +kernel
theorem paSafe5 : partSafe codec (badFull patched) paP5 = true := by decide +kernel

end Kmip.CliCert
