package main

// Engines `nego` (C13) and `resp` (C12): the client against arbitrary servers.
//
// Transport: kmipclient.WithDialerUnsafe returns one end of a net.Pipe(); the other end is served by a
// goroutine of the harness (cliEndpoint) that decodes every request with ttlv.Stream and answers either
// with the library's own kmipserver.BatchExecutor or from a script. A pass-through client middleware
// (cliObs) records what Client.Roundtrip returned — the abstract response of the protocol line is derived
// from THAT (the level at which the Lean model starts), never from what the script intended; in "inject"
// mode the same middleware fabricates the response in-process, which also reaches shapes no wire
// message can produce (payload type independent of the item's operation).
//
// Line formats: see lean/Driver/Client.lean.
//
// Oracles (independent of the model)
//   C13: expected version = max(C ∩ advertised) computed here from the two configured sets / the scripted
//        list; fallback 1.0 iff "operation not supported" and 1.0 ∈ C; enforced ⇒ no exchange; adopted ∈ C;
//        header version of EVERY later request (client, after a reconnection, clones, clones of clones; also
//        every request of engine resp), as decoded by the server side, = the adopted version.
//        A Dial that runs into the harness deadline is retried and never reported as a violation.
//   C12: no panic; success only for a conforming response and only with the Go type registered for the
//        requested operation; a non-successful item yields an error whose text holds status, reason and
//        message (renderings of the LIVE registry; no dependence on the wording or on errors.Join).
//   See also client_signer.go (Signer / Sign) and client_builders.go (every fluent builder).

import (
	"context"
	"encoding/hex"
	"errors"
	"fmt"
	"io"
	"log/slog"
	"net"
	"reflect"
	"runtime"
	"sort"
	"strconv"
	"strings"
	"sync"
	"time"

	kmip "github.com/ovh/kmip-go"
	"github.com/ovh/kmip-go/kmipclient"
	"github.com/ovh/kmip-go/kmipserver"
	"github.com/ovh/kmip-go/payloads"
	"github.com/ovh/kmip-go/ttlv"

	"verifharness/internal/report"
	"verifharness/internal/rng"
)

// ---------------------------------------------------------------------------------------------
// abstract shapes

type cliVer = kmip.ProtocolVersion

type cliPl struct {
	kind byte // 'n' none, 'r' response type of op, 'q' request type of op, 'u' UnknownPayload of op
	op   uint32
}

type cliItem struct {
	op, status, reason uint32
	msg                string
	pl                 cliPl
	vers               []cliVer
}

type cliRT struct {
	fail  bool
	echo  bool // script only (wire): the server answers with a well-formed REQUEST message; the client sees no response
	hdr   int32
	items []cliItem
}

const (
	cliOpDiscover = uint32(kmip.OperationDiscoverVersions)
	cliOpActivate = uint32(kmip.OperationActivate)
	cliOpDestroy  = uint32(kmip.OperationDestroy)
	cliOpGet      = uint32(kmip.OperationGet)
	cliOpLocate   = uint32(kmip.OperationLocate)
	cliOpUnknown  = uint32(0x99)
)

func cliV(major, minor int32) cliVer {
	return cliVer{ProtocolVersionMajor: major, ProtocolVersionMinor: minor}
}

func cliVerStr(v cliVer) string {
	return fmt.Sprintf("%d.%d", v.ProtocolVersionMajor, v.ProtocolVersionMinor)
}

func cliVersStr(vs []cliVer) string {
	if len(vs) == 0 {
		return "-"
	}
	parts := make([]string, len(vs))
	for i, v := range vs {
		parts[i] = cliVerStr(v)
	}
	return strings.Join(parts, "+")
}

func cliParseVer(s string) (cliVer, error) {
	a, b, ok := strings.Cut(s, ".")
	if !ok {
		return cliVer{}, fmt.Errorf("bad version %q", s)
	}
	x, err1 := strconv.ParseInt(a, 10, 32)
	y, err2 := strconv.ParseInt(b, 10, 32)
	if err1 != nil || err2 != nil {
		return cliVer{}, fmt.Errorf("bad version %q", s)
	}
	return cliV(int32(x), int32(y)), nil
}

func cliParseVers(s string) ([]cliVer, error) {
	if s == "-" {
		return nil, nil
	}
	var out []cliVer
	for _, p := range strings.Split(s, "+") {
		v, err := cliParseVer(p)
		if err != nil {
			return nil, err
		}
		out = append(out, v)
	}
	return out, nil
}

func cliMsgHex(s string) string {
	if s == "" {
		return "-"
	}
	return strings.ToUpper(hex.EncodeToString([]byte(s)))
}

func (p cliPl) String() string {
	if p.kind == 'n' {
		return "n"
	}
	return string(p.kind) + strconv.FormatUint(uint64(p.op), 10)
}

func (it cliItem) String() string {
	s := fmt.Sprintf("%d,%d,%d,%s,%s", it.op, it.status, it.reason, cliMsgHex(it.msg), it.pl)
	if len(it.vers) > 0 {
		s += "," + cliVersStr(it.vers)
	}
	return s
}

func (rt cliRT) String() string {
	if rt.fail || rt.echo {
		return "fail"
	}
	if len(rt.items) == 0 {
		return fmt.Sprintf("%d:-", rt.hdr)
	}
	parts := make([]string, len(rt.items))
	for i, it := range rt.items {
		parts[i] = it.String()
	}
	return fmt.Sprintf("%d:%s", rt.hdr, strings.Join(parts, "|"))
}

func cliParsePl(s string) (cliPl, error) {
	if s == "n" {
		return cliPl{kind: 'n'}, nil
	}
	if len(s) < 2 || !strings.ContainsRune("rqu", rune(s[0])) {
		return cliPl{}, fmt.Errorf("bad payload %q", s)
	}
	op, err := strconv.ParseUint(s[1:], 10, 32)
	if err != nil {
		return cliPl{}, err
	}
	return cliPl{kind: s[0], op: uint32(op)}, nil
}

func cliParseRT(s string) (cliRT, error) {
	if s == "fail" {
		return cliRT{fail: true}, nil
	}
	h, its, ok := strings.Cut(s, ":")
	if !ok {
		return cliRT{}, fmt.Errorf("bad round trip %q", s)
	}
	hc, err := strconv.ParseInt(h, 10, 32)
	if err != nil {
		return cliRT{}, err
	}
	rt := cliRT{hdr: int32(hc)}
	if its == "-" {
		return rt, nil
	}
	for _, is := range strings.Split(its, "|") {
		f := strings.Split(is, ",")
		if len(f) != 5 && len(f) != 6 {
			return cliRT{}, fmt.Errorf("bad item %q", is)
		}
		var it cliItem
		var nums [3]uint64
		for k := 0; k < 3; k++ {
			if nums[k], err = strconv.ParseUint(f[k], 10, 32); err != nil {
				return cliRT{}, err
			}
		}
		it.op, it.status, it.reason = uint32(nums[0]), uint32(nums[1]), uint32(nums[2])
		if f[3] != "-" {
			b, err := hex.DecodeString(f[3])
			if err != nil {
				return cliRT{}, err
			}
			it.msg = string(b)
		}
		if it.pl, err = cliParsePl(f[4]); err != nil {
			return cliRT{}, err
		}
		if len(f) == 6 {
			if it.vers, err = cliParseVers(f[5]); err != nil {
				return cliRT{}, err
			}
		}
		rt.items = append(rt.items, it)
	}
	return rt, nil
}

// ---------------------------------------------------------------------------------------------
// abstract <-> concrete

var (
	cliRespTypes = map[reflect.Type]uint32{}
	cliReqTypes  = map[reflect.Type]uint32{}
	cliRegResp   = map[uint32]reflect.Type{}
	cliTypesOnce sync.Once
)

func cliInitTypes() {
	cliTypesOnce.Do(func() {
		for _, o := range kmip.VerifDumpOperations() {
			cliRespTypes[o.Response] = uint32(o.Operation)
			cliReqTypes[o.Request] = uint32(o.Operation)
			cliRegResp[uint32(o.Operation)] = o.Response
		}
	})
}

// cliExpectedType is the Go type the property demands for a successful answer to operation op.
func cliExpectedType(op uint32) reflect.Type {
	cliInitTypes()
	if t, ok := cliRegResp[op]; ok {
		return reflect.PointerTo(t)
	}
	return reflect.TypeFor[*kmip.UnknownPayload]()
}

func cliSecret() *kmip.SecretData {
	secret := []byte("s3cret")
	return &kmip.SecretData{
		SecretDataType: kmip.SecretDataTypePassword,
		KeyBlock: kmip.KeyBlock{KeyFormatType: kmip.KeyFormatTypeRaw,
			KeyValue: &kmip.KeyValue{Plain: &kmip.PlainKeyValue{KeyMaterial: kmip.KeyMaterial{Bytes: &secret}}}},
	}
}

func cliConcretePayload(p cliPl, vers []cliVer) kmip.OperationPayload {
	switch p.kind {
	case 'n':
		return nil
	case 'r':
		switch p.op {
		case cliOpActivate:
			return &payloads.ActivateResponsePayload{UniqueIdentifier: "id-1"}
		case cliOpDestroy:
			return &payloads.DestroyResponsePayload{UniqueIdentifier: "id-1"}
		case cliOpLocate:
			return &payloads.LocateResponsePayload{UniqueIdentifier: []string{"id-1", "id-2"}}
		case cliOpGet:
			return &payloads.GetResponsePayload{ObjectType: kmip.ObjectTypeSecretData, UniqueIdentifier: "id-1", Object: cliSecret()}
		case cliOpDiscover:
			return &payloads.DiscoverVersionsResponsePayload{ProtocolVersion: append([]cliVer(nil), vers...)}
		}
		return kmip.VerifNewResponsePayload(kmip.Operation(p.op))
	case 'q':
		if p.op == cliOpDiscover {
			return &payloads.DiscoverVersionsRequestPayload{ProtocolVersion: append([]cliVer(nil), vers...)}
		}
		return kmip.VerifNewRequestPayload(kmip.Operation(p.op))
	default:
		return kmip.NewUnknownPayload(kmip.Operation(p.op), ttlv.Value{Tag: kmip.TagUniqueIdentifier, Value: "id-1"})
	}
}

func (rt cliRT) concrete(version cliVer) *kmip.ResponseMessage {
	msg := &kmip.ResponseMessage{
		Header: kmip.ResponseHeader{ProtocolVersion: version, TimeStamp: time.Unix(1700000000, 0), BatchCount: rt.hdr},
	}
	for _, it := range rt.items {
		msg.BatchItem = append(msg.BatchItem, kmip.ResponseBatchItem{
			Operation:       kmip.Operation(it.op),
			ResultStatus:    kmip.ResultStatus(it.status),
			ResultReason:    kmip.ResultReason(it.reason),
			ResultMessage:   it.msg,
			ResponsePayload: cliConcretePayload(it.pl, it.vers),
		})
	}
	return msg
}

func cliAbstractPayload(p kmip.OperationPayload) (cliPl, []cliVer, error) {
	cliInitTypes()
	if p == nil {
		return cliPl{kind: 'n'}, nil, nil
	}
	if u, ok := p.(*kmip.UnknownPayload); ok {
		return cliPl{kind: 'u', op: uint32(u.Operation())}, nil, nil
	}
	t := reflect.TypeOf(p)
	if t.Kind() == reflect.Pointer {
		t = t.Elem()
	}
	if op, ok := cliRespTypes[t]; ok {
		var vers []cliVer
		if d, ok := p.(*payloads.DiscoverVersionsResponsePayload); ok {
			vers = d.ProtocolVersion
		}
		return cliPl{kind: 'r', op: op}, vers, nil
	}
	if op, ok := cliReqTypes[t]; ok {
		return cliPl{kind: 'q', op: op}, nil, nil
	}
	return cliPl{}, nil, fmt.Errorf("payload of unclassified type %T", p)
}

// cliAbstract renders what Client.Roundtrip returned.
func cliAbstract(resp *kmip.ResponseMessage, err error) (cliRT, error) {
	if err != nil || resp == nil {
		return cliRT{fail: true}, nil
	}
	rt := cliRT{hdr: resp.Header.BatchCount}
	for i := range resp.BatchItem {
		bi := &resp.BatchItem[i]
		pl, vers, e := cliAbstractPayload(bi.ResponsePayload)
		if e != nil {
			return cliRT{}, e
		}
		rt.items = append(rt.items, cliItem{op: uint32(bi.Operation), status: uint32(bi.ResultStatus),
			reason: uint32(bi.ResultReason), msg: bi.ResultMessage, pl: pl, vers: vers})
	}
	return rt, nil
}

// ---------------------------------------------------------------------------------------------
// in-memory transport

type cliSeen struct {
	version cliVer
	count   int32
	ops     []uint32
	disc    []cliVer // list of a DiscoverVersions request
	isDisc  bool
}

func cliSeenOf(req *kmip.RequestMessage) cliSeen {
	s := cliSeen{version: req.Header.ProtocolVersion, count: req.Header.BatchCount}
	for i := range req.BatchItem {
		s.ops = append(s.ops, uint32(req.BatchItem[i].Operation))
		if d, ok := req.BatchItem[i].RequestPayload.(*payloads.DiscoverVersionsRequestPayload); ok && i == 0 {
			s.isDisc = true
			s.disc = append([]cliVer(nil), d.ProtocolVersion...)
		}
	}
	return s
}

// cliEchoRequest: returned by a handler to make the endpoint answer with the request message itself.
var cliEchoRequest = &kmip.ResponseMessage{}

// cliEndpoint is the server side of the pipes.
type cliEndpoint struct {
	mu     sync.Mutex
	handle func(req *kmip.RequestMessage) *kmip.ResponseMessage // nil: close the connection without answering
	seen   []cliSeen
	fails  []string
	wg     sync.WaitGroup
	conns  []net.Conn
}

func (e *cliEndpoint) dialer(ctx context.Context) (net.Conn, error) {
	c1, c2 := net.Pipe()
	e.mu.Lock()
	e.conns = append(e.conns, c2)
	e.mu.Unlock()
	e.wg.Add(1)
	go e.serve(c2)
	return c1, nil
}

func (e *cliEndpoint) serve(c net.Conn) {
	defer e.wg.Done()
	defer c.Close()
	st := ttlv.NewStream(c, -1)
	for {
		req := new(kmip.RequestMessage)
		if err := st.Recv(req); err != nil {
			return
		}
		e.mu.Lock()
		e.seen = append(e.seen, cliSeenOf(req))
		h := e.handle
		e.mu.Unlock()
		var resp *kmip.ResponseMessage
		if h != nil {
			resp = h(req)
		}
		if resp == nil {
			return
		}
		if resp == cliEchoRequest {
			// a well-formed message, but not a response: the request itself is sent back
			if err := st.Send(req); err != nil {
				return
			}
			continue
		}
		err, p := guard("send", func() error { return st.Send(resp) })
		if p != "" {
			e.mu.Lock()
			e.fails = append(e.fails, "scripted response cannot be encoded: "+p)
			e.mu.Unlock()
			return
		}
		if err != nil {
			return
		}
	}
}

func (e *cliEndpoint) setHandler(h func(req *kmip.RequestMessage) *kmip.ResponseMessage) {
	e.mu.Lock()
	e.handle = h
	e.mu.Unlock()
}

func (e *cliEndpoint) takeSeen() []cliSeen {
	e.mu.Lock()
	defer e.mu.Unlock()
	s := e.seen
	e.seen = nil
	return s
}

// killConns closes every server-side connection: the clients' connections die (EOF), the endpoint keeps
// accepting new ones.
func (e *cliEndpoint) killConns() {
	e.mu.Lock()
	conns := e.conns
	e.conns = nil
	e.mu.Unlock()
	for _, c := range conns {
		_ = c.Close()
	}
}

// shutdown closes every server-side connection and waits for the serving goroutines.
func (e *cliEndpoint) shutdown(ctx *Ctx) {
	e.mu.Lock()
	conns := e.conns
	e.conns = nil
	fails := e.fails
	e.fails = nil
	e.mu.Unlock()
	for _, c := range conns {
		_ = c.Close()
	}
	done := make(chan struct{})
	go func() { e.wg.Wait(); close(done) }()
	select {
	case <-done:
	case <-time.After(5 * time.Second):
		ctx.Res.Fail("server goroutine of the in-memory transport did not exit")
	}
	for _, f := range fails {
		ctx.Res.Fail(f)
	}
}

// cliObs is the observing / injecting client middleware.
type cliObsEv struct {
	seen cliSeen
	resp *kmip.ResponseMessage
	err  error
	snap any // what `snap` extracted from the response BEFORE the caller got it (callers may modify it in place)
}

type cliObs struct {
	mu     sync.Mutex
	events []cliObsEv
	inject func(req *kmip.RequestMessage) (*kmip.ResponseMessage, error, bool)
	snap   func(resp *kmip.ResponseMessage) any
}

var errCliInjected = errors.New("injected transport failure")

func (o *cliObs) mw(next kmipclient.Next, ctx context.Context, msg *kmip.RequestMessage) (*kmip.ResponseMessage, error) {
	o.mu.Lock()
	inj := o.inject
	o.mu.Unlock()
	var resp *kmip.ResponseMessage
	var err error
	handled := false
	if inj != nil {
		resp, err, handled = inj(msg)
	}
	if !handled {
		resp, err = next(ctx, msg)
	}
	o.mu.Lock()
	ev := cliObsEv{seen: cliSeenOf(msg), resp: resp, err: err}
	if o.snap != nil && resp != nil {
		ev.snap = o.snap(resp)
	}
	o.events = append(o.events, ev)
	o.mu.Unlock()
	return resp, err
}

func (o *cliObs) take() []cliObsEv {
	o.mu.Lock()
	defer o.mu.Unlock()
	ev := o.events
	o.events = nil
	return ev
}

func (o *cliObs) setInject(f func(req *kmip.RequestMessage) (*kmip.ResponseMessage, error, bool)) {
	o.mu.Lock()
	o.inject = f
	o.mu.Unlock()
}

var cliDebug = false

func cliQuiet() { slog.SetDefault(slog.New(slog.NewTextHandler(io.Discard, nil))) }

// ---------------------------------------------------------------------------------------------
// error classification
//
// The property speaks about WHAT an error carries (status, reason, message of a failed item), not about its
// wording, nor about how several errors are joined. The canonical form of an error is therefore computed
// from the error text AND the response the client received: `err` followed by one `item <status> <reason>
// <message>` per non-successful item of that response whose three renderings (ttlv.EnumStr of the live
// registry for the two enumerations) all occur in the text, in item order, separated by `;`.

func cliStatusStr(v uint32) string { return ttlv.EnumStr(kmip.ResultStatus(v)) }
func cliReasonStr(v uint32) string { return ttlv.EnumStr(kmip.ResultReason(v)) }

// cliCarries says which of status / reason / message of a failed item an error text lacks ("" = none).
func cliCarries(text string, it cliItem) string {
	switch {
	case !strings.Contains(text, cliStatusStr(it.status)):
		return "status"
	case !strings.Contains(text, cliReasonStr(it.reason)):
		return "reason"
	case !cliCarriesMsg(text, it.msg):
		return "message"
	}
	return ""
}

// cliCarriesMsg: the text holds the server's message, verbatim or in Go's quoted form (an error that renders
// the message with %q or %+q still carries it: the escaping is injective).
func cliCarriesMsg(text, msg string) bool {
	if strings.Contains(text, msg) {
		return true
	}
	for _, q := range []string{strconv.Quote(msg), strconv.QuoteToASCII(msg)} {
		if strings.Contains(text, q[1:len(q)-1]) {
			return true
		}
	}
	return false
}

// cliCarried lists the failed items of the received response that the error text carries.
func cliCarried(text string, items []cliItem) string {
	var parts []string
	for _, it := range items {
		if it.status == 0 {
			continue
		}
		if cliCarries(text, it) == "" {
			parts = append(parts, fmt.Sprintf("item %s %s %s", cliStatusStr(it.status), cliReasonStr(it.reason), cliMsgHex(it.msg)))
		}
	}
	return strings.Join(parts, ";")
}

// cliErrAnswer canonicalises an error returned for the received response `items`.
func cliErrAnswer(err error, items []cliItem) string {
	if c := cliCarried(err.Error(), items); c != "" {
		return "err " + c
	}
	return "err"
}

// ---------------------------------------------------------------------------------------------
// connect entry points
//
// kmipclient has two of them: DialContext and DialClusterContext (dialer_cluster.go), which repeats the body
// of the former (options, default version list, enforced version, discovery exchange). Both are driven with
// the same cases and produce the same protocol lines: the model knows one `Dial`.
//
//	'd' DialContext
//	'c' DialClusterContext, two addresses, WithRetryTimeout given
//	'C' DialClusterContext, two addresses, default retry timeout (no WithRetryTimeout option)
const cliDialEntries = "dcC"

func cliDial(entry byte, ctx context.Context, opts []kmipclient.Option) (*kmipclient.Client, error) {
	opts = append([]kmipclient.Option(nil), opts...)
	switch entry {
	case 'c':
		return kmipclient.DialClusterContext(ctx, []string{"pipe", "pipe-2"}, append(opts, kmipclient.WithRetryTimeout(time.Second))...)
	case 'C':
		return kmipclient.DialClusterContext(ctx, []string{"pipe", "pipe-2"}, opts...)
	}
	return kmipclient.DialContext(ctx, "pipe", opts...)
}

func cliEntryName(entry byte) string {
	switch entry {
	case 'c':
		return "DialClusterContext+WithRetryTimeout"
	case 'C':
		return "DialClusterContext"
	}
	return "DialContext"
}

// cliDialPanic reports a panicking connect call. A panic of the cluster entry point before anything was sent
// has its own key (it does not depend on the server's answer).
func cliDialPanic(ctx *Ctx, entry byte, pn string, exchanged bool, line string) {
	key := "dial:panic " + panicKey(pn)
	if entry != 'd' && !exchanged {
		key = "dialcluster:panic-before-any-exchange " + panicKey(pn)
	}
	cliViolate(ctx, "C12", "no-panic", key, cliEntryName(entry)+" panicked: "+pn, line)
}

// cliVersionOf: Client.Version() under guard (a client returned without a version panics there).
func cliVersionOf(cl *kmipclient.Client) (cliVer, string) {
	return guard("Version", func() cliVer { return cl.Version() })
}

// =============================================================================================
// engine nego (C13)

var cliStdVersions = []cliVer{kmip.V1_0, kmip.V1_1, kmip.V1_2, kmip.V1_3, kmip.V1_4}

func cliSubset(mask int) []cliVer {
	var out []cliVer
	for i, v := range cliStdVersions {
		if mask&(1<<i) != 0 {
			out = append(out, v)
		}
	}
	return out
}

func cliCmp(a, b cliVer) int {
	if a.ProtocolVersionMajor != b.ProtocolVersionMajor {
		if a.ProtocolVersionMajor < b.ProtocolVersionMajor {
			return -1
		}
		return 1
	}
	if a.ProtocolVersionMinor != b.ProtocolVersionMinor {
		if a.ProtocolVersionMinor < b.ProtocolVersionMinor {
			return -1
		}
		return 1
	}
	return 0
}

func cliHas(l []cliVer, v cliVer) bool {
	for _, x := range l {
		if x == v {
			return true
		}
	}
	return false
}

// cliMaxCommon is the oracle's own computation of max(C ∩ A).
func cliMaxCommon(c, a []cliVer) (cliVer, bool) {
	var best cliVer
	found := false
	for _, v := range a {
		if !cliHas(c, v) {
			continue
		}
		if !found || cliCmp(v, best) > 0 {
			best, found = v, true
		}
	}
	return best, found
}

func cliShuffle(r *rng.R, l []cliVer) []cliVer {
	out := append([]cliVer(nil), l...)
	for i := len(out) - 1; i > 0; i-- {
		j := r.Intn(i + 1)
		out[i], out[j] = out[j], out[i]
	}
	return out
}

type negoCase struct {
	enforce *cliVer
	calls   [][]cliVer // successive WithKmipVersions options (nil: none)
	lib     bool
	libMode byte     // 's': SetSupportedProtocolVersions(libSet...), '!': never called
	libSet  []cliVer // argument order as passed
	rt      cliRT    // scripted discovery answer
	inject  bool     // scripted answer fabricated by a client middleware instead of sent on the wire
	entry   byte     // connect entry point (cliDialEntries); 0 = 'd'
}

func (nc *negoCase) callsStr() string {
	if len(nc.calls) == 0 {
		return "-"
	}
	parts := make([]string, len(nc.calls))
	for i, c := range nc.calls {
		if len(c) == 0 {
			parts[i] = "_"
		} else {
			parts[i] = cliVersStr(c)
		}
	}
	return strings.Join(parts, ";")
}

// clientSet: the versions the client is configured with, as a set (oracle side).
func (nc *negoCase) clientSet() []cliVer {
	var out []cliVer
	for _, c := range nc.calls {
		for _, v := range c {
			if !cliHas(out, v) {
				out = append(out, v)
			}
		}
	}
	if len(out) == 0 {
		return append([]cliVer(nil), cliStdVersions...)
	}
	return out
}

func (nc *negoCase) serverSet() []cliVer {
	if nc.libMode == '!' || len(nc.libSet) == 0 {
		return append([]cliVer(nil), cliStdVersions...)
	}
	return nc.libSet
}

func cliActivateAnswer(req *kmip.RequestMessage) *kmip.ResponseMessage {
	rt := cliRT{hdr: int32(len(req.BatchItem))}
	for i := range req.BatchItem {
		op := uint32(req.BatchItem[i].Operation)
		rt.items = append(rt.items, cliItem{op: op, pl: cliPl{kind: 'r', op: op}})
	}
	return rt.concrete(req.Header.ProtocolVersion)
}

// cliViolate reports a violation; only the first occurrences of a key are listed (the result file keeps at
// most 200 entries: a frequent key must not hide another one), all are counted in the distribution.
var cliVioCount = map[string]int{}

func cliViolate(ctx *Ctx, prop, oracle, key, detail, line string) {
	k := ctx.Res.Engine + "|" + key
	cliVioCount[k]++
	if cliVioCount[k] <= 5 {
		ctx.Res.Violate(report.Violation{Property: prop, Oracle: oracle, Key: key, Detail: detail, Line: line})
	}
	ctx.Res.Count("violation-key=" + key)
}

// runNegoCase evaluates one case. A Dial that runs into the harness's own deadline says nothing about the
// property (a loaded machine): the case is evaluated again with a long deadline, and a second expiry is
// reported as a harness failure, never as a C13 violation.
func runNegoCase(ctx *Ctx, nc negoCase) {
	if runNegoCaseOnce(ctx, nc, 5*time.Second) {
		ctx.Res.Count("nego.dial-deadline-retried")
		if runNegoCaseOnce(ctx, nc, 90*time.Second) {
			ctx.Res.Fail("nego: Dial did not return within 90 s (harness deadline) at: " + ctx.current)
		}
	}
}

func runNegoCaseOnce(ctx *Ctx, nc negoCase, dialTimeout time.Duration) (deadline bool) {
	ep := &cliEndpoint{}
	obs := &cliObs{}
	var srv string
	var srvMu sync.Mutex
	var lateAnswer *cliRT // set after Dial: the answer a LATER DiscoverVersions request gets
	late := func(req *kmip.RequestMessage) *kmip.ResponseMessage {
		srvMu.Lock()
		defer srvMu.Unlock()
		if lateAnswer != nil && len(req.BatchItem) == 1 && req.BatchItem[0].Operation == kmip.OperationDiscoverVersions {
			return lateAnswer.concrete(req.Header.ProtocolVersion)
		}
		return nil
	}
	if nc.lib {
		exec := kmipserver.NewBatchExecutor()
		exec.Route(kmip.OperationActivate, kmipserver.HandleFunc(func(_ context.Context, req *payloads.ActivateRequestPayload) (*payloads.ActivateResponsePayload, error) {
			return &payloads.ActivateResponsePayload{UniqueIdentifier: req.UniqueIdentifier}, nil
		}))
		if nc.libMode == '!' {
			srv = "lib:!"
		} else {
			exec.SetSupportedProtocolVersions(nc.libSet...)
			srv = "lib:" + cliVersStr(nc.libSet)
		}
		ep.setHandler(func(req *kmip.RequestMessage) *kmip.ResponseMessage {
			if r := late(req); r != nil {
				return r
			}
			return exec.HandleRequest(context.Background(), req)
		})
	} else {
		script := func(req *kmip.RequestMessage) (*kmip.ResponseMessage, bool) {
			if r := late(req); r != nil {
				return r, true
			}
			if len(req.BatchItem) == 1 && req.BatchItem[0].Operation == kmip.OperationDiscoverVersions {
				if nc.rt.fail {
					return nil, true
				}
				return nc.rt.concrete(req.Header.ProtocolVersion), true
			}
			return nil, false
		}
		if nc.inject {
			obs.setInject(func(req *kmip.RequestMessage) (*kmip.ResponseMessage, error, bool) {
				resp, ok := script(req)
				if !ok {
					return nil, nil, false
				}
				if resp == nil {
					return nil, errCliInjected, true
				}
				return resp, nil, true
			})
			ep.setHandler(cliActivateAnswer)
		} else {
			ep.setHandler(func(req *kmip.RequestMessage) *kmip.ResponseMessage {
				if resp, ok := script(req); ok {
					return resp
				}
				return cliActivateAnswer(req)
			})
		}
	}
	afterDial := func() {
		// from now on DiscoverVersions is answered with the LOWEST configured version only
		low := nc.clientSet()
		sort.Slice(low, func(i, j int) bool { return cliCmp(low[i], low[j]) < 0 })
		srvMu.Lock()
		lateAnswer = &cliRT{hdr: 1, items: []cliItem{{op: cliOpDiscover, pl: cliPl{kind: 'r', op: cliOpDiscover}, vers: low[:1]}}}
		srvMu.Unlock()
	}
	opts := []kmipclient.Option{kmipclient.WithDialerUnsafe(ep.dialer), kmipclient.WithMiddlewares(obs.mw)}
	for _, c := range nc.calls {
		opts = append(opts, kmipclient.WithKmipVersions(c...))
	}
	enf := "-"
	if nc.enforce != nil {
		opts = append(opts, kmipclient.EnforceVersion(*nc.enforce))
		enf = cliVerStr(*nc.enforce)
	}
	prefix := "nego.adopt " + enf + " " + nc.callsStr() + " "
	ctx.current = prefix + srv + nc.rt.String()

	type dialRes struct {
		cl  *kmipclient.Client
		err error
	}
	dctx, cancel := context.WithTimeout(context.Background(), dialTimeout)
	entry := nc.entry
	if entry == 0 {
		entry = 'd'
	}
	dr, pn := guard("Dial", func() dialRes {
		cl, err := cliDial(entry, dctx, opts)
		return dialRes{cl, err}
	})
	expired := dctx.Err() != nil
	cancel()
	if pn == "" && dr.err != nil && (expired || errors.Is(dr.err, context.DeadlineExceeded)) {
		ep.shutdown(ctx)
		return true
	}
	events := obs.take()
	seenDial := ep.takeSeen()
	ctx.Res.Count("nego.entry=" + cliEntryName(entry))

	// the discovery exchange as observed: by the server side (wire) or by the middleware (inject)
	disc := "-"
	var discSeen *cliSeen
	if nc.inject {
		for i := range events {
			if events[i].seen.isDisc {
				discSeen = &events[i].seen
				break
			}
		}
	} else {
		for i := range seenDial {
			if seenDial[i].isDisc {
				discSeen = &seenDial[i]
				break
			}
		}
	}
	var answered []cliVer
	hasAnswer := false
	if discSeen != nil {
		ans := "none"
		for i := range events {
			if !events[i].seen.isDisc {
				continue
			}
			if r := events[i].resp; events[i].err == nil && r != nil && len(r.BatchItem) > 0 {
				if d, ok := r.BatchItem[0].ResponsePayload.(*payloads.DiscoverVersionsResponsePayload); ok {
					answered, hasAnswer = d.ProtocolVersion, true
					ans = cliVersStr(d.ProtocolVersion)
				}
			}
			break
		}
		disc = cliVerStr(discSeen.version) + "/" + cliVersStr(discSeen.disc) + " ans=" + ans
	}
	// what Roundtrip returned for the discovery request (the model's input when the server is scripted)
	rtObs := nc.rt
	for i := range events {
		if events[i].seen.isDisc {
			if a, err := cliAbstract(events[i].resp, events[i].err); err == nil {
				rtObs = a
			} else {
				ctx.Res.Fail("nego: " + err.Error())
			}
			break
		}
	}
	if !nc.lib {
		srv = "msg:" + rtObs.String()
	}
	line := prefix + srv
	ctx.current = line

	C := nc.clientSet()
	var impl string
	adopted := false
	var version cliVer
	if pn == "" && dr.err == nil {
		// a connect call that reports success must hand out a client that has a version
		var vp string
		if dr.cl == nil {
			vp = "nil client returned without error"
		} else {
			version, vp = cliVersionOf(dr.cl)
		}
		if vp != "" {
			cliViolate(ctx, "C13", "adopted", "nego:dial-succeeds-without-version", cliEntryName(entry)+" returned no error but Version() panics: "+vp, line)
			if dr.cl != nil {
				_, _ = guard("Close", func() error { return dr.cl.Close() })
			}
			pn = "Version() of the client returned by " + cliEntryName(entry) + ": " + vp
		}
	}
	switch {
	case pn != "":
		impl = "panic"
		cliDialPanic(ctx, entry, pn, discSeen != nil, line)
		if entry != 'd' && discSeen == nil && len(events) == 0 {
			// nothing of the connect sequence was executed: there is no behaviour to compare with the model
			ep.shutdown(ctx)
			ctx.Res.Count("nego.cluster-entry-panicked-before-any-exchange")
			return false
		}
	case dr.err != nil:
		impl = cliErrAnswer(dr.err, rtObs.items) + " disc=" + disc
	default:
		adopted = true
		// supporting evidence for the model's store: in the 1.0 fallback the client's version field is
		// &kmip.V1_0, elsewhere a variable of its own (Lean: fallback_aliases_exported_variable). Not compared.
		func() {
			saved := kmip.V1_0
			defer func() { kmip.V1_0 = saved }()
			kmip.V1_0 = cliV(9, 9)
			aliased := dr.cl.Version() != version
			kmip.V1_0 = saved
			cls, _ := nc.scriptClass()
			switch {
			case aliased && !nc.lib && cls == "unsupported" && nc.enforce == nil:
				ctx.Res.Count("nego.note=fallback-version-aliases-kmip.V1_0")
			case aliased:
				ctx.Res.Count("nego.note=non-fallback-version-aliases-kmip.V1_0")
			case !nc.lib && cls == "unsupported" && nc.enforce == nil:
				ctx.Res.Count("nego.note=fallback-version-not-aliased")
			}
		}()
		// a client that negotiated again later (on a reconnection, in a clone) would now get another answer
		afterDial()
		impl = "ok " + cliVerStr(version) + " later=" + negoLater(ctx, ep, obs, dr.cl, version, line) + " disc=" + disc
	}
	ep.shutdown(ctx)

	// ---- oracle C13
	if pn == "" {
		switch {
		case nc.enforce != nil:
			if !adopted {
				cliViolate(ctx, "C13", "enforced", "nego:enforced-version-dial-fails", "Dial with an enforced version failed: "+dr.err.Error(), line)
			} else if version != *nc.enforce {
				cliViolate(ctx, "C13", "enforced", "nego:enforced-version-not-adopted", "adopted "+cliVerStr(version)+" instead of the enforced "+enf, line)
			}
			if discSeen != nil {
				cliViolate(ctx, "C13", "enforced", "nego:enforced-version-still-negotiates", "a DiscoverVersions request was sent although a version is enforced", line)
			}
		default:
			// expectation
			var want cliVer
			wantOK := false
			why := ""
			if nc.lib {
				want, wantOK = cliMaxCommon(C, nc.serverSet())
				why = "max(C ∩ S)"
			} else {
				switch cls, adv := nc.scriptClass(); cls {
				case "answers":
					want, wantOK = cliMaxCommon(C, adv)
					why = "max(C ∩ answered)"
				case "unsupported":
					want, wantOK = kmip.V1_0, cliHas(C, kmip.V1_0)
					why = "1.0 fallback"
				default:
					why = "a response that is not a DiscoverVersions answer"
				}
			}
			switch {
			case adopted && !cliHas(C, version):
				cliViolate(ctx, "C13", "membership", "nego:adopted-not-in-client-set", "adopted "+cliVerStr(version)+" which is not in the client's set "+cliVersStr(C), line)
			case adopted && !wantOK:
				cliViolate(ctx, "C13", "max-common", "nego:adopted-without-common-version", "adopted "+cliVerStr(version)+" although the expectation ("+why+") is failure", line)
			case adopted && version != want:
				cliViolate(ctx, "C13", "max-common", "nego:adopted-not-highest-common", "adopted "+cliVerStr(version)+", expected "+cliVerStr(want)+" ("+why+")", line)
			case !adopted && wantOK:
				if nc.lib && !cliHas(nc.serverSet(), kmip.V1_1) {
					cliViolate(ctx, "C13", "max-common", "nego:server-without-1.1-rejects-discovery", "client "+cliVersStr(C)+" and kmip-go server "+cliVersStr(nc.serverSet())+" share "+cliVerStr(want)+" but Dial fails: "+dr.err.Error(), line)
				} else {
					cliViolate(ctx, "C13", "max-common", "nego:no-adoption-despite-common-version", "expected "+cliVerStr(want)+" ("+why+") but Dial fails: "+dr.err.Error(), line)
				}
			}
			// the library server answers with the common versions, most recent first
			if nc.lib && hasAnswer {
				var inter []cliVer
				for _, v := range nc.serverSet() {
					if cliHas(C, v) && !cliHas(inter, v) {
						inter = append(inter, v)
					}
				}
				sort.Slice(inter, func(i, j int) bool { return cliCmp(inter[i], inter[j]) > 0 })
				if cliVersStr(answered) != cliVersStr(inter) {
					// a mechanism, not a clause of the property (the client takes the maximum whatever the
					// order, a server may advertise more): compared with the model, not a violation
					ctx.Res.Count("nego.note=server-answer-not-descending-intersection")
				}
			}
			// the discovery request itself
			if discSeen == nil {
				cliViolate(ctx, "C13", "discover-request", "nego:no-discover-request", "no DiscoverVersions request was sent", line)
			} else {
				sorted := append([]cliVer(nil), C...)
				sort.Slice(sorted, func(i, j int) bool { return cliCmp(sorted[i], sorted[j]) > 0 })
				if cliVersStr(discSeen.disc) != cliVersStr(sorted) {
					ctx.Res.Count("nego.note=discover-request-not-the-descending-configured-set") // mechanism: see above
				}
			}
		}
	}
	ctx.Add(line, impl, true, "C13")
	switch {
	case nc.enforce != nil:
		ctx.Res.Count("nego.enforced")
	case nc.lib:
		ctx.Res.Count("nego.library")
	case nc.inject:
		ctx.Res.Count("nego.scripted.inject")
	default:
		ctx.Res.Count("nego.scripted.wire")
	}
	ctx.Res.Count("nego.result=" + strings.SplitN(impl, " ", 2)[0])
	return false
}

// negoLater runs the fixed program of lean/Driver/Client.lean `laterProgram` on the connected client and
// returns the requests the SERVER decoded, as <client>:<version>:<count>,… Oracle C13: every request put on
// the wire after Dial — whichever client, before or after a reconnection — carries the adopted version.
func negoLater(ctx *Ctx, ep *cliEndpoint, obs *cliObs, cl *kmipclient.Client, version cliVer, line string) string {
	clients := []*kmipclient.Client{cl}
	var out []string
	act := func() kmip.OperationPayload { return &payloads.ActivateRequestPayload{UniqueIdentifier: "id-1"} }
	request := func(i, n int, opts ...kmipclient.BatchOption) {
		pls := make([]kmip.OperationPayload, n)
		for k := range pls {
			pls[k] = act()
		}
		rctx, cancel := context.WithTimeout(context.Background(), 20*time.Second)
		_, p := guard("BatchOpt", func() error {
			_, err := clients[i].BatchOpt(rctx, pls, opts...)
			return err
		})
		expired := rctx.Err() != nil
		cancel()
		if p != "" {
			cliViolate(ctx, "C12", "no-panic", "batch:panic "+panicKey(p), "BatchOpt panicked after Dial: "+p, line)
		}
		if expired {
			ctx.Res.Fail("nego: a request after Dial did not return within 20 s (harness deadline) at: " + line)
		}
		obs.take()
		for _, s := range ep.takeSeen() {
			out = append(out, fmt.Sprintf("%d:%s:%d", i, cliVerStr(s.version), s.count))
			if s.version != version {
				cliViolate(ctx, "C13", "request-header", "nego:request-header-version-differs",
					fmt.Sprintf("request %d after Dial (client %d, operations %s) carries %s but the client adopted %s", len(out), i, cliOpsStr(s.ops), cliVerStr(s.version), cliVerStr(version)), line)
			}
			if int(s.count) != len(s.ops) || len(s.ops) != n {
				cliViolate(ctx, "C13", "request-header", "nego:request-header-malformed",
					fmt.Sprintf("request after Dial with %d payloads: batch count %d, operations %s", n, s.count, cliOpsStr(s.ops)), line)
			}
			ctx.Res.Count("nego.later-request-checked")
		}
	}
	clone := func(i int) {
		cctx, cancel := context.WithTimeout(context.Background(), 20*time.Second)
		type cloneRes struct {
			cl  *kmipclient.Client
			err error
		}
		cr, p := guard("Clone", func() cloneRes {
			c2, err := clients[i].CloneCtx(cctx)
			return cloneRes{c2, err}
		})
		cancel()
		switch {
		case p != "":
			cliViolate(ctx, "C13", "clone", "nego:clone-panics", "Clone panicked: "+p, line)
		case cr.err != nil:
			ctx.Res.Fail("nego: Clone failed over the in-memory transport: " + cr.err.Error())
		default:
			if cr.cl.Version() != version {
				cliViolate(ctx, "C13", "clone", "nego:clone-version-differs", fmt.Sprintf("clone.Version()=%s, the parent adopted %s", cliVerStr(cr.cl.Version()), cliVerStr(version)), line)
			}
			clients = append(clients, cr.cl)
			return
		}
		clients = append(clients, clients[i])
	}
	request(0, 1)
	request(0, 3, kmipclient.OnBatchErr(kmip.BatchErrorContinuationOptionStop))
	ep.killConns() // connLost 0
	request(0, 1)
	clone(0)
	request(1, 1)
	_, _ = guard("Close", func() error { return clients[0].Close() })
	request(0, 1) // closed: nothing is sent
	request(1, 2)
	clone(1)
	ep.killConns() // connLost 1, 2
	request(2, 1)
	clone(0) // a clone of the closed client
	request(3, 1)
	if v := cl.Version(); v != version {
		cliViolate(ctx, "C13", "request-header", "nego:version-changed-after-dial", "Version() was "+cliVerStr(version)+" after Dial and is "+cliVerStr(v)+" after the later requests", line)
	}
	for _, c := range clients[1:] {
		_, _ = guard("Close", func() error { return c.Close() })
	}
	if len(out) == 0 {
		return "-"
	}
	return strings.Join(out, ",")
}

// scriptClass says what the scripted discovery answer is, from the script alone:
// "answers" (with the advertised list), "unsupported", or "invalid" (Dial must fail).
func (nc *negoCase) scriptClass() (string, []cliVer) {
	rt := nc.rt
	if rt.fail || rt.hdr != 1 || len(rt.items) != 1 {
		return "invalid", nil
	}
	it := rt.items[0]
	if it.status == 1 && it.reason == 5 {
		return "unsupported", nil
	}
	if it.status != 0 {
		return "invalid", nil
	}
	if it.pl.kind == 'r' && it.pl.op == cliOpDiscover && (nc.inject || it.op == cliOpDiscover) {
		return "answers", it.vers
	}
	return "invalid", nil
}

// negoServerCase: the library's BatchExecutor alone — SetSupportedProtocolVersions called any number of times,
// then one hand-built DiscoverVersions request (any header version, any list, the empty one included, which
// the library's own client never sends). The answer is taken through the wire encoding, as a client gets it.
func negoServerCase(ctx *Ctx, calls [][]cliVer, never bool, hdr cliVer, reqList []cliVer) {
	exec := kmipserver.NewBatchExecutor()
	cs := "!"
	if !never {
		nc := negoCase{calls: calls}
		cs = nc.callsStr()
		for _, c := range calls {
			exec.SetSupportedProtocolVersions(c...)
		}
	}
	line := "nego.server " + cs + " " + cliVerStr(hdr) + " " + cliVersStr(reqList)
	ctx.current = line
	req := kmip.NewRequestMessage(hdr, &payloads.DiscoverVersionsRequestPayload{ProtocolVersion: append([]cliVer(nil), reqList...)})
	type res struct {
		rt  cliRT
		err error
	}
	r, pn := guard("HandleRequest", func() res {
		resp := exec.HandleRequest(context.Background(), &req)
		if resp == nil {
			return res{cliRT{fail: true}, nil}
		}
		var back kmip.ResponseMessage
		if err := ttlv.UnmarshalTTLV(ttlv.MarshalTTLV(resp), &back); err != nil {
			return res{err: err}
		}
		rt, err := cliAbstract(&back, nil)
		return res{rt, err}
	})
	switch {
	case pn != "":
		ctx.Add(line, "panic", true, "C13")
		cliViolate(ctx, "C13", "server-answer", "nego:server-panics "+panicKey(pn), "BatchExecutor.HandleRequest panicked on a DiscoverVersions request: "+pn, line)
		return
	case r.err != nil:
		ctx.Res.Fail("nego.server: " + r.err.Error())
		return
	}
	ctx.Add(line, r.rt.String(), true, "C13")
	ctx.Res.Count("nego.server")
	if len(reqList) == 0 {
		ctx.Res.Count("nego.server.empty-request-list")
	}
	if len(calls) > 1 {
		ctx.Res.Count("nego.server.configured-several-times")
	}
}

func negoServerReplay(ctx *Ctx, f []string) {
	if len(f) != 4 {
		return
	}
	hdr, err := cliParseVer(f[2])
	if err != nil {
		return
	}
	reqList, err := cliParseVers(f[3])
	if err != nil {
		return
	}
	if f[1] == "!" {
		negoServerCase(ctx, nil, true, hdr, reqList)
		return
	}
	var calls [][]cliVer
	if f[1] != "-" {
		for _, c := range strings.Split(f[1], ";") {
			if c == "_" {
				calls = append(calls, []cliVer{})
				continue
			}
			vs, err := cliParseVers(c)
			if err != nil {
				return
			}
			calls = append(calls, vs)
		}
	}
	negoServerCase(ctx, calls, false, hdr, reqList)
}

func runNegoServerCases(ctx *Ctx) {
	r := ctx.R
	foreign := []cliVer{cliV(2, 0), cliV(1, 5), cliV(0, 9), cliV(1, -1)}
	hdrs := append(append([]cliVer(nil), cliStdVersions...), foreign[0], foreign[2])
	for sm := 0; sm < 32; sm++ {
		set := cliShuffle(r, cliSubset(sm))
		for _, hdr := range hdrs {
			// the empty list, the full list, a random sub-list, with foreign versions and duplicates
			negoServerCase(ctx, [][]cliVer{set}, false, hdr, nil)
			negoServerCase(ctx, [][]cliVer{set}, false, hdr, cliShuffle(r, cliStdVersions))
			sub := cliShuffle(r, cliSubset(r.Intn(32)))
			negoServerCase(ctx, [][]cliVer{set}, false, hdr, sub)
			negoServerCase(ctx, [][]cliVer{set}, false, hdr, cliShuffle(r, append(append(append([]cliVer(nil), sub...), sub...), rng.Pick(r, foreign))))
		}
		// configured several times: the last call wins, a call without argument restores the default list
		other := cliShuffle(r, cliSubset(r.Intn(32)))
		for _, calls := range [][][]cliVer{{other, set}, {set, {}}, {{}, set}, {set, other, set}, {other, append(append([]cliVer(nil), set...), foreign[0])}} {
			hdr := rng.Pick(r, hdrs)
			negoServerCase(ctx, calls, false, hdr, nil)
			negoServerCase(ctx, calls, false, hdr, cliShuffle(r, cliSubset(1+r.Intn(31))))
			negoServerCase(ctx, calls, false, kmip.V1_1, cliShuffle(r, cliStdVersions))
		}
	}
	for _, hdr := range hdrs {
		negoServerCase(ctx, nil, true, hdr, nil)
		negoServerCase(ctx, nil, true, hdr, cliShuffle(r, cliSubset(1+r.Intn(31))))
		negoServerCase(ctx, nil, false, hdr, nil) // `-`: no call at all, written as an empty call list
	}
	for _, k := range []string{"nego.server.empty-request-list", "nego.server.configured-several-times"} {
		if ctx.Res.Distribution[k] == 0 {
			ctx.Res.Fail("nego: input class never exercised: " + k)
		}
	}
}

func cliSplitCalls(r *rng.R, vs []cliVer) [][]cliVer {
	vs = cliShuffle(r, vs)
	switch r.Intn(4) {
	case 0: // two calls
		k := r.Intn(len(vs) + 1)
		return [][]cliVer{vs[:k], vs[k:]}
	case 1: // duplicates
		return [][]cliVer{append(append([]cliVer(nil), vs...), vs[r.Intn(len(vs))])}
	case 2: // repeated in a second call
		return [][]cliVer{vs, {vs[r.Intn(len(vs))]}}
	}
	return [][]cliVer{vs}
}

func negoReplay(ctx *Ctx, l string) {
	f := strings.Fields(l)
	if len(f) == 4 && f[0] == "nego.server" {
		negoServerReplay(ctx, f)
		return
	}
	if len(f) != 4 || f[0] != "nego.adopt" {
		return
	}
	nc := negoCase{}
	if f[1] != "-" {
		v, err := cliParseVer(f[1])
		if err != nil {
			return
		}
		nc.enforce = &v
	}
	if f[2] != "-" {
		for _, c := range strings.Split(f[2], ";") {
			if c == "_" {
				nc.calls = append(nc.calls, []cliVer{})
				continue
			}
			vs, err := cliParseVers(c)
			if err != nil {
				return
			}
			nc.calls = append(nc.calls, vs)
		}
	}
	switch {
	case strings.HasPrefix(f[3], "lib:"):
		nc.lib = true
		s := f[3][4:]
		nc.libMode = 's'
		if s == "!" {
			nc.libMode = '!'
		} else if s != "-" {
			vs, err := cliParseVers(s)
			if err != nil {
				return
			}
			nc.libSet = vs
		}
	case strings.HasPrefix(f[3], "msg:"):
		rt, err := cliParseRT(f[3][4:])
		if err != nil {
			return
		}
		nc.rt = rt
		nc.inject = true
	default:
		return
	}
	// the line does not say through which connect entry point it was produced: all of them
	for _, e := range []byte(cliDialEntries) {
		nc.entry = e
		runNegoCase(ctx, nc)
	}
}

// cliGoroutines records how many goroutines outlive an engine run (clients and pipes are all closed).
func cliGoroutines(ctx *Ctx, base int) {
	n := runtime.NumGoroutine()
	for i := 0; i < 40 && n > base; i++ {
		time.Sleep(50 * time.Millisecond)
		n = runtime.NumGoroutine()
	}
	if n > base {
		ctx.Res.Count(fmt.Sprintf("goroutines-left-behind=%d", n-base))
	} else {
		ctx.Res.Count("goroutines-left-behind=0")
	}
}

func runNego(ctx *Ctx) {
	cliQuiet()
	defer cliGoroutines(ctx, runtime.NumGoroutine())
	if len(ctx.Replay) > 0 {
		for _, l := range ctx.Replay {
			negoReplay(ctx, l)
		}
		return
	}
	r := ctx.R
	extra := []cliVer{cliV(2, 0), cliV(1, 5), cliV(0, 9), cliV(1, -1)}
	runNegoServerCases(ctx)
	// (a) the library's own server: every non-empty client subset x every server subset
	for cm := 1; cm < 32; cm++ {
		for sm := 0; sm < 32; sm++ {
			c := cliSubset(cm)
			nc := negoCase{lib: true, libMode: 's', libSet: cliShuffle(r, cliSubset(sm)), calls: [][]cliVer{cliShuffle(r, c)}}
			runNegoCase(ctx, nc)
			// the same pair through the cluster entry point (every pair in the thorough tier)
			if ctx.Thor || (cm*3+sm)%5 == 1 {
				ncc := nc
				ncc.entry = 'c'
				runNegoCase(ctx, ncc)
			}
			if sm == 31 || (ctx.Thor && sm%8 == 3) {
				ncc := nc
				ncc.entry = 'C'
				runNegoCase(ctx, ncc)
			}
			// the same pair with the configuration spelled differently (several calls, duplicates)
			if ctx.Thor || (cm+sm)%4 == 0 {
				nc2 := nc
				nc2.calls = cliSplitCalls(r, c)
				nc2.libSet = cliShuffle(r, append(append([]cliVer(nil), nc.libSet...), nc.libSet...))
				runNegoCase(ctx, nc2)
			}
			// enforced: a version of the client's set, of the server's set, or foreign to both
			if ctx.Thor || (cm*7+sm)%3 == 0 {
				pool := append(append([]cliVer(nil), cliStdVersions...), extra[0])
				e := rng.Pick(r, pool)
				nc3 := nc
				nc3.enforce = &e
				runNegoCase(ctx, nc3)
				if (cm+sm)%2 == 0 {
					nc3.entry = 'c'
					runNegoCase(ctx, nc3)
				}
				if (cm+sm)%16 == 5 {
					nc3.entry = 'C'
					runNegoCase(ctx, nc3)
				}
			}
		}
		// server never configured
		runNegoCase(ctx, negoCase{lib: true, libMode: '!', calls: [][]cliVer{cliSubset(cm)}})
	}
	// default client (no WithKmipVersions) against every server subset
	for sm := 0; sm < 32; sm++ {
		runNegoCase(ctx, negoCase{lib: true, libMode: 's', libSet: cliSubset(sm)})
		runNegoCase(ctx, negoCase{lib: true, libMode: 's', libSet: cliSubset(sm), calls: [][]cliVer{{}}})
		runNegoCase(ctx, negoCase{lib: true, libMode: 's', libSet: cliSubset(sm), entry: 'c'})
		runNegoCase(ctx, negoCase{lib: true, libMode: 's', libSet: cliSubset(sm), calls: [][]cliVer{{}}, entry: "cC"[sm%2]})
	}
	// (b) scripted servers
	item := func(op, status, reason uint32, msg string, pl cliPl, vers []cliVer) cliRT {
		return cliRT{hdr: 1, items: []cliItem{{op: op, status: status, reason: reason, msg: msg, pl: pl, vers: vers}}}
	}
	discPl := cliPl{kind: 'r', op: cliOpDiscover}
	none := cliPl{kind: 'n'}
	var clientSets [][]cliVer
	if ctx.Thor {
		for cm := 1; cm < 32; cm++ {
			clientSets = append(clientSets, cliSubset(cm))
		}
	} else {
		for _, cm := range []int{1, 2, 5, 16, 17, 21, 30, 31} {
			clientSets = append(clientSets, cliSubset(cm))
		}
	}
	clientSets = append(clientSets, nil, []cliVer{cliV(2, 0), kmip.V1_2}, []cliVer{cliV(0, 9), kmip.V1_0, cliV(1, 5)})
	// versions whose order is NOT the order of their minor numbers, nor of unsigned components
	oddSets := [][]cliVer{
		{cliV(2, 0), kmip.V1_4, kmip.V1_0}, {cliV(0, 9), kmip.V1_1}, {cliV(1, -1), kmip.V1_0, cliV(2, -3)},
		{cliV(2, 1), cliV(2, 0), cliV(10, 0)}, {cliV(-1, 7), cliV(0, 0), kmip.V1_3}, {cliV(3, 0), cliV(2, 9), cliV(1, 9)},
	}
	for _, c := range oddSets {
		pool := append(append(append([]cliVer(nil), c...), extra...), kmip.V1_0, kmip.V1_2, kmip.V1_4)
		for k := 0; k < ctx.N(40, 400); k++ {
			var a []cliVer
			for m := r.Intn(6); m > 0; m-- {
				a = append(a, rng.Pick(r, pool))
			}
			rt := cliRT{hdr: 1, items: []cliItem{{op: cliOpDiscover, pl: cliPl{kind: 'r', op: cliOpDiscover}, vers: a}}}
			oc := negoCase{calls: cliSplitCalls(r, c), rt: rt, inject: k%2 == 1}
			if k%8 >= 6 {
				oc.entry = 'c'
			}
			runNegoCase(ctx, oc)
			ctx.Res.Count("nego.odd-version-sets")
		}
	}
	for _, c := range clientSets {
		var scripts []cliRT
		// answered lists: every subset of 1.0..1.4 in some order, with foreign versions, duplicates
		for sm := 0; sm < 32; sm++ {
			a := cliSubset(sm)
			scripts = append(scripts, item(cliOpDiscover, 0, 0, "", discPl, cliShuffle(r, a)))
			withExtra := append(append([]cliVer(nil), a...), rng.Pick(r, extra))
			if len(a) > 0 {
				withExtra = append(withExtra, a[r.Intn(len(a))])
			}
			scripts = append(scripts, item(cliOpDiscover, 0, 0, "", discPl, cliShuffle(r, withExtra)))
		}
		// conformant answer (descending intersection), and its reverse
		desc := []cliVer{kmip.V1_4, kmip.V1_3, kmip.V1_2, kmip.V1_1, kmip.V1_0}
		scripts = append(scripts, item(cliOpDiscover, 0, 0, "", discPl, desc), item(cliOpDiscover, 0, 0, "", discPl, cliStdVersions))
		// discovery unsupported
		scripts = append(scripts,
			item(cliOpDiscover, 1, 5, "Operation not supported", none, nil),
			item(0, 1, 5, "", none, nil),
			item(cliOpDiscover, 1, 5, "x", discPl, desc))
		// other failures (status / reason combinations that are NOT the fallback)
		for _, st := range []uint32{1, 2, 3, 7} {
			for _, re := range []uint32{0, 1, 4, 5, 0x100, 0x99} {
				if st == 1 && re == 5 {
					continue
				}
				scripts = append(scripts, item(cliOpDiscover, st, re, "denied", none, nil))
			}
		}
		scripts = append(scripts, item(cliOpDiscover, 2, 5, "", discPl, desc), item(0, 1, 4, "Unsupported protocol version", none, nil))
		// wrong counts
		one := cliItem{op: cliOpDiscover, pl: discPl, vers: desc}
		for _, h := range []int32{0, 2, -1} {
			scripts = append(scripts, cliRT{hdr: h, items: []cliItem{one}})
		}
		scripts = append(scripts, cliRT{hdr: 1}, cliRT{hdr: 0}, cliRT{hdr: 1, items: []cliItem{one, one}}, cliRT{hdr: 2, items: []cliItem{one, one}})
		// payload missing / of another operation / opaque
		scripts = append(scripts,
			item(cliOpDiscover, 0, 0, "", none, nil),
			item(cliOpActivate, 0, 0, "", cliPl{kind: 'r', op: cliOpActivate}, nil),
			item(cliOpDiscover, 0, 0, "", cliPl{kind: 'r', op: cliOpActivate}, nil),
			item(cliOpDiscover, 0, 0, "", cliPl{kind: 'r', op: cliOpLocate}, nil),
			item(cliOpUnknown, 0, 0, "", cliPl{kind: 'u', op: cliOpUnknown}, nil),
			item(cliOpDiscover, 0, 0, "", cliPl{kind: 'u', op: cliOpDiscover}, nil),
			item(0, 0, 0, "", discPl, desc),
			cliRT{fail: true})
		for i, rt := range scripts {
			var calls [][]cliVer
			if c != nil {
				calls = [][]cliVer{cliShuffle(r, c)}
			}
			nc := negoCase{calls: calls, rt: rt, inject: i%2 == 1}
			runNegoCase(ctx, nc)
			if i%5 == 0 { // the other transport as well
				nc.inject = !nc.inject
				runNegoCase(ctx, nc)
			}
			if i%3 == 1 || ctx.Thor { // the cluster entry point (both transports over the run)
				ncc := nc
				ncc.entry = 'c'
				if i%21 == 10 {
					ncc.entry = 'C'
				}
				runNegoCase(ctx, ncc)
			}
			if i%9 == 0 { // enforced: the answer must not matter
				e := rng.Pick(r, append(append([]cliVer(nil), cliStdVersions...), extra[0]))
				nc.enforce = &e
				nc.entry = "dc"[(i/9)%2]
				runNegoCase(ctx, nc)
			}
		}
		// in-process only: the library server's own (request-typed) discover payload
		runNegoCase(ctx, negoCase{calls: nil, rt: item(cliOpDiscover, 0, 0, "", cliPl{kind: 'q', op: cliOpDiscover}, desc), inject: true})
	}
}

// =============================================================================================
// engine resp (C12)

type respOutcome struct {
	single   kmip.OperationPayload   // exec / request
	many     []kmip.OperationPayload // batch: Unwrap payloads
	unwrapEr error                   // batch: Unwrap error
	err      error
}

type respAPI struct {
	name   string // distribution key
	kind   string // exec | request | batch  (the model command argument)
	reqOps []uint32
	call   func(cl *kmipclient.Client, ctx context.Context) respOutcome
}

func cliOpsStr(ops []uint32) string {
	if len(ops) == 0 {
		return "-"
	}
	parts := make([]string, len(ops))
	for i, o := range ops {
		parts[i] = strconv.FormatUint(uint64(o), 10)
	}
	return strings.Join(parts, ",")
}

func respSingle[T kmip.OperationPayload](p T, err error) respOutcome {
	if err != nil {
		return respOutcome{err: err}
	}
	return respOutcome{single: p}
}

func respBatch(res kmipclient.BatchResult, err error) respOutcome {
	if err != nil {
		return respOutcome{err: err}
	}
	pls, uerr := res.Unwrap()
	return respOutcome{many: pls, unwrapEr: uerr}
}

func respAPIs() []*respAPI {
	act := func() kmip.OperationPayload { return &payloads.ActivateRequestPayload{UniqueIdentifier: "id-1"} }
	des := func() kmip.OperationPayload { return &payloads.DestroyRequestPayload{UniqueIdentifier: "id-2"} }
	get := func() kmip.OperationPayload { return &payloads.GetRequestPayload{UniqueIdentifier: "id-3"} }
	return []*respAPI{
		{name: "exec-activate", kind: "exec", reqOps: []uint32{cliOpActivate}, call: func(cl *kmipclient.Client, ctx context.Context) respOutcome {
			return respSingle(cl.Activate("id-1").ExecContext(ctx))
		}},
		{name: "exec-get", kind: "exec", reqOps: []uint32{cliOpGet}, call: func(cl *kmipclient.Client, ctx context.Context) respOutcome {
			return respSingle(cl.Get("id-1").ExecContext(ctx))
		}},
		{name: "exec-destroy", kind: "exec", reqOps: []uint32{cliOpDestroy}, call: func(cl *kmipclient.Client, ctx context.Context) respOutcome {
			return respSingle(cl.Destroy("id-1").ExecContext(ctx))
		}},
		{name: "request-activate", kind: "request", reqOps: []uint32{cliOpActivate}, call: func(cl *kmipclient.Client, ctx context.Context) respOutcome {
			return respSingle(cl.Request(ctx, act()))
		}},
		{name: "request-unknown", kind: "request", reqOps: []uint32{cliOpUnknown}, call: func(cl *kmipclient.Client, ctx context.Context) respOutcome {
			return respSingle(cl.Request(ctx, kmip.NewUnknownPayload(kmip.Operation(cliOpUnknown), ttlv.Value{Tag: kmip.TagUniqueIdentifier, Value: "id-1"})))
		}},
		{name: "batch1", kind: "batch", reqOps: []uint32{cliOpActivate}, call: func(cl *kmipclient.Client, ctx context.Context) respOutcome {
			return respBatch(cl.Batch(ctx, act()))
		}},
		{name: "batch2-then", kind: "batch", reqOps: []uint32{cliOpActivate, cliOpDestroy}, call: func(cl *kmipclient.Client, ctx context.Context) respOutcome {
			return respBatch(cl.Activate("id-1").Then(func(c *kmipclient.Client) kmipclient.PayloadBuilder { return c.Destroy("id-2") }).ExecContext(ctx))
		}},
		{name: "batch0", kind: "batch", reqOps: nil, call: func(cl *kmipclient.Client, ctx context.Context) respOutcome {
			return respBatch(cl.Batch(ctx))
		}},
		{name: "batch6", kind: "batch", reqOps: []uint32{cliOpActivate, cliOpDestroy, cliOpGet, cliOpLocate, cliOpActivate, cliOpDestroy}, call: func(cl *kmipclient.Client, ctx context.Context) respOutcome {
			return respBatch(cl.Batch(ctx, act(), des(), get(), &payloads.LocateRequestPayload{}, act(), des()))
		}},
		{name: "batch3-opt", kind: "batch", reqOps: []uint32{cliOpActivate, cliOpDestroy, cliOpGet}, call: func(cl *kmipclient.Client, ctx context.Context) respOutcome {
			return respBatch(cl.BatchOpt(ctx, []kmip.OperationPayload{act(), des(), get()}, kmipclient.OnBatchErr(kmip.BatchErrorContinuationOptionStop)))
		}},
	}
}

// respEnv holds the reusable clients (a Dial costs two goroutines on each side).
type respEnv struct {
	ctx      *Ctx
	wireEp   *cliEndpoint
	wireObs  *cliObs
	wireCl   *kmipclient.Client
	injEp    *cliEndpoint
	injObs   *cliObs
	injCl    *kmipclient.Client
	dials    int
	builders []*respAPI
	version  cliVer // the version the clients enforce (zero value: 1.4)
}

func (e *respEnv) client(inject bool) (*kmipclient.Client, *cliObs, *cliEndpoint) {
	mk := func() (*kmipclient.Client, *cliObs, *cliEndpoint) {
		ep := &cliEndpoint{}
		obs := &cliObs{}
		v := kmip.V1_4
		if e.version != (cliVer{}) {
			v = e.version
		}
		cl, err := kmipclient.Dial("pipe", kmipclient.WithDialerUnsafe(ep.dialer), kmipclient.WithMiddlewares(obs.mw), kmipclient.EnforceVersion(v))
		if err != nil {
			e.ctx.Res.Fail("resp: cannot create a client: " + err.Error())
			return nil, nil, nil
		}
		e.dials++
		return cl, obs, ep
	}
	if inject {
		if e.injCl == nil {
			e.injCl, e.injObs, e.injEp = mk()
		}
		return e.injCl, e.injObs, e.injEp
	}
	if e.wireCl == nil {
		e.wireCl, e.wireObs, e.wireEp = mk()
	}
	return e.wireCl, e.wireObs, e.wireEp
}

func (e *respEnv) dropWire() {
	if e.wireCl != nil {
		_, _ = guard("Close", func() error { return e.wireCl.Close() })
		e.wireEp.shutdown(e.ctx)
		e.wireCl, e.wireObs, e.wireEp = nil, nil, nil
	}
}

func (e *respEnv) close() {
	e.dropWire()
	if e.injCl != nil {
		_, _ = guard("Close", func() error { return e.injCl.Close() })
		e.injEp.shutdown(e.ctx)
		e.injCl = nil
	}
}

// setVersion: the following cases run with clients enforcing v.
func (e *respEnv) setVersion(v cliVer) {
	e.close()
	e.version = v
	e.builders = nil
}

// wireShaped: a response a server can put on the wire (payload type chosen by the item's operation).
func (rt cliRT) wireShaped() bool {
	cliInitTypes()
	for _, it := range rt.items {
		if it.pl.kind == 'n' {
			continue
		}
		if it.op == 0 {
			return false
		}
		_, reg := cliRegResp[it.op]
		if reg && !(it.pl.kind == 'r' && it.pl.op == it.op) {
			return false
		}
		if !reg && !(it.pl.kind == 'u' && it.pl.op == it.op) {
			return false
		}
	}
	return true
}

func respCase(env *respEnv, api *respAPI, script cliRT, inject bool) {
	ctx := env.ctx
	cl, obs, ep := env.client(inject)
	if cl == nil {
		return
	}
	mode := "wire"
	if inject {
		mode = "inject"
		obs.setInject(func(req *kmip.RequestMessage) (*kmip.ResponseMessage, error, bool) {
			if script.fail {
				return nil, errCliInjected, true
			}
			return script.concrete(req.Header.ProtocolVersion), nil, true
		})
	} else {
		ep.setHandler(func(req *kmip.RequestMessage) *kmip.ResponseMessage {
			if script.echo {
				return cliEchoRequest
			}
			if script.fail {
				return nil
			}
			return script.concrete(req.Header.ProtocolVersion)
		})
	}
	ctx.current = "resp.interpret " + api.kind + " " + cliOpsStr(api.reqOps) + " " + script.String() + " (" + mode + ")"
	timeout := 5 * time.Second
	if script.echo {
		// the read loop ignores a request message: the call can only return through its context
		timeout = 300 * time.Millisecond
	}
	cctx, cancel := context.WithTimeout(context.Background(), timeout)
	out, pn := guard(api.name, func() respOutcome { return api.call(cl, cctx) })
	cancel()
	events := obs.take()
	var sent []cliSeen
	if !inject {
		sent = ep.takeSeen()
		if script.echo {
			ctx.Res.Count("resp.server-answers-with-a-request-message")
			if pn == "" && out.err == nil {
				cliViolate(ctx, "C12", "success-needs-response", api.kind+":success-without-response", "the call succeeded although the server only sent back a request message", ctx.current)
			}
		}
	} else {
		for _, ev := range events {
			sent = append(sent, ev.seen)
		}
	}
	// C13: every request carries the client's version; its header count is the number of its items, which
	// are the requested operations
	for _, sn := range sent {
		if sn.version != cl.Version() {
			cliViolate(ctx, "C13", "request-header", "resp:request-header-version-differs", fmt.Sprintf("%s: the request carries %s, the client's version is %s", api.name, cliVerStr(sn.version), cliVerStr(cl.Version())), ctx.current)
		}
		if int(sn.count) != len(sn.ops) || cliOpsStr(sn.ops) != cliOpsStr(api.reqOps) {
			cliViolate(ctx, "C13", "request-header", "resp:request-header-malformed", fmt.Sprintf("%s: the request has header count %d and operations %s, requested were %s", api.name, sn.count, cliOpsStr(sn.ops), cliOpsStr(api.reqOps)), ctx.current)
		}
		ctx.Res.Count("resp.request-header-checked")
	}
	seen := script
	received := inject && !script.fail
	if len(events) > 0 {
		ev := events[len(events)-1]
		a, err := cliAbstract(ev.resp, ev.err)
		if err != nil {
			ctx.Res.Fail("resp: " + err.Error())
			return
		}
		seen = a
		received = !a.fail
		if !inject && a.fail {
			env.dropWire() // the connection is dead (undecodable answer, closed pipe)
		}
	} else if !inject {
		env.dropWire()
	}
	line := "resp.interpret " + api.kind + " " + cliOpsStr(api.reqOps) + " " + seen.String()
	ctx.current = line
	key := api.kind
	if !inject && seen.String() != script.String() {
		ctx.Res.Count("resp.wire-normalised")
		if cliDebug {
			fmt.Println("WIRE", api.name, script.String(), "=>", seen.String())
		}
	}

	// ---- the real code's answer
	var impl string
	success := false
	switch {
	case pn != "":
		impl = "panic"
		cliViolate(ctx, "C12", "no-panic", key+":panic "+panicKey(pn), api.name+" panicked: "+pn, line)
		if !inject {
			env.dropWire()
		}
	case out.err != nil:
		impl = cliErrAnswer(out.err, seen.items)
	case api.kind == "batch":
		parts := make([]string, len(out.many))
		for i, p := range out.many {
			pl, _, err := cliAbstractPayload(p)
			if err != nil {
				ctx.Res.Fail("resp: " + err.Error())
				return
			}
			parts[i] = pl.String()
		}
		errs := "-"
		if out.unwrapEr != nil {
			if errs = cliCarried(out.unwrapEr.Error(), seen.items); errs == "" {
				errs = "other"
			}
		} else {
			success = true
		}
		impl = "ok [" + strings.Join(parts, ",") + "] " + errs
	default:
		pl, _, err := cliAbstractPayload(out.single)
		if err != nil {
			ctx.Res.Fail("resp: " + err.Error())
			return
		}
		impl = "ok " + pl.String()
		success = true
	}

	// ---- oracle C12 (from the script, the API and the observed Go values only)
	if pn == "" {
		conform := received && int(seen.hdr) == len(seen.items) && len(seen.items) == len(api.reqOps)
		allOK := true
		for _, it := range seen.items {
			if it.status != 0 {
				allOK = false
			}
		}
		if success {
			switch {
			case !received:
				cliViolate(ctx, "C12", "success-needs-response", key+":success-without-response", "the call succeeded although the round trip failed", line)
			case !conform:
				cliViolate(ctx, "C12", "counts", key+":count-mismatch-accepted", fmt.Sprintf("success although header count %d, %d items, %d requested operations", seen.hdr, len(seen.items), len(api.reqOps)), line)
			case !allOK:
				cliViolate(ctx, "C12", "failed-item-surfaced", key+":failed-item-accepted", "success although an item does not have status Success", line)
			default:
				results := out.many
				if api.kind != "batch" {
					results = []kmip.OperationPayload{out.single}
				}
				for i, p := range results {
					want := cliExpectedType(api.reqOps[i])
					switch {
					case p == nil:
						cliViolate(ctx, "C12", "payload-type", key+":missing-payload-as-success", fmt.Sprintf("position %d: success without payload (expected %v)", i, want), line)
					case uint32(p.Operation()) != api.reqOps[i]:
						cliViolate(ctx, "C12", "payload-type", key+":foreign-payload-as-success", fmt.Sprintf("position %d: %T (operation 0x%X) returned as success for operation 0x%X", i, p, uint32(p.Operation()), api.reqOps[i]), line)
					case reflect.TypeOf(p) != want && (api.kind == "exec" || seen.wireShaped()):
						cliViolate(ctx, "C12", "payload-type", key+":wrong-type-as-success", fmt.Sprintf("position %d: %T returned, the type registered for the operation is %v", i, p, want), line)
					}
				}
			}
		}
		// a fully conforming answer (right counts, every item a success announcing the requested operation
		// and carrying its registered response type) must be accepted
		if conform && allOK && !success {
			good := true
			for i, it := range seen.items {
				want := cliPl{kind: 'r', op: api.reqOps[i]}
				if _, ok := cliRegResp[api.reqOps[i]]; !ok {
					want.kind = 'u'
				}
				if it.op != api.reqOps[i] || it.pl != want {
					good = false
				}
			}
			if good {
				cliViolate(ctx, "C12", "conforming-accepted", key+":conforming-response-refused", "a conforming response is refused: "+impl, line)
			}
		}
		// failed items must be surfaced with their status, reason and message
		if conform {
			text := ""
			switch {
			case out.err != nil:
				text = out.err.Error()
			case out.unwrapEr != nil:
				text = out.unwrapEr.Error()
			}
			for i, it := range seen.items {
				if it.status == 0 {
					continue
				}
				if api.kind != "batch" && i > 0 {
					break
				}
				if text == "" {
					break // already reported above (failed-item-accepted)
				}
				if miss := cliCarries(text, it); miss != "" {
					cliViolate(ctx, "C12", "failed-item-surfaced", key+":error-lacks-"+miss, fmt.Sprintf("item %d (status 0x%X, reason 0x%X, message %q) is reported as %q", i, it.status, it.reason, it.msg, text), line)
				}
			}
		}
	}
	ctx.Add(line, impl, len(seen.items) > 0, "C12")
	ctx.Res.Count("resp.api=" + api.name)
	ctx.Res.Count("resp.mode=" + mode)
	cls := strings.SplitN(impl, " ", 2)[0]
	if strings.HasPrefix(impl, "err item") {
		cls = "err-item"
		if strings.Contains(impl, ";") {
			cls = "err-items"
		}
	}
	ctx.Res.Count("resp.result=" + cls)
	if !received {
		ctx.Res.Count("resp.undecodable-or-failed-roundtrip")
	}
}

// respDialCase: the discovery exchange of Dial against an arbitrary response. (A Dial that runs into the
// harness deadline is evaluated again with a long one, see runNegoCase.)
func respDialCase(ctx *Ctx, clientVers []cliVer, script cliRT, inject bool) {
	respDialCaseVia(ctx, 'd', clientVers, script, inject)
}

// respDialCaseVia: the same case through the connect entry point `entry` (see cliDial).
func respDialCaseVia(ctx *Ctx, entry byte, clientVers []cliVer, script cliRT, inject bool) {
	if respDialCaseOnce(ctx, entry, clientVers, script, inject, 5*time.Second) {
		ctx.Res.Count("resp.dial-deadline-retried")
		if respDialCaseOnce(ctx, entry, clientVers, script, inject, 90*time.Second) {
			ctx.Res.Fail("resp: Dial did not return within 90 s (harness deadline) at: " + ctx.current)
		}
	}
}

func respDialCaseOnce(ctx *Ctx, entry byte, clientVers []cliVer, script cliRT, inject bool, dialTimeout time.Duration) (deadline bool) {
	ep := &cliEndpoint{}
	obs := &cliObs{}
	if inject {
		obs.setInject(func(req *kmip.RequestMessage) (*kmip.ResponseMessage, error, bool) {
			if script.fail {
				return nil, errCliInjected, true
			}
			return script.concrete(req.Header.ProtocolVersion), nil, true
		})
	} else {
		ep.setHandler(func(req *kmip.RequestMessage) *kmip.ResponseMessage {
			if script.echo {
				return cliEchoRequest
			}
			if script.fail {
				return nil
			}
			return script.concrete(req.Header.ProtocolVersion)
		})
	}
	opts := []kmipclient.Option{kmipclient.WithDialerUnsafe(ep.dialer), kmipclient.WithMiddlewares(obs.mw)}
	C := []cliVer{kmip.V1_4, kmip.V1_3, kmip.V1_2, kmip.V1_1, kmip.V1_0}
	if len(clientVers) > 0 {
		opts = append(opts, kmipclient.WithKmipVersions(clientVers...))
		C = append([]cliVer(nil), clientVers...)
		sort.Slice(C, func(i, j int) bool { return cliCmp(C[i], C[j]) > 0 })
	}
	ctx.current = "resp.interpret dial " + cliVersStr(C) + " " + script.String()
	type dialRes struct {
		cl  *kmipclient.Client
		err error
	}
	if script.echo {
		dialTimeout = 300 * time.Millisecond // the only way out: the context (see respCase)
		ctx.Res.Count("resp.dial-server-answers-with-a-request-message")
	}
	dctx, cancel := context.WithTimeout(context.Background(), dialTimeout)
	dr, pn := guard("Dial", func() dialRes {
		cl, err := cliDial(entry, dctx, opts)
		return dialRes{cl, err}
	})
	expired := dctx.Err() != nil
	cancel()
	if !script.echo && pn == "" && dr.err != nil && (expired || errors.Is(dr.err, context.DeadlineExceeded)) {
		ep.shutdown(ctx)
		return true
	}
	events := obs.take()
	ctx.Res.Count("resp.dial-entry=" + cliEntryName(entry))
	seen := script
	received := inject && !script.fail
	if len(events) > 0 {
		a, err := cliAbstract(events[0].resp, events[0].err)
		if err != nil {
			ctx.Res.Fail("resp: " + err.Error())
			ep.shutdown(ctx)
			return false
		}
		seen = a
		received = !a.fail
	}
	line := "resp.interpret dial " + cliVersStr(C) + " " + seen.String()
	ctx.current = line
	var impl string
	var adoptedV cliVer
	if pn == "" && dr.err == nil {
		// a connect call that reports success must hand out a usable client
		var vp string
		if dr.cl == nil {
			vp = "nil client returned without error"
		} else if adoptedV, vp = cliVersionOf(dr.cl); vp == "" {
			// ... on which a request does not panic either
			_, vp = guard("Batch", func() error {
				rctx, cancel := context.WithTimeout(context.Background(), 50*time.Millisecond)
				defer cancel()
				obs.setInject(func(req *kmip.RequestMessage) (*kmip.ResponseMessage, error, bool) { return nil, errCliInjected, true })
				_, err := dr.cl.Batch(rctx, &payloads.ActivateRequestPayload{UniqueIdentifier: "id-1"})
				return err
			})
		}
		if vp != "" {
			pn = "client returned without error by " + cliEntryName(entry) + ": " + vp
			if dr.cl != nil {
				_, _ = guard("Close", func() error { return dr.cl.Close() })
			}
		}
	}
	switch {
	case pn != "":
		impl = "panic"
		cliDialPanic(ctx, entry, pn, len(events) > 0, line)
		if entry != 'd' && len(events) == 0 {
			// nothing of the connect sequence was executed: there is no behaviour to compare with the model
			ep.shutdown(ctx)
			ctx.Res.Count("resp.cluster-entry-panicked-before-any-exchange")
			return false
		}
	case dr.err != nil:
		impl = cliErrAnswer(dr.err, seen.items)
	default:
		impl = "ok " + cliVerStr(adoptedV)
		_, _ = guard("Close", func() error { return dr.cl.Close() })
	}
	ep.shutdown(ctx)
	if pn == "" {
		conform := received && seen.hdr == 1 && len(seen.items) == 1
		if dr.err == nil {
			switch {
			case !conform:
				cliViolate(ctx, "C12", "counts", "dial:count-mismatch-accepted", "Dial succeeded on a response that is not a single item with header count 1", line)
			default:
				it := seen.items[0]
				fallback := it.status == 1 && it.reason == 5
				switch {
				case fallback:
				case it.status != 0:
					cliViolate(ctx, "C12", "failed-item-surfaced", "dial:failed-item-accepted", "Dial succeeded on a failed discovery item", line)
				case !(it.pl.kind == 'r' && it.pl.op == cliOpDiscover):
					cliViolate(ctx, "C12", "payload-type", "dial:foreign-payload-as-success", "Dial adopted a version from a response whose payload is "+it.pl.String(), line)
				}
			}
		} else if conform {
			it := seen.items[0]
			if it.status != 0 && !(it.status == 1 && it.reason == 5) {
				if miss := cliCarries(dr.err.Error(), it); miss != "" {
					cliViolate(ctx, "C12", "failed-item-surfaced", "dial:error-lacks-"+miss, fmt.Sprintf("failed discovery item (status 0x%X, reason 0x%X, message %q) is reported as %q", it.status, it.reason, it.msg, dr.err.Error()), line)
				}
			}
		}
	}
	ctx.Add(line, impl, len(seen.items) > 0, "C12,C13")
	ctx.Res.Count("resp.api=dial")
	ctx.Res.Count("resp.result=" + strings.SplitN(impl, " ", 2)[0])
	return false
}

// cliMessages: result messages a server may send (valid UTF-8; the client must hand them over unchanged).
var cliMessages = []string{
	"boom: x=1",
	"100%s done, %d%% left, %v %!x %",
	`quoted "text" with a \ and 'single' quotes`,
	"line 1\nline 2\tafter a tab",
	"cl\u00e9 refus\u00e9e \u2713 \u2014 \u00fcn\u00ef",
	"boom: x=1",
	strings.Repeat("a rather long explanation, 0123456789; ", 12) + "END-OF-MESSAGE",
}

// respItems enumerates the abstract items for a requested operation.
func respItems(reqOp uint32, inject bool, dial bool, alsoOps ...uint32) []cliItem {
	cliInitTypes()
	other := cliOpLocate
	if reqOp == cliOpLocate {
		other = cliOpActivate
	}
	unk := cliOpUnknown
	if reqOp == cliOpUnknown {
		unk = 0x77
	}
	right := cliPl{kind: 'r', op: reqOp}
	if _, ok := cliRegResp[reqOp]; !ok {
		right = cliPl{kind: 'u', op: reqOp}
	}
	reasons := []uint32{0, 1, 0x99}
	if dial {
		reasons = append(reasons, 5)
	}
	var out []cliItem
	for _, op := range []uint32{reqOp, other, unk, 0} {
		for _, st := range []uint32{0, 1, 2, 3, 7} {
			for _, re := range reasons {
				opaqueOp := op
				if opaqueOp == 0 {
					opaqueOp = reqOp
				}
				pls := []cliPl{{kind: 'n'}, right, {kind: 'r', op: other}, {kind: 'u', op: opaqueOp}}
				if inject {
					pls = append(pls, cliPl{kind: 'q', op: reqOp})
				}
				// in a batch: the response type of an operation requested at ANOTHER position
				for _, o := range alsoOps {
					if o != reqOp && o != other {
						if op == reqOp {
							pls = append(pls, cliPl{kind: 'r', op: o})
						} else if op == other && st == 0 && re == 0 {
							// ... announced by the item itself (reachable on the wire)
							out = append(out, cliItem{op: o, pl: cliPl{kind: 'r', op: o}})
						}
					}
				}
				for _, pl := range pls {
					it := cliItem{op: op, status: st, reason: re, pl: pl}
					if (st+re)%2 == 1 {
						// the server's message is free text: format verbs, quotes, line breaks, non-ASCII, long
						it.msg = cliMessages[(int(st)*7+int(re)*3+int(op%11)+len(out))%len(cliMessages)]
					}
					if pl.kind == 'r' && pl.op == cliOpDiscover {
						it.vers = []cliVer{kmip.V1_0, kmip.V1_3, cliV(2, 0), kmip.V1_2}
					}
					out = append(out, it)
				}
			}
		}
	}
	return out
}

func respReplay(ctx *Ctx, env *respEnv, l string) {
	f := strings.Fields(l)
	switch {
	case len(f) == 4 && f[0] == "resp.interpret":
		rt, err := cliParseRT(f[3])
		if err != nil {
			return
		}
		if f[1] == "dial" {
			vs, err := cliParseVers(f[2])
			if err != nil {
				return
			}
			for _, e := range []byte(cliDialEntries) {
				respDialCaseVia(ctx, e, vs, rt, true)
			}
			return
		}
		for _, api := range respAPIs() {
			if api.kind == f[1] && cliOpsStr(api.reqOps) == f[2] {
				respCase(env, api, rt, true)
				return
			}
		}
		// a typed Exec of another operation: every fluent builder requesting it
		if env.builders == nil {
			env.builders = respBuilderAPIs(env)
		}
		for _, api := range env.builders {
			if api.kind == f[1] && cliOpsStr(api.reqOps) == f[2] {
				respCase(env, api, rt, true)
			}
		}
	case len(f) == 4 && f[0] == "resp.signer":
		sgReplay(env, f)
	case len(f) == 3 && f[0] == "resp.enumstr", len(f) == 2 && f[0] == "resp.registered":
		respTables(ctx)
	}
}

// respThenForks: a Then-chain is a VALUE (BatchExec, value receivers): a caller may keep a prefix and extend it
// twice. Each of the two chains must send ITS OWN operations and return, at every position, the response type
// of the operation requested there — against a server that answers every request item by item with the
// response payload of the operation it was sent (impl-only lines: the model has no builders).
func respThenForks(env *respEnv) {
	ctx := env.ctx
	cl, obs, _ := env.client(true)
	if cl == nil {
		return
	}
	obs.setInject(func(req *kmip.RequestMessage) (*kmip.ResponseMessage, error, bool) {
		return cliActivateAnswer(req), nil, true
	})
	defer obs.setInject(nil)
	type step struct {
		op uint32
		f  func(c *kmipclient.Client) kmipclient.PayloadBuilder
	}
	steps := []step{
		{cliOpDestroy, func(c *kmipclient.Client) kmipclient.PayloadBuilder { return c.Destroy("id-2") }},
		{cliOpGet, func(c *kmipclient.Client) kmipclient.PayloadBuilder { return c.Get("id-3") }},
		{cliOpActivate, func(c *kmipclient.Client) kmipclient.PayloadBuilder { return c.Activate("id-4") }},
		{uint32(kmip.OperationRevoke), func(c *kmipclient.Client) kmipclient.PayloadBuilder {
			return c.Revoke("id-5")
		}},
	}
	tails := []step{
		{cliOpLocate, func(c *kmipclient.Client) kmipclient.PayloadBuilder { return c.Locate() }},
		{uint32(kmip.OperationQuery), func(c *kmipclient.Client) kmipclient.PayloadBuilder { return c.Query() }},
	}
	for n := 1; n <= 8; n++ { // operations in the common prefix after the first one
		ops := []uint32{cliOpActivate}
		prefix := cl.Activate("id-1").Then(steps[0].f)
		ops = append(ops, steps[0].op)
		for k := 1; k < n; k++ {
			st := steps[k%len(steps)]
			prefix = prefix.Then(st.f)
			ops = append(ops, st.op)
		}
		chains := []kmipclient.BatchExec{prefix.Then(tails[0].f), prefix.Then(tails[1].f)}
		line := fmt.Sprintf("#then.fork prefix=%s tails=%d,%d", cliOpsStr(ops), tails[0].op, tails[1].op)
		ctx.current = line
		var answers []string
		for ci, ch := range chains {
			want := append(append([]uint32(nil), ops...), tails[ci].op)
			obs.take()
			rctx, cancel := context.WithTimeout(context.Background(), 5*time.Second)
			out, pn := guard("Then-chain Exec", func() respOutcome { return respBatch(ch.ExecContext(rctx)) })
			cancel()
			var sent []uint32
			for _, ev := range obs.take() {
				sent = ev.seen.ops
			}
			switch {
			case pn != "":
				cliViolate(ctx, "C12", "no-panic", "then:panic "+panicKey(pn), "a forked Then-chain panicked: "+pn, line)
				answers = append(answers, "panic")
				continue
			case out.err != nil || out.unwrapEr != nil:
				// the server conforms to what it was sent: an error means the chain did not send its own operations
				cliViolate(ctx, "C12", "conforming-accepted", "then:forked-chain-refused", fmt.Sprintf("chain %d (operations %s) sent %s and failed: %v %v", ci, cliOpsStr(want), cliOpsStr(sent), out.err, out.unwrapEr), line)
				answers = append(answers, "err")
				continue
			}
			got := make([]uint32, len(out.many))
			bad := len(out.many) != len(want)
			for i, p := range out.many {
				if p != nil {
					got[i] = uint32(p.Operation())
				}
				if i < len(want) && (p == nil || got[i] != want[i] || reflect.TypeOf(p) != cliExpectedType(want[i])) {
					bad = true
				}
			}
			if bad {
				cliViolate(ctx, "C12", "payload-type", "then:forked-chain-returns-foreign-payload",
					fmt.Sprintf("chain %d was built as %s; it sent %s and returned as success the payloads of operations %s", ci, cliOpsStr(want), cliOpsStr(sent), cliOpsStr(got)), line)
			}
			answers = append(answers, "ok "+cliOpsStr(got))
		}
		ctx.Add(line, strings.Join(answers, " / "), false, "C12")
		ctx.Res.Count("resp.then-fork")
	}
}

// respTables ties the model's registries to the Go ones and checks that EnumStr is unambiguous.
func respTables(ctx *Ctx) {
	cliInitTypes()
	names := map[string]map[string]uint32{"op": {}, "status": {}, "reason": {}}
	for v := uint32(0); v <= 0x120; v++ {
		for _, tbl := range []string{"op", "status", "reason"} {
			var s string
			switch tbl {
			case "op":
				s = ttlv.EnumStr(kmip.Operation(v))
			case "status":
				s = ttlv.EnumStr(kmip.ResultStatus(v))
			default:
				s = ttlv.EnumStr(kmip.ResultReason(v))
			}
			line := fmt.Sprintf("resp.enumstr %s %d", tbl, v)
			ctx.Add(line, s, false, "C12")
			if prev, dup := names[tbl][s]; dup {
				cliViolate(ctx, "C12", "enumstr", "enumstr:ambiguous-name", fmt.Sprintf("%s values 0x%X and 0x%X are both rendered %q", tbl, prev, v, s), line)
			}
			names[tbl][s] = v
			if strings.HasPrefix(s, "0x") && s != fmt.Sprintf("0x%08X", v) {
				cliViolate(ctx, "C12", "enumstr", "enumstr:ambiguous-name", fmt.Sprintf("%s value 0x%X is rendered %q", tbl, v, s), line)
			}
		}
		_, reg := cliRegResp[v]
		ans := "no"
		if reg {
			ans = "yes"
		}
		ctx.Add(fmt.Sprintf("resp.registered %d", v), ans, false, "C12")
	}
	// distinct operations have distinct response types (so the type assertion of ExecContext discriminates)
	if len(cliRespTypes) != len(cliRegResp) {
		cliViolate(ctx, "C12", "payload-type", "registry:shared-response-type", "two operations are registered with the same response type", "#registry")
	}
	// (that every fluent builder returns the response type registered for the operation it requests is
	// checked by EXECUTING each of them: client_builders.go)
}

func runResp(ctx *Ctx) {
	cliQuiet()
	defer cliGoroutines(ctx, runtime.NumGoroutine())
	env := &respEnv{ctx: ctx}
	defer env.close()
	if len(ctx.Replay) > 0 {
		tablesDone := false
		for _, l := range ctx.Replay {
			if strings.HasPrefix(l, "resp.enumstr") || strings.HasPrefix(l, "resp.registered") {
				if !tablesDone {
					respTables(ctx)
					tablesDone = true
				}
				continue
			}
			respReplay(ctx, env, l)
		}
		return
	}
	r := ctx.R
	respTables(ctx)
	hdrs := []int32{0, 1, 2, -1}
	conforming := func(api *respAPI) []cliItem {
		var its []cliItem
		for _, o := range api.reqOps {
			pl := cliPl{kind: 'r', op: o}
			if _, ok := cliRegResp[o]; !ok {
				pl.kind = 'u'
			}
			its = append(its, cliItem{op: o, pl: pl})
		}
		return its
	}
	runAPI := func(api *respAPI, inject bool, light bool) {
		scale := func(n int) int {
			if light {
				return n/10 + 1
			}
			return n
		}
		{
			// no response / no item
			respCase(env, api, cliRT{fail: true}, inject)
			if !inject {
				respCase(env, api, cliRT{echo: true}, inject)
			}
			for _, h := range hdrs {
				respCase(env, api, cliRT{hdr: h}, inject)
			}
			n := len(api.reqOps)
			// header counts that only a narrowing or unsigned comparison would take for the right one, on
			// otherwise conforming items
			for _, d := range []int64{256, -256, 65536, -65536, 1 << 31, -(1 << 31), 1 << 32} {
				if h := int64(n) + d; h >= -(1<<31) && h < 1<<31 {
					respCase(env, api, cliRT{hdr: int32(h), items: conforming(api)}, inject)
				}
			}
			for _, h := range []int32{1<<31 - 1, -(1 << 31), 3, 5, 255, 257} {
				if int(h) != n {
					respCase(env, api, cliRT{hdr: h, items: conforming(api)}, inject)
				}
			}
			firstOp := cliOpActivate
			if n > 0 {
				firstOp = api.reqOps[0]
			}
			first := respItems(firstOp, inject, false, api.reqOps...)
			// one item: exhaustive
			if n <= 1 || (ctx.Thor && !light) {
				for _, h := range hdrs {
					for _, it := range first {
						if light && h != 1 {
							continue
						}
						respCase(env, api, cliRT{hdr: h, items: []cliItem{it}}, inject)
					}
				}
			} else {
				for k := 0; k < scale(150); k++ {
					respCase(env, api, cliRT{hdr: rng.Pick(r, hdrs), items: []cliItem{rng.Pick(r, first)}}, inject)
				}
			}
			// two and three items
			secondOp := firstOp
			if n > 1 {
				secondOp = api.reqOps[1]
			}
			second := respItems(secondOp, inject, false, api.reqOps...)
			switch {
			case n == 2 && ctx.Thor && inject && !light:
				for _, h := range hdrs {
					for _, a := range first {
						for _, b := range second {
							respCase(env, api, cliRT{hdr: h, items: []cliItem{a, b}}, inject)
						}
					}
				}
			default:
				samples := ctx.N(150, 3000)
				if n == 2 {
					samples = ctx.N(3000, 40000)
				}
				for k := 0; k < scale(samples); k++ {
					h := rng.Pick(r, hdrs)
					if n == 2 && r.Chance(3, 4) {
						h = 2
					}
					respCase(env, api, cliRT{hdr: h, items: []cliItem{rng.Pick(r, first), rng.Pick(r, second)}}, inject)
				}
			}
			if n == 3 {
				third := respItems(api.reqOps[2], inject, false, api.reqOps...)
				for k := 0; k < scale(ctx.N(1500, 20000)); k++ {
					h := int32(3)
					if r.Chance(1, 5) {
						h = rng.Pick(r, hdrs)
					}
					respCase(env, api, cliRT{hdr: h, items: []cliItem{rng.Pick(r, first), rng.Pick(r, second), rng.Pick(r, third)}}, inject)
				}
			}
			// longer batches: conforming everywhere except at one or two random positions (any position,
			// the last ones included)
			if n >= 4 {
				for k := 0; k < scale(ctx.N(2000, 30000)); k++ {
					its := conforming(api)
					for m := 1 + r.Intn(2); m > 0; m-- {
						i := r.Intn(n)
						if k%n < n && m == 1 && k < 4*n {
							i = k % n // every position at least four times
						}
						its[i] = rng.Pick(r, respItems(api.reqOps[i], inject, false, api.reqOps...))
					}
					h := int32(n)
					if r.Chance(1, 8) {
						h = rng.Pick(r, append([]int32{int32(n) - 1, int32(n) + 1}, hdrs...))
					}
					if k%8 == 5 {
						// many failed items at once, each with a message of its own (a server that stops at the
						// first error fails every later item); sometimes beside one successful item that
						// violates the protocol
						its = conforming(api)
						from := r.Intn(n - 3) // at least four failed items
						if r.Chance(1, 3) {
							from = 0
						}
						for i := from; i < n; i++ {
							its[i] = cliItem{op: api.reqOps[i], status: rng.Pick(r, []uint32{1, 1, 2, 3, 7}), reason: rng.Pick(r, []uint32{0, 1, 2, 0x99}),
								msg: fmt.Sprintf("failure at position %d of %d", i, n), pl: cliPl{kind: 'n'}}
						}
						if from > 0 && r.Chance(1, 3) {
							its[r.Intn(from)].pl = cliPl{kind: 'n'}
						}
						ctx.Res.Count("resp.long-batch.many-failed-items")
					}
					switch r.Intn(12) {
					case 0:
						its = its[:n-1] // an item short
					case 1:
						its = append(its, rng.Pick(r, first)) // an item too many
					}
					respCase(env, api, cliRT{hdr: h, items: its}, inject)
					ctx.Res.Count(fmt.Sprintf("resp.long-batch.items=%d", len(its)))
				}
			}
		}
	}
	for _, api := range respAPIs() {
		for _, inject := range []bool{true, false} {
			runAPI(api, inject, false)
		}
	}
	// every fluent builder (client_builders.go), in process: one-item shapes exhaustively under a header count
	// of 1, the other header counts and two-item responses sampled
	for _, api := range respBuilderAPIs(env) {
		respCase(env, api, cliRT{fail: true}, true)
		for _, h := range hdrs {
			respCase(env, api, cliRT{hdr: h}, true)
		}
		items := respItems(api.reqOps[0], true, false)
		for _, it := range items {
			respCase(env, api, cliRT{hdr: 1, items: []cliItem{it}}, true)
		}
		for k := 0; k < ctx.N(30, 600); k++ {
			respCase(env, api, cliRT{hdr: rng.Pick(r, hdrs), items: []cliItem{rng.Pick(r, items)}}, true)
			respCase(env, api, cliRT{hdr: rng.Pick(r, hdrs), items: []cliItem{rng.Pick(r, items), rng.Pick(r, items)}}, true)
		}
	}
	// Then-chains sharing a prefix
	respThenForks(env)
	// the composite helper Signer / Sign (client_signer.go)
	runSignerCases(env)
	// the same calls by clients speaking the other protocol versions (the responses are then decoded under
	// that version's rules): a lighter pass
	for _, v := range []cliVer{kmip.V1_0, kmip.V1_2} {
		env.setVersion(v)
		for _, api := range respAPIs() {
			for _, inject := range []bool{true, false} {
				runAPI(api, inject, true)
			}
		}
		ctx.Res.Count("resp.client-version=" + cliVerStr(v))
	}
	env.close()
	// the discovery exchange at connect time
	dialItems := respItems(cliOpDiscover, true, true)
	dialItemsWire := respItems(cliOpDiscover, false, true)
	for _, cset := range [][]cliVer{nil, {kmip.V1_0, kmip.V1_2}} {
		for _, inject := range []bool{true, false} {
			items := dialItemsWire
			if inject {
				items = dialItems
			}
			okItem := cliItem{op: cliOpDiscover, pl: cliPl{kind: 'r', op: cliOpDiscover}, vers: []cliVer{kmip.V1_0, kmip.V1_2}}
			respDialCaseVia(ctx, 'C', cset, cliRT{hdr: 1, items: []cliItem{okItem}}, inject)
			respDialCase(ctx, cset, cliRT{fail: true}, inject)
			respDialCaseVia(ctx, 'c', cset, cliRT{fail: true}, inject)
			if !inject {
				respDialCase(ctx, cset, cliRT{echo: true}, inject)
				respDialCaseVia(ctx, 'c', cset, cliRT{echo: true}, inject)
			}
			for _, h := range hdrs {
				respDialCase(ctx, cset, cliRT{hdr: h}, inject)
				respDialCaseVia(ctx, 'c', cset, cliRT{hdr: h}, inject)
				for k, it := range items {
					if h != 1 && !ctx.Thor && r.Chance(2, 3) {
						continue
					}
					respDialCase(ctx, cset, cliRT{hdr: h, items: []cliItem{it}}, inject)
					// the cluster entry point: every shape under a header count of 1, the others sampled
					if h == 1 || ctx.Thor || k%4 == 1 {
						respDialCaseVia(ctx, 'c', cset, cliRT{hdr: h, items: []cliItem{it}}, inject)
					}
					if h == 1 && k%40 == 7 {
						respDialCaseVia(ctx, 'C', cset, cliRT{hdr: h, items: []cliItem{it}}, inject)
					}
				}
			}
			// header counts that only a narrowing or unsigned comparison would take for 1, on a conforming answer
			for _, h := range []int32{257, -255, 65537, -65535, 1<<31 - 1, -(1 << 31), 3, 255} {
				for _, e := range []byte("dc") {
					respDialCaseVia(ctx, e, cset, cliRT{hdr: h, items: []cliItem{okItem}}, inject)
				}
			}
			for k := 0; k < ctx.N(100, 2000); k++ {
				respDialCaseVia(ctx, "ddc"[k%3], cset, cliRT{hdr: rng.Pick(r, hdrs), items: []cliItem{rng.Pick(r, items), rng.Pick(r, items)}}, inject)
			}
		}
	}
}

func init() {
	register(&Engine{
		Name: "nego",
		Rule: "every non-empty subset of {1.0..1.4} on the client x every subset on a real kmipserver.BatchExecutor (31 x 32, argument order shuffled, configuration also spelled with several WithKmipVersions calls and duplicates, server never configured, default client) x {not enforced, enforced} x connect entry point {DialContext; DialClusterContext with and without WithRetryTimeout (every pair in the thorough tier, a sample in the quick one)}; scripted servers over net.Pipe and in-process: DiscoverVersions answered with every subset in random order, with versions not offered and duplicates, empty, OperationNotSupported, other failures, wrong counts, missing / foreign / opaque payload, closed connection; client sets and answers with major versions other than 1 and negative components; after every successful Dial a fixed program: single request, batch of 3 with OnBatchErr, connection killed + request (reconnect), clone + request, Close + request, batch of 2 on the clone, clone of the clone with all connections killed, clone of the closed client — while the server would answer a renewed DiscoverVersions differently; observed: Version() and the header (version, count) of every request as decoded by the server; the BatchExecutor alone: SetSupportedProtocolVersions called 0..3 times, hand-built DiscoverVersions requests with header 1.0..1.4 / 2.0 / 0.9 and the empty, full, partial, duplicated, foreign lists, answer taken through the wire encoding; distinct = distinct line",
		Run:  runNego,
	})
	register(&Engine{
		Name: "resp",
		Run:  runResp,
		Rule: "abstract response shapes: header count in {0,1,2,-1} (plus, on conforming items, n+-256, n+-65536, n+-2^31, 2^31-1, -2^31, 3, 5, 255, 257) x item count in {0,1,2,3,5,6,7} x per item operation in {requested, other registered, unknown code, 0} x status in {Success, Failed, Pending, Undone, 7} x reason in {0, registered, unknown} x payload in {none, response type of the requested operation, of another operation, UnknownPayload, request type (in-process only)}; one-item shapes exhaustively, larger ones sampled (two-item shapes exhaustively for the two-operation batch in the thorough tier; batches of 6 conforming except at one or two random positions, every position covered); for Activate/Get/Destroy typed Exec, Request (registered and unregistered operation), Batch, Then-chain, BatchOpt, EVERY fluent builder of *kmipclient.Client found by reflection (in-process, one-item shapes exhaustively), the composite Signer/Sign helper (scripted 3-5 exchange servers: announced algorithm x key material kind x id mode, every exchange position x every non-conforming answer, attribute variations incl. values of foreign Go types in-process, caller options, signature lengths, random combinations) and the discovery exchange of Dial through both connect entry points (DialContext, DialClusterContext with and without WithRetryTimeout; header counts also 257, 65537, -255, -65535, 2^31-1, -2^31 on a conforming item); result messages with format verbs, quotes, line breaks, non-ASCII, 500 bytes; batches of 6 with 4-6 failed items each carrying its own message; Then-chains forked from a common prefix of 2..9 operations; clients enforcing 1.4, 1.0 and 1.2; each shape both sent over net.Pipe by a scripted server and fabricated by a client middleware; a server answering with a request message; the header of every request sent is checked (C13); registries swept 0..0x120; distinct = distinct line",
	})
}
