#!/usr/bin/env python3
"""Regenerates seeded/README.md (which checks catch which seeded changes) from seeded/*/meta.json."""
import glob, json, os
VERIF = os.path.dirname(os.path.dirname(os.path.abspath(__file__)))
rows = []
for m in sorted(glob.glob(os.path.join(VERIF, "seeded", "*", "meta.json"))):
    d = json.load(open(m))
    rows.append((os.path.basename(os.path.dirname(m)), d))
with open(os.path.join(VERIF, "seeded", "README.md"), "w") as f:
    f.write("# Seeded changes and what catches them\n\nEach directory holds `patch.diff` (a change to ovh/kmip-go that breaks the property, compiles and passes the\nrepository's test suite), the demonstration written by the seeding sub-agent (`*.go.txt`), and `meta.json` (what it breaks,\nwhat it needs to manifest, what I ran to confirm it, and the output of the property's check run against /repo + patch\nwith `bin/mutate.sh`). The sub-agents saw only the property text and a scratch worktree of /repo, nothing of /verif.\n\n")
    f.write("| id | property | change | needs | caught by check | tier | failing input reported | oracle / broken obligation |\n|---|---|---|---|---|---|---|---|\n")
    for name, d in rows:
        fv = d.get("first_violation")
        if isinstance(fv, dict):
            how = f"{fv.get('oracle','')} ({fv.get('key','')})"
        else:
            how = str(fv)[:80] if fv else ""
        f.write(f"| {name} | {d['property']} | {(d.get('title') or '')[:110]} | {(d.get('needs_to_manifest') or '')[:140]} | {'obsolete (no longer a violation on the repaired tree)' if d.get('obsolete_on_repaired_tree') else ('YES' if d.get('check_caught_it') else 'NO')} | {d.get('tier_needed')} | {'yes' if d.get('with_failing_input') else 'no'} | {how} |\n")
    obsolete = sum(1 for _, d in rows if d.get("obsolete_on_repaired_tree"))
    caught = sum(1 for _, d in rows if d.get("check_caught_it") and not d.get("obsolete_on_repaired_tree"))
    withinput = sum(1 for _, d in rows if d.get("with_failing_input") and not d.get("obsolete_on_repaired_tree"))
    f.write(f"\n{caught} of {len(rows) - obsolete} seeded changes that still break their property on the current tree are caught by the check of their property on the current tree ({withinput} with a concrete failing input, the others as a broken correspondence: `no-failing-input-found`); {obsolete} seeded change(s) no longer break the property since a later repair of the library (marked obsolete; caught when collected).\n")
    f.write("\nStrengthenings made because a seeded change was missed at first: see the notes in each meta.json (`history`) and DESIGN.md §0.5.\n")
print(len(rows), "seeded changes")
