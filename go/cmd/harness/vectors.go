package main

import (
	"bytes"
	"encoding/hex"
	"encoding/xml"
	"fmt"
	"math/big"
	"os"
	"path/filepath"
	"regexp"
	"sort"
	"strconv"
	"strings"
	"time"

	kmip "github.com/ovh/kmip-go"
	"github.com/ovh/kmip-go/ttlv"

	"verifharness/internal/report"
	"verifharness/internal/rng"
	"verifharness/internal/tree"
)

// The `vectors` engine: the OASIS conformance vectors shipped in /repo/kmiptest/testdata (and value /
// optional-element variations of them) are decoded by the library and encoded again as XML; an
// INDEPENDENT XML→tree converter (encoding/xml + the public registry lookups for names) reads both the
// vector's own element and the re-encoded one, and the two trees must be equal: every element and
// value reproduced, in the same order, nothing added, nothing dropped.

type xnode struct {
	Name     string
	Attrs    map[string]string
	Children []*xnode
}

func parseXMLNodes(b []byte) ([]*xnode, error) {
	d := xml.NewDecoder(bytes.NewReader(b))
	var stack []*xnode
	var roots []*xnode
	for {
		tok, err := d.Token()
		if err != nil {
			if err.Error() == "EOF" {
				break
			}
			return nil, err
		}
		switch t := tok.(type) {
		case xml.StartElement:
			n := &xnode{Name: t.Name.Local, Attrs: map[string]string{}}
			for _, a := range t.Attr {
				n.Attrs[a.Name.Local] = a.Value
			}
			if len(stack) == 0 {
				roots = append(roots, n)
			} else {
				p := stack[len(stack)-1]
				p.Children = append(p.Children, n)
			}
			stack = append(stack, n)
		case xml.EndElement:
			stack = stack[:len(stack)-1]
		}
	}
	return roots, nil
}

func (n *xnode) write(sb *strings.Builder) {
	sb.WriteString("<" + n.Name)
	keys := make([]string, 0, len(n.Attrs))
	for k := range n.Attrs {
		keys = append(keys, k)
	}
	sort.Strings(keys)
	for _, k := range keys {
		sb.WriteString(" " + k + `="`)
		xml.EscapeText(sb, []byte(n.Attrs[k]))
		sb.WriteString(`"`)
	}
	if len(n.Children) == 0 {
		sb.WriteString("/>")
		return
	}
	sb.WriteString(">")
	for _, c := range n.Children {
		c.write(sb)
	}
	sb.WriteString("</" + n.Name + ">")
}

func (n *xnode) String() string {
	var sb strings.Builder
	n.write(&sb)
	return sb.String()
}

// enum tag to use for names: the element's own tag, except for attribute values whose enumeration
// is determined by the attribute name (handled by the caller through enumCtx).
func parseNum(s string, bits int) (int64, error) {
	if strings.HasPrefix(s, "0x") {
		u, err := strconv.ParseUint(s[2:], 16, bits)
		return int64(u), err
	}
	return strconv.ParseInt(s, 10, bits)
}

// toTree converts an XML element into a generic TTLV tree, independently of the library's XML reader.
// enumTag: the enumeration/mask whose names apply to this element's value (0 = the element's own tag).
func (n *xnode) toTree(enumTag int) (*tree.Item, error) {
	var tag int
	if n.Name == "TTLV" {
		t, err := parseNum(n.Attrs["tag"], 32)
		if err != nil {
			return nil, fmt.Errorf("bad tag %q", n.Attrs["tag"])
		}
		tag = int(t)
	} else {
		found := false
		for t := 0x420001; t < 0x420200; t++ {
			if ttlv.TagString(t) == n.Name {
				tag, found = t, true
				break
			}
		}
		if !found {
			return nil, fmt.Errorf("unknown element name %q", n.Name)
		}
	}
	if enumTag == 0 {
		enumTag = tag
		if alias, ok := enumAlias()[tag]; ok {
			enumTag = alias
		}
	}
	it := &tree.Item{Tag: tag}
	val := n.Attrs["value"]
	switch n.Attrs["type"] {
	case "", "Structure":
		it.Kind = tree.KStruct
		// inside an Attribute, the value's enumeration is named by the AttributeName
		attrEnum := 0
		for _, c := range n.Children {
			ce := 0
			if c.Name == "AttributeName" {
				name := strings.ReplaceAll(c.Attrs["value"], " ", "")
				name = strings.ReplaceAll(name, ".", "_")
				name = strings.ReplaceAll(name, "#", "_")
				for t := 0x420001; t < 0x420200; t++ {
					if ttlv.TagString(t) == name {
						attrEnum = t
					}
				}
			}
			if c.Name == "AttributeValue" {
				ce = attrEnum
			}
			ci, err := c.toTree(ce)
			if err != nil {
				return nil, err
			}
			it.Children = append(it.Children, ci)
		}
	case "Integer":
		it.Kind = tree.KInt
		if v, err := parseNum(val, 32); err == nil {
			it.Int = int64(int32(v))
		} else {
			// bit mask written by names
			var m int32
			for _, p := range strings.FieldsFunc(val, func(r rune) bool { return r == ' ' || r == '|' }) {
				if strings.HasPrefix(p, "0x") {
					u, err := strconv.ParseUint(p[2:], 16, 32)
					if err != nil {
						return nil, err
					}
					m |= int32(uint32(u))
					continue
				}
				f, err := ttlv.BitmaskByStr(enumTag, p)
				if err != nil {
					return nil, fmt.Errorf("%s: %w", n.Name, err)
				}
				m |= f
			}
			it.Int = int64(m)
		}
	case "LongInteger":
		it.Kind = tree.KLong
		v, err := parseNum(val, 64)
		if err != nil {
			return nil, err
		}
		it.Int = v
	case "BigInteger":
		it.Kind = tree.KBig
		b, err := hex.DecodeString(val)
		if err != nil || len(b) == 0 {
			return nil, fmt.Errorf("bad big integer %q", val)
		}
		v := new(big.Int).SetBytes(b)
		if b[0]&0x80 != 0 {
			v.Sub(v, new(big.Int).Lsh(big.NewInt(1), uint(8*len(b))))
		}
		it.Big = v
	case "Enumeration":
		it.Kind = tree.KEnum
		if v, err := parseNum(val, 32); err == nil {
			it.Int = v
		} else {
			v, err := ttlv.EnumByName(enumTag, val)
			if err != nil {
				return nil, fmt.Errorf("%s: %w", n.Name, err)
			}
			it.Int = int64(v)
		}
	case "Boolean":
		it.Kind = tree.KBool
		it.Bool = val == "true"
	case "TextString":
		it.Kind, it.Data = tree.KText, []byte(val)
	case "ByteString":
		it.Kind = tree.KBytes
		b, err := hex.DecodeString(val)
		if err != nil {
			return nil, err
		}
		it.Data = b
	case "DateTime":
		it.Kind = tree.KDate
		t, err := time.Parse(time.RFC3339, val)
		if err != nil {
			return nil, err
		}
		it.Int = t.Unix()
	case "Interval":
		it.Kind = tree.KInterval
		v, err := parseNum(val, 32)
		if err != nil {
			return nil, err
		}
		it.Int = v
	default:
		return nil, fmt.Errorf("unknown type %q", n.Attrs["type"])
	}
	return it, nil
}

var enumAliasMap map[int]int

// enumAlias maps a field tag to the tag of the enumeration / bit mask TYPE stored in it when they differ
// (e.g. MaskGeneratorHashingAlgorithm holds a HashingAlgorithm), read from the reflected schema.
func enumAlias() map[int]int {
	if enumAliasMap != nil {
		return enumAliasMap
	}
	enumAliasMap = map[int]int{}
	for _, d := range getSchema().Structs {
		for _, f := range d.Fields {
			k := f.Kind
			for k.Elem != nil {
				k = *k.Elem
			}
			if (k.K == "enum" || k.K == "mask") && k.Tag != f.Tag && f.Tag != 0 {
				enumAliasMap[f.Tag] = k.Tag
			}
		}
	}
	return enumAliasMap
}

// supportedOps reports whether every batch item of the message names an operation with registered payloads.
func supportedOps(n *xnode) bool {
	ok := true
	reg := map[string]bool{}
	for _, op := range getSchema().Ops {
		reg[ttlv.EnumName(kmip.TagOperation, op.Op)] = true
	}
	var walk func(x *xnode)
	walk = func(x *xnode) {
		if x.Name == "Operation" && !reg[x.Attrs["value"]] {
			ok = false
		}
		for _, c := range x.Children {
			walk(c)
		}
	}
	walk(n)
	return ok
}

var (
	vecNowRe = regexp.MustCompile(`"\$NOW((\-|\+)\d+)?"`)
	vecVarRe = regexp.MustCompile(`"\$[A-Za-z0-9_]+"`)
)

func vectorCase(ctx *Ctx, file string, idx int, n *xnode, origin string) {
	line := fmt.Sprintf("#vector %s %d %s %s", file, idx, origin, hexUp([]byte(n.String())))
	ctx.current = line
	want, err := n.toTree(0)
	if err != nil {
		ctx.Res.Count("vector.unreadable:" + err.Error())
		return // the independent reader cannot interpret the vector (names unknown to the registry…): not judged here
	}
	doc := []byte(n.String())
	var msg any
	if n.Name == "RequestMessage" {
		msg = &kmip.RequestMessage{}
	} else {
		msg = &kmip.ResponseMessage{}
	}
	derr, p := guard("UnmarshalXML", func() error { return ttlv.UnmarshalXML(doc, msg) })
	key := fmt.Sprintf("vectors:%s#%d", file, idx)
	if origin != "original" {
		key = "vectors:variation"
	}
	outcome := "ok"
	switch {
	case p != "":
		outcome = "panic"
		ctx.Res.Violate(report.Violation{Property: "C02", Oracle: "no-panic", Key: "xml:decode-panic:" + panicKey(p), Detail: "decoder panicked on a conformance vector: " + p, Line: line})
	case derr != nil:
		outcome = "err"
		if origin == "original" && supportedOps(n) {
			ctx.Res.Violate(report.Violation{Property: "C04", Oracle: "vector-accepted", Key: key + ":rejected", Detail: "a conformance vector is rejected: " + derr.Error(), Line: line})
		}
	default:
		out, p := guard("MarshalXML", func() []byte { return ttlv.MarshalXML(msg) })
		if p != "" {
			ctx.Res.Violate(report.Violation{Property: "C04", Oracle: "vector-reencode", Key: key + ":encoder-panic", Detail: p, Line: line})
			break
		}
		nodes, err := parseXMLNodes(out)
		if err != nil || len(nodes) != 1 {
			ctx.Res.Violate(report.Violation{Property: "C04", Oracle: "well-formed", Key: key + ":not-well-formed", Detail: fmt.Sprint(err), Line: line})
			break
		}
		got, err := nodes[0].toTree(0)
		if err != nil {
			ctx.Res.Violate(report.Violation{Property: "C04", Oracle: "vector-reencode", Key: key + ":unreadable", Detail: err.Error(), Line: line})
			break
		}
		if !tree.Equal(want, got) {
			ctx.Res.Violate(report.Violation{Property: "C04", Oracle: "vector-reproduced", Key: key + ":differs", Detail: "re-encoding does not reproduce the vector: " + firstDiff(want.Render(), got.Render()), Line: line})
		}
		// and the binary of the decoded message carries the same tree
		bin, p := guard("MarshalTTLV", func() []byte { return ttlv.MarshalTTLV(msg) })
		if p == "" {
			if bt, err := tree.Decode(bin); err != nil || !tree.Equal(bt, want) {
				ctx.Res.Violate(report.Violation{Property: "C04", Oracle: "vector-binary", Key: key + ":binary-differs", Detail: "binary encoding of the decoded vector differs from the vector's tree", Line: line})
			}
		}
	}
	ctx.Add(line, outcome, true, "")
	ctx.Res.Count("vector." + origin + "." + outcome)
}

// vary produces value variations of a vector message. Zero values ("", 0, false) are not used: the
// library's data model identifies the zero value of an optional element with its absence.
func vary(r *rng.R, n *xnode) *xnode {
	var clone func(x *xnode) *xnode
	clone = func(x *xnode) *xnode {
		c := &xnode{Name: x.Name, Attrs: map[string]string{}}
		for k, v := range x.Attrs {
			c.Attrs[k] = v
		}
		for _, ch := range x.Children {
			c.Children = append(c.Children, clone(ch))
		}
		return c
	}
	c := clone(n)
	var all []*xnode
	var walk func(x *xnode)
	walk = func(x *xnode) {
		all = append(all, x)
		for _, ch := range x.Children {
			walk(ch)
		}
	}
	walk(c)
	// elements that determine the shape or the version gating of the message are left alone
	structural := map[string]bool{"ProtocolVersionMajor": true, "ProtocolVersionMinor": true, "AttributeName": true, "BatchCount": true}
	for k := 0; k < 2; k++ {
		x := rng.Pick(r, all)
		if structural[x.Name] {
			continue
		}
		switch x.Attrs["type"] {
		case "TextString":
			x.Attrs["value"] = rng.Pick(r, []string{"a", "x y", "<&>\"'", "é€漢😀", "0x10", "true"})
		case "Integer":
			if _, err := parseNum(x.Attrs["value"], 32); err == nil {
				x.Attrs["value"] = rng.Pick(r, []string{"-1", "2147483647", "-2147483648", "7"})
			}
		case "LongInteger":
			x.Attrs["value"] = rng.Pick(r, []string{"-1", "9223372036854775807", "4503599627370496"})
		case "ByteString":
			x.Attrs["value"] = rng.Pick(r, []string{"00", "FF00", "0123456789ABCDEF01"})
		case "Boolean":
			x.Attrs["value"] = "true"
		case "DateTime":
			x.Attrs["value"] = rng.Pick(r, []string{"1970-01-01T00:00:00Z", "2038-01-19T03:14:08+00:00", "0001-01-01T00:00:00Z", "9999-12-31T23:59:59Z", "2001-02-03T04:05:06-07:00"})
		case "Interval":
			x.Attrs["value"] = rng.Pick(r, []string{"1", "4294967295"})
		}
	}
	return c
}

func init() {
	register(&Engine{
		Name: "vectors",
		Rule: "every RequestMessage/ResponseMessage element of the OASIS conformance vector files under /repo/kmiptest/testdata (v1.0..v1.4), read by an independent XML reader, plus value variations (text, integers, byte strings, booleans, dates incl. time-zone forms, intervals) of each; decoded by the library, re-encoded to XML and to binary, and compared tree-for-tree with the vector; distinct = distinct message; nontrivial = all",
		Run:  runVectors,
	})
}

func runVectors(ctx *Ctx) {
	root := "/repo/kmiptest/testdata"
	if len(ctx.Replay) > 0 {
		for _, l := range ctx.Replay {
			f := strings.SplitN(l, " ", 5)
			if len(f) != 5 || f[0] != "#vector" {
				continue
			}
			b, err := hex.DecodeString(f[4])
			if err != nil {
				continue
			}
			nodes, err := parseXMLNodes(b)
			if err != nil || len(nodes) != 1 {
				continue
			}
			idx, _ := strconv.Atoi(f[2])
			vectorCase(ctx, f[1], idx, nodes[0], f[3])
		}
		return
	}
	files, _ := filepath.Glob(root + "/*/*.xml")
	sort.Strings(files)
	if len(files) == 0 {
		ctx.Res.Fail("no conformance vectors found under " + root)
		return
	}
	now := time.Unix(1700000000, 0).UTC()
	total := 0
	for _, f := range files {
		b, err := os.ReadFile(f)
		if err != nil {
			ctx.Res.Fail(err.Error())
			continue
		}
		b = vecNowRe.ReplaceAllFunc(b, func(m []byte) []byte {
			off, _ := strconv.ParseInt(strings.Trim(string(m[5:]), `"`), 10, 64)
			return []byte(`"` + now.Add(time.Duration(off)*time.Second).Format(time.RFC3339) + `"`)
		})
		b = vecVarRe.ReplaceAll(b, []byte(`"DEADBEEFCAFE"`))
		roots, err := parseXMLNodes(b)
		if err != nil || len(roots) != 1 {
			ctx.Res.Fail(fmt.Sprintf("%s: %v", f, err))
			continue
		}
		rel, _ := filepath.Rel(root, f)
		for i, m := range roots[0].Children {
			if m.Name != "RequestMessage" && m.Name != "ResponseMessage" {
				continue
			}
			total++
			vectorCase(ctx, rel, i, m, "original")
			nv := 1
			if ctx.Thor {
				nv = 6
			}
			if ctx.Thor || total%4 == 0 {
				for k := 0; k < nv; k++ {
					vectorCase(ctx, rel, i, vary(ctx.R, m), "variation")
				}
			}
		}
	}
	ctx.Res.Count(fmt.Sprintf("vector.files=%d", len(files)))
}
