package main

// Engines `batch` (C09) and `place` (C15): the real kmipserver.BatchExecutor driven in-process with
// scripted handlers. The request encoding is documented in /verif/lean/Driver/Batch.lean.

import (
	"bytes"
	"context"
	"encoding/binary"
	"errors"
	"fmt"
	"io"
	"log/slog"
	"reflect"
	"runtime"
	"strconv"
	"strings"
	"sync"
	"sync/atomic"

	"github.com/ovh/kmip-go"
	"github.com/ovh/kmip-go/kmipserver"
	"github.com/ovh/kmip-go/payloads"
	"github.com/ovh/kmip-go/ttlv"

	"verifharness/internal/report"
	"verifharness/internal/rng"
)

// ---------------------------------------------------------------------------------------------
// abstract requests and their encoding

type bAct struct {
	kind byte // 'r' read, 'c' clear, 's' set
	v    int
}

type bItem struct {
	op     uint32
	id     int  // -1 = absent
	ext    byte // 'n' none, 'o' non-critical, 'c' critical
	disc   bool // DiscoverVersionsRequestPayload instead of UnknownPayload
	pk     byte // payload kind when not disc: 0/'u' UnknownPayload, 'a' Activate, 'q' Query, 'g' Get request payloads (registered typed payloads)
	idb    []byte // when non-nil: the UniqueBatchItemID bytes (any length, any content); overrides id
	acts   []bAct
	out    string // "ok", "e", "x", "P", "p"
	reason uint32 // for "e" and "P"
}

type bReq struct {
	vers   []kmip.ProtocolVersion
	routes []uint32
	ver    kmip.ProtocolVersion
	opt    uint32
	count  int32
	items  []bItem
}

func verStr(v kmip.ProtocolVersion) string {
	return fmt.Sprintf("%d.%d", v.ProtocolVersionMajor, v.ProtocolVersionMinor)
}

// idBytes: the UniqueBatchItemID of the request item (nil = absent).
func (it *bItem) idBytes() []byte {
	if it.idb != nil {
		return it.idb
	}
	if it.id >= 0 {
		return binary.BigEndian.AppendUint32(nil, uint32(it.id))
	}
	return nil
}

func (it *bItem) encode() string {
	id := renderID(it.idBytes())
	kind := "u"
	if it.disc {
		kind = "d"
	} else if it.pk != 0 {
		kind = string(it.pk)
	}
	acts := "-"
	if len(it.acts) > 0 {
		p := make([]string, len(it.acts))
		for i, a := range it.acts {
			p[i] = string(a.kind)
			if a.kind == 's' {
				p[i] += strconv.Itoa(a.v)
			}
		}
		acts = strings.Join(p, ".")
	}
	out := it.out
	if out == "e" || out == "P" {
		out += strconv.FormatUint(uint64(it.reason), 10)
	}
	return fmt.Sprintf("%d:%s:%c:%s:%s:%s", it.op, id, it.ext, kind, acts, out)
}

func (r *bReq) configKey() string {
	vs, prefix := r.vers, ""
	if len(vs) == 0 { // executor left at its default: the line carries the set read off the real executor
		vs, prefix = liveDefaultVersions(), "="
	}
	vers := "-"
	if len(vs) > 0 {
		p := make([]string, len(vs))
		for i, v := range vs {
			p[i] = verStr(v)
		}
		vers = prefix + strings.Join(p, ",")
	}
	routes := "-"
	if len(r.routes) > 0 {
		p := make([]string, len(r.routes))
		for i, o := range r.routes {
			p[i] = strconv.FormatUint(uint64(o), 10)
		}
		routes = strings.Join(p, ",")
	}
	return vers + " " + routes
}

func (r *bReq) encode() string {
	items := "-"
	if len(r.items) > 0 {
		p := make([]string, len(r.items))
		for i := range r.items {
			p[i] = r.items[i].encode()
		}
		items = strings.Join(p, ",")
	}
	return fmt.Sprintf("%s %s %d %d %s", r.configKey(), verStr(r.ver), r.opt, r.count, items)
}

func parseVer(s string) (kmip.ProtocolVersion, error) {
	p := strings.Split(s, ".")
	if len(p) != 2 {
		return kmip.ProtocolVersion{}, errors.New("bad version")
	}
	a, e1 := strconv.ParseInt(p[0], 10, 32)
	b, e2 := strconv.ParseInt(p[1], 10, 32)
	if e1 != nil || e2 != nil {
		return kmip.ProtocolVersion{}, errors.New("bad version")
	}
	return kmip.ProtocolVersion{ProtocolVersionMajor: int32(a), ProtocolVersionMinor: int32(b)}, nil
}

func parseBReq(s string) (*bReq, error) {
	f := strings.Split(strings.TrimSpace(s), " ")
	if len(f) != 6 {
		return nil, errors.New("bad request: want 6 fields")
	}
	r := &bReq{}
	if f[0] != "-" && !strings.HasPrefix(f[0], "=") { // "=<list>": default configuration (the list is informative)
		for _, p := range strings.Split(f[0], ",") {
			v, err := parseVer(p)
			if err != nil {
				return nil, err
			}
			r.vers = append(r.vers, v)
		}
	}
	if f[1] != "-" {
		for _, p := range strings.Split(f[1], ",") {
			o, err := strconv.ParseUint(p, 10, 32)
			if err != nil {
				return nil, err
			}
			r.routes = append(r.routes, uint32(o))
		}
	}
	var err error
	if r.ver, err = parseVer(f[2]); err != nil {
		return nil, err
	}
	opt, err := strconv.ParseUint(f[3], 10, 32)
	if err != nil {
		return nil, err
	}
	r.opt = uint32(opt)
	cnt, err := strconv.ParseInt(f[4], 10, 32)
	if err != nil {
		return nil, err
	}
	r.count = int32(cnt)
	if f[5] != "-" {
		for _, p := range strings.Split(f[5], ",") {
			q := strings.Split(p, ":")
			if len(q) != 6 {
				return nil, errors.New("bad item")
			}
			it := bItem{id: -1}
			op, err := strconv.ParseUint(q[0], 10, 32)
			if err != nil {
				return nil, err
			}
			it.op = uint32(op)
			if strings.HasPrefix(q[1], "x") {
				if it.idb, err = hexDecodeString(q[1][1:]); err != nil {
					return nil, errors.New("bad id")
				}
				if it.idb == nil {
					it.idb = []byte{}
				}
			} else if q[1] != "-" {
				if it.id, err = strconv.Atoi(q[1]); err != nil || it.id < 0 {
					return nil, errors.New("bad id")
				}
			}
			if len(q[2]) != 1 || !strings.Contains("noc", q[2]) {
				return nil, errors.New("bad ext")
			}
			it.ext = q[2][0]
			switch q[3] {
			case "u":
			case "d":
				it.disc = true
			case "a", "q", "g":
				it.pk = q[3][0]
			default:
				return nil, errors.New("bad kind")
			}
			if q[4] != "-" {
				for _, a := range strings.Split(q[4], ".") {
					switch {
					case a == "r" || a == "c":
						it.acts = append(it.acts, bAct{kind: a[0]})
					case strings.HasPrefix(a, "s"):
						v, err := strconv.Atoi(a[1:])
						if err != nil || v < 0 {
							return nil, errors.New("bad act")
						}
						it.acts = append(it.acts, bAct{kind: 's', v: v})
					default:
						return nil, errors.New("bad act")
					}
				}
			}
			o := q[5]
			switch {
			case o == "ok" || o == "x" || o == "p":
				it.out = o
			case strings.HasPrefix(o, "e") || strings.HasPrefix(o, "P"):
				v, err := strconv.ParseUint(o[1:], 10, 32)
				if err != nil {
					return nil, err
				}
				it.out, it.reason = o[:1], uint32(v)
			default:
				return nil, errors.New("bad outcome")
			}
			r.items = append(r.items, it)
		}
	}
	return r, nil
}

// facts about a request the oracles need; computed from the input alone.

func (r *bReq) supported() bool {
	vs := r.vers
	if len(vs) == 0 {
		vs = liveDefaultVersions()
	}
	for _, v := range vs {
		if v == r.ver {
			return true
		}
	}
	return false
}

func (r *bReq) accepted() bool {
	return r.supported() && r.opt != uint32(kmip.BatchErrorContinuationOptionUndo) && int(r.count) == len(r.items)
}

func (r *bReq) routed(op uint32) bool {
	for _, o := range r.routes {
		if o == op {
			return true
		}
	}
	return false
}

// reachesHandler: nothing refuses the item before a registered handler is invoked.
func (r *bReq) reachesHandler(it *bItem) bool { return it.ext != 'c' && r.routed(it.op) }

// itemFails: processing the item (alone) yields a failure.
func (r *bReq) itemFails(it *bItem) bool {
	if it.ext == 'c' {
		return true
	}
	if !r.routed(it.op) {
		return !it.disc // an unrouted DiscoverVersions payload is answered by the library itself
	}
	return it.out != "ok"
}

// ---------------------------------------------------------------------------------------------
// running a request on the real executor

type obsEv struct{ idx, val int }

// reqState is attached to the context given to HandleRequest; the scripted handlers find their
// script, the logs, and the scheduling discipline there.
type reqState struct {
	req   *bReq
	mu    sync.Mutex
	calls []int
	obs   []obsEv
	sync  func()          // called before every placeholder access of a handler
	ctx   context.Context // the batch context the handlers were given (last invocation)
	bad   string          // harness-level inconsistency (never expected)
	// C15: a disagreement between IdPlaceholder and GetIdOrPlaceholder seen by a handler
	accessor string
}

type connKey struct{}

// The context given to HandleRequest is the connection's, exactly as kmipserver's connection loop
// does it (the same object for every request of a connection), so the handlers cannot find their
// request through it: every payload carries the item index and the serial number of its request.
var (
	reqSerial   atomic.Int32
	reqRegistry sync.Map // serial -> *reqState
)

func phString(v int) string {
	if v == 0 {
		return ""
	}
	return "id-" + strconv.Itoa(v)
}

func phValue(s string) int {
	if s == "" {
		return 0
	}
	if strings.HasPrefix(s, "id-") {
		if v, err := strconv.Atoi(s[3:]); err == nil && v > 0 {
			return v
		}
	}
	return -1
}

type stringerVal struct{ s string }

func (s stringerVal) String() string { return s.s }

// outcomes whose rendering (Error / String / Unwrap: user code run by the library while it turns the outcome into a
// response item) panics. Since 06bba78 executeItemWithMiddleware has a last-resort recovery for them.
type bValueRecvErr struct{ msg string }

func (e bValueRecvErr) Error() string { return e.msg }

type bBadErr struct{}

func (bBadErr) Error() string { panic("scripted: Error() panics") }

type bBadUnwrap struct{}

func (bBadUnwrap) Error() string { return "scripted error with a panicking Unwrap" }
func (bBadUnwrap) Unwrap() error { panic("scripted: Unwrap() panics") }

type bBadStringer struct{ p *string }

func (s bBadStringer) String() string { return *s.p }

// the variant of a scripted outcome is a function of the position of the item, the length of the batch and the
// scripted reason (so that the protocol line determines it)
func (r *bReq) variantOf(idx int) int { return idx + len(r.items) + int(r.items[idx].reason) }

func bPanicVariant(variant int) int { return variant % 8 }

// poisonPanic: item idx panics with a value whose rendering panics again: the second panic is raised inside the
// deferred recovery of executeItem and unwinds through every batch-item middleware (none of them can mask it) up
// to the last-resort recovery of executeItemWithMiddleware.
func (r *bReq) poisonPanic(idx int) bool {
	return r.items[idx].out == "p" && bPanicVariant(r.variantOf(idx)) >= 5
}

type scriptHandler struct{}

// payloadReg maps the payload pointers of the requests in flight to (request state, item index): a handler is
// given the very payload of its request item, so no content needs to be interpreted (and the library is free to
// validate payload contents). Fallback: (item index, request serial) carried by the payload contents.
var payloadReg sync.Map // kmip.OperationPayload (pointer) -> payloadRef

type payloadRef struct {
	st  *reqState
	idx int
}

func payloadIndex(pl kmip.OperationPayload) (int, int32) {
	switch p := pl.(type) {
	case *payloads.ActivateRequestPayload:
		return parseIdxSerial(p.UniqueIdentifier)
	case *payloads.GetRequestPayload:
		return parseIdxSerial(p.UniqueIdentifier)
	case *payloads.QueryRequestPayload:
		if len(p.QueryFunction) == 2 {
			return int(p.QueryFunction[0]) - 1000, int32(p.QueryFunction[1])
		}
	case *kmip.UnknownPayload:
		if len(p.Fields) == 2 {
			i, ok1 := p.Fields[0].Value.(int32)
			s, ok2 := p.Fields[1].Value.(int32)
			if ok1 && ok2 {
				return int(i), s
			}
		}
	}
	return -1, -1
}

// lookupPayload: pointer payloads only (anything else is not hashable in general and cannot be one of ours).
func lookupPayload(pl kmip.OperationPayload) (payloadRef, bool) {
	if pl == nil || reflect.ValueOf(pl).Kind() != reflect.Pointer {
		return payloadRef{}, false
	}
	if ref, ok := payloadReg.Load(pl); ok {
		return ref.(payloadRef), true
	}
	return payloadRef{}, false
}

func parseIdxSerial(s string) (int, int32) {
	var i, ser int
	if _, err := fmt.Sscanf(s, "item-%d-of-%d", &i, &ser); err == nil {
		return i, int32(ser)
	}
	return -1, -1
}

func (scriptHandler) HandleOperation(ctx context.Context, pl kmip.OperationPayload) (kmip.OperationPayload, error) {
	if ref, ok := lookupPayload(pl); ok {
		return scriptRunSt(ctx, ref.st, ref.idx)
	}
	idx, serial := payloadIndex(pl)
	return scriptRun(ctx, idx, serial)
}

// scriptRun plays the script of item idx of the request registered under serial.
func scriptRun(ctx context.Context, idx int, serial int32) (kmip.OperationPayload, error) {
	v, _ := reqRegistry.Load(serial)
	st, _ := v.(*reqState)
	return scriptRunSt(ctx, st, idx)
}

func scriptRunSt(ctx context.Context, st *reqState, idx int) (kmip.OperationPayload, error) {
	if st == nil {
		panic("harness: handler invoked with a payload of no known request")
	}
	st.mu.Lock()
	st.calls = append(st.calls, idx)
	st.mu.Unlock()
	if idx < 0 || idx >= len(st.req.items) {
		st.bad = "handler received a payload that is not one of the request's"
		return nil, errors.New("harness: unknown payload")
	}
	it := &st.req.items[idx]
	st.ctx = ctx
	for _, a := range it.acts {
		if st.sync != nil {
			st.sync()
		}
		switch a.kind {
		case 'r':
			raw := kmipserver.IdPlaceholder(ctx)
			v := phValue(raw)
			st.mu.Lock()
			st.obs = append(st.obs, obsEv{idx, v})
			// the accessor handlers actually use must agree with the one observed (C15 anchor
			// GetIdOrPlaceholder): explicit id first, then this context's placeholder, else an error
			if got, err := kmipserver.GetIdOrPlaceholder(ctx, ""); got != raw || (err != nil) != (raw == "") {
				st.accessor = fmt.Sprintf("GetIdOrPlaceholder(ctx, \"\") = (%q, %v) while IdPlaceholder(ctx) = %q", got, err, raw)
			}
			if got, err := kmipserver.GetIdOrPlaceholder(ctx, "explicit-7"); got != "explicit-7" || err != nil {
				st.accessor = fmt.Sprintf("GetIdOrPlaceholder(ctx, \"explicit-7\") = (%q, %v) with placeholder %q", got, err, raw)
			}
			st.mu.Unlock()
		case 's':
			kmipserver.SetIdPlaceholder(ctx, phString(a.v))
		case 'c':
			kmipserver.ClearIdPlaceholder(ctx)
		}
	}
	variant := st.req.variantOf(idx)
	switch it.out {
	case "ok":
		if variant%2 == 0 {
			return nil, nil
		}
		return kmip.NewUnknownPayload(kmip.Operation(it.op)), nil
	case "e":
		e := kmipserver.Error{Reason: kmip.ResultReason(it.reason), Message: "scripted"}
		switch variant % 3 {
		case 0:
			return nil, e
		case 1:
			return nil, fmt.Errorf("wrapped: %w", e)
		default:
			return kmip.NewUnknownPayload(kmip.Operation(it.op)), errors.Join(errors.New("other"), e)
		}
	case "x":
		switch variant % 6 {
		case 0:
			return nil, errors.New("plain")
		case 1:
			return nil, fmt.Errorf("wrapped: %w", io.ErrUnexpectedEOF)
		case 2:
			// a *kmipserver.Error is not a kmipserver.Error for errors.As
			return nil, &kmipserver.Error{Reason: kmip.ResultReasonItemNotFound}
		// errors whose RENDERING panics (user code run by handleBatchItemError: Error, Unwrap): the item must
		// still come out failed, echoing operation and id, with the placeholder cleared
		case 3:
			var e *bValueRecvErr // the classic typed nil returned as an error: its value-receiver Error method panics
			return nil, e
		case 4:
			return nil, bBadErr{}
		default:
			return kmip.NewUnknownPayload(kmip.Operation(it.op)), bBadUnwrap{}
		}
	case "P":
		e := kmipserver.Error{Reason: kmip.ResultReason(it.reason), Message: "scripted panic"}
		if variant%2 == 0 {
			panic(e)
		}
		panic(fmt.Errorf("wrapped: %w", e))
	case "p":
		switch bPanicVariant(variant) {
		case 0:
			panic("scripted panic")
		case 1:
			panic(stringerVal{"scripted"})
		case 2:
			panic(42)
		case 3:
			panic(errors.New("scripted"))
		case 4:
			var m map[string]int
			m["x"] = 1 // runtime error
		// panic values whose rendering panics again, inside the recovery of executeItem (see bPoisonPanic)
		case 5:
			panic(bBadErr{})
		case 6:
			panic(bBadStringer{})
		default:
			panic(bBadUnwrap{})
		}
	}
	st.bad = "unknown scripted outcome"
	return nil, nil
}

// executors are cached per configuration (they are immutable once built); the `place` engine
// relies on several requests sharing one.
var (
	execMu    sync.Mutex
	execCache = map[string]*kmipserver.BatchExecutor{}
)

func executorFor(r *bReq) *kmipserver.BatchExecutor {
	execMu.Lock()
	defer execMu.Unlock()
	k := r.configKey()
	if e, ok := execCache[k]; ok {
		return e
	}
	e := kmipserver.NewBatchExecutor()
	if len(r.vers) > 0 {
		e.SetSupportedProtocolVersions(r.vers...)
	}
	for _, op := range r.routes {
		e.Route(kmip.Operation(op), scriptHandler{})
	}
	if len(execCache) > 4096 {
		execCache = map[string]*kmipserver.BatchExecutor{}
	}
	execCache[k] = e
	return e
}

func (r *bReq) message(serial int32) *kmip.RequestMessage {
	msg := &kmip.RequestMessage{
		Header: kmip.RequestHeader{
			ProtocolVersion:              r.ver,
			BatchErrorContinuationOption: kmip.BatchErrorContinuationOption(r.opt),
			BatchCount:                   r.count,
		},
	}
	for i := range r.items {
		it := &r.items[i]
		bi := kmip.RequestBatchItem{Operation: kmip.Operation(it.op)}
		if b := it.idBytes(); b != nil {
			bi.UniqueBatchItemID = append([]byte{}, b...)
		}
		switch {
		case it.disc:
			// a plausible request (the library is free to validate it): the first 0..2 versions of the live default
			// set. The handler of a routed DiscoverVersions finds its item through the payload pointer (payloadReg).
			d := liveDefaultVersions()
			bi.RequestPayload = &payloads.DiscoverVersionsRequestPayload{ProtocolVersion: append([]kmip.ProtocolVersion{}, d[:min(i%3, len(d))]...)}
		case it.pk == 'a':
			bi.RequestPayload = &payloads.ActivateRequestPayload{UniqueIdentifier: fmt.Sprintf("item-%d-of-%d", i, serial)}
		case it.pk == 'g':
			bi.RequestPayload = &payloads.GetRequestPayload{UniqueIdentifier: fmt.Sprintf("item-%d-of-%d", i, serial)}
		case it.pk == 'q':
			bi.RequestPayload = &payloads.QueryRequestPayload{QueryFunction: []kmip.QueryFunction{kmip.QueryFunction(1000 + i), kmip.QueryFunction(serial)}}
		default:
			bi.RequestPayload = kmip.NewUnknownPayload(kmip.Operation(it.op),
				ttlv.Value{Tag: kmip.TagBatchCount, Value: int32(i)}, ttlv.Value{Tag: kmip.TagBatchCount, Value: serial})
		}
		switch it.ext {
		case 'o':
			bi.MessageExtension = &kmip.MessageExtension{VendorIdentification: "verif"}
		case 'c':
			bi.MessageExtension = &kmip.MessageExtension{VendorIdentification: "verif", CriticalityIndicator: true}
		}
		msg.BatchItem = append(msg.BatchItem, bi)
	}
	return msg
}

// runReal executes the request on the real executor. parent = the "connection" context.
func runReal(parent context.Context, r *bReq, sync func()) (*kmip.ResponseMessage, *reqState, string) {
	st := &reqState{req: r, sync: sync}
	serial := reqSerial.Add(1)
	reqRegistry.Store(serial, st)
	defer reqRegistry.Delete(serial)
	exec := executorFor(r)
	msg := r.message(serial)
	for i := range msg.BatchItem {
		pl := msg.BatchItem[i].RequestPayload
		payloadReg.Store(pl, payloadRef{st, i})
		defer payloadReg.Delete(pl)
	}
	resp, p := guard("HandleRequest", func() *kmip.ResponseMessage { return exec.HandleRequest(parent, msg) })
	return resp, st, p
}

// liveDefaultVersions: the protocol versions an executor supports when nothing is configured, read off the real
// code: a fresh executor answers an unrouted DiscoverVersions request with an empty version list with its whole
// supported set (handleDiscover). The request itself must carry a supported version: candidates are tried.
var (
	liveDefaultOnce sync.Once
	liveDefault     []kmip.ProtocolVersion
)

func liveDefaultVersions() []kmip.ProtocolVersion {
	liveDefaultOnce.Do(func() {
		exec := kmipserver.NewBatchExecutor()
		for major := int32(0); major <= 9 && liveDefault == nil; major++ {
			for minor := int32(0); minor <= 9 && liveDefault == nil; minor++ {
				msg := &kmip.RequestMessage{
					Header: kmip.RequestHeader{ProtocolVersion: kmip.ProtocolVersion{ProtocolVersionMajor: major, ProtocolVersionMinor: minor}, BatchCount: 1},
					BatchItem: []kmip.RequestBatchItem{{Operation: kmip.OperationDiscoverVersions, RequestPayload: &payloads.DiscoverVersionsRequestPayload{}}},
				}
				resp, p := guard("HandleRequest", func() *kmip.ResponseMessage { return exec.HandleRequest(context.Background(), msg) })
				if p != "" || resp == nil || len(resp.BatchItem) != 1 || resp.BatchItem[0].ResultStatus != kmip.ResultStatusSuccess {
					continue
				}
				switch pl := resp.BatchItem[0].ResponsePayload.(type) {
				case *payloads.DiscoverVersionsRequestPayload:
					liveDefault = append([]kmip.ProtocolVersion{}, pl.ProtocolVersion...)
				case *payloads.DiscoverVersionsResponsePayload:
					liveDefault = append([]kmip.ProtocolVersion{}, pl.ProtocolVersion...)
				}
			}
		}
	})
	return liveDefault
}

// unsupportedByDefault: a version outside the live default set (beyond its largest major).
func unsupportedByDefault(k int) kmip.ProtocolVersion {
	major := int32(1)
	for _, v := range liveDefaultVersions() {
		if v.ProtocolVersionMajor >= major {
			major = v.ProtocolVersionMajor + 1
		}
	}
	return kmip.ProtocolVersion{ProtocolVersionMajor: major, ProtocolVersionMinor: int32(k % 2)}
}

func renderID(b []byte) string {
	switch {
	case len(b) == 0:
		return "-"
	case len(b) == 4:
		return strconv.FormatUint(uint64(binary.BigEndian.Uint32(b)), 10)
	}
	return "x" + hexUp(b)
}

func renderObs(obs []obsEv) string {
	if len(obs) == 0 {
		return "-"
	}
	p := make([]string, len(obs))
	for i, o := range obs {
		p[i] = fmt.Sprintf("%d:%d", o.idx, o.val)
	}
	return strings.Join(p, ".")
}

func renderVals(obs []obsEv) string {
	if len(obs) == 0 {
		return "-"
	}
	p := make([]string, len(obs))
	for i, o := range obs {
		p[i] = strconv.Itoa(o.val)
	}
	return strings.Join(p, ".")
}

func renderResp(resp *kmip.ResponseMessage, st *reqState) string {
	if resp == nil {
		return "ok nil-response"
	}
	items := "-"
	if len(resp.BatchItem) > 0 {
		p := make([]string, len(resp.BatchItem))
		for i, bi := range resp.BatchItem {
			status := "S"
			switch bi.ResultStatus {
			case kmip.ResultStatusSuccess:
			case kmip.ResultStatusOperationFailed:
				status = "F" // the result reason is not rendered: C09 does not speak about it
			default:
				status = "?" + strconv.FormatUint(uint64(bi.ResultStatus), 10)
			}
			p[i] = fmt.Sprintf("%d:%s:%s", uint32(bi.Operation), renderID(bi.UniqueBatchItemID), status)
		}
		items = strings.Join(p, ",")
	}
	calls := "-"
	if len(st.calls) > 0 {
		p := make([]string, len(st.calls))
		for i, c := range st.calls {
			p[i] = strconv.Itoa(c)
		}
		calls = strings.Join(p, ".")
	}
	return fmt.Sprintf("ok %s %d %s calls=%s obs=%s", verStr(resp.Header.ProtocolVersion), resp.Header.BatchCount, items, calls, renderObs(st.obs))
}

// ---------------------------------------------------------------------------------------------
// C09 oracle: the property statements on the real response and the real call log

func c09Oracle(ctx *Ctx, line string, r *bReq, resp *kmip.ResponseMessage, st *reqState) {
	viol := func(oracle, key, detail string) {
		ctx.Res.Violate(report.Violation{Property: "C09", Oracle: oracle, Key: "batch:" + key, Detail: detail, Line: line})
	}
	if resp == nil {
		viol("response", "nil-response", "HandleRequest returned nil")
		return
	}
	n := len(r.items)
	failed := func(i int) bool { return resp.BatchItem[i].ResultStatus != kmip.ResultStatusSuccess }
	if !r.accepted() {
		// Undo / unsupported version / count mismatch: one failed item, nothing executed
		if len(resp.BatchItem) != 1 {
			viol("rejected", "rejected-item-count", fmt.Sprintf("rejected request answered with %d items", len(resp.BatchItem)))
		} else if resp.BatchItem[0].ResultStatus != kmip.ResultStatusOperationFailed {
			viol("rejected", "rejected-not-failed", fmt.Sprintf("rejected request answered with status %d", resp.BatchItem[0].ResultStatus))
		}
		if len(st.calls) != 0 {
			viol("rejected", "rejected-but-executed", fmt.Sprintf("handlers %v ran although the request must be rejected", st.calls))
		}
		if int(resp.Header.BatchCount) != len(resp.BatchItem) {
			viol("count", "rejected-batch-count", fmt.Sprintf("BatchCount %d with %d items", resp.Header.BatchCount, len(resp.BatchItem)))
		}
		want := r.ver
		if want == (kmip.ProtocolVersion{}) {
			want = kmip.V1_0
		}
		if resp.Header.ProtocolVersion != want {
			viol("version", "rejected-version", fmt.Sprintf("response version %s for request version %s", verStr(resp.Header.ProtocolVersion), verStr(r.ver)))
		}
		return
	}
	// one item per request item, same order, echo of operation and id
	if len(resp.BatchItem) != n {
		viol("one-per-item", "item-count", fmt.Sprintf("%d response items for %d request items", len(resp.BatchItem), n))
		return
	}
	msg := r.message(0)
	for i := range r.items {
		if resp.BatchItem[i].Operation != msg.BatchItem[i].Operation {
			viol("echo", "operation-not-echoed", fmt.Sprintf("item %d: operation %d answered with %d", i, msg.BatchItem[i].Operation, resp.BatchItem[i].Operation))
		}
		if !bytes.Equal(resp.BatchItem[i].UniqueBatchItemID, msg.BatchItem[i].UniqueBatchItemID) {
			viol("echo", "id-not-echoed", fmt.Sprintf("item %d: id %x answered with %x", i, msg.BatchItem[i].UniqueBatchItemID, resp.BatchItem[i].UniqueBatchItemID))
		}
	}
	if int(resp.Header.BatchCount) != n {
		viol("count", "batch-count", fmt.Sprintf("BatchCount %d for %d items", resp.Header.BatchCount, n))
	}
	if resp.Header.ProtocolVersion != r.ver {
		viol("version", "version", fmt.Sprintf("response version %s for request version %s", verStr(resp.Header.ProtocolVersion), verStr(r.ver)))
	}
	// at most once, in order
	for k, c := range st.calls {
		if c < 0 || c >= n {
			viol("order", "call-out-of-range", fmt.Sprintf("handler invoked for item %d of %d", c, n))
			return
		}
		if k > 0 && c <= st.calls[k-1] {
			viol("order", "call-order", fmt.Sprintf("handler invocations %v are not strictly increasing", st.calls))
			return
		}
	}
	called := make([]bool, n)
	for _, c := range st.calls {
		called[c] = true
	}
	// a refused item never reaches a handler; an executed item reports its handler's outcome
	for i := range r.items {
		it := &r.items[i]
		if called[i] && !r.reachesHandler(it) {
			viol("refusal", "refused-but-executed", fmt.Sprintf("item %d must be refused before dispatch but its handler ran", i))
		}
		if called[i] && failed(i) != (it.out != "ok") {
			viol("status", "status-not-outcome", fmt.Sprintf("item %d: handler outcome %q reported with status %d", i, it.out, resp.BatchItem[i].ResultStatus))
		}
	}
	first := -1
	for i := 0; i < n; i++ {
		if failed(i) {
			first = i
			break
		}
	}
	limit := n // items below limit must have been processed
	if r.opt == uint32(kmip.BatchErrorContinuationOptionStop) && first >= 0 {
		limit = first + 1
		for _, c := range st.calls {
			if c > first {
				viol("stop", "executed-after-stop", fmt.Sprintf("item %d executed after item %d failed under Stop", c, first))
			}
		}
		for j := first + 1; j < n; j++ {
			if !failed(j) {
				viol("stop", "success-after-stop", fmt.Sprintf("item %d reported successful after item %d failed under Stop", j, first))
			}
		}
	}
	for i := 0; i < limit; i++ {
		it := &r.items[i]
		if r.reachesHandler(it) && !called[i] {
			viol("continue", "not-executed", fmt.Sprintf("item %d was not executed (option %d, first failure %d)", i, r.opt, first))
		}
		if !called[i] && failed(i) != r.itemFails(it) {
			viol("status", "status-not-outcome", fmt.Sprintf("item %d (not dispatched) reported with status %d", i, resp.BatchItem[i].ResultStatus))
		}
	}
}

func batchCase(ctx *Ctx, r *bReq, origin string) {
	line := "batch.exec " + r.encode()
	ctx.current = line
	resp, st, p := runReal(context.Background(), r, nil)
	var impl string
	if p != "" {
		impl = "panic " + panicKey(p)
		ctx.Res.Violate(report.Violation{Property: "C09", Oracle: "no-panic", Key: "batch:panic " + panicKey(p), Detail: "HandleRequest panicked: " + p, Line: line})
	} else {
		if st.bad != "" {
			ctx.Res.Fail(st.bad + ": " + line)
		}
		impl = renderResp(resp, st)
		c09Oracle(ctx, line, r, resp, st)
	}
	ctx.Add(line, impl, len(r.items) > 1, "C09")
	// C15 is concerned with what the handlers read only: a line of its own, so that a change of result
	// reasons, versions or counts (C09's business) is not reported against C15
	obs := "ok obs=" + renderObs(st.obs)
	if p != "" {
		obs = "panic " + panicKey(p)
	}
	ctx.Add("place.obs "+r.encode(), obs, len(st.obs) > 0, "C15")
	if origin != "" {
		ctx.Res.Count("batch." + origin)
		ctx.Res.Count(fmt.Sprintf("batch.len=%d", min(len(r.items), 8)))
		ctx.Res.Count(fmt.Sprintf("batch.opt=%d", min(r.opt, 4)))
		if !r.accepted() {
			ctx.Res.Count("batch.rejected")
		}
		for i := range r.items {
			if b := r.items[i].idBytes(); len(b) != 0 && len(b) != 4 {
				ctx.Res.Count("batch.id=other-length")
			}
			if r.items[i].pk != 0 {
				ctx.Res.Count("batch.kind=typed")
			}
		}
	}
}

// the outcome alphabet of the exhaustive enumeration
const (
	oSuccess = iota
	oTyped
	oPlain
	oPanic
	oUnrouted
	oCritical
	nOutcomes
)

const unroutedOp = 0x21

func alphabetItem(i, o int, ids bool) bItem {
	it := bItem{op: uint32(1 + i%3), id: -1, ext: 'n', out: "ok"}
	if ids {
		it.id = 100 + i
	}
	switch o {
	case oTyped:
		it.out, it.reason = "e", uint32(1+i) // ItemNotFound, ResponseTooLarge, …
	case oPlain:
		it.out = "x"
	case oPanic:
		if i%2 == 0 {
			it.out = "p"
		} else {
			it.out, it.reason = "P", 12
		}
	case oUnrouted:
		it.op = unroutedOp
	case oCritical:
		it.ext = 'c'
	}
	return it
}

func exhaustBatches(ctx *Ctx, n int, full bool) {
	outs := make([]int, n)
	for {
		for opt := uint32(0); opt <= 3; opt++ {
			for _, verOK := range []bool{true, false} {
				for _, cntOK := range []bool{true, false} {
					for _, ids := range []bool{true, false} {
						if !full && !(verOK && cntOK && ids && (opt == 0 || opt == 2)) {
							continue
						}
						r := &bReq{routes: []uint32{1, 2, 3}, ver: kmip.V1_4, opt: opt, count: int32(n)}
						if !verOK {
							r.ver = unsupportedByDefault(n)
						}
						if !cntOK {
							r.count = int32(n + 1 - 2*(n%2)*min(n, 1)) // n+1, or n-1 for odd n
						}
						for i, o := range outs {
							r.items = append(r.items, alphabetItem(i, o, ids))
						}
						batchCase(ctx, r, "exhaustive")
					}
				}
			}
		}
		// next word
		k := n - 1
		for k >= 0 {
			outs[k]++
			if outs[k] < nOutcomes {
				break
			}
			outs[k] = 0
			k--
		}
		if k < 0 {
			return
		}
	}
}

var someVersions = []kmip.ProtocolVersion{kmip.V1_0, kmip.V1_1, kmip.V1_2, kmip.V1_3, kmip.V1_4,
	{ProtocolVersionMajor: 2, ProtocolVersionMinor: 0}, {ProtocolVersionMajor: 1, ProtocolVersionMinor: 5},
	{}, {ProtocolVersionMajor: -1, ProtocolVersionMinor: 4}, {ProtocolVersionMajor: 0, ProtocolVersionMinor: 4}}

func randomActs(r *rng.R, base int) []bAct {
	var acts []bAct
	for k := r.Intn(4); k > 0; k-- {
		switch r.Intn(5) {
		case 0, 1:
			acts = append(acts, bAct{kind: 'r'})
		case 2, 3:
			acts = append(acts, bAct{kind: 's', v: base + r.Intn(9)})
		default:
			if r.Chance(1, 4) {
				acts = append(acts, bAct{kind: 's', v: 0})
			} else {
				acts = append(acts, bAct{kind: 'c'})
			}
		}
	}
	return acts
}

// randomReq: a structured random request; mostly accepted, failures sparse enough for long runs.
func randomReq(r *rng.R, n int, base int) *bReq {
	q := &bReq{ver: kmip.V1_4, count: int32(n)}
	ops := []uint32{1, 2, 3, 10, uint32(kmip.OperationDiscoverVersions), unroutedOp, 0}
	for _, o := range ops {
		if o != unroutedOp && r.Chance(5, 6) {
			q.routes = append(q.routes, o)
		}
	}
	if r.Chance(1, 5) { // restricted version set
		for _, v := range someVersions[:5] {
			if r.Chance(1, 2) {
				q.vers = append(q.vers, v)
			}
		}
		if r.Chance(1, 6) {
			q.vers = append(append([]kmip.ProtocolVersion{{}}, q.vers...), q.vers...)
		}
	}
	switch r.Intn(8) {
	case 0:
		q.ver = rng.Pick(r, someVersions)
	case 1:
		q.ver = rng.Pick(r, someVersions[:5])
	}
	q.opt = rng.Pick(r, []uint32{0, 0, 1, 2, 2, 2, 3, 4, 7, 0xFFFFFFFF})
	if r.Chance(1, 3) {
		q.opt = 2
	}
	if r.Chance(1, 10) {
		q.count = rng.Pick(r, []int32{0, -1, int32(n) + 1, int32(n) - 1, 1, int32(n) * 2, 1 << 30})
	}
	failRate := 2 + r.Intn(4) // out of 10
	for i := 0; i < n; i++ {
		it := bItem{op: rng.Pick(r, ops), id: -1, ext: 'n', out: "ok"}
		if r.Chance(2, 3) {
			switch r.Intn(4) {
			case 0, 1:
				it.id = r.Intn(1 << 16)
			case 2: // any length 0…64 (0 = present but empty: the same as absent on the wire), any bytes
				it.idb = r.Bytes(rng.Pick(r, []int{0, 1, 2, 3, 4, 5, 7, 8, 9, 15, 16, 17, 31, 32, 33, 63, 64, r.Intn(65)}))
			default: // leading/trailing zero bytes, non-ASCII, text
				it.idb = rng.Pick(r, [][]byte{{0}, {0, 0, 0, 0}, {0, 0, 0, 1}, {1, 0, 0, 0, 0}, {0xff, 0xfe}, []byte("item-é-ü-€"), []byte("0"), []byte(" 7 "), {0x80}, {0, 0, 0, 0, 0, 0, 0, 7}})
			}
		}
		if !it.disc && r.Chance(1, 3) {
			it.pk = rng.Pick(r, []byte{'a', 'q', 'g'})
		}
		switch r.Intn(12) {
		case 0:
			it.ext = 'c'
		case 1, 2:
			it.ext = 'o'
		}
		if it.op == uint32(kmip.OperationDiscoverVersions) && r.Chance(3, 4) || r.Chance(1, 12) {
			it.disc, it.pk = true, 0
		}
		if r.Intn(10) < failRate {
			switch r.Intn(4) {
			case 0:
				it.out, it.reason = "e", rng.Pick(r, []uint32{0, 1, 4, 5, 8, 9, 12, 0x100, 77})
			case 1:
				it.out = "x"
			case 2:
				it.out, it.reason = "P", rng.Pick(r, []uint32{1, 9, 12})
			default:
				it.out = "p"
			}
		}
		it.acts = randomActs(r, base)
		q.items = append(q.items, it)
	}
	return q
}

func replayRequests(ctx *Ctx, cmd string, f func(arg string)) bool {
	if len(ctx.Replay) == 0 {
		return false
	}
	for _, l := range ctx.Replay {
		if strings.HasPrefix(l, cmd+" ") {
			f(strings.TrimPrefix(l, cmd+" "))
		}
	}
	return true
}

func quietSlog() {
	slog.SetDefault(slog.New(slog.NewTextHandler(io.Discard, nil)))
}

func runBatch(ctx *Ctx) {
	quietSlog()
	if replayRequests(ctx, "batch.exec", func(arg string) {
		r, err := parseBReq(arg)
		if err != nil {
			ctx.Res.Fail("replay: " + err.Error() + ": " + arg)
			return
		}
		batchCase(ctx, r, "")
	}) {
		replayBatchExtras(ctx)
		return
	}
	// exhaustive: every word over the outcome alphabet x option x version ok x count ok x ids
	fullLen := ctx.N(4, 5)
	for n := 0; n <= fullLen; n++ {
		exhaustBatches(ctx, n, true)
	}
	if ctx.Thor {
		exhaustBatches(ctx, 6, false)
	}
	ctx.Res.Exhaustive = true
	// random longer batches
	r := ctx.R
	for i := ctx.N(4000, 60000); i > 0; i-- {
		n := r.Intn(8)
		if r.Chance(1, 3) {
			n = 5 + r.Intn(36)
		}
		batchCase(ctx, randomReq(r, n, 1), "random")
	}
	// impl-side only: item middlewares around the batch loop; handleMessageError through the other entry points
	runBatchMw(ctx)
	runBatchEntryPoints(ctx)
	for _, c := range []string{"batch.rejected", "batch.mw.exhaustive", "batch.mw.random", "batch.http", "batch.nilreq", "batch.id=other-length", "batch.kind=typed"} {
		if ctx.Res.Distribution[c] < 2 {
			ctx.Res.Fail(fmt.Sprintf("batch: input class %s has only %d cases", c, ctx.Res.Distribution[c]))
		}
	}
}

// ---------------------------------------------------------------------------------------------
// C15: the placeholder

// soloPrediction: what the handlers of this request read when nothing else exists. An independent
// straight-line restatement of the property (not the Lean model): the placeholder starts empty, a
// Set/Clear is seen by what follows in the same request, a failed item leaves it empty.
func soloPrediction(r *bReq) []obsEv { return soloFrom(r, 0, true) }

// soloFrom: the same starting from placeholder value `start`; clearOnFail = the library clears the
// placeholder when an item fails (handleBatchItemError, an anchored mechanism of C15; the property
// text itself does not demand it, so a deviation confined to it gets a key of its own).
func soloFrom(r *bReq, start int, clearOnFail bool) []obsEv {
	var obs []obsEv
	if !r.accepted() {
		return obs
	}
	cur := start
	for i := range r.items {
		it := &r.items[i]
		if r.reachesHandler(it) {
			for _, a := range it.acts {
				switch a.kind {
				case 'r':
					obs = append(obs, obsEv{i, cur})
				case 's':
					cur = a.v
				case 'c':
					cur = 0
				}
			}
		}
		if r.itemFails(it) {
			if clearOnFail {
				cur = 0
			}
			if r.opt == uint32(kmip.BatchErrorContinuationOptionStop) {
				break
			}
		}
	}
	return obs
}

// soloEnd: the placeholder value a run of r leaves behind when it starts from `start`.
func soloEnd(r *bReq, start int) int {
	if !r.accepted() {
		return 0 // handleMessageError clears
	}
	cur := start
	for i := range r.items {
		it := &r.items[i]
		if r.reachesHandler(it) {
			for _, a := range it.acts {
				switch a.kind {
				case 's':
					cur = a.v
				case 'c':
					cur = 0
				}
			}
		}
		if r.itemFails(it) {
			cur = 0
			if r.opt == uint32(kmip.BatchErrorContinuationOptionStop) {
				break
			}
		}
	}
	return cur
}

// scheduledSteps: how many times request r passes a synchronisation point (one for the creation of
// the batch context plus one per placeholder access of an executed handler).
func scheduledSteps(r *bReq) int {
	n := 1
	if !r.accepted() {
		return n
	}
	for i := range r.items {
		it := &r.items[i]
		if r.reachesHandler(it) {
			n += len(it.acts)
		}
		if r.itemFails(it) && r.opt == uint32(kmip.BatchErrorContinuationOptionStop) {
			break
		}
	}
	return n
}

type placeResult struct {
	obs      []obsEv
	panic    string
	bad      string
	accessor string
}

// runScenario runs the requests in the given mode and returns what each observed.
//
//	seq       one after the other, one connection context
//	nest      one after the other, each inside the batch context of the previous one
//	par       all at once from goroutines (groups of three share a connection context), yielding
//	il:a.b.c  exactly one request runs at a time; the list says whose turn it is; a turn lasts from
//	          one synchronisation point to the next (so it includes the library's own steps)
func runScenario(mode string, reqs []*bReq) []placeResult {
	res := make([]placeResult, len(reqs))
	// connection contexts are shared objects: requests of one group have the very same parent
	conns := map[int]context.Context{}
	var connMu sync.Mutex
	conn := func(c int) context.Context {
		connMu.Lock()
		defer connMu.Unlock()
		if _, ok := conns[c]; !ok {
			conns[c] = context.WithValue(context.Background(), connKey{}, c)
		}
		return conns[c]
	}
	finish := func(i int, st *reqState, p string) {
		res[i] = placeResult{obs: st.obs, panic: p, bad: st.bad, accessor: st.accessor}
	}
	switch {
	case mode == "seq":
		c := conn(0)
		for i, r := range reqs {
			_, st, p := runReal(c, r, nil)
			finish(i, st, p)
		}
	case mode == "nest":
		// like seq, but every request is given, as its parent, the batch context of the previous
		// request (what a handler that forwards requests would do): the new request must still get
		// a holder of its own.
		parent := conn(0)
		for i, r := range reqs {
			_, st, p := runReal(parent, r, nil)
			finish(i, st, p)
			if st.ctx != nil {
				parent = st.ctx
			}
		}
	case mode == "par":
		var wg sync.WaitGroup
		start := make(chan struct{})
		for i, r := range reqs {
			wg.Add(1)
			go func() {
				defer wg.Done()
				<-start
				_, st, p := runReal(conn(i/3), r, runtime.Gosched)
				finish(i, st, p)
			}()
		}
		close(start)
		wg.Wait()
	case strings.HasPrefix(mode, "il:"):
		var sched []int
		for _, s := range strings.Split(mode[3:], ".") {
			if v, err := strconv.Atoi(s); err == nil {
				sched = append(sched, v)
			}
		}
		n := len(reqs)
		arrive := make([]chan struct{}, n)
		grant := make([]chan struct{}, n)
		finished := make([]chan struct{}, n)
		for i, r := range reqs {
			arrive[i], grant[i], finished[i] = make(chan struct{}), make(chan struct{}), make(chan struct{})
			go func() {
				defer close(finished[i])
				point := func() { arrive[i] <- struct{}{}; <-grant[i] }
				point() // before HandleRequest creates the batch context
				_, st, p := runReal(conn(i%2), r, point)
				finish(i, st, p)
			}()
		}
		for i := range reqs {
			<-arrive[i]
		}
		// turn: let request i run to its next synchronisation point (or to its end)
		turn := func(i int) bool {
			select {
			case grant[i] <- struct{}{}:
				select {
				case <-arrive[i]:
					return true
				case <-finished[i]:
					return false
				}
			case <-finished[i]:
				return false
			}
		}
		for _, i := range sched {
			if i >= 0 && i < n {
				turn(i)
			}
		}
		for i := range reqs { // whatever is left runs sequentially
			for turn(i) {
			}
		}
	}
	return res
}

func placeCase(ctx *Ctx, mode string, reqs []*bReq, origin string) {
	enc := make([]string, len(reqs))
	for i, r := range reqs {
		enc[i] = r.encode()
	}
	line := "place.run " + mode + " " + strings.Join(enc, " | ")
	ctx.current = line
	res := runScenario(mode, reqs)
	parts := make([]string, len(reqs))
	nontrivial := false
	for i, r := range reqs {
		if res[i].bad != "" {
			ctx.Res.Fail(res[i].bad + ": " + line)
		}
		if res[i].accessor != "" {
			ctx.Res.Violate(report.Violation{Property: "C15", Oracle: "accessor-agrees", Key: "place:accessor-disagrees", Detail: fmt.Sprintf("request %d (mode %s): %s", i, mode, res[i].accessor), Line: line})
		}
		if res[i].panic != "" {
			ctx.Res.Violate(report.Violation{Property: "C15", Oracle: "no-panic", Key: "place:panic " + panicKey(res[i].panic), Detail: "HandleRequest panicked: " + res[i].panic, Line: line})
			parts[i] = "panic"
			continue
		}
		parts[i] = renderObs(res[i].obs) + "~" + renderVals(res[i].obs)
		// oracle: the request observed exactly what it observes alone
		want := soloPrediction(r)
		got := res[i].obs
		if len(got) > 0 {
			nontrivial = true
		}
		if renderObs(got) != renderObs(want) {
			key := "place:wrong-value"
			// a value no step of this request ever stored comes from somewhere else
			own := map[int]bool{0: true}
			for _, it := range r.items {
				for _, a := range it.acts {
					if a.kind == 's' {
						own[a.v] = true
					}
				}
			}
			for _, o := range got {
				if !own[o.val] {
					key = "place:foreign-value"
				}
			}
			if len(got) > 0 && len(want) > 0 && got[0].val != 0 && want[0].val == 0 {
				key = "place:not-empty-at-start"
			}
			if renderObs(got) == renderObs(soloFrom(r, 0, false)) {
				// scoping intact, only the clearing after a failed item differs
				key = "place:not-cleared-after-failed-item"
			}
			ctx.Res.Violate(report.Violation{Property: "C15", Oracle: "solo-equivalence", Key: key,
				Detail: fmt.Sprintf("request %d (mode %s) observed %s, alone it observes %s", i, mode, renderObs(got), renderObs(want)), Line: line})
		}
	}
	ctx.Add(line, "ok "+strings.Join(parts, " | "), nontrivial, "C15")
	if origin != "" {
		m := mode
		if strings.HasPrefix(m, "il:") {
			m = "il"
		}
		ctx.Res.Count("place." + origin)
		ctx.Res.Count("place.mode=" + m)
		ctx.Res.Count(fmt.Sprintf("place.requests=%d", min(len(reqs), 9)))
	}
}

// placeReq builds a request over routed operation 1 from per-item (acts, fails) scripts.
func placeReq(opt uint32, items ...bItem) *bReq {
	r := &bReq{routes: []uint32{1, 2}, ver: kmip.V1_4, opt: opt, count: int32(len(items)), items: items}
	return r
}

func pItem(out string, acts ...bAct) bItem {
	it := bItem{op: 1, id: -1, ext: 'n', out: out, acts: acts}
	if out == "e" || out == "P" {
		it.reason = 1
	}
	return it
}

// merges enumerates every interleaving of counts[i] turns of request i.
func merges(counts []int, f func(sched []int)) {
	total := 0
	for _, c := range counts {
		total += c
	}
	cur := make([]int, 0, total)
	left := append([]int{}, counts...)
	var rec func()
	rec = func() {
		if len(cur) == total {
			f(cur)
			return
		}
		for i := range left {
			if left[i] > 0 {
				left[i]--
				cur = append(cur, i)
				rec()
				cur = cur[:len(cur)-1]
				left[i]++
			}
		}
	}
	rec()
}

func schedMode(s []int) string {
	p := make([]string, len(s))
	for i, v := range s {
		p[i] = strconv.Itoa(v)
	}
	return "il:" + strings.Join(p, ".")
}

func runPlace(ctx *Ctx) {
	quietSlog()
	if replayRequests(ctx, "place.run", func(arg string) {
		mode, rest, ok := strings.Cut(arg, " ")
		if !ok {
			return
		}
		var reqs []*bReq
		for _, s := range strings.Split(rest, " | ") {
			r, err := parseBReq(s)
			if err != nil {
				ctx.Res.Fail("replay: " + err.Error() + ": " + s)
				return
			}
			reqs = append(reqs, r)
		}
		placeCase(ctx, mode, reqs, "")
	}) {
		return
	}
	r := ctx.R
	R, C := bAct{kind: 'r'}, bAct{kind: 'c'}
	S := func(v int) bAct { return bAct{kind: 's', v: v} }

	// a request that leaves a value behind (the placeholder is NOT cleared at the end of a
	// successful request): whatever runs after or beside it must not see 999.
	poison := placeReq(0, pItem("ok", S(999)), pItem("ok", R))

	// 1. every sequence of accesses over the items of one batch (exhaustive over a small alphabet),
	//    run after the poison request on the same connection, and interleaved with it.
	actSets := [][]bAct{nil, {R}, {S(7)}, {C}, {R, S(7)}, {S(8), R}, {R, C, R}}
	outs := []string{"ok", "x", "p"}
	nItems := ctx.N(2, 3)
	var words [][]bItem
	var build func(prefix []bItem, k int)
	build = func(prefix []bItem, k int) {
		if k == 0 {
			words = append(words, append([]bItem{}, prefix...))
			return
		}
		for _, as := range actSets {
			for _, o := range outs {
				build(append(prefix, pItem(o, as...)), k-1)
			}
		}
	}
	for k := 1; k <= nItems; k++ {
		build(nil, k)
	}
	for wi, w := range words {
		for _, opt := range []uint32{0, 2} {
			// every batch ends with a read so that the final placeholder is observed
			items := append(append([]bItem{}, w...), pItem("ok", R))
			q := placeReq(opt, items...)
			placeCase(ctx, "seq", []*bReq{poison, q, q}, "exhaustive-seq")
			placeCase(ctx, "nest", []*bReq{poison, q, q}, "exhaustive-nest")
			if (wi+int(opt))%ctx.N(7, 2) == 0 {
				placeCase(ctx, "par", []*bReq{poison, q, poison, q}, "exhaustive-par")
			}
		}
	}

	// 2. all interleavings of two (three) small requests
	progs := []*bReq{
		placeReq(0, pItem("ok", S(11), R)),
		placeReq(0, pItem("ok", R, R)),
		placeReq(0, pItem("ok", S(12)), pItem("ok", R)),
		placeReq(0, pItem("x", S(13)), pItem("ok", R)),
		placeReq(2, pItem("ok", S(14)), pItem("p", R), pItem("ok", R)),
		placeReq(0, pItem("ok", R), bItem{op: unroutedOp, id: -1, ext: 'n', out: "ok"}, pItem("ok", S(15), R)),
		placeReq(3, pItem("ok", S(16), R)), // rejected: a single synchronisation point
		placeReq(0, pItem("ok", S(17)), pItem("ok", C, R)),
	}
	distinct := func(q *bReq, k int) *bReq { // same script, values made distinct per request
		c := *q
		c.items = make([]bItem, len(q.items))
		for i, it := range q.items {
			it.acts = append([]bAct{}, it.acts...)
			for j := range it.acts {
				if it.acts[j].kind == 's' {
					it.acts[j].v += 100 * k
				}
			}
			c.items[i] = it
		}
		return &c
	}
	for a := range progs {
		for b := range progs {
			qa, qb := distinct(progs[a], 0), distinct(progs[b], 1)
			merges([]int{scheduledSteps(qa), scheduledSteps(qb)}, func(s []int) {
				placeCase(ctx, schedMode(s), []*bReq{qa, qb}, "all-merges-2")
			})
		}
	}
	if ctx.Thor {
		for a := 0; a < 5; a++ {
			for b := 0; b < 5; b++ {
				for c := 0; c < 5; c++ {
					qa, qb, qc := distinct(progs[a], 0), distinct(progs[b], 1), distinct(progs[c], 2)
					if scheduledSteps(qa)+scheduledSteps(qb)+scheduledSteps(qc) > 9 {
						continue
					}
					merges([]int{scheduledSteps(qa), scheduledSteps(qb), scheduledSteps(qc)}, func(s []int) {
						placeCase(ctx, schedMode(s), []*bReq{qa, qb, qc}, "all-merges-3")
					})
				}
			}
		}
	}
	ctx.Res.Exhaustive = true

	// 3. random scenarios: sequential histories, random controlled merges, concurrent load
	for i := ctx.N(600, 6000); i > 0; i-- {
		k := 2 + r.Intn(5)
		if i%3 == 0 {
			k = 8 + r.Intn(25)
		}
		reqs := make([]*bReq, k)
		cfg := randomReq(r, 0, 0)
		for j := range reqs {
			q := randomReq(r, 1+r.Intn(5), 100*(j+1))
			q.vers, q.routes = cfg.vers, cfg.routes // one executor for the whole scenario
			if r.Chance(9, 10) {
				q.ver = kmip.V1_4
			}
			reqs[j] = q
		}
		switch i % 3 {
		case 0:
			placeCase(ctx, "par", reqs, "random")
		case 1:
			placeCase(ctx, rng.Pick(r, []string{"seq", "nest"}), reqs, "random")
		default:
			var s []int
			for j, q := range reqs {
				for n := scheduledSteps(q); n > 0; n-- {
					s = append(s, j)
				}
			}
			for n := len(s) - 1; n > 0; n-- { // shuffle
				m := r.Intn(n + 1)
				s[n], s[m] = s[m], s[n]
			}
			if r.Chance(1, 5) && len(s) > 2 { // incomplete schedule: the rest runs sequentially
				s = s[:len(s)/2]
			}
			placeCase(ctx, schedMode(s), reqs, "random")
		}
	}
}

func init() {
	register(&Engine{
		Name: "batch",
		Rule: "kmipserver.BatchExecutor.HandleRequest with scripted handlers: every batch up to length 4 (quick) / 5 (thorough, plus length 6 under unset/Stop) over per-item outcome {success, typed error, plain error, panic, unrouted, critical extension} (plain errors and panic values include ones whose Error/Unwrap/String method panics again) x option {unset, Continue, Stop, Undo} x {supported, unsupported} version x {matching, mismatching} count x with/without ids; random batches up to 40 items with restricted version sets, unknown option values, discover payloads, non-critical extensions, zero/negative versions, placeholder accesses; distinct = distinct line; nontrivial = more than one item",
		Run:  runBatch,
	})
	register(&Engine{
		Name: "place",
		Rule: "scenarios of several requests on one executor whose handlers Set/Read/Clear the ID placeholder: sequential on one connection context, sequential with each request nested in the previous request's batch context, concurrent from goroutines, and controlled interleavings (one request runs at a time; ALL merges of pairs (thorough: triples) of small requests); every access sequence over batches of <= 2 (thorough 3) items x outcome {ok, error, panic} x {unset, Stop} after/beside a request that leaves a value behind; distinct = distinct scenario line; nontrivial = some handler read the placeholder",
		Run:  runPlace,
	})
}
