/-
  SrvConn — one server connection as a transition system: `kmipserver/conn.go` (newConn, terminate,
  checkAvailable, readloop, writeloop, send, recv) and the connection part of `server.go handleConn`
  (connect hook, request loop, deferred terminate hook / stream.Close / wg.Done), as of the CURRENT
  code (tx channel swapped for nil but never closed, per-message error channel of capacity 1).

  Three processes with explicit program counters: owner `M` (the handleConn goroutine), reader `R`
  (readloop), writer `W` (writeloop). Unbuffered channel operations are rendezvous (ONE joint step),
  `select` is a non-deterministic choice among the ready cases, `terminate` is THREE atomic steps
  (closed.Swap / cancel / tx swap + stream close) because the other goroutines run between them.

  The environment is non-deterministic inside `stepL`:
    client    sends a request (`readGood`), a correctly framed but undecodable message (`readBad`:
              `ttlv.IsErrEncoding`, including "message too big"), a message that is not a request
              (`readSkip`), any number of them and at any time (pipelining = the reader picks the next
              one up while the owner is busy); reads a response (`wOk`) or not; half-closes
              (`cliHalf`: the reader gets EOF — garbage / truncated bytes followed by the end of the
              stream are the same event for the server: a non-encoding error of `Recv`) or closes
              (`cliClose`) at ANY point. Bytes may still be readable / writable after the peer
              closed (kernel socket buffers), so reads stay possible until the local close.
    handler   returns a response (`hRet`: success, typed error, plain error and recovered panic are
              all "a response message is returned" for the connection — that the item is a FAILED
              item is `Kmip.C08.handler_outcome_is_an_item` over the batch model), or blocks until
              the connection context is cancelled (`hSlow` then `hRet` once `ctxDone`).
    server    cancels the receive context (`recvCancel`, Shutdown) or the server context
              (`srvCancel`: the connection context is a child, so this IS `ctxDone := true`).

  Message contents are abstracted (data independence: no control decision of conn.go/handleConn
  depends on the content of a decodable request). Requests carry their index PARITY: at most two
  requests are in flight between `Recv` and `Send` (one held by R, one owned by M/W), adjacent
  indices have different parities, so any reordering, duplication or loss among the in-flight
  requests shows as a parity mismatch at the write (`orderBad`). The number of requests on a
  connection is therefore UNBOUNDED in this model.

  `Params` keeps the two repaired defects switchable: `closesTx` (terminate closes the tx channel)
  and `errChCap` (capacity of the per-message error channel).
-/
import KmipModel.Model.Lts
namespace Kmip.SrvConn
open Kmip.Lts

structure Params where
  closesTx : Bool
  errChCap : Nat
  deriving Repr, DecidableEq

/-- the code at /repo HEAD. -/
def current : Params := { closesTx := false, errChCap := 1 }
/-- before d24e630. -/
def oldClosesTx : Params := { closesTx := true, errChCap := 1 }
/-- before 4f747d8. -/
def oldUnbuffered : Params := { closesTx := false, errChCap := 0 }

/-- owner: handleConn after newConn. `[y:…]` = verif yield point reached when the pc is entered. -/
inductive MPc where
  | hook        -- srv.connectHook(ctx)
  | recvCheck   -- recv: checkAvailable
  | recvSel     -- recv: select { <-rx | <-recvCtx.Done | <-c.ctx.Done }
  | handle      -- srv.handleRequest running
  | handleSlow  -- … a handler that waits for ctx.Done()
  | ctxCheck    -- [y:srv.beforeSend] if ctx.Err() != nil
  | sendCheck   -- send: checkAvailable
  | loadTx      -- tx := c.tx.Load(); errCh := make(chan error, cap)
  | sendSel     -- [y:srv.send.loaded] select { tx <- msg | <-c.ctx.Done }
  | waitErr     -- select { <-errCh | <-c.ctx.Done }
  | t1 | t2 | t3  -- terminate called from recv/send ([y:srv.terminate.afterCancel] at t3)
  | dfr         -- loop left: deferred srv.terminateHook (only if the connect hook succeeded)
  | c1 | c2 | c3  -- deferred stream.Close() = terminate
  | wgDone      -- deferred srv.wg.Done()
  | ended
  deriving DecidableEq, Repr, Inhabited

inductive RPc where
  | check       -- for !c.closed.Load()
  | recv        -- c.stream.Recv(&msg)
  | hand        -- [y:srv.read.beforeRx] select { rx <- resp | <-c.ctx.Done }
  | t1 | t2 | t3
  | closeRx     -- deferred close(c.rx)
  | ended
  deriving DecidableEq, Repr, Inhabited

inductive WPc where
  | check       -- for !c.closed.Load()
  | sel         -- select { req, ok := <-tx | <-c.ctx.Done }
  | io          -- c.stream.Send(req.msg)
  | closeOk     -- close(req.err) after a successful write
  | errSend     -- [y:srv.write.beforeErr] req.err <- err
  | errClose    -- close(req.err)
  | t1 | t2 | t3
  | ended
  deriving DecidableEq, Repr, Inhabited

/-- the client end: `gone` = it has half-closed or closed (or its stream ended after garbage). The
    reader then gets a non-encoding error (after whatever is still buffered); a write may still
    succeed (half-close, socket buffer) or fail (closed): both are possible, which covers every
    transport. -/
inductive Cli where
  | open | gone
  deriving DecidableEq, Repr, Inhabited

inductive Panic where
  | none | sendOnClosed | closeOfClosed
  deriving DecidableEq, Repr, Inhabited

/-- a saturating counter: 0, 1, more. -/
inductive Cnt where
  | zero | one | many
  deriving DecidableEq, Repr, Inhabited

def Cnt.inc : Cnt → Cnt
  | .zero => .one
  | _ => .many

structure State where
  m : MPc
  r : RPc
  w : WPc
  cli : Cli
  panic : Panic
  closed : Bool        -- c.closed
  ctxDone : Bool       -- c.ctx cancelled (by terminate, or through the server context)
  txNil : Bool         -- c.tx holds the nil channel
  txClosed : Bool      -- the tx channel object has been closed (only when `closesTx`)
  rxClosed : Bool
  netLocal : Bool      -- stream closed by the server
  errVal : Bool        -- the current message's error channel holds a value
  errClosed : Bool     -- … is closed
  hookOk : Bool        -- the connect hook succeeded (terminate hook registered)
  mTxNil : Bool        -- the channel value M loaded is nil
  brk : Bool           -- M is sending the invalid-message response and leaves the loop afterwards
  rBad : Bool          -- the message R holds failed to decode
  wInv : Bool          -- the response W holds is the invalid-message response
  rdP : Bool           -- ghost: parity of the number of decodable requests read
  wrP : Bool           -- ghost: parity of the number of request responses written
  rIdx : Bool          -- ghost: parity index of the request held by R / M / W
  mIdx : Bool
  wIdx : Bool
  orderBad : Bool      -- ghost: a response was written that is not the next expected one
  invProd : Cnt        -- ghost: invalid-message responses produced / written
  invWr : Cnt
  termHooks : Cnt      -- ghost: runs of the terminate hook
  deriving DecidableEq, Repr, Inhabited

def init : State :=
  { m := .hook, r := .check, w := .check, cli := .open, panic := .none, closed := false,
    ctxDone := false, txNil := false, txClosed := false, rxClosed := false, netLocal := false,
    errVal := false, errClosed := false, hookOk := false, mTxNil := false,
    brk := false, rBad := false, wInv := false, rdP := false, wrP := false, rIdx := false,
    mIdx := false, wIdx := false, orderBad := false, invProd := .zero, invWr := .zero,
    termHooks := .zero }

inductive Ev where
  | m | r | w                         -- internal step of M / R / W (rendezvous: the receiver's side)
  | hookOk | hookFail                 -- outcome of the connect hook
  | hRet | hSlow                      -- the handler returns / settles to wait for cancellation
  | readGood | readBad | readSkip     -- Recv returns a message the client sent        (needs the client)
  | readErr                           -- Recv returns a non-encoding error
  | wOk                               -- Send returns nil                              (needs the client)
  | wFail                             -- Send returns an error
  | recvCancel                        -- recv's `<-ctx.Done()` case (receive context cancelled)
  | cliGone | srvCancel               -- pure environment events
  deriving DecidableEq, Repr, Inhabited

/-- events that need an action of the client or of the rest of the server: a connection whose only
    enabled events are of this kind is WAITING, not stuck. -/
def Ev.isEnv : Ev → Bool
  | .readGood | .readBad | .readSkip | .wOk | .cliGone | .recvCancel | .srvCancel => true
  | _ => false

def unavailable (s : State) : Bool := s.closed || s.ctxDone

/-- third step of terminate: swap tx for nil (the old code also closed it), close the stream. -/
def term3 (p : Params) (s : State) : State :=
  if p.closesTx && s.txClosed then { s with panic := .closeOfClosed }
  else { s with txNil := true, txClosed := s.txClosed || p.closesTx, netLocal := true }

def closeErrCh (s : State) : State :=
  if s.errClosed then { s with panic := .closeOfClosed } else { s with errClosed := true }

def stepM (p : Params) (s : State) : List (Ev × State) :=
  match s.m with
  | .hook => [(.hookOk, { s with hookOk := true, m := .recvCheck }),
              (.hookFail, { s with hookOk := false, m := .c1 })]
  | .recvCheck => [(.m, { s with m := if unavailable s then .dfr else .recvSel })]
  | .recvSel =>
    (if s.r = .hand then
      (if s.rBad then
        [(Ev.m, { s with m := .sendCheck, brk := true, invProd := s.invProd.inc,
                         r := .check, rBad := false, rIdx := false })]
       else
        [(Ev.m, { s with m := .handle, mIdx := s.rIdx, r := .check, rIdx := false })])
     else []) ++
    (if s.rxClosed then [(Ev.m, { s with m := .dfr })] else []) ++
    [(Ev.recvCancel, { s with m := .t1 })] ++
    (if s.ctxDone then [(Ev.m, { s with m := .t1 })] else [])
  | .handle => [(.hRet, { s with m := .ctxCheck }), (.hSlow, { s with m := .handleSlow })]
  | .handleSlow => if s.ctxDone then [(.hRet, { s with m := .ctxCheck })] else []
  | .ctxCheck => [(.m, { s with m := if s.ctxDone then .dfr else .sendCheck })]
  | .sendCheck => [(.m, { s with m := if unavailable s then .dfr else .loadTx })]
  | .loadTx => [(.m, { s with m := .sendSel, mTxNil := s.txNil, errVal := false, errClosed := false })]
  | .sendSel =>
    (if !s.mTxNil && s.txClosed then [(Ev.m, { s with panic := .sendOnClosed })] else []) ++
    (if !s.mTxNil && !s.txClosed && s.w = .sel then
      [(Ev.m, { s with m := .waitErr, w := .io, wIdx := s.mIdx, wInv := s.brk, mTxNil := false })]
     else []) ++
    (if s.ctxDone then [(Ev.m, { closeErrCh s with m := .t1 })] else [])
  | .waitErr =>
    (if s.errVal then [(Ev.m, { s with errVal := false, m := .dfr, mIdx := false })] else []) ++
    (if !s.errVal && s.errClosed then
      [(Ev.m, { s with errClosed := false, mIdx := false, m := if s.brk then .dfr else .recvCheck })]
     else []) ++
    (if s.ctxDone then [(Ev.m, { s with m := .t1 })] else [])
  | .t1 => [(.m, if s.closed then { s with m := .dfr } else { s with closed := true, m := .t2 })]
  | .t2 => [(.m, { s with ctxDone := true, m := .t3 })]
  | .t3 => [(.m, { term3 p s with m := .dfr })]
  | .dfr => [(.m, { s with termHooks := if s.hookOk then s.termHooks.inc else s.termHooks, m := .c1 })]
  | .c1 => [(.m, if s.closed then { s with m := .wgDone } else { s with closed := true, m := .c2 })]
  | .c2 => [(.m, { s with ctxDone := true, m := .c3 })]
  | .c3 => [(.m, { term3 p s with m := .wgDone })]
  | .wgDone => [(.m, { s with m := .ended })]
  | .ended => []

def stepR (p : Params) (s : State) : List (Ev × State) :=
  match s.r with
  | .check => [(.r, { s with r := if s.closed then .closeRx else .recv })]
  | .recv =>
    (if !s.netLocal then
      [(Ev.readGood, { s with r := .hand, rBad := false, rIdx := s.rdP, rdP := !s.rdP }),
       (Ev.readBad, { s with r := .hand, rBad := true }),
       (Ev.readSkip, { s with r := .check })]
     else []) ++
    (if s.netLocal || s.cli != .open then [(Ev.readErr, { s with r := .t1 })] else [])
  | .hand => if s.ctxDone then [(.r, { s with r := .closeRx, rBad := false, rIdx := false })] else []
  | .t1 => [(.r, if s.closed then { s with r := .closeRx } else { s with closed := true, r := .t2 })]
  | .t2 => [(.r, { s with ctxDone := true, r := .t3 })]
  | .t3 => [(.r, { term3 p s with r := .closeRx })]
  | .closeRx => [(.r, if s.rxClosed then { s with panic := .closeOfClosed }
                      else { s with rxClosed := true, r := .ended })]
  | .ended => []

def stepW (p : Params) (s : State) : List (Ev × State) :=
  match s.w with
  | .check => [(.w, { s with w := if s.closed then .ended else .sel })]
  | .sel =>
    (if s.txClosed then [(Ev.w, { s with w := .ended })] else []) ++
    (if s.ctxDone then [(Ev.w, { s with w := .ended })] else [])
  | .io =>
    (if !s.netLocal then
      [(Ev.wOk,
        if s.wInv then { s with w := .closeOk, invWr := s.invWr.inc, wInv := false, wIdx := false }
        else { s with w := .closeOk, orderBad := s.orderBad || (s.wIdx != s.wrP), wrP := !s.wrP,
                      wIdx := false })]
     else []) ++
    (if s.netLocal || s.cli == .gone then
      [(Ev.wFail, { s with w := .errSend, wInv := false, wIdx := false })] else [])
  | .closeOk => [(.w, { closeErrCh s with w := .check })]
  | .errSend =>
    if s.errClosed then [(.w, { s with panic := .sendOnClosed })]
    else if p.errChCap > 0 then
      (if s.errVal then [] else [(.w, { s with errVal := true, w := .errClose })])
    else
      -- unbuffered: a rendezvous with M waiting in `waitErr`, otherwise blocked
      (if s.m = .waitErr then [(.w, { s with w := .errClose, m := .dfr, mIdx := false })] else [])
  | .errClose => [(.w, { closeErrCh s with w := .t1 })]
  | .t1 => [(.w, if s.closed then { s with w := .ended } else { s with closed := true, w := .t2 })]
  | .t2 => [(.w, { s with ctxDone := true, w := .t3 })]
  | .t3 => [(.w, { term3 p s with w := .ended })]
  | .ended => []

def stepEnv (s : State) : List (Ev × State) :=
  (if s.cli = .open then [(Ev.cliGone, { s with cli := .gone })] else []) ++
  [(Ev.srvCancel, { s with ctxDone := true })]

/-- labelled successors. A panicked process has taken the whole process down: no successor. -/
def stepL (p : Params) (s : State) : List (Ev × State) :=
  if s.panic != .none then [] else stepM p s ++ stepR p s ++ stepW p s ++ stepEnv s

def sys (p : Params) : Sys State := { init := init, step := fun s => (stepL p s).map (·.2) }

/-! ### predicates -/

def allEnded (s : State) : Bool := s.m == .ended && s.r == .ended && s.w == .ended

def crashed (s : State) : Bool := s.panic != .none

/-- the peer has closed or the connection context is cancelled, a goroutine has not ended, and
    nothing the server itself can do is enabled: the remaining goroutines are kept forever. -/
def stuck (p : Params) (s : State) : Bool :=
  (s.cli == .gone || s.ctxDone) && !allEnded s && !crashed s &&
    ((stepL p s).all (fun e => e.1.isEnv))

/-- the connection is live and idle: the owner waits for the next request, the reader holds none. -/
def idleLive (s : State) : Bool :=
  s.m == .recvSel && s.r != .hand && !s.closed && !s.ctxDone

/-- responses are not the in-order, one-for-one image of the decodable requests read. -/
def misordered (s : State) : Bool :=
  s.orderBad || (idleLive s && (s.rdP != s.wrP))

/-- the invalid-message response: more than one, one written that was never produced, or the
    connection goes on serving after it. -/
def invalidBad (s : State) : Bool :=
  s.invProd == .many || s.invWr == .many || (s.invWr == .one && s.invProd == .zero) ||
  (s.invProd != .zero && (s.m == .handle || s.m == .handleSlow || s.m == .recvSel))

/-- terminate hook: more than once, without a successful connect hook, or not exactly once when
    everything has ended after a successful connect hook; or a handler after it. -/
def hookBad (s : State) : Bool :=
  s.termHooks == .many || (s.termHooks != .zero && !s.hookOk) ||
  (s.m == .ended && s.termHooks != (if s.hookOk then Cnt.one else Cnt.zero)) ||
  (s.termHooks != .zero && (s.m == .handle || s.m == .handleSlow || s.m == .hook))

def bad (p : Params) (s : State) : Bool :=
  crashed s || stuck p s || misordered s || invalidBad s || hookBad s

/-! ### coding -/

def MPc.toNat : MPc → Nat
  | .hook => 0 | .recvCheck => 1 | .recvSel => 2 | .handle => 3 | .handleSlow => 4 | .ctxCheck => 5
  | .sendCheck => 6 | .loadTx => 7 | .sendSel => 8 | .waitErr => 9 | .t1 => 10 | .t2 => 11
  | .t3 => 12 | .dfr => 13 | .c1 => 14 | .c2 => 15 | .c3 => 16 | .wgDone => 17 | .ended => 18
def MPc.ofN : Nat → MPc
  | 0 => .hook | 1 => .recvCheck | 2 => .recvSel | 3 => .handle | 4 => .handleSlow | 5 => .ctxCheck
  | 6 => .sendCheck | 7 => .loadTx | 8 => .sendSel | 9 => .waitErr | 10 => .t1 | 11 => .t2
  | 12 => .t3 | 13 => .dfr | 14 => .c1 | 15 => .c2 | 16 => .c3 | 17 => .wgDone | _ => .ended
def RPc.toNat : RPc → Nat
  | .check => 0 | .recv => 1 | .hand => 2 | .t1 => 3 | .t2 => 4 | .t3 => 5 | .closeRx => 6 | .ended => 7
def RPc.ofN : Nat → RPc
  | 0 => .check | 1 => .recv | 2 => .hand | 3 => .t1 | 4 => .t2 | 5 => .t3 | 6 => .closeRx | _ => .ended
def WPc.toNat : WPc → Nat
  | .check => 0 | .sel => 1 | .io => 2 | .closeOk => 3 | .errSend => 4 | .errClose => 5 | .t1 => 6
  | .t2 => 7 | .t3 => 8 | .ended => 9
def WPc.ofN : Nat → WPc
  | 0 => .check | 1 => .sel | 2 => .io | 3 => .closeOk | 4 => .errSend | 5 => .errClose | 6 => .t1
  | 7 => .t2 | 8 => .t3 | _ => .ended
def Cli.toNat : Cli → Nat | .open => 0 | .gone => 1
def Cli.ofN : Nat → Cli | 0 => .open | _ => .gone
def Panic.toNat : Panic → Nat | .none => 0 | .sendOnClosed => 1 | .closeOfClosed => 2
def Panic.ofN : Nat → Panic | 0 => .none | 1 => .sendOnClosed | _ => .closeOfClosed
def Cnt.toNat : Cnt → Nat | .zero => 0 | .one => 1 | .many => 2
def Cnt.ofN : Nat → Cnt | 0 => .zero | 1 => .one | _ => .many
def bToNat (b : Bool) : Nat := if b then 1 else 0
def bOfNat (n : Nat) : Bool := n != 0

theorem MPc.ofN_toNat (x : MPc) : MPc.ofN x.toNat = x := by cases x <;> rfl
theorem RPc.ofN_toNat (x : RPc) : RPc.ofN x.toNat = x := by cases x <;> rfl
theorem WPc.ofN_toNat (x : WPc) : WPc.ofN x.toNat = x := by cases x <;> rfl
theorem Cli.ofN_toNat (x : Cli) : Cli.ofN x.toNat = x := by cases x <;> rfl
theorem Panic.ofN_toNat (x : Panic) : Panic.ofN x.toNat = x := by cases x <;> rfl
theorem Cnt.ofN_toNat (x : Cnt) : Cnt.ofN x.toNat = x := by cases x <;> rfl
theorem bOfNat_bToNat (b : Bool) : bOfNat (bToNat b) = b := by cases b <;> rfl
theorem MPc.toNat_lt (x : MPc) : x.toNat < 19 := by cases x <;> decide
theorem RPc.toNat_lt (x : RPc) : x.toNat < 8 := by cases x <;> decide
theorem WPc.toNat_lt (x : WPc) : x.toNat < 10 := by cases x <;> decide
theorem Cli.toNat_lt (x : Cli) : x.toNat < 2 := by cases x <;> decide
theorem Panic.toNat_lt (x : Panic) : x.toNat < 3 := by cases x <;> decide
theorem Cnt.toNat_lt (x : Cnt) : x.toNat < 3 := by cases x <;> decide
theorem bToNat_lt (b : Bool) : bToNat b < 2 := by cases b <;> decide

/-- the digits of a state with their radices. -/
def digits (s : State) : List (Nat × Nat) :=
  [(s.m.toNat, 19), (s.r.toNat, 8), (s.w.toNat, 10), (s.cli.toNat, 2), (s.panic.toNat, 3),
   (bToNat s.closed, 2), (bToNat s.ctxDone, 2), (bToNat s.txNil, 2), (bToNat s.txClosed, 2),
   (bToNat s.rxClosed, 2), (bToNat s.netLocal, 2), (bToNat s.errVal, 2), (bToNat s.errClosed, 2),
   (bToNat s.hookOk, 2), (bToNat s.mTxNil, 2), (bToNat s.brk, 2),
   (bToNat s.rBad, 2), (bToNat s.wInv, 2), (bToNat s.rdP, 2), (bToNat s.wrP, 2), (bToNat s.rIdx, 2),
   (bToNat s.mIdx, 2), (bToNat s.wIdx, 2), (bToNat s.orderBad, 2), (s.invProd.toNat, 3),
   (s.invWr.toNat, 3), (s.termHooks.toNat, 3)]

def radices : List Nat :=
  [19, 8, 10, 2, 3, 2, 2, 2, 2, 2, 2, 2, 2, 2, 2, 2, 2, 2, 2, 2, 2, 2, 2, 2, 3, 3, 3]

def ofDigits : List Nat → State
  | [a0, a1, a2, a3, a4, a5, a6, a7, a8, a9, a10, a11, a12, a14, a15, a16, a17, a18, a19, a20,
     a21, a22, a23, a24, a25, a26, a27] =>
    { m := .ofN a0, r := .ofN a1, w := .ofN a2, cli := .ofN a3, panic := .ofN a4,
      closed := bOfNat a5, ctxDone := bOfNat a6, txNil := bOfNat a7, txClosed := bOfNat a8,
      rxClosed := bOfNat a9, netLocal := bOfNat a10, errVal := bOfNat a11, errClosed := bOfNat a12,
      hookOk := bOfNat a14, mTxNil := bOfNat a15, brk := bOfNat a16,
      rBad := bOfNat a17, wInv := bOfNat a18, rdP := bOfNat a19, wrP := bOfNat a20,
      rIdx := bOfNat a21, mIdx := bOfNat a22, wIdx := bOfNat a23, orderBad := bOfNat a24,
      invProd := .ofN a25, invWr := .ofN a26, termHooks := .ofN a27 }
  | _ => init

def code (s : State) : Nat := pack (digits s)
def decode (n : Nat) : State := ofDigits (unpack radices n)

theorem digits_radices (s : State) : (digits s).map (·.2) = radices := rfl

theorem digits_lt (s : State) : ∀ d ∈ digits s, d.1 < d.2 := by
  simp [digits, MPc.toNat_lt, RPc.toNat_lt, WPc.toNat_lt, Cli.toNat_lt, Panic.toNat_lt,
    Cnt.toNat_lt, bToNat_lt]

theorem decode_code (s : State) : decode (code s) = s := by
  unfold decode code
  rw [← digits_radices s, unpack_pack _ (digits_lt s)]
  cases s
  simp only [digits, List.map_cons, List.map_nil, ofDigits, MPc.ofN_toNat, RPc.ofN_toNat,
    WPc.ofN_toNat, Cli.ofN_toNat, Panic.ofN_toNat, Cnt.ofN_toNat, bOfNat_bToNat]

def coding : Coding State := { code := code, decode := decode, decode_code := decode_code }

end Kmip.SrvConn
