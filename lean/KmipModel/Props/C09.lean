/-
  C09 — server batch execution follows KMIP batch semantics.

  `Batch.execFull srv req` is the model of `BatchExecutor.HandleRequest` (no middleware): `.resp` is
  the response message, `.calls` the ordered log of handler invocations (item indices). Handlers
  are arbitrary scripts carried by the items, the executor configuration `srv` (routes, supported
  versions) is arbitrary, batches have ANY length: every theorem is for all `srv` and `req`.
  `Accepted srv req` = supported version ∧ option ≠ Undo ∧ BatchCount = number of items.

  Result REASONS occur in some statements through `canceled` / `itemResult` (the model's whole response
  item): that part is a statement about the model only — the property does not speak about reasons and
  the harness does not compare them (statuses S/F, operation, id, count, version and the call log are).
  Theorems 1–8 are for the executor without batch-item middleware; 9a–9e are what the loop guarantees
  around ANY item chain (the harness runs the real executor with transparent, masking, refusing and
  failing item middlewares against them).
-/
import KmipModel.Lemmas.BatchLemmas
namespace Kmip.C09
open Kmip.Batch Kmip.Placeholder

/-- 1. exactly one response item per request item. -/
theorem one_item_per_request_item (srv : Srv) (req : Req) (h : Accepted srv req) :
    (execFull srv req).resp.items.length = req.items.length := by
  rw [execFull_accepted srv req h]; exact loop_items_length _ _ _ _ _ _

/-- 2. same order, each echoing operation and unique batch item id: the list of (operation, id)
    pairs of the response IS the list of (operation, id) pairs of the request. -/
theorem echo (srv : Srv) (req : Req) (h : Accepted srv req) :
    (execFull srv req).resp.items.map (fun r => (r.op, r.id)) =
      req.items.map (fun it => (it.op, it.id)) := by
  rw [execFull_accepted srv req h]
  apply List.ext_getElem?
  intro i
  simp only [List.getElem?_map, loop_items_get]
  cases req.items[i]? with
  | none => rfl
  | some it =>
    simp only [Option.map_some]
    split <;> simp [canceled, itemResult]

/-- 2'. the same, position by position. -/
theorem echo_at (srv : Srv) (req : Req) (h : Accepted srv req) (i : Nat) (it : Item)
    (hi : req.items[i]? = some it) :
    ∃ r, (execFull srv req).resp.items[i]? = some r ∧ r.op = it.op ∧ r.id = it.id := by
  rw [execFull_accepted srv req h]
  simp only [loop_items_get, hi, Option.map_some]
  split <;> exact ⟨_, rfl, rfl, rfl⟩

/-- 3. batch count = number of items, protocol version = the request's. -/
theorem header (srv : Srv) (req : Req) (h : Accepted srv req) :
    (execFull srv req).resp.count = (req.items.length : Int) ∧
    (execFull srv req).resp.ver = req.ver := by
  rw [execFull_accepted srv req h]; exact ⟨h.2.2, rfl⟩

/-- 4. (every request, accepted or not) handlers run at most once and in order: the call log is
    strictly increasing and only mentions items of the request. -/
theorem calls_in_order (srv : Srv) (req : Req) :
    List.Pairwise (· < ·) (execFull srv req).calls ∧
    ∀ c ∈ (execFull srv req).calls, c < req.items.length := by
  by_cases h : Accepted srv req
  · rw [execFull_accepted srv req h]
    refine ⟨loop_calls_pairwise _ _ _ _ _ _, ?_⟩
    intro c hc
    rw [loop_mem_calls] at hc
    obtain ⟨j, it, hcj, hget, _⟩ := hc
    have : j < req.items.length := by
      cases Nat.lt_or_ge j req.items.length with
      | inl h => exact h
      | inr h => rw [List.getElem?_eq_none h] at hget; cases hget
    omega
  · rw [execFull_rejected srv req h]; simp [handleMessageError]

/-- 5. Stop. Let `k` be the first failed item of the response. Then
    (a) no handler of an item after `k` runs;
    (b) every item after `k` is answered failed, "operation canceled by requester", echoing its
        operation and id — none is reported successful;
    (c) the handlers that run are exactly those of the items up to `k` that reach a handler
        (registered operation, no critical extension), each once (4.);
    (d) up to `k` every item is answered with its own result. -/
theorem stop_semantics (srv : Srv) (req : Req) (h : Accepted srv req) (hstop : req.opt = optStop)
    (k : Nat) (r : RItem) (hk : (execFull srv req).resp.items[k]? = some r) (hf : r.failed = true)
    (hfirst : ∀ j r', j < k → (execFull srv req).resp.items[j]? = some r' → r'.failed = false) :
    (∀ c ∈ (execFull srv req).calls, c ≤ k) ∧
    (∀ j it, k < j → req.items[j]? = some it →
        (execFull srv req).resp.items[j]? = some (canceled it)) ∧
    (∀ c, c ∈ (execFull srv req).calls ↔
        c ≤ k ∧ ∃ it, req.items[c]? = some it ∧ dispatched srv it = true) ∧
    (∀ j it, j ≤ k → req.items[j]? = some it →
        (execFull srv req).resp.items[j]? = some (itemResult srv it)) := by
  rw [execFull_accepted srv req h] at hk hfirst ⊢
  simp only at hk hfirst ⊢
  have hs : (req.opt == optStop) = true := by simp [hstop]
  rw [hs] at hk hfirst ⊢
  have hbefore := not_stopped_upto_first_failed srv true req.items 0 0 k hfirst
  have hafter := stopped_after_first_failed srv true req.items 0 0 k r hk hf hfirst
  have hcalls : ∀ c, c ∈ (loop srv true req.items 0 false 0).calls ↔
      c ≤ k ∧ ∃ it, req.items[c]? = some it ∧ dispatched srv it = true := by
    intro c
    rw [loop_mem_calls]
    constructor
    · rintro ⟨j, it, hc, hget, hd, hns⟩
      have hcj : c = j := by omega
      subst hcj
      refine ⟨?_, it, hget, hd⟩
      cases Nat.lt_or_ge k c with
      | inl hlt => rw [hafter c hlt] at hns; cases hns
      | inr hge => exact hge
    · rintro ⟨hc, it, hget, hd⟩
      exact ⟨c, it, by omega, hget, hd, hbefore c hc⟩
  refine ⟨fun c hc => ((hcalls c).1 hc).1, ?_, hcalls, ?_⟩
  · intro j it hj hget
    rw [loop_items_get, hget, hafter j hj]; rfl
  · intro j it hj hget
    rw [loop_items_get, hget, hbefore j hj]; rfl

/-- 5'. Stop: no item after the first failed one is reported successful. -/
theorem stop_none_successful_after (srv : Srv) (req : Req) (h : Accepted srv req)
    (hstop : req.opt = optStop) (k : Nat) (r : RItem)
    (hk : (execFull srv req).resp.items[k]? = some r) (hf : r.failed = true)
    (hfirst : ∀ j r', j < k → (execFull srv req).resp.items[j]? = some r' → r'.failed = false)
    (j : Nat) (r' : RItem) (hj : k < j) (hr' : (execFull srv req).resp.items[j]? = some r') :
    r'.failed = true ∧ r'.reason = reasonOperationCanceledByRequester := by
  have hlen := one_item_per_request_item srv req h
  have hjlt : j < req.items.length := by
    cases Nat.lt_or_ge j (execFull srv req).resp.items.length with
    | inl h => omega
    | inr h => rw [List.getElem?_eq_none h] at hr'; cases hr'
  have hget : req.items[j]? = some req.items[j] := List.getElem?_eq_getElem hjlt
  have := (stop_semantics srv req h hstop k r hk hf hfirst).2.1 j _ hj hget
  rw [this] at hr'
  cases hr'
  exact ⟨rfl, rfl⟩

/-- 6. Continue, unset, or any unknown option value: every item is processed — the handlers that
    run are exactly those of the items that reach a handler, each once (4.), and every item is
    answered with its own result (a failure never affects another item). -/
theorem continue_semantics (srv : Srv) (req : Req) (h : Accepted srv req)
    (hns : req.opt ≠ optStop) :
    (∀ c, c ∈ (execFull srv req).calls ↔
        ∃ it, req.items[c]? = some it ∧ dispatched srv it = true) ∧
    (∀ (j : Nat) (it : Item), req.items[j]? = some it →
        (execFull srv req).resp.items[j]? = some (itemResult srv it)) := by
  rw [execFull_accepted srv req h]
  have hs : (req.opt == optStop) = false := by simpa using hns
  rw [hs]
  constructor
  · intro c
    rw [loop_mem_calls]
    constructor
    · rintro ⟨j, it, hc, hget, hd, _⟩
      have hcj : c = j := by omega
      subst hcj; exact ⟨it, hget, hd⟩
    · rintro ⟨it, hget, hd⟩
      exact ⟨c, it, by omega, hget, hd, by simp [stoppedAt]⟩
  · intro j it hget
    rw [loop_items_get, hget]; simp [stoppedAt]

/-- 6'. … in particular, when every item reaches a handler, the call log is `[0, 1, …, n-1]`. -/
theorem continue_all_executed (srv : Srv) (req : Req) (h : Accepted srv req)
    (hns : req.opt ≠ optStop) (hall : ∀ it ∈ req.items, dispatched srv it = true) :
    (execFull srv req).calls = List.range req.items.length := by
  rw [execFull_accepted srv req h]
  have hs : (req.opt == optStop) = false := by simpa using hns
  rw [hs]
  simp only
  rw [loop_calls_all srv req.items 0 0 hall, List.range_eq_range']

/-- the same under Stop when no item fails. -/
theorem stop_without_failure (srv : Srv) (req : Req) (h : Accepted srv req)
    (hnofail : ∀ (j : Nat) (r : RItem), (execFull srv req).resp.items[j]? = some r → r.failed = false) :
    (∀ c, c ∈ (execFull srv req).calls ↔
        ∃ it, req.items[c]? = some it ∧ dispatched srv it = true) := by
  rw [execFull_accepted srv req h] at hnofail ⊢
  simp only at hnofail ⊢
  intro c
  rw [loop_mem_calls]
  constructor
  · rintro ⟨j, it, hc, hget, hd, _⟩
    have hcj : c = j := by omega
    subst hcj; exact ⟨it, hget, hd⟩
  · rintro ⟨it, hget, hd⟩
    refine ⟨c, it, by omega, hget, hd, ?_⟩
    exact not_stopped_upto_first_failed srv _ req.items 0 0 c
      (fun j r _ hr => hnofail j r hr) c (Nat.le_refl _)

/-- 7. A request that is not accepted is answered with exactly one failed item that echoes no
    operation and no id, batch count 1, the request's version (1.0 when the request carries the
    zero version), and NO handler runs. -/
theorem rejected (srv : Srv) (req : Req) (h : ¬ Accepted srv req) :
    ∃ reason, (execFull srv req).resp.items = [{ op := 0, id := none, failed := true, reason := reason }] ∧
      (execFull srv req).calls = [] ∧
      (execFull srv req).resp.count = 1 ∧
      (execFull srv req).resp.ver = (if req.ver ≠ ((0, 0) : Ver) then req.ver else v10) := by
  rw [execFull_rejected srv req h]
  unfold rejectErr
  split
  · exact ⟨_, rfl, rfl, rfl, rfl⟩
  · split <;> exact ⟨_, rfl, rfl, rfl, rfl⟩

/-- 7a. the Undo option. -/
theorem undo_rejected (srv : Srv) (req : Req) (h : req.opt = optUndo) :
    (∃ r, (execFull srv req).resp.items = [r] ∧ r.failed = true) ∧ (execFull srv req).calls = [] := by
  obtain ⟨reason, h1, h2, _⟩ := rejected srv req (fun hacc => hacc.2.1 h)
  exact ⟨⟨_, h1, rfl⟩, h2⟩

/-- 7b. an unsupported protocol version. -/
theorem unsupported_version_rejected (srv : Srv) (req : Req) (h : srv.supports req.ver = false) :
    (∃ r, (execFull srv req).resp.items = [r] ∧ r.failed = true) ∧ (execFull srv req).calls = [] := by
  obtain ⟨reason, h1, h2, _⟩ := rejected srv req (fun hacc => by rw [hacc.1] at h; cases h)
  exact ⟨⟨_, h1, rfl⟩, h2⟩

/-- 7c. a batch count that is not the number of items. -/
theorem count_mismatch_rejected (srv : Srv) (req : Req) (h : req.count ≠ (req.items.length : Int)) :
    (∃ r, (execFull srv req).resp.items = [r] ∧ r.failed = true) ∧ (execFull srv req).calls = [] := by
  obtain ⟨reason, h1, h2, _⟩ := rejected srv req (fun hacc => h hacc.2.2)
  exact ⟨⟨_, h1, rfl⟩, h2⟩

/-- 8. what "its own result" is: an item is answered failed exactly when it is refused before
    dispatch (critical extension, unregistered operation other than a built-in DiscoverVersions)
    or its handler returns an error or panics. -/
theorem itemResult_failed (srv : Srv) (it : Item) :
    (itemResult srv it).failed = true ↔
      it.ext = some true ∨ (srv.routed it.op = true ∧ it.out ≠ .success) ∨
      (srv.routed it.op = false ∧ it.discover = false) := by
  simp only [itemResult, fails]
  cases hr : srv.routed it.op <;> simp

/-! ### the batch loop around ANY batch-item middleware chain

`loopG f stop items 0 false ph` is the loop of `handleRequest` where `f` — index, placeholder, request item ↦
response item, placeholder — stands for `executeItemWithMiddleware` with whatever batch-item middlewares are
installed (they may skip, retry, rewrite or replace the result: C19). Its second component lists the items handed to
the chain. Echo and "handler at most once" are properties of the chain, not of the loop, and are NOT claimed
here; what the loop guarantees for every `f`: -/

/-- 9a. one response item per request item, whatever the chain does. -/
theorem chain_loop_one_item_per_request_item (f : Nat → Val → Item → GItemOut) (stop : Bool)
    (items : List Item) (ph : Val) :
    (loopG f stop items 0 false ph).1.length = items.length :=
  loopG_length f stop items 0 false ph

/-- 9b. Continue / unset: every item goes through the chain exactly once, in order. -/
theorem chain_loop_continue (f : Nat → Val → Item → GItemOut) (items : List Item) (ph : Val) :
    (loopG f false items 0 false ph).2 = List.range items.length := by
  rw [loopG_continue, List.range_eq_range']

/-- 9c. Stop: the decision is taken on the item as it comes OUT of the chain. With `k` the first response item that
    is failed, exactly the items `0..k` went through the chain (each once, in order), no later item did, and every
    later item is answered failed echoing its operation and id. -/
theorem chain_loop_stop (f : Nat → Val → Item → GItemOut) (items : List Item) (ph : Val)
    (k : Nat) (r : RItem) (hk : (loopG f true items 0 false ph).1[k]? = some r) (hf : r.failed = true)
    (hfirst : ∀ j r', j < k → (loopG f true items 0 false ph).1[j]? = some r' → r'.failed = false) :
    (loopG f true items 0 false ph).2 = List.range (k + 1) ∧
    ∀ j it, k < j → items[j]? = some it →
      ∃ r', (loopG f true items 0 false ph).1[j]? = some r' ∧
        r'.op = it.op ∧ r'.id = it.id ∧ r'.failed = true := by
  obtain ⟨h1, h2⟩ := loopG_stop f items 0 ph k r hk hf hfirst
  refine ⟨by rw [h1, List.range_eq_range'], ?_⟩
  intro j it hj hget
  exact ⟨canceled it, h2 j it hj hget, rfl, rfl, rfl⟩

/-- 9d. Stop, no failed response item: every item went through the chain. -/
theorem chain_loop_stop_without_failure (f : Nat → Val → Item → GItemOut) (items : List Item) (ph : Val)
    (h : ∀ (j : Nat) (r' : RItem), (loopG f true items 0 false ph).1[j]? = some r' → r'.failed = false) :
    (loopG f true items 0 false ph).2 = List.range items.length := by
  rw [loopG_stop_no_failure f items 0 ph h, List.range_eq_range']

/-- 9e. the middleware-free model is the instance `f = plainItem srv` of the generic loop. -/
theorem chain_loop_plain (srv : Srv) (req : Req) (h : Accepted srv req) :
    (execFull srv req).resp.items = (loopG (plainItem srv) (req.opt == optStop) req.items 0 false 0).1 := by
  rw [execFull_accepted srv req h]
  exact loop_eq_loopG srv _ req.items 0 false 0

/-! ### non-vacuity -/

/-- routes for operations 1 and 2, versions 1.4 and 1.2. -/
def srv0 : Srv := { supported := [(1, 4), (1, 2)], routes := [1, 2] }

def mk (op : Nat) (id : Option Nat) (out : Outcome) : Item :=
  { op := op, id := id, ext := none, discover := false, acts := [], out := out }

/-- success, handler error, success, panic, unregistered operation. -/
def items0 : List Item :=
  [mk 1 (some 7) .success, mk 2 none (.typedErr 1), mk 1 (some 9) .success, mk 2 none .panicOther,
   mk 33 none .success]

def reqStop : Req := { ver := (1, 4), opt := optStop, count := 5, items := items0 }
def reqCont : Req := { ver := (1, 2), opt := 0, count := 5, items := items0 }
def reqUnknownOpt : Req := { ver := (1, 2), opt := 7, count := 5, items := items0 }

example : Accepted srv0 reqStop := by decide
example : Accepted srv0 reqCont := by decide
example : Accepted srv0 reqUnknownOpt ∧ reqUnknownOpt.opt ≠ optStop := by decide

/-- hypotheses of `stop_semantics` hold with `k = 1`, and the run is the expected one. -/
example : (execFull srv0 reqStop).resp.items[1]? = some ⟨2, none, true, 1⟩ ∧
    (∀ j r', j < 1 → (execFull srv0 reqStop).resp.items[j]? = some r' → r'.failed = false) ∧
    (execFull srv0 reqStop).calls = [0, 1] ∧
    (execFull srv0 reqStop).resp.items =
      [⟨1, some 7, false, 0⟩, ⟨2, none, true, 1⟩, ⟨1, some 9, true, 9⟩, ⟨2, none, true, 9⟩,
       ⟨33, none, true, 9⟩] := by
  refine ⟨by decide, ?_, by decide, by decide⟩
  intro j r' hj
  have : j = 0 := by omega
  subst this
  intro h
  have : (execFull srv0 reqStop).resp.items[0]? = some ⟨1, some 7, false, 0⟩ := by decide
  rw [this] at h; cases h; rfl

example : (execFull srv0 reqCont).calls = [0, 1, 2, 3] ∧
    (execFull srv0 reqCont).resp.items =
      [⟨1, some 7, false, 0⟩, ⟨2, none, true, 1⟩, ⟨1, some 9, false, 0⟩, ⟨2, none, true, 256⟩,
       ⟨33, none, true, 5⟩] := by decide

/-- `continue_all_executed` applies to a batch where every item reaches a handler. -/
example : ∀ it ∈ items0.take 4, dispatched srv0 it = true := by decide

/-- the three ways to be rejected. -/
example : ¬ Accepted srv0 { reqCont with opt := optUndo } := by decide
example : srv0.supports (2, 0) = false := by decide
example : ¬ Accepted srv0 { reqCont with count := 4 } := by decide
example : (execFull srv0 { reqCont with ver := (0, 0) }).resp =
    { ver := (1, 0), count := 1, items := [⟨0, none, true, 4⟩] } := by decide

/-- a chain that masks the failure of item 1 (answers success instead) and fails item 2 itself: under Stop the batch
    goes on after item 1 and stops after item 2 — the decision follows what comes out of the chain. -/
def maskingChain : Nat → Val → Item → GItemOut := fun i ph it =>
  let o := executeItemWithMiddleware srv0 ph it
  if i = 1 then { ri := { o.ri with failed := false, reason := 0 }, ph := o.ph }
  else if i = 2 then { ri := { o.ri with failed := true }, ph := o.ph }
  else { ri := o.ri, ph := o.ph }

example : (loopG maskingChain true items0 0 false 0).2 = [0, 1, 2] ∧
    (loopG maskingChain true items0 0 false 0).1.map (·.failed) = [false, false, true, true, true] := by
  decide

end Kmip.C09
