/-
  Lemmas about the placeholder model: one cell (`runActs`), the world (`runWorld`), merges.
-/
import KmipModel.Model.Placeholder
namespace Kmip.Placeholder

/-! ### one cell -/

theorem runActs_append (c : Val) (xs ys : List PAct) :
    runActs c (xs ++ ys) =
      ((runActs (runActs c xs).1 ys).1, (runActs c xs).2 ++ (runActs (runActs c xs).1 ys).2) := by
  induction xs generalizing c with
  | nil => simp [runActs]
  | cons a as ih =>
    simp only [List.cons_append, runActs]
    rw [ih]
    simp [List.append_assoc]

theorem getLast?_cons_getD (v c : Val) (l : List Val) :
    (v :: l).getLast?.getD c = l.getLast?.getD v := by
  cases l with
  | nil => simp
  | cons x xs => simp [List.getLast?_cons]

theorem runActs_fst (c : Val) (as : List PAct) : (runActs c as).1 = lastWrite c as := by
  induction as generalizing c with
  | nil => simp [runActs, lastWrite, writes]
  | cons a as ih =>
    cases a with
    | read => simp only [runActs, stepCell]; rw [ih]; simp [lastWrite, writes]
    | set v =>
      simp only [runActs, stepCell]; rw [ih]
      simp only [lastWrite, writes]; rw [getLast?_cons_getD]
    | clear =>
      simp only [runActs, stepCell]; rw [ih]
      simp only [lastWrite, writes]; rw [getLast?_cons_getD]

theorem writes_append (xs ys : List PAct) : writes (xs ++ ys) = writes xs ++ writes ys := by
  induction xs with
  | nil => simp [writes]
  | cons a as ih => cases a <;> simp [writes, ih]

theorem lastWrite_append (c : Val) (xs ys : List PAct) :
    lastWrite c (xs ++ ys) = lastWrite (lastWrite c xs) ys := by
  rw [← runActs_fst, ← runActs_fst, ← runActs_fst, runActs_append]

/-! ### the world -/

@[simp] theorem upd_self (f : Nat → Option Ctx) (r : Nat) (c : Option Ctx) : upd f r c r = c := by
  simp [upd]

theorem upd_ne (f : Nat → Option Ctx) (r q : Nat) (c : Option Ctx) (h : q ≠ r) :
    upd f r c q = f q := by
  simp [upd, h]

theorem newBatchContext_fresh (impl : Impl) (hf : impl.alloc = .fresh) (heap : List Val)
    (parent : Ctx) :
    newBatchContext impl heap parent = (heap ++ [0], .batch heap.length :: parent) := by
  simp [newBatchContext, hf]

theorem getD_append_left (l : List Val) (a : Nat) (h : a < l.length) (x : Val) :
    (l ++ [x]).getD a 0 = l.getD a 0 := by
  simp [List.getD_eq_getElem?_getD, List.getElem?_append_left h]

theorem getD_append_new (l : List Val) (x : Val) : (l ++ [x]).getD l.length 0 = x := by
  simp [List.getD_eq_getElem?_getD]

theorem proj_cons_self (r : Nat) (s : GStep) (rest : List (Nat × GStep)) :
    proj r ((r, s) :: rest) = s :: proj r rest := by
  simp [proj]

theorem proj_cons_ne (r q : Nat) (s : GStep) (rest : List (Nat × GStep)) (h : q ≠ r) :
    proj r ((q, s) :: rest) = proj r rest := by
  simp [proj, h]

theorem obsOf_append (r : Nat) (xs ys : List (Nat × Obs)) :
    obsOf r (xs ++ ys) = obsOf r xs ++ obsOf r ys := by
  simp [obsOf]

theorem obsOf_step_other (r q : Nat) (o : Option Obs) (os : List (Nat × Obs)) (hq : q ≠ r) :
    obsOf r (o.toList.map (fun v => (q, v)) ++ os) = obsOf r os := by
  cases o <;> simp [obsOf, hq]

theorem obsOf_step_self (r : Nat) (o : Option Obs) (os : List (Nat × Obs)) :
    obsOf r (o.toList.map (fun v => (r, v)) ++ os) = o.toList ++ obsOf r os := by
  cases o <;> simp [obsOf]

/-- a step of another request never touches the contexts of `r`. -/
theorem step_ctx_other (impl : Impl) (w : World) (r q : Nat) (s : GStep) (hq : q ≠ r) :
    (stepWorld impl w q s).1.base r = w.base r ∧ (stepWorld impl w q s).1.cur r = w.cur r := by
  have hrq : r ≠ q := fun h => hq h.symm
  cases s with
  | enter p =>
    simp only [stepWorld]
    split <;> simp [upd_ne _ _ _ _ hrq]
  | wrap k =>
    simp only [stepWorld]
    split <;> simp [upd_ne _ _ _ _ hrq]
  | core =>
    simp only [stepWorld]
    split
    · simp
    · split <;> simp [upd_ne _ _ _ _ hrq]
  | act a =>
    simp only [stepWorld]
    split <;> simp

/-- with fresh allocation the heap only grows … -/
theorem step_len_mono (impl : Impl) (hf : impl.alloc = .fresh) (w : World) (q : Nat) (s : GStep) :
    w.heap.length ≤ (stepWorld impl w q s).1.heap.length := by
  cases s with
  | enter p =>
    simp only [stepWorld]
    split
    · simp [newBatchContext_fresh impl hf]
    · simp
  | wrap k => simp only [stepWorld]; split <;> simp
  | core =>
    simp only [stepWorld]
    split
    · simp
    · split
      · simp [newBatchContext_fresh impl hf]
      · simp
  | act a =>
    simp only [stepWorld]
    split <;> simp

/-- … and a step changes the content of an allocated holder only if it is an access through the
    holder bound in the context of the request that performs it. -/
theorem step_heap_other (impl : Impl) (hf : impl.alloc = .fresh) (w : World) (q a : Nat) (s : GStep)
    (ha : a < w.heap.length) (hne : (w.cur q).bind holder ≠ some a) :
    (stepWorld impl w q s).1.heap.getD a 0 = w.heap.getD a 0 := by
  cases s with
  | enter p =>
    simp only [stepWorld]
    split
    · simp [newBatchContext_fresh impl hf, List.getElem?_append_left ha]
    · simp
  | wrap k => simp only [stepWorld]; split <;> simp
  | core =>
    simp only [stepWorld]
    split
    · simp
    · split
      · simp [newBatchContext_fresh impl hf, List.getElem?_append_left ha]
      · simp
  | act x =>
    simp only [stepWorld]
    cases he : (w.cur q).bind holder with
    | none => simp
    | some b =>
      have hba : b ≠ a := fun h => hne (by rw [he, h])
      simp [List.getD_eq_getElem?_getD, List.getElem?_set_ne hba]

/-- an access of request `r` through its holder `a`. -/
theorem step_act_self (impl : Impl) (w : World) (r a : Nat) (x : PAct)
    (hr : (w.cur r).bind holder = some a) :
    stepWorld impl w r (.act x) =
      ({ w with heap := w.heap.set a (stepCell (w.heap.getD a 0) x).1 },
        (stepCell (w.heap.getD a 0) x).2.map Obs.val) := by
  simp [stepWorld, hr]

/-! #### what a request observes, as a function of its own remaining steps -/

/-- the own steps are those of a call of `HandleRequest` that has already started (`started`: a run
    is in progress): no second `enter`, and accesses only inside a run. -/
def wellStarted : Bool → List GStep → Bool
  | _, [] => true
  | st, .act _ :: ps => st && wellStarted st ps
  | _, .core :: ps => wellStarted true ps
  | st, .wrap _ :: ps => wellStarted st ps
  | _, .enter _ :: _ => false

/-- `atCore`: every run starts on a new, empty holder. -/
def expectCore : Val → List GStep → List Val
  | _, [] => []
  | v, .act a :: ps => (stepCell v a).2.toList ++ expectCore (stepCell v a).1 ps
  | _, .core :: ps => expectCore 0 ps
  | v, _ :: ps => expectCore v ps

/-- entry only: the runs of one call share the holder made by `HandleRequest`. -/
def expectEntry : Val → List GStep → List Val
  | _, [] => []
  | v, .act a :: ps => (stepCell v a).2.toList ++ expectEntry (stepCell v a).1 ps
  | v, _ :: ps => expectEntry v ps

theorem expectCore_acts (v : Val) (as : List PAct) (ps : List GStep) :
    expectCore v (as.map .act ++ ps) = (runActs v as).2 ++ expectCore (runActs v as).1 ps := by
  induction as generalizing v with
  | nil => simp [runActs]
  | cons a as ih => simp [expectCore, runActs, ih, List.append_assoc]

theorem expectEntry_acts (v : Val) (as : List PAct) (ps : List GStep) :
    expectEntry v (as.map .act ++ ps) = (runActs v as).2 ++ expectEntry (runActs v as).1 ps := by
  induction as generalizing v with
  | nil => simp [runActs]
  | cons a as ih => simp [expectEntry, runActs, ih, List.append_assoc]

theorem expectCore_wraps (v : Val) (ws : List Nat) (ps : List GStep) :
    expectCore v (ws.map .wrap ++ ps) = expectCore v ps := by
  induction ws with
  | nil => rfl
  | cons k ws ih => simpa [expectCore] using ih

theorem expectEntry_wraps (v : Val) (ws : List Nat) (ps : List GStep) :
    expectEntry v (ws.map .wrap ++ ps) = expectEntry v ps := by
  induction ws with
  | nil => rfl
  | cons k ws ih => simpa [expectEntry] using ih

theorem expectCore_runs (v : Val) (runs : List Run) :
    expectCore v (runsSteps runs) = soloRuns runs := by
  induction runs generalizing v with
  | nil => simp [runsSteps, expectCore, soloRuns]
  | cons rn rest ih =>
    simp only [runsSteps, runSteps, List.append_assoc, List.cons_append]
    rw [expectCore_wraps]
    simp only [expectCore]
    rw [expectCore_acts, ih]
    simp [soloRuns, solo]

theorem expectEntry_runs (v : Val) (runs : List Run) :
    expectEntry v (runsSteps runs) = (runActs v (runs.map (·.acts)).flatten).2 := by
  induction runs generalizing v with
  | nil => simp [runsSteps, expectEntry, runActs]
  | cons rn rest ih =>
    simp only [runsSteps, runSteps, List.append_assoc, List.cons_append]
    rw [expectEntry_wraps]
    simp only [expectEntry]
    rw [expectEntry_acts, ih]
    simp [runActs_append]

theorem wellStarted_acts (as : List PAct) (ps : List GStep) :
    wellStarted true (as.map .act ++ ps) = wellStarted true ps := by
  induction as with
  | nil => rfl
  | cons a as ih => simpa [wellStarted] using ih

theorem wellStarted_wraps (st : Bool) (ws : List Nat) (ps : List GStep) :
    wellStarted st (ws.map .wrap ++ ps) = wellStarted st ps := by
  induction ws with
  | nil => rfl
  | cons k ws ih => simpa [wellStarted] using ih

theorem wellStarted_runs (st : Bool) (runs : List Run) : wellStarted st (runsSteps runs) = true := by
  induction runs generalizing st with
  | nil => simp [runsSteps, wellStarted]
  | cons rn rest ih =>
    simp only [runsSteps, runSteps, List.append_assoc, List.cons_append]
    rw [wellStarted_wraps]
    simp only [wellStarted]
    rw [wellStarted_acts, ih]

theorem obsOf_no_steps (impl : Impl) (r : Nat) (sched : List (Nat × GStep)) (w : World)
    (h : proj r sched = []) : obsOf r (runWorld impl w sched).2 = [] := by
  induction sched generalizing w with
  | nil => simp [runWorld, obsOf]
  | cons e rest ih =>
    obtain ⟨q, s⟩ := e
    by_cases hq : q = r
    · subst hq; rw [proj_cons_self] at h; cases h
    · rw [proj_cons_ne r q s rest hq] at h
      simp only [runWorld]
      rw [obsOf_step_other r q _ _ hq]
      exact ih _ h

/-! #### `atCore`: one holder per run -/

/-- the holders the handlers currently hold are allocated, and no two requests hold the same. -/
structure InvC (w : World) : Prop where
  bound : ∀ q a, (w.cur q).bind holder = some a → a < w.heap.length
  inj : ∀ q q' a, (w.cur q).bind holder = some a → (w.cur q').bind holder = some a → q = q'

theorem InvC_init : InvC World.init :=
  ⟨by intro q a h; simp [World.init] at h, by intro q q' a h; simp [World.init] at h⟩

theorem InvC_step (impl : Impl) (hf : impl.alloc = .fresh) (hc : impl.atCore = true) (w : World)
    (r : Nat) (s : GStep) (h : InvC w) : InvC (stepWorld impl w r s).1 := by
  have hmono := step_len_mono impl hf w r s
  -- steps other than `core` and `enter` of `r` leave every `cur` alone
  cases s with
  | enter p =>
    have hcur : ∀ q, (stepWorld impl w r (.enter p)).1.cur q = upd w.cur r none q := by
      intro q; simp only [stepWorld]; split <;> rfl
    refine ⟨?_, ?_⟩
    · intro q a hq
      rw [hcur] at hq
      by_cases hqr : q = r
      · subst hqr; simp at hq
      · rw [upd_ne _ _ _ _ hqr] at hq
        exact Nat.lt_of_lt_of_le (h.bound q a hq) hmono
    · intro q q' a hq hq'
      rw [hcur] at hq hq'
      by_cases hqr : q = r
      · subst hqr; simp at hq
      · by_cases hqr' : q' = r
        · subst hqr'; simp at hq'
        · rw [upd_ne _ _ _ _ hqr] at hq; rw [upd_ne _ _ _ _ hqr'] at hq'
          exact h.inj q q' a hq hq'
  | wrap k =>
    have hw : (stepWorld impl w r (.wrap k)).1.cur = w.cur ∧
        (stepWorld impl w r (.wrap k)).1.heap = w.heap := by
      simp only [stepWorld]; split <;> simp
    exact ⟨by rw [hw.1, hw.2]; exact h.bound, by rw [hw.1]; exact h.inj⟩
  | core =>
    cases hb : w.base r with
    | none =>
      have : (stepWorld impl w r .core).1 = w := by simp [stepWorld, hb]
      rw [this]; exact h
    | some b =>
      have hstep : (stepWorld impl w r .core).1 =
          { w with heap := w.heap ++ [0], cur := upd w.cur r (some (.batch w.heap.length :: b)) } := by
        simp [stepWorld, hb, hc, newBatchContext_fresh impl hf]
      rw [hstep]
      refine ⟨?_, ?_⟩
      · intro q a hq
        simp only [List.length_append, List.length_cons, List.length_nil] at hq ⊢
        by_cases hqr : q = r
        · subst hqr; simp [holder] at hq; omega
        · rw [upd_ne _ _ _ _ hqr] at hq
          have := h.bound q a hq; omega
      · intro q q' a hq hq'
        simp only at hq hq'
        by_cases hqr : q = r <;> by_cases hqr' : q' = r
        · rw [hqr, hqr']
        · subst hqr; simp [holder] at hq
          rw [upd_ne _ _ _ _ hqr'] at hq'
          have := h.bound q' a hq'; omega
        · subst hqr'; simp [holder] at hq'
          rw [upd_ne _ _ _ _ hqr] at hq
          have := h.bound q a hq; omega
        · rw [upd_ne _ _ _ _ hqr] at hq; rw [upd_ne _ _ _ _ hqr'] at hq'
          exact h.inj q q' a hq hq'
  | act x =>
    have hw : (stepWorld impl w r (.act x)).1.cur = w.cur ∧
        (stepWorld impl w r (.act x)).1.heap.length = w.heap.length := by
      simp only [stepWorld]; split <;> simp
    exact ⟨by rw [hw.1, hw.2]; exact h.bound, by rw [hw.1]; exact h.inj⟩

/-- the content of the holder a request's handlers currently hold (`""` when there is none). -/
def curVal (w : World) (r : Nat) : Val :=
  match (w.cur r).bind holder with
  | some a => w.heap.getD a 0
  | none => 0

/-- a step of another request does not change what `r`'s handlers hold. -/
theorem curVal_step_other (impl : Impl) (hf : impl.alloc = .fresh) (w : World) (r q : Nat)
    (s : GStep) (hinv : InvC w) (hq : q ≠ r) :
    curVal (stepWorld impl w q s).1 r = curVal w r := by
  have hctx := (step_ctx_other impl w r q s hq).2
  simp only [curVal, hctx]
  cases hr : (w.cur r).bind holder with
  | none => rfl
  | some a =>
    simp only
    apply step_heap_other impl hf w q a s (hinv.bound r a hr)
    intro hqa
    exact hq (hinv.inj q r a hqa hr)

/-- MAIN LEMMA (`atCore`). Request `r` has been entered; its remaining own steps inside the
    schedule are `ps`: whatever the other requests do, it observes `expectCore` of them. -/
theorem runWorld_core (impl : Impl) (hf : impl.alloc = .fresh) (hc : impl.atCore = true) (r : Nat)
    (sched : List (Nat × GStep)) (w : World) (ps : List GStep) (hinv : InvC w)
    (hb : (w.base r).isSome = true)
    (hws : wellStarted ((w.cur r).bind holder).isSome ps = true) (hproj : proj r sched = ps) :
    obsOf r (runWorld impl w sched).2 = (expectCore (curVal w r) ps).map Obs.val := by
  induction sched generalizing w ps with
  | nil =>
    simp [proj] at hproj; subst hproj
    simp [runWorld, obsOf, expectCore]
  | cons e rest ih =>
    obtain ⟨q, s⟩ := e
    by_cases hq : q = r
    · subst hq
      rw [proj_cons_self] at hproj
      subst hproj
      simp only [runWorld]
      rw [obsOf_step_self]
      have hinv' := InvC_step impl hf hc w q s hinv
      cases s with
      | enter p => simp [wellStarted] at hws
      | wrap k =>
        obtain ⟨b, hbb⟩ := Option.isSome_iff_exists.mp hb
        have hstep : stepWorld impl w q (.wrap k) =
            ({ w with base := upd w.base q (some (.other k :: b)) }, none) := by
          simp [stepWorld, hbb]
        rw [hstep] at hinv' ⊢
        simp only [Option.toList_none, List.nil_append, expectCore]
        exact ih _ _ hinv' (by simp) (by simpa [wellStarted] using hws) rfl
      | core =>
        obtain ⟨b, hbb⟩ := Option.isSome_iff_exists.mp hb
        have hstep : stepWorld impl w q .core =
            ({ w with heap := w.heap ++ [0],
                      cur := upd w.cur q (some (.batch w.heap.length :: b)) }, none) := by
          simp [stepWorld, hbb, hc, newBatchContext_fresh impl hf]
        rw [hstep] at hinv' ⊢
        simp only [Option.toList_none, List.nil_append, expectCore]
        have hcv : curVal (⟨w.heap ++ [0], w.base, upd w.cur q (some (.batch w.heap.length :: b))⟩ : World) q = 0 := by
          simp [curVal, holder]
        rw [ih _ _ hinv' (by simpa using hb) (by simpa [wellStarted, holder] using hws) rfl, hcv]
      | act x =>
        simp only [wellStarted, Bool.and_eq_true] at hws
        obtain ⟨a, ha⟩ := Option.isSome_iff_exists.mp hws.1
        have hal := hinv.bound q a ha
        rw [step_act_self impl w q a x ha] at hinv' ⊢
        have hcv : curVal w q = w.heap.getD a 0 := by simp [curVal, ha]
        have hcv' : curVal ({ w with heap := w.heap.set a (stepCell (w.heap.getD a 0) x).1 } : World) q =
            (stepCell (w.heap.getD a 0) x).1 := by
          simp [curVal, ha, List.getD_eq_getElem?_getD, List.getElem?_set_self hal]
        simp only [expectCore, hcv, List.map_append]
        rw [ih _ _ hinv' (by simpa using hb) (by simpa [ha] using hws.2) rfl, hcv']
        cases (stepCell (w.heap.getD a 0) x).2 <;> simp
    · rw [proj_cons_ne r q s rest hq] at hproj
      simp only [runWorld]
      rw [obsOf_step_other r q _ _ hq]
      have hctx := step_ctx_other impl w r q s hq
      rw [ih _ ps (InvC_step impl hf hc w q s hinv) (by rw [hctx.1]; exact hb)
        (by rw [hctx.2]; exact hws) hproj, curVal_step_other impl hf w r q s hinv hq]

/-- a request that has not been entered yet, running `enter p :: ps` inside the schedule. -/
theorem runWorld_core_start (impl : Impl) (hf : impl.alloc = .fresh) (hc : impl.atCore = true)
    (r : Nat) (sched : List (Nat × GStep)) (w : World) (p : Parent) (ps : List GStep)
    (hinv : InvC w) (hws : wellStarted false ps = true) (hproj : proj r sched = .enter p :: ps) :
    obsOf r (runWorld impl w sched).2 = (expectCore 0 ps).map Obs.val := by
  induction sched generalizing w with
  | nil => simp [proj] at hproj
  | cons e rest ih =>
    obtain ⟨q, s⟩ := e
    by_cases hq : q = r
    · subst hq
      rw [proj_cons_self] at hproj
      simp only [List.cons.injEq] at hproj
      obtain ⟨hs, hrest⟩ := hproj
      subst hs
      simp only [runWorld]
      rw [obsOf_step_self]
      have hinv' := InvC_step impl hf hc w q (.enter p) hinv
      have hobs : (stepWorld impl w q (.enter p)).2 = none := by
        simp only [stepWorld]; split <;> rfl
      have hcur : (stepWorld impl w q (.enter p)).1.cur q = none := by
        simp only [stepWorld]; split <;> simp
      have hbase : ((stepWorld impl w q (.enter p)).1.base q).isSome = true := by
        simp only [stepWorld]; split <;> simp
      rw [hobs]
      simp only [Option.toList_none, List.nil_append]
      rw [runWorld_core impl hf hc q rest _ ps hinv' hbase (by simpa [hcur] using hws) hrest]
      simp [curVal, hcur]
    · rw [proj_cons_ne r q s rest hq] at hproj
      simp only [runWorld]
      rw [obsOf_step_other r q _ _ hq]
      exact ih _ (InvC_step impl hf hc w q s hinv) hproj

/-! #### entry only: one holder per call of `HandleRequest` -/

/-- the holders made by `HandleRequest` are allocated, no two requests have the same, and the
    context the handlers hold reaches the holder of their own request. -/
structure InvE (w : World) : Prop where
  bound : ∀ q a, (w.base q).bind holder = some a → a < w.heap.length
  inj : ∀ q q' a, (w.base q).bind holder = some a → (w.base q').bind holder = some a → q = q'
  same : ∀ q c, w.cur q = some c → holder c = (w.base q).bind holder

theorem InvE_init : InvE World.init :=
  ⟨by intro q a h; simp [World.init] at h, by intro q q' a h; simp [World.init] at h,
   by intro q c h; simp [World.init] at h⟩

theorem InvE_step (impl : Impl) (hf : impl.alloc = .fresh) (he : impl.atEntry = true)
    (hc : impl.atCore = false) (w : World) (r : Nat) (s : GStep) (h : InvE w) :
    InvE (stepWorld impl w r s).1 := by
  cases s with
  | enter p =>
    have hstep : (stepWorld impl w r (.enter p)).1 =
        { heap := w.heap ++ [0],
          base := upd w.base r (some (.batch w.heap.length ::
            parentCtx w p)),
          cur := upd w.cur r none } := by
      simp [stepWorld, he, newBatchContext_fresh impl hf]
    rw [hstep]
    refine ⟨?_, ?_, ?_⟩
    · intro q a hq
      simp only [List.length_append, List.length_cons, List.length_nil] at hq ⊢
      by_cases hqr : q = r
      · subst hqr; simp [holder] at hq; omega
      · rw [upd_ne _ _ _ _ hqr] at hq
        have := h.bound q a hq; omega
    · intro q q' a hq hq'
      simp only at hq hq'
      by_cases hqr : q = r <;> by_cases hqr' : q' = r
      · rw [hqr, hqr']
      · subst hqr; simp [holder] at hq
        rw [upd_ne _ _ _ _ hqr'] at hq'
        have := h.bound q' a hq'; omega
      · subst hqr'; simp [holder] at hq'
        rw [upd_ne _ _ _ _ hqr] at hq
        have := h.bound q a hq; omega
      · rw [upd_ne _ _ _ _ hqr] at hq; rw [upd_ne _ _ _ _ hqr'] at hq'
        exact h.inj q q' a hq hq'
    · intro q c hq
      simp only at hq ⊢
      by_cases hqr : q = r
      · subst hqr; simp at hq
      · rw [upd_ne _ _ _ _ hqr] at hq ⊢
        exact h.same q c hq
  | wrap k =>
    cases hb : w.base r with
    | none =>
      have : (stepWorld impl w r (.wrap k)).1 = w := by simp [stepWorld, hb]
      rw [this]; exact h
    | some b =>
      have hstep : (stepWorld impl w r (.wrap k)).1 =
          { w with base := upd w.base r (some (.other k :: b)) } := by
        simp [stepWorld, hb]
      rw [hstep]
      have hbase : ∀ q, (upd w.base r (some (.other k :: b)) q).bind holder =
          (w.base q).bind holder := by
        intro q
        by_cases hqr : q = r
        · subst hqr; simp [holder, hb]
        · rw [upd_ne _ _ _ _ hqr]
      refine ⟨?_, ?_, ?_⟩
      · intro q a hq; simp only [hbase] at hq; exact h.bound q a hq
      · intro q q' a hq hq'; simp only [hbase] at hq hq'; exact h.inj q q' a hq hq'
      · intro q c hq; simp only [hbase]; exact h.same q c hq
  | core =>
    cases hb : w.base r with
    | none =>
      have : (stepWorld impl w r .core).1 = w := by simp [stepWorld, hb]
      rw [this]; exact h
    | some b =>
      have hstep : (stepWorld impl w r .core).1 = { w with cur := upd w.cur r (some b) } := by
        simp [stepWorld, hb, hc]
      rw [hstep]
      refine ⟨h.bound, h.inj, ?_⟩
      intro q c hq
      simp only at hq ⊢
      by_cases hqr : q = r
      · subst hqr; simp at hq; subst hq; simp [hb]
      · rw [upd_ne _ _ _ _ hqr] at hq
        exact h.same q c hq
  | act x =>
    have hw : (stepWorld impl w r (.act x)).1.cur = w.cur ∧
        (stepWorld impl w r (.act x)).1.base = w.base ∧
        (stepWorld impl w r (.act x)).1.heap.length = w.heap.length := by
      simp only [stepWorld]; split <;> simp
    exact ⟨by rw [hw.2.1, hw.2.2]; exact h.bound, by rw [hw.2.1]; exact h.inj,
      by rw [hw.1, hw.2.1]; exact h.same⟩

/-- the content of the holder made by `HandleRequest` for request `r`. -/
def baseVal (w : World) (r : Nat) : Val :=
  match (w.base r).bind holder with
  | some a => w.heap.getD a 0
  | none => 0

theorem baseVal_step_other (impl : Impl) (hf : impl.alloc = .fresh) (w : World) (r q : Nat)
    (s : GStep) (hinv : InvE w) (hq : q ≠ r) :
    baseVal (stepWorld impl w q s).1 r = baseVal w r := by
  have hctx := (step_ctx_other impl w r q s hq).1
  simp only [baseVal, hctx]
  cases hr : (w.base r).bind holder with
  | none => rfl
  | some a =>
    simp only
    apply step_heap_other impl hf w q a s (hinv.bound r a hr)
    intro hqa
    cases hcq : w.cur q with
    | none => simp [hcq] at hqa
    | some c =>
      have := hinv.same q c hcq
      simp only [hcq, Option.bind_some] at hqa
      rw [this] at hqa
      exact hq (hinv.inj q r a hqa hr)

/-- MAIN LEMMA (entry only). -/
theorem runWorld_entry (impl : Impl) (hf : impl.alloc = .fresh) (he : impl.atEntry = true)
    (hc : impl.atCore = false) (r : Nat) (sched : List (Nat × GStep)) (w : World)
    (ps : List GStep) (hinv : InvE w) (hb : ((w.base r).bind holder).isSome = true)
    (hws : wellStarted (w.cur r).isSome ps = true) (hproj : proj r sched = ps) :
    obsOf r (runWorld impl w sched).2 = (expectEntry (baseVal w r) ps).map Obs.val := by
  induction sched generalizing w ps with
  | nil =>
    simp [proj] at hproj; subst hproj
    simp [runWorld, obsOf, expectEntry]
  | cons e rest ih =>
    obtain ⟨q, s⟩ := e
    by_cases hq : q = r
    · subst hq
      rw [proj_cons_self] at hproj
      subst hproj
      simp only [runWorld]
      rw [obsOf_step_self]
      have hinv' := InvE_step impl hf he hc w q s hinv
      obtain ⟨a, ha⟩ := Option.isSome_iff_exists.mp hb
      cases hbb : w.base q with
      | none => simp [hbb] at ha
      | some b =>
      have hab : holder b = some a := by simpa [hbb] using ha
      cases s with
      | enter p => simp [wellStarted] at hws
      | wrap k =>
        have hstep : stepWorld impl w q (.wrap k) =
            ({ w with base := upd w.base q (some (.other k :: b)) }, none) := by
          simp [stepWorld, hbb]
        rw [hstep] at hinv' ⊢
        simp only [Option.toList_none, List.nil_append, expectEntry]
        have hbv : baseVal ({ w with base := upd w.base q (some (.other k :: b)) } : World) q = baseVal w q := by
          simp [baseVal, holder, hbb]
        rw [ih _ _ hinv' (by simp [holder, hab]) (by simpa [wellStarted] using hws) rfl, hbv]
      | core =>
        have hstep : stepWorld impl w q .core = ({ w with cur := upd w.cur q (some b) }, none) := by
          simp [stepWorld, hbb, hc]
        rw [hstep] at hinv' ⊢
        simp only [Option.toList_none, List.nil_append, expectEntry]
        have hbv : baseVal ({ w with cur := upd w.cur q (some b) } : World) q = baseVal w q := rfl
        rw [ih _ _ hinv' (by simpa using hb) (by simpa [wellStarted] using hws) rfl, hbv]
      | act x =>
        simp only [wellStarted, Bool.and_eq_true] at hws
        obtain ⟨c, hcc⟩ := Option.isSome_iff_exists.mp hws.1
        have hca : (w.cur q).bind holder = some a := by
          rw [hcc, Option.bind_some, hinv.same q c hcc, hbb]; exact hab
        have hal := hinv.bound q a ha
        rw [step_act_self impl w q a x hca] at hinv' ⊢
        have hbv : baseVal w q = w.heap.getD a 0 := by simp [baseVal, ha]
        have hbv' : baseVal ({ w with heap := w.heap.set a (stepCell (w.heap.getD a 0) x).1 } : World) q =
            (stepCell (w.heap.getD a 0) x).1 := by
          simp [baseVal, ha, List.getD_eq_getElem?_getD, List.getElem?_set_self hal]
        simp only [expectEntry, hbv, List.map_append]
        rw [ih _ _ hinv' (by simpa using hb) (by simpa [hcc] using hws.2) rfl, hbv']
        cases (stepCell (w.heap.getD a 0) x).2 <;> simp
    · rw [proj_cons_ne r q s rest hq] at hproj
      simp only [runWorld]
      rw [obsOf_step_other r q _ _ hq]
      have hctx := step_ctx_other impl w r q s hq
      rw [ih _ ps (InvE_step impl hf he hc w q s hinv) (by rw [hctx.1]; exact hb)
        (by rw [hctx.2]; exact hws) hproj, baseVal_step_other impl hf w r q s hinv hq]

theorem runWorld_entry_start (impl : Impl) (hf : impl.alloc = .fresh) (he : impl.atEntry = true)
    (hc : impl.atCore = false) (r : Nat) (sched : List (Nat × GStep)) (w : World) (p : Parent)
    (ps : List GStep) (hinv : InvE w) (hws : wellStarted false ps = true)
    (hproj : proj r sched = .enter p :: ps) :
    obsOf r (runWorld impl w sched).2 = (expectEntry 0 ps).map Obs.val := by
  induction sched generalizing w with
  | nil => simp [proj] at hproj
  | cons e rest ih =>
    obtain ⟨q, s⟩ := e
    by_cases hq : q = r
    · subst hq
      rw [proj_cons_self] at hproj
      simp only [List.cons.injEq] at hproj
      obtain ⟨hs, hrest⟩ := hproj
      subst hs
      simp only [runWorld]
      rw [obsOf_step_self]
      have hinv' := InvE_step impl hf he hc w q (.enter p) hinv
      have hstep : stepWorld impl w q (.enter p) =
          ({ heap := w.heap ++ [0],
             base := upd w.base q (some (.batch w.heap.length ::
               parentCtx w p)),
             cur := upd w.cur q none }, none) := by
        simp [stepWorld, he, newBatchContext_fresh impl hf]
      rw [hstep] at hinv' ⊢
      simp only [Option.toList_none, List.nil_append]
      rw [runWorld_entry impl hf he hc q rest _ ps hinv' (by simp [holder]) (by simpa using hws) hrest]
      simp [baseVal, holder]
    · rw [proj_cons_ne r q s rest hq] at hproj
      simp only [runWorld]
      rw [obsOf_step_other r q _ _ hq]
      exact ih _ (InvE_step impl hf he hc w q s hinv) hproj

/-! ### merges -/

theorem proj_of_interleaving {progs : List (List GStep)} {sched : List (Nat × GStep)}
    (h : Interleaving progs sched) (j : Nat) : proj j sched = progs[j]?.getD [] := by
  induction h with
  | done progs hall =>
    cases hj : progs[j]? with
    | none => simp [proj]
    | some p =>
      have := hall p (List.mem_of_getElem? hj)
      simp [proj, this]
  | step progs i s rest sched hget _ ih =>
    have hi : i < progs.length := by
      cases Nat.lt_or_ge i progs.length with
      | inl h => exact h
      | inr h => rw [List.getElem?_eq_none h] at hget; cases hget
    by_cases hij : i = j
    · subst hij
      rw [proj_cons_self, ih, hget]
      simp [List.getElem?_set_self hi]
    · rw [proj_cons_ne j i s sched hij, ih, List.getElem?_set_ne hij]

theorem seqSched_interleaving (ps pre : List (List GStep)) (hpre : ∀ p ∈ pre, p = []) :
    Interleaving (pre ++ ps) (seqSched pre.length ps) := by
  induction ps generalizing pre with
  | nil => exact .done _ (by simpa using hpre)
  | cons p ps ih =>
    induction p with
    | nil =>
      simp only [seqSched, List.map_nil, List.nil_append]
      have := ih (pre ++ [[]]) (by
        intro p hp; simp at hp; cases hp with
        | inl h => exact hpre p h
        | inr h => exact h)
      simpa using this
    | cons s rest ihp =>
      simp only [seqSched, List.map_cons, List.cons_append]
      refine .step _ pre.length s rest _ (by simp) ?_
      simpa [seqSched] using ihp

theorem mergeBy_interleaving (is : List Nat) (progs : List (List GStep)) :
    Interleaving progs (mergeBy is progs) := by
  induction is generalizing progs with
  | nil => simpa [mergeBy] using seqSched_interleaving progs [] (by simp)
  | cons i is ih =>
    simp only [mergeBy]
    split
    · next s rest h => exact .step _ i s rest _ h (ih _)
    · exact ih _

end Kmip.Placeholder
