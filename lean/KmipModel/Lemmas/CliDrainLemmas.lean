/-
  Glue between `CliConn` (one tracked connection) and `CliDrain` (a connection the client has let go of):
  every state in which `reconnect` executes `c.conn = nil` projects onto a start state of `CliDrain`.
-/
import KmipModel.Model.CliDrain
namespace Kmip.CliDrain
open Kmip.CliLts Kmip.CliConn

theorem rRecol_mem (r : RP) : rRecol r ∈ allRP := by cases r <;> simp [rRecol, allRP]
theorem wRecol_mem (w : WP) : wRecol w ∈ allWP := by cases w <;> simp [wRecol, allWP]
theorem bool_mem (b : Bool) : b ∈ bools := by cases b <;> simp [bools]

/-- the program counter of a `Close()` that still holds the connection, as `proj` keeps it. -/
def projCp (s : St) : CP := if s.cref ∧ (s.cp = .ctA ∨ s.cp = .ctB) then s.cp else .c0

def projCause (s : St) : Nat := if s.cause = 0 then 0 else if s.cause = 1 then 1 else 2

theorem projCp_mem (s : St) : projCp s ∈ allCP := by
  unfold projCp
  split
  · rename_i h; rcases h.2 with h | h <;> simp [h, allCP]
  · simp [allCP]

theorem projCause_mem (s : St) : projCause s ∈ [0, 1, 2] := by
  unfold projCause
  split
  · simp
  · split <;> simp

theorem proj_eq (s : St) :
    proj s = mk (rRecol s.rp) (wRecol s.wp) (projCause s) s.txNil s.txClosed s.netClosed (projCp s) := rfl

theorem proj_mem_starts (s : St) : proj s ∈ starts := by
  rw [proj_eq]
  unfold starts
  simp only [List.mem_flatMap, List.mem_map]
  exact ⟨_, rRecol_mem _, _, wRecol_mem _, _, projCause_mem s, _, bool_mem _, _, bool_mem _, _, bool_mem _,
    _, projCp_mem s, rfl⟩

theorem handoffOk_proj (s : St) (h : handoffOk s = true) : handoffOk (proj s) = true := by
  rw [proj_eq]
  simp only [handoffOk, Bool.and_eq_true, Bool.or_eq_true, bne_iff_ne, beq_iff_eq] at h
  obtain ⟨_, h⟩ := h
  simp only [handoffOk, mk, Bool.and_eq_true, Bool.or_eq_true, bne_iff_ne, beq_iff_eq, true_and]
  have hc : s.cause ≠ 0 → projCause s ≠ 0 := by
    intro h0; unfold projCause; rw [if_neg h0]; split <;> simp
  rcases h with ⟨⟨h1, h2⟩, h3⟩ | ⟨hr, hp⟩
  · exact Or.inl ⟨⟨hc h1, h2⟩, h3⟩
  · right
    rcases hp with hp | ⟨hp, h1⟩
    · have : projCp s = .ctA := by unfold projCp; rw [if_pos ⟨hr, Or.inl hp⟩]; exact hp
      rw [this]; simp
    · have : projCp s = .ctB := by unfold projCp; rw [if_pos ⟨hr, Or.inr hp⟩]; exact hp
      rw [this]; exact ⟨by simp, Or.inr ⟨rfl, hc h1⟩⟩

/-- a let-go connection that satisfies the hand-off condition is a start state of `CliDrain`. -/
theorem start_mem (p : Params) (s : St) (h : handoffOk s = true) :
    some (norm p (proj s)) ∈ step p none := by
  simp only [step, List.mem_map, List.mem_filter]
  exact ⟨proj s, ⟨proj_mem_starts s, handoffOk_proj s h⟩, rfl⟩

/-- runs from a start state are runs of the system started at `none`. -/
theorem reachable_of_sysAt {p : Params} {d0 : St} (h0 : some d0 ∈ step p none) {d : Option St}
    (h : Reachable (sysAt p d0) d) : Reachable (sys p) d := by
  induction h with
  | init => exact Reachable.step Reachable.init h0
  | step _ ht ih => exact Reachable.step ih ht

end Kmip.CliDrain
