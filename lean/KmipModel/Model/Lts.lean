/-
  Lts — a tiny framework for finite-branching transition systems and kernel-checkable
  inductive-invariant certificates (core Lean only).

  * `Sys σ`            initial state + executable successor function (finite branching).
  * `Reachable S s`    the usual inductive reachability (paths of ANY length).
  * `Tree`             a search tree of `Nat` state codes; `Tree.mem` is structural recursion, so
                       the kernel evaluates it (`decide +kernel`). Soundness of a certificate does
                       NOT need the tree to be ordered or balanced: `mem x = true` implies that `x`
                       occurs in the tree, which is all the proofs use. Order/balance only make the
                       check fast and the certificate *complete* (a badly built tree merely fails).
  * `closedUnder`      init ∈ R ∧ every successor of (the decoding of) every member is in R.
  * `cert_sound`, `safe_of_cert`   proved once, for every system and coding with
                       `decode (code s) = s`.
  * mixed-radix packing `pack`/`unpack` with its round-trip lemma, used by the concrete systems to
                       define `code`/`decode` over their digit lists.
  * `prod`             the interleaved product of any number of copies of a system, and the lifting
                       of a per-component invariant to it (isolation).
-/
namespace Kmip.Lts

structure Sys (σ : Type) where
  init : σ
  step : σ → List σ

inductive Reachable {σ : Type} (S : Sys σ) : σ → Prop
  | init : Reachable S S.init
  | step {s t : σ} : Reachable S s → t ∈ S.step s → Reachable S t

/-- an invariant that holds initially and is preserved by every step holds in every reachable
    state. -/
theorem Reachable.invariant {σ : Type} {S : Sys σ} (P : σ → Prop) (h0 : P S.init)
    (hs : ∀ s t, P s → t ∈ S.step s → P t) : ∀ s, Reachable S s → P s := by
  intro s hr
  induction hr with
  | init => exact h0
  | step _ ht ih => exact hs _ _ ih ht

/-! ### search trees of state codes -/

inductive Tree where
  | leaf
  | node (l : Tree) (k : Nat) (r : Tree)

namespace Tree

/-- membership, written with the `Nat` primitives the kernel evaluates natively. -/
def mem : Tree → Nat → Bool
  | leaf, _ => false
  | node l k r, x => cond (Nat.beq x k) true (cond (Nat.ble x k) (l.mem x) (r.mem x))

/-- the keys, in order. -/
def toList : Tree → List Nat
  | leaf => []
  | node l k r => l.toList ++ k :: r.toList

def all (p : Nat → Bool) : Tree → Bool
  | leaf => true
  | node l k r => l.all p && p k && r.all p

def size : Tree → Nat
  | leaf => 0
  | node l _ r => l.size + 1 + r.size

theorem mem_toList {t : Tree} {x : Nat} (h : t.mem x = true) : x ∈ t.toList := by
  induction t with
  | leaf => simp [mem] at h
  | node l k r ihl ihr =>
    unfold mem at h
    simp only [toList, List.mem_append, List.mem_cons]
    cases h1 : Nat.beq x k with
    | true => exact Or.inr (Or.inl (Nat.eq_of_beq_eq_true h1))
    | false =>
      rw [h1] at h
      cases h2 : Nat.ble x k with
      | true => rw [h2] at h; exact Or.inl (ihl h)
      | false => rw [h2] at h; exact Or.inr (Or.inr (ihr h))

theorem all_toList {p : Nat → Bool} {t : Tree} (h : t.all p = true) : ∀ x ∈ t.toList, p x = true := by
  induction t with
  | leaf => intro x hx; simp [toList] at hx
  | node l k r ihl ihr =>
    simp only [all, Bool.and_eq_true] at h
    intro x hx
    simp only [toList, List.mem_append, List.mem_cons] at hx
    rcases hx with hx | hx | hx
    · exact ihl h.1.1 x hx
    · rw [hx]; exact h.1.2
    · exact ihr h.2 x hx

theorem all_mem {p : Nat → Bool} {t : Tree} {x : Nat} (h : t.all p = true) (hx : t.mem x = true) :
    p x = true :=
  all_toList h x (mem_toList hx)

end Tree

/-! ### certificates -/

/-- a coding of states as natural numbers. `decode` need only invert `code`. -/
structure Coding (σ : Type) where
  code : σ → Nat
  decode : Nat → σ
  decode_code : ∀ s, decode (code s) = s

/-- `R` contains the initial state and is closed under `step`. Executable; meant to be evaluated by
    the kernel. -/
def closedUnder {σ : Type} (S : Sys σ) (C : Coding σ) (R : Tree) : Bool :=
  R.mem (C.code S.init) &&
  R.all (fun c => (S.step (C.decode c)).all (fun t => R.mem (C.code t)))

/-- no member of `R` is bad. -/
def safeOn {σ : Type} (C : Coding σ) (R : Tree) (bad : σ → Bool) : Bool :=
  R.all (fun c => !bad (C.decode c))

/-- a checked certificate over-approximates the reachable states. -/
theorem cert_sound {σ : Type} {S : Sys σ} {C : Coding σ} {R : Tree}
    (h : closedUnder S C R = true) : ∀ s, Reachable S s → R.mem (C.code s) = true := by
  simp only [closedUnder, Bool.and_eq_true] at h
  refine Reachable.invariant (fun s => R.mem (C.code s) = true) h.1 ?_
  intro s t hs ht
  have := Tree.all_mem h.2 hs
  rw [C.decode_code] at this
  exact List.all_eq_true.mp this t ht

/-- safety from a certificate: a closed set without bad members proves that no reachable state is
    bad — for executions of any length and any interleaving of the modelled steps. -/
theorem safe_of_cert {σ : Type} {S : Sys σ} {C : Coding σ} {R : Tree} {bad : σ → Bool}
    (h : closedUnder S C R = true) (hb : safeOn C R bad = true) :
    ∀ s, Reachable S s → bad s = false := by
  intro s hr
  have hm := cert_sound h s hr
  have := Tree.all_mem hb hm
  rw [C.decode_code] at this
  simpa using this


/-! ### checking a certificate piecewise
  Evaluating `closedUnder` on a tree of thousands of states in ONE kernel call keeps every
  intermediate term of the evaluation alive in the kernel's caches. The generated certificate
  modules therefore prove `t.all (okAt …) = true` subtree by subtree (each by `decide +kernel`) and
  assemble the results with `Tree.all_node`; `cert_of_ok` turns the assembled fact into
  `closedUnder` and `safeOn`. -/

/-- the obligation of one member `c`: every successor of its decoding is in `R`, and it is not bad. -/
def okAt {σ : Type} (S : Sys σ) (C : Coding σ) (R : Tree) (bad : σ → Bool) (c : Nat) : Bool :=
  (S.step (C.decode c)).all (fun t => R.mem (C.code t)) && !bad (C.decode c)

theorem Tree.all_node {p : Nat → Bool} {l r : Tree} {k : Nat} (hl : l.all p = true)
    (hk : p k = true) (hr : r.all p = true) : (Tree.node l k r).all p = true := by
  simp [Tree.all, hl, hk, hr]

theorem Tree.all_imp {p q : Nat → Bool} (h : ∀ x, p x = true → q x = true) :
    ∀ t : Tree, t.all p = true → t.all q = true := by
  intro t
  induction t with
  | leaf => intro _; rfl
  | node l k r ihl ihr =>
    intro ht
    simp only [Tree.all, Bool.and_eq_true] at ht ⊢
    exact ⟨⟨ihl ht.1.1, h k ht.1.2⟩, ihr ht.2⟩

theorem cert_of_ok {σ : Type} {S : Sys σ} {C : Coding σ} {R : Tree} {bad : σ → Bool}
    (hinit : R.mem (C.code S.init) = true) (h : R.all (okAt S C R bad) = true) :
    closedUnder S C R = true ∧ safeOn C R bad = true := by
  constructor
  · simp only [closedUnder, Bool.and_eq_true]
    refine ⟨hinit, Tree.all_imp (fun x hx => ?_) R h⟩
    simp only [okAt, Bool.and_eq_true] at hx
    exact hx.1
  · refine Tree.all_imp (fun x hx => ?_) R h
    simp only [okAt, Bool.and_eq_true] at hx
    exact hx.2

/-! ### witnesses (for the parameter valuations under which a bad state IS reachable) -/

/-- `path S [s₁, …, sₙ]` : each `sᵢ₊₁` is a successor of `sᵢ`, starting from `S.init`. Executable with
    a decidable state equality. -/
def isPath {σ : Type} [DecidableEq σ] (S : Sys σ) : σ → List σ → Bool
  | _, [] => true
  | s, t :: rest => (S.step s).contains t && isPath S t rest

theorem reachable_of_path {σ : Type} [DecidableEq σ] (S : Sys σ) :
    ∀ (p : List σ) (s : σ), Reachable S s → isPath S s p = true → ∀ t ∈ p, Reachable S t := by
  intro p
  induction p with
  | nil => intro s _ _ t ht; cases ht
  | cons u rest ih =>
    intro s hs hp t ht
    simp only [isPath, Bool.and_eq_true, List.contains_iff_mem] at hp
    have hu : Reachable S u := Reachable.step hs hp.1
    rcases List.mem_cons.mp ht with h | h
    · rw [h]; exact hu
    · exact ih u hu hp.2 t h

/-- follow a list of successor indices from a state (choice `i` = the `i`-th successor). -/
def follow {σ : Type} (S : Sys σ) : σ → List Nat → Option σ
  | s, [] => some s
  | s, i :: is => match (S.step s)[i]? with
    | some t => follow S t is
    | none => none

theorem reachable_of_follow {σ : Type} (S : Sys σ) :
    ∀ (is : List Nat) (s t : σ), Reachable S s → follow S s is = some t → Reachable S t := by
  intro is
  induction is with
  | nil => intro s t hs h; simp only [follow, Option.some.injEq] at h; rw [← h]; exact hs
  | cons i rest ih =>
    intro s t hs h
    simp only [follow] at h
    cases hi : (S.step s)[i]? with
    | none => rw [hi] at h; cases h
    | some u =>
      rw [hi] at h
      exact ih u t (Reachable.step hs (List.mem_of_getElem? hi)) h


/-- a concrete witness: following the given successor indices from the initial state reaches a
    state satisfying `P` (the hypothesis is closed and decidable by evaluation). -/
theorem exists_reachable_of_follow {σ : Type} (S : Sys σ) (is : List Nat) (P : σ → Bool)
    (h : (follow S S.init is).any P = true) : ∃ t, Reachable S t ∧ P t = true := by
  cases hf : follow S S.init is with
  | none => rw [hf] at h; cases h
  | some t =>
    rw [hf] at h
    exact ⟨t, reachable_of_follow S is S.init t Reachable.init hf, by simpa using h⟩

/-! ### mixed-radix packing of digit lists -/

/-- `pack [(d₀,r₀), (d₁,r₁), …] = d₀ + r₀·(d₁ + r₁·(…))`. -/
def pack : List (Nat × Nat) → Nat
  | [] => 0
  | (d, r) :: rest => d + r * pack rest

def unpack : List Nat → Nat → List Nat
  | [], _ => []
  | r :: rs, n => n % r :: unpack rs (n / r)

theorem unpack_pack : ∀ (ds : List (Nat × Nat)), (∀ p ∈ ds, p.1 < p.2) →
    unpack (ds.map (·.2)) (pack ds) = ds.map (·.1) := by
  intro ds
  induction ds with
  | nil => intro _; rfl
  | cons p rest ih =>
    intro h
    obtain ⟨d, r⟩ := p
    have hd : d < r := h (d, r) (List.mem_cons_self ..)
    have hr : 0 < r := by omega
    simp only [List.map_cons, pack, unpack]
    rw [Nat.add_mul_mod_self_left, Nat.mod_eq_of_lt hd, Nat.add_mul_div_left _ _ hr,
      Nat.div_eq_of_lt hd, Nat.zero_add, ih (fun p hp => h p (List.mem_cons_of_mem _ hp))]


/-- `unpack` with the weight of the current digit as an accumulator: digit `k` is `n / Wₖ % rₖ` with
    `Wₖ = w·r₀·…·rₖ₋₁` — two native operations per digit when the weights are literals. -/
def unpackW : List Nat → Nat → Nat → List Nat
  | [], _, _ => []
  | r :: rs, w, n => n / w % r :: unpackW rs (w * r) n

theorem unpackW_eq : ∀ (rs : List Nat) (w n : Nat), unpackW rs w n = unpack rs (n / w) := by
  intro rs
  induction rs with
  | nil => intro _ _; rfl
  | cons r rest ih =>
    intro w n
    simp only [unpackW, unpack, ih, Nat.div_div_eq_div_mul]

/-! ### interleaved product of copies of one system (isolation) -/

/-- replace the `i`-th component. -/
def setAt {σ : Type} : List σ → Nat → σ → List σ
  | [], _, _ => []
  | _ :: xs, 0, t => t :: xs
  | x :: xs, i + 1, t => x :: setAt xs i t

/-- every way to let exactly one component take one step; the others are untouched. -/
def prodStep {σ : Type} (S : Sys σ) : List σ → List (List σ)
  | [] => []
  | x :: xs => (S.step x).map (· :: xs) ++ (prodStep S xs).map (x :: ·)

/-- `n` connections side by side, each an instance of `S`; a step of the product is a step of one
    component (global signals are environment steps of each component, taken one at a time). -/
def prod {σ : Type} (S : Sys σ) (n : Nat) : Sys (List σ) :=
  { init := List.replicate n S.init, step := prodStep S }

theorem prodStep_components {σ : Type} (S : Sys σ) (P : σ → Prop)
    (hs : ∀ s t, P s → t ∈ S.step s → P t) :
    ∀ (xs ys : List σ), (∀ x ∈ xs, P x) → ys ∈ prodStep S xs → ∀ y ∈ ys, P y := by
  intro xs
  induction xs with
  | nil => intro ys _ h; cases h
  | cons x rest ih =>
    intro ys hall hys y hy
    simp only [prodStep, List.mem_append, List.mem_map] at hys
    rcases hys with ⟨t, ht, rfl⟩ | ⟨zs, hzs, rfl⟩
    · rcases List.mem_cons.mp hy with h | h
      · rw [h]; exact hs x t (hall x (List.mem_cons_self ..)) ht
      · exact hall y (List.mem_cons_of_mem _ h)
    · rcases List.mem_cons.mp hy with h | h
      · rw [h]; exact hall x (List.mem_cons_self ..)
      · exact ih zs (fun z hz => hall z (List.mem_cons_of_mem _ hz)) hzs y h

/-- isolation, structurally: a product step changes exactly one component, by a step of `S`. -/
theorem prodStep_isolated {σ : Type} (S : Sys σ) :
    ∀ (xs ys : List σ), ys ∈ prodStep S xs →
      ∃ i s t, xs[i]? = some s ∧ t ∈ S.step s ∧ ys = setAt xs i t := by
  intro xs
  induction xs with
  | nil => intro ys h; cases h
  | cons x rest ih =>
    intro ys hys
    simp only [prodStep, List.mem_append, List.mem_map] at hys
    rcases hys with ⟨t, ht, rfl⟩ | ⟨zs, hzs, rfl⟩
    · exact ⟨0, x, t, rfl, ht, rfl⟩
    · obtain ⟨i, s, t, hi, ht, hz⟩ := ih zs hzs
      exact ⟨i + 1, s, t, by simpa using hi, ht, by rw [hz]; rfl⟩

/-- every component of a reachable product state is a reachable state of the component system:
    whatever holds of every reachable state of ONE connection holds of each of ANY number of
    concurrently served connections. -/
theorem prod_component_reachable {σ : Type} (S : Sys σ) (n : Nat) :
    ∀ ss, Reachable (prod S n) ss → ∀ s ∈ ss, Reachable S s := by
  refine Reachable.invariant (fun ss => ∀ s ∈ ss, Reachable S s) ?_ ?_
  · intro s hs
    rw [(List.mem_replicate.mp hs).2]; exact Reachable.init
  · intro xs ys hall hys
    exact prodStep_components S (Reachable S) (fun s t hs ht => Reachable.step hs ht) xs ys hall hys

theorem prod_safe {σ : Type} (S : Sys σ) (n : Nat) (bad : σ → Bool)
    (h : ∀ s, Reachable S s → bad s = false) :
    ∀ ss, Reachable (prod S n) ss → ∀ s ∈ ss, bad s = false :=
  fun ss hr s hs => h s (prod_component_reachable S n ss hr s hs)

end Kmip.Lts
